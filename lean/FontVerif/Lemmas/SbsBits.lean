/-
Sparse-bit-set codec: output bit stream against input bit stream.  Reading the nodes of a
written stream returns the written nodes and ends exactly at the end of the data.
-/
import FontVerif.Lemmas.SbsStream
import FontVerif.Lemmas.SbsHeight
set_option linter.unusedVariables false
namespace FontVerif.SparseBitSet

/-! ### reading in two portions -/

theorem readNodes_add (bf : Nat) (data : List Nat) :
    ∀ (a b : Nat) (st : BitIn),
      readNodes bf data (a + b) st =
        match readNodes bf data a st with
        | none => none
        | some (xs, st1) =>
          match readNodes bf data b st1 with
          | none => none
          | some (ys, st2) => some (xs ++ ys, st2)
  | 0, b, st => by
    simp only [Nat.zero_add, readNodes]
    cases readNodes bf data b st with
    | none => rfl
    | some r => rfl
  | a + 1, b, st => by
    have e : a + 1 + b = (a + b) + 1 := by omega
    rw [e]
    simp only [readNodes]
    cases h1 : nextNode bf data st with
    | none => rfl
    | some r =>
      obtain ⟨v, st'⟩ := r
      simp only []
      rw [readNodes_add bf data a b st']
      cases readNodes bf data a st' with
      | none => rfl
      | some r2 =>
        obtain ⟨xs, st1⟩ := r2
        simp only []
        cases readNodes bf data b st1 with
        | none => rfl
        | some r3 => rfl

/-- two byte strings give the same nodes at every node position ending at or before bit `P` -/
def AgreeBelow (bf P : Nat) (d d' : List Nat) : Prop :=
  ∀ st, StOk bf st → pos st + bf ≤ P → nextNode bf d' st = nextNode bf d st

theorem readNodes_agree {bf : Nat} (hbf : BfOk bf) {P : Nat} {d d' : List Nat}
    (ha : AgreeBelow bf P d d') :
    ∀ (n : Nat) (st : BitIn), StOk bf st → pos st + n * bf ≤ P →
      readNodes bf d' n st = readNodes bf d n st
  | 0, st, _, _ => by simp [readNodes]
  | n + 1, st, hst, hp => by
    rw [Nat.add_mul] at hp
    simp only [readNodes]
    rw [ha st hst (by omega)]
    cases h1 : nextNode bf d st with
    | none => rfl
    | some r =>
      obtain ⟨v, st'⟩ := r
      have a := nextNode_some hbf hst h1
      simp only []
      rw [readNodes_agree hbf ha n st' a.1 (by omega)]

/-! ### the writer -/

/-- writer state invariant: at least the header byte, all bytes `< 256`, for `BF ∈ {2,4}` the
unused high bits of a partially filled last byte are zero, otherwise no sub-byte index -/
def BitOut.WF (bf : Nat) (o : BitOut) : Prop :=
  o.rev ≠ [] ∧ (∀ b ∈ o.rev, b < 256) ∧
    (if bf = 2 ∨ bf = 4 then
      o.subIndex < 8 / bf ∧ (o.subIndex ≠ 0 → ∀ last ∈ o.rev.head?, last < 2 ^ (o.subIndex * bf))
    else o.subIndex = 0)

/-- the reader position corresponding to a writer state -/
def stOf (bf : Nat) (o : BitOut) : BitIn :=
  ⟨if o.subIndex = 0 then o.rev.length else o.rev.length - 1, o.subIndex * bf⟩

theorem wf_new {bf : Nat} (hbf : BfOk bf) (height : Nat) : (BitOut.new bf height).WF bf := by
  have := header_lt hbf height
  rcases hbf with h | h | h | h <;> subst h <;> simp [BitOut.WF, BitOut.new] <;> omega

theorem stOf_new (bf height : Nat) : stOf bf (BitOut.new bf height) = BitIn.start := by
  simp [stOf, BitOut.new, BitIn.start]

theorem bytesConsumed_stOf (bf : Nat) (hbf : 0 < bf) (o : BitOut) (h : o.rev ≠ []) :
    bytesConsumed (stOf bf o) = o.bytes.length := by
  have hl : 0 < o.rev.length := List.length_pos_iff.mpr h
  simp only [bytesConsumed, stOf, BitOut.bytes, List.length_reverse]
  by_cases h0 : o.subIndex = 0
  · simp [h0]
  · have : 0 < o.subIndex * bf := Nat.mul_pos (Nat.pos_of_ne_zero h0) hbf
    simp [h0, this]; omega

private theorem or_eq_add {a c i : Nat} (ha : a < 2 ^ i) : a ||| (2 ^ i * c) = a + 2 ^ i * c := by
  rw [Nat.or_comm, ← Nat.two_pow_add_eq_or_of_lt ha c, Nat.add_comm]

theorem agree_append {bf : Nat} (hbf : BfOk bf) (d extra : List Nat) :
    AgreeBelow bf (8 * d.length) d (d ++ extra) := by
  intro st hst hp
  simp only [StOk, pos] at hst hp
  rcases hbf with h | h | h | h <;> subst h <;> simp only [nextNode] <;> simp
  · rw [List.getElem?_append_left (by omega)]
  · rw [List.getElem?_append_left (by omega)]
  · rw [List.getElem?_append_left (by omega)]
  · rw [List.getElem?_append_left (by omega), List.getElem?_append_left (by omega),
      List.getElem?_append_left (by omega), List.getElem?_append_left (by omega)]

theorem agree_last {bf : Nat} (hbf : bf = 2 ∨ bf = 4) (pre : List Nat) (b b' t : Nat) (ht : t ≤ 8)
    (h : ∀ s, s % bf = 0 → s + bf ≤ t → b' / 2 ^ s % 2 ^ bf = b / 2 ^ s % 2 ^ bf) :
    AgreeBelow bf (8 * pre.length + t) (pre ++ [b]) (pre ++ [b']) := by
  intro st hst hp
  simp only [StOk, pos] at hst hp
  by_cases hk : st.byteIndex < pre.length
  · rcases hbf with rfl | rfl <;> simp only [nextNode] <;> simp <;>
      rw [List.getElem?_append_left hk, List.getElem?_append_left hk]
  · have hk' : st.byteIndex = pre.length := by omega
    have := h st.subIndex hst.1 (by omega)
    rcases hbf with rfl | rfl <;> simp only [nextNode] <;> simp [hk'] <;> simpa using this

/-- the five facts about one `write_node` -/
def WriteStep (bf : Nat) (o : BitOut) (w : Nat) : Prop :=
  (writeNode bf o w).WF bf ∧ StOk bf (stOf bf o) ∧
    pos (stOf bf (writeNode bf o w)) = pos (stOf bf o) + bf ∧
    AgreeBelow bf (pos (stOf bf o)) o.bytes (writeNode bf o w).bytes ∧
    nextNode bf (writeNode bf o w).bytes (stOf bf o) = some (w, stOf bf (writeNode bf o w))

private theorem writeStep_2_0 (last w : Nat) (more : List Nat) (hw : w < 4) (hlast : last < 256)
    (hmore : ∀ b ∈ more, b < 256) : WriteStep 2 ⟨last :: more, 0⟩ w := by
  have e1 : BitOut.bytes ⟨last :: more, 0⟩ = more.reverse ++ [last] := by simp [BitOut.bytes]
  have e2 : (writeNode 2 ⟨last :: more, 0⟩ w).bytes = (more.reverse ++ [last]) ++ [w] := by
    simp [writeNode, BitOut.bytes]; omega
  have e3 : pos (stOf 2 ⟨last :: more, 0⟩) = 8 * (more.reverse ++ [last]).length := by
    simp [pos, stOf]
  refine ⟨?_, ?_, ?_, ?_, ?_⟩
  · simp [writeNode, BitOut.WF]; refine ⟨⟨?_, ?_, hmore⟩, ?_⟩ <;> omega
  · simp [StOk, stOf]
  · simp [writeNode, pos, stOf] <;> omega
  · rw [e1, e2, e3]; exact agree_append (by simp [BfOk]) _ _
  · rw [e2]; simp [nextNode, stOf, writeNode] <;> omega

private theorem writeStep_2_1 (last w : Nat) (more : List Nat) (hw : w < 4) (hlast : last < 4)
    (hmore : ∀ b ∈ more, b < 256) : WriteStep 2 ⟨last :: more, 1⟩ w := by
  have e : last ||| w % 4 * 4 % 256 = last + 4 * w := by
    have : w % 4 * 4 % 256 = 2 ^ 2 * w := by omega
    rw [this, or_eq_add (by simpa using hlast)]
  have e1 : BitOut.bytes ⟨last :: more, 1⟩ = more.reverse ++ [last] := by simp [BitOut.bytes]
  have e2 : (writeNode 2 ⟨last :: more, 1⟩ w).bytes = more.reverse ++ [last + 4 * w] := by
    simp [writeNode, BitOut.bytes, e]
  have e3 : pos (stOf 2 ⟨last :: more, 1⟩) = 8 * more.reverse.length + 2 := by
    simp [pos, stOf]
  refine ⟨?_, ?_, ?_, ?_, ?_⟩
  · simp [writeNode, BitOut.WF, e]
    first | (refine ⟨⟨?_, hmore⟩, ?_⟩ <;> omega) | (refine ⟨?_, hmore⟩ <;> omega)
  · simp [StOk, stOf]
  · simp [writeNode, pos, stOf] <;> omega
  · rw [e1, e2, e3]
    refine agree_last (by simp) _ _ _ _ (by omega) ?_
    intro s hs1 hs2
    have hs : s = 0 := by omega
    rcases hs with rfl <;> simp <;> omega
  · rw [e2]; simp [nextNode, stOf, writeNode] <;> omega

private theorem writeStep_2_2 (last w : Nat) (more : List Nat) (hw : w < 4) (hlast : last < 16)
    (hmore : ∀ b ∈ more, b < 256) : WriteStep 2 ⟨last :: more, 2⟩ w := by
  have e : last ||| w % 4 * 16 % 256 = last + 16 * w := by
    have : w % 4 * 16 % 256 = 2 ^ 4 * w := by omega
    rw [this, or_eq_add (by simpa using hlast)]
  have e1 : BitOut.bytes ⟨last :: more, 2⟩ = more.reverse ++ [last] := by simp [BitOut.bytes]
  have e2 : (writeNode 2 ⟨last :: more, 2⟩ w).bytes = more.reverse ++ [last + 16 * w] := by
    simp [writeNode, BitOut.bytes, e]
  have e3 : pos (stOf 2 ⟨last :: more, 2⟩) = 8 * more.reverse.length + 4 := by
    simp [pos, stOf]
  refine ⟨?_, ?_, ?_, ?_, ?_⟩
  · simp [writeNode, BitOut.WF, e]
    first | (refine ⟨⟨?_, hmore⟩, ?_⟩ <;> omega) | (refine ⟨?_, hmore⟩ <;> omega)
  · simp [StOk, stOf]
  · simp [writeNode, pos, stOf] <;> omega
  · rw [e1, e2, e3]
    refine agree_last (by simp) _ _ _ _ (by omega) ?_
    intro s hs1 hs2
    have hs : s = 0 ∨ s = 2 := by omega
    rcases hs with rfl | rfl <;> simp <;> omega
  · rw [e2]; simp [nextNode, stOf, writeNode] <;> omega

private theorem writeStep_2_3 (last w : Nat) (more : List Nat) (hw : w < 4) (hlast : last < 64)
    (hmore : ∀ b ∈ more, b < 256) : WriteStep 2 ⟨last :: more, 3⟩ w := by
  have e : last ||| w % 4 * 64 % 256 = last + 64 * w := by
    have : w % 4 * 64 % 256 = 2 ^ 6 * w := by omega
    rw [this, or_eq_add (by simpa using hlast)]
  have e1 : BitOut.bytes ⟨last :: more, 3⟩ = more.reverse ++ [last] := by simp [BitOut.bytes]
  have e2 : (writeNode 2 ⟨last :: more, 3⟩ w).bytes = more.reverse ++ [last + 64 * w] := by
    simp [writeNode, BitOut.bytes, e]
  have e3 : pos (stOf 2 ⟨last :: more, 3⟩) = 8 * more.reverse.length + 6 := by
    simp [pos, stOf]
  refine ⟨?_, ?_, ?_, ?_, ?_⟩
  · simp [writeNode, BitOut.WF, e]
    first | (refine ⟨⟨?_, hmore⟩, ?_⟩ <;> omega) | (refine ⟨?_, hmore⟩ <;> omega)
  · simp [StOk, stOf]
  · simp [writeNode, pos, stOf] <;> omega
  · rw [e1, e2, e3]
    refine agree_last (by simp) _ _ _ _ (by omega) ?_
    intro s hs1 hs2
    have hs : s = 0 ∨ s = 2 ∨ s = 4 := by omega
    rcases hs with rfl | rfl | rfl <;> simp <;> omega
  · rw [e2]; simp [nextNode, stOf, writeNode] <;> omega

private theorem writeStep_4_0 (last w : Nat) (more : List Nat) (hw : w < 16) (hlast : last < 256)
    (hmore : ∀ b ∈ more, b < 256) : WriteStep 4 ⟨last :: more, 0⟩ w := by
  have e1 : BitOut.bytes ⟨last :: more, 0⟩ = more.reverse ++ [last] := by simp [BitOut.bytes]
  have e2 : (writeNode 4 ⟨last :: more, 0⟩ w).bytes = (more.reverse ++ [last]) ++ [w] := by
    simp [writeNode, BitOut.bytes]; omega
  have e3 : pos (stOf 4 ⟨last :: more, 0⟩) = 8 * (more.reverse ++ [last]).length := by
    simp [pos, stOf]
  refine ⟨?_, ?_, ?_, ?_, ?_⟩
  · simp [writeNode, BitOut.WF]; refine ⟨⟨?_, ?_, hmore⟩, ?_⟩ <;> omega
  · simp [StOk, stOf]
  · simp [writeNode, pos, stOf] <;> omega
  · rw [e1, e2, e3]; exact agree_append (by simp [BfOk]) _ _
  · rw [e2]; simp [nextNode, stOf, writeNode] <;> omega

private theorem writeStep_4_1 (last w : Nat) (more : List Nat) (hw : w < 16) (hlast : last < 16)
    (hmore : ∀ b ∈ more, b < 256) : WriteStep 4 ⟨last :: more, 1⟩ w := by
  have e : last ||| w % 16 * 16 % 256 = last + 16 * w := by
    have : w % 16 * 16 % 256 = 2 ^ 4 * w := by omega
    rw [this, or_eq_add (by simpa using hlast)]
  have e1 : BitOut.bytes ⟨last :: more, 1⟩ = more.reverse ++ [last] := by simp [BitOut.bytes]
  have e2 : (writeNode 4 ⟨last :: more, 1⟩ w).bytes = more.reverse ++ [last + 16 * w] := by
    simp [writeNode, BitOut.bytes, e]
  have e3 : pos (stOf 4 ⟨last :: more, 1⟩) = 8 * more.reverse.length + 4 := by
    simp [pos, stOf]
  refine ⟨?_, ?_, ?_, ?_, ?_⟩
  · simp [writeNode, BitOut.WF, e]
    first | (refine ⟨⟨?_, hmore⟩, ?_⟩ <;> omega) | (refine ⟨?_, hmore⟩ <;> omega)
  · simp [StOk, stOf]
  · simp [writeNode, pos, stOf] <;> omega
  · rw [e1, e2, e3]
    refine agree_last (by simp) _ _ _ _ (by omega) ?_
    intro s hs1 hs2
    have hs : s = 0 := by omega
    rcases hs with rfl <;> simp <;> omega
  · rw [e2]; simp [nextNode, stOf, writeNode] <;> omega

/-- one `write_node`, for `BF ∈ {2, 4}` -/
theorem writeNode_step_small {bf : Nat} (hbf : bf = 2 ∨ bf = 4) (o : BitOut) (w : Nat)
    (hw : w < 2 ^ bf) (hwf : o.WF bf) : WriteStep bf o w := by
  obtain ⟨rev, sub⟩ := o
  obtain ⟨hne, hbytes, hsub⟩ := hwf
  simp only [hbf, if_true] at hsub
  cases rev with
  | nil => exact absurd rfl hne
  | cons last more =>
    have hlast : last < 256 := hbytes last (by simp)
    have hmore : ∀ b ∈ more, b < 256 := fun b hb => hbytes b (by simp [hb])
    have hhi : sub ≠ 0 → last < 2 ^ (sub * bf) := fun h => hsub.2 h last (by simp)
    rcases hbf with rfl | rfl
    · have hs : sub = 0 ∨ sub = 1 ∨ sub = 2 ∨ sub = 3 := by have := hsub.1; omega
      rcases hs with rfl | rfl | rfl | rfl
      · exact writeStep_2_0 last w more hw hlast hmore
      · exact writeStep_2_1 last w more hw (by simpa using hhi (by omega)) hmore
      · exact writeStep_2_2 last w more hw (by simpa using hhi (by omega)) hmore
      · exact writeStep_2_3 last w more hw (by simpa using hhi (by omega)) hmore
    · have hs : sub = 0 ∨ sub = 1 := by have := hsub.1; omega
      rcases hs with rfl | rfl
      · exact writeStep_4_0 last w more hw hlast hmore
      · exact writeStep_4_1 last w more hw (by simpa using hhi (by omega)) hmore

private theorem writeStep_8 (rev : List Nat) (w : Nat) (hw : w < 256) (hne : rev ≠ [])
    (hb : ∀ b ∈ rev, b < 256) : WriteStep 8 ⟨rev, 0⟩ w := by
  have hl : 0 < rev.length := List.length_pos_iff.mpr hne
  have e1 : BitOut.bytes ⟨rev, 0⟩ = rev.reverse := by simp [BitOut.bytes]
  have e2 : (writeNode 8 ⟨rev, 0⟩ w).bytes = rev.reverse ++ [w] := by
    simp [writeNode, BitOut.bytes]; omega
  have e3 : pos (stOf 8 ⟨rev, 0⟩) = 8 * rev.reverse.length := by simp [pos, stOf]
  refine ⟨?_, ?_, ?_, ?_, ?_⟩
  · simp [writeNode, BitOut.WF]; exact ⟨by omega, hb⟩
  · simp [StOk, stOf]
  · simp [writeNode, pos, stOf] <;> omega
  · rw [e1, e2, e3]; exact agree_append (by simp [BfOk]) _ _
  · rw [e2]; simp [nextNode, stOf, writeNode]

private theorem writeStep_32 (rev : List Nat) (w : Nat) (hw : w < 2 ^ 32) (hne : rev ≠ [])
    (hb : ∀ b ∈ rev, b < 256) : WriteStep 32 ⟨rev, 0⟩ w := by
  have hl : 0 < rev.length := List.length_pos_iff.mpr hne
  have e1 : BitOut.bytes ⟨rev, 0⟩ = rev.reverse := by simp [BitOut.bytes]
  have e2 : (writeNode 32 ⟨rev, 0⟩ w).bytes = rev.reverse ++
      [w % 256, w / 256 % 256, w / 65536 % 256, w / 16777216 % 256] := by
    simp [writeNode, BitOut.bytes]
  have e3 : pos (stOf 32 ⟨rev, 0⟩) = 8 * rev.reverse.length := by simp [pos, stOf]
  refine ⟨?_, ?_, ?_, ?_, ?_⟩
  · simp [writeNode, BitOut.WF]
    exact ⟨by omega, by omega, by omega, by omega, hb⟩
  · simp [StOk, stOf]
  · simp [writeNode, pos, stOf] <;> omega
  · rw [e1, e2, e3]; exact agree_append (by simp [BfOk]) _ _
  · rw [e2]
    simp only [nextNode, stOf]
    simp [writeNode]
    omega

/-- one `write_node`: the writer invariant is kept, the reader position advances by one node,
earlier nodes read the same, and the node just written reads back -/
theorem writeNode_step {bf : Nat} (hbf : BfOk bf) (o : BitOut) (w : Nat)
    (hw : w < 2 ^ bf) (hwf : o.WF bf) : WriteStep bf o w := by
  rcases hbf with h | h | h | h
  · exact writeNode_step_small (Or.inl h) o w hw hwf
  · exact writeNode_step_small (Or.inr h) o w hw hwf
  · subst h
    obtain ⟨rev, sub⟩ := o
    obtain ⟨hne, hb, hs⟩ := hwf
    simp at hs; subst hs
    exact writeStep_8 rev w (by simpa using hw) hne hb
  · subst h
    obtain ⟨rev, sub⟩ := o
    obtain ⟨hne, hb, hs⟩ := hwf
    simp at hs; subst hs
    exact writeStep_32 rev w hw hne hb

/-- writing a list of nodes, then reading as many nodes from where the writer stood -/
theorem readNodes_foldl_writeNode {bf : Nat} (hbf : BfOk bf) :
    ∀ (ws : List Nat) (o : BitOut), (∀ w ∈ ws, w < 2 ^ bf) → o.WF bf →
      (ws.foldl (writeNode bf) o).WF bf ∧
      pos (stOf bf (ws.foldl (writeNode bf) o)) = pos (stOf bf o) + ws.length * bf ∧
      AgreeBelow bf (pos (stOf bf o)) o.bytes (ws.foldl (writeNode bf) o).bytes ∧
      readNodes bf (ws.foldl (writeNode bf) o).bytes ws.length (stOf bf o)
        = some (ws, stOf bf (ws.foldl (writeNode bf) o))
  | [], o, _, hwf => by
    refine ⟨hwf, by simp, fun st _ _ => rfl, by simp [readNodes]⟩
  | w :: rest, o, hws, hwf => by
    obtain ⟨s1, s2, s3, s4, s5⟩ := writeNode_step hbf o w (hws w (by simp)) hwf
    obtain ⟨i1, i2, i3, i4⟩ := readNodes_foldl_writeNode hbf rest (writeNode bf o w)
      (fun x hx => hws x (by simp [hx])) s1
    simp only [List.foldl_cons, List.length_cons]
    refine ⟨i1, ?_, ?_, ?_⟩
    · rw [i2, s3, Nat.add_mul]; omega
    · intro st hst hp
      rw [i3 st hst (by omega), s4 st hst hp]
    · simp only [readNodes]
      rw [i3 (stOf bf o) s2 (by omega), s5]
      simp only [i4]

/-- `write_node` never touches the first byte once it is not the byte being filled -/
theorem getLast?_writeNode (bf : Nat) (o : BitOut) (w : Nat) (hne : o.rev ≠ [])
    (hs : o.subIndex = 0 ∨ 2 ≤ o.rev.length) :
    (writeNode bf o w).rev.getLast? = o.rev.getLast? ∧ 2 ≤ (writeNode bf o w).rev.length := by
  obtain ⟨rev, sub⟩ := o
  cases rev with
  | nil => exact absurd rfl hne
  | cons a more =>
    simp only [writeNode]
    split
    · by_cases h0 : sub = 0
      · simp [h0]
      · simp only [h0, if_false]
        cases more with
        | nil => simp at hs; exact absurd hs h0
        | cons b more' => simp
    · split <;> simp

theorem head_foldl_writeNode (bf : Nat) :
    ∀ (ws : List Nat) (o : BitOut), o.rev ≠ [] → (o.subIndex = 0 ∨ 2 ≤ o.rev.length) →
      (ws.foldl (writeNode bf) o).bytes.head? = o.bytes.head?
  | [], o, _, _ => rfl
  | w :: rest, o, hne, hs => by
    have h := getLast?_writeNode bf o w hne hs
    have hne' : (writeNode bf o w).rev ≠ [] := by
      intro hc; rw [hc] at h; simp at h
    simp only [List.foldl_cons]
    rw [head_foldl_writeNode bf rest (writeNode bf o w) hne' (Or.inr h.2)]
    simp only [BitOut.bytes, List.head?_reverse]
    exact h.1

/-- `readNodes` of the written stream returns the written nodes, and ends exactly at the end
of the data -/
theorem readNodes_written {bf : Nat} (hbf : BfOk bf) (height : Nat) (ws : List Nat)
    (hws : ∀ w ∈ ws, w < 2 ^ bf) :
    ∃ st, readNodes bf (ws.foldl (writeNode bf) (BitOut.new bf height)).bytes ws.length BitIn.start
        = some (ws, st) ∧
      bytesConsumed st = (ws.foldl (writeNode bf) (BitOut.new bf height)).bytes.length ∧
      (∀ b ∈ (ws.foldl (writeNode bf) (BitOut.new bf height)).bytes, b < 256) ∧
      (ws.foldl (writeNode bf) (BitOut.new bf height)).bytes.head?
        = some ((height % 32) * 4 + bitId bf) := by
  obtain ⟨h1, h2, h3, h4⟩ := readNodes_foldl_writeNode hbf ws (BitOut.new bf height) hws
    (wf_new hbf height)
  rw [stOf_new] at h4 h3
  refine ⟨_, h4, bytesConsumed_stOf bf (bfOk_pos hbf) _ h1.1, ?_, ?_⟩
  · intro b hb
    exact h1.2.1 b (by simpa [BitOut.bytes] using hb)
  · rw [head_foldl_writeNode bf ws (BitOut.new bf height) (by simp [BitOut.new])
      (Or.inl (by simp [BitOut.new]))]
    simp [BitOut.new, BitOut.bytes]

end FontVerif.SparseBitSet
