/-
Decoded tuples (scalar, explicit flags, deltas) and the fold of their contributions: the level at
which the headline bound of C10 is stated (Props/C10Apply.lean `applied_outline_within_rounding`).
-/
import FontVerif.Lemmas.GvarSum
import FontVerif.Lemmas.GvarMulti
set_option linter.unusedVariables false
namespace FontVerif.GvarApply
open FontVerif FontVerif.Iup

/-- a decoded tuple as `simple_glyph` sees it after `compute_scalar` and the delta iterator: the
16.16 scalar, which points carry an explicit delta (all of them for a dense tuple) and the deltas
(zero where not explicit) -/
structure DTuple where
  s : Int
  ds : List Iup.Pt
  has : List Bool

/-- the working buffer after `accumulate_sparse_deltas` (`accSparse_eq_workOf`) -/
def DTuple.work (points : List Iup.Pt) (t : DTuple) : List Iup.Pt :=
  workOf points (t.ds.map fun d => (d.1 * t.s, d.2 * t.s))

/-- the contribution of one tuple: `working − point` after `interpolate_deltas` -/
def decodedContribution (points : List Iup.Pt) (ends : List Nat) (t : DTuple) : Option (List Iup.Pt) :=
  (readerInterpolate points t.has ends (t.work points)).map fun out =>
    (List.range points.length).map fun k => ptSub (out.getD k (0, 0)) (ptFromI32 (points.getD k (0, 0)))

/-- `simple_glyph` on decoded tuples: contributions added in tuple order with wrapping addition -/
def applyDecoded (points : List Iup.Pt) (ends : List Nat) (ts : List DTuple) : Option (List Iup.Pt) :=
  ts.foldl (fun (o : Option (List Iup.Pt)) t => match o with
    | none => none
    | some d => (decodedContribution points ends t).map (stepAdd d))
    (some ((List.range points.length).map fun _ => ((0 : Int), (0 : Int))))

theorem applyDecoded_fold (points : List Iup.Pt) (ends : List Nat) (f : DTuple → List Iup.Pt) :
    ∀ (ts : List DTuple) (acc : List Iup.Pt), (∀ t ∈ ts, decodedContribution points ends t = some (f t)) →
    ts.foldl (fun (o : Option (List Iup.Pt)) t => match o with
      | none => none
      | some d => (decodedContribution points ends t).map (stepAdd d)) (some acc)
      = some ((ts.map f).foldl stepAdd acc) := by
  intro ts
  induction ts with
  | nil => intro acc _; rfl
  | cons t ts ih =>
    intro acc h
    simp only [List.foldl_cons, List.map_cons, h t (by simp), Option.map_some]
    exact ih _ (fun x hx => h x (by simp [hx]))

/-- wrapping every summand first does not change the wrapped sum -/
theorem wrap_sum_wrap : ∀ (l : List Int), wrapI32 ((l.map wrapI32).sum) = wrapI32 l.sum := by
  intro l
  induction l with
  | nil => rfl
  | cons a l ih =>
    simp only [List.map_cons, List.sum_cons]
    rw [wrapI32_wrap_add, ← wrapI32_add_wrap, ih, wrapI32_add_wrap]

/-- the contours `(first, last)` described by the end points -/
def contoursOf : Nat → List Nat → List (Nat × Nat)
  | _, [] => []
  | p, e :: es => (p, e) :: contoursOf (e + 1) es

theorem ContoursAll_mem {P : Nat → Nat → Prop} : ∀ (ends : List Nat) (p : Nat), ContoursAll P p ends →
    ∀ c ∈ contoursOf p ends, P c.1 c.2 := by
  intro ends
  induction ends with
  | nil => intro p _ c hc; simp [contoursOf] at hc
  | cons e es ih =>
    intro p ⟨h1, h2⟩ c hc
    simp only [contoursOf, List.mem_cons] at hc
    rcases hc with rfl | hc
    · exact h1
    · exact ih _ h2 c hc

theorem ContoursWF_all (np : Nat) : ∀ (ends : List Nat) (p : Nat), ContoursWF np p ends →
    ContoursAll (fun a b => a ≤ b ∧ b < np) p ends := by
  intro ends
  induction ends with
  | nil => intro p _; trivial
  | cons e es ih => intro p ⟨h1, h2, h3⟩; exact ⟨⟨h1, h2⟩, ih _ h3⟩

/-- the `interpolate_deltas` result of a decoded tuple (empty when it fails) -/
noncomputable def outOf (points : List Iup.Pt) (ends : List Nat) (t : DTuple) : List Iup.Pt :=
  (readerInterpolate points t.has ends (t.work points)).getD []

theorem lookupV_mem {α : Type} (calls : List (Nat × α)) (k : Nat) (v : α) (h : lookupV calls k = some v) :
    (k, v) ∈ calls := by
  unfold lookupV at h
  cases hf : calls.find? (fun c => c.1 == k) with
  | none => simp [hf] at h
  | some c =>
    simp only [hf, Option.map_some, Option.some.injEq] at h
    have h1 := List.mem_of_find?_eq_some hf
    have h2 := List.find?_some hf
    simp only [beq_iff_eq] at h2
    rw [← h, ← h2]; exact h1

/-- the explicit deltas (already scaled) and flags a sparse tuple's two passes leave, per point -/
def scaledEx (pts : List Nat) (xs ys : List Int) (s : Int) (np : Nat) : List Iup.Pt :=
  (List.range np).map fun k =>
    ((match lookupV (pts.zip xs) k with | some x => x * s | none => 0),
     (match lookupV (pts.zip ys) k with | some y => y * s | none => 0))

def listedFlags (pts : List Nat) (xs : List Int) (np : Nat) : List Bool :=
  (List.range np).map fun k => (lookupV (pts.zip xs) k).isSome

/-- **the glue: the buffer after `accumulate_sparse_deltas` IS `workOf points (scaled explicit deltas)`**
(list equality, from `accSparse_pointwise` by extensionality), for values within `±Δ`, coordinates
within `±M`, `M + Δ ≤ 32767`, scalar in `[0, 65536]`: nothing wraps and every product is exact. -/
theorem accSparse_eq_workOf (pts : List Nat) (xs ys : List Int) (ptBytes dBytes bs rest : List Nat)
    (s : Int) (points : List Iup.Pt)
    (hcount : (PackedDeltas.countAndCountBytes ptBytes).1 = pts.length) (hit : PackedDeltas.ptIterOf ptBytes = .list pts)
    (hx : readSparse (pts.length + 1) 0 pts.length (.list pts) dBytes = some (pts.zip xs, bs))
    (hy : readSparse (pts.length + 1) 0 pts.length (.list pts) bs = some (pts.zip ys, rest))
    (hnd : pts.Nodup) (hlx : xs.length = pts.length) (hly : ys.length = pts.length)
    (M Δ : Int) (hM : 0 ≤ M) (hΔ : 0 ≤ Δ) (hMΔ : M + Δ ≤ 32767) (hs : 0 ≤ s ∧ s ≤ 65536)
    (hpts : ∀ k, (-M ≤ (getP points k).1 ∧ (getP points k).1 ≤ M) ∧ (-M ≤ (getP points k).2 ∧ (getP points k).2 ≤ M))
    (hxs : ∀ v ∈ xs, -Δ ≤ v ∧ v ≤ Δ) (hys : ∀ v ∈ ys, -Δ ≤ v ∧ v ≤ Δ) :
    accSparse ptBytes dBytes s (points.map ptFromI32) (points.map fun _ => false)
      = some (workOf points (scaledEx pts xs ys s points.length), listedFlags pts xs points.length) := by
  obtain ⟨buf', has', e, l1, l2, hpw⟩ := accSparse_pointwise pts xs ys ptBytes dBytes bs rest s
    (points.map ptFromI32) (points.map fun _ => false) points.length (by simp) (by simp) hcount hit hx hy hnd hlx hly
  rw [e]
  have hprod : ∀ v : Int, -Δ ≤ v ∧ v ≤ Δ → fxScaled s v = v * s ∧ -(Δ * 65536) ≤ v * s ∧ v * s ≤ Δ * 65536 := by
    intro v hv
    have b1 : v * s ≤ Δ * 65536 := by nlinarith
    have b2 : -(Δ * 65536) ≤ v * s := by nlinarith
    exact ⟨fxScaled_exact s v (by omega) (by omega), b2, b1⟩
  have hbuf : ∀ k, k < points.length → (points.map ptFromI32).getD k (0, 0)
      = ((getP points k).1 * 65536, (getP points k).2 * 65536) := by
    intro k hk
    rw [List.getD_eq_getElem?_getD, List.getElem?_map]
    unfold getP
    rw [List.getD_eq_getElem?_getD, List.getElem?_eq_getElem hk]
    simp only [Option.map_some, Option.getD_some, ptFromI32, Fixed.fromI32]
    have := hpts k
    unfold getP at this
    rw [List.getD_eq_getElem?_getD, List.getElem?_eq_getElem hk] at this
    simp only [Option.getD_some] at this
    obtain ⟨⟨a1, a2⟩, ⟨a3, a4⟩⟩ := this
    rw [wrapI32_of_in (by omega) (by omega), wrapI32_of_in (by omega) (by omega)]
  congr 1
  refine Prod.ext ?_ ?_
  · apply ext_getP
    · simp [l1, workOf]
    · intro k hk
      rw [l1] at hk
      obtain ⟨p1, p2, _⟩ := hpw k hk
      rw [getP_workOf _ _ k hk]
      have hex : getP (scaledEx pts xs ys s points.length) k =
          ((match lookupV (pts.zip xs) k with | some x => x * s | none => 0),
           (match lookupV (pts.zip ys) k with | some y => y * s | none => 0)) := by
        unfold scaledEx; rw [getP_map_range _ _ k hk]
      rw [hex]
      obtain ⟨⟨c1, c2⟩, ⟨c3, c4⟩⟩ := hpts k
      apply Prod.ext
      · show (buf'.getD k (0, 0)).1 = _
        rw [p1, hbuf k hk]
        cases hl : lookupV (pts.zip xs) k with
        | none => simp
        | some x =>
          have hm := (List.of_mem_zip (lookupV_mem _ _ _ hl)).2
          obtain ⟨q1, q2, q3⟩ := hprod x (hxs x hm)
          simp only [q1, Iup.fxAdd]
          exact wrapI32_of_in (by omega) (by omega)
      · show (buf'.getD k (0, 0)).2 = _
        rw [p2, hbuf k hk]
        cases hl : lookupV (pts.zip ys) k with
        | none => simp
        | some y =>
          have hm := (List.of_mem_zip (lookupV_mem _ _ _ hl)).2
          obtain ⟨q1, q2, q3⟩ := hprod y (hys y hm)
          simp only [q1, Iup.fxAdd]
          exact wrapI32_of_in (by omega) (by omega)
  · apply List.ext_getElem (by simp [l2, listedFlags])
    intro k h1 h2
    have hk : k < points.length := by rw [l2] at h1; exact h1
    obtain ⟨_, _, p3⟩ := hpw k hk
    have e1 : has'.getD k false = has'[k] := by
      rw [List.getD_eq_getElem?_getD, List.getElem?_eq_getElem h1]; rfl
    rw [← e1, p3]
    simp [listedFlags, hk]


/-- a raw tuple with explicit points decodes to `dt`: same scalar, and the fast path leaves `dt`'s
working buffer and flags (dischargeable with `accSparse_eq_workOf`) -/
def SparseDecodes (points : List Iup.Pt) (sp : Option (List Nat)) (ts : GvarData.RawTuple × Int) (dt : DTuple) : Prop :=
  ts.1.allPoints sp = false ∧
  accSparse (ts.1.ptsAndDeltas sp).1 (ts.1.ptsAndDeltas sp).2 ts.2 (points.map ptFromI32) (points.map fun _ => false)
    = some (dt.work points, dt.has)

theorem decodedStep_none {points : List Iup.Pt} {ends : List Nat} : ∀ (l : List DTuple),
    l.foldl (fun (o : Option (List Iup.Pt)) t => match o with
      | none => none
      | some d => (decodedContribution points ends t).map (stepAdd d)) none = none := by
  intro l; induction l with
  | nil => rfl
  | cons a l ih => simpa using ih

/-- the model's fold over sparse tuples is the fold over their decoded tuples -/
theorem fold_sparse_eq_decoded (points : List Iup.Pt) (ends : List Nat) (sp : Option (List Nat)) :
    ∀ (l : List (GvarData.RawTuple × Int)) (dts : List DTuple) (acc : List Iup.Pt),
      l.length = dts.length → acc.length = points.length →
      (∀ p ∈ l.zip dts, SparseDecodes points sp p.1 p.2) →
      l.foldl (fun (o : Option (List Iup.Pt)) (ts : GvarData.RawTuple × Int) => match o with
        | none => none
        | some d => if ts.1.allPoints sp then accDense (ts.1.ptsAndDeltas sp).2 ts.2 d
                    else simpleSparseTuple points ends ts.1 sp ts.2 d) (some acc)
      = dts.foldl (fun (o : Option (List Iup.Pt)) t => match o with
        | none => none
        | some d => (decodedContribution points ends t).map (stepAdd d)) (some acc) := by
  intro l
  induction l with
  | nil => intro dts acc hl _ _; cases dts with
    | nil => rfl
    | cons _ _ => simp at hl
  | cons ts l ih =>
    intro dts acc hl ha hd
    cases dts with
    | nil => simp at hl
    | cons dt dts =>
      obtain ⟨hsp, hacc⟩ := hd (ts, dt) (by simp)
      simp only [List.foldl_cons, hsp, Bool.false_eq_true, if_false]
      cases hstep : simpleSparseTuple points ends ts.1 sp ts.2 acc with
      | none =>
        -- then `interpolate_deltas` failed, and so does the decoded step
        have : decodedContribution points ends dt = none := by
          unfold simpleSparseTuple at hstep
          simp only [hacc] at hstep
          unfold decodedContribution
          cases hri : readerInterpolate points dt.has ends (dt.work points) with
          | none => rfl
          | some out => simp [hri] at hstep
        rw [this]
        simp only [Option.map_none]
        refine Eq.trans ?_ (decodedStep_none (points := points) (ends := ends) dts).symm
        exact foldl_none (fun d (ts : GvarData.RawTuple × Int) => if ts.1.allPoints sp then accDense (ts.1.ptsAndDeltas sp).2 ts.2 d
          else simpleSparseTuple points ends ts.1 sp ts.2 d) l
      | some acc' =>
        obtain ⟨c, e, hc⟩ := step_contribution points ends sp acc ts acc' ha (by simp [hsp, hstep])
        unfold TupleContribution at hc
        simp only [hsp, Bool.false_eq_true, if_false] at hc
        obtain ⟨buf, has, out, h1, h2, h3⟩ := hc
        rw [hacc] at h1
        simp only [Option.some.injEq, Prod.mk.injEq] at h1
        obtain ⟨rfl, rfl⟩ := h1
        have hdc : decodedContribution points ends dt = some c := by
          unfold decodedContribution; rw [h2, h3]; rfl
        rw [hdc]
        simp only [Option.map_some]
        rw [← e]
        exact ih dts acc' (by simpa using hl) (by rw [e, stepAdd_length]; exact ha)
          (fun p hp => hd p (by simp [hp]))


/-- the unscaled explicit deltas of a sparse tuple, per point (zero where the point is not listed) -/
def listedDs (pts : List Nat) (xs ys : List Int) (np : Nat) : List Iup.Pt :=
  (List.range np).map fun k =>
    ((match lookupV (pts.zip xs) k with | some x => x | none => 0),
     (match lookupV (pts.zip ys) k with | some y => y | none => 0))

theorem scaledEx_eq (pts : List Nat) (xs ys : List Int) (s : Int) (np : Nat) :
    scaledEx pts xs ys s np = (listedDs pts xs ys np).map fun d => (d.1 * s, d.2 * s) := by
  unfold scaledEx listedDs
  rw [List.map_map]
  apply List.map_congr_left
  intro k _
  simp only [Function.comp]
  cases lookupV (pts.zip xs) k <;> cases lookupV (pts.zip ys) k <;> simp

/-- **well-formedness of a sparse tuple's packed streams, as skrifa reads them.**  The point-number
data decodes to `pts` (all `count` of them), the two passes of `read_sparse_deltas` succeed and pair
the points with `xs` / `ys` (true for every stream of valid runs, `sparse_fast_path_eq_iterator`),
the values are within `±Δ`, and — the one real restriction — the point numbers are DISTINCT.
Out-of-range point numbers are allowed: skrifa skips them (`deltas.get_mut(ix)` is `None`), and so
does the decoded tuple.  A duplicate point number makes skrifa add that point's deltas twice, which
no specification-level tuple describes: excluded here (`pts.Nodup`).  `dt` is the decoded tuple. -/
def SparseWF (points : List Iup.Pt) (sp : Option (List Nat)) (Δ : Int) (ts : GvarData.RawTuple × Int) (dt : DTuple) : Prop :=
  ts.1.allPoints sp = false ∧
  ∃ pts xs ys bs rest,
    PackedDeltas.ptIterOf (ts.1.ptsAndDeltas sp).1 = .list pts ∧
    (PackedDeltas.countAndCountBytes (ts.1.ptsAndDeltas sp).1).1 = pts.length ∧
    readSparse (pts.length + 1) 0 pts.length (.list pts) (ts.1.ptsAndDeltas sp).2 = some (pts.zip xs, bs) ∧
    readSparse (pts.length + 1) 0 pts.length (.list pts) bs = some (pts.zip ys, rest) ∧
    pts.Nodup ∧ xs.length = pts.length ∧ ys.length = pts.length ∧
    (∀ v ∈ xs, -Δ ≤ v ∧ v ≤ Δ) ∧ (∀ v ∈ ys, -Δ ≤ v ∧ v ≤ Δ) ∧
    dt = ⟨ts.2, listedDs pts xs ys points.length, listedFlags pts xs points.length⟩

/-- a well-formed sparse tuple decodes: the fast path leaves the decoded tuple's buffer and flags -/
theorem SparseWF.decodes (points : List Iup.Pt) (sp : Option (List Nat)) (Δ M : Int)
    (ts : GvarData.RawTuple × Int) (dt : DTuple) (h : SparseWF points sp Δ ts dt)
    (hM : 0 ≤ M) (hΔ : 0 ≤ Δ) (hMΔ : M + Δ ≤ 32767) (hs : 0 ≤ ts.2 ∧ ts.2 ≤ 65536)
    (hpts : ∀ k, (-M ≤ (getP points k).1 ∧ (getP points k).1 ≤ M) ∧ (-M ≤ (getP points k).2 ∧ (getP points k).2 ≤ M)) :
    SparseDecodes points sp ts dt := by
  obtain ⟨h0, pts, xs, ys, bs, rest, h1, h2, h3, h4, h5, h6, h7, h8, h9, rfl⟩ := h
  refine ⟨h0, ?_⟩
  rw [accSparse_eq_workOf pts xs ys _ _ bs rest ts.2 points h2 h1 h3 h4 h5 h6 h7 M Δ hM hΔ hMΔ hs hpts h8 h9]
  simp only [DTuple.work, scaledEx_eq]


/-- one model step (either kind) is the decoded step -/
def StepDecodes (points : List Iup.Pt) (ends : List Nat) (sp : Option (List Nat))
    (ts : GvarData.RawTuple × Int) (dt : DTuple) : Prop :=
  ∀ acc : List Iup.Pt, acc.length = points.length →
    (if ts.1.allPoints sp then accDense (ts.1.ptsAndDeltas sp).2 ts.2 acc
      else simpleSparseTuple points ends ts.1 sp ts.2 acc)
    = (decodedContribution points ends dt).map (stepAdd acc)

theorem fold_eq_decoded (points : List Iup.Pt) (ends : List Nat) (sp : Option (List Nat)) :
    ∀ (l : List (GvarData.RawTuple × Int)) (dts : List DTuple) (acc : List Iup.Pt),
      l.length = dts.length → acc.length = points.length →
      (∀ p ∈ l.zip dts, StepDecodes points ends sp p.1 p.2) →
      l.foldl (fun (o : Option (List Iup.Pt)) (ts : GvarData.RawTuple × Int) => match o with
        | none => none
        | some d => if ts.1.allPoints sp then accDense (ts.1.ptsAndDeltas sp).2 ts.2 d
                    else simpleSparseTuple points ends ts.1 sp ts.2 d) (some acc)
      = dts.foldl (fun (o : Option (List Iup.Pt)) t => match o with
        | none => none
        | some d => (decodedContribution points ends t).map (stepAdd d)) (some acc) := by
  intro l
  induction l with
  | nil => intro dts acc hl _ _; cases dts with
    | nil => rfl
    | cons _ _ => simp at hl
  | cons ts l ih =>
    intro dts acc hl ha hd
    cases dts with
    | nil => simp at hl
    | cons dt dts =>
      have hstep := hd (ts, dt) (by simp) acc ha
      simp only [List.foldl_cons]
      rw [hstep]
      cases hc : decodedContribution points ends dt with
      | none =>
        simp only [Option.map_none]
        refine Eq.trans ?_ (decodedStep_none (points := points) (ends := ends) dts).symm
        exact foldl_none (fun d (ts : GvarData.RawTuple × Int) => if ts.1.allPoints sp then accDense (ts.1.ptsAndDeltas sp).2 ts.2 d
          else simpleSparseTuple points ends ts.1 sp ts.2 d) l
      | some c =>
        simp only [Option.map_some]
        exact ih dts _ (by simpa using hl) (by rw [stepAdd_length]; exact ha) (fun p hp => hd p (by simp [hp]))

theorem SparseDecodes.step (points : List Iup.Pt) (ends : List Nat) (sp : Option (List Nat))
    (ts : GvarData.RawTuple × Int) (dt : DTuple) (h : SparseDecodes points sp ts dt) :
    StepDecodes points ends sp ts dt := by
  intro acc ha
  have := fold_sparse_eq_decoded points ends sp [ts] [dt] acc rfl ha (by intro p hp; simp at hp; rw [hp]; exact h)
  simpa using this

/-- an all-points tuple as skrifa reads it: both `read_dense_deltas` passes succeed -/
def DenseWF (points : List Iup.Pt) (sp : Option (List Nat)) (Δ : Int) (ts : GvarData.RawTuple × Int) (dt : DTuple) : Prop :=
  ts.1.allPoints sp = true ∧
  ∃ xs ys bs rest,
    PackedDeltas.readDense (points.length + 1) 0 points.length (ts.1.ptsAndDeltas sp).2 = some (xs, bs) ∧
    PackedDeltas.readDense (points.length + 1) 0 points.length bs = some (ys, rest) ∧
    (∀ k, -Δ ≤ xs.getD k 0 ∧ xs.getD k 0 ≤ Δ) ∧ (∀ k, -Δ ≤ ys.getD k 0 ∧ ys.getD k 0 ≤ Δ) ∧
    dt = ⟨ts.2, (List.range points.length).map fun k => (xs.getD k 0, ys.getD k 0),
      (List.range points.length).map fun _ => true⟩

/-- every point is in some contour or behind the last one -/
theorem point_in_contour_or_tail (np : Nat) : ∀ (ends : List Nat) (p : Nat), ContoursWF np p ends →
    ∀ k, p ≤ k → (∃ c ∈ contoursOf p ends, c.1 ≤ k ∧ k ≤ c.2) ∨ endOf p ends ≤ k := by
  intro ends
  induction ends with
  | nil => intro p _ k hk; exact Or.inr hk
  | cons e es ih =>
    intro p ⟨h1, h2, h3⟩ k hk
    by_cases hke : k ≤ e
    · exact Or.inl ⟨(p, e), by simp [contoursOf], hk, hke⟩
    · rcases ih (e + 1) h3 k (by omega) with ⟨c, hc, hck⟩ | h
      · exact Or.inl ⟨c, by simp [contoursOf, hc], hck⟩
      · exact Or.inr h

/-- the dense model step given the decoded contribution of the all-explicit tuple -/
theorem DenseWF.step (points : List Iup.Pt) (ends : List Nat) (sp : Option (List Nat)) (Δ : Int)
    (ts : GvarData.RawTuple × Int) (dt : DTuple) (h : DenseWF points sp Δ ts dt)
    (hc : ∀ (xs ys : List Int), (∀ k, -Δ ≤ xs.getD k 0 ∧ xs.getD k 0 ≤ Δ) → (∀ k, -Δ ≤ ys.getD k 0 ∧ ys.getD k 0 ≤ Δ) →
      decodedContribution points ends ⟨ts.2, (List.range points.length).map fun k => (xs.getD k 0, ys.getD k 0),
          (List.range points.length).map fun _ => true⟩
        = some ((List.range points.length).map fun k =>
        (fxScaled ts.2 (xs.getD k 0), fxScaled ts.2 (ys.getD k 0)))) :
    StepDecodes points ends sp ts dt := by
  obtain ⟨h0, xs, ys, bs, rest, hx, hy, hbx, hby, rfl⟩ := h
  intro acc ha
  rw [hc xs ys hbx hby]
  simp only [h0, if_true, Option.map_some]
  unfold accDense
  simp only [ha, hx, hy]
  congr 1
  unfold stepAdd
  rw [ha]
  apply List.map_congr_left
  intro k hk
  have hk' : k < points.length := by simpa using hk
  have : ((List.range points.length).map fun k => (fxScaled ts.2 (xs.getD k 0), fxScaled ts.2 (ys.getD k 0))).getD k (0, 0)
      = (fxScaled ts.2 (xs.getD k 0), fxScaled ts.2 (ys.getD k 0)) := by
    rw [List.getD_eq_getElem?_getD, List.getElem?_map, List.getElem?_range hk']; rfl
  rw [this]; rfl


theorem lookupV_zip_isSome {α : Type} : ∀ (pts : List Nat) (vs : List α) (k : Nat), pts.length ≤ vs.length →
    ((lookupV (pts.zip vs) k).isSome = true ↔ k ∈ pts) := by
  intro pts
  induction pts with
  | nil => intro vs k _; simp [lookupV]
  | cons p ps ih =>
    intro vs k h
    cases vs with
    | nil => simp at h
    | cons v vs =>
      simp only [List.zip_cons_cons, List.mem_cons]
      by_cases hk : p = k
      · subst hk; rw [lookupV_cons_self]; simp
      · rw [lookupV_cons_ne p v _ k hk, ih vs k (by simpa using h)]
        constructor
        · intro h; exact Or.inr h
        · rintro (h | h)
          · exact absurd h.symm hk
          · exact h

theorem getP_map_range_ge (n : Nat) (f : Nat → Iup.Pt) (k : Nat) (hk : ¬ k < n) :
    getP ((List.range n).map f) k = (0, 0) := by
  unfold getP
  rw [List.getD_eq_getElem?_getD, List.getElem?_eq_none (by simp; omega)]; rfl

/-- the decoded tuple of a well-formed sparse stream satisfies the side conditions of the headline -/
theorem SparseWF.bounds (points : List Iup.Pt) (sp : Option (List Nat)) (Δ : Int) (hΔ : 0 ≤ Δ)
    (ts : GvarData.RawTuple × Int) (dt : DTuple) (h : SparseWF points sp Δ ts dt) :
    dt.s = ts.2 ∧ dt.has.length = points.length ∧ dt.ds.length = points.length ∧
    (∀ k, (-Δ ≤ (getP dt.ds k).1 ∧ (getP dt.ds k).1 ≤ Δ) ∧ (-Δ ≤ (getP dt.ds k).2 ∧ (getP dt.ds k).2 ≤ Δ)) ∧
    (∀ k, dt.has.getD k false = false → getP dt.ds k = (0, 0)) := by
  obtain ⟨_, pts, xs, ys, bs, rest, _, _, _, _, _, h6, h7, h8, h9, rfl⟩ := h
  refine ⟨rfl, by simp [listedFlags], by simp [listedDs], fun k => ?_, fun k hk => ?_⟩
  · by_cases hkn : k < points.length
    · unfold listedDs
      rw [getP_map_range _ _ k hkn]
      simp only []
      constructor
      · cases hl : lookupV (pts.zip xs) k with
        | none => simp only []; omega
        | some x => exact h8 x (List.of_mem_zip (lookupV_mem _ _ _ hl)).2
      · cases hl : lookupV (pts.zip ys) k with
        | none => simp only []; omega
        | some y => exact h9 y (List.of_mem_zip (lookupV_mem _ _ _ hl)).2
    · unfold listedDs; rw [getP_map_range_ge _ _ k hkn]; simp only []; omega
  · by_cases hkn : k < points.length
    · have hf : (lookupV (pts.zip xs) k).isSome = false := by
        unfold listedFlags at hk
        rw [List.getD_eq_getElem?_getD, List.getElem?_map, List.getElem?_range hkn] at hk
        simpa using hk
      have hnm : k ∉ pts := by
        intro hm
        have := (lookupV_zip_isSome pts xs k (by omega)).mpr hm
        rw [hf] at this; cases this
      have hy : (lookupV (pts.zip ys) k).isSome = false := by
        cases hc : (lookupV (pts.zip ys) k).isSome with
        | false => rfl
        | true => exact absurd ((lookupV_zip_isSome pts ys k (by omega)).mp hc) hnm
      unfold listedDs
      rw [getP_map_range _ _ k hkn]
      cases hx' : lookupV (pts.zip xs) k with
      | some x => rw [hx'] at hf; cases hf
      | none =>
        cases hy' : lookupV (pts.zip ys) k with
        | some y => rw [hy'] at hy; cases hy
        | none => rfl
    · unfold listedDs; exact getP_map_range_ge _ _ k hkn

theorem DenseWF.bounds (points : List Iup.Pt) (sp : Option (List Nat)) (Δ : Int) (hΔ : 0 ≤ Δ)
    (ts : GvarData.RawTuple × Int) (dt : DTuple) (h : DenseWF points sp Δ ts dt) :
    dt.s = ts.2 ∧ dt.has.length = points.length ∧ dt.ds.length = points.length ∧
    (∀ k, (-Δ ≤ (getP dt.ds k).1 ∧ (getP dt.ds k).1 ≤ Δ) ∧ (-Δ ≤ (getP dt.ds k).2 ∧ (getP dt.ds k).2 ≤ Δ)) ∧
    (∀ k, dt.has.getD k false = false → getP dt.ds k = (0, 0)) := by
  obtain ⟨_, xs, ys, bs, rest, _, _, hbx, hby, rfl⟩ := h
  refine ⟨rfl, by simp, by simp, fun k => ?_, fun k hk => ?_⟩
  · by_cases hkn : k < points.length
    · rw [getP_map_range _ _ k hkn]; exact ⟨hbx k, hby k⟩
    · rw [getP_map_range_ge _ _ k hkn]; simp only []; omega
  · by_cases hkn : k < points.length
    · exfalso
      simp only [] at hk
      rw [List.getD_eq_getElem?_getD, List.getElem?_map, List.getElem?_range hkn] at hk
      simp at hk
    · exact getP_map_range_ge _ _ k hkn

theorem mem_zip_of_mem_right {α β : Type} : ∀ (l : List α) (r : List β), l.length = r.length → ∀ b ∈ r,
    ∃ a, (a, b) ∈ l.zip r := by
  intro l
  induction l with
  | nil => intro r h b hb; cases r <;> simp at h hb
  | cons a l ih =>
    intro r h b hb
    cases r with
    | nil => simp at hb
    | cons c r =>
      rcases List.mem_cons.mp hb with rfl | hb
      · exact ⟨a, by simp⟩
      · obtain ⟨a', ha'⟩ := ih r (by simpa using h) b hb
        exact ⟨a', by simp [ha']⟩

end FontVerif.GvarApply
