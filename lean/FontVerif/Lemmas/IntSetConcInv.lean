/- C14 / concrete BitSet: the shared vocabulary of the refinement proofs (`CPageOk`, `CInv`,
`ElemOp`, `PageOpRefines`).  Proofs live in Lemmas/IntSetPageConc.lean (pages),
Lemmas/IntSetCompact.lean (`compact`), Lemmas/IntSetConc*.lean (BitSet operations). -/
import FontVerif.Model.BitSetConc
import FontVerif.Lemmas.IntSetProcess
set_option linter.unusedVariables false
namespace FontVerif.IntSet

/-- a concrete page is well formed: exactly 8 words, each a `u64`, cached length exact -/
def CPageOk (p : CPage) : Prop :=
  p.elems.length = 8 ∧ (∀ e ∈ p.elems, e < 2 ^ 64) ∧ p.len = recomputeLength p.elems

/-- The representation invariant of the concrete `BitSet` — what bitset.rs guarantees and relies
on: `pages.len() == page_map.len()` (`process` indexes `page_map` with `0..pages.len()`), the map
is strictly sorted by major, the map indices are pairwise distinct and in bounds (hence a
bijection onto `pages`: no page is unreferenced, none is shared), every page is well formed and
`length` is the sum of the page lengths over the `pages` vector. -/
structure CInv (s : CBitSet) : Prop where
  lenEq : s.pageMap.length = s.pages.length
  sorted : (s.pageMap.map (·.1)).Pairwise (· < ·)
  idxNodup : (s.pageMap.map (·.2)).Nodup
  idxLt : ∀ e ∈ s.pageMap, e.2 < s.pages.length
  pagesOk : ∀ p ∈ s.pages, CPageOk p
  len : s.len = cSumLens s.pages

/-- a `u64` element operator (`|a, b| a | b`, …) acting bitwise through the Boolean function `f` -/
structure ElemOp (eop : Nat → Nat → Nat) (f : Bool → Bool → Bool) : Prop where
  bit : ∀ a b i, a < 2 ^ 64 → b < 2 ^ 64 → i < 64 → (eop a b).testBit i = f (a.testBit i) (b.testBit i)
  lt : ∀ a b, a < 2 ^ 64 → b < 2 ^ 64 → eop a b < 2 ^ 64

/-- a concrete page operator (the `Op: Fn(&BitPage, &BitPage) -> BitPage` of `BitSet::process`)
refines the 512-bit operator `op` -/
structure PageOpRefines (cop : CPage → CPage → CPage) (op : Nat → Nat → Nat) : Prop where
  ok : ∀ a b, CPageOk a → CPageOk b → CPageOk (cop a b)
  abs : ∀ a b, CPageOk a → CPageOk b → (cop a b).abs = Page.ofBits (op a.abs.bits b.abs.bits)

end FontVerif.IntSet
