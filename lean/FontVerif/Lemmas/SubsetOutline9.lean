/-
Lemmas for C17 drawn-outline preservation, part 9: the converse for composite glyphs (after klippa fix 0b24b65) — a
composite whose component list read-fonts reads completely and whose component glyphs all have images is not emptied.
-/
import FontVerif.Lemmas.SubsetOutline8
set_option linter.unusedVariables false
set_option linter.unusedSimpArgs false
namespace FontVerif.SubsetOutline
open FontVerif FontVerif.Subset

theorem tail_rest (f : Nat) (cur r : List Nat) (v : Glyf.Anchor × Glyf.Transform)
    (h : tailRead f cur = some (v, r)) : r = cur.drop (tailSz f) := by
  by_cases hs : cur.length < tailSz f
  · rw [tail_short f cur hs] at h; cases h
  · obtain ⟨v', hv'⟩ := tail_enough f cur (by omega)
    have := hv' (cur.drop (tailSz f))
    rw [List.take_append_drop, h] at this
    simp only [Option.some.injEq, Prod.mk.injEq] at this
    exact this.2

/-- the component list ends with a record without MORE_COMPONENTS (read-fonts read every record) -/
def complete (cs : List Glyf.RComponent) : Prop :=
  ∃ c, cs.getLast? = some c ∧ Glyf.hasBit c.flags Glyf.MORE_COMPONENTS = false

/-- **forward simulation**: a component list that read-fonts reads completely and whose glyphs all have images
makes the rewriter's walk succeed -/
theorem compLoop_succeeds (flags : Nat) (gmap : Nat → Option Nat) (len : Nat) :
    ∀ (F fuel : Nat) (out : Bytes) (i : Nat) (whi : Bool), out.length = len → F ≤ fuel →
      complete (Glyf.readComponents F (out.drop i)) →
      (∀ c ∈ Glyf.readComponents F (out.drop i), (gmap c.glyph).isSome) →
      (compLoop flags gmap len fuel out i whi).isSome := by
  intro F
  induction F with
  | zero =>
    intro fuel out i whi hlen hF hc hm
    obtain ⟨c, hc1, _⟩ := hc
    simp [Glyf.readComponents] at hc1
  | succ F ih =>
    intro fuel out i whi hlen hF hc hm
    cases fuel with
    | zero => omega
    | succ fuel =>
    unfold Glyf.readComponents at hc hm
    cases hr : Glyf.readComponent (out.drop i) with
    | none =>
      rw [hr] at hc
      obtain ⟨c, hc1, _⟩ := hc
      simp at hc1
    | some p =>
      obtain ⟨c, cur'⟩ := p
      rw [hr] at hc hm
      simp only at hc hm
      have hcons := readComponent_consumes _ _ _ hr
      have hi4 : i + 4 ≤ out.length := by simp only [List.length_drop] at hcons; omega
      have hA := drop_four out i hi4
      rw [hA, readComponent_cons] at hr
      cases ht : tailRead ((out.getD i 0 * 256 + out.getD (i + 1) 0) &&& Glyf.COMPOSITE_ALL) (out.drop (i + 4)) with
      | none => rw [ht] at hr; cases hr
      | some q =>
        rw [ht] at hr
        simp only [Option.map_some, Option.some.injEq, Prod.mk.injEq] at hr
        obtain ⟨hc_eq, hcur⟩ := hr
        have hrest := tail_rest _ _ _ _ (show tailRead _ _ = some (q.1, q.2) from ht)
        have hall : Glyf.COMPOSITE_ALL = COMPOSITE_KNOWN_BITS := by decide
        rw [hall] at hc_eq hrest
        rw [u16At_getD out i] at hc_eq hrest
        generalize hf0 : u16At out i &&& COMPOSITE_KNOWN_BITS = f0 at hc_eq hrest
        have hcf : c.flags = f0 := by rw [← hc_eq]
        have hcg : c.glyph = u16At out (i + 2) := by rw [← hc_eq]; rfl
        unfold compLoop
        have hguard : ¬ (i + 3 ≥ len) := by omega
        simp only [hguard, if_false]
        rw [hf0]
        generalize hout2 : compWriteFlags flags i f0 out = out2
        have hlen2 : out2.length = out.length := by rw [← hout2]; exact compWriteFlags_length _ _ _ _
        have hgid : u16At out2 (i + 2) = u16At out (i + 2) := by
          rw [← hout2]
          exact u16At_congr _ _ _ (compWriteFlags_getD_ne _ _ _ _ _ (by omega) (by omega))
            (compWriteFlags_getD_ne _ _ _ _ _ (by omega) (by omega))
        rw [hgid]
        have hmc : (gmap c.glyph).isSome := hm c (by split <;> simp)
        rw [hcg] at hmc
        cases hg : gmap (u16At out (i + 2)) with
        | none => rw [hg] at hmc; cases hmc
        | some new =>
          simp only
          have hf0k : f0 = f0 &&& COMPOSITE_KNOWN_BITS := by
            have hkk : COMPOSITE_KNOWN_BITS &&& COMPOSITE_KNOWN_BITS = COMPOSITE_KNOWN_BITS := by decide
            rw [← hf0, Nat.and_assoc, hkk]
          have hmore : Glyf.hasBit (compFlags flags i f0) Glyf.MORE_COMPONENTS = Glyf.hasBit f0 Glyf.MORE_COMPONENTS := by
            rw [hf0k]; exact hasBit_compFlags flags i f0 _ ⟨rfl, rfl⟩
          by_cases hm2 : Glyf.hasBit f0 Glyf.MORE_COMPONENTS = true
          · have hm3 : (compFlags flags i f0 &&& 0x0020 != 0) = true := by
              have := hmore; rw [hm2] at this
              simpa [Glyf.hasBit, Glyf.MORE_COMPONENTS] using this
            simp only [hm3, if_true]
            rw [hcf, hm2] at hc hm
            simp only [if_true] at hc hm
            generalize hout3 : putU16 out2 (i + 2) (new % 65536) = out3
            have hlen3 : out3.length = out.length := by rw [← hout3, putU16_length, hlen2]
            have h3out : ∀ j, i + 4 ≤ j → out3.getD j 0 = out.getD j 0 := by
              intro j hj
              rw [← hout3, putU16_getD_ne _ _ _ _ (by omega) (by omega), ← hout2,
                compWriteFlags_getD_ne _ _ _ _ _ (by omega) (by omega)]
            have hsz : compRecSize (compFlags flags i f0) = compRecSize f0 := by
              rw [hf0k]; exact compRecSize_compFlags flags i f0
            have hi' : i + 4 + (if compFlags flags i f0 &&& 0x0001 != 0 then 4 else 2) +
                (if compFlags flags i f0 &&& 0x0008 != 0 then 2 else if compFlags flags i f0 &&& 0x0040 != 0 then 4
                 else if compFlags flags i f0 &&& 0x0080 != 0 then 8 else 0) = i + 4 + tailSz f0 := by
              have : i + 4 + (if compFlags flags i f0 &&& 0x0001 != 0 then 4 else 2) +
                (if compFlags flags i f0 &&& 0x0008 != 0 then 2 else if compFlags flags i f0 &&& 0x0040 != 0 then 4
                 else if compFlags flags i f0 &&& 0x0080 != 0 then 8 else 0) = i + compRecSize (compFlags flags i f0) := by
                unfold compRecSize; omega
              rw [this, hsz, compRecSize_eq]; omega
            rw [hi']
            have hdrop : out3.drop (i + 4 + tailSz f0) = cur' := by
              rw [← hcur, hrest, List.drop_drop]
              exact drop_congr _ _ _ hlen3 (fun j hj => h3out j (by omega))
            apply ih fuel out3 _ _ (by omega) (by omega)
            · rw [hdrop]
              obtain ⟨cl, hcl1, hcl2⟩ := hc
              cases hrc : Glyf.readComponents F cur' with
              | nil =>
                rw [hrc] at hcl1
                simp only [List.getLast?_singleton, Option.some.injEq] at hcl1
                rw [← hcl1, hcf, hm2] at hcl2
                cases hcl2
              | cons a l =>
                rw [hrc] at hcl1
                refine ⟨cl, ?_, hcl2⟩
                rw [List.getLast?_cons_cons] at hcl1
                exact hcl1
            · rw [hdrop]
              intro c' hc'
              exact hm c' (List.mem_cons_of_mem _ hc')
          · have hm3 : (compFlags flags i f0 &&& 0x0020 != 0) = false := by
              have := hmore
              simp only [Bool.not_eq_true] at hm2
              rw [hm2] at this
              simpa [Glyf.hasBit, Glyf.MORE_COMPONENTS] using this
            simp [hm3]

/-- **a composite glyph whose components read-fonts reads completely and that all have images is not emptied** -/
theorem composite_not_emptied (flags : Nat) (gmap : Nat → Option Nat) (d : Bytes)
    (hlen : 10 ≤ d.length) (hs : ¬ u16At d 0 < 32768)
    (hc : complete (Glyf.readComponents ((d.drop 10).length + 1) (d.drop 10)))
    (hm : ∀ c ∈ Glyf.readComponents ((d.drop 10).length + 1) (d.drop 10), (gmap c.glyph).isSome) :
    ∃ out, subsetGlyphBytes flags gmap d = .bytes out ∧ out ≠ [] := by
  have hloop := compLoop_succeeds flags gmap d.length ((d.drop 10).length + 1) (d.length + 1) d 10 false rfl
    (by simp only [List.length_drop]; omega) hc hm
  cases hl : compLoop flags gmap d.length (d.length + 1) d 10 false with
  | none => rw [hl] at hloop; cases hloop
  | some res =>
    obtain ⟨full, i, whi⟩ := res
    have hiend := compLoop_iend _ _ _ _ _ _ _ _ hl
    obtain ⟨hfl, _, _⟩ := compLoop_spec flags gmap d.length (d.length + 1) d 10 false _ (Nat.le_refl _) hl
    simp only at hiend hfl
    refine ⟨subsetComposite flags gmap d, ?_, ?_⟩
    · unfold subsetGlyphBytes
      have h2 : ¬ (d.length < 2) := by omega
      have h10 : ¬ (d.length < 10) := by omega
      simp only [h2, hs, h10, if_false]
    · unfold subsetComposite
      simp only [hl]
      intro h0
      have hl0 := congrArg List.length h0
      split at hl0 <;> (try split at hl0) <;> (simp only [List.length_take, List.length_nil] at hl0; omega)

end FontVerif.SubsetOutline
