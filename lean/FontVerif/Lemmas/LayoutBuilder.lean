/-
Helper lemmas for C16: `PairPosBuilder::insert_pair` / `GlyphPairPosBuilder::build` keep the
first rule of every glyph pair (whatever its value) and nothing else.
-/
import FontVerif.Lemmas.LayoutDev
set_option linter.unusedVariables false
namespace FontVerif.Layout

def keyIs {V : Type} (g1 g2 : Nat) (e : (Nat × Nat) × V) : Bool := e.1.1 == g1 && e.1.2 == g2

/-- distinct keys -/
def UniqueKeys {V : Type} (b : GlyphPairs V) : Prop := b.Pairwise (fun a c => a.1 ≠ c.1)

theorem UniqueKeys.eq_of_mem {V : Type} {b : GlyphPairs V} (h : UniqueKeys b) {a c : (Nat × Nat) × V}
    (ha : a ∈ b) (hc : c ∈ b) (hk : a.1 = c.1) : a = c := by
  unfold UniqueKeys at h
  induction b with
  | nil => cases ha
  | cons x xs ih =>
    rw [List.pairwise_cons] at h
    rcases List.mem_cons.mp ha with rfl | ha' <;> rcases List.mem_cons.mp hc with rfl | hc'
    · rfl
    · exact absurd hk (h.1 c hc')
    · exact absurd hk.symm (h.1 a ha')
    · exact ih h.2 ha' hc'

theorem keyIs_iff {V : Type} {g1 g2 : Nat} {e : (Nat × Nat) × V} : keyIs g1 g2 e = true ↔ e.1 = (g1, g2) := by
  unfold keyIs
  simp only [Bool.and_eq_true, beq_iff_eq]
  constructor
  · rintro ⟨a, b⟩; exact Prod.ext a b
  · intro h; rw [h]; exact ⟨rfl, rfl⟩

theorem insertPair_spec {V : Type} (b : GlyphPairs V) (hu : UniqueKeys b) (g1 g2 : Nat) (v : V) :
    UniqueKeys (b.insertPair g1 g2 v) ∧
    (∀ k1 k2, (b.insertPair g1 g2 v).find? (keyIs k1 k2) =
      (b.find? (keyIs k1 k2)).or ([((g1, g2), v)].find? (keyIs k1 k2))) ∧
    (∀ e ∈ b.insertPair g1 g2 v, e ∈ b ∨ e = ((g1, g2), v)) := by
  unfold GlyphPairs.insertPair
  by_cases hany : b.any (fun e => e.1.1 == g1 && e.1.2 == g2) = true
  · simp only [hany, ↓reduceIte]
    refine ⟨hu, fun k1 k2 => ?_, fun e he => Or.inl he⟩
    by_cases hk : keyIs k1 k2 ((g1, g2), v) = true
    · -- the key is already present: the existing entry is found
      have hk' := keyIs_iff.mp hk
      simp only at hk'
      obtain ⟨e, he, hek⟩ := List.any_eq_true.mp hany
      have : keyIs k1 k2 e = true := by
        rw [keyIs_iff]
        have : e.1 = (g1, g2) := keyIs_iff.mp (by unfold keyIs; exact hek)
        rw [this, hk']
      cases hf : b.find? (keyIs k1 k2) with
      | some x => rfl
      | none => exact absurd this (by simpa using List.find?_eq_none.mp hf e he)
    · simp only [List.find?_cons, hk, List.find?_nil, Option.or_none]
  · simp only [hany, Bool.false_eq_true, ↓reduceIte]
    refine ⟨?_, fun k1 k2 => by rw [List.find?_append], fun e he => ?_⟩
    · unfold UniqueKeys
      rw [List.pairwise_append]
      refine ⟨hu, List.pairwise_singleton _ _, ?_⟩
      intro a ha c hc
      simp only [List.mem_singleton] at hc
      subst hc
      intro hk
      apply hany
      rw [List.any_eq_true]
      exact ⟨a, ha, by simp only at hk; rw [hk]; simp⟩
    · rcases List.mem_append.mp he with h | h
      · exact Or.inl h
      · exact Or.inr (List.mem_singleton.mp h)

theorem foldl_insertPair_spec {V : Type} (rules : List ((Nat × Nat) × V)) :
    ∀ (acc : GlyphPairs V), UniqueKeys acc →
      UniqueKeys (rules.foldl (fun b r => b.insertPair r.1.1 r.1.2 r.2) acc) ∧
      (∀ k1 k2, (rules.foldl (fun b r => b.insertPair r.1.1 r.1.2 r.2) acc).find? (keyIs k1 k2) =
        (acc.find? (keyIs k1 k2)).or (rules.find? (keyIs k1 k2))) ∧
      (∀ e ∈ rules.foldl (fun b r => b.insertPair r.1.1 r.1.2 r.2) acc, e ∈ acc ∨ e ∈ rules) := by
  induction rules with
  | nil => intro acc hu; exact ⟨hu, fun _ _ => by simp, fun e he => Or.inl he⟩
  | cons r rs ih =>
    intro acc hu
    obtain ⟨hu', hf', hm'⟩ := insertPair_spec acc hu r.1.1 r.1.2 r.2
    obtain ⟨hu'', hf'', hm''⟩ := ih _ hu'
    refine ⟨hu'', fun k1 k2 => ?_, fun e he => ?_⟩
    · rw [List.foldl_cons, hf'' k1 k2, hf' k1 k2]
      have : ((r.1.1, r.1.2), r.2) = r := rfl
      rw [this, List.find?_cons (a := r)]
      simp only [List.find?_cons, List.find?_nil]
      cases acc.find? (keyIs k1 k2) <;> cases keyIs k1 k2 r <;> simp
    · rcases hm'' e he with h | h
      · rcases hm' e h with h | h
        · exact Or.inl h
        · exact Or.inr (by rw [h]; exact List.mem_cons_self ..)
      · exact Or.inr (List.mem_cons_of_mem _ h)

theorem ofRules_spec {V : Type} (rules : List ((Nat × Nat) × V)) :
    UniqueKeys (GlyphPairs.ofRules rules) ∧
    (∀ k1 k2, (GlyphPairs.ofRules rules).find? (keyIs k1 k2) = rules.find? (keyIs k1 k2)) ∧
    (∀ e ∈ GlyphPairs.ofRules rules, e ∈ rules) := by
  obtain ⟨a, b, c⟩ := foldl_insertPair_spec rules [] List.Pairwise.nil
  refine ⟨a, fun k1 k2 => by rw [GlyphPairs.ofRules, b]; simp, fun e he => ?_⟩
  rcases c e he with h | h
  · cases h
  · exact h

/-- with at most one element satisfying `p`, `find?` does not depend on the order -/
theorem find?_perm_unique {α : Type} {l l' : List α} (hp : l'.Perm l) (p : α → Bool)
    (huniq : ∀ a ∈ l, ∀ c ∈ l, p a = true → p c = true → a = c) : l'.find? p = l.find? p := by
  cases h : l.find? p with
  | none =>
    rw [List.find?_eq_none] at h ⊢
    intro x hx
    exact h x (hp.mem_iff.mp hx)
  | some a =>
    have ha := List.find?_some h
    have ham := List.mem_of_find?_eq_some h
    cases h' : l'.find? p with
    | none =>
      rw [List.find?_eq_none] at h'
      exact absurd ha (h' a (hp.mem_iff.mpr ham))
    | some c =>
      have hc := List.find?_some h'
      have hcm := hp.mem_iff.mp (List.mem_of_find?_eq_some h')
      rw [huniq a ham c hcm ha hc]

theorem findSome?_unique {α β : Type} (l : List α) (f : α → Option β) (x : α) (v : β) (hx : x ∈ l)
    (hfx : f x = some v) (hother : ∀ y ∈ l, y ≠ x → f y = none) : l.findSome? f = some v := by
  induction l with
  | nil => cases hx
  | cons y ys ih =>
    by_cases hy : y = x
    · subst hy; simp [List.findSome?_cons, hfx]
    · have hnone := hother y (List.mem_cons_self ..) hy
      rw [List.findSome?_cons, hnone]
      rcases List.mem_cons.mp hx with h | h
      · exact absurd h.symm hy
      · exact ih h (fun z hz hzx => hother z (List.mem_cons_of_mem _ hz) hzx)

theorem find?_filter_and {α : Type} (l : List α) (p q : α → Bool) :
    (l.filter p).find? q = l.find? (fun a => p a && q a) := by
  induction l with
  | nil => rfl
  | cons x xs ih =>
    cases hp : p x <;> cases hq : q x <;> simp [List.filter_cons, List.find?_cons, hp, hq, ih]

theorem UniqueKeys.filter {V : Type} {b : GlyphPairs V} (h : UniqueKeys b) (p : (Nat × Nat) × V → Bool) :
    UniqueKeys (b.filter p) :=
  List.Pairwise.sublist List.filter_sublist h

/-- the lookup in the subtable built from a set of entries with distinct keys -/
theorem groupLookup {V : Type} (es : GlyphPairs V) (hu : UniqueKeys es)
    (hb : ∀ e ∈ es, e.1.1 < 65536) (g1 g2 : Nat) :
    (⟨buildCoverage (es.map (·.1.1)), (sortDedup (es.map (·.1.1))).map (pairSetOf es)⟩ :
      PairPos1 V).lookup g1 g2 = (es.find? (keyIs g1 g2)).map (·.2) := by
  have hbg : ∀ g ∈ es.map (·.1.1), g < 65536 := by
    intro g hg
    obtain ⟨e, he, rfl⟩ := List.mem_map.mp hg
    exact hb e he
  simp only [PairPos1.lookup, buildCoverage_get _ hbg]
  cases hi : indexIn g1 (sortDedup (es.map (·.1.1))) with
  | none =>
    -- g1 is the first glyph of no entry
    have hnm : g1 ∉ es.map (·.1.1) := by
      intro hm
      obtain ⟨i, hi'⟩ := indexIn_of_mem (mem_sortDedup.mpr hm)
      rw [hi] at hi'; cases hi'
    have : es.find? (keyIs g1 g2) = none := by
      rw [List.find?_eq_none]
      intro e he hk
      have := keyIs_iff.mp hk
      exact hnm (List.mem_map.mpr ⟨e, he, by rw [this]⟩)
    rw [this]; rfl
  | some i =>
    have hget := indexIn_some_mem hi
    simp only [List.getElem?_map, hget, Option.map_some]
    unfold pairSetOf
    rw [List.find?_map]
    simp only [Option.map_map]
    have hperm := List.mergeSort_perm (es.filter (fun e => e.1.1 == g1)) (fun a c => decide (a.1.2 ≤ c.1.2))
    rw [find?_perm_unique hperm]
    · rw [find?_filter_and]
      have : (fun (a : (Nat × Nat) × V) => (a.1.1 == g1) && ((fun p => p.1 == g2) ∘ fun e => (e.1.2, e.2)) a) =
          keyIs g1 g2 := by
        funext a; simp [keyIs]
      rw [this]
      cases es.find? (keyIs g1 g2) <;> rfl
    · intro a ha c hc hpa hpc
      have ha' := List.mem_filter.mp ha
      have hc' := List.mem_filter.mp hc
      simp only [Function.comp, beq_iff_eq] at hpa hpc ha' hc'
      exact hu.eq_of_mem ha'.1 hc'.1 (Prod.ext (ha'.2.trans hc'.2.symm) (hpa.trans hpc.symm))

theorem glyphPairGroup_lookup {V : Type} (fmt : V → Nat) (b : GlyphPairs V) (hu : UniqueKeys b)
    (hb : ∀ e ∈ b, e.1.1 < 65536) (g1 g2 f : Nat) :
    (glyphPairGroup fmt b f).lookup g1 g2 =
      (b.find? (fun e => fmt e.2 == f && keyIs g1 g2 e)).map (·.2) := by
  unfold glyphPairGroup
  simp only []
  rw [groupLookup _ (hu.filter _) (fun e he => hb e (List.mem_filter.mp he).1), find?_filter_and]

/-- `GlyphPairPosBuilder::build` on distinct keys: first-match over the emitted subtables = the
entry of the pair -/
theorem buildGlyphPairs_lookup {V : Type} (fmt : V → Nat) (b : GlyphPairs V) (hu : UniqueKeys b)
    (hb : ∀ e ∈ b, e.1.1 < 65536) (g1 g2 : Nat) :
    firstMatch (buildGlyphPairs fmt b) g1 g2 = (b.find? (keyIs g1 g2)).map (·.2) := by
  unfold firstMatch buildGlyphPairs
  rw [List.findSome?_map]
  have hfun : ((fun t : PairPos1 V => t.lookup g1 g2) ∘ glyphPairGroup fmt b) =
      fun f => (b.find? (fun e => fmt e.2 == f && keyIs g1 g2 e)).map (·.2) := by
    funext f
    simp only [Function.comp]
    exact glyphPairGroup_lookup fmt b hu hb g1 g2 f
  rw [hfun]
  cases hf : b.find? (keyIs g1 g2) with
  | none =>
    rw [List.find?_eq_none] at hf
    show _ = none
    rw [List.findSome?_eq_none_iff]
    intro f _
    have : b.find? (fun e => fmt e.2 == f && keyIs g1 g2 e) = none := by
      rw [List.find?_eq_none]
      intro e he hk
      simp only [Bool.and_eq_true] at hk
      exact hf e he hk.2
    rw [this]; rfl
  | some e =>
    have hek := List.find?_some hf
    have hem := List.mem_of_find?_eq_some hf
    show _ = some e.2
    apply findSome?_unique _ _ (fmt e.2) e.2
    · exact mem_sortDedup.mpr (List.mem_map.mpr ⟨e, hem, rfl⟩)
    · have : b.find? (fun e' => fmt e'.2 == fmt e.2 && keyIs g1 g2 e') = some e := by
        cases h' : b.find? (fun e' => fmt e'.2 == fmt e.2 && keyIs g1 g2 e') with
        | none =>
          rw [List.find?_eq_none] at h'
          exact absurd (by simp [hek]) (h' e hem)
        | some c =>
          have hc := List.find?_some h'
          simp only [Bool.and_eq_true] at hc
          have hcm := List.mem_of_find?_eq_some h'
          rw [hu.eq_of_mem hcm hem ((keyIs_iff.mp hc.2).trans (keyIs_iff.mp hek).symm)]
      simp only [this, Option.map_some]
    · intro y _ hy
      have : b.find? (fun e' => fmt e'.2 == y && keyIs g1 g2 e') = none := by
        rw [List.find?_eq_none]
        intro c hc hk
        simp only [Bool.and_eq_true, beq_iff_eq] at hk
        have := hu.eq_of_mem hc hem ((keyIs_iff.mp hk.2).trans (keyIs_iff.mp hek).symm)
        rw [this] at hk
        exact hy hk.1.symm
      simp only [this, Option.map_none]

end FontVerif.Layout
