/- C14 / IntSet helper lemmas, part 1: `BitPage` as a 512-bit natural (bit arithmetic, popCount). -/
import FontVerif.Model.IntSet
set_option linter.unusedVariables false
set_option linter.unusedSimpArgs false
namespace FontVerif.IntSet

/-! ### `pageMembers` in closed form -/

theorem elemMembers_eq (base elem : Nat) :
    elemMembers base elem = ((List.range 64).filter (fun i => elem.testBit i)).map (· + base) := by
  unfold elemMembers
  split
  · subst_vars; simp
  · rfl

theorem filter_range_blocks (p : Nat → Bool) (n N : Nat) (hN : N = n * 64) :
    (List.range N).filter p =
      (List.range n).flatMap
        (fun e => ((List.range 64).filter (fun i => p (i + e * 64))).map (· + e * 64)) := by
  subst hN
  induction n with
  | zero => simp
  | succ n ih =>
    rw [Nat.succ_mul, List.range_add, List.filter_append, ih, List.range_succ (n := n),
      List.flatMap_append]
    congr 1
    simp only [List.flatMap_cons, List.flatMap_nil, List.append_nil, List.filter_map]
    have : (fun x => n * 64 + x) = (fun x => x + n * 64) := by funext x; omega
    rw [this]
    congr 1

/-- `BitPage::iter` yields exactly the set bits below 512, ascending. -/
theorem pageMembers_eq (bits : Nat) :
    pageMembers bits = (List.range 512).filter (fun i => bits.testBit i) := by
  rw [filter_range_blocks (fun i => bits.testBit i) 8 512 (by omega)]
  unfold pageMembers
  congr 1
  funext e
  rw [elemMembers_eq]
  congr 1
  apply List.filter_congr
  intro i hi
  simp only [List.mem_range] at hi
  rw [Nat.testBit_mod_two_pow, Nat.testBit_div_two_pow]
  simp [hi]

theorem mem_pageMembers {bits i : Nat} : i ∈ pageMembers bits ↔ i < 512 ∧ bits.testBit i = true := by
  rw [pageMembers_eq]; simp

theorem pageMembers_sorted (bits : Nat) : (pageMembers bits).Pairwise (· < ·) := by
  rw [pageMembers_eq]
  exact List.Pairwise.filter _ (List.pairwise_lt_range)

theorem popCount_eq (bits : Nat) :
    popCount bits = (List.range 512).countP (fun i => bits.testBit i) := by
  unfold popCount
  rw [pageMembers_eq, List.countP_eq_length_filter]

/-! ### counting over `List.range` -/

theorem countP_range_congr {p q : Nat → Bool} {n : Nat} (h : ∀ j, j < n → p j = q j) :
    (List.range n).countP p = (List.range n).countP q := by
  apply List.countP_congr
  intro x hx
  simp only [List.mem_range] at hx
  rw [h x hx]

theorem countP_range_flip (p q : Nat → Bool) (n i : Nat) (hi : i < n)
    (hne : ∀ j, j ≠ i → q j = p j) (hpi : p i = false) (hqi : q i = true) :
    (List.range n).countP q = (List.range n).countP p + 1 := by
  induction n with
  | zero => omega
  | succ n ih =>
    rw [List.range_succ, List.countP_append, List.countP_append]
    by_cases hin : i = n
    · subst hin
      have : (List.range i).countP q = (List.range i).countP p :=
        countP_range_congr (fun j hj => hne j (by omega))
      simp [this, hpi, hqi]
    · have := ih (by omega)
      have h2 := hne n (by omega)
      simp [this, h2]
      omega

theorem popCount_zero : popCount 0 = 0 := by
  rw [popCount_eq]; simp

theorem popCount_le (bits : Nat) : popCount bits ≤ 512 := by
  rw [popCount_eq]
  have := List.countP_le_length (p := fun i => bits.testBit i) (l := List.range 512)
  simpa using this

theorem popCount_eq_zero_iff {bits : Nat} :
    popCount bits = 0 ↔ ∀ i, i < 512 → bits.testBit i = false := by
  rw [popCount_eq, List.countP_eq_zero]
  simp

theorem popCount_mono {a b : Nat} (h : ∀ i, i < 512 → a.testBit i = true → b.testBit i = true) :
    popCount a ≤ popCount b := by
  rw [popCount_eq, popCount_eq]
  apply List.countP_mono_left
  intro x hx
  simp only [List.mem_range] at hx
  exact h x hx

theorem popCount_congr {a b : Nat} (h : ∀ i, i < 512 → a.testBit i = b.testBit i) :
    popCount a = popCount b := by
  rw [popCount_eq, popCount_eq]
  exact countP_range_congr h

/-! ### bit operators -/

theorem testBit_andNot (a m j : Nat) :
    (a ^^^ (a &&& m)).testBit j = (a.testBit j && !m.testBit j) := by
  rw [Nat.testBit_xor, Nat.testBit_and]
  cases a.testBit j <;> cases m.testBit j <;> rfl

theorem andNot_lt {a m n : Nat} (h : a < 2 ^ n) : a ^^^ (a &&& m) < 2 ^ n := by
  apply Nat.lt_pow_two_of_testBit
  intro i hi
  rw [testBit_andNot]
  have : a.testBit i = false := Nat.testBit_lt_two_pow (Nat.lt_of_lt_of_le h (Nat.pow_le_pow_right (by omega) hi))
  simp [this]

theorem testBit_rangeMask (f l j : Nat) (h : f ≤ l) :
    (rangeMask f l).testBit j = (decide (f ≤ j) && decide (j ≤ l)) := by
  unfold rangeMask
  rw [Nat.testBit_shiftLeft, Nat.testBit_two_pow_sub_one]
  by_cases h1 : f ≤ j <;> by_cases h2 : j ≤ l <;> simp [h1, h2] <;> omega

theorem rangeMask_lt {f l : Nat} (h : f ≤ l) (hl : l < 512) : rangeMask f l < 2 ^ 512 := by
  apply Nat.lt_pow_two_of_testBit
  intro i hi
  rw [testBit_rangeMask _ _ _ h]
  simp; omega

theorem testBit_opUnion (a b i : Nat) :
    (opUnion a b).testBit i = (a.testBit i || b.testBit i) := Nat.testBit_or a b i
theorem testBit_opIntersect (a b i : Nat) :
    (opIntersect a b).testBit i = (a.testBit i && b.testBit i) := Nat.testBit_and a b i
theorem testBit_opSubtract (a b i : Nat) :
    (opSubtract a b).testBit i = (a.testBit i && !b.testBit i) := testBit_andNot a b i
theorem testBit_opRevSubtract (a b i : Nat) :
    (opRevSubtract a b).testBit i = (!a.testBit i && b.testBit i) := by
  unfold opRevSubtract; rw [testBit_andNot]; cases a.testBit i <;> cases b.testBit i <;> rfl

/-! ### page invariant and the page mutators -/

/-- a page is well formed: 512 bits of storage and an exact cached length -/
def PageOk (p : Page) : Prop := p.bits < 2 ^ 512 ∧ p.len = popCount p.bits

theorem pageOk_zero : PageOk Page.zero := by
  refine ⟨Nat.two_pow_pos 512, ?_⟩
  simp [Page.zero, popCount_zero]

theorem pageOk_ofBits {b : Nat} (h : b < 2 ^ 512) : PageOk (Page.ofBits b) := ⟨h, rfl⟩

theorem two_pow_lt_512 {i : Nat} (h : i < 512) : 2 ^ i < 2 ^ 512 :=
  Nat.pow_lt_pow_right (by omega) h

theorem pageInsert_bits (p : Page) (v j : Nat) :
    (pageInsert p v).1.bits.testBit j = (p.bits.testBit j || decide (v % 512 = j)) := by
  simp [pageInsert, Nat.testBit_or, Nat.testBit_two_pow]

theorem pageInsert_snd (p : Page) (v : Nat) :
    (pageInsert p v).2 = !p.bits.testBit (v % 512) := rfl

theorem pageInsert_len (p : Page) (v : Nat) :
    (pageInsert p v).1.len = p.len + (if (pageInsert p v).2 then 1 else 0) := rfl

theorem pageInsert_ok (p : Page) (v : Nat) (h : PageOk p) : PageOk (pageInsert p v).1 := by
  have hv : v % 512 < 512 := Nat.mod_lt _ (by omega)
  refine ⟨?_, ?_⟩
  · exact Nat.or_lt_two_pow h.1 (two_pow_lt_512 hv)
  · rw [pageInsert_len, pageInsert_snd, h.2]
    cases hb : p.bits.testBit (v % 512)
    · simp only [Bool.not_false, if_true]
      symm
      rw [popCount_eq, popCount_eq]
      apply countP_range_flip _ _ 512 (v % 512) hv
      · intro j hj
        rw [pageInsert_bits]
        have : ¬ (v % 512 = j) := fun h => hj h.symm
        simp [this]
      · exact hb
      · rw [pageInsert_bits]; simp
    · simp only [Bool.not_true, Bool.false_eq_true, if_false, Nat.add_zero]
      apply popCount_congr
      intro i _
      rw [pageInsert_bits]
      by_cases hi : v % 512 = i
      · subst hi; simp [hb]
      · simp [hi]

theorem pageRemove_bits (p : Page) (v j : Nat) :
    (pageRemove p v).1.bits.testBit j = (p.bits.testBit j && !decide (v % 512 = j)) := by
  simp only [pageRemove, testBit_andNot, Nat.testBit_two_pow]

theorem pageRemove_snd (p : Page) (v : Nat) :
    (pageRemove p v).2 = p.bits.testBit (v % 512) := rfl

theorem pageRemove_len (p : Page) (v : Nat) :
    (pageRemove p v).1.len = p.len - (if (pageRemove p v).2 then 1 else 0) := rfl

theorem pageRemove_ok (p : Page) (v : Nat) (h : PageOk p) : PageOk (pageRemove p v).1 := by
  have hv : v % 512 < 512 := Nat.mod_lt _ (by omega)
  refine ⟨andNot_lt h.1, ?_⟩
  rw [pageRemove_len, pageRemove_snd, h.2]
  cases hb : p.bits.testBit (v % 512)
  · simp only [Bool.false_eq_true, if_false, Nat.sub_zero]
    apply popCount_congr
    intro i _
    rw [pageRemove_bits]
    by_cases hi : v % 512 = i
    · subst hi; simp [hb]
    · simp [hi]
  · simp only [if_true]
    have : popCount p.bits = popCount (pageRemove p v).1.bits + 1 := by
      rw [popCount_eq, popCount_eq]
      apply countP_range_flip _ _ 512 (v % 512) hv
      · intro j hj
        rw [pageRemove_bits]
        have : ¬ (v % 512 = j) := fun h => hj h.symm
        simp [this]
      · rw [pageRemove_bits]; simp
      · exact hb
    omega

/-- `remove` returns `true` only on a non-empty page (so the cached lengths never underflow) -/
theorem pageRemove_len_pos (p : Page) (v : Nat) (h : PageOk p) (hr : (pageRemove p v).2 = true) :
    (pageRemove p v).1.len + 1 = p.len := by
  have hv : v % 512 < 512 := Nat.mod_lt _ (by omega)
  have h2 := (pageRemove_ok p v h).2
  rw [pageRemove_snd] at hr
  have : popCount p.bits = popCount (pageRemove p v).1.bits + 1 := by
    rw [popCount_eq, popCount_eq]
    apply countP_range_flip _ _ 512 (v % 512) hv
    · intro j hj
      rw [pageRemove_bits]
      have : ¬ (v % 512 = j) := fun h => hj h.symm
      simp [this]
    · rw [pageRemove_bits]; simp
    · exact hr
  rw [h2, h.2]; omega

theorem pageInsertRange_bits (p : Page) (a b j : Nat) (h : a % 512 ≤ b % 512) :
    (pageInsertRange p a b).bits.testBit j =
      (p.bits.testBit j || (decide (a % 512 ≤ j) && decide (j ≤ b % 512))) := by
  simp only [pageInsertRange, h, if_true, Nat.testBit_or, testBit_rangeMask _ _ _ h]

theorem pageInsertRange_ok (p : Page) (a b : Nat) (h : PageOk p) : PageOk (pageInsertRange p a b) := by
  refine ⟨?_, rfl⟩
  simp only [pageInsertRange]
  split
  · rename_i hle
    exact Nat.or_lt_two_pow h.1 (rangeMask_lt hle (Nat.mod_lt _ (by omega)))
  · exact h.1

theorem pageInsertRange_len_ge (p : Page) (a b : Nat) (h : PageOk p) :
    p.len ≤ (pageInsertRange p a b).len := by
  have : (pageInsertRange p a b).len = popCount (pageInsertRange p a b).bits := rfl
  rw [this, h.2]
  apply popCount_mono
  intro i _ hi
  unfold pageInsertRange
  simp only []
  split
  · rw [Nat.testBit_or, hi]; rfl
  · exact hi

theorem pageRemoveRange_bits (p : Page) (a b j : Nat) (h : a % 512 ≤ b % 512) :
    (pageRemoveRange p a b).bits.testBit j =
      (p.bits.testBit j && !(decide (a % 512 ≤ j) && decide (j ≤ b % 512))) := by
  simp only [pageRemoveRange, h, if_true, testBit_andNot, testBit_rangeMask _ _ _ h]

theorem pageRemoveRange_ok (p : Page) (a b : Nat) (h : PageOk p) : PageOk (pageRemoveRange p a b) := by
  refine ⟨?_, rfl⟩
  simp only [pageRemoveRange]
  split
  · exact andNot_lt h.1
  · exact h.1

end FontVerif.IntSet
