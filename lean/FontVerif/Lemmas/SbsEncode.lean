/-
Sparse-bit-set codec: `to_sparse_bit_set_with_bf` / `to_sparse_bit_set` against the
specification decoder.
-/
import FontVerif.Lemmas.SbsRound2
set_option linter.unusedVariables false
namespace FontVerif.SparseBitSet

theorem le_getLast_of_sorted : ∀ {l : List Nat} {mx : Nat}, l.Pairwise (· < ·) →
    l.getLast? = some mx → ∀ m ∈ l, m ≤ mx
  | [], _, _, h, _, hm => by simp at hm
  | [a], mx, _, h, m, hm => by
    simp at h hm; omega
  | a :: b :: t, mx, hp, h, m, hm => by
    have hp' := List.pairwise_cons.mp hp
    have h' : (b :: t).getLast? = some mx := by simpa [List.getLast?_cons_cons] using h
    have ih := le_getLast_of_sorted hp'.2 h'
    simp only [List.mem_cons] at hm
    rcases hm with rfl | hm
    · have hmx : mx ∈ b :: t := List.mem_of_getLast? h'
      exact Nat.le_of_lt (hp'.1 mx hmx)
    · exact ih m (by simpa using hm)

theorem writeTyped_eq (bf : Nat) :
    (fun (o : BitOut) (n : Node) =>
      match n.nodeType with
      | .standard => writeNode bf o n.bits
      | .filled => writeNode bf o 0
      | .skip => o) = writeTyped bf := by
  funext o n
  obtain ⟨b, p, t⟩ := n
  cases t <;> rfl

/-- the branch factor actually used (`BF = 2` falls back to 4 when the height exceeds 31) -/
def usedBf (bf maxValue : Nat) : Nat :=
  if treeHeightFor bf maxValue > maxHeight bf ∧ bf = 2 then 4 else bf

theorem encodeBf_nil (bf : Nat) : encodeBf bf [] = some [(0 % 32) * 4 + bitId bf] := by
  simp [encodeBf, BitOut.new, BitOut.bytes]

theorem encodeBf_some (bf : Nat) (members : List Nat) (mx : Nat)
    (h : members.getLast? = some mx) :
    encodeBf bf members =
      if treeHeightFor (usedBf bf mx) mx > maxHeight (usedBf bf mx) then none
      else some (encBytes (usedBf bf mx) members (treeHeightFor (usedBf bf mx) mx)) := by
  simp only [encodeBf, h, usedBf, encBytes]
  rfl

theorem usedBf_ok {bf : Nat} (hbf : BfOk bf) (mx : Nat) : BfOk (usedBf bf mx) := by
  simp only [usedBf]; split
  · simp [BfOk]
  · exact hbf

theorem maxHeight_le_31 (bf : Nat) : maxHeight bf ≤ 31 := by
  simp only [maxHeight]; split <;> (try split) <;> (try split) <;> omega

/-- the height used by the encoder is within `max_height` for every `u32` maximum -/
theorem usedBf_height {bf : Nat} (hbf : BfOk bf) {mx : Nat} (hmx : mx ≤ U32_MAX) :
    treeHeightFor (usedBf bf mx) mx ≤ maxHeight (usedBf bf mx) := by
  simp only [usedBf]
  split
  · exact treeHeightFor_le_maxHeight (Or.inl rfl) hmx
  · rename_i hc
    rcases hbf with h | h | h | h
    · subst h
      simp only [and_true] at hc
      omega
    · exact treeHeightFor_le_maxHeight (Or.inl h) hmx
    · exact treeHeightFor_le_maxHeight (Or.inr (Or.inl h)) hmx
    · exact treeHeightFor_le_maxHeight (Or.inr (Or.inr h)) hmx

/-- `to_sparse_bit_set_with_bf` of an ascending list of `u32` members never panics, and the
specification decoder reads the bytes back to exactly the members, consuming everything; the
header's height is within `max_height` of its branch factor -/
theorem encodeBf_spec {bf : Nat} (hbf : BfOk bf) (members : List Nat)
    (hsorted : members.Pairwise (· < ·)) (hu32 : ∀ m ∈ members, m ≤ U32_MAX) :
    ∃ bytes ivs, encodeBf bf members = some bytes ∧ specDecode bytes = some (ivs, []) ∧
      (∀ x, InsMem ivs x ↔ x ∈ members) ∧ (∀ b ∈ bytes, b < 256) ∧
      (∀ b0 tl, bytes = b0 :: tl → b0 / 4 % 32 ≤ maxHeight (bfOfBits b0)) := by
  cases hl : members.getLast? with
  | none =>
    have hnil : members = [] := List.getLast?_eq_none_iff.mp hl
    subst hnil
    refine ⟨_, [], encodeBf_nil bf, ?_, by simp [insMem_nil], ?_, ?_⟩
    · rcases hbf with rfl | rfl | rfl | rfl <;> simp [specDecode, bitId]
    · intro b hb
      simp only [List.mem_singleton] at hb
      rw [hb]; exact header_lt hbf 0
    · intro b0 tl h
      simp only [List.cons.injEq] at h
      rw [← h.1, height_header hbf]; omega
  | some mx =>
    have hne : members ≠ [] := by
      intro h; rw [h] at hl; simp at hl
    have hmxmem : mx ∈ members := List.mem_of_getLast? hl
    have hmx : mx ≤ U32_MAX := hu32 mx hmxmem
    have hok := usedBf_ok hbf mx
    have hheight := usedBf_height hbf hmx
    have sp := treeHeightFor_spec hok mx (u32_lt_pow33 hok hmx)
    rw [encodeBf_some bf members mx hl, if_neg (by omega)]
    generalize usedBf bf mx = bf' at *
    generalize hH : treeHeightFor bf' mx = H' at *
    obtain ⟨H, rfl⟩ : ∃ H, H' = H + 1 := ⟨H' - 1, by omega⟩
    have h31 := maxHeight_le_31 bf'
    have hS : ∀ m ∈ members, m < bf' ^ (H + 1) := fun m hm =>
      Nat.lt_of_le_of_lt (le_getLast_of_sorted hsorted hl m hm) sp.2.1
    obtain ⟨ivs, h1, h2, h3, h4⟩ := spec_roundtrip hok members hsorted hne H (by omega) hS
    refine ⟨_, ivs, rfl, h1, h2, h3, ?_⟩
    intro b0 tl h
    rw [h] at h4
    simp only [List.head?_cons, Option.some.injEq] at h4
    rw [h4, height_header hok, bfOfBits_header hok]
    omega

/-! ### `to_sparse_bit_set`: the first shortest candidate -/

/-- `min_by_key(|f| f.len())` as the model's fold: the result splits the candidate list into
strictly longer candidates before it and not shorter candidates after it -/
theorem foldl_min_spec : ∀ (cs pre : List (List Nat)) (best : List Nat) (post : List (List Nat)),
    (∀ y ∈ pre, best.length < y.length) → (∀ y ∈ post, best.length ≤ y.length) →
    ∃ pre' post',
      pre ++ best :: post ++ cs
        = pre' ++ (cs.foldl (fun best x => if x.length < best.length then x else best) best)
            :: post' ∧
      (∀ y ∈ pre', (cs.foldl (fun best x => if x.length < best.length then x else best) best).length
        < y.length) ∧
      (∀ y ∈ post', (cs.foldl (fun best x => if x.length < best.length then x else best) best).length
        ≤ y.length)
  | [], pre, best, post, h1, h2 => ⟨pre, post, by simp, h1, h2⟩
  | x :: cs, pre, best, post, h1, h2 => by
    simp only [List.foldl_cons]
    by_cases hx : x.length < best.length
    · rw [if_pos hx]
      obtain ⟨pre', post', e, a, b⟩ := foldl_min_spec cs (pre ++ best :: post) x [] (by
        intro y hy
        simp only [List.mem_append, List.mem_cons] at hy
        rcases hy with hy | rfl | hy
        · have := h1 y hy; omega
        · exact hx
        · have := h2 y hy; omega) (by simp)
      exact ⟨pre', post', by rw [← e]; simp, a, b⟩
    · rw [if_neg hx]
      obtain ⟨pre', post', e, a, b⟩ := foldl_min_spec cs pre best (post ++ [x]) h1 (by
        intro y hy
        simp only [List.mem_append, List.mem_singleton] at hy
        rcases hy with hy | rfl
        · exact h2 y hy
        · omega)
      exact ⟨pre', post', by rw [← e]; simp, a, b⟩

/-- the candidate list of `to_sparse_bit_set` -/
def encodeCands (members : List Nat) (mx : Nat) : List (List Nat) :=
  [2, 4, 8, 32].filterMap (fun bf =>
    if treeHeightFor bf mx ≤ maxHeight bf then encodeBf bf members else none)

theorem encode_nil : encode [] = [(0 % 32) * 4 + bitId 2] := by
  simp [encode, BitOut.new, BitOut.bytes]

theorem encode_some (members : List Nat) (mx : Nat) (h : members.getLast? = some mx) :
    encode members =
      match encodeCands members mx with
      | [] => []
      | c :: cs => cs.foldl (fun best x => if x.length < best.length then x else best) c := by
  simp only [encode, h, encodeCands]
  rfl

/-- every candidate is the encoding with one of the four branch factors -/
theorem mem_encodeCands {members : List Nat} {mx : Nat} {c : List Nat}
    (h : c ∈ encodeCands members mx) :
    ∃ bf, BfOk bf ∧ treeHeightFor bf mx ≤ maxHeight bf ∧ encodeBf bf members = some c := by
  simp only [encodeCands, List.mem_filterMap] at h
  obtain ⟨bf, hbf, hc⟩ := h
  split at hc
  · rename_i hh
    refine ⟨bf, ?_, hh, hc⟩
    simp only [List.mem_cons, List.not_mem_nil, or_false] at hbf
    exact hbf
  · simp at hc

/-- the branch factor 4 candidate is always present for `u32` members -/
theorem encodeCands_ne_nil {members : List Nat} {mx : Nat} (hmx : mx ≤ U32_MAX)
    (hsorted : members.Pairwise (· < ·)) (hu32 : ∀ m ∈ members, m ≤ U32_MAX) :
    encodeCands members mx ≠ [] := by
  obtain ⟨bytes, _, he, _⟩ := encodeBf_spec (bf := 4) (by simp [BfOk]) members hsorted hu32
  have : bytes ∈ encodeCands members mx := by
    simp only [encodeCands, List.mem_filterMap]
    refine ⟨4, by simp, ?_⟩
    rw [if_pos (treeHeightFor_le_maxHeight (Or.inl rfl) hmx)]
    exact he
  intro hc
  rw [hc] at this
  simp at this

/-! ### transfer to the real decoder -/

/-- if the specification decoder reads `bytes` (all `< 256`, supported height) back to exactly
`members` with nothing left over, then `from_sparse_bit_set_bounded(bytes, bias, max)` returns
`Ok` with an empty remainder and exactly the members shifted by the bias that are
`≤ min(max, u32::MAX)` -/
theorem decode_of_spec {bytes : List Nat} {ivs : List (Nat × Nat)} {members : List Nat}
    (hspec : specDecode bytes = some (ivs, [])) (hmem : ∀ x, InsMem ivs x ↔ x ∈ members)
    (hb : ∀ b ∈ bytes, b < 256)
    (hh : ∀ b0 tl, bytes = b0 :: tl → b0 / 4 % 32 ≤ maxHeight (bfOfBits b0))
    (bias maxValue : Nat) :
    ∃ ins, decode bytes bias maxValue = .ok ins [] ∧
      ∀ x, InsMem ins x ↔ (x ≤ maxValue ∧ x ≤ U32_MAX ∧ ∃ m ∈ members, x = m + bias) := by
  obtain ⟨h1, _, h3⟩ := decode_vs_spec bytes bias maxValue hb hh
  obtain ⟨ins, hdec⟩ := h3 ivs [] hspec
  obtain ⟨ivs', hs', hm'⟩ := h1 ins [] hdec
  rw [hspec] at hs'
  simp only [Option.some.injEq, Prod.mk.injEq, and_true] at hs'
  subst hs'
  refine ⟨ins, hdec, fun x => ?_⟩
  have := hm' x
  simp only [InsMem] at this ⊢
  rw [this]
  simp only [SpecMem]
  constructor
  · rintro ⟨a, b, p, hp, hp1, hp2⟩
    refine ⟨a, b, x - bias, (hmem _).mp ⟨p, hp, by omega, by omega⟩, by omega⟩
  · rintro ⟨a, b, m, hm, rfl⟩
    obtain ⟨p, hp, hp1, hp2⟩ := (hmem m).mpr hm
    exact ⟨a, b, p, hp, by omega, by omega⟩

end FontVerif.SparseBitSet
