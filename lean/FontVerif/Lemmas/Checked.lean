/-
Helper lemmas for the checked-integer layer (Model/Checked.lean): when a trapping operation is
`some`, ranges of wrapped values, product bounds.
-/
import FontVerif.Model.Checked
namespace FontVerif.Checked
set_option linter.unusedVariables false

/-! ### `chk` succeeds on in-range values (literal bounds: usable with `simp (disch := omega)`) -/

theorem chk_i16 {x : Int} (h : -32768 ≤ x ∧ x ≤ 32767) : i16.chk x = some x := if_pos h
theorem chk_i32 {x : Int} (h : -2147483648 ≤ x ∧ x ≤ 2147483647) : i32.chk x = some x := if_pos h
theorem chk_i64 {x : Int} (h : -9223372036854775808 ≤ x ∧ x ≤ 9223372036854775807) :
    i64.chk x = some x := if_pos h
theorem chk_u8 {x : Int} (h : 0 ≤ x ∧ x ≤ 255) : u8.chk x = some x := if_pos h
theorem chk_u16 {x : Int} (h : 0 ≤ x ∧ x ≤ 65535) : u16.chk x = some x := if_pos h
theorem chk_u32 {x : Int} (h : 0 ≤ x ∧ x ≤ 4294967295) : u32.chk x = some x := if_pos h
theorem chk_u64 {x : Int} (h : 0 ≤ x ∧ x ≤ 18446744073709551615) : u64.chk x = some x := if_pos h
theorem chk_usize {x : Int} (h : 0 ≤ x ∧ x ≤ 18446744073709551615) : usize.chk x = some x :=
  if_pos h

theorem chk_none_i32 {x : Int} (h : x < -2147483648 ∨ 2147483647 < x) : i32.chk x = none := by
  have : ¬ (i32.lo ≤ x ∧ x ≤ i32.hi) := by simp only [i32]; omega
  exact if_neg this

theorem chk_isSome_iff (t : IntTy) (x : Int) : (t.chk x).isSome ↔ t.inR x := by
  unfold IntTy.chk IntTy.inR; split <;> simp_all

/-! ### ranges of wrapped values -/

theorem wrap_i32_range (x : Int) : -2147483648 ≤ i32.wrap x ∧ i32.wrap x ≤ 2147483647 := by
  simp only [IntTy.wrap, i32]; omega
theorem wrap_i16_range (x : Int) : -32768 ≤ i16.wrap x ∧ i16.wrap x ≤ 32767 := by
  simp only [IntTy.wrap, i16]; omega
theorem wrap_u32_range (x : Int) : 0 ≤ u32.wrap x ∧ u32.wrap x ≤ 4294967295 := by
  simp only [IntTy.wrap, u32]; omega
theorem wrap_u64_range (x : Int) : 0 ≤ u64.wrap x ∧ u64.wrap x ≤ 18446744073709551615 := by
  simp only [IntTy.wrap, u64]; omega
theorem wrap_u16_range (x : Int) : 0 ≤ u16.wrap x ∧ u16.wrap x ≤ 65535 := by
  simp only [IntTy.wrap, u16]; omega
theorem wrap_u8_range (x : Int) : 0 ≤ u8.wrap x ∧ u8.wrap x ≤ 255 := by
  simp only [IntTy.wrap, u8]; omega

theorem wrap_i32_id {x : Int} (h : -2147483648 ≤ x ∧ x ≤ 2147483647) : i32.wrap x = x := by
  simp only [IntTy.wrap, i32]; omega
theorem wrap_u64_id {x : Int} (h : 0 ≤ x ∧ x ≤ 18446744073709551615) : u64.wrap x = x := by
  simp only [IntTy.wrap, u64]; omega
theorem wrap_u32_id {x : Int} (h : 0 ≤ x ∧ x ≤ 4294967295) : u32.wrap x = x := by
  simp only [IntTy.wrap, u32]; omega
theorem wrap_i16_id {x : Int} (h : -32768 ≤ x ∧ x ≤ 32767) : i16.wrap x = x := by
  simp only [IntTy.wrap, i16]; omega

/-! ### sign variables and literal shifts -/

theorem negIf_sign (c : Bool) (s : Int) (h : s = 1 ∨ s = -1) :
    ∃ s', (s' = 1 ∨ s' = -1) ∧ negIf c s = some s' := by
  unfold negIf
  cases c
  · exact ⟨s, h, rfl⟩
  · refine ⟨-s, by omega, ?_⟩
    simp only [IntTy.neg, if_true]; apply chk_i32; omega

theorem sign_init (c : Prop) [Decidable c] : (if c then (-1 : Int) else 1) = 1 ∨ (if c then (-1 : Int) else 1) = -1 := by
  split <;> simp

theorem shr_some (t : IntTy) (a n : Int) (h : 0 ≤ n ∧ n < t.bits) :
    t.shr a n = some (a / 2 ^ n.toNat) := by unfold IntTy.shr; rw [if_pos h]
theorem shl_some (t : IntTy) (a n : Int) (h : 0 ≤ n ∧ n < t.bits) :
    t.shl a n = some (t.wrap (a * 2 ^ n.toNat)) := by unfold IntTy.shl; rw [if_pos h]

theorem shr_u64_1 (a : Int) : u64.shr a 1 = some (a / 2) := shr_some u64 a 1 (by decide)
theorem shl_u64_16 (a : Int) : u64.shl a 16 = some (u64.wrap (a * 65536)) :=
  shl_some u64 a 16 (by decide)
theorem shr_i64_16 (a : Int) : i64.shr a 16 = some (a / 65536) := shr_some i64 a 16 (by decide)
theorem shr_i64_14 (a : Int) : i64.shr a 14 = some (a / 16384) := shr_some i64 a 14 (by decide)
theorem shr_i64_63 (a : Int) : i64.shr a 63 = some (a / 9223372036854775808) :=
  shr_some i64 a 63 (by decide)
theorem shr_i32_8 (a : Int) : i32.shr a 8 = some (a / 256) := shr_some i32 a 8 (by decide)
theorem shl_i32_16 (a : Int) : i32.shl a 16 = some (i32.wrap (a * 65536)) :=
  shl_some i32 a 16 (by decide)

/-! ### products -/

/-- `|a| ≤ A`, `|b| ≤ B` ⇒ `|a·b| ≤ A·B`. -/
theorem mul_bound {a b A B : Int} (ha : -A ≤ a ∧ a ≤ A) (hb : -B ≤ b ∧ b ≤ B) :
    -(A * B) ≤ a * b ∧ a * b ≤ A * B := by
  have h1 : 0 ≤ (A - a) * (B - b) := Int.mul_nonneg (by omega) (by omega)
  have h2 : 0 ≤ (A + a) * (B + b) := Int.mul_nonneg (by omega) (by omega)
  have h3 : 0 ≤ (A - a) * (B + b) := Int.mul_nonneg (by omega) (by omega)
  have h4 : 0 ≤ (A + a) * (B - b) := Int.mul_nonneg (by omega) (by omega)
  simp only [Int.sub_mul, Int.mul_sub, Int.add_mul, Int.mul_add] at h1 h2 h3 h4
  generalize A * B = p1 at *
  generalize a * b = p2 at *
  generalize A * b = p3 at *
  generalize a * B = p4 at *
  omega

/-- product of two non-negative bounded values -/
theorem mul_bound_nonneg {a b A B : Int} (ha : 0 ≤ a ∧ a ≤ A) (hb : 0 ≤ b ∧ b ≤ B) :
    0 ≤ a * b ∧ a * b ≤ A * B :=
  ⟨Int.mul_nonneg ha.1 hb.1, Int.mul_le_mul ha.2 hb.2 hb.1 (by omega)⟩

theorem uabs_range {x : Int} {A : Int} (h : -A ≤ x ∧ x ≤ A) : 0 ≤ uabs x ∧ uabs x ≤ A := by
  unfold uabs; split <;> omega

/-- floor division by a positive divisor of a non-negative value stays below the value -/
theorem ediv_range {n d : Int} (hn : 0 ≤ n) (hd : 0 < d) : 0 ≤ n / d ∧ n / d ≤ n := by
  refine ⟨Int.ediv_nonneg hn (by omega), ?_⟩
  apply Int.ediv_le_of_le_mul hd
  have : n * 1 ≤ n * d := Int.mul_le_mul_of_nonneg_left (by omega) hn
  omega

/-- truncating division by a positive divisor of a non-negative value -/
theorem tdiv_range {n d : Int} (hn : 0 ≤ n) (hd : 0 < d) : 0 ≤ Int.tdiv n d ∧ Int.tdiv n d ≤ n := by
  rw [Int.tdiv_eq_ediv_of_nonneg hn]; exact ediv_range hn hd

/-- truncating division by a positive divisor shrinks towards zero … -/
theorem tdiv_bounds {n d : Int} (hd : 0 < d) :
    (0 ≤ n → 0 ≤ Int.tdiv n d ∧ Int.tdiv n d ≤ n) ∧ (n < 0 → n ≤ Int.tdiv n d ∧ Int.tdiv n d ≤ 0) := by
  constructor
  · intro hn; exact tdiv_range hn hd
  · intro hn
    have h := tdiv_range (n := -n) (by omega) hd
    rw [Int.neg_tdiv] at h
    omega

/-- … and multiplying back by the divisor does not leave `[min(n,0), max(n,0)]`. -/
theorem tdiv_mul_bounds {n d : Int} (hd : 0 < d) :
    (0 ≤ n → 0 ≤ Int.tdiv n d * d ∧ Int.tdiv n d * d ≤ n) ∧
    (n < 0 → n ≤ Int.tdiv n d * d ∧ Int.tdiv n d * d ≤ 0) := by
  have key : ∀ m : Int, 0 ≤ m → 0 ≤ Int.tdiv m d * d ∧ Int.tdiv m d * d ≤ m := by
    intro m hm
    rw [Int.tdiv_eq_ediv_of_nonneg hm]
    exact ⟨Int.mul_nonneg (Int.ediv_nonneg hm (by omega)) (by omega), Int.ediv_mul_le m (by omega)⟩
  constructor
  · intro hn; exact key n hn
  · intro hn
    have h := key (-n) (by omega)
    rw [Int.neg_tdiv, Int.neg_mul] at h
    omega

end FontVerif.Checked
