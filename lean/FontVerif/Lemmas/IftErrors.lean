/-
C18 — error paths of glyph-keyed application: what a successful run implies about every patch
(gids strictly ascending, offsets inside the payload, compat ids of EVERY patch), used in
contrapositive form by Props/C18.lean.
-/
import FontVerif.Lemmas.IftOrder
set_option linter.unusedVariables false
namespace FontVerif.Ift

theorem beArray_length (w n : Nat) (b : Bytes) : (beArray w n b).length = n := by
  induction n generalizing b with
  | zero => rfl
  | succ n ih => simp [beArray, ih]

theorem gpRead_lengths (raw : Bytes) (wide : Bool) (gp : GlyphPatches) (h : gpRead raw wide = .ok gp) :
    gp.gids.length = gp.glyphCount ∧ gp.offsets.length = gp.glyphCount * gp.tables.length + 1 ∧
    gp.raw = raw := by
  unfold gpRead at h
  cases h4 : beAt 4 raw 0 with
  | none => rw [h4] at h; cases h
  | some gc =>
    cases h1 : beAt 1 raw 4 with
    | none => rw [h4, h1] at h; cases h
    | some tc =>
      rw [h4, h1] at h
      cases wide <;> simp only [Bool.false_eq_true, if_false, if_true] at h <;>
      · split at h
        · simp only [Except.ok.injEq] at h
          subst h
          simp [beArray_length]
        · cases h

theorem indexOfTag_lt (tag : Tag) (tables : List Tag) (i ti : Nat) (h : indexOfTag tag tables i = some ti) :
    i ≤ ti ∧ ti < i + tables.length := by
  induction tables generalizing i with
  | nil => cases h
  | cons x xs ih =>
    simp only [indexOfTag] at h
    split at h
    · simp only [Option.some.injEq] at h; subst h; simp
    · have := ih (i + 1) h; simp only [List.length_cons]; omega

theorem indexOfTag_some_of_mem (tag : Tag) (tables : List Tag) (i : Nat) (h : tag ∈ tables) :
    ∃ ti, indexOfTag tag tables i = some ti := by
  induction tables generalizing i with
  | nil => cases h
  | cons x xs ih =>
    simp only [indexOfTag]
    by_cases e : x = tag
    · exact ⟨i, by simp [e]⟩
    · simp only [e, if_false]
      rcases List.mem_cons.mp h with e' | e'
      · exact absurd e'.symm e
      · exact ih _ e'

/-- the (gid, start, end) triples `glyph_data_for_table(ti)` iterates over -/
def tableItems (gp : GlyphPatches) (ti : Nat) : List (Nat × Nat × Nat) :=
  List.zip gp.gids (List.zip (gp.offsets.drop (ti * gp.glyphCount)) ((gp.offsets.drop (ti * gp.glyphCount)).drop 1))

theorem glyphDataForTable_eq (gp : GlyphPatches) (ti : Nat) :
    glyphDataForTable gp ti = glyphData gp.raw none (tableItems gp ti) := rfl

theorem tableItems_spec (raw : Bytes) (wide : Bool) (gp : GlyphPatches) (hr : gpRead raw wide = .ok gp)
    (ti : Nat) (hti : ti < gp.tables.length) :
    (tableItems gp ti).length = gp.glyphCount ∧ (tableItems gp ti).map (·.1) = gp.gids ∧
    ∀ j (hj : j < (tableItems gp ti).length),
      (tableItems gp ti)[j].2.1 = gp.offsets.getD (ti * gp.glyphCount + j) 0 ∧
      (tableItems gp ti)[j].2.2 = gp.offsets.getD (ti * gp.glyphCount + j + 1) 0 := by
  obtain ⟨l1, l2, _⟩ := gpRead_lengths raw wide gp hr
  have hmul : (ti + 1) * gp.glyphCount ≤ gp.tables.length * gp.glyphCount :=
    Nat.mul_le_mul_right _ hti
  have hoff : ti * gp.glyphCount + gp.glyphCount + 1 ≤ gp.offsets.length := by
    rw [l2, Nat.mul_comm gp.glyphCount]; rw [Nat.succ_mul] at hmul; omega
  have hz : (List.zip (gp.offsets.drop (ti * gp.glyphCount)) ((gp.offsets.drop (ti * gp.glyphCount)).drop 1)).length
      ≥ gp.glyphCount := by
    simp only [List.length_zip, List.length_drop]; omega
  refine ⟨?_, ?_, ?_⟩
  · simp only [tableItems, List.length_zip] at hz ⊢; omega
  · unfold tableItems
    exact List.map_fst_zip (by rw [l1]; exact hz)
  · intro j hj
    have hjl : j < gp.glyphCount := by
      simp only [tableItems, List.length_zip] at hj; omega
    simp only [tableItems, List.getElem_zip, List.getElem_drop, List.getD_eq_getElem?_getD]
    constructor
    · rw [List.getElem?_eq_getElem (by omega)]; rfl
    · rw [List.getElem?_eq_getElem (by omega)]
      simp only [Option.getD_some]
      congr 1; omega

/-- every patch naming `tag` was read successfully when `dedup` succeeds -/
theorem dedup_items_ok (tag : Tag) (gps : List GlyphPatches) (repl : List (Nat × Bytes))
    (h : dedup tag gps = .ok repl) (gp : GlyphPatches) (hgp : gp ∈ gps) (ti : Nat)
    (hti : indexOfTag tag gp.tables 0 = some ti) :
    (tableItems gp ti).Pairwise (fun x y => x.1 < y.1) ∧
    ∀ x ∈ tableItems gp ti, 0 < x.2.1 ∧ x.2.1 ≤ x.2.2 ∧ x.2.2 ≤ gp.raw.length := by
  obtain ⟨_, pr, _⟩ := dedup_spec tag gps repl h
  obtain ⟨items, hi⟩ := pr gp hgp ti hti
  rw [glyphDataForTable_eq] at hi
  obtain ⟨_, e2, _, e4⟩ := glyphData_ok _ _ _ _ hi
  exact ⟨e4, e2⟩

/-- success of the whole application implies `dedup tag` succeeded when a patch names `tag`, for each
of the four patchable tables -/
theorem apply_ok_dedup (infos : List PatchInfo) (gps : List GlyphPatches) (font out : Font)
    (h : applyGlyphPatches infos gps font = .ok out) (gp : GlyphPatches) (hgp : gp ∈ gps)
    (tag : Tag) (harm : IsArmTag tag) (hg : tag ∈ gp.tables) : ∃ repl, dedup tag gps = .ok repl := by
  cases ht : tableTagList gps with
  | error e =>
    unfold applyGlyphPatches at h
    rw [ht] at h
    split at h
    · cases h
    · simp only at h; split at h <;> cases h
  | ok tags =>
    exact applyGlyphPatches_dedup_ok infos gps font out h tags ht tag
      (((tableTagList_ok gps tags ht).2 _).mpr ⟨gp, hgp, hg⟩) harm

/-! ## compat ids of every patch -/

theorem checkGlyphKeyed_all (font : Font) (patches : List (PatchInfo × Bytes))
    (hs : List (PatchInfo × GKHeader)) (h : checkGlyphKeyed font patches = .ok hs) :
    hs.map (·.1) = patches.map (·.1) ∧
    ∀ ip ∈ patches, fontCompatId font ip.1.tag = .ok ip.1.compat ∧
      ∃ hd, gkRead ip.2 = .ok hd ∧ hd.compat = ip.1.compat ∧ (ip.1, hd) ∈ hs := by
  induction patches generalizing hs with
  | nil => simp only [checkGlyphKeyed, Except.ok.injEq] at h; subst h; simp
  | cons x rest ih =>
    obtain ⟨info, p⟩ := x
    unfold checkGlyphKeyed at h
    cases hf : fontCompatId font info.tag with
    | error e => rw [hf] at h; cases h
    | ok fontId =>
      rw [hf] at h
      simp only at h
      by_cases h1 : fontId = info.compat
      · simp only [h1, ne_eq, not_true_eq_false, if_false] at h
        cases hg : gkRead p with
        | error e => rw [hg] at h; cases h
        | ok hd =>
          rw [hg] at h
          simp only at h
          by_cases h2 : info.compat = hd.compat
          · simp only [h2, ne_eq, not_true_eq_false, if_false] at h
            cases hr : checkGlyphKeyed font rest with
            | error e => rw [hr] at h; cases h
            | ok more =>
              rw [hr] at h
              simp only [Except.ok.injEq] at h
              subst h
              obtain ⟨i1, i2⟩ := ih more hr
              refine ⟨by simp [i1], ?_⟩
              intro ip hip
              rcases List.mem_cons.mp hip with e | e
              · subst e
                exact ⟨by rw [hf, h1], hd, hg, h2.symm, by simp⟩
              · obtain ⟨j1, hd', j2, j3, j4⟩ := i2 ip e
                exact ⟨j1, hd', j2, j3, List.mem_cons_of_mem _ j4⟩
          · simp only [ne_eq, h2, not_false_eq_true, if_true] at h; cases h
      · simp only [ne_eq, h1, not_false_eq_true, if_true] at h; cases h

/-! ## decoding -/

theorem decodeAll_ok (dec : Decoder) (hs : List GKHeader) (i : Nat) (raws : List Bytes)
    (h : decodeAll dec hs i = .ok raws) :
    raws.length = hs.length ∧
    ∀ k (hk : k < hs.length), hs[k].format = TAG_ifgk ∧
      ∃ raw, dec (i + k) hs[k].stream none hs[k].maxLen = .ok raw ∧ raws[k]? = some raw := by
  induction hs generalizing i raws with
  | nil => simp only [decodeAll, Except.ok.injEq] at h; subst h; simp
  | cons x xs ih =>
    simp only [decodeAll] at h
    split at h
    · cases h
    · rename_i hf
      split at h
      · cases h
      · rename_i raw hr
        split at h
        · cases h
        · rename_i more hm
          simp only [Except.ok.injEq] at h
          subst h
          obtain ⟨i1, i2⟩ := ih (i + 1) more hm
          refine ⟨by simp [i1], ?_⟩
          intro k hk
          cases k with
          | zero => exact ⟨by simpa using hf, raw, by simpa using hr, by simp⟩
          | succ k =>
            obtain ⟨j1, raw', j2, j3⟩ := i2 k (by simpa using hk)
            refine ⟨by simpa using j1, raw', ?_, by simpa using j3⟩
            rw [show i + (k + 1) = i + 1 + k by omega]; simpa using j2

/-! ## offset width -/

theorem chooseOffsetType_spec (a : OffsetArray) (total : Nat) (t : OffsetType)
    (h : chooseOffsetType a total = .ok t) :
    total ≤ t.maxRepresentable ∧
    (total ≤ a.offsetType.maxRepresentable → t = a.offsetType) ∧
    (a.offsetType.maxRepresentable < total →
      t ∈ a.available ∧ ∃ pre post, a.available = pre ++ t :: post ∧ ∀ c ∈ pre, c.maxRepresentable < total) := by
  unfold chooseOffsetType at h
  by_cases hgt : total > a.offsetType.maxRepresentable
  · simp only [hgt, if_true] at h
    cases hf : a.available.find? (fun c => decide (c.maxRepresentable ≥ total)) with
    | none => rw [hf] at h; cases h
    | some c =>
      rw [hf] at h
      simp only [Except.ok.injEq] at h
      subst h
      have h1 := List.find?_some hf
      simp only [decide_eq_true_eq] at h1
      obtain ⟨pre, post, hsplit, hpre⟩ := List.find?_eq_some_iff_append.mp hf |>.2
      refine ⟨h1, fun hle => by omega, fun _ => ⟨List.mem_of_find?_eq_some hf, pre, post, hsplit, ?_⟩⟩
      intro x hx
      have := hpre x hx
      simp only [decide_eq_true_eq, Bool.not_eq_true', decide_eq_false_iff_not] at this
      omega
  · simp only [hgt, if_false, Except.ok.injEq] at h
    subst h
    exact ⟨by omega, fun _ => rfl, fun hlt => by omega⟩

end FontVerif.Ift
