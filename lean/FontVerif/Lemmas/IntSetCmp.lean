/- C14 / IntSet helper lemmas, part 11: the range walk of `impl Ord for IntSet` is the
lexicographic order on members also when the ranges are in *domain* normal form (discontinuous
domains, where a reported range may span values that are not in the domain). -/
import FontVerif.Lemmas.IntSetDisc
set_option linter.unusedVariables false
set_option linter.unusedSimpArgs false
namespace FontVerif.IntSet

/-- Boolean range membership -/
def nmemB (rs : List (Nat × Nat)) (x : Nat) : Bool :=
  rs.any (fun r => decide (r.1 ≤ x) && decide (x ≤ r.2))

theorem nmemB_iff {rs : List (Nat × Nat)} {x : Nat} : nmemB rs x = true ↔ NMem rs x := by
  simp [nmemB, NMem, List.any_eq_true]

/-- the domain values covered by a range list, ascending -/
def dElems (D : List Nat) (rs : List (Nat × Nat)) : List Nat := D.filter (nmemB rs)

/-- the domain values in `[s, e]`, ascending -/
def seg (D : List Nat) (s e : Nat) : List Nat := D.filter (fun x => decide (s ≤ x) && decide (x ≤ e))

theorem mem_dElems {D : List Nat} {rs : List (Nat × Nat)} {x : Nat} :
    x ∈ dElems D rs ↔ x ∈ D ∧ NMem rs x := by
  unfold dElems; rw [List.mem_filter, nmemB_iff]

theorem mem_seg {D : List Nat} {s e x : Nat} : x ∈ seg D s e ↔ x ∈ D ∧ s ≤ x ∧ x ≤ e := by
  unfold seg; simp [List.mem_filter]

theorem dElems_asc {D : List Nat} (hD : Asc D) (rs : List (Nat × Nat)) : Asc (dElems D rs) :=
  hD.filter _

theorem seg_asc {D : List Nat} (hD : Asc D) (s e : Nat) : Asc (seg D s e) := hD.filter _

theorem dElems_nil (D : List Nat) : dElems D [] = [] := by
  unfold dElems
  rw [List.filter_eq_nil_iff]
  intro x _
  simp [nmemB]

theorem dElems_cons {D : List Nat} (hD : Asc D) {r : Nat × Nat} {rs : List (Nat × Nat)}
    (h : RSorted (r :: rs)) : dElems D (r :: rs) = seg D r.1 r.2 ++ dElems D rs := by
  have c := rsorted_cons.1 h
  apply asc_ext (dElems_asc hD _)
  · rw [asc_append]
    refine ⟨seg_asc hD _ _, dElems_asc hD _, ?_⟩
    intro a ha b hb
    rw [mem_seg] at ha
    rw [mem_dElems] at hb
    obtain ⟨q, hq, h1, h2⟩ := hb.2
    have := c.1 q hq
    omega
  · intro x
    rw [mem_dElems, List.mem_append, mem_seg, mem_dElems, nmem_cons]
    constructor
    · rintro ⟨h1, h2 | h2⟩
      · exact Or.inl ⟨h1, h2⟩
      · exact Or.inr ⟨h1, h2⟩
    · rintro (⟨h1, h2⟩ | ⟨h1, h2⟩)
      · exact ⟨h1, Or.inl h2⟩
      · exact ⟨h1, Or.inr h2⟩

theorem seg_split {D : List Nat} (hD : Asc D) (s m e : Nat) (hsm : s ≤ m + 1) :
    seg D s e = seg D s (min m e) ++ seg D (m + 1) e := by
  apply asc_ext (seg_asc hD _ _)
  · rw [asc_append]
    refine ⟨seg_asc hD _ _, seg_asc hD _ _, ?_⟩
    intro a ha b hb
    rw [mem_seg] at ha hb
    omega
  · intro x
    rw [List.mem_append, mem_seg, mem_seg, mem_seg]
    constructor
    · rintro ⟨h1, h2, h3⟩
      by_cases hx : x ≤ m
      · exact Or.inl ⟨h1, h2, by omega⟩
      · exact Or.inr ⟨h1, by omega, h3⟩
    · rintro (⟨h1, h2, h3⟩ | ⟨h1, h2, h3⟩)
      · exact ⟨h1, h2, by omega⟩
      · exact ⟨h1, by omega, h3⟩

/-- a segment whose right end is a domain value `≥ s` is non-empty and starts with the least
domain value `≥ s` -/
theorem seg_head {D : List Nat} (hD : Asc D) {s e : Nat} (he : e ∈ D) (hse : s ≤ e) :
    ∃ h0 t, seg D s e = h0 :: t ∧ s ≤ h0 ∧ h0 ≤ e ∧ ∀ g ∈ D, s ≤ g → h0 ≤ g := by
  have hmem : e ∈ seg D s e := mem_seg.2 ⟨he, hse, Nat.le_refl _⟩
  have hasc := seg_asc hD s e
  cases hseg : seg D s e with
  | nil => rw [hseg] at hmem; simp at hmem
  | cons h0 t =>
    rw [hseg] at hasc
    have c := asc_cons.1 hasc
    have h0m : h0 ∈ seg D s e := by rw [hseg]; simp
    have h0' := mem_seg.1 h0m
    refine ⟨h0, t, rfl, h0'.2.1, h0'.2.2, ?_⟩
    intro g hg hsg
    by_cases hge : g ≤ e
    · have : g ∈ seg D s e := mem_seg.2 ⟨hg, hsg, hge⟩
      rw [hseg] at this
      simp only [List.mem_cons] at this
      rcases this with rfl | this
      · exact Nat.le_refl _
      · exact Nat.le_of_lt (c.1 g this)
    · omega

/-- a segment starting at a domain value starts with it -/
theorem seg_head_self {D : List Nat} (hD : Asc D) {s e : Nat} (hs : s ∈ D) (he : e ∈ D)
    (hse : s ≤ e) : ∃ t, seg D s e = s :: t := by
  obtain ⟨h0, t, h1, h2, h3, h4⟩ := seg_head hD he hse
  have := h4 s hs (Nat.le_refl _)
  have : h0 = s := by omega
  subst this
  exact ⟨t, h1⟩

theorem dElems_head {D : List Nat} (hD : Asc D) {r : Nat × Nat} {rs : List (Nat × Nat)}
    (h : DRInv D (r :: rs)) : ∃ t, dElems D (r :: rs) = r.1 :: t := by
  have c := (drinv_cons.1 h).2.1
  obtain ⟨t, ht⟩ := seg_head_self hD c.2.1 c.2.2 c.1
  rw [dElems_cons hD h.rsorted, ht]
  exact ⟨_, rfl⟩

theorem cmpRanges_disc {D : List Nat} (hD : Asc D) (ra rb : List (Nat × Nat)) (ha : DRInv D ra)
    (hb : DRInv D rb) : cmpRanges ra rb = lexOrd (dElems D ra) (dElems D rb) := by
  induction ra generalizing rb with
  | nil =>
    cases rb with
    | nil => rw [dElems_nil]; rfl
    | cons b rb =>
      obtain ⟨t, ht⟩ := dElems_head hD hb
      rw [ht, dElems_nil]; rfl
  | cons a ra ih =>
    cases rb with
    | nil =>
      obtain ⟨t, ht⟩ := dElems_head hD ha
      rw [ht, dElems_nil]; rfl
    | cons b rb =>
      obtain ⟨as, ae⟩ := a
      obtain ⟨bs, be⟩ := b
      have ca := drinv_cons.1 ha
      have cb := drinv_cons.1 hb
      simp only at ca cb
      obtain ⟨ta, hta⟩ := seg_head_self hD ca.2.1.2.1 ca.2.1.2.2 ca.2.1.1
      obtain ⟨tb, htb⟩ := seg_head_self hD cb.2.1.2.1 cb.2.1.2.2 cb.2.1.1
      have ea := dElems_cons hD ha.rsorted
      have eb := dElems_cons hD hb.rsorted
      simp only at ea eb
      simp only [cmpRanges]
      split
      · rename_i hlt
        rw [ea, eb, hta, htb]
        simp [lexOrd, hlt]
      · split
        · rename_i hnlt hgt
          rw [ea, eb, hta, htb]
          simp [lexOrd, hnlt, hgt]
        · rename_i hnlt hngt
          have hs : as = bs := by omega
          subst hs
          split
          · rename_i hee
            subst hee
            rw [ea, eb, lexOrd_append]
            exact ih rb ca.2.2 cb.2.2
          · rename_i hne
            split
            · rename_i hlt
              -- a's first range ends first; b continues with the least domain value after `ae`
              have hsp := seg_split hD as ae be (by have := ca.2.1.1; omega)
              rw [show min ae be = ae by omega] at hsp
              obtain ⟨h0, t0, e0, l0, u0, m0⟩ := seg_head hD cb.2.1.2.2 (show ae + 1 ≤ be by omega)
              rw [ea, eb, hsp, List.append_assoc, lexOrd_append, e0]
              cases ra with
              | nil => rw [dElems_nil]; simp [lexOrd]
              | cons r ra' =>
                obtain ⟨t, ht⟩ := dElems_head hD ca.2.2
                rw [ht]
                obtain ⟨_, g, hg, hg1, hg2⟩ := ca.1 r (by simp)
                simp only at hg1
                have := m0 g hg (by omega)
                have h1 : ¬ r.1 < h0 := by omega
                have h2 : r.1 > h0 := by omega
                simp [lexOrd, h1, h2]
            · rename_i hnlt2
              have hgt : be < ae := by omega
              have hsp := seg_split hD as be ae (by have := cb.2.1.1; omega)
              rw [show min be ae = be by omega] at hsp
              obtain ⟨h0, t0, e0, l0, u0, m0⟩ := seg_head hD ca.2.1.2.2 (show be + 1 ≤ ae by omega)
              rw [ea, eb, hsp, List.append_assoc, lexOrd_append, e0]
              cases rb with
              | nil => rw [dElems_nil]; simp [lexOrd]
              | cons r rb' =>
                obtain ⟨t, ht⟩ := dElems_head hD cb.2.2
                rw [ht]
                obtain ⟨_, g, hg, hg1, hg2⟩ := cb.1 r (by simp)
                simp only at hg1
                have := m0 g hg (by omega)
                have h1 : h0 < r.1 := by omega
                simp [lexOrd, h1]

/-- the domain members covered by `iter_ranges()` are the member sequence -/
theorem dElems_ranges {d : Domain} (hd : DomWF d) {s : IntSet} (h : IInvD d s) :
    dElems (expand d.ranges) (s.ranges d) = s.elems d := by
  unfold dElems IntSet.elems
  apply List.filter_congr
  intro x hx
  have := (IntSet.ranges_iface hd h).2 x (Domain.contains_iff_mem.2 hx)
  rw [← nmemB_iff] at this
  cases h1 : nmemB (s.ranges d) x <;> cases h2 : s.contains x <;> simp_all

/-- `impl Ord for IntSet` is the lexicographic order on the ascending member sequences: every
well-formed domain, all four mode combinations -/
theorem IntSet.cmp_spec' {d : Domain} (hd : DomWF d) {a b : IntSet} (ha : IInvD d a)
    (hb : IInvD d b) : a.cmp d b = lexOrd (a.elems d) (b.elems d) := by
  cases hc : d.continuous with
  | true => exact IntSet.cmp_spec hd hc ha hb
  | false =>
    by_cases hm : a.inverted = false ∧ b.inverted = false
    · exact IntSet.cmp_spec_inclusive hd ha hb hm.1 hm.2
    · unfold IntSet.cmp
      rw [if_neg (by
        intro h
        simp only [Bool.and_eq_true, Bool.not_eq_true'] at h
        exact hm h)]
      obtain ⟨a1, _⟩ := IntSet.rangesInvertible_disc hd hc ha false
      obtain ⟨b1, _⟩ := IntSet.rangesInvertible_disc hd hc hb false
      rw [← dElems_ranges hd ha, ← dElems_ranges hd hb]
      exact cmpRanges_disc (expand_asc hd.sorted) _ _ a1 b1

/-! ### `NRInv` is the RangeSet invariant of Model/RangeSet.lean -/

/-- the `Nat` range list as a `RangeSet` entry list -/
def toIntRanges (rs : List (Nat × Nat)) : RangeSet.Ranges :=
  rs.map (fun p => ((p.1 : Int), (p.2 : Int)))

theorem nrinv_iff_rinv (rs : List (Nat × Nat)) : NRInv rs ↔ RangeSet.RInv (toIntRanges rs) := by
  simp only [NRInv, RangeSet.RInv, toIntRanges, List.pairwise_map, List.forall_mem_map]
  constructor
  · rintro ⟨h1, h2⟩
    exact ⟨h1.imp (fun h => by omega), fun p hp => by have := h2 p hp; omega⟩
  · rintro ⟨h1, h2⟩
    exact ⟨h1.imp (fun h => by omega), fun p hp => by have := h2 p hp; omega⟩

theorem nmem_iff_mem (rs : List (Nat × Nat)) (x : Nat) :
    NMem rs x ↔ RangeSet.Mem (toIntRanges rs) (x : Int) := by
  simp only [NMem, RangeSet.Mem, toIntRanges, List.mem_map]
  constructor
  · rintro ⟨p, hp, h1, h2⟩
    exact ⟨((p.1 : Int), (p.2 : Int)), ⟨p, hp, rfl⟩, by simp only; omega, by simp only; omega⟩
  · rintro ⟨q, ⟨p, hp, rfl⟩, h1, h2⟩
    exact ⟨p, hp, by simp only at h1; omega, by simp only at h2; omega⟩

end FontVerif.IntSet
