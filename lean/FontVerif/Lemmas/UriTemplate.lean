/-
Lemmas for C19 (uri templates, Model/UriTemplate.lean): the state machine of `uri_templates.rs` as a
parser into output EVENTS (independent of the id), expansion = rendering of the events; rendering is
injective in the substituted strings when their lengths agree; base32hex is injective and its length
strictly monotone.
-/
import FontVerif.Model.UriTemplate
set_option linter.unusedVariables false
namespace FontVerif.UriTemplate
open FontVerif FontVerif.PatchMap

/-- what one step of the expander appends to the output -/
inductive Ev where
  /-- a byte copied verbatim (literal, `%`, hex digit of a `%XX` triplet) -/
  | raw (b : Nat)
  /-- a literal that is percent-encoded (`%XX`, upper case) -/
  | enc (b : Nat)
  | id
  | id64
  /-- `{d1}` … `{d4}` -/
  | digit (n : Nat)
  deriving DecidableEq, Repr

def Ev.out (a b : List Nat) : Ev → List Nat
  | .raw v => [v]
  | .enc v => percentEncoded v
  | .id => a
  | .id64 => b
  | .digit n => [idDigit a n]

def render (a b : List Nat) (evs : List Ev) : List Nat := evs.flatMap (Ev.out a b)

/-- `ParseStateMachine::take_input` with the output replaced by the events -/
def stepEv (st : ParseState × List Ev) (v : Nat) : Option (ParseState × List Ev) :=
  let (state, evs) := st
  match state with
  | .literal =>
    match byteInfo v with
    | .invalid => none
    | .percent => some (.pct false, evs ++ [.raw v])
    | .startExpression => some (.expr .begin, evs)
    | .copiedLiteral | .copiedLiteralHexDigit | .copiedLiteralUnreserved => some (.literal, evs ++ [.raw v])
    | .percentEncodedLiteral => some (.literal, evs ++ [.enc v])
  | .pct second =>
    match byteInfo v with
    | .copiedLiteralHexDigit => some (if second then .literal else .pct true, evs ++ [.raw v])
    | _ => none
  | .expr var =>
    match var, v with
    | .begin, 105 => some (.expr .i, evs)
    | .begin, 100 => some (.expr .d, evs)
    | .i, 100 => some (.expr .id, evs)
    | .id, 54 => some (.expr .id6, evs)
    | .id6, 52 => some (.expr .id64, evs)
    | .d, 49 => some (.expr (.dx 1), evs)
    | .d, 50 => some (.expr (.dx 2), evs)
    | .d, 51 => some (.expr (.dx 3), evs)
    | .d, 52 => some (.expr (.dx 4), evs)
    | .id, 125 => some (.literal, evs ++ [.id])
    | .id64, 125 => some (.literal, evs ++ [.id64])
    | .dx n, 125 => some (.literal, evs ++ [.digit n])
    | _, _ => none

def goEv : List Nat → ParseState × List Ev → Option (ParseState × List Ev)
  | [], st => some st
  | v :: vs, st => match stepEv st v with
    | none => none
    | some st' => goEv vs st'

/-- the template as a list of output events; `none` = `UriTemplateError` (a property of the template
alone) -/
def parseEvents (template : List Nat) : Option (List Ev) :=
  match goEv template (.literal, []) with
  | some (.literal, evs) => some evs
  | _ => none

theorem render_snoc (a b : List Nat) (evs : List Ev) (e : Ev) :
    render a b (evs ++ [e]) = render a b evs ++ e.out a b := by
  simp [render, List.flatMap_append]

theorem takeInput_eq_stepEv (a b : List Nat) (st : ParseState) (evs : List Ev) (v : Nat) :
    takeInput a b (st, render a b evs) v
      = (stepEv (st, evs) v).map (fun p => (p.1, render a b p.2)) := by
  unfold takeInput stepEv
  cases st with
  | literal =>
    simp only []
    cases byteInfo v <;> simp [render_snoc, Ev.out]
  | pct second =>
    simp only []
    cases byteInfo v <;> simp [render_snoc, Ev.out]
  | expr var =>
    simp only []
    split <;> simp_all [render_snoc, Ev.out]

theorem go_eq_goEv (a b : List Nat) : ∀ (tpl : List Nat) (st : ParseState) (evs : List Ev),
    expandInner.go a b tpl (st, render a b evs)
      = (goEv tpl (st, evs)).map (fun p => (p.1, render a b p.2))
  | [], st, evs => by simp [expandInner.go, goEv]
  | v :: vs, st, evs => by
    rw [expandInner.go, goEv, takeInput_eq_stepEv]
    cases h : stepEv (st, evs) v with
    | none => simp
    | some p => simp only [Option.map_some]; exact go_eq_goEv a b vs p.1 p.2

/-- **expansion = rendering of the template's events** -/
theorem expandInner_eq (tpl a b : List Nat) :
    expandInner tpl a b = (parseEvents tpl).map (render a b) := by
  unfold expandInner parseEvents
  have := go_eq_goEv a b tpl .literal []
  simp only [render, List.flatMap_nil] at this
  rw [this]
  cases goEv tpl (.literal, []) with
  | none => rfl
  | some p =>
    obtain ⟨st, evs⟩ := p
    cases st <;> simp [render]

/-! ## aligned rendering is injective -/

theorem ev_out_length (a1 b1 a2 b2 : List Nat) (ha : a1.length = a2.length) (hb : b1.length = b2.length)
    (e : Ev) : (e.out a1 b1).length = (e.out a2 b2).length := by
  cases e <;> simp [Ev.out, percentEncoded, ha, hb]

theorem render_inj (a1 b1 a2 b2 : List Nat) (ha : a1.length = a2.length) (hb : b1.length = b2.length) :
    ∀ evs : List Ev, render a1 b1 evs = render a2 b2 evs →
      (Ev.id ∈ evs → a1 = a2) ∧ (Ev.id64 ∈ evs → b1 = b2)
  | [], _ => ⟨fun h => (by cases h), fun h => (by cases h)⟩
  | e :: rest, h => by
    simp only [render, List.flatMap_cons] at h
    obtain ⟨h1, h2⟩ := List.append_inj h (ev_out_length a1 b1 a2 b2 ha hb e)
    obtain ⟨ih1, ih2⟩ := render_inj a1 b1 a2 b2 ha hb rest h2
    constructor
    · intro hm
      rcases List.mem_cons.1 hm with rfl | hm
      · simpa [Ev.out] using h1
      · exact ih1 hm
    · intro hm
      rcases List.mem_cons.1 hm with rfl | hm
      · simpa [Ev.out] using h1
      · exact ih2 hm

/-- length of a rendering: fixed part + one substitution length per `{id}` / `{id64}` -/
def fixedLen : List Ev → Nat
  | [] => 0
  | .raw _ :: r => 1 + fixedLen r
  | .enc _ :: r => 3 + fixedLen r
  | .digit _ :: r => 1 + fixedLen r
  | _ :: r => fixedLen r

theorem render_length (a b : List Nat) : ∀ evs : List Ev,
    (render a b evs).length
      = fixedLen evs + (evs.count .id) * a.length + (evs.count .id64) * b.length
  | [] => by simp [render, fixedLen]
  | e :: rest => by
    have ih := render_length a b rest
    simp only [render, List.flatMap_cons, List.length_append] at ih ⊢
    rw [ih]
    cases e <;> simp [Ev.out, percentEncoded, fixedLen, List.count_cons, Nat.add_mul] <;> omega

/-! ## base32hex -/

theorem byteBits_length (b : Nat) : (byteBits b).length = 8 := rfl

theorem bitsVal_byteBits : ∀ b : Fin 256, bitsVal (byteBits b.val) = b.val := by decide +kernel

theorem byteBits_inj {b c : Nat} (hb : b < 256) (hc : c < 256) (h : byteBits b = byteBits c) : b = c := by
  have h1 := bitsVal_byteBits ⟨b, hb⟩
  have h2 := bitsVal_byteBits ⟨c, hc⟩
  simp only [] at h1 h2
  rw [← h1, ← h2, h]

theorem flatMap_byteBits_inj : ∀ (x y : List Nat), (∀ b ∈ x, b < 256) → (∀ b ∈ y, b < 256) →
    x.length = y.length → x.flatMap byteBits = y.flatMap byteBits → x = y
  | [], [], _, _, _, _ => rfl
  | [], _ :: _, _, _, hl, _ => by simp at hl
  | _ :: _, [], _, _, hl, _ => by simp at hl
  | b :: x, c :: y, hx, hy, hl, h => by
    simp only [List.flatMap_cons] at h
    obtain ⟨h1, h2⟩ := List.append_inj h (by simp [byteBits_length])
    have := byteBits_inj (hx b (List.mem_cons_self ..)) (hy c (List.mem_cons_self ..)) h1
    subst this
    congr 1
    exact flatMap_byteBits_inj x y (fun b hb => hx b (List.mem_cons_of_mem _ hb))
      (fun b hb => hy b (List.mem_cons_of_mem _ hb)) (by simpa using hl) h2

theorem flatMap_byteBits_length (x : List Nat) : (x.flatMap byteBits).length = 8 * x.length := by
  induction x with
  | nil => rfl
  | cons b x ih => simp [List.flatMap_cons, byteBits_length, ih]; omega

/-- a 5-bit group and its value -/
theorem bitsVal5_inj : ∀ (g h : List Bool), g.length = 5 → h.length = 5 → bitsVal g = bitsVal h → g = h := by
  intro g h hg hh
  match g, hg with
  | [a, b, c, d, e], _ =>
    match h, hh with
    | [a', b', c', d', e'], _ =>
      revert a b c d e a' b' c' d' e'
      decide +kernel

theorem bitsVal5_lt : ∀ (g : List Bool), g.length = 5 → bitsVal g < 32 := by
  intro g hg
  match g, hg with
  | [a, b, c, d, e], _ => revert a b c d e; decide

theorem base32hexChar_inj : ∀ (v w : Fin 32), base32hexChar v.val = base32hexChar w.val → v = w := by decide +kernel

def pad5 (g : List Bool) : List Bool := g ++ List.replicate (5 - g.length) false

theorem pad5_length (bs : List Bool) : (pad5 (bs.take 5)).length = 5 := by
  simp [pad5, List.length_take]; omega

theorem chunk5_inj : ∀ (fuel : Nat) (x y : List Bool), x.length = y.length →
    (chunkBits 5 fuel x).map base32hexChar = (chunkBits 5 fuel y).map base32hexChar →
    x.length < fuel * 5 + 1 → x = y
  | 0, x, y, hl, _, hf => by
    have : x.length = 0 := by omega
    have hx : x = [] := List.eq_nil_of_length_eq_zero this
    have hy : y = [] := List.eq_nil_of_length_eq_zero (by omega)
    rw [hx, hy]
  | fuel + 1, x, y, hl, h, hf => by
    unfold chunkBits at h
    by_cases hx : x = []
    · subst hx
      have hy : y = [] := List.eq_nil_of_length_eq_zero (by simpa using hl.symm)
      rw [hy]
    · have hy : y ≠ [] := by
        intro hy; subst hy
        exact hx (List.eq_nil_of_length_eq_zero (by simpa using hl))
      simp only [List.isEmpty_iff, hx, hy, if_false, List.map_cons, List.cons.injEq] at h
      obtain ⟨h1, h2⟩ := h
      have hp1 := pad5_length x
      have hp2 := pad5_length y
      have hv1 := bitsVal5_lt _ hp1
      have hv2 := bitsVal5_lt _ hp2
      have hc := base32hexChar_inj ⟨_, hv1⟩ ⟨_, hv2⟩ (by simpa [pad5] using h1)
      have hg := bitsVal5_inj _ _ hp1 hp2 (by simpa using congrArg Fin.val hc)
      have htake : x.take 5 = y.take 5 := by
        have := List.append_inj hg (by simp [List.length_take, hl])
        exact this.1
      have hdrop := chunk5_inj fuel (x.drop 5) (y.drop 5) (by simp [hl]) h2
        (by simp only [List.length_drop]; omega)
      rw [← List.take_append_drop 5 x, ← List.take_append_drop 5 y, htake, hdrop]

theorem chunk5_length : ∀ (fuel : Nat) (x : List Bool), x.length < fuel * 5 + 1 →
    (chunkBits 5 fuel x).length = (x.length + 4) / 5
  | 0, x, hf => by
    have : x = [] := List.eq_nil_of_length_eq_zero (by omega)
    subst this; simp [chunkBits]
  | fuel + 1, x, hf => by
    unfold chunkBits
    by_cases hx : x = []
    · subst hx; simp
    · have hpos : 0 < x.length := List.length_pos_iff.2 hx
      simp only [List.isEmpty_iff, hx, if_false, List.length_cons]
      rw [chunk5_length fuel (x.drop 5) (by simp only [List.length_drop]; omega), List.length_drop]
      omega

theorem base32hex_length (x : List Nat) : (base32hex x).length = (8 * x.length + 4) / 5 := by
  unfold base32hex
  simp only [List.length_map]
  rw [chunk5_length _ _ (by rw [flatMap_byteBits_length]; omega), flatMap_byteBits_length]

/-- base32hex (no padding) is injective on byte strings of one length -/
theorem base32hex_inj (x y : List Nat) (hx : ∀ b ∈ x, b < 256) (hy : ∀ b ∈ y, b < 256)
    (hl : x.length = y.length) (h : base32hex x = base32hex y) : x = y := by
  unfold base32hex at h
  simp only [] at h
  have hbl : (x.flatMap byteBits).length = (y.flatMap byteBits).length := by
    rw [flatMap_byteBits_length, flatMap_byteBits_length, hl]
  rw [← hbl] at h
  have := chunk5_inj _ _ _ hbl h (by omega)
  exact flatMap_byteBits_inj x y hx hy hl this


/-! ## base64url (+ percent-encoding of the `=` padding): the `{id64}` value -/

/-- what `expand_template` does to each byte of the base64url string -/
def pe64 (b : Nat) : List Nat :=
  match byteInfo b with
  | .copiedLiteralUnreserved | .copiedLiteralHexDigit => [b]
  | _ => percentEncoded b

/-- the `{id64}` value for id bytes `x` -/
def id64Of (x : List Nat) : List Nat := (base64url x).flatMap pe64

theorem bits6_char_inj : ∀ (g h : List Bool), g.length = 6 → h.length = 6 →
    base64urlChar (bitsVal g) = base64urlChar (bitsVal h) → g = h := by
  intro g h hg hh
  match g, hg with
  | [a, b, c, d, e, f], _ =>
    match h, hh with
    | [a', b', c', d', e', f'], _ =>
      revert a b c d e f a' b' c' d' e' f'
      decide +kernel

theorem bits6_char_pe : ∀ (g : List Bool), g.length = 6 →
    pe64 (base64urlChar (bitsVal g)) = [base64urlChar (bitsVal g)] ∧ base64urlChar (bitsVal g) ≠ 37 := by
  intro g hg
  match g, hg with
  | [a, b, c, d, e, f], _ => revert a b c d e f; decide +kernel

theorem pe64_pad : pe64 61 = [37, 51, 68] := by decide

def pad6 (g : List Bool) : List Bool := g ++ List.replicate (6 - g.length) false

theorem pad6_length (bs : List Bool) : (pad6 (bs.take 6)).length = 6 := by
  simp [pad6, List.length_take]; omega

theorem chunk6_inj : ∀ (fuel : Nat) (x y : List Bool), x.length = y.length →
    (chunkBits 6 fuel x).map base64urlChar = (chunkBits 6 fuel y).map base64urlChar →
    x.length < fuel * 6 + 1 → x = y
  | 0, x, y, hl, _, hf => by
    have hx : x = [] := List.eq_nil_of_length_eq_zero (by omega)
    have hy : y = [] := List.eq_nil_of_length_eq_zero (by omega)
    rw [hx, hy]
  | fuel + 1, x, y, hl, h, hf => by
    unfold chunkBits at h
    by_cases hx : x = []
    · subst hx
      have hy : y = [] := List.eq_nil_of_length_eq_zero (by simpa using hl.symm)
      rw [hy]
    · have hy : y ≠ [] := by
        intro hy; subst hy
        exact hx (List.eq_nil_of_length_eq_zero (by simpa using hl))
      simp only [List.isEmpty_iff, hx, hy, if_false, List.map_cons, List.cons.injEq] at h
      obtain ⟨h1, h2⟩ := h
      have hg := bits6_char_inj _ _ (pad6_length x) (pad6_length y) (by simpa [pad6] using h1)
      have htake : x.take 6 = y.take 6 := (List.append_inj hg (by simp [List.length_take, hl])).1
      have hdrop := chunk6_inj fuel (x.drop 6) (y.drop 6) (by simp [hl]) h2
        (by simp only [List.length_drop]; omega)
      rw [← List.take_append_drop 6 x, ← List.take_append_drop 6 y, htake, hdrop]

theorem chunk6_length : ∀ (fuel : Nat) (x : List Bool), x.length < fuel * 6 + 1 →
    (chunkBits 6 fuel x).length = (x.length + 5) / 6
  | 0, x, hf => by
    have : x = [] := List.eq_nil_of_length_eq_zero (by omega)
    subst this; simp [chunkBits]
  | fuel + 1, x, hf => by
    unfold chunkBits
    by_cases hx : x = []
    · subst hx; simp
    · have hpos : 0 < x.length := List.length_pos_iff.2 hx
      simp only [List.isEmpty_iff, hx, if_false, List.length_cons]
      rw [chunk6_length fuel (x.drop 6) (by simp only [List.length_drop]; omega), List.length_drop]
      omega

/-- the data characters of a chunk list pass `pe64` unchanged -/
theorem chunk6_pe : ∀ (fuel : Nat) (x : List Bool),
    ((chunkBits 6 fuel x).map base64urlChar).flatMap pe64 = (chunkBits 6 fuel x).map base64urlChar
  | 0, x => by simp [chunkBits]
  | fuel + 1, x => by
    unfold chunkBits
    by_cases hx : x = []
    · subst hx; simp
    · simp only [List.isEmpty_iff, hx, if_false, List.map_cons, List.flatMap_cons]
      have := (bits6_char_pe _ (pad6_length x)).1
      simp only [pad6] at this
      rw [this, chunk6_pe fuel (x.drop 6)]
      rfl

theorem flatMap_pad (k : Nat) : (List.replicate k 61).flatMap pe64 = (List.replicate k [37, 51, 68]).flatten := by
  induction k with
  | zero => rfl
  | succ k ih => simp [List.replicate_succ, pe64_pad, ih]

/-- the `{id64}` value is injective on byte strings of one length -/
theorem id64Of_inj (x y : List Nat) (hx : ∀ b ∈ x, b < 256) (hy : ∀ b ∈ y, b < 256)
    (hl : x.length = y.length) (h : id64Of x = id64Of y) : x = y := by
  unfold id64Of base64url at h
  simp only [List.flatMap_append, chunk6_pe, flatMap_pad] at h
  have hbl : (x.flatMap byteBits).length = (y.flatMap byteBits).length := by
    rw [flatMap_byteBits_length, flatMap_byteBits_length, hl]
  rw [← hbl] at h
  have hlen : ((chunkBits 6 ((x.flatMap byteBits).length + 1) (x.flatMap byteBits)).map base64urlChar).length
      = ((chunkBits 6 ((x.flatMap byteBits).length + 1) (y.flatMap byteBits)).map base64urlChar).length := by
    simp only [List.length_map]
    rw [chunk6_length _ _ (by omega), chunk6_length _ _ (by omega), hbl]
  have := (List.append_inj h hlen).1
  exact flatMap_byteBits_inj x y hx hy hl (chunk6_inj _ _ _ hbl this (by omega))


/-- a numeric id's bytes: big-endian without leading zeros — the value is kept, every byte is `< 256` -/
theorem idBytes_num_value (n : Nat) (hn : n < 4294967296) :
    beValue (idBytes (.num n)) = n ∧ ∀ b ∈ idBytes (.num n), b < 256 := by
  have e : beBytes 4 n = [n / 16777216 % 256, n / 65536 % 256, n / 256 % 256, n % 256] := by
    simp [beBytes, List.range, List.range.loop]
  unfold idBytes
  simp only [e]
  by_cases ha : n / 16777216 % 256 = 0 <;> by_cases hb : n / 65536 % 256 = 0 <;>
    by_cases hc : n / 256 % 256 = 0 <;> by_cases hd : n % 256 = 0 <;>
    simp [List.takeWhile, ha, hb, hc, hd, beValue] <;> omega

end FontVerif.UriTemplate
