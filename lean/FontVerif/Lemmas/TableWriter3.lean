/-
C04 ⇄ C05 bridge, part 3: the graph `TableWriter::make_graph` builds satisfies every hypothesis C05's theorems make
about their input graph; the one-object case of `dump`.
-/
import FontVerif.Lemmas.TableWriter2
import FontVerif.Lemmas.GraphIso3
set_option linter.unusedVariables false
set_option linter.unusedSimpArgs false
namespace FontVerif.TableWriter
open FontVerif FontVerif.Graph

/-- table `fs` (written under adjustment `a`) is the stored object `id` -/
def RepTable (s : Store) (id : Nat) (fs : Fields) (a : Nat) : Prop :=
  ∃ d, (d, id) ∈ s ∧ d.bytes = flat fs 0 ∧ RepLinks s fs 0 a d.offsets

theorem inv_init (ids : Nat → Nat) (k : Nat) : Inv ids (Writer.init k) :=
  ⟨fun e he => (by cases he), List.nodup_nil, fun e he => (by cases he), fun e he => (by cases he), List.Pairwise.nil⟩

/-- **`TableWriter::add_table`** from any well-formed writer state -/
theorem addTable_spec (ids : Nat → Nat) (hinj : Function.Injective ids) (w : Writer) (hinv : Inv ids w) (t : Table)
    (hok : t.Ok) :
    Inv ids (addTable ids t w).2 ∧ Ext w (addTable ids t w).2 ∧
    (∃ j, j < (addTable ids t w).2.next ∧ (addTable ids t w).1 = ids j) ∧
    RepTable (addTable ids t w).2.tables (addTable ids t w).1 t.fields w.adj := by
  unfold addTable
  simp only []
  have hs := writeFields_spec ids hinj t.fields TData.empty w hinv (curOK_empty ids w) hok.2
    (by simpa using hok.1)
  generalize writeFields ids t.fields TData.empty w = r at hs ⊢
  obtain ⟨c1, c2, c3, c4, c5, c6, lc, c7, c8⟩ := hs
  simp only [empty_bytes, empty_offsets, List.nil_append, List.length_nil] at c5 c7 c8
  have hd : CurOK ids { r.1 with ty := t.ty } r.2 := ⟨c6.inside, c6.disj, c6.targets⟩
  have ha := add_spec ids hinj r.2 { r.1 with ty := t.ty } c1 hd
  generalize r.2.add ids { r.1 with ty := t.ty } = ra at ha ⊢
  obtain ⟨a1, a2, a3, hj, d', hm, hdb, hdo⟩ := ha
  simp only [] at hdb hdo
  refine ⟨a1, c2.trans a2, hj, d', hm, by rw [hdb, c5], ?_⟩
  rw [hdo, c7]
  exact RepLinks.mono _ _ (fun e he => a2.sub e he) _ _ _ _ c8

theorem unfold_table (s : Store) (g : Graph) (hg : ∀ d id, (d, id) ∈ s → g.obj id = toObj d) (id : Nat) (fs : Fields)
    (a fuel : Nat) (h : RepTable s id fs a) (hf : depth fs < fuel) : unfold g fuel id = fs.tree a := by
  obtain ⟨d, hm, hb, hc⟩ := h
  obtain ⟨n, rfl⟩ : ∃ n, fuel = n + 1 := ⟨fuel - 1, by omega⟩
  simp only [unfold, hg d id hm, toObj, Fields.tree]
  rw [unfold_rep s g hg fs 0 a d.offsets n hc (by omega)]
  congr 1
  rw [hb]
  apply maskedBytes_shape
  · simp [skel, hb]
  · simpa [skel] using repLinks_shape s fs 0 a d.offsets hc

theorem readBack_table (out : List Nat) (s : Store) (g : Graph) (hg : ∀ d id, (d, id) ∈ s → g.obj id = toObj d)
    (id : Nat) (fs : Fields) (a fuel hd : Nat) (h : RepTable s id fs a) (hf : depth fs < fuel) :
    readBack out g fuel hd id = readFields out hd fs a := by
  obtain ⟨d, hm, hb, hc⟩ := h
  obtain ⟨n, rfl⟩ : ∃ n, fuel = n + 1 := ⟨fuel - 1, by omega⟩
  simp only [readBack, hg d id hm, toObj, readFields]
  rw [readBack_rep out s g hg fs hd 0 a d.offsets n hc (by omega)]
  congr 1
  apply maskedBytes_shape
  · simp [skel, hb]
  · simpa [skel] using repLinks_shape s fs 0 a d.offsets hc

/-! ### the graph -/

section graph
variable (ids : Nat → Nat) (hinj : Function.Injective ids) (w : Writer) (hinv : Inv ids w) (root : Nat)

include hinv in
theorem graph_obj (d : TData) (id : Nat) (h : (d, id) ∈ w.tables) :
    (Graph.fromObjects w.tables.objects root).obj id = toObj d :=
  obj_fromObjects w.tables root hinv.nodup d id h

include hinv in
/-- every object is as `TableData` builds it: C05's `ObjWF`, proved -/
theorem graph_objWF : ∀ id o, (Graph.fromObjects w.tables.objects root).objects.find? id = some o → ObjWF o := by
  intro id o h
  have hm := Map.find?_mem _ _ _ h
  obtain ⟨d, hd, ho⟩ := objects_mem w.tables (id, o) hm
  simp only [] at ho
  rw [ho]
  exact hinv.wf (d, id) hd

include hinv in
/-- every offset of every object points to an object of the graph -/
theorem graph_closed : ∀ kv ∈ w.tables.objects, ∀ l ∈ kv.2.links, l.target ∈ w.tables.objects.keys := by
  intro kv hkv l hl
  obtain ⟨d, hd, ho⟩ := objects_mem w.tables kv hkv
  rw [ho] at hl
  obtain ⟨j, _, hj⟩ := hinv.drawn (d, kv.1) hd
  obtain ⟨j', _, _, e', he', hee⟩ := hinv.ranked (d, kv.1) hd j hj l hl
  have := objects_find w.tables hinv.nodup e'.1 l.target (by rw [← hee]; exact he')
  exact Map.find?_some_mem_keys _ _ _ this

open Classical in
/-- the draw that produced an id (0 for a number that is not an id) -/
noncomputable def drawOf (ids : Nat → Nat) (id : Nat) : Nat :=
  if h : ∃ j, ids j = id then Classical.choose h else 0

include hinj in
theorem drawOf_ids (j : Nat) : drawOf ids (ids j) = j := by
  unfold drawOf
  have h : ∃ j', ids j' = ids j := ⟨j, rfl⟩
  rw [dif_pos h]
  exact hinj (Classical.choose_spec h)

include hinj hinv in
/-- the graph is acyclic: ids are drawn after those of all the objects they point to -/
theorem graph_acyclic : ∃ rank : Nat → Nat, ∀ kv ∈ w.tables.objects, ∀ l ∈ kv.2.links, rank kv.1 < rank l.target := by
  refine ⟨fun id => w.next - drawOf ids id, ?_⟩
  intro kv hkv l hl
  obtain ⟨d, hd, ho⟩ := objects_mem w.tables kv hkv
  rw [ho] at hl
  obtain ⟨j, hjn, hj⟩ := hinv.drawn (d, kv.1) hd
  obtain ⟨j', hj', ht, _⟩ := hinv.ranked (d, kv.1) hd j hj l hl
  simp only [] at hj
  simp only [hj, ht, drawOf_ids ids hinj]
  omega

include hinv in
/-- ids the packer draws later are unused in the writer's graph (`FreshFor`) -/
theorem graph_freshFor (fresh : List Nat) (hnd : fresh.Nodup) (hfr : ∀ j, ids j ∉ fresh) (hroot : root ∉ fresh) :
    FreshFor (Graph.fromObjects w.tables.objects root) fresh := by
  apply freshFor_fromObjects _ _ _ hnd hroot
  intro kv hkv
  obtain ⟨d, hd, ho⟩ := objects_mem w.tables kv hkv
  obtain ⟨j, _, hj⟩ := hinv.drawn (d, kv.1) hd
  simp only [] at hj
  refine ⟨by rw [hj]; exact hfr j, ?_⟩
  intro l hl
  rw [ho] at hl
  obtain ⟨j', _, ht, _⟩ := hinv.ranked (d, kv.1) hd j hj l hl
  rw [ht]
  exact hfr j'

theorem two_le_length {α : Type} (l : List α) (a b : α) (ha : a ∈ l) (hb : b ∈ l) (hab : a ≠ b) : 2 ≤ l.length := by
  match l, ha, hb with
  | [], ha, _ => cases ha
  | [x], ha, hb =>
    simp only [List.mem_singleton] at ha hb
    exact absurd (ha.trans hb.symm) hab
  | _ :: _ :: _, _, _ => simp

include hinj hinv in
/-- an object with an offset is not alone in its graph -/
theorem graph_two_nodes (d : TData) (id : Nat) (hd : (d, id) ∈ w.tables) (l : Link) (hl : l ∈ d.offsets) :
    1 < (Graph.fromObjects w.tables.objects root).nodes.length := by
  obtain ⟨j, _, hj⟩ := hinv.drawn (d, id) hd
  simp only [] at hj
  obtain ⟨j', hj', ht, e', he', hee⟩ := hinv.ranked (d, id) hd j hj l hl
  have h1 := Map.find?_mem _ _ _ (objects_find w.tables hinv.nodup d id hd)
  have h2 := Map.find?_mem _ _ _ (objects_find w.tables hinv.nodup e'.1 l.target (by rw [← hee]; exact he'))
  have hne : (id, toObj d) ≠ (l.target, toObj e'.1) := by
    intro h
    simp only [Prod.mk.injEq] at h
    rw [hj, ht] at h
    have := hinj h.1
    omega
  have := two_le_length _ _ _ h1 h2 hne
  simp only [Graph.fromObjects, List.length_map]
  omega

end graph

/-! ### tables without offsets: one object -/

/-- number of non-null offset slots of the table itself -/
def topLinks : Fields → Nat
  | .nil => 0
  | .bytes _ rest => topLinks rest
  | .null _ rest => topLinks rest
  | .link _ _ _ rest => 1 + topLinks rest
  | .adjust _ body rest => topLinks body + topLinks rest
  | .pad2 rest => topLinks rest

theorem repLinks_length (s : Store) (fs : Fields) : ∀ len a ls, RepLinks s fs len a ls → ls.length = topLinks fs := by
  induction fs with
  | nil => intro len a ls h; simp only [RepLinks] at h; subst h; rfl
  | bytes bs rest ih => intro len a ls h; exact ih _ _ _ h
  | null w rest ih => intro len a ls h; exact ih _ _ _ h
  | pad2 rest ih => intro len a ls h; exact ih _ _ _ h
  | adjust n body rest ihb ihr =>
    intro len a ls h
    obtain ⟨l1, l2, h1, hb, hr⟩ := h
    subst h1
    simp only [List.length_append, topLinks, ihb _ _ _ hb, ihr _ _ _ hr]
  | link w ty child rest ihc ihr =>
    intro len a ls h
    obtain ⟨l, ls', h1, _, _, _, _, hr⟩ := h
    subst h1
    simp only [List.length_cons, topLinks, ihr _ _ _ hr]
    omega

theorem writeFields_nolinks (ids : Nat → Nat) (fs : Fields) : ∀ (cur : TData) (w : Writer), topLinks fs = 0 →
    writeFields ids fs cur w =
      (⟨cur.ty, cur.bytes ++ flat fs cur.bytes.length, cur.offsets⟩, { w with adj := adjAfter fs w.adj }) := by
  induction fs with
  | nil => intro cur w _; simp [writeFields, flat, adjAfter]
  | bytes bs rest ih =>
    intro cur w h
    simp only [writeFields, ih _ _ h, TData.writeBytes, flat, adjAfter, List.length_append, List.append_assoc]
  | null wd rest ih =>
    intro cur w h
    simp only [writeFields, ih _ _ h, TData.writeBytes, flat, adjAfter, List.length_append, List.append_assoc,
      List.length_replicate]
  | pad2 rest ih =>
    intro cur w h
    simp only [writeFields, flat, adjAfter]
    by_cases hp : cur.bytes.length % 2 ≠ 0
    · simp only [if_pos hp, ih _ _ h, TData.writeBytes, List.length_append, List.append_assoc, List.length_cons,
        List.length_nil, Nat.zero_add]
    · simp only [if_neg hp, ih _ _ h, List.nil_append, Nat.add_zero]
  | adjust n body rest ihb ihr =>
    intro cur w h
    simp only [topLinks] at h
    simp only [writeFields, ihb _ _ (by omega : topLinks body = 0), ihr _ _ (by omega : topLinks rest = 0), flat,
      adjAfter, List.length_append, List.append_assoc]
  | link wd ty child rest ihc ihr =>
    intro cur w h
    simp only [topLinks] at h
    omega

theorem kids_nolinks (out : List Nat) (fs : Fields) : ∀ hd len a, topLinks fs = 0 →
    readKids out hd fs len a = [] ∧ treeKids fs a = [] := by
  induction fs with
  | nil => intro hd len a _; exact ⟨rfl, rfl⟩
  | bytes bs rest ih => intro hd len a h; exact ih _ _ _ h
  | null wd rest ih => intro hd len a h; exact ih _ _ _ h
  | pad2 rest ih => intro hd len a h; exact ih _ _ _ h
  | adjust n body rest ihb ihr =>
    intro hd len a h
    simp only [topLinks] at h
    have hb := ihb hd len n (by omega)
    have hr := ihr hd (len + (flat body len).length) 0 (by omega)
    simp only [readKids, treeKids, hb.1, hb.2, hr.1, hr.2, List.append_nil, and_self]
  | link wd ty child rest ihc ihr =>
    intro hd len a h
    simp only [topLinks] at h
    omega

/-- **`dump_table` of a table without non-null offsets returns its bytes** (one object: `sort_kahn`'s trivial branch,
no overflow, `serialize` copies the bytes) -/
theorem dump_leaf (ids : Nat → Nat) (t : Table) (fresh : List Nat) (h : topLinks t.fields = 0) :
    dumpTable ids t fresh = some (some (flat t.fields 0)) := by
  unfold dumpTable makeGraph makeGraphFrom addTable
  simp only [writeFields_nolinks ids t.fields TData.empty (Writer.init 0) h]
  simp [Writer.add, Writer.init, Store.find?, Store.objects, Map.insert, toObj, Graph.fromObjects, dump, packObjects,
    basicSort, sortKahn, hasOverflows, hasOverflowsObjs, hasOverflowsLinks, serialize, layout, patchAll, patchLinks,
    Map.find?, Map.keys, Node.new]

/-! ### uniqueness in the store -/

theorem entry_unique (s : Store) (hnd : (s.map (·.2)).Nodup) (d d' : TData) (id : Nat)
    (h : (d, id) ∈ s) (h' : (d', id) ∈ s) : d = d' := by
  induction s with
  | nil => cases h
  | cons e rest ih =>
    simp only [List.map_cons, List.nodup_cons] at hnd
    rcases List.mem_cons.mp h with h | h <;> rcases List.mem_cons.mp h' with h' | h'
    · rw [← h] at h'; exact ((Prod.mk.injEq _ _ _ _ ▸ h').1).symm
    · exact absurd (List.mem_map.mpr ⟨(d', id), h', by rw [← h]⟩) hnd.1
    · exact absurd (List.mem_map.mpr ⟨(d, id), h, by rw [← h']⟩) hnd.1
    · exact ih hnd.2 h h'

theorem content_unique (s : Store) (hp : s.Pairwise (fun a b => a.1.same b.1 = false)) (e e' : TData × Nat)
    (h : e ∈ s) (h' : e' ∈ s) (hs : e.1.same e'.1 = true) : e = e' := by
  induction s with
  | nil => cases h
  | cons x rest ih =>
    rw [List.pairwise_cons] at hp
    rcases List.mem_cons.mp h with h | h <;> rcases List.mem_cons.mp h' with h' | h'
    · rw [h, h']
    · have := hp.1 e' h'; rw [← h, hs] at this; cases this
    · have := hp.1 e h; rw [← h', same_symm, hs] at this; cases this
    · exact ih hp.2 h h'

end FontVerif.TableWriter
