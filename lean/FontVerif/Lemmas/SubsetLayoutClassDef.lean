/-
Helper lemmas for C17 (layout part): the ClassDef writer (`ClassDef::serialize`, both formats) read
back through C16's `ClassDef.get`; the `(new glyph, class)` vector the ClassDef subsetters build.
-/
import FontVerif.Lemmas.SubsetLayout
import FontVerif.Lemmas.LayoutClassDef
set_option linter.unusedVariables false
namespace FontVerif.SubsetLayout
open FontVerif FontVerif.Layout

/-! ## `itemGet` on lists sorted by key -/

theorem itemGet_some_iff {m : List (Nat × Nat)} (hs : SortedItems m) (g c : Nat) :
    itemGet g m = some c ↔ (g, c) ∈ m := by
  induction m with
  | nil => simp [itemGet]
  | cons kv rest ih =>
    obtain ⟨k, v⟩ := kv
    unfold SortedItems at hs
    rw [List.pairwise_cons] at hs
    simp only [itemGet]
    by_cases e : k = g
    · subst e
      simp only [↓reduceIte, Option.some.injEq, List.mem_cons, Prod.mk.injEq, true_and]
      constructor
      · intro h; left; exact h.symm
      · rintro (h | h)
        · exact h.symm
        · have := hs.1 _ h; simp at this
    · simp only [e, ↓reduceIte, List.mem_cons, Prod.mk.injEq]
      rw [ih hs.2]
      constructor
      · intro h; right; exact h
      · rintro (⟨h, _⟩ | h)
        · exact absurd h.symm e
        · exact h

/-- dropping the class-0 pairs does not change the class a sorted vector assigns -/
theorem itemGet_filter_nz_sorted {m : List (Nat × Nat)} (hs : SortedItems m) (g : Nat) :
    (itemGet g (m.filter (fun x => x.2 ≠ 0))).getD 0 = (itemGet g m).getD 0 := by
  have hsf : SortedItems (m.filter (fun x => x.2 ≠ 0)) := hs.sublist List.filter_sublist
  cases h : itemGet g m with
  | none =>
    have : itemGet g (m.filter (fun x => x.2 ≠ 0)) = none := by
      apply itemGet_none
      intro q hq e
      have hm := (List.mem_filter.mp hq).1
      have := (itemGet_some_iff hs g q.2).mpr (by rw [← e]; exact hm)
      rw [h] at this; cases this
    rw [this]
  | some c =>
    have hm := (itemGet_some_iff hs g c).mp h
    by_cases hc : c = 0
    · subst hc
      have : itemGet g (m.filter (fun x => x.2 ≠ 0)) = none := by
        apply itemGet_none
        intro q hq e
        have hm' := (List.mem_filter.mp hq)
        have h2 := (itemGet_some_iff hs g q.2).mpr (by rw [← e]; exact hm'.1)
        rw [h] at h2; injection h2 with h2
        simp [← h2] at hm'
      rw [this]; rfl
    · have : (g, c) ∈ m.filter (fun x => x.2 ≠ 0) := List.mem_filter.mpr ⟨hm, by simp [hc]⟩
      rw [(itemGet_some_iff hsf g c).mpr this]

/-! ## format 1 writer -/

theorem foldl_set_get (g0 : Nat) : ∀ (items : List (Nat × Nat)) (arr : List Nat),
    (∀ x ∈ items, g0 ≤ x.1) → items.Pairwise (fun a b => a.1 ≠ b.1) → ∀ k, k < arr.length →
    ((items.foldl (fun arr x => arr.set (x.1 - g0) x.2) arr)[k]?).getD 0 =
      (itemGet (g0 + k) items).getD ((arr[k]?).getD 0) := by
  intro items
  induction items with
  | nil => intro arr _ _ k _; rfl
  | cons kv rest ih =>
    obtain ⟨g, c⟩ := kv
    intro arr hlo hd k hk
    rw [List.pairwise_cons] at hd
    simp only [List.foldl_cons]
    rw [ih (arr.set (g - g0) c) (fun x hx => hlo x (List.mem_cons_of_mem _ hx)) hd.2 k (by simpa using hk)]
    have hg := hlo (g, c) (List.mem_cons_self ..)
    simp only at hg
    simp only [itemGet]
    by_cases e : g = g0 + k
    · subst e
      have hn : itemGet (g0 + k) rest = none := itemGet_none (fun q hq => (hd.1 q hq).symm)
      have : g0 + k - g0 = k := by omega
      simp [hn, this, List.getElem?_set, hk]
    · have : ¬ (g - g0 = k) := by omega
      simp [e, List.getElem?_set, this]

theorem foldl_set_length (g0 : Nat) : ∀ (items : List (Nat × Nat)) (arr : List Nat),
    (items.foldl (fun arr x => arr.set (x.1 - g0) x.2) arr).length = arr.length := by
  intro items
  induction items with
  | nil => intro arr; rfl
  | cons kv rest ih => intro arr; simp [List.foldl_cons, ih]

theorem sorted_foldl_max {nz : List (Nat × Nat)} (hs : SortedItems nz) (g0 : Nat)
    (hlo : ∀ x ∈ nz, g0 ≤ x.1) : ∀ x ∈ nz, x.1 ≤ nz.foldl (fun m x => max m x.1) g0 := by
  have gen : ∀ (l : List (Nat × Nat)) (m0 : Nat), m0 ≤ l.foldl (fun m x => max m x.1) m0 ∧
      ∀ x ∈ l, x.1 ≤ l.foldl (fun m x => max m x.1) m0 := by
    intro l
    induction l with
    | nil => intro m0; simp
    | cons a t ih =>
      intro m0
      simp only [List.foldl_cons]
      have := ih (max m0 a.1)
      refine ⟨by omega, ?_⟩
      intro x hx
      rcases List.mem_cons.mp hx with e | hx
      · subst e; omega
      · exact this.2 x hx
  exact (gen nz g0).2

theorem cdWrite1_get {nz : List (Nat × Nat)} (hs : SortedItems nz) (hne : nz ≠ [])
    (hk : ∀ x ∈ nz, x.1 < 65535) :
    ∃ cd, cdWrite1 nz = .ok cd ∧ ∀ n, cd.get n = (itemGet n nz).getD 0 := by
  cases nz with
  | nil => exact absurd rfl hne
  | cons kv rest =>
    obtain ⟨g0, c0⟩ := kv
    have hs' := hs
    unfold SortedItems at hs
    rw [List.pairwise_cons] at hs
    have hlo : ∀ x ∈ (g0, c0) :: rest, g0 ≤ x.1 := by
      intro x hx
      rcases List.mem_cons.mp hx with e | hx
      · subst e; exact Nat.le_refl _
      · exact Nat.le_of_lt (hs.1 x hx)
    have hmax := sorted_foldl_max hs' g0 hlo
    have hmaxlt : ((g0, c0) :: rest).foldl (fun m x => max m x.1) g0 < 65535 := by
      have gen : ∀ (l : List (Nat × Nat)) (m0 : Nat), m0 < 65535 → (∀ x ∈ l, x.1 < 65535) →
          l.foldl (fun m x => max m x.1) m0 < 65535 := by
        intro l
        induction l with
        | nil => intro m0 h _; exact h
        | cons a t ih =>
          intro m0 h hl
          simp only [List.foldl_cons]
          apply ih
          · have := hl a (List.mem_cons_self ..); omega
          · exact fun x hx => hl x (List.mem_cons_of_mem _ hx)
      exact gen _ g0 (hk (g0, c0) (List.mem_cons_self ..)) hk
    generalize hgm : ((g0, c0) :: rest).foldl (fun m x => max m x.1) g0 = gmax at hmax hmaxlt
    have hge : g0 ≤ gmax := by
      have := hmax (g0, c0) (List.mem_cons_self ..); exact this
    simp only [cdWrite1, hgm]
    have h1 : ¬ gmax - g0 + 1 ≥ 65536 := by omega
    have h2 : ((g0, c0) :: rest).any (fun x => decide (x.1 < g0)) = false := by
      rw [List.any_eq_false]
      intro x hx
      have := hlo x hx
      simp; omega
    simp only [h1, ↓reduceIte, h2, Bool.false_eq_true]
    refine ⟨_, rfl, ?_⟩
    intro n
    have hd : ((g0, c0) :: rest).Pairwise (fun a b => a.1 ≠ b.1) :=
      hs'.imp (fun h => Nat.ne_of_lt h)
    simp only [ClassDef.get]
    by_cases hn : n < g0
    · simp only [hn, ↓reduceIte]
      rw [itemGet_none (fun q hq => by have := hlo q hq; omega)]
      rfl
    · simp only [hn, ↓reduceIte]
      by_cases hk2 : n - g0 < gmax - g0 + 1
      · have := foldl_set_get g0 ((g0, c0) :: rest) (List.replicate (gmax - g0 + 1) 0) hlo hd (n - g0)
          (by simpa using hk2)
        rw [this]
        have e : g0 + (n - g0) = n := by omega
        rw [e]
        simp [hk2]
      · have hl := foldl_set_length g0 ((g0, c0) :: rest) (List.replicate (gmax - g0 + 1) 0)
        rw [List.getElem?_eq_none (by rw [hl]; simp; omega)]
        rw [itemGet_none (fun q hq => by have := hmax q hq; omega)]

/-! ## format 2 writer -/

theorem cdWrite2_get {nz : List (Nat × Nat)} (hs : SortedItems nz) (hk : ∀ x ∈ nz, x.1 < 65535) :
    ∃ cd, cdWrite2 nz = .ok cd ∧ ∀ n, cd.get n = (itemGet n nz).getD 0 := by
  have hlen : nz.length < 65536 := by
    have h1 : (nz.map Prod.fst).Pairwise (· < ·) := by rw [List.pairwise_map]; exact hs
    have := sorted_length_le h1 65535 (by
      intro x hx
      obtain ⟨q, hq, e⟩ := List.mem_map.mp hx
      rw [← e]; exact hk q hq)
    simp at this; omega
  unfold cdWrite2
  have h1 : ¬ nz.length ≥ 65536 := by omega
  have h2 : nz.dropLast.any (fun x => decide (x.1 = 65535)) = false := by
    rw [List.any_eq_false]
    intro x hx
    have := hk x (List.dropLast_subset _ hx)
    simp; omega
  simp only [h1, ↓reduceIte, h2, Bool.false_eq_true]
  exact ⟨_, rfl, fun n => classDefFmt2_get hs n⟩

/-- **the ClassDef writer read back**: for a vector sorted by new glyph id (ids below 65535) the
table `ClassDef::serialize` writes — whichever format its counting rule picks — answers through
read-fonts' `ClassDef::get` the class the vector gives the glyph, 0 for every other glyph -/
theorem serializeClassDef_get {ps : List (Nat × Nat)} (hs : SortedItems ps)
    (hk : ∀ x ∈ ps, x.1 < 65535) :
    ∃ cd, serializeClassDef ps = .ok cd ∧ ∀ n, cd.get n = (itemGet n ps).getD 0 := by
  have hsf : SortedItems (ps.filter (fun x => x.2 ≠ 0)) := hs.sublist List.filter_sublist
  have hkf : ∀ x ∈ ps.filter (fun x => x.2 ≠ 0), x.1 < 65535 :=
    fun x hx => hk x (List.mem_filter.mp hx).1
  unfold serializeClassDef
  simp only []
  generalize hnz : ps.filter (fun x => x.2 ≠ 0) = nz at hsf hkf
  have hfin : ∀ cd : ClassDef, (∀ n, cd.get n = (itemGet n nz).getD 0) → ∀ n, cd.get n = (itemGet n ps).getD 0 := by
    intro cd h n
    rw [h n, ← hnz]
    exact itemGet_filter_nz_sorted hs n
  cases nz with
  | nil =>
    obtain ⟨cd, h1, h2⟩ := cdWrite2_get hsf hkf
    exact ⟨cd, h1, hfin cd h2⟩
  | cons kv rest =>
    obtain ⟨g0, c0⟩ := kv
    simp only []
    split
    · obtain ⟨cd, h1, h2⟩ := cdWrite1_get hsf (by simp) hkf
      exact ⟨cd, h1, hfin cd h2⟩
    · obtain ⟨cd, h1, h2⟩ := cdWrite2_get hsf hkf
      exact ⟨cd, h1, hfin cd h2⟩

/-! ## the `(new glyph, class)` vector of the subsetters -/

/-- what the vector holds: exactly the kept glyphs that pass the glyph filter and have a non-zero
class, as (new id, class), ascending by new id -/
def PairsSpec (p : LPlan) (a : CdArgs) (cd : ClassDef) (ps : List (Nat × Nat)) : Prop :=
  SortedItems ps ∧
  ∀ n c, (n, c) ∈ ps ↔ ∃ g, p.get g = some n ∧ passFilter a g = true ∧ cd.get g = c ∧ c ≠ 0

theorem sorted_le_getLast {l : List Nat} (h : l.Pairwise (· < ·)) {last : Nat}
    (hl : l.getLast? = some last) : ∀ x ∈ l, x ≤ last := by
  obtain ⟨ys, hys⟩ := List.getLast?_eq_some_iff.mp hl
  subst hys
  have := List.pairwise_append.mp h
  intro x hx
  rcases List.mem_append.mp hx with hx | hx
  · exact Nat.le_of_lt (this.2.2 x hx last (List.mem_singleton.mpr rfl))
  · simp at hx; subst hx; exact Nat.le_refl _

/-- the per-glyph step shared by all three loops -/
def pairOf (p : LPlan) (a : CdArgs) (cls : Nat) (g : Nat) : Option (Nat × Nat) :=
  match p.get g with
  | none => none
  | some new => if !passFilter a g then none else if cls = 0 then none else some (new % 65536, cls)

theorem pairOf_some {p : LPlan} (hp : PlanOk p) {a : CdArgs} {cls g n c : Nat} :
    pairOf p a cls g = some (n, c) ↔ p.get g = some n ∧ passFilter a g = true ∧ cls = c ∧ c ≠ 0 := by
  unfold pairOf
  cases h : p.get g with
  | none => simp
  | some new =>
    have hlt := (hp.get_lt h).1
    have hm : new % 65536 = new := by omega
    by_cases hf : passFilter a g = true
    · by_cases hc : cls = 0
      · simp only [hf, hc, Bool.not_true, Bool.false_eq_true, ↓reduceIte]
        constructor
        · intro h'; cases h'
        · rintro ⟨_, _, e, e0⟩; omega
      · simp only [hf, hc, Bool.not_true, Bool.false_eq_true, ↓reduceIte, hm, Option.some.injEq,
          Prod.mk.injEq, true_and]
        constructor
        · rintro ⟨e1, e2⟩; exact ⟨e1, e2, by omega⟩
        · rintro ⟨e1, e2, _⟩; exact ⟨e1, e2⟩
    · simp [hf]

theorem sorted_filterMap_pairOf {p : LPlan} (hp : PlanOk p) (a : CdArgs) (cls : Nat → Nat)
    {l : List Nat} (hs : l.Pairwise (· < ·)) :
    SortedItems (l.filterMap fun g => pairOf p a (cls g) g) := by
  unfold SortedItems
  apply List.Pairwise.filterMap _ _ hs
  intro g g' hgg x hx y hy
  obtain ⟨n, c⟩ := x
  obtain ⟨n', c'⟩ := y
  have h1 := (pairOf_some hp).mp (by simpa using hx)
  have h2 := (pairOf_some hp).mp (by simpa using hy)
  exact hp.get_mono hgg h1.1 h2.1

theorem cd1Pairs_spec {p : LPlan} (hp : PlanOk p) (a : CdArgs) (start : Nat) (classes : List Nat)
    {ps : List (Nat × Nat)} (h : cd1Pairs p a start classes = some ps) :
    PairsSpec p a (.fmt1 start classes) ps := by
  unfold cd1Pairs at h
  cases hl : p.glyphset.getLast? with
  | none => simp [hl] at h
  | some last =>
    simp only [hl, Option.some.injEq] at h
    have hle := sorted_le_getLast hp.glyphset_sorted hl
    have hps : ps = (List.range' start (min (last + 1) (start + classes.length) - start)).filterMap
        fun g => pairOf p a (classes.getD (g - start) 0) g := by
      rw [← h]
      rfl
    subst hps
    refine ⟨sorted_filterMap_pairOf hp a _ List.pairwise_lt_range', ?_⟩
    intro n c
    simp only [List.mem_filterMap, List.mem_range']
    constructor
    · rintro ⟨g, ⟨i, hi, rfl⟩, hpo⟩
      have := (pairOf_some hp).mp hpo
      refine ⟨start + 1 * i, this.1, this.2.1, ?_, this.2.2.2⟩
      rw [← this.2.2.1]
      simp [ClassDef.get, List.getD]
      intro hlt; omega
    · rintro ⟨g, hg, hf, hc, hc0⟩
      have hmem := (hp.get_lt hg).2.2
      have hgl := hle g hmem
      simp only [ClassDef.get] at hc
      by_cases hgs : g < start
      · simp [hgs] at hc; omega
      · simp only [hgs, ↓reduceIte] at hc
        have hlen : g - start < classes.length := by
          apply Classical.byContradiction
          intro hn
          rw [List.getElem?_eq_none (by omega)] at hc
          simp at hc; omega
        refine ⟨g, ⟨g - start, by omega, by omega⟩, ?_⟩
        apply (pairOf_some hp).mpr
        refine ⟨hg, hf, ?_, hc0⟩
        rw [← hc]; simp [List.getD]

theorem insertPair_append {x : Nat × Nat} {acc : List (Nat × Nat)} (h : ∀ y ∈ acc, y.1 < x.1) :
    insertPair x acc = acc ++ [x] := by
  induction acc with
  | nil => rfl
  | cons y ys ih =>
    have hy := h y (List.mem_cons_self ..)
    have : ¬ x.1 < y.1 := by omega
    simp only [insertPair, this, ↓reduceIte, List.cons_append]
    rw [ih (fun z hz => h z (List.mem_cons_of_mem _ hz))]

/-- sorting an already ascending vector changes nothing -/
theorem sortPairs_sorted {ps : List (Nat × Nat)} (hs : SortedItems ps) : sortPairs ps = ps := by
  unfold sortPairs
  have gen : ∀ (l acc : List (Nat × Nat)), SortedItems (acc ++ l) →
      l.foldl (fun acc x => insertPair x acc) acc = acc ++ l := by
    intro l
    induction l with
    | nil => intro acc _; simp
    | cons x t ih =>
      intro acc h
      simp only [List.foldl_cons]
      unfold SortedItems at h
      have hx : ∀ y ∈ acc, y.1 < x.1 := by
        intro y hy
        exact (List.pairwise_append.mp h).2.2 y hy x (List.mem_cons_self ..)
      rw [insertPair_append hx, ih (acc ++ [x]) (by simpa [SortedItems] using h)]
      simp
  simpa using gen ps [] (by simpa using hs)

theorem takeWhile_all {l : List Nat} (h : ∀ x ∈ l, x ≤ 65535) :
    l.takeWhile (· ≤ 65535) = l := by
  induction l with
  | nil => rfl
  | cons a t ih =>
    have := h a (List.mem_cons_self ..)
    simp only [List.takeWhile_cons, this, decide_true, ↓reduceIte]
    rw [ih (fun x hx => h x (List.mem_cons_of_mem _ hx))]

theorem cd2Pairs_spec {p : LPlan} (hp : PlanOk p) (hn : p.numGlyphs ≤ 65536) (a : CdArgs)
    {rs : List ClassRangeRec} (hw : WFClassRanges rs)
    {ps : List (Nat × Nat)} (h : cdPairs p a (.fmt2 rs) = some ps) :
    PairsSpec p a (.fmt2 rs) ps := by
  simp only [cdPairs, Option.map_eq_some_iff] at h
  obtain ⟨raw, hraw, hsort⟩ := h
  unfold cd2PairsRaw at hraw
  cases hl : p.glyphset.getLast? with
  | none => simp [hl] at hraw
  | some last =>
    simp only [hl] at hraw
    have hle := sorted_le_getLast hp.glyphset_sorted hl
    have hspec : PairsSpec p a (.fmt2 rs) raw := by
      split at hraw
      · -- one pass over the plan's glyph set, class by binary search
        simp only [Option.some.injEq] at hraw
        have hk : ∀ x ∈ p.glyphset, x ≤ 65535 := by
          intro x hx
          obtain ⟨n, hn'⟩ := hp.mem_glyphset hx
          have := (hp.get_lt hn').2.1
          omega
        rw [takeWhile_all hk] at hraw
        have hr : raw = p.glyphset.filterMap fun g => pairOf p a ((ClassDef.fmt2 rs).get g) g := by
          rw [← hraw]
          rfl
        subst hr
        refine ⟨sorted_filterMap_pairOf hp a _ hp.glyphset_sorted, ?_⟩
        intro n c
        simp only [List.mem_filterMap]
        constructor
        · rintro ⟨g, _, hpo⟩
          have := (pairOf_some hp).mp hpo
          exact ⟨g, this.1, this.2.1, this.2.2.1, this.2.2.2⟩
        · rintro ⟨g, hg, hf, hc, hc0⟩
          exact ⟨g, (hp.get_lt hg).2.2, (pairOf_some hp).mpr ⟨hg, hf, hc, hc0⟩⟩
      · -- one pass over the records
        simp only [Option.some.injEq] at hraw
        have hr : raw = rs.flatMap fun r =>
            (List.range' r.start (min r.end_ last + 1 - r.start)).filterMap fun g => pairOf p a r.cls g := by
          rw [← hraw]
          congr 1
          funext r
          by_cases hc : r.cls = 0
          · simp only [hc, ↓reduceIte]
            symm
            rw [List.filterMap_eq_nil_iff]
            intro g _
            unfold pairOf
            cases p.get g <;> simp
          · simp only [hc, ↓reduceIte]
            congr 1
            funext g
            unfold pairOf
            cases p.get g with
            | none => rfl
            | some new => simp [hc]
        subst hr
        constructor
        · unfold SortedItems
          rw [List.pairwise_flatMap]
          refine ⟨fun r _ => sorted_filterMap_pairOf hp a (fun _ => r.cls) List.pairwise_lt_range', ?_⟩
          apply hw.2.imp_of_mem
          intro r r' hr hr' hrr x hx y hy
          obtain ⟨n, c⟩ := x
          obtain ⟨n', c'⟩ := y
          simp only [List.mem_filterMap, List.mem_range'] at hx hy
          obtain ⟨g, ⟨i, hi, rfl⟩, hpo⟩ := hx
          obtain ⟨g', ⟨i', hi', rfl⟩, hpo'⟩ := hy
          have h1 := (pairOf_some hp).mp hpo
          have h2 := (pairOf_some hp).mp hpo'
          have := hw.1 r hr
          exact hp.get_mono (by omega) h1.1 h2.1
        · intro n c
          simp only [List.mem_flatMap, List.mem_filterMap, List.mem_range']
          rw [show (ClassDef.fmt2 rs).get = classLookup rs from funext (cd_get_fmt2 hw)]
          constructor
          · rintro ⟨r, hr, g, ⟨i, hi, rfl⟩, hpo⟩
            have h1 := (pairOf_some hp).mp hpo
            have hse := hw.1 r hr
            refine ⟨r.start + 1 * i, h1.1, h1.2.1, ?_, h1.2.2.2⟩
            rw [classLookup_hit hw hr (by omega)]
            exact h1.2.2.1
          · rintro ⟨g, hg, hf, hc, hc0⟩
            have hgl := hle g (hp.get_lt hg).2.2
            -- the record that contains g
            have : ∃ r ∈ rs, r.start ≤ g ∧ g ≤ r.end_ := by
              apply Classical.byContradiction
              intro hno
              rw [classLookup_miss (fun r hr hin => hno ⟨r, hr, hin⟩)] at hc
              omega
            obtain ⟨r, hr, hin⟩ := this
            rw [classLookup_hit hw hr hin] at hc
            refine ⟨r, hr, g, ⟨g - r.start, by omega, by omega⟩, ?_⟩
            exact (pairOf_some hp).mpr ⟨hg, hf, hc, hc0⟩
    rw [← hsort, sortPairs_sorted hspec.1]
    exact hspec

theorem cdPairs_spec {p : LPlan} (hp : PlanOk p) (hn : p.numGlyphs ≤ 65536) (a : CdArgs)
    {cd : ClassDef} (hcd : ∀ rs, cd = .fmt2 rs → WFClassRanges rs)
    {ps : List (Nat × Nat)} (h : cdPairs p a cd = some ps) : PairsSpec p a cd ps := by
  cases cd with
  | fmt1 s cs => exact cd1Pairs_spec hp a s cs h
  | fmt2 rs => exact cd2Pairs_spec hp hn a (hcd rs rfl) h

theorem cdPairs_total {p : LPlan} (hne : p.glyphset ≠ []) (a : CdArgs) (cd : ClassDef) :
    ∃ ps, cdPairs p a cd = some ps := by
  have : ∃ last, p.glyphset.getLast? = some last := by
    cases h : p.glyphset.getLast? with
    | none => exact absurd (List.getLast?_eq_none_iff.mp h) hne
    | some l => exact ⟨l, rfl⟩
  obtain ⟨last, hl⟩ := this
  cases cd with
  | fmt1 s cs => simp [cdPairs, cd1Pairs, hl]
  | fmt2 rs =>
    simp only [cdPairs, cd2PairsRaw, hl]
    split <;> simp

/-- the class the vector assigns to a new id -/
theorem pairsSpec_itemGet {p : LPlan} (hp : PlanOk p) {a : CdArgs} {cd : ClassDef}
    {ps : List (Nat × Nat)} (hs : PairsSpec p a cd ps) :
    (∀ g n, p.get g = some n → (itemGet n ps).getD 0 = if passFilter a g then cd.get g else 0) ∧
    (∀ n, (∀ g, p.get g ≠ some n) → (itemGet n ps).getD 0 = 0) := by
  constructor
  · intro g n hg
    cases hi : itemGet n ps with
    | some c =>
      obtain ⟨g', hg', hf, hc, _⟩ := (hs.2 n c).mp ((itemGet_some_iff hs.1 n c).mp hi)
      have := hp.get_inj hg' hg
      subst this
      simp [hf, hc]
    | none =>
      by_cases hf : passFilter a g = true
      · simp only [hf, ↓reduceIte, Option.getD_none]
        apply Classical.byContradiction
        intro hne
        have := (itemGet_some_iff hs.1 n (cd.get g)).mpr ((hs.2 n (cd.get g)).mpr ⟨g, hg, hf, rfl, fun e => hne e.symm⟩)
        rw [hi] at this; cases this
      · simp [hf]
  · intro n hn
    cases hi : itemGet n ps with
    | none => rfl
    | some c =>
      obtain ⟨g, hg, _⟩ := (hs.2 n c).mp ((itemGet_some_iff hs.1 n c).mp hi)
      exact absurd hg (hn g)

/-! ## class remapping -/

theorem itemGet_map (f : Nat → Nat) (n : Nat) (ps : List (Nat × Nat)) :
    itemGet n (ps.map fun x => (x.1, f x.2)) = (itemGet n ps).map f := by
  induction ps with
  | nil => rfl
  | cons kv rest ih =>
    obtain ⟨k, v⟩ := kv
    simp only [List.map_cons, itemGet]
    by_cases e : k = n <;> simp [e, ih]

theorem retainedClasses_spec (ps : List (Nat × Nat)) :
    (retainedClasses ps).Pairwise (· < ·) ∧ ∀ c, c ∈ retainedClasses ps ↔ ∃ n, (n, c) ∈ ps := by
  unfold retainedClasses
  have gen : ∀ (l : List (Nat × Nat)) (acc : List Nat), acc.Pairwise (· < ·) →
      (l.foldl (fun s x => setInsert x.2 s) acc).Pairwise (· < ·) ∧
      ∀ c, c ∈ l.foldl (fun s x => setInsert x.2 s) acc ↔ c ∈ acc ∨ ∃ n, (n, c) ∈ l := by
    intro l
    induction l with
    | nil => intro acc h; simp [h]
    | cons kv rest ih =>
      intro acc h
      obtain ⟨k, v⟩ := kv
      simp only [List.foldl_cons]
      obtain ⟨h1, h2⟩ := ih (setInsert v acc) (insertUniq_pairwise h)
      refine ⟨h1, ?_⟩
      intro c
      rw [h2 c, mem_insertUniq]
      constructor
      · rintro ((e | hm) | ⟨n, hn⟩)
        · right; exact ⟨k, by simp [e]⟩
        · left; exact hm
        · right; exact ⟨n, List.mem_cons_of_mem _ hn⟩
      · rintro (hm | ⟨n, hn⟩)
        · left; right; exact hm
        · rcases List.mem_cons.mp hn with e | hn
          · left; left; injection e with _ e2
          · right; exact ⟨n, hn⟩
  have := gen ps [] (by simp)
  refine ⟨this.1, fun c => ?_⟩
  rw [this.2 c]; simp

theorem lookup_zipIdx (base : Nat) : ∀ (R : List Nat) (k : Nat), R.Pairwise (· ≠ ·) → ∀ (i c : Nat),
    R[i]? = some c →
    ((R.zipIdx k).map fun ci => (ci.1, base + ci.2)).lookup c = some (base + (k + i)) := by
  intro R
  induction R with
  | nil => intro k _ i c h; simp at h
  | cons x t ih =>
    intro k hd i c h
    rw [List.pairwise_cons] at hd
    simp only [List.zipIdx_cons, List.map_cons, List.lookup_cons]
    cases i with
    | zero =>
      simp at h; subst h; simp
    | succ j =>
      simp at h
      have hx : x ≠ c := hd.1 c (List.mem_of_getElem? h)
      have : (c == x) = false := by simp [Ne.symm hx]
      simp only [this]
      rw [ih (k + 1) hd.2 j c h]
      congr 1; omega

theorem lookup_zipIdx_none (base : Nat) : ∀ (R : List Nat) (k c : Nat), c ∉ R →
    ((R.zipIdx k).map fun ci => (ci.1, base + ci.2)).lookup c = none := by
  intro R
  induction R with
  | nil => intro k c _; rfl
  | cons x t ih =>
    intro k c hc
    simp only [List.zipIdx_cons, List.map_cons, List.lookup_cons]
    have : (c == x) = false := by
      simp; intro e; exact hc (by simp [e])
    simp only [this]
    exact ih (k + 1) c (fun h => hc (List.mem_cons_of_mem _ h))

theorem classMap_total (uz : Bool) {R : List Nat} (hlen : R.length ≤ 65534) :
    ∃ m, classMap uz R = some m := by
  unfold classMap
  have : ¬ ((if uz = true then 0 else 1) + R.length ≥ 65536) := by split <;> omega
  simp only [this, ↓reduceIte]
  exact ⟨_, rfl⟩

theorem classMap_lookup {uz : Bool} {R : List Nat} {m : List (Nat × Nat)} (hR : R.Pairwise (· < ·))
    (hnz : ∀ c ∈ R, c ≠ 0) (h : classMap uz R = some m) :
    (m.lookup 0).getD 0 = 0 ∧ (uz = false → m.lookup 0 = some 0) ∧
    ∀ i c, R[i]? = some c → m.lookup c = some ((if uz then 0 else 1) + i) := by
  have hd : R.Pairwise (· ≠ ·) := hR.imp (fun h => Nat.ne_of_lt h)
  have h0 : 0 ∉ R := fun hm => hnz 0 hm rfl
  unfold classMap at h
  cases uz with
  | true =>
    simp only [↓reduceIte, List.nil_append] at h ⊢
    split at h
    · cases h
    · injection h with h
      subst h
      refine ⟨?_, by simp, ?_⟩
      · rw [lookup_zipIdx_none 0 R 0 0 h0]; rfl
      · intro i c hic
        have := lookup_zipIdx 0 R 0 hd i c hic
        simpa using this
  | false =>
    simp only [Bool.false_eq_true, ↓reduceIte] at h ⊢
    split at h
    · cases h
    · injection h with h
      subst h
      simp only [List.cons_append, List.nil_append, List.lookup_cons]
      refine ⟨by simp, by simp, ?_⟩
      intro i c hic
      have hc : (c == 0) = false := by
        have := hnz c (List.mem_of_getElem? hic); simp [this]
      simp only [hc]
      have := lookup_zipIdx 1 R 0 hd i c hic
      simpa using this

end FontVerif.SubsetLayout
