/-
Helper lemmas for Props/C01.lean: the statements of one field never reach the artefact error
`stuck`; hand-written sizes of the concrete `Ext`.
-/
import FontVerif.Lemmas.Shape
import FontVerif.Model.ShapeExt
set_option linter.unusedVariables false
set_option linter.unusedSimpArgs false
namespace FontVerif.C01
open FontVerif.Shape

theorem evalLen_not_stuck (ext : Ext) (hext : ∀ r vs, ext.size r vs ≠ .error .stuck)
    (d : Data) (pos : Nat) (vars : Env) (l : Len) : evalLen ext d pos vars l ≠ .error .stuck := by
  have hsz : ∀ sz, evalSize ext vars sz ≠ .error .stuck := by
    intro sz; cases sz with
    | const n => simp [evalSize]
    | compute r args => simpa [evalSize] using hext r _
  cases l with
  | mul c sz =>
    simp only [evalLen]
    have := hsz sz
    split
    · rename_i e he; intro h; cases h; exact this he
    · split <;> simp
  | one sz => simpa [evalLen] using hsz sz
  | remFloor n => simp [evalLen]
  | rem => simp [evalLen]
  | varLen k c =>
    simp only [evalLen]
    split
    · split <;> simp
    · simp

/-- the statements of one field never reach an unbound local -/
theorem field_not_stuck (ext : Ext) (hext : ∀ r vs, ext.size r vs ≠ .error .stuck)
    (d : Data) (fp : FieldP) (st : St) : runSteps ext d (stepsOf fp) st ≠ .error .stuck := by
  have hl := evalLen_not_stuck ext hext d
  obtain ⟨fid, k⟩ := fp
  cases k with
  | scalar sz rd =>
    cases rd with
    | none => simp [stepsOf, runSteps, step]
    | some x =>
      simp only [stepsOf, runSteps, step]
      cases readAt d st.pos sz <;> simp
  | computed l =>
    simp only [stepsOf, runSteps, step]
    have := hl st.pos st.vars l
    cases h : evalLen ext d st.pos st.vars l with
    | error e => simp only []; intro h'; cases h'; exact this h
    | ok n => simp [lookup_cons_self]
  | condScalar c sz rd =>
    cases rd with
    | none =>
      simp only [stepsOf, runSteps, step]
      by_cases hc : evalCond st.vars c = true
      · simp only [hc, if_true]
        by_cases hp : st.pos ≤ d.len <;> simp [hp, hc]
      · simp [hc]
    | some x =>
      simp only [stepsOf, runSteps, step]
      by_cases hc : evalCond st.vars c = true
      · simp only [hc, if_true]
        by_cases hp : st.pos ≤ d.len
        · simp only [hp, if_true, hc]
          cases readAt d st.pos sz <;> simp
        · simp [hp]
      · simp [hc]
  | condComputed c l =>
    simp only [stepsOf, runSteps, step]
    have := hl st.pos st.vars l
    intro h
    cases h1 : evalLen ext d st.pos st.vars l with
    | error e =>
      rw [h1] at this
      by_cases hc : evalCond st.vars c = true <;> by_cases hp : st.pos ≤ d.len <;>
        simp [hc, hp, h1] at h <;> simp_all
    | ok n =>
      by_cases hc : evalCond st.vars c = true <;> by_cases hp : st.pos ≤ d.len <;>
        simp [hc, hp, h1, lookup_cons_self] at h

theorem runSteps_append_err {ext : Ext} {d : Data} :
    ∀ (a b : List Step) (st : St) (e : RErr), runSteps ext d (a ++ b) st = .error e →
      runSteps ext d a st = .error e ∨ ∃ st1, runSteps ext d a st = .ok st1 ∧ runSteps ext d b st1 = .error e := by
  intro a
  induction a with
  | nil => intro b st e h; exact Or.inr ⟨st, rfl, h⟩
  | cons s a ih =>
    intro b st e h
    simp only [List.cons_append, runSteps] at h ⊢
    split at h
    · cases h; exact Or.inl rfl
    · rename_i st1 h1
      exact ih b st1 e h

theorem sizeFn_hand (t : Tables) (f r : Nat) (args : List Nat) (name : String) (k : Nat)
    (hn : t.sizeNames[r]? = some name) (hs : handSize name args = some k) :
    sizeFn t (f + 1) r args = .ok k := by
  simp [sizeFn, hn, hs]

end FontVerif.C01
