/- helper lemmas for Props/C10.lean: packed deltas / packed point numbers round trips -/
import FontVerif.Model.PackedDeltas
set_option linter.unusedVariables false
namespace FontVerif.PackedDeltas
open FontVerif

def fits : RunType → Int → Prop
  | .zero, v => v = 0
  | .i8, v => inI8 v
  | .i16, v => inI16 v
  | .i32, v => inI32 v

theorem readVal_valBytes (ty : RunType) (v : Int) (rest : List Nat) (h : fits ty v) :
    readVal ty (valBytes ty v ++ rest) = some (v, rest) := by
  cases ty with
  | zero => simp [fits] at h; simp [valBytes, readVal, h]
  | i8 =>
    simp only [fits, inI8] at h
    simp only [valBytes, readVal, List.cons_append, List.nil_append, wrapI8]
    have : ((v % 256).toNat : Int) = v % 256 := Int.toNat_of_nonneg (by omega)
    rw [this]
    congr 2; split <;> omega
  | i16 =>
    simp only [fits, inI16] at h
    simp only [valBytes, readVal, List.cons_append, List.nil_append, wrapI16]
    have h1 : ((v % 65536).toNat : Int) = v % 65536 := Int.toNat_of_nonneg (by omega)
    have h2 : ((v % 65536).toNat / 256 * 256 + (v % 65536).toNat % 256) = (v % 65536).toNat := by omega
    rw [h2, h1]
    congr 2; split <;> omega
  | i32 =>
    simp only [fits, inI32] at h
    simp only [valBytes, readVal, List.cons_append, List.nil_append, wrapI32]
    have h1 : ((v % 4294967296).toNat : Int) = v % 4294967296 := Int.toNat_of_nonneg (by omega)
    have h2 : ((((v % 4294967296).toNat / 16777216 * 256 + (v % 4294967296).toNat / 65536 % 256) * 256
        + (v % 4294967296).toNat / 256 % 256) * 256 + (v % 4294967296).toNat % 256)
        = (v % 4294967296).toNat := by omega
    rw [h2, h1]
    congr 2; split <;> omega

def ValidRun (r : Run) : Prop := 1 ≤ r.2.length ∧ r.2.length ≤ 64 ∧ ∀ v ∈ r.2, fits r.1 v

theorem valBytes_length (ty : RunType) (v : Int) : (valBytes ty v).length = ty.size := by
  cases ty <;> simp [valBytes, RunType.size]

theorem body_length (ty : RunType) (vals : List Int) :
    (vals.flatMap (valBytes ty)).length = vals.length * ty.size := by
  induction vals with
  | nil => simp
  | cons v vs ih => simp [List.flatMap_cons, valBytes_length, ih, Nat.add_mul]; omega

/-- decoding inside a run -/
theorem decNext_vals (ty : RunType) (vals : List Int) (rest : List Nat) :
    ∀ (limit rem : Nat), vals.length ≤ limit → vals.length ≤ rem → (∀ v ∈ vals, fits ty v) →
    decNext limit rem ty (vals.flatMap (valBytes ty) ++ rest)
      = vals ++ decNext (limit - vals.length) (rem - vals.length) ty rest := by
  induction vals with
  | nil => intro limit rem _ _ _; simp
  | cons v vs ih =>
    intro limit rem hl hr hf
    simp only [List.length_cons] at hl hr
    obtain ⟨l, rfl⟩ : ∃ l, limit = l + 1 := ⟨limit - 1, by omega⟩
    have hrem : rem ≠ 0 := by omega
    have hv := readVal_valBytes ty v (vs.flatMap (valBytes ty) ++ rest) (hf v (by simp))
    simp only [List.flatMap_cons, List.append_assoc, decNext, hrem, if_false, hv, List.cons_append]
    rw [ih l (rem - 1) (by omega) (by omega) (fun x hx => hf x (by simp [hx]))]
    have e1 : l + 1 - (vs.length + 1) = l - vs.length := by omega
    have e2 : rem - (vs.length + 1) = rem - 1 - vs.length := by omega
    simp only [List.length_cons, e1, e2]

theorem decNext_control (l : Nat) (ty0 : RunType) (c : Nat) (bs : List Nat) :
    decNext (l + 1) 0 ty0 (c :: bs) = decNext (l + 1) (c % 64 + 1) (runTypeOf c) bs := by
  simp [decNext, readControl]

theorem decNext_rem0_ty (l : Nat) (ty ty' : RunType) (bs : List Nat) :
    decNext l 0 ty bs = decNext l 0 ty' bs := by
  cases l with
  | zero => simp [decNext]
  | succ l => cases bs <;> simp [decNext, readControl]

theorem flag_count (ty : RunType) (n : Nat) (h1 : 1 ≤ n) (h2 : n ≤ 64) :
    flagByte ty n % 64 + 1 = n := by
  cases ty <;> simp only [flagByte] <;> omega

theorem flag_type (ty : RunType) (n : Nat) (h1 : 1 ≤ n) (h2 : n ≤ 64) :
    runTypeOf (flagByte ty n) = ty := by
  cases ty
  · have a : (n - 1 + 128) / 128 % 2 = 1 := by omega
    have b : (n - 1 + 128) / 64 % 2 = 0 := by omega
    unfold runTypeOf flagByte; simp only []; rw [a, b]; rfl
  · have a : (n - 1) / 128 % 2 = 0 := by omega
    have b : (n - 1) / 64 % 2 = 0 := by omega
    unfold runTypeOf flagByte; simp only []; rw [a, b]; rfl
  · have a : (n - 1 + 64) / 128 % 2 = 0 := by omega
    have b : (n - 1 + 64) / 64 % 2 = 1 := by omega
    unfold runTypeOf flagByte; simp only []; rw [a, b]; rfl
  · have a : (n - 1 + 64 + 128) / 128 % 2 = 1 := by omega
    have b : (n - 1 + 64 + 128) / 64 % 2 = 1 := by omega
    unfold runTypeOf flagByte; simp only []; rw [a, b]; rfl

/-- decoding one whole valid run -/
theorem decNext_run (r : Run) (hr : ValidRun r) (limit : Nat) (ty0 : RunType) (rest : List Nat)
    (hl : r.2.length ≤ limit) :
    decNext limit 0 ty0 (serializeRun r ++ rest) = r.2 ++ decNext (limit - r.2.length) 0 ty0 rest := by
  obtain ⟨h1, h2, hf⟩ := hr
  obtain ⟨l, rfl⟩ : ∃ l, limit = l + 1 := ⟨limit - 1, by omega⟩
  simp only [serializeRun, List.cons_append]
  rw [decNext_control, flag_count _ _ h1 h2, flag_type _ _ h1 h2,
    decNext_vals r.1 r.2 rest (l + 1) r.2.length hl (Nat.le_refl _) hf, Nat.sub_self]
  rw [decNext_rem0_ty _ r.1 ty0]

def total (runs : List Run) : Nat := (runs.flatMap (·.2)).length

theorem decNext_runs (runs : List Run) :
    ∀ (limit : Nat) (ty0 : RunType) (rest : List Nat), (∀ r ∈ runs, ValidRun r) → total runs ≤ limit →
    decNext limit 0 ty0 (runs.flatMap serializeRun ++ rest)
      = runs.flatMap (·.2) ++ decNext (limit - total runs) 0 ty0 rest := by
  induction runs with
  | nil => intro limit ty0 rest _ _; simp [total]
  | cons r rs ih =>
    intro limit ty0 rest hv hl
    have hl' : r.2.length + total rs ≤ limit := by simpa [total] using hl
    simp only [List.flatMap_cons, List.append_assoc]
    rw [decNext_run r (hv r (by simp)) limit ty0 _ (by omega),
      ih (limit - r.2.length) ty0 rest (fun x hx => hv x (by simp [hx])) (by omega)]
    have : total (r :: rs) = r.2.length + total rs := by simp [total]
    rw [this, Nat.sub_sub]

theorem clz_props : ∀ (cap : Nat) (l : List Int),
    countLeadingZeros cap l ≤ cap ∧ countLeadingZeros cap l ≤ l.length ∧
    ∀ v ∈ l.take (countLeadingZeros cap l), v = 0 := by
  intro cap
  induction cap with
  | zero => intro l; simp [countLeadingZeros]
  | succ cap ih =>
    intro l
    cases l with
    | nil => simp [countLeadingZeros]
    | cons v vs =>
      simp only [countLeadingZeros]
      split
      · rename_i hv
        obtain ⟨a, b, c⟩ := ih vs
        refine ⟨by omega, by simp; omega, ?_⟩
        intro x hx
        simp only [List.take_succ_cons, List.mem_cons] at hx
        rcases hx with rfl | hx
        · exact hv
        · exact c x hx
      · simp

theorem prefType_fits (v : Int) (h : inI32 v) : fits (prefType v) v := by
  unfold prefType
  unfold inI32 at h
  split
  · simpa [fits]
  · split
    · simp only [fits, inI32]; omega
    · split
      · simp only [fits, inI16]; omega
      · simp only [fits, inI8]; omega

theorem noStop_fits (ty : RunType) (hty : ty ≠ .zero) (cur : Int) (nxt : Option RunType)
    (hc : inI32 cur) (h : stopHere ty (prefType cur) nxt = false) : fits ty cur := by
  have hp := prefType_fits cur hc
  unfold inI32 at hc
  cases ty with
  | zero => exact absurd rfl hty
  | i32 => simpa [fits, inI32] using hc
  | i8 =>
    cases hpt : prefType cur <;> rw [hpt] at h hp <;> simp [stopHere] at h
    · simp only [fits] at hp ⊢; subst hp; simp [inI8]
    · exact hp
  | i16 =>
    cases hpt : prefType cur <;> rw [hpt] at h hp <;> simp [stopHere] at h
    · simp only [fits, inI8, inI16] at hp ⊢; omega
    · exact hp

theorem scan_props (ty : RunType) (hty : ty ≠ .zero) : ∀ (cap : Nat) (l : List Int),
    (∀ d ∈ l, inI32 d) →
    runScan ty cap l ≤ cap ∧ runScan ty cap l ≤ l.length ∧
    ∀ x ∈ l.take (runScan ty cap l), fits ty x := by
  intro cap
  induction cap with
  | zero => intro l _; simp [runScan]
  | succ cap ih =>
    intro l hl
    cases l with
    | nil => simp [runScan]
    | cons v vs =>
      simp only [runScan]
      split
      · simp
      · rename_i hs
        obtain ⟨a, b, c⟩ := ih vs (fun d hd => hl d (by simp [hd]))
        refine ⟨by omega, by simp; omega, ?_⟩
        intro x hx
        simp only [List.take_succ_cons, List.mem_cons] at hx
        rcases hx with rfl | hx
        · exact noStop_fits ty hty x _ (hl x (by simp)) (by simpa using hs)
        · exact c x hx


theorem runsOf_props : ∀ (fuel : Nat) (ds : List Int), ds.length ≤ fuel → (∀ d ∈ ds, inI32 d) →
    (∀ r ∈ runsOf fuel ds, ValidRun r) ∧ (runsOf fuel ds).flatMap (·.2) = ds := by
  intro fuel
  induction fuel with
  | zero =>
    intro ds hl _
    have : ds = [] := List.length_eq_zero_iff.mp (by omega)
    subst this; simp [runsOf]
  | succ fuel ih =>
    intro ds hl hd
    cases ds with
    | nil => simp [runsOf]
    | cons v rest =>
      simp only [runsOf]
      split
      · rename_i hv
        obtain ⟨a, b, c⟩ := clz_props 64 (v :: rest)
        have hn : 1 ≤ countLeadingZeros 64 (v :: rest) := by
          simp [countLeadingZeros, hv]
        generalize countLeadingZeros 64 (v :: rest) = n at a b c hn
        obtain ⟨ihv, ihc⟩ := ih ((v :: rest).drop n) (by simp at hl ⊢; omega)
          (fun d hd' => hd d (List.mem_of_mem_drop hd'))
        refine ⟨?_, ?_⟩
        · intro r hr
          simp only [List.mem_cons] at hr
          rcases hr with rfl | hr
          · refine ⟨by simp [List.length_take]; omega, by simp [List.length_take]; omega, ?_⟩
            intro x hx; exact c x hx
          · exact ihv r hr
        · simp only [List.flatMap_cons, ihc, List.take_append_drop]
      · rename_i hv
        have hty : prefType v ≠ .zero := by
          unfold prefType; simp only [hv, if_false]; split
          · simp
          · split <;> simp
        obtain ⟨a, b, c⟩ := scan_props (prefType v) hty 63 rest (fun d hd' => hd d (by simp [hd']))
        simp only [nextRunLen]
        generalize runScan (prefType v) 63 rest = m at a b c
        obtain ⟨ihv, ihc⟩ := ih ((v :: rest).drop (m + 1)) (by simp at hl ⊢; omega)
          (fun d hd' => hd d (List.mem_of_mem_drop hd'))
        refine ⟨?_, ?_⟩
        · intro r hr
          simp only [List.mem_cons] at hr
          rcases hr with rfl | hr
          · refine ⟨by simp [List.length_take], by simp [List.length_take]; omega, ?_⟩
            intro x hx
            simp only [List.take_succ_cons, List.mem_cons] at hx
            rcases hx with rfl | hx
            · exact prefType_fits x (hd x (by simp))
            · exact c x hx
          · exact ihv r hr
        · simp only [List.flatMap_cons, ihc, List.take_append_drop]


theorem serializeRun_length (r : Run) : (serializeRun r).length = r.2.length * r.1.size + 1 := by
  simp only [serializeRun, List.length_cons, body_length]

theorem countAll_runs (runs : List Run) : ∀ fuel, (runs.flatMap serializeRun).length ≤ fuel →
    (∀ r ∈ runs, ValidRun r) → countAll fuel (runs.flatMap serializeRun) = total runs := by
  induction runs with
  | nil => intro fuel _ _; cases fuel <;> simp [countAll, total]
  | cons r rs ih =>
    intro fuel hl hv
    obtain ⟨h1, h2, hf⟩ := hv r (by simp)
    simp only [List.flatMap_cons, List.length_append, serializeRun_length] at hl
    obtain ⟨f, rfl⟩ : ∃ f, fuel = f + 1 := ⟨fuel - 1, by omega⟩
    simp only [List.flatMap_cons, serializeRun, List.cons_append, countAll,
      flag_count _ _ h1 h2, flag_type _ _ h1 h2]
    have hd : (List.flatMap (valBytes r.1) r.2 ++ List.flatMap serializeRun rs).drop (r.2.length * r.1.size)
        = List.flatMap serializeRun rs := by
      rw [← body_length r.1 r.2]; simp
    rw [hd, ih f (by omega) (fun x hx => hv x (by simp [hx]))]
    simp [total]

theorem decNext_nil (l rem : Nat) (ty : RunType) (h : rem = 0) : decNext l rem ty [] = [] := by
  subst h; cases l <;> simp [decNext, readControl]


theorem total_cons (r : Run) (rs : List Run) : total (r :: rs) = r.2.length + total rs := by
  simp [total]

theorem readControl_run (r : Run) (hr : ValidRun r) (rest : List Nat) :
    readControl (serializeRun r ++ rest)
      = some (r.2.length, r.1, r.2.flatMap (valBytes r.1) ++ rest) := by
  obtain ⟨h1, h2, _⟩ := hr
  simp [serializeRun, readControl, flag_count _ _ h1 h2, flag_type _ _ h1 h2]

theorem skipLoop_runs (n : Nat) (rs : List Run) : ∀ (r : Run) (fuel wanted limit : Nat) (rest : List Nat),
    ValidRun r → (∀ x ∈ rs, ValidRun x) → rs.length + 1 ≤ fuel → wanted = r.2.length + total rs →
    ∃ ty', skipLoop n fuel wanted
        { limit := limit, rem := r.2.length, ty := r.1,
          bs := r.2.flatMap (valBytes r.1) ++ (rs.flatMap serializeRun ++ rest) }
      = { limit := limit - n, rem := 0, ty := ty', bs := rest } := by
  induction rs with
  | nil =>
    intro r fuel wanted limit rest hr _ hf hw
    obtain ⟨f, rfl⟩ : ∃ f, fuel = f + 1 := ⟨fuel - 1, by omega⟩
    simp only [total, List.flatMap_nil, List.length_nil, Nat.add_zero] at hw
    subst hw
    refine ⟨r.1, ?_⟩
    simp only [skipLoop, Nat.lt_irrefl, gt_iff_lt, if_false, Nat.sub_self, List.flatMap_nil, List.nil_append]
    rw [← body_length r.1 r.2]; simp
  | cons r2 more ih =>
    intro r fuel wanted limit rest hr hv hf hw
    simp only [List.length_cons] at hf
    obtain ⟨f, rfl⟩ : ∃ f, fuel = f + 1 := ⟨fuel - 1, by omega⟩
    have hr2 := hv r2 (by simp)
    rw [total_cons] at hw
    have hgt : wanted > r.2.length := by have := hr2.1; omega
    have hd : (List.flatMap (valBytes r.1) r.2 ++ (List.flatMap serializeRun (r2 :: more) ++ rest)).drop
        (r.2.length * r.1.size) = serializeRun r2 ++ (List.flatMap serializeRun more ++ rest) := by
      rw [← body_length r.1 r.2]; simp
    simp only [skipLoop, hgt, if_true, hd, readControl_run r2 hr2]
    exact ih r2 f (wanted - r.2.length) limit rest hr2 (fun x hx => hv x (by simp [hx])) (by omega) (by omega)


theorem flatMap_ser_length (rs : List Run) : rs.length ≤ (rs.flatMap serializeRun).length := by
  induction rs with
  | nil => simp
  | cons r rs ih => simp only [List.flatMap_cons, List.length_append, List.length_cons, serializeRun_length]; omega

theorem skipLoop_first (n f wanted limit : Nat) (ty0 : RunType) (bs : List Nat) (hw : wanted > 0) :
    skipLoop n (f + 1) wanted { limit := limit, rem := 0, ty := ty0, bs := bs }
      = match readControl bs with
        | none => { limit := 0, rem := 0, ty := ty0, bs := bs.drop 1 }
        | some (rem', ty', bs') =>
          skipLoop n f wanted { limit := limit, rem := rem', ty := ty', bs := bs' } := by
  cases hrc : readControl bs with
  | none => rw [skipLoop]; simp [hw, hrc]
  | some x => obtain ⟨a, b, c⟩ := x; rw [skipLoop]; simp [hw, hrc]

/-- `y_deltas()` positions itself exactly behind the x runs -/
theorem yDeltas_runs (xr yr : List Run) (rest : List Nat) (hx : ∀ r ∈ xr, ValidRun r)
    (hy : ∀ r ∈ yr, ValidRun r) (hn : total xr = total yr) :
    yDeltas (xr.flatMap serializeRun ++ (yr.flatMap serializeRun ++ rest)) (2 * total xr)
      = yr.flatMap (·.2) := by
  have hhalf : 2 * total xr / 2 = total xr := by omega
  unfold yDeltas skipFast
  simp only [hhalf]
  cases xr with
  | nil =>
    have h0 : total yr = 0 := by simpa [total] using hn.symm
    have hyr : yr.flatMap (·.2) = [] := List.length_eq_zero_iff.mp h0
    simp [skipLoop, total, decNext, hyr]
  | cons r rs =>
    have hr := hx r (by simp)
    have hpos : total (r :: rs) > 0 := by rw [total_cons]; have := hr.1; omega
    simp only [List.flatMap_cons, List.append_assoc]
    rw [skipLoop_first _ _ _ _ _ _ hpos, readControl_run r hr]
    simp only []
    have hfuel : rs.length + 1 ≤ (serializeRun r ++ (List.flatMap serializeRun rs ++
        (List.flatMap serializeRun yr ++ rest))).length + 1 := by
      have := flatMap_ser_length rs
      simp only [List.length_append]; omega
    obtain ⟨ty', h⟩ := skipLoop_runs (total (r :: rs)) rs r _ (total (r :: rs)) (2 * total (r :: rs))
      (List.flatMap serializeRun yr ++ rest) hr (fun x hx' => hx x (by simp [hx'])) hfuel
      (total_cons r rs)
    rw [h]
    simp only []
    have e : 2 * total (r :: rs) - total (r :: rs) = total yr := by omega
    rw [e, decNext_runs yr (total yr) ty' rest hy (Nat.le_refl _), Nat.sub_self]
    simp [decNext]

/-! ## packed point numbers -/

/-- points of a run are ascending from `last`, below 65536, and byte runs have gaps ≤ 255 -/
def PtOk (words : Bool) : Nat → List Nat → Prop
  | _, [] => True
  | last, p :: ps => last ≤ p ∧ p ≤ 65535 ∧ (words = false → p - last ≤ 255) ∧ PtOk words p ps

theorem readPtVal_bytes (words : Bool) (last p : Nat) (rest : List Nat)
    (h1 : last ≤ p) (h2 : p ≤ 65535) (h3 : words = false → p - last ≤ 255) :
    readPtVal words ((if words then [(p - last) / 256 % 256, (p - last) % 256] else [(p - last) % 256]) ++ rest)
      = some (p - last, rest) := by
  cases words with
  | false =>
    have := h3 rfl
    simp only [Bool.false_eq_true, if_false, List.cons_append, List.nil_append, readPtVal]
    congr 2; omega
  | true =>
    simp only [if_true, List.cons_append, List.nil_append, readPtVal]
    congr 2; omega

theorem ptNext_vals (words : Bool) (pts : List Nat) (rest : List Nat) :
    ∀ (n rem last : Nat), pts.length ≤ n → pts.length ≤ rem → PtOk words last pts →
    ptNext n rem words last (ptDeltaBytes words last pts ++ rest)
      = pts ++ ptNext (n - pts.length) (rem - pts.length) words (pts.getLastD last) rest := by
  induction pts with
  | nil => intro n rem last _ _ _; simp [ptDeltaBytes]
  | cons p ps ih =>
    intro n rem last hn hr hok
    obtain ⟨h1, h2, h3, h4⟩ := hok
    simp only [List.length_cons] at hn hr
    obtain ⟨m, rfl⟩ : ∃ m, n = m + 1 := ⟨n - 1, by omega⟩
    have hrem : rem ≠ 0 := by omega
    have hv := readPtVal_bytes words last p (ptDeltaBytes words p ps ++ rest) h1 h2 h3
    have hsum : last + (p - last) = p := by omega
    have hle : ¬ (p > 65535) := by omega
    simp only [ptDeltaBytes, List.append_assoc, ptNext, hrem, if_false, hv, hsum, hle, List.cons_append]
    rw [ih m (rem - 1) p (by omega) (by omega) h4]
    have e1 : m + 1 - (ps.length + 1) = m - ps.length := by omega
    have e2 : rem - (ps.length + 1) = rem - 1 - ps.length := by omega
    simp only [List.length_cons, e1, e2, List.getLastD_cons]

theorem ptNext_control (m : Nat) (two0 : Bool) (last c : Nat) (bs : List Nat) :
    ptNext (m + 1) 0 two0 last (c :: bs)
      = ptNext (m + 1) (c % 128 + 1) (decide (c / 128 % 2 = 1)) last bs := by
  simp [ptNext, readPtControl]

theorem ptNext_rem0_two (n last : Nat) (t t' : Bool) (bs : List Nat) :
    ptNext n 0 t last bs = ptNext n 0 t' last bs := by
  cases n with
  | zero => simp [ptNext]
  | succ n => cases bs <;> simp [ptNext, readPtControl]

def ValidPtRun (r : PtRun) : Prop :=
  1 ≤ r.pts.length ∧ r.pts.length ≤ 128 ∧ PtOk r.words r.last r.pts

theorem ptFlag (words : Bool) (len : Nat) (h1 : 1 ≤ len) (h2 : len ≤ 128) :
    ((len - 1) + (if words then 128 else 0)) % 128 + 1 = len ∧
    decide (((len - 1) + (if words then 128 else 0)) / 128 % 2 = 1) = words := by
  cases words <;> simp <;> omega

theorem ptNext_run (r : PtRun) (hr : ValidPtRun r) (n : Nat) (two0 : Bool) (rest : List Nat)
    (hn : r.pts.length ≤ n) :
    ptNext n 0 two0 r.last (serializePtRun r ++ rest)
      = r.pts ++ ptNext (n - r.pts.length) 0 two0 (r.pts.getLastD r.last) rest := by
  obtain ⟨h1, h2, hok⟩ := hr
  obtain ⟨m, rfl⟩ : ∃ m, n = m + 1 := ⟨n - 1, by omega⟩
  obtain ⟨f1, f2⟩ := ptFlag r.words r.pts.length h1 h2
  simp only [serializePtRun, List.cons_append]
  rw [ptNext_control, f1, f2, ptNext_vals r.words r.pts rest (m + 1) r.pts.length r.last hn
    (Nat.le_refl _) hok, Nat.sub_self, ptNext_rem0_two _ _ r.words two0]

/-- consecutive runs chain: each run's `last` is the previous run's final point -/
def RunsOk : Nat → List PtRun → Prop
  | _, [] => True
  | last, r :: rs => r.last = last ∧ ValidPtRun r ∧ RunsOk (r.pts.getLastD last) rs

def ptTotal (rs : List PtRun) : Nat := (rs.flatMap (·.pts)).length

theorem ptNext_runs (rs : List PtRun) : ∀ (n last : Nat) (two0 : Bool) (rest : List Nat),
    RunsOk last rs → ptTotal rs ≤ n →
    ∃ last', ptNext n 0 two0 last (rs.flatMap serializePtRun ++ rest)
      = rs.flatMap (·.pts) ++ ptNext (n - ptTotal rs) 0 two0 last' rest := by
  induction rs with
  | nil => intro n last two0 rest _ _; exact ⟨last, by simp [ptTotal]⟩
  | cons r rs ih =>
    intro n last two0 rest hok hn
    obtain ⟨hl, hr, hrest⟩ := hok
    have hn' : r.pts.length + ptTotal rs ≤ n := by simpa [ptTotal] using hn
    obtain ⟨last', h⟩ := ih (n - r.pts.length) (r.pts.getLastD last) two0 rest hrest (by omega)
    refine ⟨last', ?_⟩
    subst hl
    simp only [List.flatMap_cons, List.append_assoc]
    rw [ptNext_run r hr n two0 _ (by omega), h]
    have : ptTotal (r :: rs) = r.pts.length + ptTotal rs := by simp [ptTotal]
    rw [this, Nat.sub_sub]


/-- ascending (not necessarily strictly) chain from `prev`, all below 65536 -/
def Asc : Nat → List Nat → Prop
  | _, [] => True
  | prev, p :: ps => prev ≤ p ∧ p ≤ 65535 ∧ Asc p ps

theorem ptRunLen_props (words : Bool) : ∀ (cap prev : Nat) (l : List Nat), Asc prev l →
    ∃ k, ptRunLen words cap prev l = some k ∧ k ≤ cap ∧ k ≤ l.length ∧
      PtOk words prev (l.take k) ∧ Asc ((l.take k).getLastD prev) (l.drop k) := by
  intro cap
  induction cap with
  | zero => intro prev l h; exact ⟨0, by simp [ptRunLen, PtOk, h]⟩
  | succ cap ih =>
    intro prev l h
    cases l with
    | nil => exact ⟨0, by simp [ptRunLen, PtOk, Asc]⟩
    | cons p ps =>
      obtain ⟨h1, h2, h3⟩ := h
      have hlt : ¬ p < prev := by omega
      by_cases ht : (if words = true then p - prev > 255 else p - prev ≤ 255)
      · obtain ⟨k, e, a, b, c, d⟩ := ih p ps h3
        refine ⟨k + 1, by simp only [ptRunLen, hlt, if_false, ht, if_true, e, Option.map_some],
          by omega, by simp only [List.length_cons]; omega, ?_, ?_⟩
        · simp only [List.take_succ_cons, PtOk]
          refine ⟨h1, h2, ?_, c⟩
          intro hw; subst hw; simpa using ht
        · rw [List.take_succ_cons, List.getLastD_cons, List.drop_succ_cons]; exact d
      · refine ⟨0, by simp only [ptRunLen, hlt, if_false, ht], by omega, by omega, ?_, ?_⟩
        · simp [PtOk]
        · simpa [Asc] using ⟨h1, h2, h3⟩

theorem ptRunLen_first (cap prev p : Nat) (ps : List Nat) (h : prev ≤ p) :
    ptRunLen (decide (p - prev > 255)) (cap + 1) prev (p :: ps)
      = (ptRunLen (decide (p - prev > 255)) cap p ps).map (· + 1) := by
  have hlt : ¬ p < prev := by omega
  by_cases hw : p - prev > 255
  · simp [ptRunLen, hlt, hw]
  · simp only [ptRunLen, hlt, if_false, hw, decide_false]
    have : p - prev ≤ 255 := by omega
    simp [this]

theorem ptRunsOf_props : ∀ (fuel prev : Nat) (pts : List Nat), pts.length ≤ fuel → Asc prev pts →
    ∃ rs, ptRunsOf fuel prev pts = some rs ∧ RunsOk prev rs ∧ rs.flatMap (·.pts) = pts := by
  intro fuel
  induction fuel with
  | zero =>
    intro prev pts hl _
    have : pts = [] := List.length_eq_zero_iff.mp (by omega)
    subst this; exact ⟨[], by simp [ptRunsOf, RunsOk]⟩
  | succ fuel ih =>
    intro prev pts hl ha
    cases pts with
    | nil => exact ⟨[], by simp [ptRunsOf, RunsOk]⟩
    | cons p ps =>
      obtain ⟨h1, h2, h3⟩ := ha
      have hlt : ¬ p < prev := by omega
      obtain ⟨k, e, a, b, c, d⟩ := ptRunLen_props (decide (p - prev > 255)) 127 p ps h3
      have hrl := ptRunLen_first 127 prev p ps h1
      rw [e] at hrl
      simp only [Option.map_some] at hrl
      simp only [List.length_cons] at hl
      obtain ⟨rs, e2, ok2, cat2⟩ := ih ((p :: List.take k ps).getLastD prev) (ps.drop k)
        (by simp; omega) (by rw [List.getLastD_cons]; exact d)
      refine ⟨{ last := prev, words := decide (p - prev > 255), pts := p :: ps.take k } :: rs, ?_, ?_, ?_⟩
      · simp only [ptRunsOf, hlt, if_false, hrl, List.take_succ_cons, List.drop_succ_cons, e2]
      · refine ⟨rfl, ⟨by simp, by simp; omega, ?_⟩, ok2⟩
        simp only [PtOk]
        refine ⟨h1, h2, ?_, c⟩
        intro hw
        have : ¬ (p - prev > 255) := by simpa using hw
        omega
      · simp only [List.flatMap_cons, cat2, List.cons_append, List.take_append_drop]


theorem count_header (n : Nat) (h1 : 1 ≤ n) (h2 : n ≤ 32767) (tail : List Nat) :
    countAndCountBytes (ptCountBytes n ++ tail) = (n, (ptCountBytes n).length) := by
  unfold ptCountBytes
  by_cases h : n ≤ 127
  · have h0 : n ≠ 0 := by omega
    simp [h, countAndCountBytes, h0]
  · simp only [h, if_false, List.cons_append, List.nil_append, countAndCountBytes, List.length_cons,
      List.length_nil]
    have a : ¬ ((n % 65536 % 32768 + 32768) / 256 = 0) := by omega
    have b : ¬ ((n % 65536 % 32768 + 32768) / 256 ≤ 127) := by omega
    simp only [a, b, if_false]
    congr 1; omega

theorem ptDeltaBytes_length (words : Bool) : ∀ (last : Nat) (pts : List Nat),
    (ptDeltaBytes words last pts).length = pts.length * (if words then 2 else 1) := by
  intro last pts
  induction pts generalizing last with
  | nil => simp [ptDeltaBytes]
  | cons p ps ih =>
    cases words <;> simp [ptDeltaBytes, ih] <;> omega

theorem serializePtRun_length (r : PtRun) :
    (serializePtRun r).length = r.pts.length * (if r.words then 2 else 1) + 1 := by
  simp [serializePtRun, ptDeltaBytes_length]

theorem totalLen_runs (rs : List PtRun) : ∀ (fuel nBytes nSeen nPoints last : Nat) (rest : List Nat),
    RunsOk last rs → nSeen + ptTotal rs = nPoints → rs.length + 1 ≤ fuel →
    totalLenLoop fuel nBytes nSeen nPoints (rs.flatMap serializePtRun ++ rest)
      = nBytes + (rs.flatMap serializePtRun).length := by
  induction rs with
  | nil =>
    intro fuel nBytes nSeen nPoints last rest _ hs hf
    obtain ⟨f, rfl⟩ : ∃ f, fuel = f + 1 := ⟨fuel - 1, by omega⟩
    have : ¬ nSeen < nPoints := by simp [ptTotal] at hs; omega
    simp [totalLenLoop, this]
  | cons r rs ih =>
    intro fuel nBytes nSeen nPoints last rest hok hs hf
    obtain ⟨hl, ⟨h1, h2, hpt⟩, hrest⟩ := hok
    simp only [List.length_cons] at hf
    obtain ⟨f, rfl⟩ : ∃ f, fuel = f + 1 := ⟨fuel - 1, by omega⟩
    have ht : ptTotal (r :: rs) = r.pts.length + ptTotal rs := by simp [ptTotal]
    rw [ht] at hs
    have hlt : nSeen < nPoints := by omega
    obtain ⟨f1, f2⟩ := ptFlag r.words r.pts.length h1 h2
    have hd : (ptDeltaBytes r.words r.last r.pts ++ (List.flatMap serializePtRun rs ++ rest)).drop
        ((1 + if r.words = true then 1 else 0) * r.pts.length)
        = List.flatMap serializePtRun rs ++ rest := by
      have : (1 + if r.words = true then 1 else 0) * r.pts.length
          = (ptDeltaBytes r.words r.last r.pts).length := by
        rw [ptDeltaBytes_length]; cases r.words <;> simp <;> omega
      rw [this]; simp
    simp only [List.flatMap_cons, List.append_assoc, serializePtRun, List.cons_append, totalLenLoop,
      hlt, if_true, readPtControl, f1, f2, hd]
    rw [ih f _ (nSeen + r.pts.length) nPoints _ rest hrest (by omega) (by omega)]
    simp only [List.length_append, List.length_cons, ptDeltaBytes_length]
    cases r.words <;> simp <;> omega

theorem asc_of_sorted : ∀ (l : List Nat) (prev : Nat), (∀ p ∈ l, prev ≤ p ∧ p ≤ 65535) →
    l.Pairwise (· ≤ ·) → Asc prev l := by
  intro l
  induction l with
  | nil => intro _ _ _; trivial
  | cons p ps ih =>
    intro prev hb hp
    rw [List.pairwise_cons] at hp
    refine ⟨(hb p (by simp)).1, (hb p (by simp)).2, ih p ?_ hp.2⟩
    intro q hq
    exact ⟨hp.1 q hq, (hb q (by simp [hq])).2⟩


theorem flatMap_ptser_length (rs : List PtRun) : rs.length ≤ (rs.flatMap serializePtRun).length := by
  induction rs with
  | nil => simp
  | cons r rs ih =>
    simp only [List.flatMap_cons, List.length_append, List.length_cons, serializePtRun_length]; omega

theorem runs_le_total (rs : List PtRun) : ∀ last, RunsOk last rs → rs.length ≤ ptTotal rs := by
  induction rs with
  | nil => intro _ _; simp
  | cons r rs ih =>
    intro last hok
    obtain ⟨_, ⟨h1, _, _⟩, hrest⟩ := hok
    have := ih _ hrest
    have ht : ptTotal (r :: rs) = r.pts.length + ptTotal rs := by simp [ptTotal]
    rw [ht]; simp only [List.length_cons]; omega

end FontVerif.PackedDeltas
