/-
Helper lemmas for C18 (Model/TableKeyed.lean, GlyphKeyed.lean, PatchRound.lean).
-/
import FontVerif.Model.PatchRound
set_option linter.unusedVariables false
namespace FontVerif.Ift

/-! ### FontBuilder map -/

theorem lookup_insertTable_self (t : Tag) (d : Bytes) (f : Font) :
    (insertTable t d f).lookup t = some d := by
  induction f with
  | nil => simp [insertTable, List.lookup]
  | cons hd tl ih =>
    obtain ⟨t', d'⟩ := hd
    unfold insertTable
    by_cases h1 : t < t'
    · simp [h1, List.lookup]
    · by_cases h2 : t = t'
      · simp [h1, h2, List.lookup]
      · have : (t == t') = false := by simp [h2]
        simp [h1, h2, List.lookup, this, ih]

theorem lookup_insertTable_ne (t u : Tag) (d : Bytes) (f : Font) (h : u ≠ t) :
    (insertTable t d f).lookup u = f.lookup u := by
  induction f with
  | nil =>
    have : (u == t) = false := by simp [h]
    simp [insertTable, List.lookup, this]
  | cons hd tl ih =>
    obtain ⟨t', d'⟩ := hd
    have hut : (u == t) = false := by simp [h]
    unfold insertTable
    by_cases h1 : t < t'
    · simp [h1, List.lookup, hut]
    · by_cases h2 : t = t'
      · subst h2; simp [List.lookup, hut]
      · simp only [h1, h2, if_false]
        by_cases h3 : u = t'
        · subst h3; simp [List.lookup]
        · have : (u == t') = false := by simp [h3]
          simp [List.lookup, this, ih]

/-- tags of a font are pairwise distinct (what the sfnt table directory guarantees) -/
def UniqueTags (f : Font) : Prop := (f.map (·.1)).Nodup

theorem lookup_none_of_not_mem (f : Font) (t : Tag) (h : t ∉ f.map (·.1)) : f.lookup t = none := by
  induction f with
  | nil => rfl
  | cons hd tl ih =>
    obtain ⟨t', d'⟩ := hd
    simp only [List.map_cons, List.mem_cons, not_or] at h
    have : (t == t') = false := by simp [h.1]
    simp [List.lookup, this, ih h.2]

/-- folding `copy_unprocessed_tables` over records none of which carries tag `t` leaves `t` alone -/
theorem copy_fold_not_mem (font : Font) (processed : List Tag) (b : Font) (t : Tag)
    (h : t ∉ font.map (·.1)) :
    (font.foldl (fun b td => if processed.contains td.1 then b else insertTable td.1 td.2 b) b).lookup t
      = b.lookup t := by
  induction font generalizing b with
  | nil => rfl
  | cons hd tl ih =>
    obtain ⟨t', d'⟩ := hd
    simp only [List.map_cons, List.mem_cons, not_or] at h
    simp only [List.foldl_cons]
    rw [ih _ h.2]
    split
    · rfl
    · exact lookup_insertTable_ne t' t d' b h.1

/-- `copy_unprocessed_tables`: a processed tag keeps the builder's entry; any other tag gets the
base font's table if it has one. -/
theorem copyUnprocessed_lookup (font : Font) (processed : List Tag) (b : Font) (t : Tag)
    (hu : UniqueTags font) :
    (copyUnprocessed font processed b).lookup t =
      if processed.contains t then b.lookup t
      else match font.lookup t with
        | some d => some d
        | none => b.lookup t := by
  unfold copyUnprocessed
  induction font generalizing b with
  | nil => simp [List.lookup]
  | cons hd tl ih =>
    obtain ⟨t', d'⟩ := hd
    have hu' : UniqueTags tl := by
      unfold UniqueTags at *; simp only [List.map_cons, List.nodup_cons] at hu; exact hu.2
    have hnot : t' ∉ tl.map (·.1) := by
      unfold UniqueTags at hu; simp only [List.map_cons, List.nodup_cons] at hu; exact hu.1
    simp only [List.foldl_cons]
    by_cases htt : t = t'
    · subst htt
      rw [copy_fold_not_mem tl processed _ t hnot]
      by_cases hp : t ∈ processed
      · simp [hp]
      · simp [hp, List.lookup, lookup_insertTable_self]
    · have hne : (t == t') = false := by simp [htt]
      rw [ih _ hu']
      have hb : (if processed.contains t' = true then b else insertTable t' d' b).lookup t = b.lookup t := by
        split
        · rfl
        · exact lookup_insertTable_ne t' t d' b htt
      simp only [List.lookup, hne, hb]

/-! ### the table-keyed loop -/

/-- the loop over already resolved entries -/
def tkRun (font : Font) (dec : Decoder) : List TKEntry → TKAcc → Except PErr TKAcc
  | [], acc => .ok acc
  | e :: rest, acc =>
    match tkStep font dec acc e with
    | .error x => .error x
    | .ok acc' => tkRun font dec rest acc'

/-- a successful `tkLoop` resolved every entry and is the fold of `tkStep` over them -/
theorem tkLoop_ok (p : Bytes) (font : Font) (dec : Decoder) (n i : Nat) (acc acc' : TKAcc)
    (h : tkLoop p font dec i n acc = .ok acc') :
    ∃ es : List TKEntry, es.length = n ∧ (∀ j (hj : j < es.length), tkEntryAt p (i + j) = .ok es[j]) ∧
      tkRun font dec es acc = .ok acc' := by
  induction n generalizing i acc with
  | zero =>
    refine ⟨[], rfl, ?_, ?_⟩
    · intro j hj; simp at hj
    · simpa [tkLoop, tkRun] using h
  | succ n ih =>
    unfold tkLoop at h
    split at h
    · cases h
    · rename_i ent hent
      split at h
      · cases h
      · rename_i acc1 hstep
        obtain ⟨es, hlen, hent', hrun⟩ := ih (i + 1) acc1 h
        refine ⟨ent :: es, by simp [hlen], ?_, ?_⟩
        · intro j hj
          cases j with
          | zero => simpa using hent
          | succ j =>
            have := hent' j (by simpa using hj)
            simpa [Nat.add_assoc, Nat.add_comm 1 j] using this
        · simp [tkRun, hstep, hrun]

/-- what one successful run of the loop does to the builder / processed set / call counter -/
theorem tkRun_spec (font : Font) (dec : Decoder) (es : List TKEntry) (acc acc' : TKAcc)
    (h : tkRun font dec es acc = .ok acc') :
    acc.calls ≤ acc'.calls ∧
    (∀ t, t ∈ acc'.processed ↔ (t ∈ acc.processed ∨ t ∈ es.map (·.tag))) ∧
    (∀ t, t ∈ acc.processed → acc'.builder.lookup t = acc.builder.lookup t) ∧
    (∀ t, t ∉ acc.processed →
      match es.find? (fun e => e.tag == t) with
      | none => acc'.builder.lookup t = acc.builder.lookup t
      | some e =>
        if e.drop then acc'.builder.lookup t = acc.builder.lookup t
        else ∃ k r, acc.calls ≤ k ∧ k < acc'.calls ∧
          dec k e.stream (if e.replace then none else font.get t) e.maxLen = .ok r ∧
          acc'.builder.lookup t = some r ∧ (e.replace = false → (font.get t).isSome)) := by
  induction es generalizing acc with
  | nil =>
    simp only [tkRun] at h
    cases h
    refine ⟨Nat.le_refl _, ?_, ?_, ?_⟩
    · intro t; simp
    · intro t _; rfl
    · intro t _; simp
  | cons e rest ih =>
    simp only [tkRun] at h
    split at h
    · cases h
    · rename_i acc1 hstep
      obtain ⟨hc, hp, hin, hout⟩ := ih acc1 h
      -- analyse the step
      unfold tkStep at hstep
      by_cases hproc : acc.processed.contains e.tag = true
      · -- duplicate tag: nothing happens
        simp only [hproc, if_true] at hstep
        cases hstep
        have hmem : e.tag ∈ acc.processed := by simpa using hproc
        refine ⟨hc, ?_, hin, ?_⟩
        · intro t
          rw [hp t]
          simp only [List.map_cons, List.mem_cons]
          constructor
          · rintro (h1 | h1)
            · exact Or.inl h1
            · exact Or.inr (Or.inr h1)
          · rintro (h1 | h1 | h1)
            · exact Or.inl h1
            · exact Or.inl (h1 ▸ hmem)
            · exact Or.inr h1
        · intro t ht
          have hne : (e.tag == t) = false := by
            simp only [beq_eq_false_iff_ne, ne_eq]
            intro heq; exact ht (heq ▸ hmem)
          simp only [List.find?, hne]
          exact hout t ht
      · simp only [hproc, if_false, Bool.false_eq_true] at hstep
        have hnmem : e.tag ∉ acc.processed := by simpa using hproc
        by_cases hdrop : e.drop = true
        · -- dropped
          simp only [hdrop, if_true] at hstep
          cases hstep
          refine ⟨hc, ?_, ?_, ?_⟩
          · intro t
            rw [hp t]
            simp only [List.map_cons, List.mem_cons]
            constructor
            · rintro ((h1 | h1) | h1)
              · exact Or.inr (Or.inl h1)
              · exact Or.inl h1
              · exact Or.inr (Or.inr h1)
            · rintro (h1 | h1 | h1)
              · exact Or.inl (Or.inr h1)
              · exact Or.inl (Or.inl h1)
              · exact Or.inr h1
          · intro t ht
            exact hin t (List.mem_cons_of_mem _ ht)
          · intro t ht
            by_cases heq : e.tag = t
            · have hb : (e.tag == t) = true := by simp [heq]
              simp only [List.find?, hb, hdrop, if_true]
              exact hin t (by simp [heq])
            · have hb : (e.tag == t) = false := by simp [heq]
              simp only [List.find?, hb]
              exact hout t (by
                simp only [List.mem_cons, not_or]
                exact ⟨fun h => heq h.symm, ht⟩)
        · simp only [hdrop, if_false, Bool.false_eq_true] at hstep
          -- a decoder call
          split at hstep
          · cases hstep
          · cases hstep
          · rename_i newTable hr
            cases hstep
            simp only at hc hp hin hout
            -- what the call was
            have hcall : dec acc.calls e.stream (if e.replace then none else font.get e.tag) e.maxLen
                = .ok newTable ∧ (e.replace = false → (font.get e.tag).isSome) := by
              split at hr
              · rename_i base hg hrep
                simp only [Except.ok.injEq] at hr
                simp [hrep, hg, hr]
              · cases hr
              · rename_i hrep
                simp only [Except.ok.injEq] at hr
                simp [hrep, hr]
            refine ⟨by omega, ?_, ?_, ?_⟩
            · intro t
              rw [hp t]
              simp only [List.map_cons, List.mem_cons]
              constructor
              · rintro ((h1 | h1) | h1)
                · exact Or.inr (Or.inl h1)
                · exact Or.inl h1
                · exact Or.inr (Or.inr h1)
              · rintro (h1 | h1 | h1)
                · exact Or.inl (Or.inr h1)
                · exact Or.inl (Or.inl h1)
                · exact Or.inr h1
            · intro t ht
              rw [hin t (List.mem_cons_of_mem _ ht)]
              apply lookup_insertTable_ne
              intro heq; exact hnmem (heq ▸ ht)
            · intro t ht
              by_cases heq : e.tag = t
              · have hb : (e.tag == t) = true := by simp [heq]
                simp only [List.find?, hb, hdrop, if_false, Bool.false_eq_true]
                refine ⟨acc.calls, newTable, Nat.le_refl _, by omega, ?_, ?_, ?_⟩
                · rw [← heq]; exact hcall.1
                · rw [hin t (by simp [heq]), ← heq]
                  exact lookup_insertTable_self _ _ _
                · rw [← heq]; exact hcall.2
              · have hb : (e.tag == t) = false := by simp [heq]
                simp only [List.find?, hb]
                have hnt : t ∉ e.tag :: acc.processed := by
                  simp only [List.mem_cons, not_or]
                  exact ⟨fun h => heq h.symm, ht⟩
                have := hout t hnt
                have hlk : (insertTable e.tag newTable acc.builder).lookup t = acc.builder.lookup t :=
                  lookup_insertTable_ne _ _ _ _ (fun h => heq h.symm)
                split at this
                · rw [this, hlk]
                · split at this
                  · rename_i hd'
                    simp only [hd', if_true]; rw [this, hlk]
                  · rename_i hd'
                    simp only [hd', if_false]
                    obtain ⟨k, r, h1, h2, h3, h4, h5⟩ := this
                    exact ⟨k, r, by omega, h2, h3, h4, h5⟩

/-! ### which dictionary the decoder receives -/

/-- the dictionary `apply_table_patch` hands to the decoder for entry `e`: none for a REPLACE_TABLE
entry, the base font's table otherwise -/
def dictFor (font : Font) (e : TKEntry) : Option Bytes := if e.replace then none else font.get e.tag

theorem tkStep_congr_dec (font : Font) (dec dec' : Decoder) (acc : TKAcc) (e : TKEntry)
    (h : dec acc.calls e.stream (dictFor font e) e.maxLen = dec' acc.calls e.stream (dictFor font e) e.maxLen) :
    tkStep font dec acc e = tkStep font dec' acc e := by
  unfold tkStep
  split
  · rfl
  · split
    · rfl
    · unfold dictFor at h
      cases hr : e.replace with
      | true =>
        simp only [hr, if_true] at h
        cases hf : font.get e.tag <;> simp only [h]
      | false =>
        simp only [hr, Bool.false_eq_true, if_false] at h
        cases hf : font.get e.tag with
        | none => rfl
        | some base => rw [hf] at h; simp only [h]

theorem tkLoop_congr_dec (p : Bytes) (font : Font) (dec dec' : Decoder)
    (h : ∀ k (e : TKEntry), dec k e.stream (dictFor font e) e.maxLen = dec' k e.stream (dictFor font e) e.maxLen)
    (i n : Nat) (acc : TKAcc) : tkLoop p font dec i n acc = tkLoop p font dec' i n acc := by
  induction n generalizing i acc with
  | zero => rfl
  | succ n ih =>
    unfold tkLoop
    cases tkEntryAt p i with
    | error e => rfl
    | ok ent =>
      simp only
      rw [tkStep_congr_dec font dec dec' acc ent (h _ ent)]
      cases tkStep font dec' acc ent with
      | error e => rfl
      | ok acc' => exact ih _ _

end FontVerif.Ift
