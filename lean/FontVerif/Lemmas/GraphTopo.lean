/-
Helper lemmas for C05 (Model/Graph.lean): the counting argument behind `sort_kahn` /
`sort_shortest_distance` — `update_parents` caches exactly one parent per link, so a target whose
count reaches its in-degree has seen all of its parents: the order is topological.
-/
import FontVerif.Model.Graph
import FontVerif.Lemmas.GraphSort
import FontVerif.Lemmas.GraphSort2
set_option linter.unusedVariables false
set_option linter.unusedSimpArgs false
namespace FontVerif.Graph
open FontVerif

/-! ### sums over duplicate-free lists -/

theorem sum_map_sub (f : Nat → Nat) (keys S : List Nat) (hS : S.Nodup) (hK : keys.Nodup)
    (hsup : ∀ x ∈ S, f x ≠ 0 → x ∈ keys) :
    (S.map f).sum ≤ (keys.map f).sum ∧
    ((keys.map f).sum ≤ (S.map f).sum → ∀ p ∈ keys, f p ≠ 0 → p ∈ S) := by
  induction keys generalizing S with
  | nil =>
    have : (S.map f).sum = 0 := by
      apply List.sum_eq_zero_iff_forall_eq_nat.mpr
      intro y hy
      obtain ⟨x, hx, rfl⟩ := List.mem_map.mp hy
      apply Classical.byContradiction
      intro hne
      have := hsup x hx hne
      simp at this
    exact ⟨by rw [this]; simp, fun _ p hp => by simp at hp⟩
  | cons k ks ih =>
    rw [List.nodup_cons] at hK
    simp only [List.map_cons, List.sum_cons]
    by_cases hk : k ∈ S
    · have hperm := List.perm_cons_erase hk
      have hsum : (S.map f).sum = f k + ((S.erase k).map f).sum := by
        rw [(hperm.map f).sum_nat]; simp
      have hS' : (S.erase k).Nodup := hS.erase k
      have hsup' : ∀ x ∈ S.erase k, f x ≠ 0 → x ∈ ks := by
        intro x hx hfx
        have hx' := (hS.mem_erase_iff).mp hx
        have := hsup x hx'.2 hfx
        rcases List.mem_cons.mp this with h | h
        · exact absurd h hx'.1
        · exact h
      obtain ⟨i1, i2⟩ := ih (S.erase k) hS' hK.2 hsup'
      refine ⟨by omega, ?_⟩
      intro hle p hp hfp
      rcases List.mem_cons.mp hp with rfl | hp
      · exact hk
      · exact ((hS.mem_erase_iff).mp (i2 (by omega) p hp hfp)).2
    · have hsup' : ∀ x ∈ S, f x ≠ 0 → x ∈ ks := by
        intro x hx hfx
        rcases List.mem_cons.mp (hsup x hx hfx) with h | h
        · rw [h] at hx; exact absurd hx hk
        · exact h
      obtain ⟨i1, i2⟩ := ih S hS hK.2 hsup'
      refine ⟨by omega, ?_⟩
      intro hle p hp hfp
      rcases List.mem_cons.mp hp with rfl | hp
      · exfalso; omega
      · exact i2 (by omega) p hp hfp

/-! ### counting links -/

/-- number of links of object `x` that target `c` -/
def linksTo (g : Graph) (c x : Nat) : Nat := (g.obj x).links.countP (fun l => l.target = c)

/-- number of links into `c` from the objects listed in `S` -/
def Lto (g : Graph) (c : Nat) (S : List Nat) : Nat := (S.map (linksTo g c)).sum

def IsParent (g : Graph) (p c : Nat) : Prop := ∃ l ∈ (g.obj p).links, l.target = c

theorem linksTo_pos_iff (g : Graph) (c p : Nat) : linksTo g c p ≠ 0 ↔ IsParent g p c := by
  unfold linksTo IsParent
  rw [Nat.ne_zero_iff_zero_lt, List.countP_pos_iff]
  simp

theorem isParent_key (g : Graph) (p c : Nat) (h : IsParent g p c) : p ∈ g.objects.keys := by
  obtain ⟨l, hl, _⟩ := h
  unfold Graph.obj at hl
  cases hf : g.objects.find? p with
  | none => rw [hf] at hl; exact absurd hl List.not_mem_nil
  | some o =>
    have := Map.find?_mem g.objects p o hf
    exact List.mem_map.mpr ⟨(p, o), this, rfl⟩

/-- the counting fact: over a duplicate-free set `S` of objects the links into `c` are at most all
links into `c`, and if they are all of them then every parent of `c` is in `S` -/
theorem lto_le (g : Graph) (c : Nat) (S : List Nat) (hS : S.Nodup) (hK : g.objects.keys.Nodup) :
    Lto g c S ≤ Lto g c g.objects.keys ∧
    (Lto g c g.objects.keys ≤ Lto g c S → ∀ p, IsParent g p c → p ∈ S) := by
  have hsup : ∀ x ∈ S, linksTo g c x ≠ 0 → x ∈ g.objects.keys :=
    fun x _ hx => isParent_key g x c ((linksTo_pos_iff g c x).mp hx)
  obtain ⟨h1, h2⟩ := sum_map_sub (linksTo g c) g.objects.keys S hS hK hsup
  refine ⟨h1, fun hle p hp => h2 hle p (isParent_key g p c hp) ((linksTo_pos_iff g c p).mpr hp)⟩

theorem lto_all (g : Graph) (c : Nat) (S : List Nat) (hS : S.Nodup) (hK : g.objects.keys.Nodup)
    (hall : ∀ p, IsParent g p c → p ∈ S) : Lto g c S = Lto g c g.objects.keys := by
  have h1 := (lto_le g c S hS hK).1
  have hsup : ∀ x ∈ g.objects.keys, linksTo g c x ≠ 0 → x ∈ S :=
    fun x _ hx => hall x ((linksTo_pos_iff g c x).mp hx)
  have h2 := (sum_map_sub (linksTo g c) S g.objects.keys hK hS hsup).1
  unfold Lto at *
  omega

/-! ### `update_parents` caches exactly one parent per link -/

def hasKey (ns : Map Node) (c : Nat) : Bool := (ns.find? c).isSome

theorem hasKey_modify (ns : Map Node) (t : Nat) (f : Node → Node) (c : Nat) :
    hasKey (Map.modify ns t f) c = hasKey ns c := by
  unfold hasKey
  rw [Map.find?_modify]
  split <;> simp

theorem plen_modify (ns : Map Node) (t : Nat) (e : Nat × Nat) (c : Nat) :
    (parentsOf (Map.modify ns t (fun n => { n with parents := n.parents ++ [e] })) c).length
      = (parentsOf ns c).length + (if c = t ∧ hasKey ns c = true then 1 else 0) := by
  unfold parentsOf hasKey
  rw [Map.find?_modify]
  by_cases hc : c = t
  · simp only [hc, ↓reduceIte, true_and]
    cases ns.find? t with
    | none => simp
    | some nd => simp
  · simp only [hc, ↓reduceIte, false_and, Nat.add_zero]

theorem updParents_inner_len (src : Nat) (links : List Link) (ns : Map Node) (c : Nat) :
    hasKey (links.foldl (fun ns l =>
        Map.modify ns l.target (fun n => { n with parents := n.parents ++ [(src, l.width)] })) ns) c = hasKey ns c ∧
    (parentsOf (links.foldl (fun ns l =>
        Map.modify ns l.target (fun n => { n with parents := n.parents ++ [(src, l.width)] })) ns) c).length
      = (parentsOf ns c).length + (if hasKey ns c = true then links.countP (fun l => l.target = c) else 0) := by
  induction links generalizing ns with
  | nil => simp
  | cons l rest ih =>
    simp only [List.foldl_cons]
    obtain ⟨i1, i2⟩ := ih (Map.modify ns l.target (fun n => { n with parents := n.parents ++ [(src, l.width)] }))
    rw [i1, i2, hasKey_modify, plen_modify]
    refine ⟨rfl, ?_⟩
    simp only [List.countP_cons, decide_eq_true_eq]
    by_cases hk : hasKey ns c = true
    · simp only [hk, and_true, ↓reduceIte]
      by_cases hc : c = l.target
      · simp only [hc, ↓reduceIte]; omega
      · have : ¬ l.target = c := fun e => hc e.symm
        simp only [hc, this, ↓reduceIte]; omega
    · simp only [hk, and_false, ↓reduceIte, Bool.false_eq_true]

/-- all links into `c`, counted over the object list -/
def LtoObjs (c : Nat) (objs : List (Nat × Obj)) : Nat :=
  (objs.map (fun kv => kv.2.links.countP (fun l => l.target = c))).sum

theorem updParents_outer_len (objs : List (Nat × Obj)) (ns : Map Node) (c : Nat) :
    hasKey (objs.foldl (fun ns kv =>
        kv.2.links.foldl (fun ns l =>
          Map.modify ns l.target (fun n => { n with parents := n.parents ++ [(kv.1, l.width)] })) ns) ns) c = hasKey ns c ∧
    (parentsOf (objs.foldl (fun ns kv =>
        kv.2.links.foldl (fun ns l =>
          Map.modify ns l.target (fun n => { n with parents := n.parents ++ [(kv.1, l.width)] })) ns) ns) c).length
      = (parentsOf ns c).length + (if hasKey ns c = true then LtoObjs c objs else 0) := by
  induction objs generalizing ns with
  | nil => simp [LtoObjs]
  | cons kv rest ih =>
    simp only [List.foldl_cons]
    obtain ⟨a1, a2⟩ := updParents_inner_len kv.1 kv.2.links ns c
    obtain ⟨i1, i2⟩ := ih (kv.2.links.foldl (fun ns l =>
          Map.modify ns l.target (fun n => { n with parents := n.parents ++ [(kv.1, l.width)] })) ns)
    rw [i1, i2, a1, a2]
    refine ⟨rfl, ?_⟩
    unfold LtoObjs
    simp only [List.map_cons, List.sum_cons]
    split <;> omega

theorem Map.find?_of_mem_nodup {α : Type} (m : Map α) (hK : m.keys.Nodup) (kv : Nat × α) (h : kv ∈ m) :
    m.find? kv.1 = some kv.2 := by
  induction m with
  | nil => simp at h
  | cons e rest ih =>
    obtain ⟨k, v⟩ := e
    simp only [Map.keys, List.map_cons, List.nodup_cons] at hK
    simp only [Map.find?]
    rcases List.mem_cons.mp h with h | h
    · rw [h]; simp
    · have hne : ¬ k = kv.1 := by
        intro e
        apply hK.1
        rw [e]
        exact List.mem_map.mpr ⟨kv, h, rfl⟩
      simp only [hne, ↓reduceIte]
      exact ih hK.2 h

theorem ltoObjs_eq (g : Graph) (c : Nat) (hK : g.objects.keys.Nodup) : LtoObjs c g.objects = Lto g c g.objects.keys := by
  unfold LtoObjs Lto Map.keys
  rw [List.map_map]
  congr 1
  apply List.map_congr_left
  intro kv hkv
  simp only [Function.comp, linksTo, Graph.obj, Map.find?_of_mem_nodup g.objects hK kv hkv, Option.getD_some]

/-- after `update_parents` on a stale cache: the in-degree of a node is the number of links into it
(and 0 for an id that has no node) -/
theorem updateParents_indeg (g : Graph) (hstale : g.parentsInvalid = true) (hK : g.objects.keys.Nodup) (c : Nat) :
    (updateParents g).indeg c = if hasKey g.nodes c = true then Lto g c g.objects.keys else 0 := by
  unfold updateParents
  simp only [hstale, Bool.not_true, Bool.false_eq_true, ↓reduceIte]
  rw [indeg_eq]
  simp only []
  obtain ⟨_, h2⟩ := updParents_outer_len g.objects (g.nodes.map (fun kv => (kv.1, { kv.2 with parents := [] }))) c
  rw [h2, ltoObjs_eq g c hK]
  have hk : hasKey (g.nodes.map (fun kv => (kv.1, { kv.2 with parents := [] }))) c = hasKey g.nodes c := by
    unfold hasKey
    rw [Map.find?_mapVal g.nodes (fun n => { n with parents := [] })]
    cases g.nodes.find? c <;> rfl
  have hp : (parentsOf (g.nodes.map (fun kv => (kv.1, { kv.2 with parents := [] }))) c).length = 0 := by
    unfold parentsOf
    rw [Map.find?_mapVal g.nodes (fun n => { n with parents := [] })]
    cases g.nodes.find? c <;> rfl
  rw [hk, hp]
  simp

/-! ### the counting invariant of the two sort loops -/

/-- what the loops need to know about the cached in-degrees -/
structure DegOK (G : Graph) : Prop where
  keys : G.objects.keys.Nodup
  deg : ∀ c, G.indeg c = Lto G c G.objects.keys ∨ G.indeg c = 0

theorem lto_cons (G : Graph) (c id : Nat) (S : List Nat) : Lto G c (id :: S) = linksTo G c id + Lto G c S := by
  simp [Lto]

/-- inside `for link in &next.offsets` of object `id` (already-processed objects `S`, links done `pre`) -/
def CntAt (G : Graph) (S : List Nat) (pre : List Link) (removed : Map Nat) : Prop :=
  ∀ c, (removed.find? c).getD 0 = Lto G c S + pre.countP (fun l => l.target = c)

theorem cnt_step (G : Graph) (S : List Nat) (pre : List Link) (removed : Map Nat) (l : Link)
    (h : CntAt G S pre removed) :
    CntAt G S (pre ++ [l]) (removed.insert l.target ((removed.find? l.target).getD 0 + 1)) := by
  intro c
  rw [Map.find?_insert]
  simp only [List.countP_append, List.countP_cons, List.countP_nil, decide_eq_true_eq]
  by_cases hc : l.target = c
  · subst hc
    simp only [↓reduceIte, Option.getD_some]
    rw [h l.target]; omega
  · simp only [hc, ↓reduceIte]
    rw [h c]; omega

theorem push_parents (G : Graph) (hd : DegOK G) (id : Nat) (S : List Nat) (hnd : (id :: S).Nodup)
    (pre rest : List Link) (l : Link) (hlinks : pre ++ l :: rest = (G.obj id).links) (removed : Map Nat)
    (hc : CntAt G S pre removed) (hseen : (removed.find? l.target).getD 0 + 1 = G.indeg l.target) :
    ∀ p, IsParent G p l.target → p ∈ id :: S := by
  have h1 := hc l.target
  have hcount : pre.countP (fun l' => l'.target = l.target) + 1 ≤ linksTo G l.target id := by
    unfold linksTo
    rw [← hlinks]
    simp only [List.countP_append, List.countP_cons, decide_eq_true_eq, ↓reduceIte]
    omega
  have hdeg : G.indeg l.target = Lto G l.target G.objects.keys := by
    rcases hd.deg l.target with h | h
    · exact h
    · omega
  apply (lto_le G l.target (id :: S) hnd hd.keys).2
  rw [lto_cons]
  omega

theorem kahnFold_topo (G : Graph) (hd : DegOK G) (id : Nat) (S : List Nat) (hnd : (id :: S).Nodup)
    (rest pre : List Link) (acc : List Nat × Map Nat) (hlinks : pre ++ rest = (G.obj id).links)
    (hc : CntAt G S pre acc.2) (hq : ∀ c ∈ acc.1, ∀ p, IsParent G p c → p ∈ id :: S) :
    CntAt G S (pre ++ rest) (rest.foldl (kahnVisitLink G) acc).2 ∧
    ∀ c ∈ (rest.foldl (kahnVisitLink G) acc).1, ∀ p, IsParent G p c → p ∈ id :: S := by
  induction rest generalizing pre acc with
  | nil => simp only [List.append_nil, List.foldl_nil]; exact ⟨hc, hq⟩
  | cons l rest ih =>
    simp only [List.foldl_cons]
    have hlinks' : (pre ++ [l]) ++ rest = (G.obj id).links := by rw [← hlinks]; simp
    have hc' : CntAt G S (pre ++ [l]) (kahnVisitLink G acc l).2 := by
      have := cnt_step G S pre acc.2 l hc
      unfold kahnVisitLink
      simp only []
      split <;> exact this
    have hq' : ∀ c ∈ (kahnVisitLink G acc l).1, ∀ p, IsParent G p c → p ∈ id :: S := by
      unfold kahnVisitLink
      simp only []
      split
      · rename_i hseen
        intro c hcm
        rw [mem_insertBy] at hcm
        rcases hcm with rfl | hcm
        · exact push_parents G hd id S hnd pre rest l hlinks acc.2 hc hseen
        · exact hq c hcm
      · exact hq
    have := ih (pre ++ [l]) (kahnVisitLink G acc l) hlinks' hc' hq'
    rw [show pre ++ l :: rest = (pre ++ [l]) ++ rest by simp]
    exact this

/-- the processed list (most recent first) is topological: all parents of an entry come after it -/
def TopoRev (G : Graph) (orderRev : List Nat) : Prop :=
  ∀ a c b, orderRev = a ++ c :: b → ∀ p, IsParent G p c → p ∈ b

theorem topoRev_cons (G : Graph) (id : Nat) (S : List Nat) (h : TopoRev G S)
    (hid : ∀ p, IsParent G p id → p ∈ S) : TopoRev G (id :: S) := by
  intro a c b hsplit p hp
  cases a with
  | nil =>
    simp only [List.nil_append, List.cons.injEq] at hsplit
    obtain ⟨rfl, rfl⟩ := hsplit
    exact hid p hp
  | cons x a' =>
    simp only [List.cons_append, List.cons.injEq] at hsplit
    exact h a' c b hsplit.2 p hp

structure TopoInv (G : Graph) (queue : List Nat) (removed : Map Nat) (orderRev : List Nat) : Prop where
  enum : EnumInv G queue removed orderRev
  cnt : ∀ c, (removed.find? c).getD 0 = Lto G c orderRev
  qpar : ∀ c ∈ queue, ∀ p, IsParent G p c → p ∈ orderRev
  topo : TopoRev G orderRev

theorem topo_step (G : Graph) (hd : DegOK G) (hroot : G.indeg G.root = 0) (id : Nat) (rest : List Nat)
    (removed : Map Nat) (S : List Nat) (hinv : TopoInv G (id :: rest) removed S) :
    (id :: S).Nodup ∧ CntAt G S [] removed ∧ (∀ c ∈ rest, ∀ p, IsParent G p c → p ∈ id :: S) ∧
      TopoRev G (id :: S) := by
  have hnd : (id :: S).Nodup := by
    have := hinv.enum.nodup
    simp only [List.cons_append, List.nodup_cons, List.mem_append, not_or] at this
    rw [List.nodup_cons]
    exact ⟨this.1.2, (List.nodup_append.mp this.2).2.1⟩
  refine ⟨hnd, ?_, ?_, ?_⟩
  · intro c; rw [hinv.cnt c]; simp
  · intro c hc p hp
    exact List.mem_cons_of_mem _ (hinv.qpar c (List.mem_cons_of_mem _ hc) p hp)
  · exact topoRev_cons G id S hinv.topo (hinv.qpar id List.mem_cons_self)

theorem kahnLoop_topo (G : Graph) (hd : DegOK G) (hroot : G.indeg G.root = 0) (fuel : Nat) (st st' : SortSt)
    (h : kahnLoop G fuel st = some st') (hinv : TopoInv G st.queue st.removed st.orderRev) :
    TopoInv G st'.queue st'.removed st'.orderRev := by
  induction fuel generalizing st with
  | zero => simp [kahnLoop] at h
  | succ n ih =>
    unfold kahnLoop at h
    split at h
    · simp only [Option.some.injEq] at h; subst h; exact hinv
    · rename_i id rest hq
      simp only [] at h
      rw [hq] at hinv
      obtain ⟨hnd, hc0, hq0, htopo⟩ := topo_step G hd hroot id rest st.removed st.orderRev hinv
      have hsrc : Reach G G.root id := hinv.enum.reach id (Or.inl List.mem_cons_self)
      have henum := kahnFold_enum G (G.obj id).links (rest, st.removed) id (id :: st.orderRev) hroot
        (fun l hl => hl) hsrc (enum_pop G id rest st.removed st.orderRev hinv.enum)
      have hfold := kahnFold_topo G hd id st.orderRev hnd (G.obj id).links [] (rest, st.removed) rfl hc0 hq0
      generalize hf : (G.obj id).links.foldl (kahnVisitLink G) (rest, st.removed) = res at h henum hfold
      obtain ⟨queue, removed⟩ := res
      simp only [] at h
      apply ih _ h
      constructor
      · exact henum
      · intro c
        have := hfold.1 c
        simp only [List.nil_append] at this
        rw [this, lto_cons]
        unfold linksTo
        omega
      · exact hfold.2
      · exact htopo

theorem topo_init (G : Graph) (hroot : G.indeg G.root = 0) (hd : DegOK G)
    (hnoparent : ∀ p, ¬ IsParent G p G.root) : TopoInv G [G.root] [] [] := by
  constructor
  · exact enum_init G []
  · intro c; simp [Map.find?, Lto]
  · intro c hc p hp
    simp only [List.mem_singleton] at hc
    subst hc
    exact absurd hp (hnoparent p)
  · intro a c b hsplit
    simp at hsplit

/-! ### `sort_kahn` is topological -/

theorem linksTo_congr (G G' : Graph) (h : G'.objects = G.objects) (c x : Nat) : linksTo G' c x = linksTo G c x := by
  unfold linksTo; rw [obj_congr G G' h]

theorem lto_congr (G G' : Graph) (h : G'.objects = G.objects) (c : Nat) (S : List Nat) : Lto G' c S = Lto G c S := by
  unfold Lto
  congr 1
  apply List.map_congr_left
  intro x _
  exact linksTo_congr G G' h c x

theorem isParent_congr (G G' : Graph) (h : G'.objects = G.objects) (p c : Nat) : IsParent G' p c ↔ IsParent G p c := by
  unfold IsParent; rw [obj_congr G G' h]

/-- a graph whose objects and in-degrees are those of `update_parents g` (stale cache, distinct keys) -/
theorem degOK_of (g G : Graph) (hstale : g.parentsInvalid = true) (hK : g.objects.keys.Nodup)
    (hobj : G.objects = g.objects) (hdeg : ∀ c, G.indeg c = (updateParents g).indeg c) : DegOK G := by
  constructor
  · rw [hobj]; exact hK
  · intro c
    rw [hdeg c, updateParents_indeg g hstale hK c, hobj, lto_congr g G hobj]
    split
    · left; rfl
    · right; rfl

theorem topoRev_reverse (G : Graph) (orderRev : List Nat) (h : TopoRev G orderRev) :
    ∀ pre c post, orderRev.reverse = pre ++ c :: post → ∀ p, IsParent G p c → p ∈ pre := by
  intro pre c post hsplit p hp
  have : orderRev = post.reverse ++ c :: pre.reverse := by
    have := congrArg List.reverse hsplit
    simpa using this
  have := h _ _ _ this p hp
  simpa using this

/-- `sort_kahn` on a freshly built graph whose root is nobody's target: every object of the order
has all of its parents before it -/
theorem sortKahn_topo (g g' : Graph) (hn : 1 < g.nodes.length) (hstale : g.parentsInvalid = true)
    (hK : g.objects.keys.Nodup) (hroot : ∀ kv ∈ g.objects, ∀ l ∈ kv.2.links, l.target ≠ g.root)
    (h : sortKahn g = some g') :
    ∀ pre c post, g'.order = pre ++ c :: post → ∀ p, IsParent g p c → p ∈ pre := by
  have hroot0 := updateParents_indeg_zero g g.root hstale hroot
  unfold sortKahn at h
  rw [if_neg (by omega)] at h
  simp only [] at h
  split at h
  · simp at h
  · rename_i st hloop
    split at h
    · simp only [Option.some.injEq] at h
      subst h
      have hd : DegOK (updateParents g) := degOK_of g _ hstale hK (updateParents_objects g) (fun c => rfl)
      have hroot' : (updateParents g).indeg (updateParents g).root = 0 := by rw [updateParents_root]; exact hroot0
      have hnop : ∀ p, ¬ IsParent (updateParents g) p (updateParents g).root := by
        intro p hp
        rw [isParent_congr g _ (updateParents_objects g), updateParents_root] at hp
        obtain ⟨l, hl, ht⟩ := hp
        unfold Graph.obj at hl
        cases hf : g.objects.find? p with
        | none => rw [hf] at hl; exact absurd hl List.not_mem_nil
        | some o =>
          rw [hf] at hl
          exact hroot (p, o) (Map.find?_mem g.objects p o hf) l hl ht
      have hinv := kahnLoop_topo _ hd hroot' _ _ _ hloop (topo_init _ hroot' hd hnop)
      intro pre c post hsplit p hp
      exact topoRev_reverse _ _ hinv.topo pre c post hsplit p ((isParent_congr g _ (updateParents_objects g) p c).mpr hp)
    · simp at h

/-! ### `sort_shortest_distance` is topological -/

theorem shortFold_topo (G : Graph) (hd : DegOK G) (id : Nat) (S : List Nat) (hnd : (id :: S).Nodup)
    (rest pre : List Link) (acc : List QEntry × Map Nat × Nat) (hlinks : pre ++ rest = (G.obj id).links)
    (hc : CntAt G S pre acc.2.1) (hq : ∀ e ∈ acc.1, ∀ p, IsParent G p e.id → p ∈ id :: S) :
    CntAt G S (pre ++ rest) (rest.foldl (shortVisitLink G) acc).2.1 ∧
    ∀ e ∈ (rest.foldl (shortVisitLink G) acc).1, ∀ p, IsParent G p e.id → p ∈ id :: S := by
  induction rest generalizing pre acc with
  | nil => simp only [List.append_nil, List.foldl_nil]; exact ⟨hc, hq⟩
  | cons l rest ih =>
    simp only [List.foldl_cons]
    have hlinks' : (pre ++ [l]) ++ rest = (G.obj id).links := by rw [← hlinks]; simp
    have hc' : CntAt G S (pre ++ [l]) (shortVisitLink G acc l).2.1 := by
      have := cnt_step G S pre acc.2.1 l hc
      unfold shortVisitLink
      simp only []
      split <;> exact this
    have hq' : ∀ e ∈ (shortVisitLink G acc l).1, ∀ p, IsParent G p e.id → p ∈ id :: S := by
      unfold shortVisitLink
      simp only []
      split
      · rename_i hseen
        intro e hem
        rw [mem_insertBy] at hem
        rcases hem with rfl | hem
        · exact push_parents G hd id S hnd pre rest l hlinks acc.2.1 hc hseen
        · exact hq e hem
      · exact hq
    have := ih (pre ++ [l]) (shortVisitLink G acc l) hlinks' hc' hq'
    rw [show pre ++ l :: rest = (pre ++ [l]) ++ rest by simp]
    exact this

theorem shortLoop_topo (G : Graph) (hd : DegOK G) (hroot : G.indeg G.root = 0) (fuel : Nat) (st st' : ShortSt)
    (h : shortLoop G fuel st = some st') (hinv : TopoInv G (st.queue.map (·.id)) st.removed st.orderRev) :
    TopoInv G (st'.queue.map (·.id)) st'.removed st'.orderRev := by
  induction fuel generalizing st with
  | zero => simp [shortLoop] at h
  | succ n ih =>
    unfold shortLoop at h
    split at h
    · simp only [Option.some.injEq] at h; subst h; exact hinv
    · rename_i e rest hq
      simp only [] at h
      rw [hq] at hinv
      simp only [List.map_cons] at hinv
      obtain ⟨hnd, hc0, hq0, htopo⟩ := topo_step G hd hroot e.id (rest.map (·.id)) st.removed st.orderRev hinv
      have hsrc : Reach G G.root e.id := hinv.enum.reach e.id (Or.inl List.mem_cons_self)
      have henum := shortFold_enum G (G.obj e.id).links (rest, st.removed, st.objOrder) e.id (e.id :: st.orderRev) hroot
        (fun l hl => hl) hsrc (enum_pop G e.id (rest.map (·.id)) st.removed st.orderRev hinv.enum)
      have hq0' : ∀ e' ∈ rest, ∀ p, IsParent G p e'.id → p ∈ e.id :: st.orderRev :=
        fun e' he' => hq0 e'.id (List.mem_map.mpr ⟨e', he', rfl⟩)
      have hfold := shortFold_topo G hd e.id st.orderRev hnd (G.obj e.id).links [] (rest, st.removed, st.objOrder) rfl hc0 hq0'
      generalize hf : (G.obj e.id).links.foldl (shortVisitLink G) (rest, st.removed, st.objOrder) = res at h henum hfold
      obtain ⟨queue, removed, oo⟩ := res
      simp only [] at h
      apply ih _ h
      constructor
      · exact henum
      · intro c
        have := hfold.1 c
        simp only [List.nil_append] at this
        rw [this, lto_cons]
        unfold linksTo
        omega
      · intro c hc p hp
        obtain ⟨e', he', rfl⟩ := List.mem_map.mp hc
        exact hfold.2 e' he' p hp
      · exact htopo

theorem sortShortest_topo (g g' : Graph) (hstale : g.parentsInvalid = true)
    (hK : g.objects.keys.Nodup) (hroot : ∀ kv ∈ g.objects, ∀ l ∈ kv.2.links, l.target ≠ g.root)
    (h : sortShortest g = some g') :
    ∀ pre c post, g'.order = pre ++ c :: post → ∀ p, IsParent g p c → p ∈ pre := by
  have hroot0 := updateParents_indeg_zero g g.root hstale hroot
  unfold sortShortest at h
  simp only [Option.bind_eq_bind, Option.bind_eq_some_iff] at h
  obtain ⟨g2, hd2, g3, hs, st, hloop, h⟩ := h
  split at h
  · simp only [Option.some.injEq] at h
    subst h
    have ho2 := updateDistances_objects _ _ hd2
    have ho3 := assignSpace0_objects _ _ hs
    have hobjs : g3.objects = g.objects := by rw [ho3.1, ho2.1, updateParents_objects]
    have hr : g3.root = g.root := by rw [ho3.2, ho2.2, updateParents_root]
    have hdeg : ∀ c, g3.indeg c = (updateParents g).indeg c := by
      intro c; rw [assignSpace0_indeg _ _ hs, updateDistances_indeg _ _ hd2]
    have hd : DegOK g3 := degOK_of g g3 hstale hK hobjs hdeg
    have hroot' : g3.indeg g3.root = 0 := by rw [hr, hdeg]; exact hroot0
    have hnop : ∀ p, ¬ IsParent g3 p g3.root := by
      intro p hp
      rw [isParent_congr g g3 hobjs, hr] at hp
      obtain ⟨l, hl, ht⟩ := hp
      unfold Graph.obj at hl
      cases hf : g.objects.find? p with
      | none => rw [hf] at hl; exact absurd hl List.not_mem_nil
      | some o =>
        rw [hf] at hl
        exact hroot (p, o) (Map.find?_mem g.objects p o hf) l hl ht
    have hinit : TopoInv g3 (([⟨0, 0, 0, g3.root⟩] : List QEntry).map (·.id)) [] [] := topo_init g3 hroot' hd hnop
    have hinv := shortLoop_topo g3 hd hroot' _ _ _ hloop hinit
    intro pre c post hsplit p hp
    exact topoRev_reverse _ _ hinv.topo pre c post hsplit p ((isParent_congr g g3 hobjs p c).mpr hp)
  · simp at h

end FontVerif.Graph
