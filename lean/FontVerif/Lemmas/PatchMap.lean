/-
Helper lemmas for C19 (IFT patch selection): range-list membership, the "grows" order on subset
definitions, monotonicity of `Entry::intersects` and of the format-2 cache evaluation, the
fixed-point equation of `evalAll`, and the declarative intersection relation `SpecMatch`.
-/
import FontVerif.Model.PatchGroup
set_option linter.unusedVariables false
namespace FontVerif.PatchMap
open FontVerif

/-! ## range lists -/

theorem rMem_iff (c : Int) (s : Ranges) :
    rMem c s = true ↔ ∃ r, r ∈ s ∧ r.1 ≤ c ∧ c ≤ r.2 := by
  simp [rMem, List.any_eq_true]

theorem rangesOverlap_iff (r s : Int × Int) :
    rangesOverlap r s = true ↔ ∃ c : Int, (r.1 ≤ c ∧ c ≤ r.2) ∧ (s.1 ≤ c ∧ c ≤ s.2) := by
  simp only [rangesOverlap, Bool.and_eq_true, decide_eq_true_eq]
  constructor
  · rintro ⟨⟨⟨h1, h2⟩, h3⟩, h4⟩
    by_cases h : r.1 ≤ s.1
    · exact ⟨s.1, by omega⟩
    · exact ⟨r.1, by omega⟩
  · rintro ⟨c, h⟩; omega

/-- `intersects_set` means: the two sets share a member -/
theorem rIntersects_iff (a b : Ranges) :
    rIntersects a b = true ↔ ∃ c : Int, rMem c a = true ∧ rMem c b = true := by
  simp only [rIntersects, List.any_eq_true, rangesOverlap_iff, rMem_iff]
  constructor
  · rintro ⟨r, hr, s, hs, c, h1, h2⟩
    exact ⟨c, ⟨r, hr, h1⟩, ⟨s, hs, h2⟩⟩
  · rintro ⟨c, ⟨r, hr, h1⟩, ⟨s, hs, h2⟩⟩
    exact ⟨r, hr, s, hs, c, h1, h2⟩

/-- `is_empty` means: no member -/
theorem rIsEmpty_iff (a : Ranges) : rIsEmpty a = true ↔ ∀ c : Int, rMem c a = false := by
  simp only [rIsEmpty, Bool.not_eq_true', List.any_eq_false, decide_eq_true_eq]
  constructor
  · intro h c
    cases hm : rMem c a with
    | false => rfl
    | true =>
      obtain ⟨r, hr, h1, h2⟩ := (rMem_iff c a).1 hm
      exact absurd (by omega : r.1 ≤ r.2) (h r hr)
  · intro h r hr hle
    have := h r.1
    rw [← Bool.not_eq_true, rMem_iff] at this
    exact this ⟨r, hr, by omega, hle⟩

/-- set inclusion of range lists -/
def rSub (a b : Ranges) : Prop := ∀ c : Int, rMem c a = true → rMem c b = true

theorem rSub_refl (a : Ranges) : rSub a a := fun _ h => h

theorem rIntersects_mono {e a b : Ranges} (h : rSub a b) :
    rIntersects e a = true → rIntersects e b = true := by
  rw [rIntersects_iff, rIntersects_iff]
  rintro ⟨c, h1, h2⟩
  exact ⟨c, h1, h c h2⟩

/-! ## the order "the definition grows" -/

/-- feature sets: everything is below `All`; explicit sets by inclusion -/
def FeatureSet.le : FeatureSet → FeatureSet → Prop
  | _, .all => True
  | .all, .set _ => False
  | .set a, .set b => ∀ t, t ∈ a → t ∈ b

/-- design spaces: everything is below `All`; explicit ones axis by axis (an axis of the smaller
space is an axis of the larger one, with a superset of values) -/
def DesignSpace.le : DesignSpace → DesignSpace → Prop
  | _, .all => True
  | .all, .ranges _ => False
  | .ranges a, .ranges b =>
    ∀ tag ra, axLookup tag a = some ra → ∃ rb, axLookup tag b = some rb ∧ rSub ra rb

/-- `d ≤ d'`: codepoints, features and design space all grow -/
def SubsetDef.le (d d' : SubsetDef) : Prop :=
  rSub d.cps d'.cps ∧ FeatureSet.le d.feats d'.feats ∧ DesignSpace.le d.ds d'.ds

theorem FeatureSet.le_refl : ∀ f : FeatureSet, FeatureSet.le f f
  | .all => trivial
  | .set _ => fun _ h => h

theorem DesignSpace.le_refl : ∀ f : DesignSpace, DesignSpace.le f f
  | .all => trivial
  | .ranges _ => fun _ ra h => ⟨ra, h, rSub_refl ra⟩

theorem SubsetDef.le_refl (d : SubsetDef) : SubsetDef.le d d :=
  ⟨rSub_refl _, FeatureSet.le_refl _, DesignSpace.le_refl _⟩

/-- the codepoints of a definition are `u32` values (the domain of `IntSet<u32>`) -/
def SubsetDef.cpsInDomain (d : SubsetDef) : Prop :=
  ∀ c : Int, rMem c d.cps = true → 0 ≤ c ∧ c ≤ 4294967295

/-- every definition is below `SubsetDefinition::all()` -/
theorem SubsetDef.le_all (d : SubsetDef) (h : d.cpsInDomain) : SubsetDef.le d SubsetDef.allDef := by
  refine ⟨?_, ?_, ?_⟩
  · intro c hc
    have := h c hc
    rw [rMem_iff]
    exact ⟨(0, 4294967295), by simp [SubsetDef.allDef], this.1, this.2⟩
  · cases hf : d.feats <;> simp [SubsetDef.allDef, FeatureSet.le]
  · cases hf : d.ds <;> simp [SubsetDef.allDef, DesignSpace.le]

theorem axLookup_of_head {t : Nat} {r : Ranges} {rest : List (Nat × Ranges)} :
    axLookup t ((t, r) :: rest) = some r := by simp [axLookup]

theorem designSpaceIntersects_mono {er a b : List (Nat × Ranges)}
    (h : DesignSpace.le (.ranges a) (.ranges b)) :
    designSpaceIntersects er a = true → designSpaceIntersects er b = true := by
  simp only [designSpaceIntersects, List.any_eq_true]
  rintro ⟨p, hp, hm⟩
  refine ⟨p, hp, ?_⟩
  cases hl : axLookup p.1 a with
  | none => simp [hl] at hm
  | some ra =>
    simp only [hl] at hm
    obtain ⟨rb, hb, hsub⟩ := h p.1 ra hl
    simp only [hb]
    exact rIntersects_mono hsub hm

/-- codepoint condition of `Entry::intersects` -/
def cpOk (e d : SubsetDef) : Bool := rIsEmpty e.cps || rIntersects e.cps d.cps

/-- feature condition of `Entry::intersects` -/
def ftOk (e d : SubsetDef) : Bool :=
  match e.feats with
  | .all => decide (d.feats.len > 0)
  | .set s => match d.feats with
    | .all => true
    | .set o => s.isEmpty || s.any fun t => o.contains t

/-- design-space condition of `Entry::intersects` -/
def dsOk (e d : SubsetDef) : Bool :=
  match e.ds with
  | .all => !d.ds.isEmpty
  | .ranges er => match d.ds with
    | .all => true
    | .ranges o => er.isEmpty || designSpaceIntersects er o

theorem localIntersects_eq (e d : SubsetDef) :
    localIntersects e d = (cpOk e d && (ftOk e d && dsOk e d)) := by
  unfold localIntersects
  simp only []
  show (if (!cpOk e d) = true then false else
          if (!ftOk e d) = true then false else dsOk e d) = _
  cases cpOk e d <;> cases ftOk e d <;> simp

theorem cpOk_mono (e d d' : SubsetDef) (hc : rSub d.cps d'.cps) :
    cpOk e d = true → cpOk e d' = true := by
  simp only [cpOk, Bool.or_eq_true]
  exact fun h => h.imp id (rIntersects_mono hc)

theorem ftOk_mono (e d d' : SubsetDef) (hf : FeatureSet.le d.feats d'.feats) :
    ftOk e d = true → ftOk e d' = true := by
  unfold ftOk
  cases he : e.feats with
  | all =>
    simp only []
    cases hdf : d.feats with
    | all =>
      cases hdf' : d'.feats with
      | all => simp [FeatureSet.len]
      | set o' => simp [hdf, hdf', FeatureSet.le] at hf
    | set o =>
      cases hdf' : d'.feats with
      | all => simp [FeatureSet.len]
      | set o' =>
        simp only [hdf, hdf', FeatureSet.le] at hf
        simp only [FeatureSet.len, gt_iff_lt, decide_eq_true_eq]
        intro hft
        cases o with
        | nil => simp at hft
        | cons t ts =>
          have := hf t (by simp)
          cases o' with
          | nil => simp at this
          | cons _ _ => simp
  | set s =>
    simp only []
    cases hdf' : d'.feats with
    | all => simp
    | set o' =>
      cases hdf : d.feats with
      | all => simp [hdf, hdf', FeatureSet.le] at hf
      | set o =>
        simp only [hdf, hdf', FeatureSet.le] at hf
        simp only [Bool.or_eq_true, List.any_eq_true, List.contains_iff_mem]
        rintro (h1 | ⟨t, ht, hto⟩)
        · exact Or.inl h1
        · exact Or.inr ⟨t, ht, hf t hto⟩

theorem dsOk_mono (e d d' : SubsetDef) (hd : DesignSpace.le d.ds d'.ds) :
    dsOk e d = true → dsOk e d' = true := by
  unfold dsOk
  cases he : e.ds with
  | all =>
    simp only []
    cases hd1 : d.ds with
    | all =>
      cases hd2 : d'.ds with
      | all => simp [DesignSpace.isEmpty]
      | ranges b => simp [hd1, hd2, DesignSpace.le] at hd
    | ranges a =>
      cases hd2 : d'.ds with
      | all => simp [DesignSpace.isEmpty]
      | ranges b =>
        simp only [hd1, hd2, DesignSpace.le] at hd
        simp only [DesignSpace.isEmpty]
        intro h
        cases a with
        | nil => simp at h
        | cons p rest =>
          obtain ⟨rb, hb, _⟩ := hd p.1 p.2 (by simp [axLookup])
          cases b with
          | nil => simp [axLookup] at hb
          | cons _ _ => simp
  | ranges er =>
    simp only []
    cases hd2 : d'.ds with
    | all => simp
    | ranges b =>
      cases hd1 : d.ds with
      | all => simp [hd1, hd2, DesignSpace.le] at hd
      | ranges a =>
        rw [hd1, hd2] at hd
        simp only [Bool.or_eq_true]
        exact fun h => h.imp id (designSpaceIntersects_mono hd)

/-- **`Entry::intersects` is monotone in the subset definition** (all three dimensions with their
empty-means-wildcard rules) -/
theorem localIntersects_mono (e d d' : SubsetDef) (hle : SubsetDef.le d d')
    (h : localIntersects e d = true) : localIntersects e d' = true := by
  obtain ⟨hc, hf, hd⟩ := hle
  rw [localIntersects_eq] at h ⊢
  simp only [Bool.and_eq_true] at h ⊢
  exact ⟨cpOk_mono e d d' hc h.1, ftOk_mono e d d' hf h.2.1, dsOk_mono e d d' hd h.2.2⟩

/-! ## cache evaluation -/

theorem getD_snoc (res : List Bool) (v : Bool) (i : Nat) :
    (res ++ [v]).getD i false =
      if i < res.length then res.getD i false else if i = res.length then v else false := by
  simp only [List.getD_eq_getElem?_getD, List.getElem?_append]
  split
  · rfl
  · split
    · next h => simp [h]
    · next h1 h2 =>
      have : i - res.length ≠ 0 := by omega
      cases hk : i - res.length with
      | zero => omega
      | succ k => simp

theorem childrenOk_mono (e : Entry) (res res' : List Bool)
    (h : ∀ i, res.getD i false = true → res'.getD i false = true) :
    childrenOk e res = true → childrenOk e res' = true := by
  unfold childrenOk
  split
  · simp
  · split
    · simp only [List.all_eq_true]
      intro hall c hc
      exact h c (hall c hc)
    · simp only [List.any_eq_true]
      rintro ⟨c, hc, hv⟩
      exact ⟨c, hc, h c hv⟩

theorem entryValue_mono (e : Entry) (d d' : SubsetDef) (res res' : List Bool)
    (hle : SubsetDef.le d d') (h : ∀ i, res.getD i false = true → res'.getD i false = true) :
    entryValue d res e = true → entryValue d' res' e = true := by
  simp only [entryValue, Bool.and_eq_true]
  rintro ⟨h1, h2⟩
  exact ⟨localIntersects_mono _ _ _ hle h1, childrenOk_mono e res res' h h2⟩

theorem evalFrom_mono (d d' : SubsetDef) (hle : SubsetDef.le d d') :
    ∀ (es : List Entry) (res res' : List Bool), res.length = res'.length →
      (∀ i, res.getD i false = true → res'.getD i false = true) →
      ∀ i, (evalFrom d res es).getD i false = true → (evalFrom d' res' es).getD i false = true := by
  intro es
  induction es with
  | nil => intro res res' _ h i; simpa [evalFrom] using h i
  | cons e es ih =>
    intro res res' hlen h i
    simp only [evalFrom]
    apply ih
    · simp [hlen]
    · intro j
      rw [getD_snoc, getD_snoc, ← hlen]
      split
      · exact h j
      · split
        · exact entryValue_mono e d d' res res' hle h
        · simp

/-- the whole cache is pointwise monotone in the definition -/
theorem evalAll_mono (es : List Entry) (d d' : SubsetDef) (hle : SubsetDef.le d d') (i : Nat) :
    (evalAll es d).getD i false = true → (evalAll es d').getD i false = true :=
  evalFrom_mono d d' hle es [] [] rfl (fun _ h => h) i

theorem evalFrom_append (d : SubsetDef) : ∀ (es1 es2 : List Entry) (res : List Bool),
    evalFrom d res (es1 ++ es2) = evalFrom d (evalFrom d res es1) es2 := by
  intro es1
  induction es1 with
  | nil => intro es2 res; rfl
  | cons e es ih => intro es2 res; simp only [List.cons_append, evalFrom]; exact ih _ _

theorem evalFrom_prefix (d : SubsetDef) : ∀ (es : List Entry) (res : List Bool),
    ∃ t, evalFrom d res es = res ++ t ∧ t.length = es.length := by
  intro es
  induction es with
  | nil => intro res; exact ⟨[], by simp [evalFrom]⟩
  | cons e es ih =>
    intro res
    obtain ⟨t, ht, hl⟩ := ih (res ++ [entryValue d res e])
    refine ⟨entryValue d res e :: t, ?_, by simp [hl]⟩
    simp only [evalFrom, ht, List.append_assoc, List.singleton_append]

theorem evalAll_length (es : List Entry) (d : SubsetDef) : (evalAll es d).length = es.length := by
  obtain ⟨t, ht, hl⟩ := evalFrom_prefix d es []
  simp [evalAll, ht, hl]

/-- the value cached for entry `i` is `compute_intersection` over the values cached before it -/
theorem evalAll_getElem (es : List Entry) (d : SubsetDef) (i : Nat) (h : i < es.length) :
    (evalAll es d)[i]? = some (entryValue d ((evalAll es d).take i) es[i]) := by
  have hsplit : es = es.take i ++ (es[i] :: es.drop (i + 1)) := by
    rw [List.getElem_cons_drop_succ_eq_drop, List.take_append_drop]
  have hlen : (evalAll (es.take i) d).length = i := by
    rw [evalAll_length, List.length_take]; omega
  have hR : evalAll es d =
      evalFrom d (evalAll (es.take i) d ++ [entryValue d (evalAll (es.take i) d) es[i]])
        (es.drop (i + 1)) := by
    conv => lhs; rw [hsplit]
    simp only [evalAll, evalFrom_append, evalFrom]
  obtain ⟨t, ht, _⟩ := evalFrom_prefix d (es.drop (i + 1))
    (evalAll (es.take i) d ++ [entryValue d (evalAll (es.take i) d) es[i]])
  rw [hR, ht]
  have htake : ((evalAll (es.take i) d ++ [entryValue d (evalAll (es.take i) d) es[i]]) ++ t).take i
      = evalAll (es.take i) d := by
    rw [List.append_assoc, List.take_left' hlen]
  rw [htake, List.append_assoc, List.getElem?_append_right (by omega)]
  simp [hlen]

/-- entries whose children all have smaller indices (what `decode_format2_entry` enforces:
"Child index must refer to only prior entries.") -/
def WF (es : List Entry) : Prop :=
  ∀ i (h : i < es.length), ∀ c, c ∈ es[i].children → c < i

theorem childrenOk_take (e : Entry) (res : List Bool) (i : Nat) (h : ∀ c, c ∈ e.children → c < i) :
    childrenOk e (res.take i) = childrenOk e res := by
  have hg : ∀ c, c ∈ e.children → (res.take i).getD c false = res.getD c false := by
    intro c hc
    simp [List.getD_eq_getElem?_getD, h c hc]
  unfold childrenOk
  split
  · rfl
  · split
    · rw [Bool.eq_iff_iff]
      simp only [List.all_eq_true]
      constructor
      · intro hh c hc; rw [← hg c hc]; exact hh c hc
      · intro hh c hc; rw [hg c hc]; exact hh c hc
    · rw [Bool.eq_iff_iff]
      simp only [List.any_eq_true]
      constructor
      · rintro ⟨c, hc, hv⟩; exact ⟨c, hc, by rw [← hg c hc]; exact hv⟩
      · rintro ⟨c, hc, hv⟩; exact ⟨c, hc, by rw [hg c hc]; exact hv⟩

/-- **fixed-point equation** of the cache on well-formed entry lists -/
theorem evalAll_fix (es : List Entry) (d : SubsetDef) (wf : WF es) (i : Nat) (h : i < es.length) :
    (evalAll es d).getD i false =
      (localIntersects es[i].sd d && childrenOk es[i] (evalAll es d)) := by
  rw [List.getD_eq_getElem?_getD, evalAll_getElem es d i h]
  simp only [Option.getD_some, entryValue]
  rw [childrenOk_take _ _ _ (wf i h)]

theorem evalAll_oob (es : List Entry) (d : SubsetDef) (i : Nat) (h : es.length ≤ i) :
    (evalAll es d).getD i false = false := by
  rw [List.getD_eq_getElem?_getD, List.getElem?_eq_none (by rw [evalAll_length]; exact h)]
  rfl

/-! ## declarative specification of entry intersection
(IFT specification, "Check entry intersection": a dimension the entry leaves empty matches
everything; otherwise it must share a member with the definition; then child entries:
conjunctive = all children match, otherwise at least one child matches) -/

/-- the three per-dimension conditions, stated over members of the sets -/
def SpecLocal (e d : SubsetDef) : Prop :=
  ((∀ c : Int, rMem c e.cps = false) ∨ ∃ c : Int, rMem c e.cps = true ∧ rMem c d.cps = true) ∧
  (match e.feats, d.feats with
   | .set s, .set o => s = [] ∨ ∃ t, t ∈ s ∧ t ∈ o
   | .set _, .all => True
   | .all, .set o => o ≠ []
   | .all, .all => True) ∧
  (match e.ds, d.ds with
   | .ranges er, .ranges o =>
     er = [] ∨ ∃ p, p ∈ er ∧ ∃ rb, axLookup p.1 o = some rb ∧
       ∃ x : Int, rMem x p.2 = true ∧ rMem x rb = true
   | .ranges _, .all => True
   | .all, .ranges o => o ≠ []
   | .all, .all => True)

theorem localIntersects_iff_spec (e d : SubsetDef) : localIntersects e d = true ↔ SpecLocal e d := by
  rw [localIntersects_eq]
  simp only [Bool.and_eq_true, SpecLocal]
  refine and_congr ?_ (and_congr ?_ ?_)
  · simp only [cpOk, Bool.or_eq_true, rIsEmpty_iff, rIntersects_iff]
  · unfold ftOk
    cases e.feats <;> cases d.feats <;> simp [FeatureSet.len, List.any_eq_true]
    next o => cases o <;> simp
  · unfold dsOk
    cases e.ds <;> cases d.ds <;> simp [DesignSpace.isEmpty]
    next er o =>
      simp only [designSpaceIntersects, List.any_eq_true]
      apply or_congr Iff.rfl
      constructor
      · rintro ⟨p, hp, hm⟩
        refine ⟨p.1, p.2, hp, ?_⟩
        cases hl : axLookup p.1 o with
        | none => simp [hl] at hm
        | some rb =>
          simp only [hl] at hm
          exact ⟨rb, rfl, (rIntersects_iff _ _).1 hm⟩
      · rintro ⟨a, b, hp, rb, hl, hx⟩
        refine ⟨(a, b), hp, ?_⟩
        simp only [hl]
        exact (rIntersects_iff _ _).2 hx

/-- the entry at index `i` matches the definition `d` (declarative; least relation closed under
the three rules) -/
inductive SpecMatch (es : List Entry) (d : SubsetDef) : Nat → Prop
  | leaf {i : Nat} {e : Entry} : es[i]? = some e → SpecLocal e.sd d → e.children = [] →
      SpecMatch es d i
  | conj {i : Nat} {e : Entry} : es[i]? = some e → SpecLocal e.sd d → e.conj = true →
      (∀ c, c ∈ e.children → SpecMatch es d c) → SpecMatch es d i
  | disj {i : Nat} {e : Entry} (c : Nat) : es[i]? = some e → SpecLocal e.sd d → e.conj = false →
      c ∈ e.children → SpecMatch es d c → SpecMatch es d i

theorem evalAll_of_spec (es : List Entry) (d : SubsetDef) (wf : WF es) (i : Nat)
    (h : SpecMatch es d i) : (evalAll es d).getD i false = true := by
  induction h with
  | @leaf i e he hl hc =>
    obtain ⟨hi, rfl⟩ := List.getElem?_eq_some_iff.1 he
    rw [evalAll_fix es d wf i hi, (localIntersects_iff_spec _ _).2 hl]
    simp [childrenOk, hc]
  | @conj i e he hl hc _ ih =>
    obtain ⟨hi, rfl⟩ := List.getElem?_eq_some_iff.1 he
    rw [evalAll_fix es d wf i hi, (localIntersects_iff_spec _ _).2 hl]
    simp only [childrenOk, hc, Bool.true_and]
    split
    · rfl
    · simpa [List.all_eq_true] using ih
  | @disj i e c he hl hc hmem _ ih =>
    obtain ⟨hi, rfl⟩ := List.getElem?_eq_some_iff.1 he
    rw [evalAll_fix es d wf i hi, (localIntersects_iff_spec _ _).2 hl]
    simp only [childrenOk, hc, Bool.true_and]
    split
    · rfl
    · simp only [Bool.false_eq_true, ↓reduceIte, List.any_eq_true]
      exact ⟨c, hmem, ih⟩

theorem spec_of_evalAll (es : List Entry) (d : SubsetDef) (wf : WF es) :
    ∀ i, (evalAll es d).getD i false = true → SpecMatch es d i := by
  intro i
  induction i using Nat.strongRecOn with
  | _ i ih =>
    intro h
    by_cases hi : i < es.length
    · rw [evalAll_fix es d wf i hi, Bool.and_eq_true] at h
      obtain ⟨hl, hc⟩ := h
      have hl' := (localIntersects_iff_spec _ _).1 hl
      have he : es[i]? = some es[i] := List.getElem?_eq_getElem hi
      unfold childrenOk at hc
      split at hc
      · next hemp =>
        exact .leaf he hl' (by simpa using hemp)
      · split at hc
        · next hcj =>
          rw [List.all_eq_true] at hc
          exact .conj he hl' hcj (fun c hmem => ih c (wf i hi c hmem) (hc c hmem))
        · next hcj =>
          rw [List.any_eq_true] at hc
          obtain ⟨c, hmem, hv⟩ := hc
          exact .disj c he hl' (by simpa using hcj) hmem (ih c (wf i hi c hmem) hv)
    · rw [evalAll_oob es d i (by omega)] at h
      exact absurd h (by simp)

/-- the cache computes exactly the declarative relation -/
theorem evalAll_iff_spec (es : List Entry) (d : SubsetDef) (wf : WF es) (i : Nat) :
    (evalAll es d).getD i false = true ↔ SpecMatch es d i :=
  ⟨spec_of_evalAll es d wf i, evalAll_of_spec es d wf i⟩

theorem mem_offeredIdx (es : List Entry) (d : SubsetDef) (i : Nat) :
    i ∈ offeredIdx es d ↔
      i < es.length ∧ (es.getD i default).ignored = false ∧ (evalAll es d).getD i false = true := by
  simp [offeredIdx, List.mem_filter, List.mem_range]

/-! ## what `decode_format2_entries` guarantees -/

theorem decodeEntry_entries {tag : TableTag} {t : F2Table} {enc : PatchFormat} {st st' : DecodeState}
    {raw : RawEntry} (h : decodeEntry tag t enc st raw = .ok st') :
    ∃ e : Entry, st'.entries = st.entries ++ [e] ∧ (∀ c, c ∈ e.children → c < st.entries.length) ∧
      e.uri.table = tag ∧ e.uri.compat = t.compat ∧ e.ignored = raw.isIgnored := by
  unfold decodeEntry at h
  simp only [bind, Except.bind, pure, Except.pure, throw, throwThe, MonadExceptOf.throw] at h
  repeat' split at h
  all_goals first | (cases h; done) | skip
  all_goals (
    injection h with h; subst h
    refine ⟨_, rfl, ?_, rfl, rfl, rfl⟩
    intro c hc
    simp_all [List.any_eq_true])

theorem WF_snoc {es : List Entry} {e : Entry} (h : WF es)
    (he : ∀ c, c ∈ e.children → c < es.length) : WF (es ++ [e]) := by
  intro i hi c hc
  by_cases hlt : i < es.length
  · rw [List.getElem_append_left hlt] at hc
    exact h i hlt c hc
  · have : i = es.length := by simp at hi; omega
    subst this
    simp at hc
    exact he c hc

/-- provenance of decoded uris: table tag and compatibility id of the table they came from -/
def FromTable (tag : TableTag) (compat : Nat) (es : List Entry) : Prop :=
  ∀ e, e ∈ es → e.uri.table = tag ∧ e.uri.compat = compat

theorem decodeEntries_inv (tag : TableTag) (t : F2Table) (enc : PatchFormat) :
    ∀ (raws : List RawEntry) (st st' : DecodeState),
      decodeEntries tag t enc st raws = .ok st' →
      WF st.entries → FromTable tag t.compat st.entries →
      WF st'.entries ∧ FromTable tag t.compat st'.entries := by
  intro raws
  induction raws with
  | nil => intro st st' h; simp only [decodeEntries] at h; cases h; exact fun a b => ⟨a, b⟩
  | cons r rs ih =>
    intro st st' h hwf hfrom
    simp only [decodeEntries] at h
    split at h
    · cases h
    · next st1 h1 =>
      obtain ⟨e, he, hch, ht, hc, _⟩ := decodeEntry_entries h1
      apply ih st1 st' h
      · rw [he]; exact WF_snoc hwf hch
      · rw [he]
        intro x hx
        rw [List.mem_append, List.mem_singleton] at hx
        rcases hx with hx | rfl
        · exact hfrom x hx
        · exact ⟨ht, hc⟩

/-- **decoded format-2 entry lists are well formed**: children refer to prior entries only, and
every uri carries the table tag / compatibility id of its table -/
theorem decodeF2_inv {tag : TableTag} {t : F2Table} {es : List Entry} (h : decodeF2 tag t = .ok es) :
    WF es ∧ FromTable tag t.compat es := by
  unfold decodeF2 at h
  split at h
  · cases h
  · split at h
    · cases h
    · split at h
      · cases h
      · next st hst =>
        cases h
        exact decodeEntries_inv tag t _ t.raws _ st hst (fun i hi => by simp at hi)
          (fun e he => by simp at he)

end FontVerif.PatchMap
