/-
Error accumulation of the f32 tent scalar (Model/FloatDelta.lean `computeScalarF32`): values are
compared as natural numbers on the common scale `2^-300` (`V n q = n · 2^(q+300)`), one rounding
contributes at most `value / 2^24 + 2^150` (half an ulp, or half the subnormal spacing).
-/
import FontVerif.Lemmas.FloatDelta
set_option linter.unusedVariables false
namespace FontVerif.FloatDelta
open FontVerif FontVerif.Ieee

/-- the value `n · 2^q` in units of `2^-300`. -/
def V (n : Nat) (q : Int) : Nat := n * 2 ^ (q + 300).toNat

theorem V_zero (q : Int) : V 0 q = 0 := by simp [V]

theorem pow_split (x y : Int) (hx : 0 ≤ x) (hy : 0 ≤ y) :
    (2 : Nat) ^ (x + y).toNat = 2 ^ x.toNat * 2 ^ y.toNat := pow_toNat_add x y hx hy

/-- exponent of a rounded result: never below `emin` (unless the input already was exact). -/
theorem roundNE_exp_ge (f : Fmt) (neg : Bool) (a : Nat) (e : Int) (n : Nat) (q : Int) (ha : a ≠ 0)
    (h : roundNE f neg a e = .fin neg n q) : f.emin ≤ q := by
  unfold roundNE at h
  simp only [ha, if_false] at h
  generalize hq : (if e + (bitLen a : Int) - (f.p : Int) < f.emin then f.emin
    else e + (bitLen a : Int) - (f.p : Int)) = q0 at h
  have hq0 : f.emin ≤ q0 := by rw [← hq]; split <;> omega
  by_cases hqe : q0 ≤ e
  · simp only [hqe, if_true] at h
    split at h
    · cases h
    · cases h; omega
  · simp only [hqe, if_false] at h
    repeat' split at h
    all_goals first | (cases h; done) | (cases h; exact hq0)

/-- one f32 rounding on the `2^-300` scale: `|V(out) − V(in)| ≤ V(out) / 2^24 + 2^150`, stated as
`2^24 · |…| ≤ V(out) + 2^174`. -/
theorem round_err_V (a : Nat) (e : Int) (n : Nat) (q : Int) (ha : a ≠ 0) (he : -290 ≤ e)
    (h : roundNE f32 false a e = .fin false n q) :
    2 ^ 24 * V n q ≤ 2 ^ 24 * V a e + V n q + 2 ^ 174 ∧
    2 ^ 24 * V a e ≤ 2 ^ 24 * V n q + V n q + 2 ^ 174 := by
  obtain ⟨hexp, hcase⟩ := roundNE_half_ulp f32 (by decide) false a e n q ha h
  rcases hcase with ⟨hq, hn⟩ | ⟨hlt, hlo, hhi, hnorm⟩
  · subst hq; subst hn; omega
  · unfold V
    generalize hs : (q - e).toNat = s at *
    have hqe : q + 300 = (e + 300) + (s : Int) := by omega
    rw [hqe, pow_split _ _ (by omega) (by omega)]
    simp only [Int.toNat_natCast]
    generalize hE : 2 ^ (e + 300).toNat = E at *
    have hEpos : 0 < E := by rw [← hE]; exact two_pow_pos _
    generalize hS : 2 ^ s = S at *
    -- 2 n S ≤ 2 a + S ; 2 a ≤ 2 n S + S ; multiply by E
    have h1 := Nat.mul_le_mul_right E hlo
    have h2 := Nat.mul_le_mul_right E hhi
    rw [Nat.add_mul] at h1 h2
    have e1 : 2 * n * S * E = 2 * (n * (E * S)) := by
      simp only [Nat.mul_assoc, Nat.mul_left_comm, Nat.mul_comm]
    have e2 : 2 * a * E = 2 * (a * E) := by rw [Nat.mul_assoc]
    rw [e1, e2] at h1 h2
    -- half ulp S·E/2 ≤ n·E·S / 2^24 or the subnormal spacing
    have hulp : 2 ^ 23 * (S * E) ≤ n * (E * S) ∨ S * E ≤ 2 ^ 151 := by
      rcases hnorm with hn | hq
      · left
        have : n * (E * S) = n * (S * E) := by rw [Nat.mul_comm E S]
        rw [this]
        exact Nat.mul_le_mul_right _ hn
      · right
        have hq' : q = -149 := hq
        have : S * E = 2 ^ (q + 300).toNat := by
          rw [hqe, pow_split _ _ (by omega) (by omega), ← hE, ← hS]
          simp only [Int.toNat_natCast]
          rw [Nat.mul_comm]
        rw [this, hq']
        decide
    generalize n * (E * S) = VN at *
    generalize a * E = VA at *
    generalize S * E = SE at *
    have hp : (2 : Nat) ^ 24 = 2 * 2 ^ 23 := by decide
    have h174 : (2 : Nat) ^ 174 = 2 ^ 23 * 2 ^ 151 := by decide
    rcases hulp with hu | hu
    · constructor <;> omega
    · have : 2 ^ 23 * SE ≤ 2 ^ 23 * 2 ^ 151 := Nat.mul_le_mul_left _ hu
      constructor <;> omega

theorem div_exp_ge (f : Fmt) (hemin : f.emin ≤ 0) (x : Nat) (ex : Int) (b : Nat) (eb : Int) (n : Nat) (q : Int)
    (hx : x ≠ 0) (hb : b ≠ 0) (h : div f (.fin false x ex) (.fin false b eb) = .fin false n q) :
    f.emin ≤ q := by
  unfold div at h
  simp only [hb, hx, if_false] at h
  generalize hQ : (2 * (x * 2 ^ (f.p + 2 + bitLen b) / b) + if x * 2 ^ (f.p + 2 + bitLen b) % b = 0 then 0 else 1) = Qt at h
  by_cases h0 : Qt = 0
  · rw [h0] at h; simp [roundNE] at h; omega
  · exact roundNE_exp_ge f _ Qt _ n q h0 h

/-- `V` of a value that is at most one. -/
theorem V_le_one {n : Nat} {q : Int} (hq : -300 ≤ q) (h : dle n q 1 0) : V n q ≤ 2 ^ 300 := by
  rw [dle_common (-300) hq (by decide)] at h
  unfold V
  have e1 : (q - -300).toNat = (q + 300).toNat := by rw [show q - -300 = q + 300 by omega]
  rw [e1] at h
  simpa using h

/-- `V` is monotone along `dle`. -/
theorem V_le_of_dle {n : Nat} {q : Int} {m : Nat} {e : Int} (hq : -300 ≤ q) (he : -300 ≤ e)
    (h : dle n q m e) : V n q ≤ V m e := by
  rw [dle_common (-300) hq he] at h
  unfold V
  have e1 : (q - -300).toNat = (q + 300).toNat := by rw [show q - -300 = q + 300 by omega]
  have e2 : (e - -300).toNat = (e + 300).toNat := by rw [show e - -300 = e + 300 by omega]
  rw [e1, e2] at h
  exact h



/-- `div_half_ulp` for f32 with the guard-bit count and the quotient exponent named. -/
theorem div_half_ulp_f32 (x : Nat) (ex : Int) (b : Nat) (eb : Int) (n : Nat) (q : Int) (k : Nat) (E : Int)
    (hk : k = 26 + bitLen b) (hE : E = ex - eb - (k : Int) - 1) (hx : x ≠ 0) (hb : b ≠ 0)
    (h : div f32 (.fin false x ex) (.fin false b eb) = .fin false n q) :
    E + 2 ≤ q ∧
    n * 2 ^ (q - E).toNat * b ≤ 2 * x * 2 ^ k + 2 ^ (q - E - 1).toNat * b ∧
    2 * x * 2 ^ k ≤ n * 2 ^ (q - E).toNat * b + 2 ^ (q - E - 1).toNat * b ∧
    (2 ^ 23 ≤ n ∨ q = -149) := by
  subst hk; subst hE
  exact div_half_ulp f32 (by decide) x ex b eb n q hx hb h

/-- the arithmetic at the end of `step_err`, with the large constants abstracted
(`U = 2^300`, `u = 2^174`). -/
theorem step_arith (VYb VX14 W Hb b U u : Nat) (hb : 1 ≤ b)
    (hX1 : 2 ^ 24 * VX14 ≤ 2 ^ 24 * W + VX14 + 2 ^ 14 * u)
    (hX2 : 2 ^ 24 * W ≤ 2 ^ 24 * VX14 + VX14 + 2 ^ 14 * u)
    (hY1 : VYb ≤ VX14 + Hb) (hY2 : VX14 ≤ VYb + Hb)
    (hH : 2 ^ 24 * Hb ≤ U * b + u * b) (h14 : VX14 ≤ U * b) :
    2 ^ 24 * VYb ≤ 2 ^ 24 * W + (2 * U + 2 ^ 15 * u) * b ∧
    2 ^ 24 * W ≤ 2 ^ 24 * VYb + (2 * U + 2 ^ 15 * u) * b := by
  have hub : u ≤ u * b := Nat.le_mul_of_pos_right _ hb
  have e : (2 * U + 2 ^ 15 * u) * b = 2 * (U * b) + 2 ^ 15 * (u * b) := by
    rw [Nat.add_mul, Nat.mul_assoc, Nat.mul_assoc]
  rw [e]
  generalize U * b = Ub at *
  generalize u * b = ub at *
  constructor <;> omega

/-- **one tent step on the `2^-300` scale**: `s' = ((s · A) / B)` with `A = a/2^14`, `B = b/2^14`
satisfies `|V(s') · b − V(s) · a| ≤ (2^277 + 2^165) · b`, i.e. `|s' − s · a/b| ≤ 2^-23 + 2^-135`. -/
theorem step_err (ns : Nat) (qs : Int) (mA : Nat) (eA : Int) (mB : Nat) (eB : Int)
    (hinv : ns = 0 ∨ -149 ≤ qs) (hunit : dle ns qs 1 0)
    (hmA : mA < 2 ^ 24) (heA1 : -14 ≤ eA) (heA2 : eA ≤ 16)
    (hmB : mB < 2 ^ 24) (heB1 : -14 ≤ eB) (heB2 : eB ≤ 16) (hmB0 : mB ≠ 0)
    (hab : mA * 2 ^ (eA + 14).toNat ≤ mB * 2 ^ (eB + 14).toNat) :
    ∃ nY qY, div f32 (mul f32 (.fin false ns qs) (.fin false mA eA)) (.fin false mB eB) = .fin false nY qY ∧
      (nY = 0 ∨ -149 ≤ qY) ∧ dle nY qY 1 0 ∧
      V nY qY * (mB * 2 ^ (eB + 14).toNat) ≤
        V ns qs * (mA * 2 ^ (eA + 14).toNat) + (2 ^ 277 + 2 ^ 165) * (mB * 2 ^ (eB + 14).toNat) ∧
      V ns qs * (mA * 2 ^ (eA + 14).toNat) ≤
        V nY qY * (mB * 2 ^ (eB + 14).toNat) + (2 ^ 277 + 2 ^ 165) * (mB * 2 ^ (eB + 14).toNat) := by
  generalize ha : mA * 2 ^ (eA + 14).toNat = a at *
  generalize hb : mB * 2 ^ (eB + 14).toNat = b at *
  have hbpos : 1 ≤ b := by
    rw [← hb]; exact Nat.mul_pos (Nat.pos_of_ne_zero hmB0) (two_pow_pos _)
  have hblA : bitLen mA ≤ 24 := bitLen_le_of_lt hmA
  have hAB : dle mA eA mB eB := by
    rw [dle_common (-14) heA1 heB1]
    have e1 : (eA - -14).toNat = (eA + 14).toNat := by rw [show eA - -14 = eA + 14 by omega]
    have e2 : (eB - -14).toNat = (eB + 14).toNat := by rw [show eB - -14 = eB + 14 by omega]
    rw [e1, e2, ha, hb]; exact hab
  obtain ⟨nX, qX, hmul, hdX⟩ := mul_unit_le f32 (by decide) ns qs mA eA hunit hmA
    (by show (-149 : Int) ≤ eA; omega) (by show eA + (bitLen mA : Int) ≤ 128; omega)
  rw [hmul]
  have hmulR : roundNE f32 false (ns * mA) (qs + eA) = .fin false nX qX := by
    simpa [mul] using hmul
  have hYu := div_le_one f32 (by decide) (by decide) (by decide) nX qX mB eB hmB0 (dle_trans hdX hAB)
  obtain ⟨nY, qY, hdiv, hdY⟩ := hYu
  refine ⟨nY, qY, hdiv, ?_⟩
  by_cases hprod : ns * mA = 0
  · -- zero product: everything is zero
    rw [hprod] at hmulR
    simp [roundNE] at hmulR
    obtain ⟨hnX, hqX⟩ := hmulR
    subst hnX
    have : div f32 (.fin false 0 qX) (.fin false mB eB) = .fin false 0 0 := by simp [div, hmB0]
    rw [this] at hdiv
    cases hdiv
    refine ⟨Or.inl rfl, hdY, ?_, ?_⟩
    · simp [V_zero]
    · rcases Nat.mul_eq_zero.mp hprod with h | h
      · subst h; simp [V_zero]
      · have : a = 0 := by rw [← ha, h]; simp
        rw [this]; simp
  · have hns : ns ≠ 0 := fun h => hprod (by rw [h]; simp)
    have hqs : -149 ≤ qs := by rcases hinv with h | h; exact absurd h hns; exact h
    have hqX : -149 ≤ qX := roundNE_exp_ge f32 false _ _ nX qX hprod hmulR
    obtain ⟨hX1, hX2⟩ := round_err_V (ns * mA) (qs + eA) nX qX hprod (by omega) hmulR
    -- V(in) · 2^14 = V(s) · a
    have hVin : V (ns * mA) (qs + eA) * 2 ^ 14 = V ns qs * a := by
      unfold V
      rw [← ha]
      have e1 : qs + eA + 300 = (qs + 300) + eA := by omega
      have : (2 : Nat) ^ (qs + eA + 300).toNat * 2 ^ 14 = 2 ^ (qs + 300).toNat * 2 ^ (eA + 14).toNat := by
        rw [← Nat.pow_add, ← Nat.pow_add]; congr 1; omega
      calc ns * mA * 2 ^ (qs + eA + 300).toNat * 2 ^ 14
          = ns * mA * (2 ^ (qs + eA + 300).toNat * 2 ^ 14) := by rw [Nat.mul_assoc]
        _ = ns * mA * (2 ^ (qs + 300).toNat * 2 ^ (eA + 14).toNat) := by rw [this]
        _ = ns * 2 ^ (qs + 300).toNat * (mA * 2 ^ (eA + 14).toNat) := by
            simp only [Nat.mul_assoc, Nat.mul_left_comm, Nat.mul_comm]
    -- V(X) ≤ a · 2^286
    have hVX : V nX qX ≤ a * 2 ^ 286 := by
      have h1 := V_le_of_dle (by omega) (by omega) hdX
      have : V mA eA = a * 2 ^ 286 := by
        unfold V; rw [← ha]
        have : (2 : Nat) ^ (eA + 300).toNat = 2 ^ (eA + 14).toNat * 2 ^ 286 := by
          rw [← Nat.pow_add]; congr 1; omega
        rw [this, Nat.mul_assoc]
      omega
    by_cases hnX : nX = 0
    · subst hnX
      have : div f32 (.fin false 0 qX) (.fin false mB eB) = .fin false 0 0 := by simp [div, hmB0]
      rw [this] at hdiv
      cases hdiv
      refine ⟨Or.inl rfl, hdY, by simp [V_zero], ?_⟩
      simp only [V_zero, Nat.zero_mul, Nat.zero_add, Nat.mul_zero] at hX2 ⊢
      rw [← hVin]
      have h1 : V (ns * mA) (qs + eA) ≤ 2 ^ 150 := by
        have : (2 : Nat) ^ 174 = 2 ^ 24 * 2 ^ 150 := by rfl
        rw [this] at hX2
        exact Nat.le_of_mul_le_mul_left hX2 (by decide)
      calc V (ns * mA) (qs + eA) * 2 ^ 14 ≤ 2 ^ 150 * 2 ^ 14 := Nat.mul_le_mul_right _ h1
        _ ≤ (2 ^ 277 + 2 ^ 165) * 1 := by decide
        _ ≤ (2 ^ 277 + 2 ^ 165) * b := Nat.mul_le_mul_left _ hbpos
    · have hqY : -149 ≤ qY := div_exp_ge f32 (by decide) nX qX mB eB nY qY hnX hmB0 hdiv
      refine ⟨Or.inr hqY, hdY, ?_⟩
      have hblB : bitLen mB ≤ 24 := bitLen_le_of_lt hmB
      obtain ⟨k, hk⟩ : ∃ k, k = 26 + bitLen mB := ⟨_, rfl⟩
      obtain ⟨E, hEe⟩ : ∃ E, E = qX - eB - (k : Int) - 1 := ⟨_, rfl⟩
      obtain ⟨hE, hL1, hL2, hnorm⟩ := div_half_ulp_f32 nX qX mB eB nY qY k E hk hEe hnX hmB0 hdiv
      have hk50 : k ≤ 50 := by omega
      have hk26 : 26 ≤ k := by omega
      -- multiply the half-ulp inequalities by T = 2^t
      generalize ht : (qX - (k : Int) - 1 + 314).toNat = t
      have hVY : V nY qY * b = nY * 2 ^ (qY - E).toNat * mB * 2 ^ t := by
        unfold V; rw [← hb]
        have : (2 : Nat) ^ (qY + 300).toNat * 2 ^ (eB + 14).toNat = 2 ^ (qY - E).toNat * 2 ^ t := by
          rw [← Nat.pow_add, ← Nat.pow_add]; congr 1; omega
        calc nY * 2 ^ (qY + 300).toNat * (mB * 2 ^ (eB + 14).toNat)
            = nY * mB * (2 ^ (qY + 300).toNat * 2 ^ (eB + 14).toNat) := by
              simp only [Nat.mul_assoc, Nat.mul_left_comm, Nat.mul_comm]
          _ = nY * mB * (2 ^ (qY - E).toNat * 2 ^ t) := by rw [this]
          _ = nY * 2 ^ (qY - E).toNat * mB * 2 ^ t := by
              simp only [Nat.mul_assoc, Nat.mul_left_comm, Nat.mul_comm]
      have hVX2 : V nX qX * 2 ^ 14 = 2 * nX * 2 ^ k * 2 ^ t := by
        unfold V
        have : (2 : Nat) ^ (qX + 300).toNat * 2 ^ 14 = 2 * (2 ^ k * 2 ^ t) := by
          rw [← Nat.pow_add, ← Nat.pow_add, ← Nat.pow_succ']; congr 1; omega
        calc nX * 2 ^ (qX + 300).toNat * 2 ^ 14 = nX * (2 ^ (qX + 300).toNat * 2 ^ 14) := by rw [Nat.mul_assoc]
          _ = nX * (2 * (2 ^ k * 2 ^ t)) := by rw [this]
          _ = 2 * nX * 2 ^ k * 2 ^ t := by simp only [Nat.mul_assoc, Nat.mul_left_comm, Nat.mul_comm]
      have hHb : 2 ^ (qY + 299).toNat * b = 2 ^ (qY - E - 1).toNat * mB * 2 ^ t := by
        rw [← hb]
        have : (2 : Nat) ^ (qY + 299).toNat * 2 ^ (eB + 14).toNat = 2 ^ (qY - E - 1).toNat * 2 ^ t := by
          rw [← Nat.pow_add, ← Nat.pow_add]; congr 1; omega
        calc 2 ^ (qY + 299).toNat * (mB * 2 ^ (eB + 14).toNat)
            = mB * (2 ^ (qY + 299).toNat * 2 ^ (eB + 14).toNat) := by
              simp only [Nat.mul_assoc, Nat.mul_left_comm, Nat.mul_comm]
          _ = mB * (2 ^ (qY - E - 1).toNat * 2 ^ t) := by rw [this]
          _ = 2 ^ (qY - E - 1).toNat * mB * 2 ^ t := by
              simp only [Nat.mul_assoc, Nat.mul_left_comm, Nat.mul_comm]
      have hY1 := Nat.mul_le_mul_right (2 ^ t) hL1
      have hY2 := Nat.mul_le_mul_right (2 ^ t) hL2
      rw [Nat.add_mul, ← hVY, ← hVX2, ← hHb] at hY1 hY2
      -- the half ulp of Y
      have hVYle : V nY qY ≤ 2 ^ 300 := V_le_one (by omega) hdY
      have hH : 2 ^ 24 * 2 ^ (qY + 299).toNat ≤ 2 ^ 300 + 2 ^ 174 := by
        rcases hnorm with hn | hq
        · have hn' : 2 ^ 23 ≤ nY := hn
          have : 2 ^ 24 * 2 ^ (qY + 299).toNat = 2 ^ 23 * 2 ^ (qY + 300).toNat := by
            rw [← Nat.pow_add, ← Nat.pow_add]; congr 1; omega
          rw [this]
          have h2 : 2 ^ 23 * 2 ^ (qY + 300).toNat ≤ V nY qY := Nat.mul_le_mul_right _ hn'
          exact Nat.le_trans (Nat.le_trans h2 hVYle) (Nat.le_add_right _ _)
        · have hq' : qY = -149 := hq
          rw [hq']; decide
      have hHb2 : 2 ^ 24 * (2 ^ (qY + 299).toNat * b) ≤ 2 ^ 300 * b + 2 ^ 174 * b := by
        rw [← Nat.mul_assoc, ← Nat.add_mul]; exact Nat.mul_le_mul_right _ hH
      have h14 : V nX qX * 2 ^ 14 ≤ 2 ^ 300 * b := by
        calc V nX qX * 2 ^ 14 ≤ a * 2 ^ 286 * 2 ^ 14 := Nat.mul_le_mul_right _ hVX
          _ ≤ b * 2 ^ 286 * 2 ^ 14 := Nat.mul_le_mul_right _ (Nat.mul_le_mul_right _ hab)
          _ = 2 ^ 300 * b := by rw [Nat.mul_assoc, Nat.mul_comm]; rfl
      have hX1' := Nat.mul_le_mul_right (2 ^ 14) hX1
      have hX2' := Nat.mul_le_mul_right (2 ^ 14) hX2
      simp only [Nat.add_mul, Nat.mul_assoc] at hX1' hX2'
      have e2 : (2 : Nat) ^ 174 * 2 ^ 14 = 2 ^ 14 * 2 ^ 174 := Nat.mul_comm _ _
      rw [e2] at hX1' hX2'
      rw [← hVin]
      have hfin := step_arith (V nY qY * b) (V nX qX * 2 ^ 14) (V (ns * mA) (qs + eA) * 2 ^ 14)
        (2 ^ (qY + 299).toNat * b) b (2 ^ 300) (2 ^ 174) hbpos hX1' hX2' hY1 hY2 hHb2 h14
      have ec : (2 * 2 ^ 300 + 2 ^ 15 * 2 ^ 174) = 2 ^ 24 * (2 ^ 277 + 2 ^ 165) := by rfl
      rw [ec, Nat.mul_assoc] at hfin
      constructor
      · have h := hfin.1
        rw [← Nat.mul_add] at h
        exact Nat.le_of_mul_le_mul_left h (by decide)
      · have h := hfin.2
        rw [← Nat.mul_add] at h
        exact Nat.le_of_mul_le_mul_left h (by decide)

end FontVerif.FloatDelta
