/-
Lemmas for C17 — the COLRv1 half of the palette closure.  The traversal model is C01's `HandColr.dispatch` / `v1Roots` /
`v1ClosureOf` (Model/HandColr.lean: read-fonts closure.rs `Colrv1ClosureContext::dispatch` with the visited set on paint
positions and the nesting limit 64, tied to the real `Colr::v1_closure` by C01's `hc.clos` group and by C17's `colr-v1pal`
group).  Here: SOUNDNESS — every collected palette index belongs to a paint reachable from a retained colour glyph's root paint.
-/
import FontVerif.Model.HandColr
set_option linter.unusedVariables false
set_option linter.unusedSimpArgs false
namespace FontVerif.SubsetColrPalV1
open FontVerif FontVerif.HandColr FontVerif.Layout

/-- the palette indices a paint itself contributes (`PaintSolid` / `PaintVarSolid`, the colour stops of a gradient
whose colour line resolves) -/
def palOf : PNode → List Nat
  | .solid pal _ => [pal]
  | .gradient (some ss) _ => ss.map (·.1)
  | _ => []

/-- the paints `Paint::v1_closure` dispatches to from a paint (edges of the paint graph as the closure follows them) -/
def children (G : Graph) : PNode → List Nat
  | .layers num first =>
    if num = 0 then [] else
    match G.layerList with
    | none => []
    | some ll => (layerIndices first (min (first + (num - 1)) U32MAX)).filterMap (fun i => (ll[i]?).join)
  | .glyph _ child => child.toList
  | .colrGlyph gid =>
    match G.baseList with
    | none => []
    | some recs =>
      match binarySearchBy recs.length (fun i => natCmp (recs.getD i default).1 gid) with
      | .err _ => []
      | .ok ix =>
        match recs[ix]? with
        | some (_, some p) => [p]
        | _ => []
  | .unary child _ => child.toList
  | .composite s b => s.toList ++ b.toList
  | _ => []

/-- reachability in the paint graph (any sharing, any cycles) -/
inductive Reach (G : Graph) : Nat → Nat → Prop where
  | refl (a : Nat) : Reach G a a
  | tail {a b c : Nat} {n : PNode} : Reach G a b → G.node b = some n → c ∈ children G n → Reach G a c

/-- the root paints of the retained colour glyphs: `paint_record.paint(..)` of every BaseGlyphPaintRecord whose glyph is
in the glyph set -/
def rootsOf (G : Graph) (glyphSet : List Nat) : List Nat :=
  match G.baseList with
  | none => []
  | some recs => recs.filterMap (fun (r : Nat × Option Nat) => if glyphSet.contains r.1 then r.2 else none)

/-- `p` is the palette index of a paint reachable from one of the start paints `R` -/
def Good (G : Graph) (R : List Nat) (p : Nat) : Prop :=
  ∃ r ∈ R, ∃ pos n, Reach G r pos ∧ G.node pos = some n ∧ p ∈ palOf n

def PalOk (G : Graph) (R : List Nat) (c : Ctx) : Prop := ∀ p ∈ c.palettes, Good G R p
def InS (G : Graph) (R : List Nat) (pos : Nat) : Prop := ∃ r ∈ R, Reach G r pos

theorem addVars_pal (c : Ctx) (b n : Nat) : (c.addVars b n).palettes = c.palettes := by
  unfold Ctx.addVars; split <;> rfl

theorem addVarsOpt_pal (c : Ctx) (v : Option (Nat × Nat)) : (c.addVarsOpt v).palettes = c.palettes := by
  cases v with
  | none => rfl
  | some x => exact addVars_pal c x.1 x.2

theorem addStop_pal (c : Ctx) (s : Nat × Option Nat) : (c.addStop s).palettes = s.1 :: c.palettes := by
  unfold Ctx.addStop
  cases s.2 with
  | none => rfl
  | some b => simp only [addVars_pal]

theorem foldl_addStop_mem : ∀ (ss : List (Nat × Option Nat)) (c : Ctx) (p : Nat),
    p ∈ (ss.foldl Ctx.addStop c).palettes → p ∈ c.palettes ∨ p ∈ ss.map (·.1)
  | [], c, p, h => Or.inl h
  | s :: ss, c, p, h => by
    simp only [List.foldl_cons] at h
    rcases foldl_addStop_mem ss _ p h with h' | h'
    · rw [addStop_pal] at h'
      rcases List.mem_cons.mp h' with h'' | h''
      · exact Or.inr (by simp [h''])
      · exact Or.inl h''
    · exact Or.inr (by simp only [List.map_cons, List.mem_cons]; exact Or.inr h')

theorem dispatchAll_sound (G : Graph) (R : List Nat) (rec : Ctx → Nat → Ctx)
    (hrec : ∀ c q, PalOk G R c → InS G R q → PalOk G R (rec c q)) :
    ∀ (ps : List Nat) (c : Ctx), PalOk G R c → (∀ q ∈ ps, InS G R q) → PalOk G R (dispatchAll rec c ps)
  | [], c, hc, _ => hc
  | p :: ps, c, hc, hq => by
    simp only [dispatchAll]
    exact dispatchAll_sound G R rec hrec ps _ (hrec c p hc (hq p (List.mem_cons_self ..)))
      (fun q hq' => hq q (List.mem_cons_of_mem _ hq'))

theorem inS_child (G : Graph) (R : List Nat) (pos : Nat) (n : PNode) (q : Nat) (hpos : InS G R pos)
    (hn : G.node pos = some n) (hq : q ∈ children G n) : InS G R q := by
  obtain ⟨r, hr, hreach⟩ := hpos
  exact ⟨r, hr, Reach.tail hreach hn hq⟩

/-- one paint: whatever its `v1_closure` adds is its own palette indices or comes from dispatching to its children -/
theorem body_sound (G : Graph) (R : List Nat) (rec : Ctx → Nat → Ctx)
    (hrec : ∀ c q, PalOk G R c → InS G R q → PalOk G R (rec c q))
    (pos : Nat) (n : PNode) (hpos : InS G R pos) (hn : G.node pos = some n) (c : Ctx) (hc : PalOk G R c) :
    PalOk G R (body G rec c n) := by
  have hself : ∀ p ∈ palOf n, Good G R p := by
    intro p hp
    obtain ⟨r, hr, hreach⟩ := hpos
    exact ⟨r, hr, pos, n, hreach, hn, hp⟩
  have hch : ∀ q ∈ children G n, InS G R q := fun q hq => inS_child G R pos n q hpos hn hq
  cases n with
  | layers num first =>
    unfold body
    by_cases h0 : num = 0
    · simp only [h0, if_true]; exact hc
    · simp only [h0, if_false]
      cases hll : G.layerList with
      | none => exact hc
      | some ll =>
        simp only
        apply dispatchAll_sound G R rec hrec
        · exact hc
        · intro q hq
          apply hch
          simp only [children, h0, if_false, hll]
          exact hq
  | solid pal var =>
    unfold body
    have h1 : PalOk G R { c with palettes := pal :: c.palettes } := by
      intro p hp
      rcases List.mem_cons.mp hp with h | h
      · exact hself p (by simp [palOf, h])
      · exact hc p h
    cases var with
    | none => exact h1
    | some b => intro p hp; rw [addVars_pal] at hp; exact h1 p hp
  | gradient stops var =>
    unfold body
    intro p hp
    rw [addVarsOpt_pal] at hp
    cases stops with
    | none => exact hc p hp
    | some ss =>
      rcases foldl_addStop_mem ss c p hp with h | h
      · exact hc p h
      · exact hself p (by simpa [palOf] using h)
  | glyph gid child =>
    unfold body
    have h1 : PalOk G R { c with glyphs := gid :: c.glyphs } := hc
    cases child with
    | none => exact h1
    | some q => exact hrec _ q h1 (hch q (by simp [children]))
  | colrGlyph gid =>
    unfold body
    cases hb : G.baseList with
    | none => exact hc
    | some recs =>
      simp only
      cases hs : binarySearchBy recs.length (fun i => natCmp (recs.getD i default).1 gid) with
      | err _ => exact hc
      | ok ix =>
        simp only
        cases hr : recs[ix]? with
        | none => exact hc
        | some rp =>
          obtain ⟨g', op⟩ := rp
          cases op with
          | none => exact hc
          | some q =>
            simp only
            refine hrec _ q hc (hch q ?_)
            unfold children
            rw [hb]
            simp only
            rw [hs]
            simp only
            rw [hr]
            simp
  | unary child var =>
    unfold body
    cases child with
    | none => exact hc
    | some q =>
      intro p hp
      rw [addVarsOpt_pal] at hp
      exact hrec c q hc (hch q (by simp [children])) p hp
  | composite src backdrop =>
    cases src with
    | none =>
      cases backdrop with
      | none => simp only [body]; exact hc
      | some q => simp only [body]; exact hrec _ q hc (hch q (by simp [children]))
    | some q1 =>
      have h1 : PalOk G R (rec c q1) := hrec c q1 hc (hch q1 (by simp [children]))
      cases backdrop with
      | none => simp only [body]; exact h1
      | some q => simp only [body]; exact hrec _ q h1 (hch q (by simp [children]))

theorem dispatch_sound (G : Graph) (R : List Nat) : ∀ (fuel : Nat) (c : Ctx) (pos : Nat),
    PalOk G R c → InS G R pos → PalOk G R (dispatch G fuel c pos)
  | 0, c, pos, hc, _ => hc
  | fuel + 1, c, pos, hc, hpos => by
    unfold dispatch
    simp only
    cases hn : G.node pos with
    | none => exact hc
    | some n =>
      simp only
      split
      · exact hc
      · split
        · exact hc
        · have hb := body_sound G R (dispatch G fuel) (fun c q => dispatch_sound G R fuel c q) pos n hpos hn
            { c with calls := c.calls + 1, visited := pos % 4294967296 :: c.visited, level := c.level - 1 } hc
          split
          · exact hb
          · exact hb


theorem clipClosure_pal (c : Ctx) (s e : Nat) (b : Option (Option Nat)) : (clipClosure c s e b).palettes = c.palettes := by
  unfold clipClosure
  cases b with
  | none => rfl
  | some b' =>
    simp only
    split
    · cases b' with
      | none => rfl
      | some base => exact addVars_pal _ _ _
    · rfl

theorem v1Clips_pal : ∀ (cl : List (Nat × Nat × Option (Option Nat))) (c : Ctx), (v1Clips c cl).palettes = c.palettes
  | [], c => rfl
  | r :: rs, c => by
    simp only [v1Clips, List.foldl_cons]
    have := v1Clips_pal rs (clipClosure c r.1 r.2.1 r.2.2)
    simp only [v1Clips] at this
    rw [this, clipClosure_pal]

theorem v1Roots_sound (G : Graph) (gs : List Nat) : PalOk G (rootsOf G gs) (v1Roots G gs) := by
  unfold v1Roots
  cases hb : G.baseList with
  | none => intro p hp; cases hp
  | some recs =>
    simp only
    have hR : rootsOf G gs = recs.filterMap (fun (r : Nat × Option Nat) => if gs.contains r.1 then r.2 else none) := by
      unfold rootsOf; rw [hb]
    rw [← hR]
    apply dispatchAll_sound G (rootsOf G gs) (dispatch G 65) (fun c q => dispatch_sound G (rootsOf G gs) 65 c q)
    · intro p hp; cases hp
    · intro q hq; exact ⟨q, hq, Reach.refl q⟩

/-- the palette indices `Colr::v1_closure` collects (as a list; `IntSet<u16>` semantics are applied by `paletteSet`) -/
def v1Palettes (t : Colr) (glyphSet : List Nat) : List Nat := (v1ClosureOf t glyphSet).1.palettes

theorem v1Palettes_sound (t : Colr) (gs : List Nat) (p : Nat) (hp : p ∈ v1Palettes t gs) :
    Good (graphOf t) (rootsOf (graphOf t) gs) p := by
  unfold v1Palettes v1ClosureOf at hp
  split at hp
  · cases hp
  · unfold v1Closure at hp
    simp only at hp
    cases hc : clipsOf t with
    | none => rw [hc] at hp; exact v1Roots_sound _ gs p hp
    | some cl =>
      rw [hc] at hp
      simp only at hp
      rw [v1Clips_pal] at hp
      exact v1Roots_sound _ gs p hp

end FontVerif.SubsetColrPalV1
