/- helper lemmas for the IUP part of Props/C03Interp.lean -/
import FontVerif.Lemmas.VecEq
import FontVerif.Model.HintInterp
import FontVerif.Model.FtInterp
set_option linter.unusedVariables false
set_option linter.unusedSimpArgs false
namespace FontVerif.C03
open FontVerif FontVerif.Tt

/-- `mapM` of an everywhere-defined function is `map`. -/
theorem mapM_some_of_forall {α β : Type} (f : α → Option β) (g : α → β) :
    ∀ l : List α, (∀ x ∈ l, f x = some (g x)) → l.mapM f = some (l.map g) := by
  intro l
  induction l with
  | nil => intro _; rfl
  | cons a t ih =>
    intro h
    have ha := h a (List.mem_cons_self)
    have ht := ih (fun x hx => h x (List.mem_cons_of_mem a hx))
    simp only [List.mapM_cons, ha, ht, List.map_cons]
    rfl

theorem co_eq (ax : Bool) (v : Vec) : HintInterp.co ax v = FtInterp.co ax v := rfl
theorem setCo_eq (ax : Bool) (v : Vec) (c : Int) : HintInterp.setCo ax v c = FtInterp.setCo ax v c := rfl
theorem touched_eq (ax : Bool) (p : ZPt) : HintInterp.touched ax p = FtInterp.touched ax p := rfl
theorem orderRefs_eq (ax : Bool) (a b : ZPt) : HintInterp.orderRefs ax a b = FtInterp.orderRefs ax a b := rfl
theorem isTouched_eq (ax : Bool) (pts : List ZPt) (i : Nat) :
    HintInterp.isTouched ax pts i = FtInterp.isTouched ax pts i := rfl

/-- the scan for the first touched point is the same function on both sides. -/
theorem skipUntouched_eq (ax : Bool) (pts : List ZPt) : ∀ (fuel point endp : Nat),
    HintInterp.skipUntouched ax pts fuel point endp = FtInterp.skipUntouched ax pts fuel point endp := by
  intro fuel
  induction fuel with
  | zero => intro p e; rfl
  | succ n ih =>
    intro p e
    simp only [HintInterp.skipUntouched, FtInterp.skipUntouched, isTouched_eq, ih]

end FontVerif.C03
