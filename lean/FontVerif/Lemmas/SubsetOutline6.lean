/-
Lemmas for C17 drawn-outline preservation, part 6: fuel irrelevance of the component reader and the assembly for composite
glyphs (`composite_decodes_equal`).
-/
import FontVerif.Lemmas.SubsetOutline5
set_option linter.unusedVariables false
set_option linter.unusedSimpArgs false
namespace FontVerif.SubsetOutline
open FontVerif FontVerif.Subset

theorem tail_consumes (f : Nat) (cur r : List Nat) (v : Glyf.Anchor × Glyf.Transform)
    (h : tailRead f cur = some (v, r)) : r.length ≤ cur.length := by
  by_cases hs : cur.length < tailSz f
  · rw [tail_short f cur hs] at h; cases h
  · obtain ⟨v', hv'⟩ := tail_enough f cur (by omega)
    have := hv' (cur.drop (tailSz f))
    rw [List.take_append_drop, h] at this
    simp only [Option.some.injEq, Prod.mk.injEq] at this
    rw [this.2]; simp

theorem readComponent_consumes (cur cur' : List Nat) (c : Glyf.RComponent)
    (h : Glyf.readComponent cur = some (c, cur')) : cur'.length + 4 ≤ cur.length := by
  match cur, h with
  | [], h => simp [Glyf.readComponent, Glyf.readU16] at h
  | [a], h => simp [Glyf.readComponent, Glyf.readU16] at h
  | [a, b], h => simp [Glyf.readComponent, Glyf.readU16] at h
  | [a, b, c'], h => simp [Glyf.readComponent, Glyf.readU16] at h
  | a0 :: a1 :: a2 :: a3 :: A4, h =>
    rw [readComponent_cons] at h
    cases ht : tailRead ((a0 * 256 + a1) &&& Glyf.COMPOSITE_ALL) A4 with
    | none => rw [ht] at h; cases h
    | some p =>
      rw [ht] at h
      simp only [Option.map_some, Option.some.injEq, Prod.mk.injEq] at h
      have := tail_consumes _ _ _ _ (show tailRead _ A4 = some (p.1, p.2) from ht)
      rw [h.2] at this
      simp; omega

theorem readComponents_fuel : ∀ (F : Nat) (cur : List Nat), cur.length < 4 * F → ∀ k,
    Glyf.readComponents (F + k) cur = Glyf.readComponents F cur
  | 0, cur, h, _ => by omega
  | F + 1, cur, h, k => by
    have e : F + 1 + k = (F + k) + 1 := by omega
    rw [e]
    unfold Glyf.readComponents
    cases hr : Glyf.readComponent cur with
    | none => rfl
    | some p =>
      obtain ⟨c, cur'⟩ := p
      have := readComponent_consumes cur cur' c hr
      simp only
      rw [readComponents_fuel F cur' (by omega) k]

theorem gi16_congr (X Y : Bytes) (p : Nat) (hx : p + 2 ≤ X.length) (hy : p + 2 ≤ Y.length)
    (h0 : X.getD p 0 = Y.getD p 0) (h1 : X.getD (p + 1) 0 = Y.getD (p + 1) 0) : Glyf.i16At X p = Glyf.i16At Y p := by
  unfold Glyf.i16At Glyf.u16At
  simp only [hx, hy, if_true, h0, h1]

/-- **the rewritten composite glyph decodes to the same components** (see Props/C17Outline.lean) -/
theorem composite_decodes_equal (flags : Nat) (gmap : Nat → Option Nat) (d out : Bytes)
    (hs : ¬ u16At d 0 < 32768)
    (h : subsetGlyphBytes flags gmap d = .bytes out) (hne : out ≠ []) :
    ∃ v v', Glyf.readComposite d = some v ∧ Glyf.readComposite out = some v' ∧
      v'.xMin = v.xMin ∧ v'.yMin = v.yMin ∧ v'.xMax = v.xMax ∧ v'.yMax = v.yMax ∧
      mapComps flags gmap true v.components = some v'.components ∧
      (∀ j, j < 10 → out.getD j 0 = d.getD j 0) ∧ 10 ≤ out.length := by
  unfold subsetGlyphBytes at h
  split at h
  · cases h
  simp only [hs, if_false] at h
  split at h
  · cases h
  rename_i hl2 hl10
  simp only [GlyphRes.bytes.injEq] at h
  unfold subsetComposite at h
  simp only at h
  split at h
  · exact absurd h.symm hne
  rename_i full i whi hloop
  have hiend := compLoop_iend _ _ _ _ _ _ _ _ hloop
  obtain ⟨hfl, hbelow, _⟩ := compLoop_spec flags gmap d.length (d.length + 1) d 10 false _ (Nat.le_refl _) hloop
  simp only at hiend hfl hbelow
  -- the guard of the first round
  have hlen14 : 14 ≤ d.length := by
    unfold compLoop at hloop
    split at hloop
    · cases hloop
    · omega
  have hcut : ∃ cut, i ≤ cut ∧ out = full.take cut := by
    split at h
    · split at h
      · exact ⟨i, Nat.le_refl _, h.symm⟩
      · exact ⟨_, by omega, h.symm⟩
    · exact ⟨i, Nat.le_refl _, h.symm⟩
  obtain ⟨cut, hcut, hout⟩ := hcut
  have holen : out.length = min cut d.length := by rw [hout]; simp [hfl]
  have hget : ∀ j, j < 10 → out.getD j 0 = d.getD j 0 := by
    intro j hj
    rw [hout, getD_take _ _ _ (by omega), hbelow j hj]
  have hchain := compLoop_read flags gmap d.length ((d.drop 10).length + 1) (d.length + 1) d 10 false _ rfl (Nat.le_refl _) hloop cut hcut
  simp only [decide_true] at hchain
  rw [← hout] at hchain
  have hfuel : Glyf.readComponents ((d.drop 10).length + 1) (out.drop 10) =
      Glyf.readComponents ((out.drop 10).length + 1) (out.drop 10) := by
    have hk : (d.drop 10).length + 1 = ((out.drop 10).length + 1) + ((d.drop 10).length - (out.drop 10).length) := by
      simp only [List.length_drop]; omega
    rw [hk]
    exact readComponents_fuel _ _ (by omega) _
  rw [hfuel] at hchain
  have hvd : ∀ (x : Bytes), ¬ (x.length < 10) → Glyf.readComposite x = some
      { xMin := (Glyf.i16At x 2).getD 0, yMin := (Glyf.i16At x 4).getD 0,
        xMax := (Glyf.i16At x 6).getD 0, yMax := (Glyf.i16At x 8).getD 0,
        components := Glyf.readComponents ((x.drop 10).length + 1) (x.drop 10),
        count := (Glyf.countAndInstructions (x.drop 10)).1,
        instructions := (Glyf.countAndInstructions (x.drop 10)).2 } := by
    intro x hx
    unfold Glyf.readComposite
    simp only [hx, if_false]
  refine ⟨_, _, hvd d hl10, hvd out (by omega), ?_, ?_, ?_, ?_, hchain, hget, by omega⟩
  · simp only; rw [gi16_congr out d 2 (by omega) (by omega) (hget 2 (by omega)) (hget 3 (by omega))]
  · simp only; rw [gi16_congr out d 4 (by omega) (by omega) (hget 4 (by omega)) (hget 5 (by omega))]
  · simp only; rw [gi16_congr out d 6 (by omega) (by omega) (hget 6 (by omega)) (hget 7 (by omega))]
  · simp only; rw [gi16_congr out d 8 (by omega) (by omega) (hget 8 (by omega)) (hget 9 (by omega))]

end FontVerif.SubsetOutline
