/-
C18 — order / grouping independence of glyph-keyed patches that agree on shared gids.

Spec vocabulary:
  `Agree tag gps`  any two patches of `gps` that both list gid g for `tag` carry the same data for g
-/
import FontVerif.Lemmas.IftGlyph
set_option linter.unusedVariables false
namespace FontVerif.Ift

/-- patches agree on shared gids (for table `tag`) -/
def Agree (tag : Tag) (gps : List GlyphPatches) : Prop :=
  ∀ p ∈ gps, ∀ q ∈ gps, ∀ g d1 d2, (g, d1) ∈ patchData tag p → (g, d2) ∈ patchData tag q → d1 = d2

/-! ## first-wins lookup does not depend on the order when the patches agree -/

theorem lookup_perm_agree (l l' : List (Nat × Bytes)) (hp : l.Perm l')
    (ha : ∀ g d1 d2, (g, d1) ∈ l → (g, d2) ∈ l → d1 = d2) (g : Nat) : l.lookup g = l'.lookup g := by
  cases h : l.lookup g with
  | some d =>
    have hm := lookup_some_mem l g d h
    obtain ⟨d', hd'⟩ := lookup_isSome_of_mem l' g d (hp.mem_iff.mp hm)
    have hm' := hp.mem_iff.mpr (lookup_some_mem l' g d' hd')
    rw [hd', ha g d d' hm hm']
  | none =>
    cases h' : l'.lookup g with
    | none => rfl
    | some d' =>
      have hm' := hp.mem_iff.mpr (lookup_some_mem l' g d' h')
      obtain ⟨d, hd⟩ := lookup_isSome_of_mem l g d' hm'
      rw [h] at hd; cases hd

theorem agree_flat (tag : Tag) (gps : List GlyphPatches) (ha : Agree tag gps) :
    ∀ g d1 d2, (g, d1) ∈ gps.flatMap (patchData tag) → (g, d2) ∈ gps.flatMap (patchData tag) → d1 = d2 := by
  intro g d1 d2 h1 h2
  obtain ⟨p, hp, hp'⟩ := List.mem_flatMap.mp h1
  obtain ⟨q, hq, hq'⟩ := List.mem_flatMap.mp h2
  exact ha p hp q hq g d1 d2 hp' hq'

theorem firstWins_perm (tag : Tag) (gps gps' : List GlyphPatches) (hp : gps.Perm gps')
    (ha : Agree tag gps) (g : Nat) : firstWins tag gps g = firstWins tag gps' g :=
  lookup_perm_agree _ _ (List.Perm.flatMap_right _ hp) (agree_flat tag gps ha) g

theorem dedup_perm (tag : Tag) (gps gps' : List GlyphPatches) (hp : gps.Perm gps') (ha : Agree tag gps)
    (repl : List (Nat × Bytes)) (h : dedup tag gps = .ok repl) : dedup tag gps' = .ok repl := by
  obtain ⟨s, pr, l⟩ := dedup_spec tag gps repl h
  obtain ⟨repl', h'⟩ := dedupFrom_ok_of_readable tag gps' [] (fun gp hgp => pr gp (hp.mem_iff.mpr hgp))
  have h'' : dedup tag gps' = .ok repl' := h'
  obtain ⟨s', _, l'⟩ := dedup_spec tag gps' repl' h''
  rw [h'']
  congr 1
  apply sorted_lookup_ext _ _ s' s
  intro k
  rw [l k, l' k, firstWins_perm tag gps gps' hp ha k]

/-! ## applied bits commute -/

theorem setAppliedBit_length (d d' : Bytes) (b : Nat) (h : setAppliedBit d b = some d') : d'.length = d.length :=
  (setAppliedBit_spec d d' b h).1

theorem setAppliedBit_comm (d : Bytes) (b1 b2 : Nat) :
    (setAppliedBit d b1).bind (fun d' => setAppliedBit d' b2)
      = (setAppliedBit d b2).bind (fun d' => setAppliedBit d' b1) := by
  unfold setAppliedBit
  cases h1 : d[b1 / 8]? with
  | none =>
    cases h2 : d[b2 / 8]? with
    | none => rfl
    | some x2 =>
      simp only [Option.bind_none, Option.bind_some]
      have : (d.set (b2 / 8) (x2 ||| 1 <<< (b2 % 8)))[b1 / 8]? = none := by
        rw [List.getElem?_set]
        split
        · rename_i e; rw [e] at h2; rw [h1] at h2; cases h2
        · exact h1
      rw [this]
  | some x1 =>
    cases h2 : d[b2 / 8]? with
    | none =>
      simp only [Option.bind_none, Option.bind_some]
      have : (d.set (b1 / 8) (x1 ||| 1 <<< (b1 % 8)))[b2 / 8]? = none := by
        rw [List.getElem?_set]
        split
        · rename_i e; rw [e] at h1; rw [h1] at h2; cases h2
        · exact h2
      rw [this]
    | some x2 =>
      simp only [Option.bind_some]
      have hl1 := (List.getElem?_eq_some_iff.mp h1).1
      have hl2 := (List.getElem?_eq_some_iff.mp h2).1
      by_cases e : b1 / 8 = b2 / 8
      · have hx : x1 = x2 := by rw [e] at h1; rw [h1] at h2; exact Option.some.inj h2
        subst hx
        have g1 : (d.set (b1 / 8) (x1 ||| 1 <<< (b1 % 8)))[b2 / 8]? = some (x1 ||| 1 <<< (b1 % 8)) := by
          rw [List.getElem?_set, if_pos e, if_pos hl1]
        have g2 : (d.set (b2 / 8) (x1 ||| 1 <<< (b2 % 8)))[b1 / 8]? = some (x1 ||| 1 <<< (b2 % 8)) := by
          rw [List.getElem?_set, if_pos e.symm, if_pos hl2]
        rw [g1, g2]
        simp only
        rw [← e, List.set_set, List.set_set, Nat.or_assoc, Nat.or_assoc, Nat.or_comm (1 <<< (b1 % 8))]
      · have g1 : (d.set (b1 / 8) (x1 ||| 1 <<< (b1 % 8)))[b2 / 8]? = some x2 := by
          rw [List.getElem?_set, if_neg e]; exact h2
        have g2 : (d.set (b2 / 8) (x2 ||| 1 <<< (b2 % 8)))[b1 / 8]? = some x1 := by
          rw [List.getElem?_set, if_neg (Ne.symm e)]; exact h1
        rw [g1, g2]
        simp only
        rw [List.set_comm _ _ e]

/-- one iteration of the "mark applied" loop -/
def markStep (info : PatchInfo) (st : Option Bytes × Option Bytes) : Except PErr (Option Bytes × Option Bytes) :=
  match (if info.iftx then st.2 else st.1) with
  | none => .error .internalError
  | some d =>
    match setAppliedBit d info.bit with
    | none => .error .internalError
    | some d' => .ok (if info.iftx then (st.1, some d') else (some d', st.2))

def exBind {α β : Type} (r : Except PErr α) (f : α → Except PErr β) : Except PErr β :=
  match r with
  | .error e => .error e
  | .ok a => f a

theorem markApplied_cons (info : PatchInfo) (rest : List PatchInfo) (st : Option Bytes × Option Bytes) :
    markApplied (info :: rest) st = exBind (markStep info st) (markApplied rest) := by
  obtain ⟨i, x⟩ := st
  unfold markStep exBind
  rw [markApplied]
  simp only
  cases (if info.iftx then x else i) with
  | none => rfl
  | some d =>
    simp only
    cases setAppliedBit d info.bit <;> rfl

/-- on a mapping table `d`: every failure is the same error -/
def bitStep (d : Bytes) (b : Nat) : Except PErr Bytes :=
  match setAppliedBit d b with
  | none => .error .internalError
  | some d' => .ok d'

theorem bitStep_comm (d : Bytes) (b1 b2 : Nat) :
    exBind (bitStep d b1) (fun d' => bitStep d' b2) = exBind (bitStep d b2) (fun d' => bitStep d' b1) := by
  have hc := setAppliedBit_comm d b1 b2
  unfold bitStep exBind
  cases h1 : setAppliedBit d b1 with
  | none =>
    cases h2 : setAppliedBit d b2 with
    | none => rfl
    | some d2 =>
      rw [h1, h2] at hc; simp only [Option.bind_none, Option.bind_some] at hc
      simp only; rw [← hc]
  | some d1 =>
    cases h2 : setAppliedBit d b2 with
    | none =>
      rw [h1, h2] at hc; simp only [Option.bind_none, Option.bind_some] at hc
      simp only; rw [hc]
    | some d2 =>
      rw [h1, h2] at hc; simp only [Option.bind_some] at hc
      simp only; rw [hc]

theorem markStep_eq (info : PatchInfo) (i x : Option Bytes) :
    markStep info (i, x) =
      if info.iftx then
        (match x with
         | none => .error .internalError
         | some d => exBind (bitStep d info.bit) (fun d' => .ok (i, some d')))
      else
        (match i with
         | none => .error .internalError
         | some d => exBind (bitStep d info.bit) (fun d' => .ok (some d', x))) := by
  unfold markStep bitStep exBind
  cases info.iftx
  · simp only [Bool.false_eq_true, if_false]
    cases i with
    | none => rfl
    | some d => simp only; cases setAppliedBit d info.bit <;> rfl
  · simp only [if_true]
    cases x with
    | none => rfl
    | some d => simp only; cases setAppliedBit d info.bit <;> rfl

/-- every failure of the loop is the same error, so two iterations commute as functions -/
theorem markStep_comm (a b : PatchInfo) (st : Option Bytes × Option Bytes) :
    exBind (markStep a st) (markStep b) = exBind (markStep b st) (markStep a) := by
  obtain ⟨i, x⟩ := st
  rw [markStep_eq a, markStep_eq b]
  cases ha : a.iftx <;> cases hb : b.iftx <;> simp only [Bool.false_eq_true, if_false, if_true]
  · -- both IFT
    cases i with
    | none => rfl
    | some d =>
      simp only
      have hc := bitStep_comm d a.bit b.bit
      unfold exBind at hc ⊢
      cases h1 : bitStep d a.bit with
      | error e1 =>
        cases h2 : bitStep d b.bit with
        | error e2 =>
          simp only
          have : e1 = e2 := by
            unfold bitStep at h1 h2
            cases hh1 : setAppliedBit d a.bit <;> rw [hh1] at h1 <;> cases h1
            cases hh2 : setAppliedBit d b.bit <;> rw [hh2] at h2 <;> cases h2
            rfl
          rw [this]
        | ok d2 =>
          rw [h1, h2] at hc; simp only at hc ⊢
          rw [markStep_eq a, ha]; simp only [Bool.false_eq_true, if_false]
          unfold exBind; rw [← hc]
      | ok d1 =>
        cases h2 : bitStep d b.bit with
        | error e2 =>
          rw [h1, h2] at hc; simp only at hc ⊢
          rw [markStep_eq b, hb]; simp only [Bool.false_eq_true, if_false]
          unfold exBind; rw [hc]
        | ok d2 =>
          rw [h1, h2] at hc; simp only at hc ⊢
          rw [markStep_eq b, hb, markStep_eq a, ha]; simp only [Bool.false_eq_true, if_false]
          unfold exBind; rw [hc]
  · -- a IFT, b IFTX
    cases i with
    | none => cases x with
      | none => rfl
      | some dx =>
        simp only; unfold exBind
        cases h2 : bitStep dx b.bit with
        | error e =>
          simp only
          unfold bitStep at h2
          cases hh2 : setAppliedBit dx b.bit <;> rw [hh2] at h2 <;> cases h2
          rfl
        | ok d2 => simp only; rw [markStep_eq a, ha]; rfl
    | some d =>
      cases x with
      | none =>
        simp only; unfold exBind
        cases h1 : bitStep d a.bit with
        | error e =>
          simp only
          unfold bitStep at h1
          cases hh1 : setAppliedBit d a.bit <;> rw [hh1] at h1 <;> cases h1
          rfl
        | ok d1 => simp only; rw [markStep_eq b, hb]; rfl
      | some dx =>
        simp only; unfold exBind
        cases h1 : bitStep d a.bit with
        | error e1 =>
          cases h2 : bitStep dx b.bit with
          | error e2 =>
            simp only
            unfold bitStep at h1 h2
            cases hh1 : setAppliedBit d a.bit <;> rw [hh1] at h1 <;> cases h1
            cases hh2 : setAppliedBit dx b.bit <;> rw [hh2] at h2 <;> cases h2
            rfl
          | ok d2 =>
            simp only; rw [markStep_eq a, ha]; simp only [Bool.false_eq_true, if_false]
            unfold exBind; rw [h1]
        | ok d1 =>
          simp only; rw [markStep_eq b, hb]; simp only [if_true]
          unfold exBind
          cases h2 : bitStep dx b.bit with
          | error e2 => rfl
          | ok d2 =>
            simp only; rw [markStep_eq a, ha]; simp only [Bool.false_eq_true, if_false]
            unfold exBind; rw [h1]
  · -- a IFTX, b IFT
    cases i with
    | none => cases x with
      | none => rfl
      | some dx =>
        simp only; unfold exBind
        cases h1 : bitStep dx a.bit with
        | error e =>
          simp only
          unfold bitStep at h1
          cases hh1 : setAppliedBit dx a.bit <;> rw [hh1] at h1 <;> cases h1
          rfl
        | ok d1 => simp only; rw [markStep_eq b, hb]; rfl
    | some d =>
      cases x with
      | none =>
        simp only; unfold exBind
        cases h2 : bitStep d b.bit with
        | error e =>
          simp only
          unfold bitStep at h2
          cases hh2 : setAppliedBit d b.bit <;> rw [hh2] at h2 <;> cases h2
          rfl
        | ok d2 => simp only; rw [markStep_eq a, ha]; rfl
      | some dx =>
        simp only; unfold exBind
        cases h1 : bitStep dx a.bit with
        | error e1 =>
          cases h2 : bitStep d b.bit with
          | error e2 =>
            simp only
            unfold bitStep at h1 h2
            cases hh1 : setAppliedBit dx a.bit <;> rw [hh1] at h1 <;> cases h1
            cases hh2 : setAppliedBit d b.bit <;> rw [hh2] at h2 <;> cases h2
            rfl
          | ok d2 =>
            simp only; rw [markStep_eq a, ha]; simp only [if_true]
            unfold exBind; rw [h1]
        | ok d1 =>
          simp only; rw [markStep_eq b, hb]; simp only [Bool.false_eq_true, if_false]
          unfold exBind
          cases h2 : bitStep d b.bit with
          | error e2 => rfl
          | ok d2 =>
            simp only; rw [markStep_eq a, ha]; simp only [if_true]
            unfold exBind; rw [h1]
  · -- both IFTX
    cases x with
    | none => rfl
    | some d =>
      simp only
      have hc := bitStep_comm d a.bit b.bit
      unfold exBind at hc ⊢
      cases h1 : bitStep d a.bit with
      | error e1 =>
        cases h2 : bitStep d b.bit with
        | error e2 =>
          simp only
          have : e1 = e2 := by
            unfold bitStep at h1 h2
            cases hh1 : setAppliedBit d a.bit <;> rw [hh1] at h1 <;> cases h1
            cases hh2 : setAppliedBit d b.bit <;> rw [hh2] at h2 <;> cases h2
            rfl
          rw [this]
        | ok d2 =>
          rw [h1, h2] at hc; simp only at hc ⊢
          rw [markStep_eq a, ha]; simp only [if_true]
          unfold exBind; rw [← hc]
      | ok d1 =>
        cases h2 : bitStep d b.bit with
        | error e2 =>
          rw [h1, h2] at hc; simp only at hc ⊢
          rw [markStep_eq b, hb]; simp only [if_true]
          unfold exBind; rw [hc]
        | ok d2 =>
          rw [h1, h2] at hc; simp only at hc ⊢
          rw [markStep_eq b, hb, markStep_eq a, ha]; simp only [if_true]
          unfold exBind; rw [hc]

theorem markApplied_perm (infos infos' : List PatchInfo) (hp : infos.Perm infos') :
    ∀ st, markApplied infos st = markApplied infos' st := by
  induction hp with
  | nil => intro st; rfl
  | cons x _ ih =>
    intro st
    rw [markApplied_cons, markApplied_cons]
    unfold exBind
    cases markStep x st with
    | error e => rfl
    | ok st' => exact ih st'
  | swap x y l =>
    intro st
    rw [markApplied_cons, markApplied_cons]
    have hc := markStep_comm y x st
    have e1 : exBind (markStep y st) (markApplied (x :: l)) = exBind (exBind (markStep y st) (markStep x)) (markApplied l) := by
      unfold exBind
      cases markStep y st with
      | error e => rfl
      | ok st1 => simp only; rw [markApplied_cons]; rfl
    have e2 : exBind (markStep x st) (markApplied (y :: l)) = exBind (exBind (markStep x st) (markStep y)) (markApplied l) := by
      unfold exBind
      cases markStep x st with
      | error e => rfl
      | ok st1 => simp only; rw [markApplied_cons]; rfl
    rw [e1, e2, hc]
  | trans _ _ ih1 ih2 => intro st; rw [ih1 st, ih2 st]

theorem markApplied_append (l1 l2 : List PatchInfo) (st : Option Bytes × Option Bytes) :
    markApplied (l1 ++ l2) st = exBind (markApplied l1 st) (markApplied l2) := by
  induction l1 generalizing st with
  | nil => obtain ⟨i, x⟩ := st; simp [markApplied, exBind]
  | cons a rest ih =>
    rw [List.cons_append, markApplied_cons, markApplied_cons]
    unfold exBind
    cases markStep a st with
    | error e => rfl
    | ok st' => simp only; rw [ih st']; rfl

/-! ## the whole application is a function of (tag set, dedup results, applied bits) -/

/-- agreement on shared gids for each of the four patchable tables (glyf, gvar, CFF, CFF2) -/
def AgreeAll (gps : List GlyphPatches) : Prop := ∀ tag, IsArmTag tag → Agree tag gps

/-- an arm looks at the patches only through `dedup_gid_replacement_data` for its own tag -/
theorem armOf_congr_dedup (font : Font) (gps gps' : List GlyphPatches) (m : Nat) (tag : Tag)
    (h : dedup tag gps = dedup tag gps') : armOf font gps m tag = armOf font gps' m tag := by
  unfold armOf
  by_cases h1 : tag = TAG_glyf
  · subst h1
    simp only [if_true]
    unfold glyfArm
    rw [h]
  · rw [if_neg h1, if_neg h1]
    by_cases h2 : tag = TAG_gvar
    · subst h2
      simp only [if_true]
      unfold gvarPatch
      rw [h]
    · rw [if_neg h2, if_neg h2]
      by_cases h3 : tag = TAG_CFF
      · subst h3
        simp only [if_true]
        unfold cffPatch
        rw [show cffTag false = TAG_CFF from rfl, h]
      · rw [if_neg h3, if_neg h3]
        by_cases h4 : tag = TAG_CFF2
        · subst h4
          simp only [if_true]
          unfold cffPatch
          rw [show cffTag true = TAG_CFF2 from rfl, h]
        · rw [if_neg h4, if_neg h4]

theorem oneTable_ok' (tag : Tag) (r : Except PErr Bytes) (outs : List (Tag × Bytes))
    (h : oneTable tag r = .ok outs) : ∃ b, r = .ok b := by
  obtain ⟨b, e, _⟩ := oneTable_ok tag r outs h
  exact ⟨b, e⟩

theorem gvarPatch_dedup_ok (g : Option Bytes) (gps : List GlyphPatches) (m : Nat) (out : Bytes)
    (h : gvarPatch g gps m = .ok out) : ∃ repl, dedup TAG_gvar gps = .ok repl := by
  unfold gvarPatch at h
  split at h
  · cases h
  · cases hd : dedup TAG_gvar gps with
    | error e => rw [hd] at h; cases h
    | ok repl => exact ⟨repl, rfl⟩

theorem cffPatch_dedup_ok (v2 : Bool) (ift table : Option Bytes) (gps : List GlyphPatches) (m : Nat)
    (out : Bytes) (h : cffPatch v2 ift table gps m = .ok out) : ∃ repl, dedup (cffTag v2) gps = .ok repl := by
  unfold cffPatch at h
  split at h
  · cases h
  · split at h
    · cases h
    · split at h
      · cases h
      · cases hd : dedup (cffTag v2) gps with
        | error e => rw [hd] at h; cases h
        | ok repl => exact ⟨repl, rfl⟩

/-- a successful arm has read every patch that names its tag -/
theorem arm_ok_dedup (font : Font) (gps : List GlyphPatches) (m : Nat) (tag : Tag)
    (outs : List (Tag × Bytes)) (h : armOf font gps m tag = some (.ok outs)) :
    ∃ repl, dedup tag gps = .ok repl := by
  unfold armOf at h
  by_cases h1 : tag = TAG_glyf
  · subst h1
    simp only [if_true, Option.some.injEq] at h
    obtain ⟨_, repl, _, _, _, hd, _⟩ := glyfArm_ok font gps m outs h
    exact ⟨repl, hd⟩
  · rw [if_neg h1] at h
    by_cases h2 : tag = TAG_gvar
    · subst h2
      simp only [if_true, Option.some.injEq] at h
      obtain ⟨b, hb⟩ := oneTable_ok' _ _ _ h
      exact gvarPatch_dedup_ok _ gps m b hb
    · rw [if_neg h2] at h
      by_cases h3 : tag = TAG_CFF
      · subst h3
        simp only [if_true, Option.some.injEq] at h
        obtain ⟨b, hb⟩ := oneTable_ok' _ _ _ h
        exact cffPatch_dedup_ok false _ _ gps m b hb
      · rw [if_neg h3] at h
        by_cases h4 : tag = TAG_CFF2
        · subst h4
          simp only [if_true, Option.some.injEq] at h
          obtain ⟨b, hb⟩ := oneTable_ok' _ _ _ h
          exact cffPatch_dedup_ok true _ _ gps m b hb
        · rw [if_neg h4] at h; cases h

theorem applyGlyphPatches_congr (infos infos' : List PatchInfo) (gps gps' : List GlyphPatches) (font : Font)
    (e1 : tableTagList gps = tableTagList gps')
    (e3 : markApplied infos (font.get TAG_IFT, font.get TAG_IFTX)
            = markApplied infos' (font.get TAG_IFT, font.get TAG_IFTX))
    (e2 : ∀ tags, tableTagList gps = .ok tags → ∀ tag ∈ tags, dedup tag gps = dedup tag gps') :
    applyGlyphPatches infos gps font = applyGlyphPatches infos' gps' font := by
  unfold applyGlyphPatches
  rw [← e1, ← e3]
  cases font.get TAG_maxp with
  | none => rfl
  | some maxp =>
    simp only
    split
    · rfl
    · cases ht : tableTagList gps with
      | error e => rfl
      | ok tags =>
        simp only
        rw [patchTables_congr font gps gps' _ tags _
          (fun tag htag => armOf_congr_dedup font gps gps' _ tag (e2 tags ht tag htag))]

/-- on success every arm selected by a listed tag succeeded -/
theorem applyGlyphPatches_arms_ok (infos : List PatchInfo) (gps : List GlyphPatches) (font out : Font)
    (h : applyGlyphPatches infos gps font = .ok out) (tags : List Tag)
    (ht : tableTagList gps = .ok tags) :
    ∀ tag ∈ tags, ∀ r, armOf font gps (numGlyphs font - 1) tag = some r → ∃ outs, r = .ok outs := by
  unfold applyGlyphPatches at h
  cases hm : font.get TAG_maxp with
  | none => rw [hm] at h; cases h
  | some maxp =>
    rw [hm] at h
    simp only at h
    have hng : numGlyphs font = beValue (sliceLen maxp 4 2) := by simp [numGlyphs, hm]
    split at h
    · cases h
    · rw [ht] at h
      simp only at h
      cases hp : patchTables font gps (beValue (sliceLen maxp 4 2) - 1) tags ([TAG_IFTX, TAG_IFT], []) with
      | error e => rw [hp] at h; cases h
      | ok pb =>
        obtain ⟨p, b⟩ := pb
        obtain ⟨s1, _, _⟩ := patchTables_spec font gps _ tags _ _ p b hp
        rw [hng]; exact s1

/-- on success every patch naming one of the four patchable tables was readable for that table -/
theorem applyGlyphPatches_dedup_ok (infos : List PatchInfo) (gps : List GlyphPatches) (font out : Font)
    (h : applyGlyphPatches infos gps font = .ok out) (tags : List Tag)
    (ht : tableTagList gps = .ok tags) (tag : Tag) (hg : tag ∈ tags) (harm : IsArmTag tag) :
    ∃ repl, dedup tag gps = .ok repl := by
  have hs := applyGlyphPatches_arms_ok infos gps font out h tags ht tag hg
  cases ha : armOf font gps (numGlyphs font - 1) tag with
  | none => exact absurd harm ((armOf_none_iff _ _ _ _).mp ha)
  | some r =>
    obtain ⟨outs, e⟩ := hs r ha
    subst e
    exact arm_ok_dedup font gps _ tag outs ha

/-- a tag that selects no arm contributes nothing: `dedup` for it is never consulted, so for the
congruence any equation will do — we use the trivial one obtained from the perm lemma when readable,
and otherwise fall back to the arm being `none` -/
theorem armOf_congr_ignored (font : Font) (gps gps' : List GlyphPatches) (m : Nat) (tag : Tag)
    (h : ¬ IsArmTag tag) : armOf font gps m tag = armOf font gps' m tag := by
  rw [(armOf_none_iff font gps m tag).mpr h, (armOf_none_iff font gps' m tag).mpr h]

/-- **order independence** at the level of `applyGlyphPatches`, any mix of tables -/
theorem applyGlyphPatches_perm (ps ps' : List (PatchInfo × GlyphPatches)) (font out : Font)
    (hperm : ps.Perm ps') (hagree : AgreeAll (ps.map (·.2)))
    (h : applyGlyphPatches (ps.map (·.1)) (ps.map (·.2)) font = .ok out) :
    applyGlyphPatches (ps'.map (·.1)) (ps'.map (·.2)) font = .ok out := by
  have hp1 := hperm.map (·.1)
  have hp2 := hperm.map (·.2)
  have e1 : tableTagList (ps.map (·.2)) = tableTagList (ps'.map (·.2)) := by
    rcases tableTagList_perm _ _ hp2 with ⟨e, a, b⟩ | ⟨t, a, b⟩ <;> rw [a, b]
  have e3 := markApplied_perm _ _ hp1 (font.get TAG_IFT, font.get TAG_IFTX)
  -- the congruence on arms, tag by tag
  have key : applyGlyphPatches (ps.map (·.1)) (ps.map (·.2)) font
      = applyGlyphPatches (ps'.map (·.1)) (ps'.map (·.2)) font := by
    unfold applyGlyphPatches
    rw [← e1, ← e3]
    cases font.get TAG_maxp with
    | none => rfl
    | some maxp =>
      simp only
      split
      · rfl
      · cases ht : tableTagList (ps.map (·.2)) with
        | error e => rfl
        | ok tags =>
          simp only
          rw [patchTables_congr font (ps.map (·.2)) (ps'.map (·.2)) _ tags _ ?_]
          intro tag htag
          by_cases harm : IsArmTag tag
          · obtain ⟨repl, hd⟩ := applyGlyphPatches_dedup_ok _ _ font out h tags ht tag htag harm
            exact armOf_congr_dedup font _ _ _ tag
              (by rw [hd, dedup_perm tag _ _ hp2 (hagree tag harm) repl hd])
          · exact armOf_congr_ignored font _ _ _ tag harm
  rw [← key]; exact h

/-! ## grouping: apply some patches, then the rest -/

theorem firstWins_append (tag : Tag) (g1 g2 : List GlyphPatches) (k : Nat) :
    firstWins tag (g1 ++ g2) k = (firstWins tag g1 k).or (firstWins tag g2 k) := by
  simp only [firstWins, List.flatMap_append, lookup_append]

theorem indexOfTag_none (tag : Tag) (tables : List Tag) (i : Nat) (h : tag ∉ tables) :
    indexOfTag tag tables i = none := by
  induction tables generalizing i with
  | nil => rfl
  | cons x xs ih =>
    simp only [List.mem_cons, not_or] at h
    simp only [indexOfTag, if_neg (Ne.symm h.1)]
    exact ih _ h.2

theorem firstWins_none_of_no_tag (tag : Tag) (gps : List GlyphPatches)
    (h : ¬ ∃ gp ∈ gps, tag ∈ gp.tables) (k : Nat) : firstWins tag gps k = none := by
  have : gps.flatMap (patchData tag) = [] := by
    rw [List.flatMap_eq_nil_iff]
    intro gp hgp
    have hn : tag ∉ gp.tables := fun hm => h ⟨gp, hgp, hm⟩
    simp [patchData, indexOfTag_none tag gp.tables 0 hn]
  simp [firstWins, this]

theorem glyfAndLoca_congr (font font' : Font) (h1 : font'.get TAG_glyf = font.get TAG_glyf)
    (h2 : font'.get TAG_head = font.get TAG_head) (h3 : font'.get TAG_loca = font.get TAG_loca) :
    glyfAndLoca font' = glyfAndLoca font := by
  unfold glyfAndLoca; rw [h1, h2, h3]

theorem numGlyphs_congr (font font' : Font) (h : font'.get TAG_maxp = font.get TAG_maxp) :
    numGlyphs font' = numGlyphs font := by
  unfold numGlyphs; rw [h]

theorem dedup_eq_of_lookup (tag : Tag) (g1 g2 : List GlyphPatches) (r1 r2 : List (Nat × Bytes))
    (h1 : dedup tag g1 = .ok r1) (h2 : dedup tag g2 = .ok r2)
    (h : ∀ k, firstWins tag g1 k = firstWins tag g2 k) : r1 = r2 := by
  obtain ⟨s1, _, l1⟩ := dedup_spec tag g1 r1 h1
  obtain ⟨s2, _, l2⟩ := dedup_spec tag g2 r2 h2
  exact sorted_lookup_ext _ _ s1 s2 (fun k => by rw [l1 k, l2 k, h k])

/-- glyph `g` after "first `repl1`, then `repl2` on the result" = glyph `g` after the merged list -/
theorem chunkFor_two_step (a A : OffsetArray) (t : OffsetType) (repl1 repl2 repl12 : List (Nat × Bytes))
    (m g : Nat) (hg : g < m + 1)
    (hAo : A.offsets = newOffsets (chunks a t repl1 m)) (hAd : A.data = (chunks a t repl1 m).flatten)
    (h12 : repl12.lookup g = (repl1.lookup g).or (repl2.lookup g))
    (hag : ∀ d1 d2, repl1.lookup g = some d1 → repl2.lookup g = some d2 → d1 = d2) :
    chunkFor A t repl2 g = chunkFor a t repl12 g := by
  have hcs1 : glyphAt A.offsets A.data g = chunkFor a t repl1 g := by
    rw [hAo, hAd, newOffsets_glyphAt _ g (by rw [chunks_length]; exact hg), chunks_getElem]
  unfold chunkFor at hcs1 ⊢
  rw [h12]
  cases hf1 : repl1.lookup g with
  | none =>
    rw [hf1] at hcs1
    cases hf2 : repl2.lookup g with
    | none => simp only [Option.or_none]; exact hcs1
    | some d2 => rfl
  | some d1 =>
    rw [hf1] at hcs1
    cases hf2 : repl2.lookup g with
    | none => simp only [Option.or_none]; exact hcs1
    | some d2 =>
      have := hag d1 d2 hf1 hf2
      subst this; rfl

end FontVerif.Ift
