/-
C18 — order / grouping independence of glyph-keyed patches that agree on shared gids.

Spec vocabulary:
  `Agree tag gps`  any two patches of `gps` that both list gid g for `tag` carry the same data for g
-/
import FontVerif.Lemmas.IftGlyph
set_option linter.unusedVariables false
namespace FontVerif.Ift

/-- patches agree on shared gids (for table `tag`) -/
def Agree (tag : Tag) (gps : List GlyphPatches) : Prop :=
  ∀ p ∈ gps, ∀ q ∈ gps, ∀ g d1 d2, (g, d1) ∈ patchData tag p → (g, d2) ∈ patchData tag q → d1 = d2

/-! ## first-wins lookup does not depend on the order when the patches agree -/

theorem lookup_perm_agree (l l' : List (Nat × Bytes)) (hp : l.Perm l')
    (ha : ∀ g d1 d2, (g, d1) ∈ l → (g, d2) ∈ l → d1 = d2) (g : Nat) : l.lookup g = l'.lookup g := by
  cases h : l.lookup g with
  | some d =>
    have hm := lookup_some_mem l g d h
    obtain ⟨d', hd'⟩ := lookup_isSome_of_mem l' g d (hp.mem_iff.mp hm)
    have hm' := hp.mem_iff.mpr (lookup_some_mem l' g d' hd')
    rw [hd', ha g d d' hm hm']
  | none =>
    cases h' : l'.lookup g with
    | none => rfl
    | some d' =>
      have hm' := hp.mem_iff.mpr (lookup_some_mem l' g d' h')
      obtain ⟨d, hd⟩ := lookup_isSome_of_mem l g d' hm'
      rw [h] at hd; cases hd

theorem agree_flat (tag : Tag) (gps : List GlyphPatches) (ha : Agree tag gps) :
    ∀ g d1 d2, (g, d1) ∈ gps.flatMap (patchData tag) → (g, d2) ∈ gps.flatMap (patchData tag) → d1 = d2 := by
  intro g d1 d2 h1 h2
  obtain ⟨p, hp, hp'⟩ := List.mem_flatMap.mp h1
  obtain ⟨q, hq, hq'⟩ := List.mem_flatMap.mp h2
  exact ha p hp q hq g d1 d2 hp' hq'

theorem firstWins_perm (tag : Tag) (gps gps' : List GlyphPatches) (hp : gps.Perm gps')
    (ha : Agree tag gps) (g : Nat) : firstWins tag gps g = firstWins tag gps' g :=
  lookup_perm_agree _ _ (List.Perm.flatMap_right _ hp) (agree_flat tag gps ha) g

theorem dedup_perm (tag : Tag) (gps gps' : List GlyphPatches) (hp : gps.Perm gps') (ha : Agree tag gps)
    (repl : List (Nat × Bytes)) (h : dedup tag gps = .ok repl) : dedup tag gps' = .ok repl := by
  obtain ⟨s, pr, l⟩ := dedup_spec tag gps repl h
  obtain ⟨repl', h'⟩ := dedupFrom_ok_of_readable tag gps' [] (fun gp hgp => pr gp (hp.mem_iff.mpr hgp))
  have h'' : dedup tag gps' = .ok repl' := h'
  obtain ⟨s', _, l'⟩ := dedup_spec tag gps' repl' h''
  rw [h'']
  congr 1
  apply sorted_lookup_ext _ _ s' s
  intro k
  rw [l k, l' k, firstWins_perm tag gps gps' hp ha k]

/-! ## applied bits commute -/

theorem setAppliedBit_length (d d' : Bytes) (b : Nat) (h : setAppliedBit d b = some d') : d'.length = d.length :=
  (setAppliedBit_spec d d' b h).1

theorem setAppliedBit_comm (d : Bytes) (b1 b2 : Nat) :
    (setAppliedBit d b1).bind (fun d' => setAppliedBit d' b2)
      = (setAppliedBit d b2).bind (fun d' => setAppliedBit d' b1) := by
  unfold setAppliedBit
  cases h1 : d[b1 / 8]? with
  | none =>
    cases h2 : d[b2 / 8]? with
    | none => rfl
    | some x2 =>
      simp only [Option.bind_none, Option.bind_some]
      have : (d.set (b2 / 8) (x2 ||| 1 <<< (b2 % 8)))[b1 / 8]? = none := by
        rw [List.getElem?_set]
        split
        · rename_i e; rw [e] at h2; rw [h1] at h2; cases h2
        · exact h1
      rw [this]
  | some x1 =>
    cases h2 : d[b2 / 8]? with
    | none =>
      simp only [Option.bind_none, Option.bind_some]
      have : (d.set (b1 / 8) (x1 ||| 1 <<< (b1 % 8)))[b2 / 8]? = none := by
        rw [List.getElem?_set]
        split
        · rename_i e; rw [e] at h1; rw [h1] at h2; cases h2
        · exact h2
      rw [this]
    | some x2 =>
      simp only [Option.bind_some]
      have hl1 := (List.getElem?_eq_some_iff.mp h1).1
      have hl2 := (List.getElem?_eq_some_iff.mp h2).1
      by_cases e : b1 / 8 = b2 / 8
      · have hx : x1 = x2 := by rw [e] at h1; rw [h1] at h2; exact Option.some.inj h2
        subst hx
        have g1 : (d.set (b1 / 8) (x1 ||| 1 <<< (b1 % 8)))[b2 / 8]? = some (x1 ||| 1 <<< (b1 % 8)) := by
          rw [List.getElem?_set, if_pos e, if_pos hl1]
        have g2 : (d.set (b2 / 8) (x1 ||| 1 <<< (b2 % 8)))[b1 / 8]? = some (x1 ||| 1 <<< (b2 % 8)) := by
          rw [List.getElem?_set, if_pos e.symm, if_pos hl2]
        rw [g1, g2]
        simp only
        rw [← e, List.set_set, List.set_set, Nat.or_assoc, Nat.or_assoc, Nat.or_comm (1 <<< (b1 % 8))]
      · have g1 : (d.set (b1 / 8) (x1 ||| 1 <<< (b1 % 8)))[b2 / 8]? = some x2 := by
          rw [List.getElem?_set, if_neg e]; exact h2
        have g2 : (d.set (b2 / 8) (x2 ||| 1 <<< (b2 % 8)))[b1 / 8]? = some x1 := by
          rw [List.getElem?_set, if_neg (Ne.symm e)]; exact h1
        rw [g1, g2]
        simp only
        rw [List.set_comm _ _ e]

/-- one iteration of the "mark applied" loop -/
def markStep (info : PatchInfo) (st : Option Bytes × Option Bytes) : Except PErr (Option Bytes × Option Bytes) :=
  match (if info.iftx then st.2 else st.1) with
  | none => .error .internalError
  | some d =>
    match setAppliedBit d info.bit with
    | none => .error .internalError
    | some d' => .ok (if info.iftx then (st.1, some d') else (some d', st.2))

def exBind {α β : Type} (r : Except PErr α) (f : α → Except PErr β) : Except PErr β :=
  match r with
  | .error e => .error e
  | .ok a => f a

theorem markApplied_cons (info : PatchInfo) (rest : List PatchInfo) (st : Option Bytes × Option Bytes) :
    markApplied (info :: rest) st = exBind (markStep info st) (markApplied rest) := by
  obtain ⟨i, x⟩ := st
  unfold markStep exBind
  rw [markApplied]
  simp only
  cases (if info.iftx then x else i) with
  | none => rfl
  | some d =>
    simp only
    cases setAppliedBit d info.bit <;> rfl

/-- on a mapping table `d`: every failure is the same error -/
def bitStep (d : Bytes) (b : Nat) : Except PErr Bytes :=
  match setAppliedBit d b with
  | none => .error .internalError
  | some d' => .ok d'

theorem bitStep_comm (d : Bytes) (b1 b2 : Nat) :
    exBind (bitStep d b1) (fun d' => bitStep d' b2) = exBind (bitStep d b2) (fun d' => bitStep d' b1) := by
  have hc := setAppliedBit_comm d b1 b2
  unfold bitStep exBind
  cases h1 : setAppliedBit d b1 with
  | none =>
    cases h2 : setAppliedBit d b2 with
    | none => rfl
    | some d2 =>
      rw [h1, h2] at hc; simp only [Option.bind_none, Option.bind_some] at hc
      simp only; rw [← hc]
  | some d1 =>
    cases h2 : setAppliedBit d b2 with
    | none =>
      rw [h1, h2] at hc; simp only [Option.bind_none, Option.bind_some] at hc
      simp only; rw [hc]
    | some d2 =>
      rw [h1, h2] at hc; simp only [Option.bind_some] at hc
      simp only; rw [hc]

theorem markStep_eq (info : PatchInfo) (i x : Option Bytes) :
    markStep info (i, x) =
      if info.iftx then
        (match x with
         | none => .error .internalError
         | some d => exBind (bitStep d info.bit) (fun d' => .ok (i, some d')))
      else
        (match i with
         | none => .error .internalError
         | some d => exBind (bitStep d info.bit) (fun d' => .ok (some d', x))) := by
  unfold markStep bitStep exBind
  cases info.iftx
  · simp only [Bool.false_eq_true, if_false]
    cases i with
    | none => rfl
    | some d => simp only; cases setAppliedBit d info.bit <;> rfl
  · simp only [if_true]
    cases x with
    | none => rfl
    | some d => simp only; cases setAppliedBit d info.bit <;> rfl

/-- every failure of the loop is the same error, so two iterations commute as functions -/
theorem markStep_comm (a b : PatchInfo) (st : Option Bytes × Option Bytes) :
    exBind (markStep a st) (markStep b) = exBind (markStep b st) (markStep a) := by
  obtain ⟨i, x⟩ := st
  rw [markStep_eq a, markStep_eq b]
  cases ha : a.iftx <;> cases hb : b.iftx <;> simp only [Bool.false_eq_true, if_false, if_true]
  · -- both IFT
    cases i with
    | none => rfl
    | some d =>
      simp only
      have hc := bitStep_comm d a.bit b.bit
      unfold exBind at hc ⊢
      cases h1 : bitStep d a.bit with
      | error e1 =>
        cases h2 : bitStep d b.bit with
        | error e2 =>
          simp only
          have : e1 = e2 := by
            unfold bitStep at h1 h2
            cases hh1 : setAppliedBit d a.bit <;> rw [hh1] at h1 <;> cases h1
            cases hh2 : setAppliedBit d b.bit <;> rw [hh2] at h2 <;> cases h2
            rfl
          rw [this]
        | ok d2 =>
          rw [h1, h2] at hc; simp only at hc ⊢
          rw [markStep_eq a, ha]; simp only [Bool.false_eq_true, if_false]
          unfold exBind; rw [← hc]
      | ok d1 =>
        cases h2 : bitStep d b.bit with
        | error e2 =>
          rw [h1, h2] at hc; simp only at hc ⊢
          rw [markStep_eq b, hb]; simp only [Bool.false_eq_true, if_false]
          unfold exBind; rw [hc]
        | ok d2 =>
          rw [h1, h2] at hc; simp only at hc ⊢
          rw [markStep_eq b, hb, markStep_eq a, ha]; simp only [Bool.false_eq_true, if_false]
          unfold exBind; rw [hc]
  · -- a IFT, b IFTX
    cases i with
    | none => cases x with
      | none => rfl
      | some dx =>
        simp only; unfold exBind
        cases h2 : bitStep dx b.bit with
        | error e =>
          simp only
          unfold bitStep at h2
          cases hh2 : setAppliedBit dx b.bit <;> rw [hh2] at h2 <;> cases h2
          rfl
        | ok d2 => simp only; rw [markStep_eq a, ha]; rfl
    | some d =>
      cases x with
      | none =>
        simp only; unfold exBind
        cases h1 : bitStep d a.bit with
        | error e =>
          simp only
          unfold bitStep at h1
          cases hh1 : setAppliedBit d a.bit <;> rw [hh1] at h1 <;> cases h1
          rfl
        | ok d1 => simp only; rw [markStep_eq b, hb]; rfl
      | some dx =>
        simp only; unfold exBind
        cases h1 : bitStep d a.bit with
        | error e1 =>
          cases h2 : bitStep dx b.bit with
          | error e2 =>
            simp only
            unfold bitStep at h1 h2
            cases hh1 : setAppliedBit d a.bit <;> rw [hh1] at h1 <;> cases h1
            cases hh2 : setAppliedBit dx b.bit <;> rw [hh2] at h2 <;> cases h2
            rfl
          | ok d2 =>
            simp only; rw [markStep_eq a, ha]; simp only [Bool.false_eq_true, if_false]
            unfold exBind; rw [h1]
        | ok d1 =>
          simp only; rw [markStep_eq b, hb]; simp only [if_true]
          unfold exBind
          cases h2 : bitStep dx b.bit with
          | error e2 => rfl
          | ok d2 =>
            simp only; rw [markStep_eq a, ha]; simp only [Bool.false_eq_true, if_false]
            unfold exBind; rw [h1]
  · -- a IFTX, b IFT
    cases i with
    | none => cases x with
      | none => rfl
      | some dx =>
        simp only; unfold exBind
        cases h1 : bitStep dx a.bit with
        | error e =>
          simp only
          unfold bitStep at h1
          cases hh1 : setAppliedBit dx a.bit <;> rw [hh1] at h1 <;> cases h1
          rfl
        | ok d1 => simp only; rw [markStep_eq b, hb]; rfl
    | some d =>
      cases x with
      | none =>
        simp only; unfold exBind
        cases h2 : bitStep d b.bit with
        | error e =>
          simp only
          unfold bitStep at h2
          cases hh2 : setAppliedBit d b.bit <;> rw [hh2] at h2 <;> cases h2
          rfl
        | ok d2 => simp only; rw [markStep_eq a, ha]; rfl
      | some dx =>
        simp only; unfold exBind
        cases h1 : bitStep dx a.bit with
        | error e1 =>
          cases h2 : bitStep d b.bit with
          | error e2 =>
            simp only
            unfold bitStep at h1 h2
            cases hh1 : setAppliedBit dx a.bit <;> rw [hh1] at h1 <;> cases h1
            cases hh2 : setAppliedBit d b.bit <;> rw [hh2] at h2 <;> cases h2
            rfl
          | ok d2 =>
            simp only; rw [markStep_eq a, ha]; simp only [if_true]
            unfold exBind; rw [h1]
        | ok d1 =>
          simp only; rw [markStep_eq b, hb]; simp only [Bool.false_eq_true, if_false]
          unfold exBind
          cases h2 : bitStep d b.bit with
          | error e2 => rfl
          | ok d2 =>
            simp only; rw [markStep_eq a, ha]; simp only [if_true]
            unfold exBind; rw [h1]
  · -- both IFTX
    cases x with
    | none => rfl
    | some d =>
      simp only
      have hc := bitStep_comm d a.bit b.bit
      unfold exBind at hc ⊢
      cases h1 : bitStep d a.bit with
      | error e1 =>
        cases h2 : bitStep d b.bit with
        | error e2 =>
          simp only
          have : e1 = e2 := by
            unfold bitStep at h1 h2
            cases hh1 : setAppliedBit d a.bit <;> rw [hh1] at h1 <;> cases h1
            cases hh2 : setAppliedBit d b.bit <;> rw [hh2] at h2 <;> cases h2
            rfl
          rw [this]
        | ok d2 =>
          rw [h1, h2] at hc; simp only at hc ⊢
          rw [markStep_eq a, ha]; simp only [if_true]
          unfold exBind; rw [← hc]
      | ok d1 =>
        cases h2 : bitStep d b.bit with
        | error e2 =>
          rw [h1, h2] at hc; simp only at hc ⊢
          rw [markStep_eq b, hb]; simp only [if_true]
          unfold exBind; rw [hc]
        | ok d2 =>
          rw [h1, h2] at hc; simp only at hc ⊢
          rw [markStep_eq b, hb, markStep_eq a, ha]; simp only [if_true]
          unfold exBind; rw [hc]

theorem markApplied_perm (infos infos' : List PatchInfo) (hp : infos.Perm infos') :
    ∀ st, markApplied infos st = markApplied infos' st := by
  induction hp with
  | nil => intro st; rfl
  | cons x _ ih =>
    intro st
    rw [markApplied_cons, markApplied_cons]
    unfold exBind
    cases markStep x st with
    | error e => rfl
    | ok st' => exact ih st'
  | swap x y l =>
    intro st
    rw [markApplied_cons, markApplied_cons]
    have hc := markStep_comm y x st
    have e1 : exBind (markStep y st) (markApplied (x :: l)) = exBind (exBind (markStep y st) (markStep x)) (markApplied l) := by
      unfold exBind
      cases markStep y st with
      | error e => rfl
      | ok st1 => simp only; rw [markApplied_cons]; rfl
    have e2 : exBind (markStep x st) (markApplied (y :: l)) = exBind (exBind (markStep x st) (markStep y)) (markApplied l) := by
      unfold exBind
      cases markStep x st with
      | error e => rfl
      | ok st1 => simp only; rw [markApplied_cons]; rfl
    rw [e1, e2, hc]
  | trans _ _ ih1 ih2 => intro st; rw [ih1 st, ih2 st]

theorem markApplied_append (l1 l2 : List PatchInfo) (st : Option Bytes × Option Bytes) :
    markApplied (l1 ++ l2) st = exBind (markApplied l1 st) (markApplied l2) := by
  induction l1 generalizing st with
  | nil => obtain ⟨i, x⟩ := st; simp [markApplied, exBind]
  | cons a rest ih =>
    rw [List.cons_append, markApplied_cons, markApplied_cons]
    unfold exBind
    cases markStep a st with
    | error e => rfl
    | ok st' => simp only; rw [ih st']; rfl

/-! ## the whole application is a function of (tag set, dedup result, applied bits) -/

theorem applyGlyphPatches_congr (infos infos' : List PatchInfo) (gps gps' : List GlyphPatches) (font : Font)
    (e1 : tableTagList gps = tableTagList gps')
    (e3 : markApplied infos (font.get TAG_IFT, font.get TAG_IFTX)
            = markApplied infos' (font.get TAG_IFT, font.get TAG_IFTX))
    (e2 : ∀ tags, tableTagList gps = .ok tags → TAG_glyf ∈ tags →
            dedup TAG_glyf gps = dedup TAG_glyf gps') :
    applyGlyphPatches infos gps font = applyGlyphPatches infos' gps' font := by
  unfold applyGlyphPatches
  rw [← e1, ← e3]
  cases font.get TAG_maxp with
  | none => rfl
  | some maxp =>
    simp only
    split
    · rfl
    · cases ht : tableTagList gps with
      | error e => rfl
      | ok tags =>
        simp only
        rw [patchTables_congr font gps gps' _ tags _ (e2 tags ht)]

theorem applyGlyphPatches_dedup_ok (infos : List PatchInfo) (gps : List GlyphPatches) (font out : Font)
    (h : applyGlyphPatches infos gps font = .ok out) (tags : List Tag)
    (ht : tableTagList gps = .ok tags) (hg : TAG_glyf ∈ tags) :
    ∃ repl, dedup TAG_glyf gps = .ok repl := by
  unfold applyGlyphPatches at h
  cases hm : font.get TAG_maxp with
  | none => rw [hm] at h; cases h
  | some maxp =>
    rw [hm] at h
    simp only at h
    split at h
    · cases h
    · rw [ht] at h
      simp only at h
      cases hp : patchTables font gps (beValue (sliceLen maxp 4 2) - 1) tags ([TAG_IFTX, TAG_IFT], []) with
      | error e => rw [hp] at h; cases h
      | ok pb =>
        obtain ⟨p, b⟩ := pb
        obtain ⟨_, s2, _⟩ := patchTables_spec font gps _ tags _ _ p b hp
        obtain ⟨_, repl, _, _, _, hd, _⟩ := s2 hg
        exact ⟨repl, hd⟩

/-- **order independence** at the level of `applyGlyphPatches` -/
theorem applyGlyphPatches_perm (ps ps' : List (PatchInfo × GlyphPatches)) (font out : Font)
    (hperm : ps.Perm ps') (hagree : Agree TAG_glyf (ps.map (·.2)))
    (h : applyGlyphPatches (ps.map (·.1)) (ps.map (·.2)) font = .ok out) :
    applyGlyphPatches (ps'.map (·.1)) (ps'.map (·.2)) font = .ok out := by
  have hp1 := hperm.map (·.1)
  have hp2 := hperm.map (·.2)
  have e1 : tableTagList (ps.map (·.2)) = tableTagList (ps'.map (·.2)) := by
    rcases tableTagList_perm _ _ hp2 with ⟨e, a, b⟩ | ⟨t, a, b⟩ <;> rw [a, b]
  rw [← applyGlyphPatches_congr (ps.map (·.1)) (ps'.map (·.1)) (ps.map (·.2)) (ps'.map (·.2)) font e1
    (markApplied_perm _ _ hp1 _) ?_]
  · exact h
  · intro tags ht hg
    obtain ⟨repl, hd⟩ := applyGlyphPatches_dedup_ok _ _ font out h tags ht hg
    rw [hd, dedup_perm TAG_glyf _ _ hp2 hagree repl hd]

/-! ## grouping: apply some patches, then the rest -/

theorem firstWins_append (tag : Tag) (g1 g2 : List GlyphPatches) (k : Nat) :
    firstWins tag (g1 ++ g2) k = (firstWins tag g1 k).or (firstWins tag g2 k) := by
  simp only [firstWins, List.flatMap_append, lookup_append]

theorem indexOfTag_none (tag : Tag) (tables : List Tag) (i : Nat) (h : tag ∉ tables) :
    indexOfTag tag tables i = none := by
  induction tables generalizing i with
  | nil => rfl
  | cons x xs ih =>
    simp only [List.mem_cons, not_or] at h
    simp only [indexOfTag, if_neg (Ne.symm h.1)]
    exact ih _ h.2

theorem firstWins_none_of_no_tag (tag : Tag) (gps : List GlyphPatches)
    (h : ¬ ∃ gp ∈ gps, tag ∈ gp.tables) (k : Nat) : firstWins tag gps k = none := by
  have : gps.flatMap (patchData tag) = [] := by
    rw [List.flatMap_eq_nil_iff]
    intro gp hgp
    have hn : tag ∉ gp.tables := fun hm => h ⟨gp, hgp, hm⟩
    simp [patchData, indexOfTag_none tag gp.tables 0 hn]
  simp [firstWins, this]

theorem glyfAndLoca_congr (font font' : Font) (h1 : font'.get TAG_glyf = font.get TAG_glyf)
    (h2 : font'.get TAG_head = font.get TAG_head) (h3 : font'.get TAG_loca = font.get TAG_loca) :
    glyfAndLoca font' = glyfAndLoca font := by
  unfold glyfAndLoca; rw [h1, h2, h3]

theorem numGlyphs_congr (font font' : Font) (h : font'.get TAG_maxp = font.get TAG_maxp) :
    numGlyphs font' = numGlyphs font := by
  unfold numGlyphs; rw [h]

theorem dedup_eq_of_lookup (tag : Tag) (g1 g2 : List GlyphPatches) (r1 r2 : List (Nat × Bytes))
    (h1 : dedup tag g1 = .ok r1) (h2 : dedup tag g2 = .ok r2)
    (h : ∀ k, firstWins tag g1 k = firstWins tag g2 k) : r1 = r2 := by
  obtain ⟨s1, _, l1⟩ := dedup_spec tag g1 r1 h1
  obtain ⟨s2, _, l2⟩ := dedup_spec tag g2 r2 h2
  exact sorted_lookup_ext _ _ s1 s2 (fun k => by rw [l1 k, l2 k, h k])

/-- glyph `g` after "first `repl1`, then `repl2` on the result" = glyph `g` after the merged list -/
theorem chunkFor_two_step (a A : OffsetArray) (t : OffsetType) (repl1 repl2 repl12 : List (Nat × Bytes))
    (m g : Nat) (hg : g < m + 1)
    (hAo : A.offsets = newOffsets (chunks a t repl1 m)) (hAd : A.data = (chunks a t repl1 m).flatten)
    (h12 : repl12.lookup g = (repl1.lookup g).or (repl2.lookup g))
    (hag : ∀ d1 d2, repl1.lookup g = some d1 → repl2.lookup g = some d2 → d1 = d2) :
    chunkFor A t repl2 g = chunkFor a t repl12 g := by
  have hcs1 : glyphAt A.offsets A.data g = chunkFor a t repl1 g := by
    rw [hAo, hAd, newOffsets_glyphAt _ g (by rw [chunks_length]; exact hg), chunks_getElem]
  unfold chunkFor at hcs1 ⊢
  rw [h12]
  cases hf1 : repl1.lookup g with
  | none =>
    rw [hf1] at hcs1
    cases hf2 : repl2.lookup g with
    | none => simp only [Option.or_none]; exact hcs1
    | some d2 => rfl
  | some d1 =>
    rw [hf1] at hcs1
    cases hf2 : repl2.lookup g with
    | none => simp only [Option.or_none]; exact hcs1
    | some d2 =>
      have := hag d1 d2 hf1 hf2
      subst this; rfl

/-- **grouping independence** at the level of `applyGlyphPatches`: applying `ps1` and then `ps2` to
the result gives the same tables as applying `ps1 ++ ps2` at once (patches agreeing on shared gids) -/
theorem applyGlyphPatches_split (ps1 ps2 : List (PatchInfo × GlyphPatches)) (font font1 out2 out12 : Font)
    (hu : UniqueTags font) (hagree : Agree TAG_glyf ((ps1 ++ ps2).map (·.2)))
    (h1 : applyGlyphPatches (ps1.map (·.1)) (ps1.map (·.2)) font = .ok font1)
    (h2 : applyGlyphPatches (ps2.map (·.1)) (ps2.map (·.2)) font1 = .ok out2)
    (h12 : applyGlyphPatches ((ps1 ++ ps2).map (·.1)) ((ps1 ++ ps2).map (·.2)) font = .ok out12) :
    out2 = out12 := by
  rw [List.map_append, List.map_append] at h12
  rw [List.map_append] at hagree
  generalize hg1 : ps1.map (·.2) = gps1 at h1 h12 hagree
  generalize hg2 : ps2.map (·.2) = gps2 at h2 h12 hagree
  generalize hi1 : ps1.map (·.1) = infos1 at h1 h12
  generalize hi2 : ps2.map (·.1) = infos2 at h2 h12
  obtain ⟨tags1, ift1, iftx1, hn1, ht1, hma1, hs1, hI1, hX1, hoth1, _, hin1, hout1⟩ :=
    applyGlyphPatches_char infos1 gps1 font font1 hu h1
  have hu1 : UniqueTags font1 := sorted_unique font1 hs1
  obtain ⟨tags2, ift2, iftx2, hn2, ht2, hma2, hs2, hI2, hX2, hoth2, _, hin2, hout2⟩ :=
    applyGlyphPatches_char infos2 gps2 font1 out2 hu1 h2
  obtain ⟨tags12, ift12, iftx12, hn12, ht12, hma12, hs12, hI12, hX12, hoth12, _, hin12, hout12⟩ :=
    applyGlyphPatches_char (infos1 ++ infos2) (gps1 ++ gps2) font out12 hu h12
  have hm1 := (tableTagList_ok gps1 tags1 ht1).2 TAG_glyf
  have hm2 := (tableTagList_ok gps2 tags2 ht2).2 TAG_glyf
  have hm12 := (tableTagList_ok (gps1 ++ gps2) tags12 ht12).2 TAG_glyf
  have hng : numGlyphs font1 = numGlyphs font :=
    numGlyphs_congr font font1 (hoth1 TAG_maxp (by decide) (by decide) (by decide) (by decide))
  have hhead1 := hoth1 TAG_head (by decide) (by decide) (by decide) (by decide)
  -- applied bits
  have hbits : ift2 = ift12 ∧ iftx2 = iftx12 := by
    rw [markApplied_append, hma1] at hma12
    simp only [exBind] at hma12
    rw [hI1, hX1] at hma2
    rw [hma2] at hma12
    simp only [Except.ok.injEq, Prod.mk.injEq] at hma12
    exact hma12
  -- glyf and loca
  have hgl : out2.get TAG_glyf = out12.get TAG_glyf ∧ out2.get TAG_loca = out12.get TAG_loca := by
    by_cases c1 : TAG_glyf ∈ tags1
    · obtain ⟨a, repl1, data1, offs1, ha, hd1, hp1, hg1', hl1'⟩ := hin1 c1
      have c12 : TAG_glyf ∈ tags12 := by
        rw [hm12]; obtain ⟨gp, hgp, hx⟩ := hm1.mp c1
        exact ⟨gp, List.mem_append_left _ hgp, hx⟩
      obtain ⟨a12, repl12, data12, offs12, ha12, hd12, hp12, hg12', hl12'⟩ := hin12 c12
      rw [ha] at ha12; cases ha12
      by_cases c2 : TAG_glyf ∈ tags2
      · -- both groups touch glyf
        obtain ⟨sr1, _, lk1⟩ := dedup_spec TAG_glyf gps1 repl1 hd1
        obtain ⟨sr12, _, lk12⟩ := dedup_spec TAG_glyf (gps1 ++ gps2) repl12 hd12
        have hrb := glyf_splice_readback font font1 a repl1 _ data1 offs1 ha sr1 hp1 hg1' hl1' hhead1
        obtain ⟨a2, repl2, data2, offs2, ha2, hd2, hp2, hg2', hl2'⟩ := hin2 c2
        obtain ⟨sr2, _, lk2⟩ := dedup_spec TAG_glyf gps2 repl2 hd2
        rw [hrb] at ha2; cases ha2
        rw [hng] at hp2
        simp only at hp2
        obtain ⟨e2d, e2o⟩ := patchOffsetArray_eq _ repl2 _ sr2 _ data2 offs2 hp2
        obtain ⟨e12d, e12o⟩ := patchOffsetArray_eq a repl12 _ sr12 _ data12 offs12 hp12
        have hchunks : chunks { a with offsets := newOffsets (chunks a a.offsetType repl1 (numGlyphs font - 1)),
                                       data := (chunks a a.offsetType repl1 (numGlyphs font - 1)).flatten }
              a.offsetType repl2 (numGlyphs font - 1)
            = chunks a a.offsetType repl12 (numGlyphs font - 1) := by
          apply List.ext_getElem
          · rw [chunks_length, chunks_length]
          · intro g hga hgb
            rw [chunks_getElem, chunks_getElem]
            rw [chunks_length] at hga
            apply chunkFor_two_step a _ a.offsetType repl1 repl2 repl12 _ g hga rfl rfl
            · rw [lk12 g, lk1 g, lk2 g, firstWins_append]
            · intro d1 d2 hf1 hf2
              rw [lk1 g] at hf1
              rw [lk2 g] at hf2
              have m1 : (g, d1) ∈ (gps1 ++ gps2).flatMap (patchData TAG_glyf) := by
                rw [List.flatMap_append]; exact List.mem_append_left _ (lookup_some_mem _ g d1 hf1)
              have m2 : (g, d2) ∈ (gps1 ++ gps2).flatMap (patchData TAG_glyf) := by
                rw [List.flatMap_append]; exact List.mem_append_right _ (lookup_some_mem _ g d2 hf2)
              exact agree_flat TAG_glyf _ hagree g d1 d2 m1 m2
        rw [hg2', hl2', hg12', hl12', e2d, e2o, e12d, e12o, hchunks]
        exact ⟨rfl, rfl⟩
      · -- only the first group touches glyf
        obtain ⟨o1, o2⟩ := hout2 c2
        have hno2 : ¬ ∃ gp ∈ gps2, TAG_glyf ∈ gp.tables := fun hx => c2 (hm2.mpr hx)
        have : repl12 = repl1 := dedup_eq_of_lookup TAG_glyf _ _ _ _ hd12 hd1 (fun k => by
          rw [firstWins_append, firstWins_none_of_no_tag TAG_glyf gps2 hno2 k, Option.or_none])
        subst this
        rw [hp1] at hp12
        simp only [Except.ok.injEq, Prod.mk.injEq] at hp12
        rw [o1, o2, hg1', hl1', hg12', hl12', hp12.2.1, hp12.2.2]
        exact ⟨rfl, rfl⟩
    · obtain ⟨p1, p2⟩ := hout1 c1
      have hno1 : ¬ ∃ gp ∈ gps1, TAG_glyf ∈ gp.tables := fun hx => c1 (hm1.mpr hx)
      by_cases c2 : TAG_glyf ∈ tags2
      · -- only the second group touches glyf
        obtain ⟨a2, repl2, data2, offs2, ha2, hd2, hp2, hg2', hl2'⟩ := hin2 c2
        have c12 : TAG_glyf ∈ tags12 := by
          rw [hm12]; obtain ⟨gp, hgp, hx⟩ := hm2.mp c2
          exact ⟨gp, List.mem_append_right _ hgp, hx⟩
        obtain ⟨a12, repl12, data12, offs12, ha12, hd12, hp12, hg12', hl12'⟩ := hin12 c12
        rw [glyfAndLoca_congr font font1 p1 hhead1 p2] at ha2
        rw [ha2] at ha12; cases ha12
        have : repl12 = repl2 := dedup_eq_of_lookup TAG_glyf _ _ _ _ hd12 hd2 (fun k => by
          rw [firstWins_append, firstWins_none_of_no_tag TAG_glyf gps1 hno1 k, Option.none_or])
        subst this
        rw [hng, hp12] at hp2
        simp only [Except.ok.injEq, Prod.mk.injEq] at hp2
        rw [hg2', hl2', hg12', hl12', hp2.2.1, hp2.2.2]
        exact ⟨rfl, rfl⟩
      · -- nobody touches glyf
        obtain ⟨o1, o2⟩ := hout2 c2
        have c12 : TAG_glyf ∉ tags12 := by
          rw [hm12]; rintro ⟨gp, hgp, hx⟩
          rcases List.mem_append.mp hgp with e | e
          · exact c1 (hm1.mpr ⟨gp, e, hx⟩)
          · exact c2 (hm2.mpr ⟨gp, e, hx⟩)
        obtain ⟨q1, q2⟩ := hout12 c12
        rw [o1, o2, p1, p2, q1, q2]
        exact ⟨rfl, rfl⟩
  apply sorted_lookup_ext _ _ hs2 hs12
  intro t
  show out2.get t = out12.get t
  by_cases e1 : t = TAG_IFT
  · subst e1; rw [hI2, hI12, hbits.1]
  · by_cases e2 : t = TAG_IFTX
    · subst e2; rw [hX2, hX12, hbits.2]
    · by_cases e3 : t = TAG_glyf
      · subst e3; exact hgl.1
      · by_cases e4 : t = TAG_loca
        · subst e4; exact hgl.2
        · rw [hoth2 t e1 e2 e3 e4, hoth1 t e1 e2 e3 e4, hoth12 t e1 e2 e3 e4]

end FontVerif.Ift
