/-
Invariants, measures and per-step facts of the hand-written iterator models (Model/ReadIter.lean)
from which Props/C01Iter.lean derives the termination / bound / trap-freedom theorems.
-/
import FontVerif.Lemmas.ReadIter
set_option linter.unusedVariables false
set_option linter.unusedSimpArgs false
namespace FontVerif.C01Iter
open FontVerif FontVerif.ReadIter

theorem codeRange_some {t : Cmap4} {i a b : Nat} (h : t.codeRange i = some (a, b)) :
    i < t.segCount ∧ (t.wf = true → b ≤ 65536) := by
  unfold Cmap4.codeRange at h
  cases hs : t.startCode[i]? with
  | none => simp [hs] at h
  | some s =>
    cases he : t.endCode[i]? with
    | none => simp [hs, he] at h
    | some e =>
      simp [hs, he] at h
      obtain ⟨rfl, rfl⟩ := h
      have h1 := (List.getElem?_eq_some_iff.mp hs).1
      have h2 := (List.getElem?_eq_some_iff.mp he).1
      refine ⟨by unfold Cmap4.segCount; omega, ?_⟩
      intro hwf
      unfold Cmap4.wf at hwf
      simp only [Bool.and_eq_true, List.all_eq_true, decide_eq_true_eq] at hwf
      have := hwf.1.1.1.1 e (List.mem_of_getElem? he)
      omega

def Inv4 (s : St4) : Prop := s.stop ≤ 65536 ∧ s.startCode ≤ s.start

def mu4 (t : Cmap4) (s : St4) : Nat := (s.stop - s.start) + (65536 - s.stop) + (t.segCount - s.ix)

def nu4 (s : St4) : Nat := (s.stop - s.start) + (65536 - s.stop)

theorem inv4_init (t : Cmap4) (hwf : t.wf = true) : Inv4 t.init := by
  unfold Cmap4.init Inv4
  cases h : t.codeRange 0 with
  | none => simp
  | some r =>
    obtain ⟨a, b⟩ := r
    have := (codeRange_some h).2 hwf
    simp only [Option.getD_some]
    exact ⟨this, Nat.mod_le _ _⟩

theorem mu4_init (t : Cmap4) (hwf : t.wf = true) : mu4 t t.init ≤ 65536 + t.segCount := by
  have := inv4_init t hwf
  unfold Inv4 at this
  unfold mu4
  omega

theorem step4_facts (t : Cmap4) (hwf : t.wf = true) (s : St4) (hi : Inv4 s) :
    Inv4 (t.step s).2 ∧ (t.step s).1 ≠ .trap ∧
    ((t.step s).1 ≠ .done → mu4 t (t.step s).2 < mu4 t s) ∧
    (∀ a, (t.step s).1 = .yield a → nu4 (t.step s).2 < nu4 s) ∧
    ((t.step s).1 = .cont → nu4 (t.step s).2 ≤ nu4 s) := by
  obtain ⟨h1, h2⟩ := hi
  unfold Cmap4.step
  by_cases hlt : s.start < s.stop
  · simp only [hlt, if_true]
    have hcp : s.start % 65536 = s.start := Nat.mod_eq_of_lt (by omega)
    have hnt : t.lookupGlyphId (s.start % 65536) s.ix s.startCode ≠ .trap := by
      unfold Cmap4.lookupGlyphId
      rw [hcp]
      split
      · simp
      · split
        · simp
        · split
          · simp
          · split
            · omega
            · simp only []
              split
              · simp
              · split <;> simp
    cases hl : t.lookupGlyphId (s.start % 65536) s.ix s.startCode with
    | trap => exact absurd hl hnt
    | none =>
      simp only [Inv4, mu4, nu4]
      refine ⟨⟨h1, by omega⟩, by simp, fun _ => by omega, by simp, fun _ => by omega⟩
    | gid g =>
      simp only [Inv4, mu4, nu4]
      refine ⟨⟨h1, by omega⟩, by simp, fun _ => by omega, fun _ _ => by omega, by simp⟩
  · simp only [hlt, if_false]
    cases hc : t.codeRange (s.ix + 1) with
    | none =>
      simp only [Inv4, mu4, nu4]
      exact ⟨⟨h1, h2⟩, by simp, by simp, by simp, by simp⟩
    | some r =>
      obtain ⟨ns, ne⟩ := r
      obtain ⟨hix, hne⟩ := codeRange_some hc
      have hne := hne hwf
      simp only [Inv4, mu4, nu4]
      refine ⟨⟨by omega, Nat.mod_le _ _⟩, by simp, fun _ => by omega, by simp, fun _ => by omega⟩

def glen (lim : Option Limits) (g : Group) : Nat := groupEnd g lim - g.startChar

/-- remaining (limited, unclamped) group lengths after index `i` -/
def restLen (gs : List Group) (lim : Option Limits) (i : Nat) : Nat := ((gs.drop i).map (glen lim)).sum

theorem restLen_step (gs : List Group) (lim : Option Limits) (i : Nat) (g : Group) (h : gs[i]? = some g) :
    restLen gs lim i = glen lim g + restLen gs lim (i + 1) := by
  unfold restLen
  have hi := (List.getElem?_eq_some_iff.mp h)
  obtain ⟨hlt, hg⟩ := hi
  rw [List.drop_eq_getElem_cons hlt, hg]
  simp

theorem restLen_zero (gs : List Group) (lim : Option Limits) : restLen gs lim 0 = groupLenSum gs lim := by
  simp only [restLen, groupLenSum, List.drop_zero]; rfl

def curLen (s : St12) : Nat := match s.cur with | some g => g.stop - g.start | none => 0

def nu12 (gs : List Group) (lim : Option Limits) (s : St12) : Nat := curLen s + restLen gs lim (s.ix + 1)

def mu12 (gs : List Group) (lim : Option Limits) (s : St12) : Nat := nu12 gs lim s + (gs.length - s.ix)

theorem group12_some {gs : List Group} {i : Nat} {lim : Option Limits} {n : G12} (h : group12 gs i lim = some n) :
    ∃ g, gs[i]? = some g ∧ i < gs.length ∧ n.stop - n.start = glen lim g ∧ n.stop = groupEnd g lim := by
  unfold group12 at h
  cases hg : gs[i]? with
  | none => simp [hg] at h
  | some g =>
    simp [hg] at h
    subst h
    exact ⟨g, rfl, (List.getElem?_eq_some_iff.mp hg).1, rfl, rfl⟩

theorem step12_facts (gs : List Group) (lim : Option Limits) (s : St12) :
    (step12 gs lim s).1 ≠ .trap ∧
    ((step12 gs lim s).1 ≠ .done → mu12 gs lim (step12 gs lim s).2 < mu12 gs lim s) ∧
    (∀ a, (step12 gs lim s).1 = .yield a → nu12 gs lim (step12 gs lim s).2 < nu12 gs lim s) ∧
    ((step12 gs lim s).1 = .cont → nu12 gs lim (step12 gs lim s).2 ≤ nu12 gs lim s) := by
  unfold step12
  cases hc : s.cur with
  | none => simp
  | some g =>
    simp only []
    by_cases hlt : g.start < g.stop
    · simp only [hlt, if_true]
      refine ⟨by simp, fun _ => ?_, fun _ _ => ?_, by simp⟩ <;>
        (simp only [mu12, nu12, curLen, hc]; omega)
    · simp only [hlt, if_false]
      cases hn : group12 gs (s.ix + 1) lim with
      | none => simp
      | some n =>
        obtain ⟨g', hg', hix, hlen, _⟩ := group12_some hn
        have hr := restLen_step gs lim (s.ix + 1) g' hg'
        simp only []
        refine ⟨(fun h => nomatch h), fun _ => ?_, (fun a h => nomatch h), fun _ => ?_⟩ <;>
          (simp only [mu12, nu12, curLen, hc]; split <;> (try simp only []) <;> omega)

theorem init12_nu (gs : List Group) (lim : Option Limits) : nu12 gs lim (init12 gs lim) ≤ groupLenSum gs lim := by
  rw [← restLen_zero]
  unfold nu12 init12 curLen
  cases hn : group12 gs 0 lim with
  | none =>
    simp only []
    unfold group12 at hn
    cases hg : gs[0]? with
    | none =>
      have : gs = [] := by cases gs <;> simp_all
      subst this; simp [restLen]
    | some g => simp [hg] at hn
  | some n =>
    obtain ⟨g', hg', hix, hlen, _⟩ := group12_some hn
    have hr := restLen_step gs lim 0 g' hg'
    simp only []
    omega

/-- a `VarSize` impl whose length prefix is a real scalar (at least one byte) -/
def VarKind.ok : VarKind → Prop
  | .plain n => 1 ≤ n
  | _ => True

theorem readLenAt_pos {k : VarKind} (hk : VarKind.ok k) {d : List Nat} (hd : d ≠ []) {l : Nat}
    (h : readLenAt k d 0 = some l) : 1 ≤ l := by
  cases k with
  | plain n =>
    simp only [VarKind.ok] at hk
    simp only [readLenAt, Option.map_eq_some_iff] at h
    obtain ⟨v, _, rfl⟩ := h
    omega
  | segmentMaps =>
    simp only [readLenAt, Option.map_eq_some_iff] at h
    obtain ⟨v, _, rfl⟩ := h
    omega
  | scriptLangTag =>
    have hlen : 0 < d.length := List.length_pos_iff.mpr hd
    simp only [readLenAt] at h
    split at h
    · omega
    · split at h
      · simp at h; omega
      · simp at h; omega

theorem count_le (d : List Nat) : (countAndCountBytes d).1 ≤ 32767 := by
  unfold countAndCountBytes
  simp only []
  split
  · simp
  · split
    · simp only []; omega
    · split
      · simp
      · simp only []; omega

theorem totalLenLoop_some (d : List Nat) (nPoints : Nat) (hn : nPoints ≤ 32767) :
    ∀ (fuel nSeen nBytes pos : Nat), nPoints - nSeen < fuel →
      ∃ r, totalLenLoop d nPoints fuel nSeen nBytes pos = some r := by
  intro fuel
  induction fuel with
  | zero => intro _ _ _ h; omega
  | succ f ih =>
    intro nSeen nBytes pos h
    unfold totalLenLoop
    by_cases hlt : nSeen < nPoints
    · simp only [hlt, if_true]
      cases hu : u8At d pos with
      | none => exact ⟨_, rfl⟩
      | some control =>
        simp only []
        have hc : ¬ (nSeen + (control % 128 + 1) > 65535) := by omega
        simp only [hc, if_false]
        exact ih _ _ _ (by omega)
    · simp only [hlt, if_false]
      exact ⟨_, rfl⟩

def muPt (s : PtSt) : Nat := if s.count = 0 then 65535 - s.lastVal else s.count - s.seen

theorem ptRunNext_keeps (d : List Nat) (s : PtSt) :
    (ptRunNext d s).2.count = s.count ∧ (ptRunNext d s).2.seen = s.seen ∧ (ptRunNext d s).2.lastVal = s.lastVal := by
  unfold ptRunNext
  simp only []
  split
  · rename_i h
    split at h
    · split at h <;> simp_all
    · simp_all
  · rename_i s1 h
    have : s1.count = s.count ∧ s1.seen = s.seen ∧ s1.lastVal = s.lastVal := by
      split at h
      · split at h
        · cases h
        · simp at h; subst h; simp
      · simp at h; subst h; simp
    split <;> simp [this]

theorem ptNext_facts (d : List Nat) (s : PtSt) (hi : s.seen ≤ s.count) :
    (ptNext d s).2.seen ≤ (ptNext d s).2.count ∧ (ptNext d s).2.count = s.count ∧ (ptNext d s).1 ≠ .trap ∧
    ((ptNext d s).1 ≠ .done → muPt (ptNext d s).2 < muPt s) := by
  unfold ptNext
  by_cases hc : s.count = 0
  · rw [if_pos hc]
    split
    · exact ⟨hi, rfl, by simp, by simp⟩
    · refine ⟨hi, rfl, by simp, fun _ => ?_⟩
      simp only [muPt, hc, if_true]
      omega
  · rw [if_neg hc]
    by_cases he : s.count = s.seen
    · rw [if_pos he]; exact ⟨hi, rfl, by simp, by simp⟩
    · rw [if_neg he]
      have hk := ptRunNext_keeps d { s with seen := s.seen + 1 }
      simp only [] at hk ⊢
      obtain ⟨k1, k2, k3⟩ := hk
      generalize ptRunNext d { s with seen := s.seen + 1 } = r at k1 k2 k3 ⊢
      obtain ⟨o, s'⟩ := r
      simp only [] at k1 k2 k3
      cases o with
      | none =>
        refine ⟨?_, k1, by simp, by simp⟩
        show s'.seen ≤ s'.count
        omega
      | some v =>
        simp only []
        split
        · refine ⟨?_, k1, by simp, by simp⟩
          show s'.seen ≤ s'.count
          omega
        · refine ⟨?_, k1, by simp, fun _ => ?_⟩
          · show s'.seen ≤ s'.count
            omega
          · simp only [muPt, k1, hc, if_false, k2]
            omega

theorem countAllLoop_some (d : List Nat) :
    ∀ (fuel count offset : Nat), d.length - offset < fuel →
      ∃ r, countAllLoop d fuel count offset = some r ∧ r ≤ count + 64 * (d.length - offset) := by
  intro fuel
  induction fuel with
  | zero => intro _ _ h; omega
  | succ f ih =>
    intro count offset h
    unfold countAllLoop
    cases hu : u8At d offset with
    | none => exact ⟨count, rfl, by omega⟩
    | some control =>
      simp only []
      have hlt : offset < d.length := by
        unfold u8At at hu
        exact (List.getElem?_eq_some_iff.mp hu).1
      obtain ⟨r, hr, hb⟩ := ih (count + (control % 64 + 1)) (offset + ((control % 64 + 1) * runTypeSize control + 1)) (by omega)
      refine ⟨r, hr, ?_⟩
      have : d.length - (offset + ((control % 64 + 1) * runTypeSize control + 1)) ≤ d.length - offset - 1 := by omega
      omega

def muDl (s : DlSt) : Nat := s.limit.getD 0

theorem dlNext_facts (d : List Nat) (s : DlSt) (hs : s.limit.isSome) :
    (dlNext d s).2.limit.isSome ∧ (dlNext d s).1 ≠ .trap ∧ ((dlNext d s).1 ≠ .done → muDl (dlNext d s).2 < muDl s) := by
  cases hl : s.limit with
  | none => simp [hl] at hs
  | some c =>
    unfold dlNext
    cases c with
    | zero => simp [hl]
    | succ c =>
      simp only [hl]
      have hrc : ∀ s0 : DlSt, (dlReadControl d s0).2.limit = s0.limit := by
        intro s0; unfold dlReadControl; split <;> simp
      split
      · rename_i hrem
        split
        · simp [hrc]
        · split
          · simp [hrc]
          · simp [hrc, muDl, hl]
      · split
        · rename_i h; simp at h
        · split
          · simp
          · simp [muDl, hl]

theorem skipFastLoop_some (d : List Nat) (n : Nat) :
    ∀ (fuel wanted : Nat) (s : DlSt), d.length - s.pos < fuel → ∃ r, skipFastLoop d n fuel wanted s = some r := by
  intro fuel
  induction fuel with
  | zero => intro _ _ h; omega
  | succ f ih =>
    intro wanted s h
    unfold skipFastLoop
    by_cases hw : wanted > s.remaining
    · simp only [hw, if_true]
      unfold dlReadControl
      cases hu : u8At d (s.pos + s.remaining * s.vsize) with
      | none => simp
      | some control =>
        simp only []
        have hlt : s.pos + s.remaining * s.vsize < d.length := by
          unfold u8At at hu
          exact (List.getElem?_eq_some_iff.mp hu).1
        simp only [Bool.true_eq_false, if_false]
        exact ih _ _ (by simp only []; omega)
    · simp only [hw, if_false]
      exact ⟨_, rfl⟩

/-! ### `TupleDeltaIter` -/

theorem ptNext_yield_le (d : List Nat) (s : PtSt) (a : Nat) (h : (ptNext d s).1 = .yield a) : a ≤ 65535 := by
  unfold ptNext at h
  split at h
  · split at h
    · simp at h
    · simp at h; omega
  · split at h
    · simp at h
    · simp only [] at h
      split at h
      · simp at h
      · split at h
        · simp at h
        · simp at h; omega

/-- what one `tdEmit` does to the state -/
theorem tdEmit_facts (dd : List Nat) (s : TdSt) (pos : Nat) :
    (tdEmit dd s pos).2.points = s.points ∧ (tdEmit dd s pos).2.nextPoint = s.nextPoint ∧
    (tdEmit dd s pos).1 ≠ .trap ∧
    (s.x.limit.isSome → (tdEmit dd s pos).2.x.limit.isSome) ∧
    ((tdEmit dd s pos).1 ≠ .done → (tdEmit dd s pos).2.cur = s.cur + 1 ∧
       (pos = s.cur → s.x.limit.isSome → muDl (tdEmit dd s pos).2.x < muDl s.x)) := by
  unfold tdEmit
  by_cases hpos : pos = s.cur
  · rw [if_pos hpos]
    have hx : s.x.limit.isSome → _ := dlNext_facts dd s.x
    generalize dlNext dd s.x = rx at hx
    obtain ⟨ox, x'⟩ := rx
    simp only [] at hx
    cases ox with
    | yield dx =>
      simp only []
      cases hy : s.y with
      | none =>
        exact ⟨rfl, rfl, by simp, fun h => (hx h).1, fun _ => ⟨rfl, fun _ h => (hx h).2.2 (by simp)⟩⟩
      | some y =>
        simp only []
        generalize dlNext dd y = ry
        obtain ⟨oy, y'⟩ := ry
        cases oy with
        | yield dy => exact ⟨rfl, rfl, by simp, fun h => (hx h).1, fun _ => ⟨rfl, fun _ h => (hx h).2.2 (by simp)⟩⟩
        | cont => exact ⟨rfl, rfl, by simp, fun h => (hx h).1, by simp⟩
        | done => exact ⟨rfl, rfl, by simp, fun h => (hx h).1, by simp⟩
        | trap => exact ⟨rfl, rfl, by simp, fun h => (hx h).1, by simp⟩
    | cont => exact ⟨rfl, rfl, by simp, fun h => (hx h).1, by simp⟩
    | done => exact ⟨rfl, rfl, by simp, fun h => (hx h).1, by simp⟩
    | trap => exact ⟨rfl, rfl, by simp, fun h => (hx h).1, by simp⟩
  · rw [if_neg hpos]
    exact ⟨rfl, rfl, by simp, fun h => h, fun _ => ⟨rfl, fun h => absurd h hpos⟩⟩

def TdInv (s : TdSt) : Prop :=
  match s.points with
  | some p => p.seen ≤ p.count ∧ s.nextPoint ≤ 65535
  | none => s.x.limit.isSome

def muTd (s : TdSt) : Nat :=
  match s.points with
  | some p => (65536 - s.cur) + muPt p
  | none => muDl s.x

theorem tdStep_facts (ser dd : List Nat) (s : TdSt) (hi : TdInv s) :
    TdInv (tdStep ser dd s).2 ∧ (tdStep ser dd s).1 ≠ .trap ∧
    ((tdStep ser dd s).1 ≠ .done → muTd (tdStep ser dd s).2 < muTd s) := by
  unfold tdStep
  cases hp : s.points with
  | none =>
    simp only [TdInv, hp] at hi
    simp only []
    obtain ⟨e1, e2, e3, e4, e5⟩ := tdEmit_facts dd s s.cur
    rw [hp] at e1
    refine ⟨?_, e3, fun hnd => ?_⟩
    · simp only [TdInv, e1]; exact e4 hi
    · simp only [muTd, e1, hp]; exact (e5 hnd).2 rfl hi
  | some p =>
    simp only [TdInv, hp] at hi
    obtain ⟨hi1, hi2⟩ := hi
    simp only []
    by_cases hgt : s.cur > s.nextPoint
    · rw [if_pos hgt]
      have hf := ptNext_facts ser p hi1
      have hy := ptNext_yield_le ser p
      generalize ptNext ser p = rp at hf hy
      obtain ⟨op, p'⟩ := rp
      simp only [] at hf hy
      cases op with
      | yield v =>
        have hv := hy v rfl
        have hdec := hf.2.2.2 (by simp)
        simp only []
        obtain ⟨e1, e2, e3, e4, e5⟩ := tdEmit_facts dd { s with points := some p', nextPoint := v } v
        simp only [] at e1 e2 e5
        refine ⟨?_, e3, fun hnd => ?_⟩
        · simp only [TdInv, e1, e2]; exact ⟨hf.1, hv⟩
        · have := (e5 hnd).1
          simp only [muTd, e1, hp, this]; omega
      | cont => simp only [TdInv, muTd, hp]; exact ⟨⟨hf.1, hi2⟩, by simp, by simp⟩
      | done => simp only [TdInv, muTd, hp]; exact ⟨⟨hf.1, hi2⟩, by simp, by simp⟩
      | trap => simp only [TdInv, muTd, hp]; exact ⟨⟨hf.1, hi2⟩, by simp, by simp⟩
    · rw [if_neg hgt]
      obtain ⟨e1, e2, e3, e4, e5⟩ := tdEmit_facts dd s s.nextPoint
      rw [hp] at e1
      refine ⟨?_, e3, fun hnd => ?_⟩
      · simp only [TdInv, e1, e2]; exact ⟨hi1, hi2⟩
      · have := (e5 hnd).1
        simp only [muTd, e1, hp, this]; omega

theorem totalLen_some (d : List Nat) : ∃ r, totalLen d = some r := by
  unfold totalLen
  simp only []
  split
  · exact ⟨_, rfl⟩
  · exact totalLenLoop_some d _ (count_le d) _ _ _ _ (by omega)

theorem muPt_init_le (d : List Nat) : muPt (ptInit d) ≤ 65535 := by
  have := count_le d
  simp only [muPt, ptInit]
  by_cases h : (countAndCountBytes d).fst = 0 <;> simp [h] <;> omega

theorem tdInit_some (ser : List Nat) (isPoint : Bool) :
    ∃ dd s, tdInit ser isPoint = some (dd, s) ∧ TdInv s ∧ muTd s < tdFuel dd := by
  unfold tdInit
  obtain ⟨tl, htl⟩ := totalLen_some ser
  rw [htl]
  simp only []
  -- the total number of deltas
  have htot : ∃ total, (if pointCount ser = 0 then countAllDeltas (ser.drop tl)
        else some (if isPoint then pointCount ser * 2 else pointCount ser)) = some total ∧
        total ≤ 64 * (ser.drop tl).length + 65534 := by
    by_cases hc : pointCount ser = 0
    · rw [if_pos hc]
      obtain ⟨r, hr, hb⟩ := countAllLoop_some (ser.drop tl) ((ser.drop tl).length + 1) 0 0 (by omega)
      exact ⟨r, hr, by omega⟩
    · rw [if_neg hc]
      have := count_le ser
      refine ⟨_, rfl, ?_⟩
      unfold pointCount
      split <;> omega
  obtain ⟨total, ht, hb⟩ := htot
  rw [ht]
  simp only []
  -- the first point
  have h0 : (ptInit ser).seen ≤ (ptInit ser).count := by simp [ptInit]
  have hf := ptNext_facts ser (ptInit ser) h0
  have hy := ptNext_yield_le ser (ptInit ser)
  have hm := muPt_init_le ser
  generalize ptNext ser (ptInit ser) = first at hf hy
  obtain ⟨o1, p1⟩ := first
  simp only [] at hf hy
  cases hb' : isPoint with
  | true =>
    simp only [if_true]
    obtain ⟨ys, hys⟩ := skipFastLoop_some (ser.drop tl) (total / 2) ((ser.drop tl).length + 2) (total / 2)
      (dlInit (some total)) (by simp [dlInit])
    unfold skipFast
    rw [hys]
    simp only []
    refine ⟨_, _, rfl, ?_, ?_⟩
    · cases o1 with
      | yield v => simp only [TdInv]; exact ⟨hf.1, hy v rfl⟩
      | cont => simp [TdInv, dlInit]
      | done => simp [TdInv, dlInit]
      | trap => simp [TdInv, dlInit]
    · cases o1 with
      | yield v =>
        have := hf.2.2.2 (by simp)
        simp only [muTd, tdFuel]; omega
      | cont => simp only [muTd, tdFuel, muDl, dlInit, Option.getD_some]; omega
      | done => simp only [muTd, tdFuel, muDl, dlInit, Option.getD_some]; omega
      | trap => simp only [muTd, tdFuel, muDl, dlInit, Option.getD_some]; omega
  | false =>
    simp only [Bool.false_eq_true, if_false]
    refine ⟨_, _, rfl, ?_, ?_⟩
    · cases o1 with
      | yield v => simp only [TdInv]; exact ⟨hf.1, hy v rfl⟩
      | cont => simp [TdInv, dlInit]
      | done => simp [TdInv, dlInit]
      | trap => simp [TdInv, dlInit]
    · cases o1 with
      | yield v =>
        have := hf.2.2.2 (by simp)
        simp only [muTd, tdFuel]; omega
      | cont => simp only [muTd, tdFuel, muDl, dlInit, Option.getD_some]; omega
      | done => simp only [muTd, tdFuel, muDl, dlInit, Option.getD_some]; omega
      | trap => simp only [muTd, tdFuel, muDl, dlInit, Option.getD_some]; omega


end FontVerif.C01Iter
