/-
Helper lemmas for C17 (Model/SubsetCmap.lean): what klippa's format 4 array writer
(`serialize_rangeoffset_glyph_ids`) emits for a valid list of ranges, and the link to C08's reader
lemmas (`map4_mapped` / `map4_sentinel` / `map4_unmapped` over any valid segmentation).
-/
import FontVerif.Lemmas.SubsetCmap4
import FontVerif.Lemmas.Cmap4Top
set_option linter.unusedVariables false
namespace FontVerif.SubsetCmap
open FontVerif FontVerif.Cmap

/-! ## ranges as C08 segments -/

/-- the segment (C08's index form) a written range stands for when it starts at index `i` -/
def segOf (cp gid : Nat → Nat) (i : Nat) (r : Range) : Seg :=
  { startIx := i, endIx := i + (r.2.1 - r.1), startChar := r.1, endChar := r.2.1,
    idDelta := if r.2.2 = 0 then none else some ((gid i : Int) - (cp i : Int)) }

def segsOf (cp gid : Nat → Nat) : Nat → List Range → List Seg
  | _, [] => []
  | i, r :: rest => segOf cp gid i r :: segsOf cp gid (i + (r.2.1 - r.1) + 1) rest

theorem segsOf_length (cp gid : Nat → Nat) : ∀ (body : List Range) (lo : Nat),
    (segsOf cp gid lo body).length = body.length := by
  intro body
  induction body with
  | nil => intro lo; rfl
  | cons r rest ih => intro lo; simp [segsOf, ih]

theorem segsTile_of_bodyOk (cp gid : Nat → Nat) : ∀ (body : List Range) (lo n : Nat),
    BodyOk cp gid lo n body → SegsTile cp gid lo n (segsOf cp gid lo body) := by
  intro body
  induction body with
  | nil => intro lo n h; exact h
  | cons r rest ih =>
    intro lo n h
    obtain ⟨a, b, c, d, e, f⟩ := h
    refine ⟨rfl, ⟨by simp [segOf], ?_, ?_⟩, ih _ _ f⟩
    · intro k h1 h2
      simp only [segOf] at h1 h2 ⊢
      rw [d k h1 h2, a]
    · intro dd hdd k h1 h2
      simp only [segOf] at h1 h2 hdd
      by_cases h0 : r.2.2 = 0
      · simp [h0] at hdd
      · simp only [h0, if_false] at hdd
        cases Option.some.inj hdd
        exact (e h0).2 k h1 h2

/-! ## the glyph id array -/

/-- `cp_to_gid_map.get(&cp)` finds the pair of a list with distinct code points -/
theorem gidOf_of_mem (l : Mapping) (hasc : Ascending l) (c g : Nat) (h : (c, g) ∈ l) : gidOf l c = some g := by
  unfold gidOf gidOfR
  have hmem : (c, g) ∈ l.reverse := List.mem_reverse.2 h
  cases hf : l.reverse.find? (fun p => p.1 == c) with
  | none =>
    have := List.find?_eq_none.1 hf (c, g) hmem
    simp at this
  | some p =>
    have hp1 := List.find?_some hf
    have hp2 : p ∈ l := List.mem_reverse.1 (List.mem_of_find?_eq_some hf)
    simp only [beq_iff_eq] at hp1
    -- two members with the same code point are the same pair
    have huniq : ∀ (l : Mapping), Ascending l → ∀ a b : Nat × Nat, a ∈ l → b ∈ l → a.1 = b.1 → a = b := by
      intro l
      induction l with
      | nil => intro _ a b ha; cases ha
      | cons x rest ih =>
        intro hasc a b ha hb hab
        have hh := List.pairwise_cons.1 hasc
        rcases List.mem_cons.1 ha with rfl | ha' <;> rcases List.mem_cons.1 hb with rfl | hb'
        · rfl
        · have := hh.1 b hb'; omega
        · have := hh.1 a ha'; omega
        · exact ih hh.2 a b ha' hb' hab
    have := huniq l hasc p (c, g) hp2 h hp1
    simp [this]

theorem glyphIdsGo_spec (l : Mapping) (cp gid : Nat → Nat) (n : Nat)
    (hl : ∀ k, k < n → gidOf l (cp k) = some (gid k)) (hg : ∀ k, k < n → gid k ≤ 0xFFFF) :
    ∀ (len lo c : Nat), lo + len ≤ n → (∀ t, t < len → cp (lo + t) = c + t) →
      ∃ chunk, glyphIdsGo l.reverse len c = some chunk ∧ chunk.length = len ∧
        ∀ t, t < len → chunk[t]? = some (gid (lo + t)) := by
  intro len
  induction len with
  | zero => intro lo c _ _; exact ⟨[], rfl, rfl, fun t h => by omega⟩
  | succ len ih =>
    intro lo c hlen hcp
    have h0 := hcp 0 (by omega)
    simp only [Nat.add_zero] at h0
    obtain ⟨chunk, e1, e2, e3⟩ := ih (lo + 1) (c + 1) (by omega) (fun t ht => by
      have := hcp (t + 1) (by omega)
      rw [show lo + 1 + t = lo + (t + 1) by omega]
      omega)
    have hgl : gidOfR l.reverse c = some (gid lo) := by rw [← h0]; exact hl lo (by omega)
    have hmod : gid lo % 65536 = gid lo := by have := hg lo (by omega); omega
    refine ⟨gid lo :: chunk, ?_, by simp [e2], ?_⟩
    · rw [glyphIdsGo]
      simp [hgl, e1, hmod]
    · intro t ht
      cases t with
      | zero => simp
      | succ t =>
        have := e3 t (by omega)
        simp only [List.getElem?_cons_succ]
        rw [this]
        congr 2
        omega

/-! ## `serialize_rangeoffset_glyph_ids` on a valid list of ranges -/

theorem emitRows_body (cp gid : Nat → Nat) (n : Nat) (l : Mapping)
    (hl : ∀ k, k < n → gidOf l (cp k) = some (gid k))
    (hc : ∀ k, k < n → cp k ≤ 0xFFFF) (hg : ∀ k, k < n → gid k ≤ 0xFFFF) (sc : Nat) :
    ∀ (body : List Range) (lo i nIds : Nat) (rows : List Row) (g : List Nat), BodyOk cp gid lo n body →
      emitRows l.reverse sc i nIds body = some (rows, g) → (sc + nIds + g.length) * 2 ≤ 65535 → i + body.length ≤ sc →
      rows.length = body.length ∧
      ∀ (pg : List Nat), pg.length = nIds → ∀ j (hj : j < (segsOf cp gid lo body).length),
        ∃ row, rows[j]? = some row ∧ RowSpec cp gid sc (i + j) (segsOf cp gid lo body)[j] row (pg ++ g) := by
  intro body
  induction body with
  | nil =>
    intro lo i nIds rows g _ h _ _
    simp only [emitRows] at h
    cases Option.some.inj h
    exact ⟨rfl, fun pg _ j hj => by simp [segsOf] at hj⟩
  | cons r rest ih =>
    intro lo i nIds rows g hbody h hbound hsc
    obtain ⟨s, e, d⟩ := r
    obtain ⟨b1, b2, b3, b4, b5, b6⟩ := hbody
    simp only at b1 b2 b3 b4 b5 b6
    have hclo := hc lo (by omega)
    have hend : cp (lo + (e - s)) = e := by rw [b4 _ (by omega) (Nat.le_refl _)]; omega
    have hcend := hc (lo + (e - s)) b3
    rw [emitRows] at h
    by_cases hd : d ≠ 0
    · simp only [hd, ne_eq, not_false_eq_true, if_true] at h
      cases hr : emitRows l.reverse sc (i + 1) nIds rest with
      | none => simp [hr] at h
      | some res =>
        obtain ⟨rows', g'⟩ := res
        simp only [hr] at h
        cases Option.some.inj h
        obtain ⟨ih1, ih2⟩ := ih _ (i + 1) nIds rows' g b6 hr hbound (by simp at hsc; omega)
        refine ⟨by simp [ih1], fun pg hpg j hj => ?_⟩
        cases j with
        | zero =>
          refine ⟨(s, e, d, 0), by simp, ?_⟩
          simp only [segsOf, List.getElem_cons_zero, RowSpec, segOf, Row.start, Row.end_, Row.delta, Row.off, hd,
            if_false]
          refine ⟨by rw [← b1]; omega, by rw [hend]; omega, ?_, by first | rfl | trivial⟩
          have : (if d = 0 then (none : Option Int) else some ((gid lo : Int) - (cp lo : Int))) =
              some ((gid lo : Int) - (cp lo : Int)) := by simp [hd]
          exact (b5 hd).1
        | succ j =>
          simp only [segsOf, List.length_cons] at hj
          obtain ⟨row, hrow, hspec⟩ := ih2 pg hpg j (by omega)
          refine ⟨row, by simpa using hrow, ?_⟩
          simp only [segsOf, List.getElem_cons_succ]
          rw [show i + (j + 1) = i + 1 + j by omega]
          exact hspec
    · have hd0 : d = 0 := by
        by_cases h0 : d = 0
        · exact h0
        · exact absurd h0 hd
      subst hd0
      simp only [ne_eq, not_true_eq_false, if_false] at h
      obtain ⟨chunk, hch, hlen, hget⟩ := glyphIdsGo_spec l cp gid n hl hg (e + 1 - s) lo s (by omega)
        (fun t ht => by rw [b4 _ (by omega) (by omega)]; omega)
      have hgf : glyphIdsFor l.reverse s e = some chunk := hch
      simp only [hgf] at h
      cases hr : emitRows l.reverse sc (i + 1) (nIds + chunk.length) rest with
      | none => simp [hr] at h
      | some res =>
        obtain ⟨rows', g'⟩ := res
        simp only [hr] at h
        cases Option.some.inj h
        have hbound' : (sc + (nIds + chunk.length) + g'.length) * 2 ≤ 65535 := by
          simp only [List.length_append] at hbound
          omega
        obtain ⟨ih1, ih2⟩ := ih _ (i + 1) (nIds + chunk.length) rows' g' b6 hr hbound' (by simp at hsc; omega)
        refine ⟨by simp [ih1], fun pg hpg j hj => ?_⟩
        cases j with
        | zero =>
          refine ⟨(s, e, 0, ((sc - i + nIds) * 2) % 65536), by simp, ?_⟩
          simp only [segsOf, List.getElem_cons_zero, RowSpec, segOf, Row.start, Row.end_, Row.delta, Row.off,
            if_true, Nat.add_zero]
          refine ⟨by rw [← b1]; omega, by rw [hend]; omega, by first | rfl | trivial, nIds, ?_, ?_, ?_⟩
          · simp only [List.length_append] at hbound
            simp at hsc
            omega
          · simp only [List.length_append] at hbound
            simp at hsc
            omega
          · intro t ht
            rw [← List.append_assoc, List.getElem?_append_left (by simp [hpg, hlen]; omega),
              List.getElem?_append_right (by omega)]
            rw [hpg, show nIds + t - nIds = t by omega]
            exact hget t (by omega)
        | succ j =>
          simp only [segsOf, List.length_cons] at hj
          obtain ⟨row, hrow, hspec⟩ := ih2 (pg ++ chunk) (by simp [hpg]) j (by omega)
          refine ⟨row, by simpa using hrow, ?_⟩
          simp only [segsOf, List.getElem_cons_succ]
          rw [show i + (j + 1) = i + 1 + j by omega, ← List.append_assoc]
          exact hspec

/-- the terminating segment at the end of the list is written as the row (0xFFFF, 0xFFFF, 1, 0) -/
theorem emitRows_snoc_sentinel (l : Mapping) (sc : Nat) : ∀ (body : List Range) (i nIds : Nat),
    emitRows l sc i nIds (body ++ [(0xFFFF, 0xFFFF, 1)]) =
      match emitRows l sc i nIds body with
      | none => none
      | some (rows, g) => some (rows ++ [(0xFFFF, 0xFFFF, 1, 0)], g) := by
  intro body
  induction body with
  | nil => intro i nIds; simp [emitRows]
  | cons r rest ih =>
    intro i nIds
    obtain ⟨s, e, d⟩ := r
    simp only [List.cons_append, emitRows]
    by_cases hd : d ≠ 0
    · simp only [hd, ne_eq, not_false_eq_true, if_true, ih]
      cases emitRows l sc (i + 1) nIds rest with
      | none => rfl
      | some res => obtain ⟨rows, g⟩ := res; rfl
    · simp only [hd, if_false]
      cases glyphIdsFor l s e with
      | none => rfl
      | some chunk =>
        simp only [ih]
        cases emitRows l sc (i + 1) (nIds + chunk.length) rest with
        | none => rfl
        | some res => obtain ⟨rows, g⟩ := res; rfl

theorem emitRows_lengths (l : Mapping) (sc : Nat) : ∀ (rs : List Range) (i nIds : Nat) (rows : List Row) (g : List Nat),
    emitRows l sc i nIds rs = some (rows, g) → rows.length = rs.length := by
  intro rs
  induction rs with
  | nil => intro i nIds rows g h; simp only [emitRows] at h; cases Option.some.inj h; rfl
  | cons r rest ih =>
    intro i nIds rows g h
    obtain ⟨s, e, d⟩ := r
    rw [emitRows] at h
    split at h
    · split at h
      · cases h
      · rename_i rows' g' hr
        cases Option.some.inj h
        simp [ih _ _ _ _ hr]
    · split at h
      · cases h
      · rename_i chunk hch
        split at h
        · cases h
        · rename_i rows' g' hr
          cases Option.some.inj h
          simp [ih _ _ _ _ hr]

theorem tableOfRows_snoc (rows : List Row) (g : List Nat) :
    tableOfRows (rows ++ [(0xFFFF, 0xFFFF, 1, 0)]) g = Cmap4.ofRows rows g := by
  simp [tableOfRows, Cmap4.ofRows, Row.end_, Row.start, Row.delta, Row.off]

/-! ## the index view of a list -/

theorem pairsFrom_list (l : Mapping) : pairsFrom (cpAt l.toArray) (gidAt l.toArray) 0 l.length = l := by
  apply List.ext_getElem
  · simp [pairsFrom]
  · intro k h1 h2
    simp [pairsFrom, cpAt, gidAt, List.getElem?_eq_getElem h2]

theorem index_view (l : Mapping) (k : Nat) (hk : k < l.length) :
    cpAt l.toArray k = l[k].1 ∧ gidAt l.toArray k = l[k].2 := by
  simp [cpAt, gidAt, List.getElem?_eq_getElem hk]

theorem mem_iff_index' (l : Mapping) (c v : Nat) :
    (c, v) ∈ l ↔ ∃ k, k < l.length ∧ cpAt l.toArray k = c ∧ gidAt l.toArray k = v := by
  constructor
  · intro h
    obtain ⟨k, hk, hk2⟩ := List.getElem_of_mem h
    obtain ⟨e1, e2⟩ := index_view l k hk
    exact ⟨k, hk, by rw [e1, hk2], by rw [e2, hk2]⟩
  · rintro ⟨k, hk, h1, h2⟩
    obtain ⟨e1, e2⟩ := index_view l k hk
    have : l[k] = (c, v) := Prod.ext (by rw [← e1, h1]) (by rw [← e2, h2])
    rw [← this]
    exact List.getElem_mem hk

/-- a BMP list in C08's domain (ascending, no U+FFFF, glyph ids 1..=0xFFFF), by index -/
theorem mapOk_of_bmp (l : Mapping) (hd : InDomain l) (hb : ∀ p ∈ l, p.1 ≤ 0xFFFF) :
    MapOk (cpAt l.toArray) (gidAt l.toArray) l.length := by
  constructor
  · intro i j hij hj
    obtain ⟨e1, _⟩ := index_view l i (by omega)
    obtain ⟨e2, _⟩ := index_view l j hj
    rw [e1, e2]
    exact (List.pairwise_iff_getElem.1 hd.asc) i j (by omega) hj hij
  · intro k hk
    obtain ⟨e1, _⟩ := index_view l k hk
    have h1 := hd.cp _ (List.getElem_mem hk)
    have h2 := hb _ (List.getElem_mem hk)
    rw [e1]
    omega
  · intro k hk
    obtain ⟨_, e2⟩ := index_view l k hk
    have := hd.gid _ (List.getElem_mem hk)
    rw [e2]
    omega

/-- `to_ranges` on a BMP list, for ANY heuristic: a valid cover followed by the terminating segment
(which is omitted exactly when the last code point is U+FFFF) -/
theorem toRangesWith_spec (h : Heur) (l : Mapping) (hb : ∀ p ∈ l, p.1 ≤ 0xFFFF ∧ p.2 ≤ 0xFFFF) (hne : l ≠ [])
    (rs : List Range) (hr : toRangesWith h l = some rs) :
    ∃ body, rs = body ++ sentinel (cpAt l.toArray (l.length - 1)) ∧
      BodyOk (cpAt l.toArray) (gidAt l.toArray) 0 l.length body := by
  have hn : 0 < l.length := List.length_pos_iff.2 hne
  have hcp : ∀ k, k < l.length → cpAt l.toArray k ≤ 0xFFFF := fun k hk => by
    rw [(index_view l k hk).1]; exact (hb _ (List.getElem_mem hk)).1
  have hgid : ∀ k, k < l.length → gidAt l.toArray k ≤ 0xFFFF := fun k hk => by
    rw [(index_view l k hk).2]; exact (hb _ (List.getElem_mem hk)).2
  rw [← pairsFrom_list l, pairsFrom_cons _ _ 0 _ hn] at hr
  simp only [toRangesWith] at hr
  exact go_body h _ _ l.length hcp hgid (l.length - 1) 1 (by omega) (by omega) _ 0 0 rs
    (inv_init _ _ 0 (hcp 0 hn) (hgid 0 hn)) hr

/-- `Cmap4::serialize` on a list in the domain, for ANY heuristic: the table is C08's `ofRows` of
rows that match a valid segmentation -/
theorem build4With_spec (h : Heur) (l : Mapping) (hd : InDomain l) (hb : ∀ p ∈ l, p.1 ≤ 0xFFFF) (hne : l ≠ [])
    (t : Cmap4) (ht : build4With h l = .ok t) :
    ∃ body rows g, toRangesWith h l = some (body ++ [(0xFFFF, 0xFFFF, 1)]) ∧
      BodyOk (cpAt l.toArray) (gidAt l.toArray) 0 l.length body ∧ t = Cmap4.ofRows rows g ∧
      RowsMatch (cpAt l.toArray) (gidAt l.toArray) (segsOf (cpAt l.toArray) (gidAt l.toArray) 0 body) rows g := by
  have hn : 0 < l.length := List.length_pos_iff.2 hne
  have hm := mapOk_of_bmp l hd hb
  have hb2 : ∀ p ∈ l, p.1 ≤ 0xFFFF ∧ p.2 ≤ 0xFFFF := fun p hp => ⟨hb p hp, (hd.gid p hp).2⟩
  unfold build4With at ht
  cases hr : toRangesWith h l with
  | none => simp [hr] at ht
  | some ranges =>
    simp only [hr] at ht
    obtain ⟨body, hrs, hbody⟩ := toRangesWith_spec h l hb2 hne ranges hr
    have hlast := hm.cpLt (l.length - 1) (by omega)
    have hsent : sentinel (cpAt l.toArray (l.length - 1)) = [(0xFFFF, 0xFFFF, 1)] := by
      unfold sentinel
      have : cpAt l.toArray (l.length - 1) ≠ 0xFFFF := by omega
      simp [this]
    rw [hsent] at hrs
    subst hrs
    have hL : (body ++ [((0xFFFF : Nat), (0xFFFF : Nat), (1 : Int))]).length = body.length + 1 := by simp
    rw [hL] at ht
    split at ht
    · cases ht
    · rename_i hlen
      rw [emitRows_snoc_sentinel] at ht
      cases he : emitRows l.reverse (body.length + 1) 0 0 body with
      | none => simp [he] at ht
      | some res =>
        obtain ⟨rows, g⟩ := res
        simp only [he] at ht
        split at ht
        · cases ht
        · rename_i hl4
          cases ht
          have hrl := emitRows_lengths l.reverse _ body 0 0 rows g he
          have hbound : (body.length + 1 + 0 + g.length) * 2 ≤ 65535 := by
            simp only [length4, tableOfRows, List.size_toArray, List.length_map, List.length_append,
              List.length_cons, List.length_nil] at hl4
            omega
          have hgl : ∀ k, k < l.length → gidOf l (cpAt l.toArray k) = some (gidAt l.toArray k) := by
            intro k hk
            obtain ⟨e1, e2⟩ := index_view l k hk
            rw [e1, e2]
            exact gidOf_of_mem l hd.asc _ _ (List.getElem_mem hk)
          obtain ⟨s1, s2⟩ := emitRows_body _ _ l.length l hgl (fun k hk => by have := hm.cpLt k hk; omega)
            (fun k hk => (hm.gidOk k hk).2) _ body 0 0 0 rows g hbody he hbound (by simp)
          refine ⟨body, rows, g, rfl, hbody, tableOfRows_snoc rows g, ?_⟩
          refine ⟨by rw [s1, segsOf_length], fun j hj => ?_⟩
          obtain ⟨row, hrow, hspec⟩ := s2 [] rfl j hj
          refine ⟨row, hrow, ?_⟩
          simp only [segsOf_length, Nat.zero_add, List.nil_append] at hspec ⊢
          exact hspec

end FontVerif.SubsetCmap
