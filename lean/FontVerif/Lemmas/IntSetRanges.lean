/- C14 / IntSet helper lemmas, part 8: `iter_ranges` / `iter_excluded_ranges` of `IntSet` on
continuous domains (`complementRanges`), and `intersects_set`. -/
import FontVerif.Lemmas.IntSetView
set_option linter.unusedVariables false
set_option linter.unusedSimpArgs false
namespace FontVerif.IntSet

/-! ### `complementRanges` (`RangeIter::next_exclusive`) -/

theorem complementRanges_spec (max min : Nat) (rs : List (Nat × Nat)) (hr : NRInv rs)
    (hb : ∀ p ∈ rs, min ≤ p.1 ∧ p.2 ≤ max) (hmm : min ≤ max) :
    NRInv (complementRanges min max rs) ∧
    (∀ x, NMem (complementRanges min max rs) x ↔ min ≤ x ∧ x ≤ max ∧ ¬ NMem rs x) ∧
    (∀ q ∈ complementRanges min max rs, min ≤ q.1) := by
  fun_induction complementRanges min max rs with
  | case1 min =>
    refine ⟨nrinv_cons.2 ⟨by simp, hmm, nrinv_nil⟩, fun x => ?_, by simp⟩
    rw [nmem_cons]
    simp [nmem_nil]
  | case2 min s e rest hin hge =>
    refine ⟨nrinv_nil, fun x => ?_, by simp⟩
    rw [nmem_cons]
    simp only [nmem_nil, false_iff, not_and, Classical.not_not]
    intro h1 h2
    exact Or.inl (by omega)
  | case3 min s e rest hin hnge ih =>
    have hr' := nrinv_cons.1 hr
    simp only at hr'
    have hb1 := hb (s, e) (by simp)
    obtain ⟨i1, i2, i3⟩ := ih hr'.2.2
      (fun p hp => ⟨by have := hr'.1 p hp; omega, (hb p (by simp [hp])).2⟩) (by omega)
    refine ⟨i1, fun x => ?_, fun q hq => by have := i3 q hq; omega⟩
    rw [i2 x, nmem_cons]
    simp only
    constructor
    · rintro ⟨h1, h2, h3⟩
      exact ⟨by omega, h2, fun h4 => h4.elim (by omega) h3⟩
    · rintro ⟨h1, h2, h3⟩
      have : ¬ (s ≤ x ∧ x ≤ e) := fun h4 => h3 (Or.inl h4)
      exact ⟨by omega, h2, fun h4 => h3 (Or.inr h4)⟩
  | case4 min s e rest hnin result hlt ih =>
    have hr' := nrinv_cons.1 hr
    simp only at hr'
    have hb1 := hb (s, e) (by simp)
    simp only at hb1
    have hms : min < s := by omega
    obtain ⟨i1, i2, i3⟩ := ih hr'.2.2
      (fun p hp => ⟨by have := hr'.1 p hp; omega, (hb p (by simp [hp])).2⟩) (by omega)
    rw [show result = (min, s - 1) from rfl]
    refine ⟨nrinv_cons.2 ⟨fun q hq => by have := i3 q hq; simp only; omega, by simp only; omega, i1⟩,
      fun x => ?_, ?_⟩
    · rw [nmem_cons, i2 x, nmem_cons]
      simp only
      constructor
      · rintro (h1 | ⟨h1, h2, h3⟩)
        · refine ⟨h1.1, by omega, fun h4 => ?_⟩
          rcases h4 with h4 | ⟨p, hp, h5, h6⟩
          · omega
          · have := hr'.1 p hp; omega
        · exact ⟨by omega, h2, fun h4 => h4.elim (by omega) h3⟩
      · rintro ⟨h1, h2, h3⟩
        have : ¬ (s ≤ x ∧ x ≤ e) := fun h4 => h3 (Or.inl h4)
        by_cases hx : x < s
        · exact Or.inl (by omega)
        · exact Or.inr ⟨by omega, h2, fun h4 => h3 (Or.inr h4)⟩
    · intro q hq
      simp only [List.mem_cons] at hq
      rcases hq with rfl | hq
      · exact Nat.le_refl _
      · have := i3 q hq; omega
  | case5 min s e rest hnin result hnlt =>
    have hr' := nrinv_cons.1 hr
    simp only at hr'
    have hb1 := hb (s, e) (by simp)
    simp only at hb1
    have hms : min < s := by omega
    rw [show result = (min, s - 1) from rfl]
    refine ⟨nrinv_cons.2 ⟨by simp, by simp only; omega, nrinv_nil⟩, fun x => ?_, ?_⟩
    · rw [nmem_cons, nmem_cons]
      simp only [nmem_nil, or_false]
      constructor
      · rintro ⟨h1, h2⟩
        refine ⟨h1, by omega, fun h4 => ?_⟩
        rcases h4 with h4 | ⟨p, hp, h5, h6⟩
        · omega
        · have := hr'.1 p hp; omega
      · rintro ⟨h1, h2, h3⟩
        have : ¬ (s ≤ x ∧ x ≤ e) := fun h4 => h3 (Or.inl h4)
        omega
    · intro q hq
      simp only [List.mem_singleton] at hq
      subst hq
      exact Nat.le_refl _

/-! ### `iter_ranges_invertible` on a continuous domain -/

theorem contains_single {d : Domain} {lo hi : Nat} (hr : d.ranges = [(lo, hi)]) (x : Nat) :
    d.contains x = true ↔ lo ≤ x ∧ x ≤ hi := by
  rw [Domain.contains_iff, hr]; simp

/-- `iter_ranges_invertible(inv)` on a continuous domain: a sorted, disjoint, non-adjacent range
list covering exactly the members (`inv = false`) resp. the non-members (`inv = true`) -/
theorem IntSet.rangesInvertible_spec {d : Domain} (hd : DomWF d) (hc : d.continuous = true)
    {s : IntSet} (h : IInvD d s) (inv : Bool) :
    NRInv (s.rangesInvertible d inv) ∧
    ∀ x, NMem (s.rangesInvertible d inv) x ↔
      d.contains x = true ∧ (s.contains x ^^ inv) = true := by
  obtain ⟨lo, hi, hr⟩ := hd.cont hc
  obtain ⟨r1, r2⟩ := BitSet.ranges_spec _ h.1
  have hlohi : lo ≤ hi := by
    have := hd.sorted.2 (lo, hi) (by rw [hr]; simp); exact this
  unfold IntSet.rangesInvertible
  by_cases hm : s.inverted = inv
  · rw [if_pos hm, if_pos hc]
    refine ⟨r1, fun x => ?_⟩
    rw [r2, IntSet.contains_eq, hm]
    constructor
    · intro hx
      refine ⟨h.2 x hx, ?_⟩
      rw [hx]; cases inv <;> rfl
    · rintro ⟨_, hx⟩
      cases inv <;> cases hsx : s.set.contains x <;> simp_all
  · rw [if_neg hm, if_pos hc]
    have hmin : d.min? = some lo := by simp [Domain.min?, hr]
    have hmax : d.max? = some hi := by simp [Domain.max?, hr]
    rw [hmin, hmax]
    simp only []
    have hb : ∀ p ∈ s.set.ranges, lo ≤ p.1 ∧ p.2 ≤ hi := by
      intro p hp
      have hp' := r1.2 p hp
      have h1 := h.2 p.1 ((r2 p.1).1 ⟨p, hp, Nat.le_refl _, hp'⟩)
      have h2 := h.2 p.2 ((r2 p.2).1 ⟨p, hp, hp', Nat.le_refl _⟩)
      rw [contains_single hr] at h1 h2
      omega
    obtain ⟨c1, c2, _⟩ := complementRanges_spec hi lo s.set.ranges r1 hb hlohi
    refine ⟨c1, fun x => ?_⟩
    rw [c2, r2, contains_single hr, IntSet.contains_eq]
    have hne : s.inverted = !inv := by
      cases hs : s.inverted <;> cases inv <;> simp_all
    rw [hne]
    constructor
    · rintro ⟨h1, h2, h3⟩
      refine ⟨⟨h1, h2⟩, ?_⟩
      simp only [Bool.not_eq_true] at h3
      rw [h3]; cases inv <;> rfl
    · rintro ⟨⟨h1, h2⟩, h3⟩
      refine ⟨h1, h2, ?_⟩
      cases inv <;> cases hsx : s.set.contains x <;> simp_all

/-- `iter_ranges()`: canonical ranges of the members -/
theorem IntSet.ranges_spec {d : Domain} (hd : DomWF d) (hc : d.continuous = true)
    {s : IntSet} (h : IInvD d s) :
    NRInv (s.ranges d) ∧
    (∀ x, NMem (s.ranges d) x ↔ d.contains x = true ∧ s.contains x = true) ∧
    expand (s.ranges d) = s.elems d := by
  obtain ⟨h1, h2⟩ := IntSet.rangesInvertible_spec hd hc h false
  have h2' : ∀ x, NMem (s.ranges d) x ↔ d.contains x = true ∧ s.contains x = true := by
    intro x; unfold IntSet.ranges; rw [h2 x]; simp
  refine ⟨h1, h2', ?_⟩
  apply asc_ext (expand_asc (NRInv.rsorted h1)) (elems_asc hd s)
  intro x
  rw [mem_expand_iff_nmem, mem_elems]
  exact h2' x

/-- `iter_excluded_ranges()`: canonical ranges of the non-members -/
theorem IntSet.excludedRanges_spec {d : Domain} (hd : DomWF d) (hc : d.continuous = true)
    {s : IntSet} (h : IInvD d s) :
    NRInv (s.excludedRanges d) ∧
    (∀ x, NMem (s.excludedRanges d) x ↔ d.contains x = true ∧ s.contains x = false) ∧
    expand (s.excludedRanges d) = s.invert.elems d := by
  obtain ⟨h1, h2⟩ := IntSet.rangesInvertible_spec hd hc h true
  have h2' : ∀ x, NMem (s.excludedRanges d) x ↔ d.contains x = true ∧ s.contains x = false := by
    intro x; unfold IntSet.excludedRanges; rw [h2 x]; simp
  refine ⟨h1, h2', ?_⟩
  apply asc_ext (expand_asc (NRInv.rsorted h1)) (elems_asc hd s.invert)
  intro x
  rw [mem_expand_iff_nmem, mem_elems, IntSet.invert_contains]
  have := h2' x
  unfold IntSet.excludedRanges at this
  rw [this]
  simp

/-! ### `intersects_set` -/

theorem any_ranges_spec {d : Domain} (hd : DomWF d) (hc : d.continuous = true)
    {x y : IntSet} (hx : IInvD d x) (hy : IInvD d y) :
    (y.ranges d).any (fun r => x.intersectsRange d r.1 r.2) = true ↔
      ∃ v, d.contains v = true ∧ x.contains v = true ∧ y.contains v = true := by
  obtain ⟨r1, r2, _⟩ := IntSet.ranges_spec hd hc hy
  rw [List.any_eq_true]
  constructor
  · rintro ⟨r, hr, hi⟩
    have hwf := r1.2 r hr
    have hstart := (r2 r.1).1 ⟨r, hr, Nat.le_refl _, hwf⟩
    rw [IntSet.intersectsRange_spec hd hx r.1 r.2 hstart.1] at hi
    obtain ⟨v, h1, h2, h3, h4⟩ := hi
    exact ⟨v, h3, h4, ((r2 v).1 ⟨r, hr, h1, h2⟩).2⟩
  · rintro ⟨v, h1, h2, h3⟩
    obtain ⟨r, hr, h4, h5⟩ := (r2 v).2 ⟨h1, h3⟩
    have hwf := r1.2 r hr
    have hstart := (r2 r.1).1 ⟨r, hr, Nat.le_refl _, hwf⟩
    refine ⟨r, hr, ?_⟩
    rw [IntSet.intersectsRange_spec hd hx r.1 r.2 hstart.1]
    exact ⟨v, h4, h5, h1, h2⟩

/-- `IntSet::intersects_set`, every mode combination, whichever side is iterated -/
theorem IntSet.intersectsSet_spec {d : Domain} (hd : DomWF d) (hc : d.continuous = true)
    {a b : IntSet} (ha : IInvD d a) (hb : IInvD d b) :
    a.intersectsSet d b = true ↔
      ∃ v, d.contains v = true ∧ a.contains v = true ∧ b.contains v = true := by
  unfold IntSet.intersectsSet
  by_cases hlen : a.set.pages.length > b.set.pages.length
  · simp only [hlen, if_true]
    rw [any_ranges_spec hd hc ha hb]
  · simp only [hlen, if_false]
    rw [any_ranges_spec hd hc hb ha]
    constructor
    · rintro ⟨v, h1, h2, h3⟩; exact ⟨v, h1, h3, h2⟩
    · rintro ⟨v, h1, h2, h3⟩; exact ⟨v, h1, h3, h2⟩

end FontVerif.IntSet
