/- helper lemmas for Props/C10.lean: IUP optimiser and reader-side inference -/
import FontVerif.Model.Iup
set_option linter.unusedVariables false
namespace FontVerif.Iup
open FontVerif

theorem reader_eq_writer_axis (in1 d1 in2 d2 c : Int) :
    (readerAxis in1 d1 in2 d2 c).1 * (iupAxis in1 d1 in2 d2 c).2
      = (iupAxis in1 d1 in2 d2 c).1 * (readerAxis in1 d1 in2 d2 c).2
    ∧ (readerAxis in1 d1 in2 d2 c).2 = (iupAxis in1 d1 in2 d2 c).2
    ∧ 0 < (iupAxis in1 d1 in2 d2 c).2 := by
  unfold readerAxis iupAxis
  by_cases h : in1 = in2
  · subst h
    by_cases hd : d1 = d2
    · subst hd; simp
      by_cases hc : c ≤ in1
      · simp [hc]
      · have : in1 ≤ c := by omega
        simp [hc, this]
    · have : ¬ (in1 + d1 = in1 + d2) := by omega
      simp [hd, this]
  · by_cases hg : in1 > in2
    · have h1 : ¬ (in2 = in1) := by omega
      simp only [h, hg, if_true, if_false, h1, ne_eq, not_false_eq_true, true_or]
      split
      · simp
      · split
        · simp
        · refine ⟨?_, rfl, by omega⟩
          simp only []
          grind
    · have h1 : ¬ (in1 = in2) := h
      simp only [h, hg, if_false, ne_eq, not_false_eq_true, true_or, if_true]
      split
      · simp
      · split
        · simp
        · refine ⟨?_, rfl, by omega⟩
          simp only []
          grind

/-- the DP's invariant for one `chain` entry -/
def ChainOk (t : Tol) (ds cs : List Pt) (i : Nat) : Option Nat → Prop
  | some j => j + 1 = i ∨ (j + 2 ≤ i ∧ canIup t ds cs (j : Int) i = true)
  | none => i = 0 ∨ canIup t ds cs (-1) i = true

theorem dpInner_ok (t : Tol) (ds cs : List Pt) (must : List Bool) (costs : List Int) (i : Nat) :
    ∀ (steps : Nat) (j best : Int) (ch : Option Nat), j ≤ (i : Int) - 2 → -2 ≤ j - steps →
    ChainOk t ds cs i ch → ChainOk t ds cs i (dpInner t ds cs must costs i steps j best ch).2 := by
  intro steps
  induction steps with
  | zero => intro j best ch _ _ h; simpa [dpInner] using h
  | succ s ih =>
    intro j best ch hj hlow hch
    have hj1 : -1 ≤ j := by omega
    simp only [dpInner]
    by_cases h0 : j ≥ 0
    · simp only [h0, if_true]
      generalize hupd : (decide (costs.getD j.toNat 0 + 1 < best) && canIup t ds cs j i) = upd
      have hch' : ChainOk t ds cs i (if upd = true then some j.toNat else ch) := by
        cases upd with
        | false => simpa using hch
        | true =>
          have hc : canIup t ds cs j i = true := by
            have := hupd; simp only [Bool.and_eq_true] at this; exact this.2
          simp only [if_true, ChainOk]
          right
          have e : ((j.toNat : Nat) : Int) = j := Int.toNat_of_nonneg h0
          refine ⟨by omega, ?_⟩
          rw [e]; exact hc
      split
      · exact hch'
      · exact ih (j - 1) _ _ (by omega) (by omega) hch'
    · simp only [h0, if_false]
      generalize hupd : (decide (1 < best) && canIup t ds cs j i) = upd
      have hch' : ChainOk t ds cs i (if upd = true then none else ch) := by
        cases upd with
        | false => simpa using hch
        | true =>
          have hc : canIup t ds cs j i = true := by
            have := hupd; simp only [Bool.and_eq_true] at this; exact this.2
          have e : j = -1 := by omega
          simp only [if_true, ChainOk]
          right; rw [← e]; exact hc
      simp only [Bool.false_eq_true, if_false]
      exact ih (j - 1) _ _ (by omega) (by omega) hch'

/-- all chain entries below `i` satisfy the invariant -/
def ChainsOk (t : Tol) (ds cs : List Pt) (chain : List (Option Nat)) : Prop :=
  ∀ k, k < chain.length → ChainOk t ds cs k (chain.getD k none)

theorem chainsOk_snoc (t : Tol) (ds cs : List Pt) (chain : List (Option Nat)) (ch : Option Nat)
    (h : ChainsOk t ds cs chain) (hc : ChainOk t ds cs chain.length ch) :
    ChainsOk t ds cs (chain ++ [ch]) := by
  intro k hk
  simp only [List.length_append, List.length_cons, List.length_nil] at hk
  by_cases hlt : k < chain.length
  · have : (chain ++ [ch]).getD k none = chain.getD k none := by
      simp [List.getD_eq_getElem?_getD, List.getElem?_append_left hlt]
    rw [this]; exact h k hlt
  · have hk' : k = chain.length := by omega
    subst hk'
    have : (chain ++ [ch]).getD chain.length none = ch := by
      simp [List.getD_eq_getElem?_getD]
    rw [this]; exact hc

theorem dpOuter_ok (t : Tol) (ds cs : List Pt) (must : List Bool) (lb n : Nat) :
    ∀ (fuel i : Nat) (costs : List Int) (chain : List (Option Nat)), chain.length = i →
    ChainsOk t ds cs chain → ChainsOk t ds cs (dpOuter t ds cs must lb n fuel i costs chain).2 := by
  intro fuel
  induction fuel with
  | zero => intro i costs chain _ h; simpa [dpOuter] using h
  | succ f ih =>
    intro i costs chain hlen h
    simp only [dpOuter]
    split
    · exact h
    · have hinit : ChainOk t ds cs i (if i > 0 then some (i - 1) else none) := by
        by_cases hi : i > 0
        · simp only [hi, if_true, ChainOk]; left; omega
        · simp only [hi, if_false, ChainOk]; left; omega
      split
      · apply ih (i + 1) _ _ (by simp [hlen])
        apply chainsOk_snoc _ _ _ _ _ h
        rw [hlen]; exact hinit
      · apply ih (i + 1) _ _ (by simp [hlen])
        apply chainsOk_snoc _ _ _ _ _ h
        rw [hlen]
        apply dpInner_ok
        · omega
        · have : ((↑i - 2 - max ((i : Int) - ↑lb) (-2)).toNat : Int) ≤ max (↑i - 2 - max ((i : Int) - ↑lb) (-2)) 0 := by
            omega
          omega
        · exact hinit

theorem contourDp_ok (t : Tol) (ds cs : List Pt) (must : List Bool) (lb : Nat) :
    ChainsOk t ds cs (contourDp t ds cs must lb).2 := by
  unfold contourDp
  simp only []
  split
  · intro k hk
    simp only [List.length_map, List.length_range] at hk
    have : ((List.range ds.length).map fun i => if i > 0 then some (i - 1) else none).getD k none
        = if k > 0 then some (k - 1) else none := by
      simp [List.getD_eq_getElem?_getD, hk]
    rw [this]
    by_cases hi : k > 0
    · simp only [hi, if_true, ChainOk]; left; omega
    · simp only [hi, if_false, ChainOk]; left; omega
  · apply dpOuter_ok _ _ _ _ _ _ _ 0 [] [] rfl
    intro k hk; simp at hk

/-! ### nearest retained neighbour: linear search lemmas (no modular arithmetic) -/

theorem prevFrom_lin (enc : List Bool) (n : Nat) :
    ∀ (d f p a : Nat), p = a + d → d < f → enc.getD a false = true →
      (∀ j, a < j → j ≤ p → enc.getD j false = false) → prevFrom enc n f p = some a := by
  intro d
  induction d with
  | zero =>
    intro f p a hp hf ha _
    obtain ⟨f', rfl⟩ : ∃ f', f = f' + 1 := ⟨f - 1, by omega⟩
    have : p = a := by omega
    subst this
    simp only [prevFrom, ha, if_true]
  | succ d ih =>
    intro f p a hp hf ha hno
    obtain ⟨f', rfl⟩ : ∃ f', f = f' + 1 := ⟨f - 1, by omega⟩
    have hpf : enc.getD p false = false := hno p (by omega) (by omega)
    have hpred : predC n p = p - 1 := by unfold predC; split <;> omega
    simp only [prevFrom, hpf, Bool.false_eq_true, if_false, hpred]
    exact ih f' (p - 1) a (by omega) (by omega) ha (fun j h1 h2 => hno j h1 (by omega))

theorem prevFrom_wrap (enc : List Bool) (n : Nat) (hn : 0 < n) (hlast : enc.getD (n - 1) false = true) :
    ∀ (p f : Nat), p + 1 < f → (∀ j, j ≤ p → enc.getD j false = false) →
      prevFrom enc n f p = some (n - 1) := by
  intro p
  induction p with
  | zero =>
    intro f hf hno
    obtain ⟨f', rfl⟩ : ∃ f', f = f' + 2 := ⟨f - 2, by omega⟩
    have h0 : enc.getD 0 false = false := hno 0 (by omega)
    simp only [prevFrom, h0, predC, hlast, if_true, Bool.false_eq_true, if_false]
  | succ p ih =>
    intro f hf hno
    obtain ⟨f', rfl⟩ : ∃ f', f = f' + 1 := ⟨f - 1, by omega⟩
    have hpf : enc.getD (p + 1) false = false := hno (p + 1) (by omega)
    have hpred : predC n (p + 1) = p := by unfold predC; split <;> omega
    simp only [prevFrom, hpf, Bool.false_eq_true, if_false, hpred]
    exact ih f' (by omega) (fun j h => hno j (by omega))

theorem nextFrom_lin (enc : List Bool) (n : Nat) :
    ∀ (d f p b : Nat), b = p + d → d < f → b < n → enc.getD b false = true →
      (∀ j, p ≤ j → j < b → enc.getD j false = false) → nextFrom enc n f p = some b := by
  intro d
  induction d with
  | zero =>
    intro f p b hp hf hb ha _
    obtain ⟨f', rfl⟩ : ∃ f', f = f' + 1 := ⟨f - 1, by omega⟩
    have : b = p := by omega
    subst this
    simp only [nextFrom, ha, if_true]
  | succ d ih =>
    intro f p b hp hf hb ha hno
    obtain ⟨f', rfl⟩ : ∃ f', f = f' + 1 := ⟨f - 1, by omega⟩
    have hpf : enc.getD p false = false := hno p (by omega) (by omega)
    have hsucc : succC n p = p + 1 := by unfold succC; split <;> omega
    simp only [nextFrom, hpf, Bool.false_eq_true, if_false, hsucc]
    exact ih f' (p + 1) b (by omega) (by omega) hb ha (fun j h1 h2 => hno j (by omega) h2)

theorem prevFrom_none (enc : List Bool) (n : Nat) (h : ∀ j, enc.getD j false = false) :
    ∀ f p, prevFrom enc n f p = none := by
  intro f; induction f with
  | zero => intro p; rfl
  | succ f ih => intro p; simp only [prevFrom, h p, Bool.false_eq_true, if_false, ih]

/-- rotation `σ i = (i + r) mod n` written without `%` -/
def rotIx (n r i : Nat) : Nat := if i + r < n then i + r else i + r - n

theorem prevFrom_rot (enc enc' : List Bool) (n r : Nat) (hr : r ≤ n)
    (henc : ∀ i, i < n → enc'.getD i false = enc.getD (rotIx n r i) false) :
    ∀ f p, p < n → prevFrom enc n f (rotIx n r p) = (prevFrom enc' n f p).map (rotIx n r) := by
  intro f; induction f with
  | zero => intro p _; rfl
  | succ f ih =>
    intro p hp
    simp only [prevFrom, ← henc p hp]
    split
    · rfl
    · have : predC n (rotIx n r p) = rotIx n r (predC n p) := by
        unfold predC rotIx; (repeat' split) <;> omega
      rw [this]
      exact ih _ (by unfold predC; split <;> omega)

theorem nextFrom_rot (enc enc' : List Bool) (n r : Nat) (hr : r ≤ n)
    (henc : ∀ i, i < n → enc'.getD i false = enc.getD (rotIx n r i) false) :
    ∀ f p, p < n → nextFrom enc n f (rotIx n r p) = (nextFrom enc' n f p).map (rotIx n r) := by
  intro f; induction f with
  | zero => intro p _; rfl
  | succ f ih =>
    intro p hp
    simp only [nextFrom, ← henc p hp]
    split
    · rfl
    · have : succC n (rotIx n r p) = rotIx n r (succC n p) := by
        unfold succC rotIx; (repeat' split) <;> omega
      rw [this]
      exact ih _ (by unfold succC; split <;> omega)


/-- `a` is the nearest retained point before `k` in a contour whose last point `n-1` is retained -/
def LinPrev (m : Nat → Bool) (n k a : Nat) : Prop :=
  (a < k ∧ m a = true ∧ ∀ j, a < j → j < k → m j = false) ∨
  (a = n - 1 ∧ m a = true ∧ ∀ j, j < k → m j = false)

def LinNext (m : Nat → Bool) (n k b : Nat) : Prop :=
  k < b ∧ b < n ∧ m b = true ∧ ∀ j, k < j → j < b → m j = false

theorem prevReq_of_LinPrev (enc : List Bool) (n k a : Nat) (hk : k < n)
    (h : LinPrev (fun i => enc.getD i false) n k a) : prevReq enc n k = some a := by
  unfold prevReq
  rcases h with ⟨hak, ha, hno⟩ | ⟨han, ha, hno⟩
  · have hpred : predC n k = k - 1 := by unfold predC; split <;> omega
    rw [hpred]
    exact prevFrom_lin enc n (k - 1 - a) n (k - 1) a (by omega) (by omega) ha
      (fun j h1 h2 => hno j h1 (by omega))
  · subst han
    by_cases hk0 : k = 0
    · subst hk0
      have : predC n 0 = n - 1 := by simp [predC]
      rw [this]
      obtain ⟨f', rfl⟩ : ∃ f', n = f' + 1 := ⟨n - 1, by omega⟩
      simp only [prevFrom]
      simp only [Nat.add_sub_cancel] at ha
      simp only [Nat.add_sub_cancel, ha, if_true]
    · have hpred : predC n k = k - 1 := by unfold predC; split <;> omega
      rw [hpred]
      exact prevFrom_wrap enc n (by omega) ha (k - 1) n (by omega) (fun j hj => hno j (by omega))

theorem nextReq_of_LinNext (enc : List Bool) (n k b : Nat)
    (h : LinNext (fun i => enc.getD i false) n k b) : nextReq enc n k = some b := by
  unfold nextReq
  obtain ⟨hkb, hbn, hb, hno⟩ := h
  have hsucc : succC n k = k + 1 := by unfold succC; split <;> omega
  rw [hsucc]
  exact nextFrom_lin enc n (b - (k + 1)) n (k + 1) b (by omega) (by omega) hbn hb
    (fun j h1 h2 => hno j (by omega) h2)

/-- soundness of a set `enc` of retained deltas for one contour: every omitted delta is
reproduced by the specification's inference within the tolerance -/
def Sound (t : Tol) (ds cs : List Pt) (enc : List Bool) : Prop :=
  ∀ k, k < ds.length → enc.getD k false = false →
    withinTol t (getP ds k) (inferSpec cs ds enc k).1 (inferSpec cs ds enc k).2 = true

theorem getD_map_range (n : Nat) (f : Nat → Bool) (i : Nat) (hi : i < n) :
    ((List.range n).map f).getD i false = f i := by
  simp [List.getD_eq_getElem?_getD, hi]

/-- a linear certificate in rotated coordinates (last point retained, every omitted point
checked against its nearest retained neighbours) gives soundness in the original coordinates -/
theorem sound_of_cert (t : Tol) (ds cs : List Pt) (enc : List Bool) (n r : Nat)
    (hn : ds.length = n) (hr : r ≤ n) (m' : Nat → Bool)
    (hm : ∀ i, i < n → m' i = enc.getD (rotIx n r i) false)
    (cert : ∀ k', k' < n → m' k' = false → ∃ a' b', LinPrev m' n k' a' ∧ LinNext m' n k' b' ∧
      okAt t ds cs (rotIx n r a') (rotIx n r b') (rotIx n r k') = true) :
    Sound t ds cs enc := by
  intro k hk hek
  rw [hn] at hk
  let k' := if k ≥ r then k - r else k + n - r
  have hk' : k' < n := by simp only [k']; split <;> omega
  have hkk : rotIx n r k' = k := by simp only [k', rotIx]; (repeat' split) <;> omega
  have hmk : m' k' = false := by rw [hm k' hk', hkk]; exact hek
  obtain ⟨a', b', hp, hnx, hok⟩ := cert k' hk' hmk
  let enc' := (List.range n).map m'
  have henc' : ∀ i, i < n → enc'.getD i false = enc.getD (rotIx n r i) false := by
    intro i hi; rw [← hm i hi]; exact getD_map_range n m' i hi
  have hb'n : b' < n := hnx.2.1
  have ha'n : a' < n := by
    rcases hp with ⟨h, _, _⟩ | ⟨h, _, _⟩ <;> omega
  have e1 : ∀ i, i < n → (fun i => enc'.getD i false) i = m' i := fun i hi => getD_map_range n m' i hi
  have hp' : LinPrev (fun i => enc'.getD i false) n k' a' := by
    rcases hp with ⟨h1, h2, h3⟩ | ⟨h1, h2, h3⟩
    · left; refine ⟨h1, by rw [e1 a' ha'n]; exact h2, fun j hj1 hj2 => ?_⟩
      rw [e1 j (by omega)]; exact h3 j hj1 hj2
    · right; refine ⟨h1, by rw [e1 a' ha'n]; exact h2, fun j hj => ?_⟩
      rw [e1 j (by omega)]; exact h3 j hj
  have hn' : LinNext (fun i => enc'.getD i false) n k' b' := by
    obtain ⟨h1, h2, h3, h4⟩ := hnx
    refine ⟨h1, h2, by rw [e1 b' h2]; exact h3, fun j hj1 hj2 => ?_⟩
    rw [e1 j (by omega)]; exact h4 j hj1 hj2
  have hprev : prevReq enc n k = some (rotIx n r a') := by
    have h1 := prevReq_of_LinPrev enc' n k' a' hk' hp'
    unfold prevReq at h1 ⊢
    have hpc : predC n k = rotIx n r (predC n k') := by
      rw [← hkk]; unfold predC rotIx; (repeat' split) <;> omega
    rw [hpc, prevFrom_rot enc enc' n r hr henc' n _ (by unfold predC; split <;> omega), h1]
    rfl
  have hnext : nextReq enc n k = some (rotIx n r b') := by
    have h1 := nextReq_of_LinNext enc' n k' b' hn'
    unfold nextReq at h1 ⊢
    have hpc : succC n k = rotIx n r (succC n k') := by
      rw [← hkk]; unfold succC rotIx; (repeat' split) <;> omega
    rw [hpc, nextFrom_rot enc enc' n r hr henc' n _ (by unfold succC; split <;> omega), h1]
    rfl
  unfold inferSpec
  rw [hn, hek, hprev, hnext]
  simp only [Bool.false_eq_true, if_false]
  rw [← hkk]
  exact hok

/-! ### what `can_iup_in_between` guarantees -/

theorem all_range {n : Nat} {p : Nat → Bool} (h : (List.range n).all p = true) (k : Nat) (hk : k < n) :
    p k = true := by
  rw [List.all_eq_true] at h
  exact h k (List.mem_range.mpr hk)

theorem canIup_some (t : Tol) (D C : List Pt) (j i : Nat) (h : canIup t D C (j : Int) i = true)
    (k : Nat) (h1 : j < k) (h2 : k < i) : okAt t D C j i k = true := by
  unfold canIup at h
  have hj : ¬ ((j : Int) < 0) := by omega
  simp only [hj, if_false] at h
  have e1 : ((j : Int)).toNat = j := by omega
  have e2 : ((j : Int) + 1).toNat = j + 1 := by omega
  rw [e1, e2] at h
  have := all_range h (k - (j + 1)) (by omega)
  have e3 : j + 1 + (k - (j + 1)) = k := by omega
  rw [e3] at this
  exact this

theorem canIup_neg (t : Tol) (D C : List Pt) (i : Nat) (h : canIup t D C (-1) i = true)
    (k : Nat) (h2 : k < i) : okAt t D C (D.length - 1) i k = true := by
  unfold canIup at h
  have hj : ((-1 : Int) < 0) := by omega
  simp only [hj, if_true] at h
  have e2 : ((-1 : Int) + 1).toNat = 0 := by omega
  rw [e2] at h
  have := all_range h k (by omega)
  simpa using this

/-- `chain` only points downwards -/
theorem chain_desc (t : Tol) (D C : List Pt) (chain : List (Option Nat)) (h : ChainsOk t D C chain)
    (i j : Nat) (hij : chain.getD i none = some j) : j < i ∧ i < chain.length := by
  by_cases hi : i < chain.length
  · have := h i hi
    rw [hij] at this
    simp only [ChainOk] at this
    omega
  · have : chain.getD i none = none := by
      simp [List.getD_eq_getElem?_getD, List.getElem?_eq_none (by omega : chain.length ≤ i)]
    rw [this] at hij; cases hij

def loOf : Option Nat → Nat
  | none => 0
  | some l => l + 1

def refOf (N : Nat) : Option Nat → Nat
  | none => N - 1
  | some l => l

theorem gtLim_iff (lim : Option Nat) (i : Nat) : gtLim lim i = true ↔ loOf lim ≤ i := by
  cases lim with
  | none => simp [gtLim, loOf]
  | some l => simp only [gtLim, loOf, decide_eq_true_eq]; omega

theorem walkLim_none (chain : List (Option Nat)) (lim : Option Nat) (f : Nat) :
    walkLim chain lim f none = ([], none) := by cases f <;> rfl

/-- every index visited by the walk from `i` is at most `i` -/
theorem walkLim_le (t : Tol) (D C : List Pt) (chain : List (Option Nat)) (h : ChainsOk t D C chain)
    (lim : Option Nat) : ∀ (f i : Nat) (e : Nat), e ∈ (walkLim chain lim f (some i)).1 → e ≤ i := by
  intro f
  induction f with
  | zero => intro i e he; simp [walkLim] at he
  | succ f ih =>
    intro i e he
    by_cases hgt : gtLim lim i = true
    · simp only [walkLim, hgt, if_true, List.mem_cons] at he
      rcases he with rfl | he
      · omega
      · cases hc : chain.getD i none with
        | none =>
          rw [hc, walkLim_none] at he
          simp at he
        | some j =>
          rw [hc] at he
          have := ih j e he
          have := (chain_desc t D C chain h i j hc).1
          omega
    · simp only [walkLim, hgt] at he
      simp at he

/-- with `lim = none` and enough fuel the walk ends at `None` -/
theorem walkLim_fin_none (t : Tol) (D C : List Pt) (chain : List (Option Nat)) (h : ChainsOk t D C chain) :
    ∀ (f i : Nat), i < f → (walkLim chain none f (some i)).2 = none := by
  intro f
  induction f with
  | zero => intro i hi; omega
  | succ f ih =>
    intro i hi
    have hgt : gtLim none i = true := rfl
    simp only [walkLim, hgt, if_true]
    cases hc : chain.getD i none with
    | none => rw [walkLim_none]
    | some j =>
      have := (chain_desc t D C chain h i j hc).1
      exact ih j (by omega)

/-- nearest retained point below `k` in window coordinates: inside the window, or the wrap
reference `R` when there is none -/
def PrevZ (m : Nat → Bool) (lo R k a : Nat) : Prop :=
  (lo ≤ a ∧ a < k ∧ m a = true ∧ ∀ j, a < j → j < k → m j = false) ∨
  (a = R ∧ ∀ j, lo ≤ j → j < k → m j = false)

def NextZ (m : Nat → Bool) (hi k b : Nat) : Prop :=
  k < b ∧ b ≤ hi ∧ m b = true ∧ ∀ j, k < j → j < b → m j = false

/-- the walk's certificate: if the walk from `i` ended exactly at `lim`, every unvisited index
of the window `(lim, i]` lies between two consecutive visited ones (or the wrap reference and
the lowest visited one) and `can_iup_in_between` was checked for that pair. -/
theorem walkLim_cert (t : Tol) (D C : List Pt) (chain : List (Option Nat)) (h : ChainsOk t D C chain)
    (lim : Option Nat) (m : Nat → Bool) :
    ∀ (f i : Nat), i < chain.length → (walkLim chain lim f (some i)).2 = lim →
      (∀ e, loOf lim ≤ e → e ≤ i → (m e = true ↔ e ∈ (walkLim chain lim f (some i)).1)) →
      ∀ k, loOf lim ≤ k → k < i → m k = false →
        ∃ a b, PrevZ m (loOf lim) (refOf D.length lim) k a ∧ NextZ m i k b ∧ okAt t D C a b k = true := by
  intro f
  induction f with
  | zero =>
    intro i hi hfin hm k hk1 hk2 hmk
    simp only [walkLim] at hfin
    subst hfin
    simp only [loOf] at hk1; omega
  | succ f ih =>
    intro i hi hfin hm k hk1 hk2 hmk
    by_cases hgt : gtLim lim i = true
    · have hgt' : loOf lim ≤ i := (gtLim_iff lim i).mp hgt
      simp only [walkLim, hgt, if_true] at hfin hm
      have hmi : m i = true := (hm i hgt' (Nat.le_refl _)).mpr (List.mem_cons_self ..)
      cases hc : chain.getD i none with
      | none =>
        rw [hc, walkLim_none] at hfin hm
        simp only at hfin
        subst hfin
        have hco := h i hi
        rw [hc] at hco
        simp only [ChainOk] at hco
        have hcan : canIup t D C (-1) i = true := by
          rcases hco with h0 | h0
          · omega
          · exact h0
        refine ⟨D.length - 1, i, Or.inr ⟨rfl, fun j hj1 hj2 => ?_⟩, ⟨hk2, Nat.le_refl _, hmi, fun j hj1 hj2 => ?_⟩,
          canIup_neg t D C i hcan k hk2⟩
        · cases hmj : m j with
          | false => rfl
          | true =>
            have := (hm j hj1 (by omega)).mp hmj
            simp only [List.mem_cons, List.not_mem_nil, or_false] at this
            omega
        · cases hmj : m j with
          | false => rfl
          | true =>
            have := (hm j (by simp [loOf]) (by omega)).mp hmj
            simp only [List.mem_cons, List.not_mem_nil, or_false] at this
            omega
      | some j =>
        rw [hc] at hfin hm
        have hji := (chain_desc t D C chain h i j hc)
        have hco := h i hi
        rw [hc] at hco
        simp only [ChainOk] at hco
        have hseg : ∀ k, j < k → k < i → okAt t D C j i k = true := by
          intro k h1 h2
          rcases hco with h0 | ⟨_, h0⟩
          · omega
          · exact canIup_some t D C j i h0 k h1 h2
        -- elements of the rest of the walk are ≤ j
        have hle := walkLim_le t D C chain h lim f j
        have hbetween : ∀ e, loOf lim ≤ e → j < e → e < i → m e = false := by
          intro e h0 h1 h2
          cases hme : m e with
          | false => rfl
          | true =>
            have := (hm e h0 (by omega)).mp hme
            simp only [List.mem_cons] at this
            rcases this with rfl | h3
            · omega
            · have := hle e h3; omega
        by_cases hjlo : loOf lim ≤ j
        · -- `j` is inside the window: recurse
          have hm' : ∀ e, loOf lim ≤ e → e ≤ j → (m e = true ↔ e ∈ (walkLim chain lim f (some j)).1) := by
            intro e h1 h2
            rw [hm e h1 (by omega)]
            simp only [List.mem_cons]
            constructor
            · rintro (rfl | h3)
              · omega
              · exact h3
            · exact fun h3 => Or.inr h3
          have hmj : m j = true := by
            cases f with
            | zero =>
              simp only [walkLim] at hfin
              subst hfin; simp only [loOf] at hjlo; omega
            | succ f' =>
              rw [hm' j hjlo (Nat.le_refl _)]
              have hg : gtLim lim j = true := (gtLim_iff lim j).mpr hjlo
              simp only [walkLim, hg, if_true, List.mem_cons, true_or]
          by_cases hkj : k < j
          · obtain ⟨a, b, hp, ⟨n1, n2, n3, n4⟩, hok⟩ := ih j (by omega) hfin hm' k hk1 hkj hmk
            exact ⟨a, b, hp, ⟨n1, by omega, n3, n4⟩, hok⟩
          · have hkj' : j < k := by
              rcases Nat.lt_or_ge j k with h1 | h1
              · exact h1
              · have : k = j := by omega
                subst this; rw [hmj] at hmk; cases hmk
            refine ⟨j, i, Or.inl ⟨hjlo, hkj', hmj, fun e h1 h2 => hbetween e (by omega) h1 (by omega)⟩,
              ⟨hk2, Nat.le_refl _, hmi, fun e h1 h2 => hbetween e (by omega) (by omega) h2⟩, hseg k hkj' hk2⟩
        · -- `j` is at or below `lim`: the walk stops, and `fin = lim` forces `lim = some j`
          have hw : walkLim chain lim f (some j) = ([], some j) := by
            cases f with
            | zero => rfl
            | succ f' =>
              have hg : gtLim lim j = false := by
                cases hh : gtLim lim j with
                | false => rfl
                | true => exact absurd ((gtLim_iff lim j).mp hh) hjlo
              simp only [walkLim, hg, Bool.false_eq_true, if_false]
          rw [hw] at hfin hm
          simp only at hfin
          subst hfin
          simp only [loOf] at hk1 hgt' hjlo hbetween ⊢
          simp only [refOf]
          refine ⟨j, i, Or.inr ⟨rfl, fun e h1 h2 => hbetween e (by omega) (by omega) (by omega)⟩,
            ⟨hk2, Nat.le_refl _, hmi, fun e h1 h2 => hbetween e (by omega) (by omega) h2⟩, hseg k (by omega) hk2⟩
    · -- not `gt`: the walk is empty and `fin = some i = lim`
      simp only [walkLim, hgt] at hfin
      simp only [Bool.false_eq_true, if_false] at hfin
      subst hfin
      simp only [loOf] at hk1; omega

theorem dpOuter_length (t : Tol) (ds cs : List Pt) (must : List Bool) (lb n : Nat) :
    ∀ (fuel i : Nat) (costs : List Int) (chain : List (Option Nat)), chain.length = i → i ≤ n →
      n - i ≤ fuel → (dpOuter t ds cs must lb n fuel i costs chain).2.length = n := by
  intro fuel
  induction fuel with
  | zero => intro i costs chain hl hi hf; simp only [dpOuter]; omega
  | succ f ih =>
    intro i costs chain hl hi hf
    simp only [dpOuter]
    split
    · simp only; omega
    · split
      · exact ih (i + 1) _ _ (by simp [hl]) (by omega) (by omega)
      · exact ih (i + 1) _ _ (by simp [hl]) (by omega) (by omega)

theorem contourDp_length (t : Tol) (ds cs : List Pt) (must : List Bool) (lb : Nat) :
    (contourDp t ds cs must lb).2.length = ds.length := by
  unfold contourDp
  simp only []
  split
  · simp
  · exact dpOuter_length t ds cs must lb ds.length ds.length 0 [] [] rfl (by omega) (by omega)

theorem getP_rotateRight (l : List Pt) (mid i : Nat) (hmid : mid < l.length) (hi : i < l.length) :
    getP (rotateRight l mid) i = getP l (rotIx l.length (l.length - mid) i) := by
  unfold rotateRight getP rotIx
  have h0 : l.length ≠ 0 := by omega
  simp only [h0, if_false, Nat.mod_eq_of_lt hmid, List.getD_eq_getElem?_getD]
  by_cases h : i < mid
  · have e : i + (l.length - mid) < l.length := by omega
    rw [List.getElem?_append_left (by simp; omega)]
    simp only [e, if_true, List.getElem?_drop]
    congr 2; omega
  · have e : ¬ (i + (l.length - mid) < l.length) := by omega
    rw [List.getElem?_append_right (by simp; omega)]
    simp only [e, if_false, List.length_drop, List.getElem?_take]
    have : i - (l.length - (l.length - mid)) < l.length - mid := by omega
    simp only [this, if_true]
    congr 2; omega

theorem getP_double (l : List Pt) (z : Nat) (hz : z < 2 * l.length) :
    getP (l ++ l) z = getP l (if z < l.length then z else z - l.length) := by
  unfold getP
  simp only [List.getD_eq_getElem?_getD]
  by_cases h : z < l.length
  · simp only [h, if_true, List.getElem?_append_left h]
  · simp only [h, if_false, List.getElem?_append_right (by omega : l.length ≤ z)]

theorem mod_lt2 (x n : Nat) (h : x < 2 * n) : x % n = if x < n then x else x - n := by
  split
  · exact Nat.mod_eq_of_lt (by assumption)
  · rw [Nat.mod_eq_sub_mod (by omega)]
    exact Nat.mod_eq_of_lt (by omega)

theorem length_rotateRight {α} (l : List α) (k : Nat) : (rotateRight l k).length = l.length := by
  unfold rotateRight
  split
  · rfl
  · simp only [List.length_append, List.length_drop, List.length_take]
    have : k % l.length < l.length := Nat.mod_lt _ (by omega)
    omega

theorem okAt_congr (t : Tol) (D C ds cs : List Pt) (a b k a2 b2 k2 : Nat)
    (h1 : getP D a = getP ds a2) (h2 : getP C a = getP cs a2)
    (h3 : getP D b = getP ds b2) (h4 : getP C b = getP cs b2)
    (h5 : getP D k = getP ds k2) (h6 : getP C k = getP cs k2) :
    okAt t D C a b k = okAt t ds cs a2 b2 k2 := by
  unfold okAt; rw [h1, h2, h3, h4, h5, h6]

theorem walkLim_ge (chain : List (Option Nat)) (lim : Option Nat) :
    ∀ (f : Nat) (i : Option Nat) (e : Nat), e ∈ (walkLim chain lim f i).1 → loOf lim ≤ e := by
  intro f
  induction f with
  | zero => intro i e he; simp [walkLim] at he
  | succ f ih =>
    intro i e he
    cases i with
    | none => simp [walkLim] at he
    | some idx =>
      by_cases hgt : gtLim lim idx = true
      · simp only [walkLim, hgt, if_true, List.mem_cons] at he
        rcases he with rfl | he
        · exact (gtLim_iff lim e).mp hgt
        · exact ih _ e he
      · simp only [walkLim, hgt] at he
        simp at he

/-- the rotated branch of `iup_contour_optimize` -/
theorem sound_rotated (t : Tol) (ds cs : List Pt) (must' : List Bool) (lb mid : Nat)
    (hlen : cs.length = ds.length) (hmid : mid < ds.length) :
    let n := ds.length
    let dp := contourDp t (rotateRight ds mid) (rotateRight cs mid) must' lb
    let S := (walkLim dp.2 none (2 * n + 2) (some (n - 1))).1
    let encB := (List.range n).map fun i => S.contains i
    Sound t ds cs ((List.range n).map fun i => encB.getD ((i + mid) % n) false) := by
  intro n dp S encB
  have hn : 0 < n := by omega
  have hD : (rotateRight ds mid).length = n := length_rotateRight ds mid
  have hch : ChainsOk t (rotateRight ds mid) (rotateRight cs mid) dp.2 := contourDp_ok t _ _ must' lb
  have hcl : dp.2.length = n := by rw [← hD]; exact contourDp_length ..
  have hfin : (walkLim dp.2 none (2 * n + 2) (some (n - 1))).2 = none :=
    walkLim_fin_none t _ _ dp.2 hch _ _ (by omega)
  let m : Nat → Bool := fun e => S.contains e
  have hmS : ∀ e, (m e = true ↔ e ∈ S) := fun e => by simp [m]
  have hmlast : m (n - 1) = true := by
    rw [hmS]
    have hg : gtLim none (n - 1) = true := rfl
    simp only [S, walkLim, hg, if_true, List.mem_cons, true_or]
  have cert := walkLim_cert t _ _ dp.2 hch none m (2 * n + 2) (n - 1) (by omega) hfin
    (fun e _ _ => hmS e)
  apply sound_of_cert t ds cs _ n (n - mid) rfl (by omega) m
  · intro i hi
    have hr : rotIx n (n - mid) i < n := by unfold rotIx; split <;> omega
    rw [getD_map_range n _ _ hr]
    have e1 : (rotIx n (n - mid) i + mid) % n = i := by
      unfold rotIx
      split
      · have : i + (n - mid) + mid = i + n := by omega
        rw [this, Nat.add_mod_right, Nat.mod_eq_of_lt hi]
      · have : i + (n - mid) - n + mid = i := by omega
        rw [this, Nat.mod_eq_of_lt hi]
    rw [e1, getD_map_range n _ _ hi]
  · intro k hk hmk
    have hk' : k < n - 1 := by
      rcases Nat.lt_or_ge k (n - 1) with h | h
      · exact h
      · have : k = n - 1 := by omega
        rw [this, hmlast] at hmk; cases hmk
    obtain ⟨a, b, hp, hnx, hok⟩ := cert k (Nat.zero_le _) hk' hmk
    simp only [loOf, refOf, hD] at hp
    have hb : b < n := by have := hnx.2.1; omega
    have ha : a < n := by rcases hp with ⟨_, h, _⟩ | ⟨h, _⟩ <;> omega
    refine ⟨a, b, ?_, ⟨hnx.1, hb, hnx.2.2.1, hnx.2.2.2⟩, ?_⟩
    · rcases hp with ⟨_, h1, h2, h3⟩ | ⟨h1, h2⟩
      · exact Or.inl ⟨h1, h2, h3⟩
      · exact Or.inr ⟨h1, by rw [h1]; exact hmlast, fun j hj => h2 j (Nat.zero_le _) hj⟩
    · rw [← hok]
      symm
      have hmid' : mid < cs.length := by omega
      apply okAt_congr
      · exact getP_rotateRight ds mid a hmid ha
      · rw [getP_rotateRight cs mid a hmid' (by omega), hlen]
      · exact getP_rotateRight ds mid b hmid hb
      · rw [getP_rotateRight cs mid b hmid' (by omega), hlen]
      · exact getP_rotateRight ds mid k hmid hk
      · rw [getP_rotateRight cs mid k hmid' (by omega), hlen]

/-- the doubled-contour branch of `iup_contour_optimize`: any `start` whose walk ended exactly at
`start - n` yields a sound set -/
theorem sound_doubled (t : Tol) (ds cs : List Pt) (must : List Bool) (lb start : Nat)
    (hlen : cs.length = ds.length) (h1 : ds.length - 1 ≤ start) (h2 : start + 2 ≤ 2 * ds.length) :
    let n := ds.length
    let dp := contourDp t (ds ++ ds) (cs ++ cs) must lb
    let lim : Option Nat := checkedSub start n
    let w := walkLim dp.2 lim (2 * n + 2) (some start)
    w.2 = lim → Sound t ds cs ((List.range n).map fun i => (w.1.map (· % n)).contains i) := by
  intro n dp lim w hfin
  have hnd : n = ds.length := rfl
  have hn : 0 < n := by omega
  have hD : (ds ++ ds).length = 2 * n := by simp [n]; omega
  have hch : ChainsOk t (ds ++ ds) (cs ++ cs) dp.2 := contourDp_ok t _ _ must lb
  have hcl : dp.2.length = 2 * n := by rw [← hD]; exact contourDp_length ..
  let m : Nat → Bool := fun e => w.1.contains e
  have hmS : ∀ e, (m e = true ↔ e ∈ w.1) := fun e => by simp [m]
  have hlo : loOf lim = start + 1 - n := by
    simp only [lim, checkedSub]; split <;> simp only [loOf] <;> omega
  have hlo_le : loOf lim + n = start + 1 := by omega
  have hge : ∀ e, e ∈ w.1 → loOf lim ≤ e := fun e he => walkLim_ge dp.2 lim _ _ e he
  have hle : ∀ e, e ∈ w.1 → e ≤ start := fun e he => walkLim_le t _ _ dp.2 hch lim _ _ e he
  have hmstart : m start = true := by
    rw [hmS]
    have hg : gtLim lim start = true := (gtLim_iff lim start).mpr (by omega)
    simp only [w, walkLim, hg, if_true, List.mem_cons, true_or]
  have cert := walkLim_cert t _ _ dp.2 hch lim m (2 * n + 2) start (by omega) hfin
    (fun e _ _ => hmS e)
  -- window coordinates ↔ original coordinates
  have hrot : ∀ z, loOf lim ≤ z → z ≤ start →
      rotIx n (loOf lim) (z - loOf lim) = if z < n then z else z - n := by
    intro z hz1 hz2; unfold rotIx; (repeat' split) <;> omega
  have hgetD : ∀ z, loOf lim ≤ z → z ≤ start →
      getP (ds ++ ds) z = getP ds (rotIx n (loOf lim) (z - loOf lim)) := by
    intro z hz1 hz2; rw [hrot z hz1 hz2]; exact getP_double ds z (by omega)
  have hgetC : ∀ z, loOf lim ≤ z → z ≤ start →
      getP (cs ++ cs) z = getP cs (rotIx n (loOf lim) (z - loOf lim)) := by
    intro z hz1 hz2; rw [hrot z hz1 hz2]
    have := getP_double cs z (by omega)
    rw [hlen] at this; exact this
  -- the wrap reference is the same point as `start`
  have hrefD : getP (ds ++ ds) (refOf (ds ++ ds).length lim) = getP ds (rotIx n (loOf lim) (n - 1)) ∧
      getP (cs ++ cs) (refOf (ds ++ ds).length lim) = getP cs (rotIx n (loOf lim) (n - 1)) := by
    have e1 : rotIx n (loOf lim) (n - 1) =
        (if refOf (ds ++ ds).length lim < n then refOf (ds ++ ds).length lim
         else refOf (ds ++ ds).length lim - n) := by
      rw [hD]
      by_cases hs : start < n
      · simp only [lim, checkedSub, hs, if_true, refOf, loOf, rotIx]; (repeat' split) <;> omega
      · simp only [lim, checkedSub, hs, if_false, refOf, loOf, rotIx]; (repeat' split) <;> omega
    have hR : refOf (ds ++ ds).length lim < 2 * n := by
      rw [hD]
      by_cases hs : start < n
      · simp only [lim, checkedSub, hs, if_true, refOf]; omega
      · simp only [lim, checkedSub, hs, if_false, refOf]; omega
    constructor
    · rw [e1]; exact getP_double ds _ hR
    · rw [e1]
      have := getP_double cs (refOf (ds ++ ds).length lim) (by omega)
      rw [hlen] at this; exact this
  apply sound_of_cert t ds cs _ n (loOf lim) rfl (by omega) (fun i => m (i + loOf lim))
  · intro i hi
    have hr : rotIx n (loOf lim) i < n := by unfold rotIx; split <;> omega
    rw [getD_map_range n _ _ hr]
    have hz := hrot (i + loOf lim) (by omega) (by omega)
    have e0 : i + loOf lim - loOf lim = i := by omega
    rw [e0] at hz
    -- both sides as propositions
    cases hmi : m (i + loOf lim) with
    | true =>
      symm
      rw [List.contains_iff_mem, List.mem_map]
      refine ⟨i + loOf lim, (hmS _).mp hmi, ?_⟩
      rw [hz, mod_lt2 _ n (by omega)]
    | false =>
      symm
      rw [Bool.eq_false_iff]
      intro hc
      rw [List.contains_iff_mem, List.mem_map] at hc
      obtain ⟨z, hzS, hzeq⟩ := hc
      have z1 := hge z hzS
      have z2 := hle z hzS
      rw [hz, mod_lt2 z n (by omega)] at hzeq
      have : z = i + loOf lim := by
        (repeat' split at hzeq) <;> omega
      subst this
      rw [(hmS _).mpr hzS] at hmi; cases hmi
  · intro k' hk' hmk
    have hklt : k' + loOf lim < start := by
      rcases Nat.lt_or_ge (k' + loOf lim) start with h | h
      · exact h
      · have : k' + loOf lim = start := by omega
        rw [this, hmstart] at hmk; cases hmk
    obtain ⟨a, b, hp, hnx, hok⟩ := cert (k' + loOf lim) (by omega) hklt hmk
    obtain ⟨n1, n2, n3, n4⟩ := hnx
    have ek : k' + loOf lim - loOf lim = k' := by omega
    rcases hp with ⟨p1, p2, p3, p4⟩ | ⟨p1, p2⟩
    · refine ⟨a - loOf lim, b - loOf lim, Or.inl ⟨by omega, ?_, fun j hj1 hj2 => ?_⟩,
        ⟨by omega, by omega, ?_, fun j hj1 hj2 => ?_⟩, ?_⟩
      · show m (a - loOf lim + loOf lim) = true
        have : a - loOf lim + loOf lim = a := by omega
        rw [this]; exact p3
      · exact p4 (j + loOf lim) (by omega) (by omega)
      · show m (b - loOf lim + loOf lim) = true
        have : b - loOf lim + loOf lim = b := by omega
        rw [this]; exact n3
      · exact n4 (j + loOf lim) (by omega) (by omega)
      · rw [← hok]; symm
        have hk := hgetD (k' + loOf lim) (by omega) (by omega)
        have hkc := hgetC (k' + loOf lim) (by omega) (by omega)
        rw [ek] at hk hkc
        exact okAt_congr t _ _ ds cs a b _ _ _ _
          (hgetD a p1 (by omega)) (hgetC a p1 (by omega))
          (hgetD b (by omega) n2) (hgetC b (by omega) n2) hk hkc
    · refine ⟨n - 1, b - loOf lim, Or.inr ⟨rfl, ?_, fun j hj => ?_⟩,
        ⟨by omega, by omega, ?_, fun j hj1 hj2 => ?_⟩, ?_⟩
      · show m (n - 1 + loOf lim) = true
        have : n - 1 + loOf lim = start := by omega
        rw [this]; exact hmstart
      · exact p2 (j + loOf lim) (by omega) (by omega)
      · show m (b - loOf lim + loOf lim) = true
        have : b - loOf lim + loOf lim = b := by omega
        rw [this]; exact n3
      · exact n4 (j + loOf lim) (by omega) (by omega)
      · rw [← hok]; symm
        have hk := hgetD (k' + loOf lim) (by omega) (by omega)
        have hkc := hgetC (k' + loOf lim) (by omega) (by omega)
        rw [ek] at hk hkc
        subst p1
        exact okAt_congr t _ _ ds cs _ b _ _ _ _
          hrefD.1 hrefD.2
          (hgetD b (by omega) n2) (hgetC b (by omega) n2) hk hkc

theorem withinTol_self (t : Tol) (d : Pt) : withinTol t d (d.1, 1) (d.2, 1) = true := by
  unfold withinTol
  simp only [Int.mul_one, Int.sub_self, Int.mul_zero, Int.zero_mul, Int.add_zero, decide_eq_true_eq]
  rcases Int.le_total 0 t.n with h | h
  · exact Int.mul_nonneg h h
  · exact Int.mul_nonneg_of_nonpos_of_nonpos h h

theorem withinTol_zero (t : Tol) : withinTol t (0, 0) (0, 1) (0, 1) = true := withinTol_self t (0, 0)

theorem iupPoint_same (c d x : Pt) : iupPoint c d c d x = ((d.1, 1), (d.2, 1)) := by
  simp [iupPoint, iupAxis]

theorem sound_all_zero (t : Tol) (ds cs : List Pt) (h : ∀ k, k < ds.length → getP ds k = (0, 0)) :
    Sound t ds cs (List.replicate ds.length false) := by
  intro k hk hek
  have hall : ∀ j, (List.replicate ds.length false).getD j false = false := by
    intro j; simp only [List.getD_eq_getElem?_getD, List.getElem?_replicate]; split <;> rfl
  unfold inferSpec prevReq
  rw [hek, prevFrom_none _ _ hall, h k hk]
  exact withinTol_zero t

theorem sound_all_equal (t : Tol) (ds cs : List Pt) (first : Pt)
    (h : ∀ k, k < ds.length → getP ds k = first) :
    Sound t ds cs ((List.range ds.length).map (· == 0)) := by
  by_cases hn : ds.length = 0
  · intro k hk; omega
  have hr0 : rotIx ds.length 1 (ds.length - 1) = 0 := by unfold rotIx; split <;> omega
  apply sound_of_cert t ds cs _ ds.length 1 rfl (by omega) (fun i => i == ds.length - 1)
  · intro i hi
    have hr : rotIx ds.length 1 i < ds.length := by unfold rotIx; split <;> omega
    rw [getD_map_range _ _ _ hr]
    have : (rotIx ds.length 1 i = 0) ↔ (i = ds.length - 1) := by unfold rotIx; split <;> omega
    show (i == ds.length - 1) = (rotIx ds.length 1 i == 0)
    by_cases hi2 : i = ds.length - 1
    · rw [hi2, hr0]; simp
    · have h2 : ¬ (rotIx ds.length 1 i = 0) := fun hh => hi2 (this.mp hh)
      rw [beq_eq_false_iff_ne.mpr hi2, beq_eq_false_iff_ne.mpr h2]
  · intro k hk hmk
    have hk2 : k ≠ ds.length - 1 := by
      intro hh; subst hh; simp at hmk
    refine ⟨ds.length - 1, ds.length - 1, Or.inr ⟨rfl, by simp, fun j hj => ?_⟩,
      ⟨by omega, by omega, by simp, fun j hj1 hj2 => ?_⟩, ?_⟩
    · have : j ≠ ds.length - 1 := by omega
      simp [this]
    · have : j ≠ ds.length - 1 := by omega
      simp [this]
    · unfold okAt
      rw [hr0, iupPoint_same]
      have hr : rotIx ds.length 1 k < ds.length := by unfold rotIx; split <;> omega
      rw [h _ hr, h 0 (by omega)]
      exact withinTol_self t first

theorem getP_of_all (ds : List Pt) (first : Pt) (h : ds.all (· == first) = true) (k : Nat)
    (hk : k < ds.length) : getP ds k = first := by
  rw [List.all_eq_true] at h
  unfold getP
  have : ds.getD k (0, 0) = ds[k] := by simp [List.getD_eq_getElem?_getD, hk]
  rw [this]
  have := h ds[k] (List.getElem_mem hk)
  exact eq_of_beq this

theorem dpOuter_costs_length (t : Tol) (ds cs : List Pt) (must : List Bool) (lb n : Nat) :
    ∀ (fuel i : Nat) (costs : List Int) (chain : List (Option Nat)), costs.length = i → i ≤ n →
      (dpOuter t ds cs must lb n fuel i costs chain).1.length ≤ n := by
  intro fuel
  induction fuel with
  | zero => intro i costs chain hl hi; simp only [dpOuter]; omega
  | succ f ih =>
    intro i costs chain hl hi
    simp only [dpOuter]
    split
    · simp only; omega
    · split
      · exact ih (i + 1) _ _ (by simp [hl]) (by omega)
      · exact ih (i + 1) _ _ (by simp [hl]) (by omega)

theorem contourDp_costs_length (t : Tol) (ds cs : List Pt) (must : List Bool) (lb : Nat) :
    (contourDp t ds cs must lb).1.length ≤ ds.length := by
  unfold contourDp
  simp only []
  split
  · simp
  · exact dpOuter_costs_length t ds cs must lb ds.length ds.length 0 [] [] rfl (by omega)

theorem P_ite {β} (P : β → Prop) (c : Prop) [Decidable c] (a b : β) (ha : c → P a) (hb : ¬ c → P b) :
    P (if c then a else b) := by
  split
  · exact ha (by assumption)
  · exact hb (by assumption)

theorem foldl_inv {α β} (P : β → Prop) (step : β → α → β) (l : List α)
    (hstep : ∀ acc x, x ∈ l → P acc → P (step acc x)) : ∀ init, P init → P (l.foldl step init) := by
  induction l with
  | nil => intro init h; exact h
  | cons x xs ih =>
    intro init h
    simp only [List.foldl_cons]
    exact ih (fun acc y hy hp => hstep acc y (List.mem_cons_of_mem _ hy) hp) _
      (hstep init x (List.mem_cons_self ..) h)

/-- **Soundness of `iup_contour_optimize`.**  Whatever set of deltas the optimiser keeps, every
omitted delta is reproduced by the specification's inference from the kept ones within the
tolerance (Euclidean error² ≤ tolerance², exact arithmetic). -/
theorem contourEncode_sound (t : Tol) (ds cs : List Pt) (enc : List Bool)
    (hlen : cs.length = ds.length) (h : contourEncode t ds cs = some enc) :
    enc.length = ds.length ∧ Sound t ds cs enc := by
  unfold contourEncode at h
  cases hds : ds with
  | nil =>
    rw [hds] at h
    simp only [Option.some.injEq] at h
    subst h
    exact ⟨rfl, fun k hk => by simp at hk⟩
  | cons first rest =>
    rw [← hds]
    have hpos : 0 < ds.length := by rw [hds]; simp
    simp only [hds] at h
    rw [← hds] at h
    split at h
    · rename_i hall
      have hg := getP_of_all ds first hall
      split at h
      · rename_i hz
        have hz' : first = (0, 0) := eq_of_beq hz
        simp only [Option.some.injEq] at h
        subst h
        exact ⟨by simp, sound_all_zero t ds cs (fun k hk => by rw [hg k hk, hz'])⟩
      · simp only [Option.some.injEq] at h
        subst h
        exact ⟨by simp, sound_all_equal t ds cs first hg⟩
    · split at h
      · -- rotated branch
        split at h
        · simp only [Option.some.injEq] at h
          subst h
          refine ⟨by simp, ?_⟩
          exact sound_rotated t ds cs _ _ _ hlen (by omega)
        · cases h
      · -- doubled branch
        split at h
        · cases h
        · rename_i sol hsol
          simp only [Option.some.injEq] at h
          subst h
          refine ⟨by simp, ?_⟩
          -- invariant of the `for start in …` loop
          let n := ds.length
          let dp := contourDp t (ds ++ ds) (cs ++ cs) (mustEncode t ds cs) (lookback n)
          let P : Option (List Nat) × Int → Prop := fun acc =>
            ∀ s, acc.1 = some s → Sound t ds cs ((List.range n).map fun i => s.contains i)
          have hinv := foldl_inv P
            (fun (acc : Option (List Nat) × Int) start =>
              let lim : Option Nat := checkedSub start n
              let w := walkLim dp.2 lim (2 * n + 2) (some start)
              if w.2 == lim then
                let cost := dp.1.getD start 0 - (if n < start then dp.1.getD (start - n) 0 else 0)
                if cost ≤ acc.2 then (some (w.1.map (· % n)), cost) else acc
              else acc)
            ((List.range (dp.1.length - 1 - (n - 1))).map (· + (n - 1)))
            (by
              intro acc start hmem hP
              simp only [List.mem_map, List.mem_range] at hmem
              obtain ⟨q, hq, rfl⟩ := hmem
              have hnd : n = ds.length := rfl
              have hcl : dp.1.length ≤ n + n := by
                have := contourDp_costs_length t (ds ++ ds) (cs ++ cs) (mustEncode t ds cs) (lookback n)
                simp only [List.length_append] at this
                exact this
              simp only []
              apply P_ite
              · intro hbeq
                apply P_ite
                · intro _ s hs
                  simp only [Option.some.injEq] at hs
                  subst hs
                  exact sound_doubled t ds cs _ _ (q + (n - 1)) hlen (by omega) (by omega) (eq_of_beq hbeq)
                · exact fun _ => hP
              · exact fun _ => hP)
            (none, ((n : Nat) + 1 : Int)) (by intro s hs; cases hs)
          exact hinv sol hsol

theorem iupAxis_den_pos (c1 d1 c2 d2 c : Int) : 0 < (iupAxis c1 d1 c2 d2 c).2 := by
  unfold iupAxis
  split
  · simp
  · simp only []
    (repeat' split) <;> simp only [] <;> omega

theorem inferSpec_den_pos (cs ds : List Pt) (enc : List Bool) (k : Nat) :
    0 < (inferSpec cs ds enc k).1.2 ∧ 0 < (inferSpec cs ds enc k).2.2 := by
  unfold inferSpec
  split
  · simp
  · split
    · exact ⟨iupAxis_den_pos .., iupAxis_den_pos ..⟩
    · simp

/-! ### the reader's loops (`interpolate_deltas`) pick the specification's references -/

abbrev H (has : List Bool) (i : Nat) : Bool := has.getD i false

theorem scanFirst_spec (has : List Bool) (np last : Nat) (hl : last < np) :
    ∀ (fuel p : Nat), p ≤ last + 1 → last + 1 - p ≤ fuel →
      ∃ fd, scanFirst has np last fuel p = some fd ∧ p ≤ fd ∧ fd ≤ last + 1 ∧
        (∀ j, p ≤ j → j < fd → H has j = false) ∧ (fd ≤ last → H has fd = true) := by
  intro fuel
  induction fuel with
  | zero =>
    intro p hp hf
    have : p = last + 1 := by omega
    subst this
    exact ⟨last + 1, rfl, Nat.le_refl _, Nat.le_refl _, fun j h1 h2 => by omega, fun h => by omega⟩
  | succ f ih =>
    intro p hp hf
    simp only [scanFirst]
    by_cases hpl : p ≤ last
    · have hnp : ¬ (p ≥ np) := by omega
      simp only [hpl, if_true, hnp, if_false]
      cases hh : has.getD p false with
      | true =>
        simp only [if_true]
        exact ⟨p, rfl, Nat.le_refl _, by omega, fun j h1 h2 => by omega, fun _ => hh⟩
      | false =>
        simp only [Bool.false_eq_true, if_false]
        obtain ⟨fd, e, h1, h2, h3, h4⟩ := ih (p + 1) (by omega) (by omega)
        refine ⟨fd, e, by omega, h2, fun j hj1 hj2 => ?_, h4⟩
        by_cases hjp : j = p
        · subst hjp; exact hh
        · exact h3 j (by omega) hj2
    · have : p = last + 1 := by omega
      subst this
      simp only [hpl, if_false]
      exact ⟨last + 1, rfl, Nat.le_refl _, Nat.le_refl _, fun j h1 h2 => by omega, fun h => by omega⟩

/-- consecutive explicit points -/
def Consec (has : List Bool) (a b : Nat) : Prop :=
  H has a = true ∧ H has b = true ∧ a < b ∧ ∀ j, a < j → j < b → H has j = false

/-- a call made by the inner loop: interpolate strictly between two consecutive explicit points -/
def IsMid (has : List Bool) (c : Call) : Prop :=
  c.shift = false ∧ Consec has c.r1 c.r2 ∧ c.lo = c.r1 + 1 ∧ c.hi = c.r2 - 1

theorem innerLoop_spec (has : List Bool) (np last : Nat) (hl : last < np) :
    ∀ (fuel p cur : Nat) (calls : List Call), cur < p → p ≤ last + 1 → last + 1 - p ≤ fuel →
      H has cur = true → (∀ j, cur < j → j < p → H has j = false) →
      ∃ news cur', innerLoop has np last fuel p cur calls = some (calls ++ news, cur') ∧
        H has cur' = true ∧ cur ≤ cur' ∧ cur' ≤ last ∧ (∀ j, cur' < j → j ≤ last → H has j = false) ∧
        (∀ c ∈ news, IsMid has c ∧ cur ≤ c.r1 ∧ c.r2 ≤ cur') ∧
        (∀ a b, Consec has a b → cur ≤ a → b ≤ cur' → ∃ c ∈ news, c.r1 = a ∧ c.r2 = b) := by
  intro fuel
  induction fuel with
  | zero =>
    intro p cur calls h1 h2 h3 h4 h5
    have : p = last + 1 := by omega
    subst this
    refine ⟨[], cur, by simp [innerLoop], h4, Nat.le_refl _, by omega, fun j a b => h5 j a (by omega),
      fun c hc => by simp at hc, fun a b hc ha hb => ?_⟩
    obtain ⟨_, hb2, hab, _⟩ := hc
    have : b = cur ∨ b < cur := by omega
    omega
  | succ f ih =>
    intro p cur calls h1 h2 h3 h4 h5
    simp only [innerLoop]
    by_cases hpl : p ≤ last
    · have hnp : ¬ (p ≥ np) := by omega
      simp only [hpl, if_true, hnp, if_false]
      cases hh : has.getD p false with
      | true =>
        simp only [if_true]
        obtain ⟨news, cur', e, g1, g2, g3, g4, g5, g6⟩ :=
          ih (p + 1) p (calls ++ [⟨cur + 1, p - 1, cur, p, false⟩]) (by omega) (by omega) (by omega) hh
            (fun j a b => by omega)
        refine ⟨⟨cur + 1, p - 1, cur, p, false⟩ :: news, cur', by rw [e]; simp, g1, by omega, g3, g4,
          fun c hc => ?_, fun a b hc ha hb => ?_⟩
        · simp only [List.mem_cons] at hc
          rcases hc with rfl | hc
          · exact ⟨⟨rfl, ⟨h4, hh, h1, h5⟩, rfl, rfl⟩, Nat.le_refl _, g2⟩
          · obtain ⟨q1, q2, q3⟩ := g5 c hc
            exact ⟨q1, by omega, q3⟩
        · by_cases hap : p ≤ a
          · obtain ⟨c, hc1, hc2⟩ := g6 a b hc hap hb
            exact ⟨c, List.mem_cons_of_mem _ hc1, hc2⟩
          · -- a < p: then a = cur and b = p
            obtain ⟨ha1, hb1, hab, hno⟩ := hc
            have hacur : a = cur := by
              rcases Nat.lt_or_ge cur a with h | h
              · have := h5 a h (by omega); rw [this] at ha1; cases ha1
              · omega
            have hbp : b = p := by
              rcases Nat.lt_or_ge b p with h | h
              · have := h5 b (by omega) h; rw [this] at hb1; cases hb1
              · rcases Nat.lt_or_ge p b with h' | h'
                · have := hno p (by omega) h'
                  have hh' : H has p = true := hh
                  rw [hh'] at this; cases this
                · omega
            exact ⟨⟨cur + 1, p - 1, cur, p, false⟩, List.mem_cons_self .., hacur.symm, hbp.symm⟩
      | false =>
        simp only [Bool.false_eq_true, if_false]
        exact ih (p + 1) cur calls (by omega) (by omega) (by omega) h4 (fun j a b => by
          by_cases hjp : j = p
          · subst hjp; exact hh
          · exact h5 j a (by omega))
    · have : p = last + 1 := by omega
      subst this
      simp only [hpl, if_false]
      refine ⟨[], cur, by simp, h4, Nat.le_refl _, by omega, fun j a b => h5 j a (by omega),
        fun c hc => by simp at hc, fun a b hc ha hb => ?_⟩
      obtain ⟨_, hb2, hab, _⟩ := hc
      omega


theorem prevFrom_wrap2 (enc : List Bool) (n a : Nat) (ha : a < n) (hta : enc.getD a false = true)
    (hno2 : ∀ j, a < j → j < n → enc.getD j false = false) :
    ∀ (p f : Nat), p < n → p + 1 + (n - 1 - a) < f → (∀ j, j ≤ p → enc.getD j false = false) →
      prevFrom enc n f p = some a := by
  intro p
  induction p with
  | zero =>
    intro f hp hf hno
    obtain ⟨f', rfl⟩ : ∃ f', f = f' + 1 := ⟨f - 1, by omega⟩
    have h0 : enc.getD 0 false = false := hno 0 (by omega)
    have hpred : predC n 0 = n - 1 := by simp [predC]
    simp only [prevFrom, h0, Bool.false_eq_true, if_false, hpred]
    exact prevFrom_lin enc n (n - 1 - a) f' (n - 1) a (by omega) (by omega) hta
      (fun j h1 h2 => hno2 j h1 (by omega))
  | succ p ih =>
    intro f hp hf hno
    obtain ⟨f', rfl⟩ : ∃ f', f = f' + 1 := ⟨f - 1, by omega⟩
    have hpf : enc.getD (p + 1) false = false := hno (p + 1) (by omega)
    have hpred : predC n (p + 1) = p := by unfold predC; split <;> omega
    simp only [prevFrom, hpf, Bool.false_eq_true, if_false, hpred]
    exact ih f' (by omega) (by omega) (fun j h => hno j (by omega))

theorem nextFrom_wrap2 (enc : List Bool) (n b : Nat) (hb : b < n) (htb : enc.getD b false = true)
    (hno2 : ∀ j, j < b → enc.getD j false = false) :
    ∀ (d p f : Nat), p + d = n - 1 → p < n → d + 1 + b < f → (∀ j, p ≤ j → j < n → enc.getD j false = false) →
      nextFrom enc n f p = some b := by
  intro d
  induction d with
  | zero =>
    intro p f hpd hp hf hno
    obtain ⟨f', rfl⟩ : ∃ f', f = f' + 1 := ⟨f - 1, by omega⟩
    have h0 : enc.getD p false = false := hno p (by omega) hp
    have hs : succC n p = 0 := by unfold succC; split <;> omega
    simp only [nextFrom, h0, Bool.false_eq_true, if_false, hs]
    exact nextFrom_lin enc n b f' 0 b (by omega) (by omega) hb htb (fun j h1 h2 => hno2 j h2)
  | succ d ih =>
    intro p f hpd hp hf hno
    obtain ⟨f', rfl⟩ : ∃ f', f = f' + 1 := ⟨f - 1, by omega⟩
    have h0 : enc.getD p false = false := hno p (by omega) hp
    have hs : succC n p = p + 1 := by unfold succC; split <;> omega
    simp only [nextFrom, h0, Bool.false_eq_true, if_false, hs]
    exact ih (p + 1) f' (by omega) (by omega) (by omega) (fun j h1 h2 => hno j (by omega) h2)

theorem exists_prev (has : List Bool) (lo : Nat) (hlo : H has lo = true) :
    ∀ k, lo < k → ∃ a, lo ≤ a ∧ a < k ∧ H has a = true ∧ ∀ j, a < j → j < k → H has j = false := by
  intro k
  induction k with
  | zero => intro h; omega
  | succ k ih =>
    intro h
    cases hk : H has k with
    | true => exact ⟨k, by omega, by omega, hk, fun j h1 h2 => by omega⟩
    | false =>
      have hne : lo ≠ k := by intro e; subst e; rw [hlo] at hk; cases hk
      obtain ⟨a, a1, a2, a3, a4⟩ := ih (by omega)
      refine ⟨a, a1, by omega, a3, fun j h1 h2 => ?_⟩
      by_cases hjk : j = k
      · subst hjk; exact hk
      · exact a4 j h1 (by omega)

theorem exists_next (has : List Bool) (hi : Nat) (hhi : H has hi = true) :
    ∀ d k, k + d = hi → 0 < d → ∃ b, k < b ∧ b ≤ hi ∧ H has b = true ∧ ∀ j, k < j → j < b → H has j = false := by
  intro d
  induction d with
  | zero => intro k _ h; omega
  | succ d ih =>
    intro k hk _
    cases hk1 : H has (k + 1) with
    | true => exact ⟨k + 1, by omega, by omega, hk1, fun j h1 h2 => by omega⟩
    | false =>
      have hne : k + 1 ≠ hi := by intro e; rw [e, hhi] at hk1; cases hk1
      obtain ⟨b, b1, b2, b3, b4⟩ := ih (k + 1) (by omega) (by omega)
      refine ⟨b, by omega, b2, b3, fun j h1 h2 => ?_⟩
      by_cases hjk : j = k + 1
      · subst hjk; exact hk1
      · exact b4 j (by omega) h2



theorem covers_iff (c : Call) (k : Nat) :
    covers c k = true ↔ c.lo ≤ k ∧ k ≤ c.hi ∧ ¬ (c.shift = true ∧ k = c.r1) := by
  unfold covers
  simp only [Bool.and_eq_true, decide_eq_true_eq, Bool.not_eq_true', Bool.and_eq_false_iff,
    decide_eq_false_iff_not]
  constructor
  · rintro ⟨⟨h1, h2⟩, h3⟩
    refine ⟨h1, h2, fun ⟨a, b⟩ => ?_⟩
    rcases h3 with h3 | h3
    · rw [a] at h3; cases h3
    · exact h3 b
  · rintro ⟨h1, h2, h3⟩
    refine ⟨⟨h1, h2⟩, ?_⟩
    cases hs : c.shift with
    | false => exact Or.inl rfl
    | true => exact Or.inr (fun hk => h3 ⟨hs, hk⟩)

/-- what a call that writes point `k` must look like: `k` has no explicit delta and the call's
reference points are the specification's (nearest explicit point before / after, cyclically) -/
def GoodFor (has : List Bool) (n : Nat) (c : Call) (k : Nat) : Prop :=
  H has k = false ∧ prevReq has n k = some c.r1 ∧ nextReq has n k = some c.r2 ∧
    (c.shift = true → c.r1 = c.r2)

/-- **The reader's loops pick the specification's references.**  For a contour occupying points
`0 ..= n-1`: `interpolate_deltas` makes no call when the contour has no explicit delta; otherwise
every point without an explicit delta is written by some call, and every call that writes a point
`k` uses as its references exactly the nearest explicit points before and after `k` in cyclic order
(`shift`: the single explicit point, for both). -/
theorem readerContourCalls_spec (has : List Bool) (n np : Nat) (hn : 0 < n) (hnp : n ≤ np) :
    ∃ calls p', readerContourCalls has np 0 (n - 1) = some (calls, p') ∧
      ((∀ j, j < n → H has j = false) → calls = []) ∧
      (∀ c ∈ calls, ∀ k, k < n → covers c k = true → GoodFor has n c k) ∧
      (∀ k, k < n → H has k = false → (∃ j, j < n ∧ H has j = true) → ∃ c ∈ calls, covers c k = true) := by
  have hl : n - 1 < np := by omega
  unfold readerContourCalls
  obtain ⟨fd, e1, s1, s2, s3, s4⟩ := scanFirst_spec has np (n - 1) hl (n - 1 + 2 - 0) 0 (by omega) (by omega)
  rw [e1]
  simp only []
  by_cases hfd : fd > n - 1
  · -- no explicit delta in the contour
    simp only [hfd, if_true]
    refine ⟨[], fd, rfl, fun _ => rfl, fun c hc => by simp at hc, fun k hk hk0 ⟨j, hj, hjt⟩ => ?_⟩
    have := s3 j (by omega) (by omega); rw [this] at hjt; cases hjt
  · simp only [hfd, if_false]
    have hfdn : fd < n := by omega
    have hfdt : H has fd = true := s4 (by omega)
    obtain ⟨news, cur', e2, g1, g2, g3, g4, g5, g6⟩ :=
      innerLoop_spec has np (n - 1) hl (n - 1 + 1 - fd) (fd + 1) fd [] (by omega) (by omega) (by omega) hfdt
        (fun j a b => by omega)
    rw [e2]
    simp only [List.nil_append]
    have hbefore : ∀ j, j < fd → H has j = false := fun j hj => s3 j (by omega) hj
    have hafter : ∀ j, cur' < j → j < n → H has j = false := fun j h1 h2 => g4 j h1 (by omega)
    -- facts shared by both shapes: calls of the inner loop
    have hmid : ∀ c ∈ news, ∀ k, k < n → covers c k = true → GoodFor has n c k := by
      intro c hc k hk hcov
      obtain ⟨⟨m1, ⟨m2, m3, m4, m5⟩, m6, m7⟩, m8, m9⟩ := g5 c hc
      obtain ⟨c1, c2, _⟩ := (covers_iff c k).mp hcov
      have hk1 : c.r1 < k := by omega
      have hk2 : k < c.r2 := by omega
      refine ⟨m5 k hk1 hk2, ?_, ?_, fun hs => by rw [m1] at hs; cases hs⟩
      · exact prevReq_of_LinPrev has n k c.r1 hk (Or.inl ⟨hk1, m2, fun j a b => m5 j a (by omega)⟩)
      · exact nextReq_of_LinNext has n k c.r2 ⟨hk2, by omega, m3, fun j a b => m5 j (by omega) b⟩
    -- wrap-around references
    have hprev_wrap : ∀ k, k < fd → prevReq has n k = some cur' := by
      intro k hk
      unfold prevReq
      by_cases hk0 : k = 0
      · subst hk0
        have : predC n 0 = n - 1 := by simp [predC]
        rw [this]
        exact prevFrom_lin has n (n - 1 - cur') n (n - 1) cur' (by omega) (by omega) g1
          (fun j a b => hafter j a (by omega))
      · have : predC n k = k - 1 := by unfold predC; split <;> omega
        rw [this]
        exact prevFrom_wrap2 has n cur' (by omega) g1 hafter (k - 1) n (by omega) (by omega)
          (fun j hj => hbefore j (by omega))
    have hnext_wrap : ∀ k, cur' < k → k < n → nextReq has n k = some fd := by
      intro k hk hkn
      unfold nextReq
      by_cases hkl : k + 1 ≥ n
      · have : succC n k = 0 := by unfold succC; split <;> omega
        rw [this]
        exact nextFrom_lin has n fd n 0 fd (by omega) (by omega) hfdn hfdt (fun j a b => hbefore j b)
      · have : succC n k = k + 1 := by unfold succC; split <;> omega
        rw [this]
        exact nextFrom_wrap2 has n fd hfdn hfdt hbefore (n - 1 - (k + 1)) (k + 1) n (by omega) (by omega)
          (by omega) (fun j a b => hafter j (by omega) b)
    have hprev_lin : ∀ k a, a < k → k < n → H has a = true → (∀ j, a < j → j < k → H has j = false) →
        prevReq has n k = some a := fun k a h1 h2 h3 h4 =>
      prevReq_of_LinPrev has n k a h2 (Or.inl ⟨h1, h3, h4⟩)
    have hnext_lin : ∀ k b, k < b → b < n → H has b = true → (∀ j, k < j → j < b → H has j = false) →
        nextReq has n k = some b := fun k b h1 h2 h3 h4 =>
      nextReq_of_LinNext has n k b ⟨h1, h2, h3, h4⟩
    by_cases hsingle : cur' = fd
    · -- a single explicit delta: shift
      subst hsingle
      simp only [if_true]
      have hnews : news = [] := by
        cases news with
        | nil => rfl
        | cons c cs =>
          obtain ⟨⟨_, ⟨_, _, m4, _⟩, _, _⟩, m8, m9⟩ := g5 c (List.mem_cons_self ..)
          omega
      subst hnews
      refine ⟨_, _, rfl, fun hall => ?_, fun c hc k hk hcov => ?_, fun k hk hk0 _ => ?_⟩
      · have := hall cur' hfdn; rw [this] at hfdt; cases hfdt
      · simp only [List.nil_append, List.mem_singleton] at hc
        subst hc
        obtain ⟨_, _, c3⟩ := (covers_iff _ k).mp hcov
        have hkne : k ≠ cur' := fun h => c3 ⟨rfl, h⟩
        rcases Nat.lt_or_ge k cur' with hlt | hge
        · exact ⟨hbefore k hlt, hprev_wrap k hlt, hnext_lin k cur' hlt hfdn hfdt (fun j a b => hbefore j b),
            fun _ => rfl⟩
        · have hgt : cur' < k := by omega
          exact ⟨hafter k hgt hk, hprev_lin k cur' hgt hk hfdt (fun j a b => hafter j a (by omega)),
            hnext_wrap k hgt hk, fun _ => rfl⟩
      · refine ⟨⟨0, n - 1, cur', cur', true⟩, by simp, ?_⟩
        rw [covers_iff]
        refine ⟨Nat.zero_le _, by simp only; omega, fun ⟨_, h⟩ => ?_⟩
        simp only at h
        rw [h, hfdt] at hk0; cases hk0
    · simp only [hsingle, if_false]
      have hlt : fd < cur' := by omega
      refine ⟨_, _, rfl, fun hall => ?_, fun c hc k hk hcov => ?_, fun k hk hk0 _ => ?_⟩
      · have := hall fd hfdn; rw [this] at hfdt; cases hfdt
      · simp only [List.mem_append, List.mem_singleton] at hc
        rcases hc with (hc | hc) | hc
        · exact hmid c hc k hk hcov
        · subst hc
          obtain ⟨c1, c2, _⟩ := (covers_iff _ k).mp hcov
          simp only at c1 c2
          have hgt : cur' < k := by omega
          exact ⟨hafter k hgt hk, hprev_lin k cur' hgt hk g1 (fun j a b => hafter j a (by omega)),
            hnext_wrap k hgt hk, fun hs => by cases hs⟩
        · by_cases hfd0 : fd > 0
          · simp only [hfd0, if_true, List.mem_singleton] at hc
            subst hc
            obtain ⟨c1, c2, _⟩ := (covers_iff _ k).mp hcov
            simp only at c1 c2
            have hklt : k < fd := by omega
            exact ⟨hbefore k hklt, hprev_wrap k hklt,
              hnext_lin k fd hklt hfdn hfdt (fun j a b => hbefore j b), fun hs => by cases hs⟩
          · simp only [hfd0, if_false, List.not_mem_nil] at hc
      · -- coverage
        have hkfd : k ≠ fd := by intro h; rw [h, hfdt] at hk0; cases hk0
        have hkcur : k ≠ cur' := by intro h; rw [h, g1] at hk0; cases hk0
        rcases Nat.lt_or_ge k fd with h1 | h1
        · have hfd0 : fd > 0 := by omega
          refine ⟨⟨0, fd - 1, cur', fd, false⟩, by simp [hfd0], ?_⟩
          rw [covers_iff]; simp only; refine ⟨Nat.zero_le _, by omega, fun ⟨h, _⟩ => by cases h⟩
        · rcases Nat.lt_or_ge cur' k with h2 | h2
          · refine ⟨⟨cur' + 1, n - 1, cur', fd, false⟩, by simp, ?_⟩
            rw [covers_iff]; simp only; refine ⟨by omega, by omega, fun ⟨h, _⟩ => by cases h⟩
          · have hk1 : fd < k := by omega
            have hk2 : k < cur' := by omega
            obtain ⟨a, a1, a2, a3, a4⟩ := exists_prev has fd hfdt k hk1
            obtain ⟨b, b1, b2, b3, b4⟩ := exists_next has cur' g1 (cur' - k) k (by omega) (by omega)
            have hcon : Consec has a b := ⟨a3, b3, by omega, fun j h1 h2 => by
              rcases Nat.lt_or_ge j k with h | h
              · exact a4 j h1 h
              · rcases Nat.lt_or_ge k j with h' | h'
                · exact b4 j h' h2
                · have : j = k := by omega
                  rw [this]; exact hk0⟩
            obtain ⟨c, hc1, hc2, hc3⟩ := g6 a b hcon a1 b2
            obtain ⟨⟨m1, _, m6, m7⟩, _, _⟩ := g5 c hc1
            refine ⟨c, by simp [hc1], ?_⟩
            rw [covers_iff]
            refine ⟨by omega, by omega, fun ⟨h, _⟩ => by rw [m1] at h; cases h⟩

theorem prevFrom_none' (enc : List Bool) (n : Nat) (h : ∀ j, j < n → enc.getD j false = false) :
    ∀ f p, p < n → prevFrom enc n f p = none := by
  intro f; induction f with
  | zero => intro p _; rfl
  | succ f ih =>
    intro p hp
    simp only [prevFrom, h p hp, Bool.false_eq_true, if_false]
    exact ih _ (by unfold predC; split <;> omega)

/-- **reader = specification, one contour.**  With the calls of the loop-faithful reader model and
exact per-point arithmetic, `interpolate_deltas` assigns every point of the contour exactly the
delta the specification's inference assigns. -/
theorem readerExact_eq_spec (cs ds : List Pt) (has : List Bool) (np : Nat) (hn : 0 < ds.length)
    (hnp : ds.length ≤ np) (calls : List Call) (p' : Nat)
    (h : readerContourCalls has np 0 (ds.length - 1) = some (calls, p')) (k : Nat) (hk : k < ds.length) :
    readerExactAt cs ds has calls k = inferSpec cs ds has k := by
  obtain ⟨calls', p'', e, hA, hB, hC⟩ := readerContourCalls_spec has ds.length np hn hnp
  rw [e] at h
  simp only [Option.some.injEq, Prod.mk.injEq] at h
  obtain ⟨rfl, rfl⟩ := h
  unfold readerExactAt inferSpec
  cases hh : has.getD k false with
  | true => simp
  | false =>
    simp only [Bool.false_eq_true, if_false]
    by_cases hex : ∃ j, j < ds.length ∧ H has j = true
    · obtain ⟨c0, hc0, hcov0⟩ := hC k hk hh hex
      cases hf : calls'.find? (fun c => covers c k) with
      | none =>
        have := List.find?_eq_none.mp hf c0 hc0
        simp [hcov0] at this
      | some c =>
        have hcm : c ∈ calls' := List.mem_of_find?_eq_some hf
        have hcc : covers c k = true := by
          have := List.find?_some hf; simpa using this
        obtain ⟨_, g2, g3, _⟩ := hB c hcm k hk hcc
        rw [g2, g3]
        simp only [readerPoint, iupPoint]
        have ex : ∀ in1 d1 in2 d2 c, readerAxis in1 d1 in2 d2 c = iupAxis in1 d1 in2 d2 c := by
          intro in1 d1 in2 d2 c
          obtain ⟨h1, h2, h3⟩ := reader_eq_writer_axis in1 d1 in2 d2 c
          rw [h2] at h1
          exact Prod.ext (Int.eq_of_mul_eq_mul_right (by omega) h1) h2
        rw [ex, ex]
    · have hall : ∀ j, j < ds.length → has.getD j false = false := by
        intro j hj
        cases hj2 : has.getD j false with
        | false => rfl
        | true => exact absurd ⟨j, hj, hj2⟩ hex
      have hcalls := hA hall
      subst hcalls
      simp only [List.find?_nil]
      unfold prevReq
      rw [prevFrom_none' has ds.length hall _ _ (by unfold predC; split <;> omega)]

/-- what `iup_delta_optimize` returns, contour slice by contour slice (`ends` = the sorted contour
ends followed by the four phantom points, each its own slice): the output for the slice
`start ..= e` carries the slice's deltas (through `ot_round`) and a kept-set that is sound for
that slice. -/
def GlyphSound (t : Tol) (ds cs : List Pt) : List Nat → Nat → List (Int × Int × Bool) → Prop
  | [], _, out => out = []
  | e :: ends, start, out =>
    let dsl := (ds.drop start).take (e + 1 - start)
    let csl := (cs.drop start).take (e + 1 - start)
    ∃ enc, enc.length = dsl.length ∧ Sound t dsl csl enc ∧
      out.take dsl.length = (List.range dsl.length).map (fun i =>
        (otRound16 (getP dsl i).1, otRound16 (getP dsl i).2, enc.getD i false)) ∧
      GlyphSound t ds cs ends (e + 1) (out.drop dsl.length)

theorem optimizeLoop_sound (t : Tol) (ds cs : List Pt) (hlen : cs.length = ds.length) :
    ∀ (ends : List Nat) (start : Nat) (acc l : List (Int × Int × Bool)),
      optimizeLoop t ds cs ends start acc = .ok l →
      ∃ out, l = acc ++ out ∧ GlyphSound t ds cs ends start out := by
  intro ends
  induction ends with
  | nil =>
    intro start acc l h
    simp only [optimizeLoop, OptResult.ok.injEq] at h
    exact ⟨[], by simp [h], rfl⟩
  | cons e ends ih =>
    intro start acc l h
    simp only [optimizeLoop] at h
    generalize hds : (ds.drop start).take (e + 1 - start) = dsl at h
    generalize hcs : (cs.drop start).take (e + 1 - start) = csl at h
    have hl2 : csl.length = dsl.length := by
      rw [← hds, ← hcs]; simp only [List.length_take, List.length_drop, hlen]
    unfold contourOptimize at h
    cases hce : contourEncode t dsl csl with
    | none => rw [hce] at h; cases h
    | some enc =>
      rw [hce] at h
      simp only at h
      obtain ⟨out, hout, hrest⟩ := ih (e + 1) _ l h
      obtain ⟨he1, he2⟩ := contourEncode_sound t dsl csl enc hl2 hce
      refine ⟨(List.range dsl.length).map (fun i =>
        (otRound16 (getP dsl i).1, otRound16 (getP dsl i).2, enc.getD i false)) ++ out,
        by rw [hout, List.append_assoc], ?_⟩
      simp only [GlyphSound, hds, hcs]
      refine ⟨enc, he1, he2, ?_, ?_⟩
      · rw [List.take_left']; simp
      · rw [List.drop_left']
        · exact hrest
        · simp

/-- **Soundness of `iup_delta_optimize`** (whole glyph). -/
theorem deltaOptimize_sound (t : Tol) (ds cs : List Pt) (ends : List Nat) (l : List (Int × Int × Bool))
    (h : deltaOptimize t ds cs ends = .ok l) :
    cs.length = ds.length ∧ 4 ≤ ds.length ∧
    GlyphSound t ds cs (sortNat ends ++ [cs.length - 4, cs.length - 3, cs.length - 2, cs.length - 1]) 0 l := by
  unfold deltaOptimize at h
  simp only at h
  by_cases h1 : cs.length < 4
  · rw [if_pos h1] at h; cases h
  · rw [if_neg h1] at h
    by_cases h2 : ds.length ≠ cs.length
    · rw [if_pos h2] at h; cases h
    · rw [if_neg h2] at h
      generalize (match (sortNat ends).getLast? with | some v => v + 1 | none => 0) + 4 = expected at h
      by_cases h3 : cs.length ≠ expected
      · rw [if_pos h3] at h; cases h
      · rw [if_neg h3] at h
        have hlen : cs.length = ds.length := by
          simp only [ne_eq, Decidable.not_not] at h2; exact h2.symm
        obtain ⟨out, hout, hs⟩ := optimizeLoop_sound t ds cs hlen _ 0 [] l h
        simp only [List.nil_append] at hout
        subst hout
        exact ⟨hlen, by omega, hs⟩

end FontVerif.Iup
