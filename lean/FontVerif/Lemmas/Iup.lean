/- helper lemmas for Props/C10.lean: IUP optimiser and reader-side inference -/
import FontVerif.Model.Iup
set_option linter.unusedVariables false
namespace FontVerif.Iup
open FontVerif

theorem reader_eq_writer_axis (in1 d1 in2 d2 c : Int) :
    (readerAxis in1 d1 in2 d2 c).1 * (iupAxis in1 d1 in2 d2 c).2
      = (iupAxis in1 d1 in2 d2 c).1 * (readerAxis in1 d1 in2 d2 c).2
    ∧ (readerAxis in1 d1 in2 d2 c).2 = (iupAxis in1 d1 in2 d2 c).2
    ∧ 0 < (iupAxis in1 d1 in2 d2 c).2 := by
  unfold readerAxis iupAxis
  by_cases h : in1 = in2
  · subst h
    by_cases hd : d1 = d2
    · subst hd; simp
      by_cases hc : c ≤ in1
      · simp [hc]
      · have : in1 ≤ c := by omega
        simp [hc, this]
    · have : ¬ (in1 + d1 = in1 + d2) := by omega
      simp [hd, this]
  · by_cases hg : in1 > in2
    · have h1 : ¬ (in2 = in1) := by omega
      simp only [h, hg, if_true, if_false, h1, ne_eq, not_false_eq_true, true_or]
      split
      · simp
      · split
        · simp
        · refine ⟨?_, rfl, by omega⟩
          simp only []
          grind
    · have h1 : ¬ (in1 = in2) := h
      simp only [h, hg, if_false, ne_eq, not_false_eq_true, true_or, if_true]
      split
      · simp
      · split
        · simp
        · refine ⟨?_, rfl, by omega⟩
          simp only []
          grind

/-- the DP's invariant for one `chain` entry -/
def ChainOk (t : Tol) (ds cs : List Pt) (i : Nat) : Option Nat → Prop
  | some j => j + 1 = i ∨ (j + 2 ≤ i ∧ canIup t ds cs (j : Int) i = true)
  | none => i = 0 ∨ canIup t ds cs (-1) i = true

theorem dpInner_ok (t : Tol) (ds cs : List Pt) (must : List Bool) (costs : List Int) (i : Nat) :
    ∀ (steps : Nat) (j best : Int) (ch : Option Nat), j ≤ (i : Int) - 2 → -2 ≤ j - steps →
    ChainOk t ds cs i ch → ChainOk t ds cs i (dpInner t ds cs must costs i steps j best ch).2 := by
  intro steps
  induction steps with
  | zero => intro j best ch _ _ h; simpa [dpInner] using h
  | succ s ih =>
    intro j best ch hj hlow hch
    have hj1 : -1 ≤ j := by omega
    simp only [dpInner]
    by_cases h0 : j ≥ 0
    · simp only [h0, if_true]
      generalize hupd : (decide (costs.getD j.toNat 0 + 1 < best) && canIup t ds cs j i) = upd
      have hch' : ChainOk t ds cs i (if upd = true then some j.toNat else ch) := by
        cases upd with
        | false => simpa using hch
        | true =>
          have hc : canIup t ds cs j i = true := by
            have := hupd; simp only [Bool.and_eq_true] at this; exact this.2
          simp only [if_true, ChainOk]
          right
          have e : ((j.toNat : Nat) : Int) = j := Int.toNat_of_nonneg h0
          refine ⟨by omega, ?_⟩
          rw [e]; exact hc
      split
      · exact hch'
      · exact ih (j - 1) _ _ (by omega) (by omega) hch'
    · simp only [h0, if_false]
      generalize hupd : (decide (1 < best) && canIup t ds cs j i) = upd
      have hch' : ChainOk t ds cs i (if upd = true then none else ch) := by
        cases upd with
        | false => simpa using hch
        | true =>
          have hc : canIup t ds cs j i = true := by
            have := hupd; simp only [Bool.and_eq_true] at this; exact this.2
          have e : j = -1 := by omega
          simp only [if_true, ChainOk]
          right; rw [← e]; exact hc
      simp only [Bool.false_eq_true, if_false]
      exact ih (j - 1) _ _ (by omega) (by omega) hch'

/-- all chain entries below `i` satisfy the invariant -/
def ChainsOk (t : Tol) (ds cs : List Pt) (chain : List (Option Nat)) : Prop :=
  ∀ k, k < chain.length → ChainOk t ds cs k (chain.getD k none)

theorem chainsOk_snoc (t : Tol) (ds cs : List Pt) (chain : List (Option Nat)) (ch : Option Nat)
    (h : ChainsOk t ds cs chain) (hc : ChainOk t ds cs chain.length ch) :
    ChainsOk t ds cs (chain ++ [ch]) := by
  intro k hk
  simp only [List.length_append, List.length_cons, List.length_nil] at hk
  by_cases hlt : k < chain.length
  · have : (chain ++ [ch]).getD k none = chain.getD k none := by
      simp [List.getD_eq_getElem?_getD, List.getElem?_append_left hlt]
    rw [this]; exact h k hlt
  · have hk' : k = chain.length := by omega
    subst hk'
    have : (chain ++ [ch]).getD chain.length none = ch := by
      simp [List.getD_eq_getElem?_getD]
    rw [this]; exact hc

theorem dpOuter_ok (t : Tol) (ds cs : List Pt) (must : List Bool) (lb n : Nat) :
    ∀ (fuel i : Nat) (costs : List Int) (chain : List (Option Nat)), chain.length = i →
    ChainsOk t ds cs chain → ChainsOk t ds cs (dpOuter t ds cs must lb n fuel i costs chain).2 := by
  intro fuel
  induction fuel with
  | zero => intro i costs chain _ h; simpa [dpOuter] using h
  | succ f ih =>
    intro i costs chain hlen h
    simp only [dpOuter]
    split
    · exact h
    · have hinit : ChainOk t ds cs i (if i > 0 then some (i - 1) else none) := by
        by_cases hi : i > 0
        · simp only [hi, if_true, ChainOk]; left; omega
        · simp only [hi, if_false, ChainOk]; left; omega
      split
      · apply ih (i + 1) _ _ (by simp [hlen])
        apply chainsOk_snoc _ _ _ _ _ h
        rw [hlen]; exact hinit
      · apply ih (i + 1) _ _ (by simp [hlen])
        apply chainsOk_snoc _ _ _ _ _ h
        rw [hlen]
        apply dpInner_ok
        · omega
        · have : ((↑i - 2 - max ((i : Int) - ↑lb) (-2)).toNat : Int) ≤ max (↑i - 2 - max ((i : Int) - ↑lb) (-2)) 0 := by
            omega
          omega
        · exact hinit

theorem contourDp_ok (t : Tol) (ds cs : List Pt) (must : List Bool) (lb : Nat) :
    ChainsOk t ds cs (contourDp t ds cs must lb).2 := by
  unfold contourDp
  simp only []
  split
  · intro k hk
    simp only [List.length_map, List.length_range] at hk
    have : ((List.range ds.length).map fun i => if i > 0 then some (i - 1) else none).getD k none
        = if k > 0 then some (k - 1) else none := by
      simp [List.getD_eq_getElem?_getD, hk]
    rw [this]
    by_cases hi : k > 0
    · simp only [hi, if_true, ChainOk]; left; omega
    · simp only [hi, if_false, ChainOk]; left; omega
  · apply dpOuter_ok _ _ _ _ _ _ _ 0 [] [] rfl
    intro k hk; simp at hk

end FontVerif.Iup
