/-
Lemmas for C17 drawn-outline preservation, part 8: the converse for simple glyphs — a simple glyph is written empty only
if read-fonts' checked reader (`points()`) cannot decode it.
-/
import FontVerif.Lemmas.SubsetOutline7
set_option linter.unusedVariables false
set_option linter.unusedSimpArgs false
namespace FontVerif.SubsetOutline
open FontVerif FontVerif.Subset

/-- whenever read-fonts' `resolve_coords_len` accepts the flag data for the points that are left, klippa's trim walk
ends on one of its success returns (a non-zero length) -/
theorem trimGo_ne_zero_of_resolve (n : Nat) : ∀ (d : Bytes) (i cb cwf pos left xl yl : Nat) (r : Nat × Nat × Nat),
    cwf + left = n → 0 < left → Glyf.resolveCoordsLen d pos left xl yl = some r → trimGo n d i cb cwf ≠ 0
  | [], i, cb, cwf, pos, left, xl, yl, r, hn, hl, h => by
    simp only [Glyf.resolveCoordsLen] at h
    split at h <;> first | omega | cases h
  | [f], i, cb, cwf, pos, left, xl, yl, r, hn, hl, h => by
    unfold Glyf.resolveCoordsLen at h
    have hl0 : ¬ (left = 0) := by omega
    simp only [hl0, if_false] at h
    by_cases hb : (f &&& 0x08 != 0) = true
    · have hrep : Glyf.hasBit f Glyf.REPEAT = true := by simpa [Glyf.hasBit, Glyf.REPEAT] using hb
      simp only [hrep, if_true] at h
      cases h
    · have hrep : Glyf.hasBit f Glyf.REPEAT = false := by simpa [Glyf.hasBit, Glyf.REPEAT] using hb
      simp only [hrep, Bool.false_eq_true, if_false] at h
      simp only [Glyf.resolveCoordsLen] at h
      split at h
      · rename_i hz
        simp only [trimGo, hb, Bool.false_eq_true, if_false]
        have : ¬ (n ≠ cwf + 1) := by omega
        simp only [this, if_false]
        omega
      · cases h
  | f :: c :: rest, i, cb, cwf, pos, left, xl, yl, r, hn, hl, h => by
    unfold Glyf.resolveCoordsLen at h
    have hl0 : ¬ (left = 0) := by omega
    simp only [hl0, if_false] at h
    by_cases hb : (f &&& 0x08 != 0) = true
    · have hrep : Glyf.hasBit f Glyf.REPEAT = true := by simpa [Glyf.hasBit, Glyf.REPEAT] using hb
      simp only [hrep, if_true] at h
      split at h
      · cases h
      · rename_i hle
        simp only [trimGo, hb, if_true]
        by_cases hge : cwf + (c + 1) ≥ n
        · simp only [hge, if_true]
          have : ¬ (n ≠ cwf + (c + 1)) := by omega
          simp only [this, if_false]
          omega
        · simp only [hge, if_false]
          exact trimGo_ne_zero_of_resolve n rest _ _ _ _ (left - (c + 1)) _ _ r (by omega) (by omega) h
    · have hrep : Glyf.hasBit f Glyf.REPEAT = false := by simpa [Glyf.hasBit, Glyf.REPEAT] using hb
      simp only [hrep, Bool.false_eq_true, if_false] at h
      simp only [trimGo, hb, Bool.false_eq_true, if_false]
      by_cases hge : cwf + 1 ≥ n
      · simp only [hge, if_true]
        have : ¬ (n ≠ cwf + 1) := by omega
        simp only [this, if_false]
        omega
      · simp only [hge, if_false]
        exact trimGo_ne_zero_of_resolve n (c :: rest) _ _ _ _ (left - 1) _ _ r (by omega) (by omega) h

/-- **a simple glyph is written empty only if read-fonts' checked reader cannot decode it** -/
theorem simple_emptied_undecodable (flags : Nat) (gmap : Nat → Option Nat) (d : Bytes)
    (hs : u16At d 0 < 32768) (hnc : u16At d 0 ≠ 0)
    (h : subsetGlyphBytes flags gmap d = .bytes []) :
    ∃ v, Glyf.readSimple d = some v ∧ v.points = [] := by
  unfold subsetGlyphBytes at h
  split at h
  · cases h
  simp only [hs, if_true] at h
  split at h
  · cases h
  split at h
  · cases h
  rename_i hl2 hl12 hlil
  generalize hncd : u16At d 0 = nc at *
  generalize hil : u16At d (10 + 2 * nc) = il at *
  have hlen : 12 + 2 * nc + il ≤ d.length := by omega
  have hrec := record_parts d nc il hil.symm hlen
  generalize hhdr : d.take (10 + 2 * nc) = hdr at *
  generalize hx : d.getD (10 + 2 * nc) 0 = x at *
  generalize hy : d.getD (11 + 2 * nc) 0 = y at *
  generalize hins : (d.drop (12 + 2 * nc)).take il = instr at *
  generalize hgd : d.drop (12 + 2 * nc + il) = gd at *
  have hhl : hdr.length = 10 + 2 * nc := by rw [← hhdr]; simp; omega
  have hh0 : Glyf.u16At hdr 0 = some nc := by
    rw [gu16_eq hdr 0 (by omega), ← hhdr, u16At_take d _ 0 (by omega), hncd]
  have hilxy : il = x * 256 + y := by
    rw [← hil, ← hx, ← hy]; unfold u16At
    have : 10 + 2 * nc + 1 = 11 + 2 * nc := by omega
    rw [this]
  have hinsl : instr.length = x * 256 + y := by
    rw [← hins, ← hilxy]; simp; omega
  have hv := readSimple_parts hdr instr gd nc x y hhl hh0 hs hinsl
  rw [← hrec] at hv
  refine ⟨_, hv, ?_⟩
  have hlast : (viewOf hdr instr gd nc).endPts.getLast? = some (u16At d (10 + 2 * (nc - 1))) := by
    simp only [viewOf]
    rw [getLast_map_range nc _ hnc, gu16_eq hdr _ (by omega), ← hhdr, u16At_take d _ _ (by omega)]
    rfl
  unfold Glyf.SimpleView.points
  rw [hlast]
  simp only
  split
  · rfl
  · -- what the trim says
    unfold subsetSimple at h
    simp only [hnc, if_false] at h
    have e1 : 10 + 2 * nc + 2 = 12 + 2 * nc := by omega
    have e3 : 12 + 2 * nc - 2 = 10 + 2 * nc := by omega
    simp only [e1, e3, hil, hgd] at h
    cases hres : Glyf.resolveCoordsLen (viewOf hdr instr gd nc).glyphData 0 (u16At d (10 + 2 * (nc - 1)) + 1) 0 0 with
    | none => rfl
    | some r =>
      obtain ⟨fl, xl, yl⟩ := r
      simp only
      have hk0 := trimGo_ne_zero_of_resolve (u16At d (10 + 2 * (nc - 1)) + 1) gd 0 0 0 0 _ 0 0 _ (by omega) (by omega)
        (show Glyf.resolveCoordsLen gd 0 (u16At d (10 + 2 * (nc - 1)) + 1) 0 0 = some (fl, xl, yl) from hres)
      have hk0' : ¬ (trimSimpleGlyphPadding gd (u16At d (10 + 2 * (nc - 1)) + 1) = 0) := hk0
      simp only [hk0', if_false] at h
      -- the runs behind the non-zero result
      obtain ⟨R, hok, ⟨M, hM⟩, hcnt, hkk⟩ := trimGo_spec _ gd 0 0 0 _ rfl hk0
      rw [coordTot_eq] at hkk
      have hcnt' : counts R = u16At d (10 + 2 * (nc - 1)) + 1 := by unfold counts; omega
      have hres2 := resolve_runs R M 0 0 0 hok
      rw [hM, hcnt'] at hres2
      have hglyph : (viewOf hdr instr gd nc).glyphData = gd := rfl
      rw [hglyph, hres2] at hres
      simp only [Option.some.injEq, Prod.mk.injEq] at hres
      split at h
      · -- the slice failed: the data is shorter than flags + coordinates
        rename_i hsl
        have hshort : gd.length < fl + xl + yl := by
          unfold sliceGet at hsl
          split at hsl
          · cases hsl
          · rename_i hc
            have : trimSimpleGlyphPadding gd (u16At d (10 + 2 * (nc - 1)) + 1) = trimGo (u16At d (10 + 2 * (nc - 1)) + 1) gd 0 0 0 := rfl
            omega
        simp only [hglyph, hshort, if_true]
      · -- a glyph was written: not empty
        rename_i t ht
        simp only [GlyphRes.bytes.injEq] at h
        exfalso
        by_cases hnh : hasFlag flags F_NO_HINTING = true <;> by_cases hov : hasFlag flags F_SET_OVERLAPS = true <;>
          simp only [hnh, hov, if_true, if_false, Bool.false_eq_true] at h <;>
          (have hl := congrArg List.length h
           simp only [List.length_set, List.length_append, List.length_take, List.length_nil] at hl
           omega)

end FontVerif.SubsetOutline
