/- rational-number reading of the integer comparisons in Model/Iup.lean (needs Mathlib) -/
import FontVerif.Model.Iup
import Mathlib.Tactic.FieldSimp
import Mathlib.Tactic.Ring
import Mathlib.Tactic.Positivity
import Mathlib.Tactic.Linarith
namespace FontVerif.Iup
open FontVerif

/-- `withinTol` is the comparison `(dx - ix)² + (dy - iy)² ≤ tolerance²` over ℚ, where the inferred
delta is `(ix.1/ix.2, iy.1/iy.2)` and the tolerance `t.n/t.d`. -/
theorem withinTol_iff_rat (t : Tol) (d : Pt) (ix iy : Int × Int) (hx : 0 < ix.2) (hy : 0 < iy.2) (ht : 0 < t.d) :
    withinTol t d ix iy = true ↔
      ((d.1 : ℚ) - ix.1 / ix.2) ^ 2 + ((d.2 : ℚ) - iy.1 / iy.2) ^ 2 ≤ ((t.n : ℚ) / t.d) ^ 2 := by
  unfold withinTol
  simp only [decide_eq_true_eq]
  have hx' : (0 : ℚ) < ix.2 := by exact_mod_cast hx
  have hy' : (0 : ℚ) < iy.2 := by exact_mod_cast hy
  have ht' : (0 : ℚ) < t.d := by exact_mod_cast ht
  rw [← @Int.cast_le ℚ]
  push_cast
  rw [div_pow, le_div_iff₀ (by positivity)]
  have e : ((d.1 : ℚ) - ix.1 / ix.2) ^ 2 + ((d.2 : ℚ) - iy.1 / iy.2) ^ 2
      = (((d.1 : ℚ) * ix.2 - ix.1) ^ 2 * (iy.2 : ℚ) ^ 2 + ((d.2 : ℚ) * iy.2 - iy.1) ^ 2 * (ix.2 : ℚ) ^ 2)
        / ((ix.2 : ℚ) ^ 2 * (iy.2 : ℚ) ^ 2) := by
    field_simp
  rw [e, div_mul_eq_mul_div, div_le_iff₀ (by positivity)]
  constructor <;> intro h <;> nlinarith [h]

end FontVerif.Iup
