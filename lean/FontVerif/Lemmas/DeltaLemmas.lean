/-
Helper lemmas for C11 (`ItemVariationStore::compute_delta`): the accumulation loop as a sum,
bounds that justify modelling the i64 accumulator by `Int`, and the final rounding.
-/
import FontVerif.Model.Tent
import FontVerif.Lemmas.TentLemmas
namespace FontVerif.Tent
open FontVerif

/-- the row the reader decodes for `inner` in subtable `st` (`ItemVariationData::delta_set` on
the `delta_sets` array of `row_len × item_count` bytes). -/
def decodedRow (st : SubTable) (inner : Nat) : List Int :=
  deltaSet st.wordDeltaCount st.regionIndexes.length
    (st.data.take (deltaRowLen st.wordDeltaCount st.regionIndexes.length * st.itemCount)) inner

/-- the specified weighted sum: `Σ_i delta_i × scalar(region(ri_i), coords)` (scalar as 16.16 bits);
a region index outside the list contributes nothing (the loop errors out in that case). -/
def specSum (regions : List (List (Int × Int × Int))) (coords : List Int) :
    List Int → List Nat → Int
  | d :: ds, ri :: ris => d * computeScalar (regions.getD ri []) coords + specSum regions coords ds ris
  | _, _ => 0

/-- the loop succeeds iff there is a region index for every delta and each names a region. -/
def LoopOk (regions : List (List (Int × Int × Int))) : List Int → List Nat → Prop
  | [], _ => True
  | _ :: _, [] => False
  | _ :: ds, ri :: ris => ri < regions.length ∧ LoopOk regions ds ris

theorem deltaLoop_spec (regions : List (List (Int × Int × Int))) (coords : List Int) :
    ∀ (ds : List Int) (ris : List Nat) (acc : Int),
      (LoopOk regions ds ris →
        deltaLoop regions coords ds ris acc = some (acc + specSum regions coords ds ris)) ∧
      (¬ LoopOk regions ds ris → deltaLoop regions coords ds ris acc = none) := by
  intro ds
  induction ds with
  | nil => intro ris acc; simp [deltaLoop, specSum, LoopOk]
  | cons d ds ih =>
    intro ris acc
    cases ris with
    | nil => simp [deltaLoop, LoopOk]
    | cons ri ris =>
      simp only [deltaLoop, LoopOk, specSum]
      by_cases h : ri < regions.length
      · have e : regions[ri]? = some regions[ri] := List.getElem?_eq_getElem h
        have e' : regions.getD ri [] = regions[ri] := by simp [List.getD, e]
        rw [e, e']
        simp only []
        have := ih ris (acc + d * computeScalar regions[ri] coords)
        constructor
        · intro hok
          rw [this.1 hok.2]; congr 1; omega
        · intro hno
          exact this.2 (fun hh => hno ⟨h, hh⟩)
      · have e : regions[ri]? = none := List.getElem?_eq_none (by omega)
        rw [e]
        simp [h]

/-! ### bounds: the i64 accumulator never overflows -/

def AllAxesOk (regions : List (List (Int × Int × Int))) : Prop :=
  ∀ r ∈ regions, ∀ a ∈ r, inI16 a.1 ∧ inI16 a.2.1 ∧ inI16 a.2.2

theorem specSum_bound (regions : List (List (Int × Int × Int))) (coords : List Int) (B : Int)
    (hB : 0 ≤ B)
    (hsc : ∀ ri, 0 ≤ computeScalar (regions.getD ri []) coords ∧
                 computeScalar (regions.getD ri []) coords ≤ 65536) :
    ∀ (ds : List Int) (ris : List Nat), (∀ d ∈ ds, -B ≤ d ∧ d ≤ B) →
      -(B * 65536 * ds.length) ≤ specSum regions coords ds ris ∧
      specSum regions coords ds ris ≤ B * 65536 * ds.length := by
  intro ds
  induction ds with
  | nil => intro ris _; simp [specSum]
  | cons d ds ih =>
    intro ris hd
    cases ris with
    | nil => simp only [specSum, List.length_cons]
             have : 0 ≤ B * 65536 * ((ds.length : Int) + 1) :=
               Int.mul_nonneg (by omega) (by omega)
             push_cast; omega
    | cons ri ris =>
      simp only [specSum, List.length_cons]
      have hdb := hd d (by simp)
      have hs := hsc ri
      have ih' := ih ris (fun x hx => hd x (by simp [hx]))
      generalize computeScalar (regions.getD ri []) coords = s at *
      -- |d * s| ≤ B * 65536
      have h1 : d * s ≤ B * 65536 := by
        by_cases hd0 : 0 ≤ d
        · calc d * s ≤ d * 65536 := Int.mul_le_mul_of_nonneg_left hs.2 hd0
            _ ≤ B * 65536 := Int.mul_le_mul_of_nonneg_right hdb.2 (by omega)
        · have : d * s ≤ 0 := Int.mul_nonpos_of_nonpos_of_nonneg (by omega) hs.1
          have : 0 ≤ B * 65536 := by omega
          omega
      have h2 : -(B * 65536) ≤ d * s := by
        by_cases hd0 : 0 ≤ d
        · have : 0 ≤ d * s := Int.mul_nonneg hd0 hs.1
          omega
        · have h3 : (-d) * s ≤ (-d) * 65536 := Int.mul_le_mul_of_nonneg_left hs.2 (by omega)
          have h4 : (-d) * 65536 ≤ B * 65536 := Int.mul_le_mul_of_nonneg_right (by omega) (by omega)
          have h5 : (-d) * s = -(d * s) := Int.neg_mul d s
          omega
      have e : B * 65536 * ((ds.length : Int) + 1) = B * 65536 * ds.length + B * 65536 := by
        rw [Int.mul_add]; omega
      push_cast
      rw [e]
      omega

/-! ### the decoded row consists of i32 values -/

theorem readW_inI32 {w : Nat} {bytes : List Nat} {v : Int} {rest : List Nat}
    (hb : ∀ b ∈ bytes, b < 256) (h : readW w bytes = some (v, rest)) :
    inI32 v ∧ (∀ b ∈ rest, b < 256) := by
  unfold readW at h
  split at h
  · unfold readS1 at h
    split at h
    · rename_i b r
      simp at h
      obtain ⟨rfl, rfl⟩ := h
      have := hb b (by simp)
      refine ⟨?_, fun x hx => hb x (by simp [hx])⟩
      unfold inI32; split <;> omega
    · simp at h
  · split at h
    · unfold readS2 at h
      split at h
      · rename_i a b r
        simp at h
        obtain ⟨rfl, rfl⟩ := h
        have := hb a (by simp); have := hb b (by simp)
        refine ⟨?_, fun x hx => hb x (by simp [hx])⟩
        unfold inI32; split <;> omega
      · simp at h
    · unfold readS4 at h
      split at h
      · rename_i a b c d r
        simp at h
        obtain ⟨rfl, rfl⟩ := h
        have := hb a (by simp); have := hb b (by simp); have := hb c (by simp); have := hb d (by simp)
        refine ⟨?_, fun x hx => hb x (by simp [hx])⟩
        unfold inI32; split <;> omega
      · simp at h

theorem itemDeltas_inI32 (wdcLow : Nat) (longWords : Bool) (len : Nat) :
    ∀ (pos : Nat) (bytes : List Nat), (∀ b ∈ bytes, b < 256) →
      (∀ d ∈ itemDeltas wdcLow longWords len pos bytes, inI32 d) ∧
      (itemDeltas wdcLow longWords len pos bytes).length ≤ len - pos := by
  intro pos bytes
  fun_induction itemDeltas wdcLow longWords len pos bytes with
  | case1 pos bytes h => intro _; simp
  | case2 pos bytes h hr => intro _; simp
  | case3 pos bytes h v rest hr ih =>
    intro hb
    have := readW_inI32 hb hr
    have ih' := ih this.2
    constructor
    · intro d hd
      rcases List.mem_cons.mp hd with rfl | hd'
      · exact this.1
      · exact ih'.1 d hd'
    · simp only [List.length_cons]; omega

theorem deltaSet_inI32 (wdc regionCount : Nat) (data : List Nat) (inner : Nat)
    (hb : ∀ b ∈ data, b < 256) :
    (∀ d ∈ deltaSet wdc regionCount data inner, inI32 d) ∧
    (deltaSet wdc regionCount data inner).length ≤ regionCount := by
  unfold deltaSet
  simp only []
  have hb' : ∀ b ∈ (if deltaRowLen wdc regionCount * inner ≤ data.length
      then data.drop (deltaRowLen wdc regionCount * inner) else []), b < 256 := by
    intro b hbm
    split at hbm
    · exact hb b (List.mem_of_mem_drop hbm)
    · simp at hbm
  have := itemDeltas_inI32 (wdc % 32768) (decide (wdc / 32768 % 2 = 1)) regionCount 0 _ hb'
  exact ⟨this.1, by have := this.2; omega⟩

/-! ### final rounding -/

/-- `(accum + 0x8000) >> 16` is `accum / 2¹⁶` rounded to nearest, ties towards +∞. -/
theorem round_shift_spec (acc : Int) :
    65536 * ((acc + 32768) / 65536) - 32768 ≤ acc ∧ acc < 65536 * ((acc + 32768) / 65536) + 32768 := by
  omega

theorem roundAccum_nowrap {acc : Int} (h0 : -140737488355328 ≤ acc) (h1 : acc < 140737488322560) :
    roundAccum acc = (acc + 32768) / 65536 := by
  unfold roundAccum
  apply wrapI32_id
  unfold inI32; omega

end FontVerif.Tent
