/-
Helper lemmas for C05 (Model/Graph.lean): graph surgery (`duplicate_subgraph`, `isolate_subgraph_hb`,
`assign_spaces_hb`, `try_isolating_subgraphs`, `remove_orphans`) maintains a simulation of the
input graph: a renaming `φ` (copy ↦ original) under which every object has the same bytes and the
same link shapes.
-/
import FontVerif.Model.Graph
import FontVerif.Lemmas.GraphSer
import FontVerif.Lemmas.GraphSort
import FontVerif.Lemmas.GraphSort2
set_option linter.unusedVariables false
set_option linter.unusedSimpArgs false
namespace FontVerif.Graph
open FontVerif

/-! ### objects after insert / modify / filter -/

theorem obj_insert (g g' : Graph) (k : Nat) (v : Obj) (hg : g'.objects = g.objects.insert k v) (x : Nat) :
    g'.obj x = if k = x then v else g.obj x := by
  simp only [Graph.obj, hg, Map.find?_insert]
  split <;> simp

/-- an object transformer that only re-targets links -/
def LinkMap (f : Obj → Obj) : Prop := f default = default

theorem obj_modify (g g' : Graph) (k : Nat) (f : Obj → Obj) (hf : LinkMap f)
    (hg : g'.objects = Map.modify g.objects k f) (x : Nat) :
    g'.obj x = if x = k then f (g.obj x) else g.obj x := by
  simp only [Graph.obj, hg, Map.find?_modify]
  split
  · cases g.objects.find? x with
    | none => simp; exact hf.symm
    | some o => simp
  · rfl

theorem Map.find?_filter {α : Type} (m : Map α) (p : Nat → Bool) (x : Nat) :
    Map.find? (m.filter (fun kv => p kv.1)) x = if p x then m.find? x else none := by
  induction m with
  | nil => simp [Map.find?]
  | cons kv rest ih =>
    obtain ⟨k, v⟩ := kv
    simp only [List.filter_cons]
    by_cases hk : k = x
    · subst hk
      by_cases hp : p k
      · simp [hp, Map.find?]
      · simp only [hp, Bool.false_eq_true, ↓reduceIte]
        rw [ih]; simp [hp]
    · by_cases hp : p k
      · simp only [hp, ↓reduceIte, Map.find?, hk]
        exact ih
      · simp only [hp, Bool.false_eq_true, ↓reduceIte, Map.find?, hk]
        exact ih

/-! ### ids nobody uses -/

/-- `n` is neither the id of an object, nor the target of a link, nor a cached parent -/
def Unused (g : Graph) (n : Nat) : Prop :=
  g.objects.find? n = none ∧ (∀ x, ∀ l ∈ (g.obj x).links, l.target ≠ n) ∧
    (∀ x, ∀ p ∈ (g.node x).parents, p.1 ≠ n)

theorem unused_obj_links (g : Graph) (n : Nat) (h : Unused g n) (x : Nat) :
    ∀ l ∈ (g.obj x).links, l.target ≠ n := h.2.1 x

theorem node_congr (g g' : Graph) (h : g'.nodes = g.nodes) (id : Nat) : g'.node id = g.node id := by
  simp [Graph.node, h]

theorem unused_congr (g g' : Graph) (h : g'.objects = g.objects) (hn : g'.nodes = g.nodes) (n : Nat)
    (hu : Unused g n) : Unused g' n := by
  refine ⟨by rw [h]; exact hu.1, ?_, ?_⟩
  · intro x; rw [obj_congr g g' h]; exact hu.2.1 x
  · intro x; rw [node_congr g g' hn]; exact hu.2.2 x

theorem node_insert (g g' : Graph) (k : Nat) (v : Node) (hg : g'.nodes = g.nodes.insert k v) (x : Nat) :
    g'.node x = if k = x then v else g.node x := by
  simp only [Graph.node, hg, Map.find?_insert]
  split <;> simp

/-! ### re-targeting links under a renaming -/

theorem map_shape_congr (φ ψ : Nat → Nat) (ls : List Link) (h : ∀ l ∈ ls, φ l.target = ψ l.target) :
    ls.map (linkShape φ) = ls.map (linkShape ψ) := by
  apply List.map_congr_left
  intro l hl
  simp only [linkShape, h l hl]

theorem simulates_congr (g g' g0 : Graph) (φ : Nat → Nat) (h : g'.objects = g.objects)
    (hs : Simulates g g0 φ) : Simulates g' g0 φ := by
  intro x
  rw [obj_congr g g' h]
  exact hs x

/-- same bytes and the same link shapes up to `φ` -/
def SameShape (φ : Nat → Nat) (o' o : Obj) : Prop :=
  o'.bytes = o.bytes ∧ o'.links.map (linkShape φ) = o.links.map (linkShape φ)

theorem simulates_of_sameShape (g g' g0 : Graph) (φ : Nat → Nat) (hs : Simulates g g0 φ)
    (h : ∀ x, SameShape φ (g'.obj x) (g.obj x)) : Simulates g' g0 φ := by
  intro x
  obtain ⟨hb, hl⟩ := h x
  obtain ⟨sb, sl⟩ := hs x
  exact ⟨hb.trans sb, hl.trans sl⟩

/-! ### duplicate_subgraph -/

/-- invariant of the graph surgery: the current graph simulates the input graph `g0` under `φ`;
the ids still to be handed out (`s.fresh`) and the ones held by enclosing calls (`hold`) are
distinct and unused; `dupes` maps originals to copies that `φ` sends to the same place -/
structure SInv (g0 : Graph) (φ : Nat → Nat) (s : Surg) (hold : List Nat) : Prop where
  sim : Simulates s.g g0 φ
  nodup : (hold ++ s.fresh).Nodup
  unused : ∀ n ∈ hold ++ s.fresh, Unused s.g n
  dupes : ∀ k v, s.dupes.find? k = some v → k ∉ hold ++ s.fresh ∧ v ∉ hold ++ s.fresh ∧ φ v = φ k

/-- one iteration of `for link in &mut obj.offsets` in `duplicate_subgraph` -/
def dupStep (fuel space : Nat) (acc : Option (List Link × Surg)) (l : Link) : Option (List Link × Surg) :=
  match acc with
  | none => none
  | some (ls, s) =>
    match duplicateSubgraph fuel l.target space s with
    | none => none
    | some (t, s) => some (ls ++ [{ l with target := t }], s)

theorem dupStep_none (fuel space : Nat) (links : List Link) :
    links.foldl (dupStep fuel space) none = none := by
  induction links with
  | nil => rfl
  | cons l rest ih => simpa [List.foldl_cons, dupStep] using ih

/-- what one call of `duplicate_subgraph` guarantees -/
def DupSpec (g0 : Graph) (fuel : Nat) : Prop :=
  ∀ (root space : Nat) (s : Surg) (hold : List Nat) (φ : Nat → Nat) (r : Nat) (s' : Surg),
    SInv g0 φ s hold → root ∉ hold ++ s.fresh →
    duplicateSubgraph fuel root space s = some (r, s') →
    ∃ φ', SInv g0 φ' s' hold ∧ s'.dupes.find? root = some r ∧ s'.fresh <:+ s.fresh ∧
      (∀ x, x ∉ s.fresh → φ' x = φ x) ∧ s'.g.root = s.g.root

theorem suffix_notMem {hold a b : List Nat} {x : Nat} (h : a <:+ b) (hx : x ∉ hold ++ b) : x ∉ hold ++ a := by
  intro hm
  apply hx
  rcases List.mem_append.mp hm with hm | hm
  · exact List.mem_append_left _ hm
  · exact List.mem_append_right _ (h.subset hm)

theorem dupFold_spec (g0 : Graph) (fuel space : Nat) (ih : DupSpec g0 fuel)
    (links : List Link) (ls : List Link) (s : Surg) (hold : List Nat) (φ : Nat → Nat)
    (ls' : List Link) (s' : Surg)
    (hinv : SInv g0 φ s hold) (ht : ∀ l ∈ links, l.target ∉ hold ++ s.fresh)
    (h : links.foldl (dupStep fuel space) (some (ls, s)) = some (ls', s')) :
    ∃ φ' new, SInv g0 φ' s' hold ∧ s'.fresh <:+ s.fresh ∧ (∀ x, x ∉ s.fresh → φ' x = φ x) ∧
      s'.g.root = s.g.root ∧ ls' = ls ++ new ∧
      new.map (linkShape φ') = links.map (linkShape φ) ∧
      new.map (fun l => (l.pos, l.width, l.adj)) = links.map (fun l => (l.pos, l.width, l.adj)) ∧
      (∀ l ∈ new, l.target ∉ hold ++ s'.fresh) := by
  induction links generalizing ls s φ with
  | nil =>
    simp only [List.foldl_nil, Option.some.injEq, Prod.mk.injEq] at h
    obtain ⟨rfl, rfl⟩ := h
    exact ⟨φ, [], hinv, List.suffix_refl _, fun _ _ => rfl, rfl, by simp, rfl, rfl, by simp⟩
  | cons l rest ihl =>
    simp only [List.foldl_cons] at h
    cases hd : duplicateSubgraph fuel l.target space s with
    | none =>
      simp only [dupStep, hd] at h
      rw [dupStep_none] at h
      simp at h
    | some res =>
      obtain ⟨t, s1⟩ := res
      simp only [dupStep, hd] at h
      have htl := ht l List.mem_cons_self
      obtain ⟨φ1, hinv1, hfind1, hsuf1, hag1, hroot1⟩ := ih l.target space s hold φ t s1 hinv htl hd
      have ht1 : ∀ l' ∈ rest, l'.target ∉ hold ++ s1.fresh :=
        fun l' hl' => suffix_notMem hsuf1 (ht l' (List.mem_cons_of_mem _ hl'))
      obtain ⟨φ', new, hinv', hsuf', hag', hroot', hls', hshape, hpw, hnew⟩ :=
        ihl (ls ++ [{ l with target := t }]) s1 φ1 hinv1 ht1 h
      have hd1 := hinv1.dupes l.target t hfind1
      have hnotfresh : ∀ x, x ∉ hold ++ s.fresh → x ∉ s.fresh := fun x hx hm => hx (List.mem_append_right _ hm)
      have hnotfresh1 : ∀ x, x ∉ hold ++ s1.fresh → x ∉ s1.fresh := fun x hx hm => hx (List.mem_append_right _ hm)
      refine ⟨φ', { l with target := t } :: new, hinv', hsuf'.trans hsuf1, ?_, hroot'.trans hroot1, ?_, ?_, ?_, ?_⟩
      · intro x hx
        rw [hag' x (fun hm => hx (hsuf1.subset hm)), hag1 x hx]
      · rw [hls']; simp
      · simp only [List.map_cons, List.cons.injEq]
        refine ⟨?_, ?_⟩
        · simp only [linkShape, Prod.mk.injEq, true_and]
          rw [hag' t (hnotfresh1 t hd1.2.1), hd1.2.2, hag1 _ (hnotfresh _ htl)]
        · rw [hshape]
          apply map_shape_congr
          intro l' hl'
          exact hag1 _ (hnotfresh _ (ht l' (List.mem_cons_of_mem _ hl')))
      · simp only [List.map_cons, hpw]
      · intro l' hl'
        rcases List.mem_cons.mp hl' with rfl | hl'
        · exact suffix_notMem hsuf' hd1.2.1
        · exact hnew l' hl'

theorem mem_hold_cons {hold fresh : List Nat} {a x : Nat} :
    x ∈ (a :: hold) ++ fresh ↔ x ∈ hold ++ a :: fresh := by
  simp only [List.cons_append, List.mem_cons, List.mem_append]
  constructor
  · rintro (h | h | h) <;> simp [h]
  · rintro (h | h | h) <;> simp [h]

theorem dup_spec (g0 : Graph) (fuel : Nat) : DupSpec g0 fuel := by
  induction fuel with
  | zero =>
    intro root space s hold φ r s' _ _ h
    simp [duplicateSubgraph] at h
  | succ n ih =>
    intro root space s hold φ r s' hinv hroot h
    unfold duplicateSubgraph at h
    split at h
    · rename_i existing he
      simp only [Option.some.injEq, Prod.mk.injEq] at h
      obtain ⟨rfl, rfl⟩ := h
      exact ⟨φ, hinv, he, List.suffix_refl _, fun _ _ => rfl, rfl⟩
    · rename_i hnone
      split at h
      · simp at h
      · rename_i newRoot fresh hfresh
        simp only [] at h
        generalize hfold : List.foldl _ _ _ = res at h
        have hfold' : (s.g.obj root).links.foldl (dupStep n space)
            (some ([], { s with g := { s.g with parentsInvalid := true }, fresh := fresh })) = res := hfold
        clear hfold
        cases res with
        | none => simp at h
        | some pr =>
          obtain ⟨links, s1⟩ := pr
          simp only [Option.some.injEq, Prod.mk.injEq] at h
          obtain ⟨rfl, rfl⟩ := h
          -- the invariant for the recursive calls, holding `newRoot`
          have hinv0 : SInv g0 φ { s with g := { s.g with parentsInvalid := true }, fresh := fresh } (newRoot :: hold) := by
            constructor
            · exact simulates_congr s.g _ g0 φ rfl hinv.sim
            · have := hinv.nodup
              rw [hfresh] at this
              exact (List.perm_middle.nodup_iff).mp this
            · intro x hx
              have := hinv.unused x (by rw [hfresh]; exact mem_hold_cons.mp hx)
              exact unused_congr s.g _ rfl rfl x this
            · intro k v hkv
              obtain ⟨h1, h2, h3⟩ := hinv.dupes k v hkv
              rw [hfresh] at h1 h2
              exact ⟨fun hm => h1 (mem_hold_cons.mp hm), fun hm => h2 (mem_hold_cons.mp hm), h3⟩
          have ht0 : ∀ l ∈ (s.g.obj root).links, l.target ∉ (newRoot :: hold) ++ fresh := by
            intro l hl hm
            have hm' : l.target ∈ hold ++ s.fresh := by rw [hfresh]; exact mem_hold_cons.mp hm
            exact unused_obj_links s.g l.target (hinv.unused _ hm') root l hl rfl
          obtain ⟨φ1, new, hinv1, hsuf1, hag1, hroot1, hls, hshape, hpw, hnew⟩ :=
            dupFold_spec g0 n space ih (s.g.obj root).links [] _ (newRoot :: hold) φ links s1 hinv0 ht0 hfold'
          simp only [List.nil_append] at hls
          subst hls
          rename_i links
          have hnd1 := hinv1.nodup
          have hnew_notin : newRoot ∉ hold ++ s1.fresh := by
            simp only [List.cons_append, List.nodup_cons] at hnd1
            exact hnd1.1
          have hroot_ne : root ≠ newRoot := by
            intro he
            apply hroot
            rw [hfresh, he]
            simp
          have hroot_fresh : root ∉ fresh := by
            intro hm
            apply hroot
            rw [hfresh]
            exact List.mem_append_right _ (List.mem_cons_of_mem _ hm)
          have hsufS : s1.fresh <:+ s.fresh := by
            rw [hfresh]; exact hsuf1.trans (List.suffix_cons _ _)
          have hunused_new : Unused s1.g newRoot := hinv1.unused newRoot (by simp)
          refine ⟨fun x => if x = newRoot then φ root else φ1 x, ?_, ?_, hsufS, ?_, ?_⟩
          · constructor
            · -- simulation
              intro x
              rw [obj_insert s1.g _ newRoot { s.g.obj root with links := links } rfl x]
              by_cases hx : newRoot = x
              · subst hx
                simp only [↓reduceIte]
                obtain ⟨sb, sl⟩ := hinv.sim root
                refine ⟨sb, ?_⟩
                rw [← sl, ← hshape]
                apply map_shape_congr
                intro l hl
                have : l.target ≠ newRoot := by
                  intro he
                  exact hnew l hl (by rw [he]; simp)
                simp only [this, ↓reduceIte]
              · have hx' : x ≠ newRoot := fun e => hx e.symm
                simp only [hx, hx', ↓reduceIte]
                obtain ⟨sb, sl⟩ := hinv1.sim x
                refine ⟨sb, ?_⟩
                rw [← sl]
                apply map_shape_congr
                intro l hl
                have : l.target ≠ newRoot := unused_obj_links s1.g newRoot hunused_new x l hl
                simp only [this, ↓reduceIte]
            · exact hnd1.sublist (by simp)
            · intro m hm
              have hm' : m ∈ (newRoot :: hold) ++ s1.fresh := by
                simp only [List.cons_append, List.mem_cons]; right; exact hm
              have hne : newRoot ≠ m := fun e => hnew_notin (e ▸ hm)
              obtain ⟨u1, u2, u3⟩ := hinv1.unused m hm'
              refine ⟨?_, ?_, ?_⟩
              · simp only []
                rw [Map.find?_insert, if_neg hne]
                exact u1
              · intro x l hl
                rw [obj_insert s1.g _ newRoot { s.g.obj root with links := links } rfl x] at hl
                split at hl
                · intro he
                  exact hnew l hl (he ▸ hm')
                · exact u2 x l hl
              · intro x p hp
                rw [node_insert s1.g _ newRoot { Node.new (s.g.obj root).size with space := space } rfl x] at hp
                split at hp
                · simp [Node.new] at hp
                · exact u3 x p hp
            · intro k v hkv
              simp only [] at hkv
              rw [Map.find?_insert] at hkv
              split at hkv
              · rename_i hk
                simp only [Option.some.injEq] at hkv
                subst hk; subst hkv
                refine ⟨suffix_notMem hsufS hroot, hnew_notin, ?_⟩
                simp only [↓reduceIte, hroot_ne]
                exact (hag1 root hroot_fresh).symm
              · obtain ⟨h1, h2, h3⟩ := hinv1.dupes k v hkv
                have hk1 : k ≠ newRoot := fun e => h1 (by rw [e]; simp)
                have hv1 : v ≠ newRoot := fun e => h2 (by rw [e]; simp)
                refine ⟨fun hm => h1 ?_, fun hm => h2 ?_, ?_⟩
                · simp only [List.cons_append, List.mem_cons]; right; exact hm
                · simp only [List.cons_append, List.mem_cons]; right; exact hm
                · simp only [hk1, hv1, ↓reduceIte]; exact h3
          · simp only []
            rw [Map.find?_insert]; simp
          · intro x hx
            rw [hfresh] at hx
            have h1 : x ≠ newRoot := fun e => hx (by rw [e]; simp)
            have h2 : x ∉ fresh := fun hm => hx (List.mem_cons_of_mem _ hm)
            simp only [h1, ↓reduceIte]
            exact hag1 x h2
          · simp only []
            exact hroot1

/-! ### re-targeting through `Map.modify` -/

/-- a link transformer that keeps a link or re-targets it at the recorded copy of its target -/
def Retarget (dupes : Map Nat) (r : Link → Link) : Prop :=
  ∀ l, r l = l ∨ ∃ v, dupes.find? l.target = some v ∧ r l = { l with target := v }

theorem node_parents_eq (g : Graph) (x : Nat) : (g.node x).parents = parentsOf g.nodes x := rfl

theorem sinv_weaken_dupes (g0 : Graph) (φ : Nat → Nat) (g : Graph) (d : Map Nat) (fr hold : List Nat)
    (h : SInv g0 φ ⟨g, d, fr⟩ hold) : SInv g0 φ ⟨g, [], fr⟩ hold :=
  ⟨h.sim, h.nodup, h.unused, fun k v hkv => by simp [Map.find?] at hkv⟩

theorem sinv_modify (g0 : Graph) (φ : Nat → Nat) (g g' : Graph) (dupes : Map Nat) (fr hold : List Nat)
    (k : Nat) (r : Link → Link) (hr : Retarget dupes r)
    (hinv : SInv g0 φ ⟨g, dupes, fr⟩ hold)
    (ho : g'.objects = Map.modify g.objects k (fun o => { o with links := o.links.map r }))
    (hpar : ∀ x, (g'.node x).parents = (g.node x).parents) :
    SInv g0 φ ⟨g', dupes, fr⟩ hold := by
  have hlm : LinkMap (fun o : Obj => { o with links := o.links.map r }) := by
    show ({ (default : Obj) with links := (default : Obj).links.map r } : Obj) = default
    rfl
  have hobj := obj_modify g g' k _ hlm ho
  constructor
  · apply simulates_of_sameShape g g' g0 φ hinv.sim
    intro x
    rw [hobj x]
    split
    · refine ⟨rfl, ?_⟩
      simp only [List.map_map]
      apply List.map_congr_left
      intro l hl
      simp only [Function.comp]
      rcases hr l with h | ⟨v, hv, h⟩
      · rw [h]
      · rw [h]
        simp only [linkShape, (hinv.dupes _ _ hv).2.2]
    · exact ⟨rfl, rfl⟩
  · exact hinv.nodup
  · intro n hn
    obtain ⟨u1, u2, u3⟩ := hinv.unused n hn
    refine ⟨?_, ?_, ?_⟩
    · simp only [] at u1 ⊢
      rw [ho, Map.find?_modify]
      split <;> simp [u1]
    · intro x l hl
      simp only [] at hl
      rw [hobj x] at hl
      split at hl
      · simp only [List.mem_map] at hl
        obtain ⟨l0, hl0, rfl⟩ := hl
        rcases hr l0 with h | ⟨v, hv, h⟩
        · rw [h]; exact u2 x l0 hl0
        · rw [h]
          intro he
          exact (hinv.dupes _ _ hv).2.1 (by simp only [] at he; rw [he]; exact hn)
      · exact u2 x l hl
    · intro x p hp
      simp only [] at hp
      rw [hpar x] at hp
      exact u3 x p hp
  · exact hinv.dupes

theorem retarget_remap (dupes : Map Nat) :
    Retarget dupes (fun l => match dupes.find? l.target with | some n => { l with target := n } | none => l) := by
  intro l
  cases h : dupes.find? l.target with
  | none => left; simp only [h]
  | some v => right; exact ⟨v, rfl, by simp only [h]⟩

theorem remapFold_sinv (g0 : Graph) (φ : Nat → Nat) (dupes : Map Nat) (fr hold : List Nat) (sp : Nat)
    (ids : List Nat) (g : Graph) (hinv : SInv g0 φ ⟨g, dupes, fr⟩ hold) :
    SInv g0 φ ⟨ids.foldl (fun (g : Graph) id =>
      { g with nodes := Map.modify g.nodes id (fun n => { n with space := sp })
               objects := Map.modify g.objects id (fun o => { o with links := remapLinks dupes o.links }) }) g,
      dupes, fr⟩ hold ∧
    (ids.foldl (fun (g : Graph) id =>
      { g with nodes := Map.modify g.nodes id (fun n => { n with space := sp })
               objects := Map.modify g.objects id (fun o => { o with links := remapLinks dupes o.links }) }) g).root = g.root := by
  induction ids generalizing g with
  | nil => exact ⟨hinv, rfl⟩
  | cons id rest ih =>
    simp only [List.foldl_cons]
    have h1 : SInv g0 φ ⟨{ g with nodes := Map.modify g.nodes id (fun n => { n with space := sp }), objects := Map.modify g.objects id (fun o => { o with links := remapLinks dupes o.links }) }, dupes, fr⟩ hold := by
      apply sinv_modify g0 φ g _ dupes fr hold id _ (retarget_remap dupes) hinv rfl
      intro x
      rw [node_parents_eq, node_parents_eq]
      exact parentsOf_modify g.nodes id (fun n => { n with space := sp }) (fun n => rfl) x
    obtain ⟨i1, i2⟩ := ih _ h1
    exact ⟨i1, i2⟩

theorem retarget_root (dupes : Map Nat) (root newId : Nat) (h : dupes.find? root = some newId) :
    Retarget dupes (fun l => if l.target = root ∧ l.width ≠ 2 then { l with target := newId } else l) := by
  intro l
  by_cases hc : l.target = root ∧ l.width ≠ 2
  · right
    refine ⟨newId, by rw [hc.1]; exact h, ?_⟩
    simp only [hc, ne_eq, not_false_eq_true, and_self, ↓reduceIte]
  · left
    simp only [hc, ↓reduceIte]

theorem repointParents_sinv (g0 : Graph) (φ : Nat → Nat) (dupes : Map Nat) (fr hold : List Nat)
    (root newId : Nat) (hd : dupes.find? root = some newId)
    (ps : List (Nat × Nat)) (g : Graph) (hinv : SInv g0 φ ⟨g, dupes, fr⟩ hold) :
    SInv g0 φ ⟨ps.foldl (fun (g : Graph) p =>
        if p.2 ≠ 2 then
          { g with objects := Map.modify g.objects p.1 (fun o =>
              { o with links := o.links.map (fun l =>
                  if l.target = root ∧ l.width ≠ 2 then { l with target := newId } else l) }) }
        else g) g, dupes, fr⟩ hold ∧
    (ps.foldl (fun (g : Graph) p =>
        if p.2 ≠ 2 then
          { g with objects := Map.modify g.objects p.1 (fun o =>
              { o with links := o.links.map (fun l =>
                  if l.target = root ∧ l.width ≠ 2 then { l with target := newId } else l) }) }
        else g) g).root = g.root := by
  induction ps generalizing g with
  | nil => exact ⟨hinv, rfl⟩
  | cons p rest ih =>
    simp only [List.foldl_cons]
    by_cases hp : p.2 ≠ 2
    · simp only [hp, ↓reduceIte, ne_eq, not_false_eq_true]
      have h1 := sinv_modify g0 φ g
        { g with objects := Map.modify g.objects p.1 (fun o =>
              { o with links := o.links.map (fun l =>
                  if l.target = root ∧ l.width ≠ 2 then { l with target := newId } else l) }) }
        dupes fr hold p.1 _ (retarget_root dupes root newId hd) hinv rfl (fun x => rfl)
      obtain ⟨i1, i2⟩ := ih _ h1
      exact ⟨i1, i2⟩
    · simp only [hp, ↓reduceIte]
      exact ih g hinv

theorem repointRoots_sinv (g0 : Graph) (φ : Nat → Nat) (dupes : Map Nat) (fr hold : List Nat)
    (roots : List Nat) (g : Graph) (hinv : SInv g0 φ ⟨g, dupes, fr⟩ hold) :
    SInv g0 φ ⟨roots.foldl (fun (g : Graph) root =>
      match dupes.find? root with
      | none => g
      | some newId =>
        let g := { g with parentsInvalid := true }
        (g.node root).parents.foldl (fun (g : Graph) p =>
          if p.2 ≠ 2 then
            { g with objects := Map.modify g.objects p.1 (fun o =>
                { o with links := o.links.map (fun l =>
                    if l.target = root ∧ l.width ≠ 2 then { l with target := newId } else l) }) }
          else g) g) g, dupes, fr⟩ hold ∧
    (roots.foldl (fun (g : Graph) root =>
      match dupes.find? root with
      | none => g
      | some newId =>
        let g := { g with parentsInvalid := true }
        (g.node root).parents.foldl (fun (g : Graph) p =>
          if p.2 ≠ 2 then
            { g with objects := Map.modify g.objects p.1 (fun o =>
                { o with links := o.links.map (fun l =>
                    if l.target = root ∧ l.width ≠ 2 then { l with target := newId } else l) }) }
          else g) g) g).root = g.root := by
  induction roots generalizing g with
  | nil => exact ⟨hinv, rfl⟩
  | cons root rest ih =>
    simp only [List.foldl_cons]
    cases hd : dupes.find? root with
    | none => simp only []; exact ih g hinv
    | some newId =>
      simp only []
      have h0 : SInv g0 φ ⟨{ g with parentsInvalid := true }, dupes, fr⟩ hold :=
        ⟨simulates_congr g _ g0 φ rfl hinv.sim, hinv.nodup,
          fun n hn => unused_congr g _ rfl rfl n (hinv.unused n hn), hinv.dupes⟩
      obtain ⟨h1, h2⟩ := repointParents_sinv g0 φ dupes fr hold root newId hd
        (({ g with parentsInvalid := true } : Graph).node root).parents { g with parentsInvalid := true } h0
      obtain ⟨i1, i2⟩ := ih _ h1
      exact ⟨i1, i2.trans h2⟩

/-! ### isolate_subgraph_hb -/

theorem Map.mem_insert {α : Type} (m : Map α) (k : Nat) (v : α) (kv : Nat × α) (h : kv ∈ Map.insert m k v) :
    kv = (k, v) ∨ kv ∈ m := by
  induction m with
  | nil => simp [Map.insert] at h; left; exact h
  | cons e rest ih =>
    obtain ⟨k', v'⟩ := e
    simp only [Map.insert] at h
    split at h
    · rcases List.mem_cons.mp h with h | h
      · left; exact h
      · right; exact h
    · split at h
      · rcases List.mem_cons.mp h with h | h
        · left; exact h
        · right; exact List.mem_cons_of_mem _ h
      · rcases List.mem_cons.mp h with h | h
        · right; rw [h]; exact List.mem_cons_self
        · rcases ih h with h | h
          · left; exact h
          · right; exact List.mem_cons_of_mem _ h

theorem Map.mem_find?_isSome {α : Type} (m : Map α) (kv : Nat × α) (h : kv ∈ m) : m.find? kv.1 ≠ none := by
  induction m with
  | nil => simp at h
  | cons e rest ih =>
    obtain ⟨k', v'⟩ := e
    simp only [Map.find?]
    split
    · simp
    · rename_i hne
      rcases List.mem_cons.mp h with h | h
      · rw [h] at hne; simp at hne
      · exact ih h

theorem findSubgraphMap_keys (g : Graph) (P : Nat → Prop) (hP : ∀ x, ∀ l ∈ (g.obj x).links, P l.target)
    (fuel idx : Nat) (m : Map Nat) (hm : ∀ kv ∈ m, P kv.1) :
    ∀ kv ∈ findSubgraphMap g fuel idx m, P kv.1 := by
  induction fuel generalizing idx m with
  | zero => exact hm
  | succ n ih =>
    unfold findSubgraphMap
    have key : ∀ (links : List Link) (m : Map Nat), (∀ l ∈ links, P l.target) → (∀ kv ∈ m, P kv.1) →
        ∀ kv ∈ links.foldl (fun m l =>
          match m.find? l.target with
          | none => findSubgraphMap g n l.target (m.insert l.target 1)
          | some c => m.insert l.target (c + 1)) m, P kv.1 := by
      intro links
      induction links with
      | nil => intro m _ hm; exact hm
      | cons l rest ihl =>
        intro m hl hm
        simp only [List.foldl_cons]
        apply ihl _ (fun l' hl' => hl l' (List.mem_cons_of_mem _ hl'))
        have hins : ∀ c, ∀ kv ∈ m.insert l.target c, P kv.1 := by
          intro c kv hkv
          rcases Map.mem_insert _ _ _ _ hkv with h | h
          · rw [h]; exact hl l List.mem_cons_self
          · exact hm kv h
        split
        · exact ih _ _ (hins 1)
        · exact hins _
    exact key (g.linksOf idx) m (hP idx) hm

theorem subgraph_keys (g : Graph) (P : Nat → Prop) (hP : ∀ x, ∀ l ∈ (g.obj x).links, P l.target)
    (fuel : Nat) (wide : Nat → Nat) (roots : List Nat) (m : Map Nat) (hr : ∀ r ∈ roots, P r) (hm : ∀ kv ∈ m, P kv.1) :
    ∀ kv ∈ roots.foldl (fun m root => findSubgraphMap g fuel root (m.insert root (wide root))) m, P kv.1 := by
  induction roots generalizing m with
  | nil => exact hm
  | cons r rest ih =>
    simp only [List.foldl_cons]
    apply ih _ (fun r' hr' => hr r' (List.mem_cons_of_mem _ hr'))
    apply findSubgraphMap_keys g P hP
    intro kv hkv
    rcases Map.mem_insert _ _ _ _ hkv with h | h
    · rw [h]; exact hr r List.mem_cons_self
    · exact hm kv h

/-- one iteration of `for (id, incoming_edges_in_subgraph) in &subgraph` -/
def isoDupStep (nextSpace : Nat) (acc : Option Surg) (kv : Nat × Nat) : Option Surg :=
  match acc with
  | none => none
  | some s =>
    if kv.2 < s.g.indeg kv.1 then
      match duplicateSubgraph (depthFuel s.g) kv.1 nextSpace s with
      | none => none
      | some (_, s) => some s
    else some s

theorem isoDupStep_none (ns : Nat) (sub : List (Nat × Nat)) : sub.foldl (isoDupStep ns) none = none := by
  induction sub with
  | nil => rfl
  | cons kv rest ih => simpa [List.foldl_cons, isoDupStep] using ih

theorem isoDupFold_spec (g0 : Graph) (ns : Nat) (sub : List (Nat × Nat)) (s s' : Surg) (φ : Nat → Nat)
    (hinv : SInv g0 φ s []) (hk : ∀ kv ∈ sub, kv.1 ∉ s.fresh)
    (h : sub.foldl (isoDupStep ns) (some s) = some s') :
    ∃ φ', SInv g0 φ' s' [] ∧ s'.fresh <:+ s.fresh ∧ (∀ x, x ∉ s.fresh → φ' x = φ x) ∧ s'.g.root = s.g.root := by
  induction sub generalizing s φ with
  | nil =>
    simp only [List.foldl_nil, Option.some.injEq] at h
    subst h
    exact ⟨φ, hinv, List.suffix_refl _, fun _ _ => rfl, rfl⟩
  | cons kv rest ih =>
    simp only [List.foldl_cons] at h
    by_cases hc : kv.2 < s.g.indeg kv.1
    · cases hd : duplicateSubgraph (depthFuel s.g) kv.1 ns s with
      | none =>
        simp only [isoDupStep, hc, ↓reduceIte, hd] at h
        rw [isoDupStep_none] at h
        simp at h
      | some res =>
        obtain ⟨t, s1⟩ := res
        simp only [isoDupStep, hc, ↓reduceIte, hd] at h
        obtain ⟨φ1, hinv1, _, hsuf1, hag1, hroot1⟩ :=
          dup_spec g0 _ kv.1 ns s [] φ t s1 hinv (by simpa using hk kv List.mem_cons_self) hd
        obtain ⟨φ', hinv', hsuf', hag', hroot'⟩ := ih s1 φ1 hinv1
          (fun kv' hkv' hm => hk kv' (List.mem_cons_of_mem _ hkv') (hsuf1.subset hm)) h
        refine ⟨φ', hinv', hsuf'.trans hsuf1, ?_, hroot'.trans hroot1⟩
        intro x hx
        rw [hag' x (fun hm => hx (hsuf1.subset hm)), hag1 x hx]
    · simp only [isoDupStep, hc, ↓reduceIte] at h
      exact ih s φ hinv (fun kv' hkv' => hk kv' (List.mem_cons_of_mem _ hkv')) h

/-! ### update_parents only caches ids of objects -/

theorem default_node_parents : (default : Node).parents = [] := rfl
theorem default_obj_links : (default : Obj).links = [] := rfl


theorem updParents_inner_P (P : Nat → Prop) (src : Nat) (hsrc : P src) (links : List Link) (ns : Map Node)
    (h : ∀ x, ∀ p ∈ parentsOf ns x, P p.1) :
    ∀ x, ∀ p ∈ parentsOf (links.foldl (fun ns l =>
        Map.modify ns l.target (fun n => { n with parents := n.parents ++ [(src, l.width)] })) ns) x, P p.1 := by
  induction links generalizing ns with
  | nil => exact h
  | cons l rest ih =>
    simp only [List.foldl_cons]
    apply ih
    intro x p hp
    unfold parentsOf at hp
    rw [Map.find?_modify] at hp
    split at hp
    · cases hf : ns.find? x with
      | none =>
        rw [hf] at hp
        simp only [Option.map_none, Option.getD_none, default_node_parents] at hp
        exact absurd hp List.not_mem_nil
      | some nd =>
        rw [hf] at hp
        simp only [Option.map_some, Option.getD_some, List.mem_append, List.mem_singleton] at hp
        rcases hp with hp | hp
        · apply h x p
          unfold parentsOf; rw [hf]; exact hp
        · rw [hp]; exact hsrc
    · exact h x p hp

theorem updParents_outer_P (P : Nat → Prop) (objs : List (Nat × Obj)) (hobjs : ∀ kv ∈ objs, P kv.1) (ns : Map Node)
    (h : ∀ x, ∀ p ∈ parentsOf ns x, P p.1) :
    ∀ x, ∀ p ∈ parentsOf (objs.foldl (fun ns kv =>
        kv.2.links.foldl (fun ns l =>
          Map.modify ns l.target (fun n => { n with parents := n.parents ++ [(kv.1, l.width)] })) ns) ns) x, P p.1 := by
  induction objs generalizing ns with
  | nil => exact h
  | cons kv rest ih =>
    simp only [List.foldl_cons]
    apply ih (fun kv' hkv' => hobjs kv' (List.mem_cons_of_mem _ hkv'))
    exact updParents_inner_P P kv.1 (hobjs kv List.mem_cons_self) kv.2.links ns h

theorem updateParents_unused (g : Graph) (n : Nat) (h : Unused g n) : Unused (updateParents g) n := by
  refine ⟨by rw [updateParents_objects]; exact h.1, ?_, ?_⟩
  · intro x; rw [updateParents_obj]; exact h.2.1 x
  · unfold updateParents
    split
    · exact h.2.2
    · intro x p hp
      rw [node_parents_eq] at hp
      simp only [] at hp
      refine updParents_outer_P (fun k => k ≠ n) g.objects ?_ _ ?_ x p hp
      · intro kv hkv he
        exact Map.mem_find?_isSome g.objects kv hkv (he ▸ h.1)
      · intro y q hq
        unfold parentsOf at hq
        rw [Map.find?_mapVal g.nodes (fun n => { n with parents := [] })] at hq
        cases hy : g.nodes.find? y with
        | none =>
          rw [hy] at hq
          exact absurd hq List.not_mem_nil
        | some nd =>
          rw [hy] at hq
          exact absurd hq List.not_mem_nil

theorem sinv_updateParents (g0 : Graph) (φ : Nat → Nat) (g : Graph) (d : Map Nat) (fr hold : List Nat)
    (h : SInv g0 φ ⟨g, d, fr⟩ hold) : SInv g0 φ ⟨updateParents g, d, fr⟩ hold :=
  ⟨simulates_congr g _ g0 φ (updateParents_objects g) h.sim, h.nodup,
    fun n hn => updateParents_unused g n (h.unused n hn), h.dupes⟩

theorem isolate_spec (g0 : Graph) (φ : Nat → Nat) (g : Graph) (roots : Set) (fresh : List Nat)
    (b : Bool) (g' : Graph) (roots' : Set) (fresh' : List Nat)
    (hinv : SInv g0 φ ⟨g, [], fresh⟩ []) (hr : ∀ r ∈ roots, r ∉ fresh)
    (h : isolateSubgraph g roots fresh = some (b, g', roots', fresh')) :
    ∃ φ', SInv g0 φ' ⟨g', [], fresh'⟩ [] ∧ fresh' <:+ fresh ∧ (∀ x, x ∉ fresh → φ' x = φ x) ∧ g'.root = g.root := by
  unfold isolateSubgraph at h
  simp only [Option.bind_eq_bind, Option.bind_eq_some_iff] at h
  obtain ⟨s, hs, h⟩ := h
  have hinvU := sinv_updateParents g0 φ g [] fresh [] hinv
  have hinv0 : SInv g0 φ ⟨{ updateParents g with nextSpace := (updateParents g).nextSpace + 1, numRoots := (updateParents g).numRoots.insert ((updateParents g).nextSpace + 1) roots.length }, [], fresh⟩ [] :=
    ⟨simulates_congr _ _ g0 φ rfl hinvU.sim, hinvU.nodup,
      fun n hn => unused_congr _ _ rfl rfl n (hinvU.unused n hn), hinvU.dupes⟩
  have hP : ∀ x, ∀ l ∈ ((updateParents g).obj x).links, l.target ∉ fresh := by
    intro x l hl hm
    exact (hinvU.unused l.target (by simpa using hm)).2.1 x l hl rfl
  have hk := subgraph_keys (updateParents g) (fun k => k ∉ fresh) hP (depthFuel (updateParents g))
    (fun root => (List.filter (fun p => decide (p.snd ≠ 2)) ((updateParents g).node root).parents).length)
    roots [] hr (by simp)
  have hs' : List.foldl (isoDupStep ((updateParents g).nextSpace + 1)) (some _) _ = some s := hs
  obtain ⟨φ1, hinv1, hsuf1, hag1, hroot1⟩ := isoDupFold_spec g0 _ _ _ s φ hinv0 hk hs'
  have hroot1' : s.g.root = g.root := by rw [hroot1]; exact updateParents_root g
  have hinv1' : SInv g0 φ1 ⟨s.g, s.dupes, s.fresh⟩ [] := hinv1
  have hrem := fun ids => remapFold_sinv g0 φ1 s.dupes s.fresh [] ((updateParents g).nextSpace + 1) ids s.g hinv1'
  split at h
  · simp only [Option.some.injEq, Prod.mk.injEq] at h
    obtain ⟨rfl, rfl, rfl, rfl⟩ := h
    exact ⟨φ1, sinv_weaken_dupes _ _ _ _ _ _ (hrem _).1, hsuf1, hag1, (hrem _).2.trans hroot1'⟩
  · simp only [Option.some.injEq, Prod.mk.injEq] at h
    obtain ⟨rfl, rfl, rfl, rfl⟩ := h
    have hrep := fun ids => repointRoots_sinv g0 φ1 s.dupes s.fresh [] roots _ (hrem ids).1
    exact ⟨φ1, sinv_weaken_dupes _ _ _ _ _ _ (hrep _).1, hsuf1, hag1, (hrep _).2.trans ((hrem _).2.trans hroot1')⟩

end FontVerif.Graph
