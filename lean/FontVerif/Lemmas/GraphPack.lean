/-
Helper lemmas for C05 (Model/Graph.lean): the overflow gate and the control flow of `pack_objects`.
-/
import FontVerif.Model.Graph
import FontVerif.Lemmas.GraphSort
set_option linter.unusedVariables false
set_option linter.unusedSimpArgs false
namespace FontVerif.Graph
open FontVerif

/-- the gate's view of one link: the subtraction `child.position - parent.position` does not
underflow and the difference fits the link's width -/
def LinkFits (g : Graph) (parent : Nat) (l : Link) : Prop :=
  (g.node parent).position ≤ (g.node l.target).position ∧
  (g.node l.target).position - (g.node parent).position ≤ maxValue l.width

/-- no link of any object of the graph overflows (or underflows), judged on `Node.position` -/
def NoOverflow (g : Graph) : Prop := ∀ kv ∈ g.objects, ∀ l ∈ kv.2.links, LinkFits g kv.1 l

theorem hasOverflowsLinks_false (g : Graph) (parent : Nat) (links : List Link) :
    hasOverflowsLinks g (g.node parent).position links = some false ↔ ∀ l ∈ links, LinkFits g parent l := by
  induction links with
  | nil => simp [hasOverflowsLinks]
  | cons l rest ih =>
    simp only [hasOverflowsLinks, List.mem_cons, forall_eq_or_imp]
    split
    · simp only [reduceCtorEq, false_iff, not_and]
      intro h; unfold LinkFits at h; omega
    · split
      · simp only [Option.some.injEq, Bool.true_eq_false, false_iff, not_and]
        intro h; unfold LinkFits at h; omega
      · rw [ih]
        constructor
        · intro h; exact ⟨by unfold LinkFits; omega, h⟩
        · intro h; exact h.2

theorem hasOverflowsObjs_false (g : Graph) (objs : List (Nat × Obj)) :
    hasOverflowsObjs g objs = some false ↔ ∀ kv ∈ objs, ∀ l ∈ kv.2.links, LinkFits g kv.1 l := by
  induction objs with
  | nil => simp [hasOverflowsObjs]
  | cons kv rest ih =>
    simp only [hasOverflowsObjs, List.mem_cons, forall_eq_or_imp]
    have hl := hasOverflowsLinks_false g kv.1 kv.2.links
    split
    · rename_i heq
      rw [ih]
      exact ⟨fun h => ⟨hl.mp heq, h⟩, fun h => h.2⟩
    · rename_i hne
      constructor
      · intro h; exact absurd h (hne)
      · intro h; exact absurd (hl.mpr h.1) hne

/-- `has_overflows() == false` (without a panic) says exactly that every link fits. -/
theorem hasOverflows_false_iff (g : Graph) : hasOverflows g = some false ↔ NoOverflow g :=
  hasOverflowsObjs_false g g.objects

/-! ### find_overflows -/

def ovfStep (g : Graph) (parent : Nat) (acc : Option (List Overflow)) (l : Link) : Option (List Overflow) :=
  match acc with
  | none => none
  | some res =>
    let pp := (g.node parent).position
    let cp := (g.node l.target).position
    if cp < pp then none
    else if maxValue l.width < cp - pp then some (res ++ [(parent, l.target, cp - pp, l.width)])
    else some res

theorem ovfStep_inner (g : Graph) (parent : Nat) (links : List Link) (acc : Option (List Overflow))
    (r : List Overflow) (h : links.foldl (ovfStep g parent) acc = some r) :
    ∃ a, acc = some a ∧ a.length ≤ r.length ∧ (r.length ≤ a.length → ∀ l ∈ links, LinkFits g parent l) := by
  induction links generalizing acc with
  | nil => simp only [List.foldl_nil] at h; subst h; exact ⟨r, rfl, Nat.le_refl _, by simp⟩
  | cons l rest ih =>
    simp only [List.foldl_cons] at h
    obtain ⟨a1, ha1, hlen, hall⟩ := ih _ h
    cases acc with
    | none => simp [ovfStep] at ha1
    | some a =>
      refine ⟨a, rfl, ?_, ?_⟩
      · simp only [ovfStep] at ha1
        split at ha1
        · simp at ha1
        · split at ha1
          · simp only [Option.some.injEq] at ha1; subst ha1; simp at hlen; omega
          · simp only [Option.some.injEq] at ha1; subst ha1; exact hlen
      · intro hle l' hl'
        simp only [ovfStep] at ha1
        split at ha1
        · simp at ha1
        · split at ha1
          · simp only [Option.some.injEq] at ha1; subst ha1; simp at hlen; omega
          · simp only [Option.some.injEq] at ha1; subst ha1
            rcases List.mem_cons.mp hl' with rfl | hl'
            · unfold LinkFits; omega
            · exact hall hle l' hl'

theorem findOverflows_eq (g : Graph) :
    findOverflows g = g.objects.foldl (fun acc kv => kv.2.links.foldl (ovfStep g kv.1) acc) (some []) := rfl

theorem ovfStep_outer (g : Graph) (objs : List (Nat × Obj)) (acc : Option (List Overflow)) (r : List Overflow)
    (h : objs.foldl (fun acc kv => kv.2.links.foldl (ovfStep g kv.1) acc) acc = some r) :
    ∃ a, acc = some a ∧ a.length ≤ r.length ∧
      (r.length ≤ a.length → ∀ kv ∈ objs, ∀ l ∈ kv.2.links, LinkFits g kv.1 l) := by
  induction objs generalizing acc with
  | nil => simp only [List.foldl_nil] at h; subst h; exact ⟨r, rfl, Nat.le_refl _, by simp⟩
  | cons kv rest ih =>
    simp only [List.foldl_cons] at h
    obtain ⟨a1, ha1, hlen, hall⟩ := ih _ h
    obtain ⟨a, ha, hlen0, hall0⟩ := ovfStep_inner g kv.1 kv.2.links acc a1 ha1
    refine ⟨a, ha, by omega, ?_⟩
    intro hle kv' hkv'
    rcases List.mem_cons.mp hkv' with rfl | hkv'
    · exact hall0 (by omega)
    · exact hall (by omega) kv' hkv'

/-- `find_overflows()` returning an empty list (without a panic) implies that every link fits. -/
theorem findOverflows_nil (g : Graph) (h : findOverflows g = some []) : NoOverflow g := by
  rw [findOverflows_eq] at h
  obtain ⟨a, ha, hlen, hall⟩ := ovfStep_outer g g.objects (some []) [] h
  simp only [Option.some.injEq] at ha
  subst ha
  exact hall (Nat.le_refl _)

/-! ### control flow of pack_objects: success only through the gate -/

macro "bsimp" " at " h:ident : tactic =>
  `(tactic| simp only [Bool.not_true, Bool.not_false, Bool.false_eq_true, ↓reduceIte, Option.bind_eq_some_iff,
      Option.some.injEq, Prod.mk.injEq, Prod.exists, Bool.true_eq_false, false_and, and_false, exists_false,
      exists_const, true_and, Bool.not_eq_true', Bool.not_eq_eq_eq_not, reduceCtorEq] at $h:ident)

theorem basicSort_gate (g g' : Graph) (h : basicSort g = some (true, g')) : hasOverflows g' = some false := by
  unfold basicSort at h
  simp only [Option.bind_eq_bind, Option.bind_eq_some_iff] at h
  obtain ⟨g1, hk, ov, hov, h⟩ := h
  cases ov with
  | false =>
    bsimp at h
    obtain rfl := h
    exact hov
  | true =>
    bsimp at h
    obtain ⟨g2, hs, ov2, hov2, h1, h2⟩ := h
    subst h2
    cases ov2 <;> simp_all

theorem packLoop_gate (fuel : Nat) (g g' : Graph) (fresh fresh' : List Nat)
    (h : packLoop fuel g fresh = some (true, g', fresh')) : findOverflows g' = some [] := by
  induction fuel generalizing g fresh with
  | zero => simp [packLoop] at h
  | succ n ih =>
    unfold packLoop at h
    simp only [Option.bind_eq_bind, Option.bind_eq_some_iff] at h
    obtain ⟨ovs, hov, h⟩ := h
    by_cases he : ovs.isEmpty
    · simp only [he, ↓reduceIte, Option.some.injEq, Prod.mk.injEq, true_and] at h
      obtain ⟨rfl, rfl⟩ := h
      rw [hov]; simp at he; rw [he]
    · simp only [he, Bool.false_eq_true, ↓reduceIte, Option.bind_eq_some_iff] at h
      obtain ⟨⟨ch, g1, fr1⟩, hiso, h⟩ := h
      cases ch with
      | false => simp at h
      | true =>
        bsimp at h
        obtain ⟨g2, hs, h⟩ := h
        exact ih g2 fr1 h

theorem packTail_gate (g g' : Graph) (fresh fresh' : List Nat)
    (h : packTail g fresh = some (true, g', fresh')) :
    hasOverflows g' = some false ∨ findOverflows g' = some [] := by
  unfold packTail at h
  simp only [Option.bind_eq_bind, Option.bind_eq_some_iff] at h
  obtain ⟨⟨b, g2, fr2⟩, ha, g3, hs, ov, hov, h⟩ := h
  cases ov with
  | false =>
    simp only [Bool.not_false, ↓reduceIte, Option.some.injEq, Prod.mk.injEq, true_and] at h
    obtain ⟨rfl, rfl⟩ := h
    left; exact hov
  | true =>
    simp only [Bool.not_true, Bool.false_eq_true, ↓reduceIte] at h
    right; exact packLoop_gate _ _ _ _ _ h

theorem packObjects_gate (g g' : Graph) (fresh fresh' : List Nat)
    (h : packObjects g fresh = some (true, g', fresh')) :
    hasOverflows g' = some false ∨ findOverflows g' = some [] := by
  unfold packObjects at h
  simp only [Option.bind_eq_bind, Option.bind_eq_some_iff] at h
  obtain ⟨⟨ok, g1⟩, hb, h⟩ := h
  cases ok with
  | true =>
    simp only [↓reduceIte, Option.some.injEq, Prod.mk.injEq, true_and] at h
    obtain ⟨rfl, rfl⟩ := h
    left; exact basicSort_gate g g1 hb
  | false =>
    simp only [Bool.false_eq_true, ↓reduceIte] at h
    exact packTail_gate g1 g' fresh fresh' h

/-! ### the order a successful pack leaves behind comes straight out of a sort -/

/-- the order starts with the root and is closed under the links of the graph's objects -/
def SortedOut (g : Graph) : Prop :=
  (∃ tail, g.order = g.root :: tail) ∧ ∀ id ∈ g.order, ∀ l ∈ (g.obj id).links, l.target ∈ g.order

theorem sortKahn_sortedOut (g g' : Graph) (hn : 1 < g.nodes.length) (h : sortKahn g = some g') :
    SortedOut g' ∧ g'.objects = g.objects := by
  obtain ⟨ho, hr, ht, hc⟩ := sortKahn_spec g g' hn h
  refine ⟨⟨by rw [hr]; exact ht, ?_⟩, ho⟩
  intro id hid l hl
  rw [obj_congr g g' ho] at hl
  exact hc id hid l hl

theorem sortShortest_sortedOut (g g' : Graph) (h : sortShortest g = some g') :
    SortedOut g' ∧ g'.objects = g.objects := by
  obtain ⟨ho, hr, ht, hc⟩ := sortShortest_spec g g' h
  refine ⟨⟨by rw [hr]; exact ht, ?_⟩, ho⟩
  intro id hid l hl
  rw [obj_congr g g' ho] at hl
  exact hc id hid l hl

theorem basicSort_sortedOut (g g' : Graph) (ok : Bool) (hn : 1 < g.nodes.length)
    (h : basicSort g = some (ok, g')) : SortedOut g' := by
  unfold basicSort at h
  simp only [Option.bind_eq_bind, Option.bind_eq_some_iff] at h
  obtain ⟨g1, hk, ov, hov, h⟩ := h
  cases ov with
  | false =>
    bsimp at h
    obtain ⟨_, rfl⟩ := h
    exact (sortKahn_sortedOut g g1 hn hk).1
  | true =>
    bsimp at h
    obtain ⟨g2, hs, ov2, hov2, h1, h2⟩ := h
    subst h2
    exact (sortShortest_sortedOut g1 g2 hs).1

theorem packLoop_sortedOut (fuel : Nat) (g g' : Graph) (fresh fresh' : List Nat) (hs : SortedOut g)
    (h : packLoop fuel g fresh = some (true, g', fresh')) : SortedOut g' := by
  induction fuel generalizing g fresh with
  | zero => simp [packLoop] at h
  | succ n ih =>
    unfold packLoop at h
    simp only [Option.bind_eq_bind, Option.bind_eq_some_iff] at h
    obtain ⟨ovs, hov, h⟩ := h
    by_cases he : ovs.isEmpty
    · simp only [he, ↓reduceIte, Option.some.injEq, Prod.mk.injEq, true_and] at h
      obtain ⟨rfl, rfl⟩ := h
      exact hs
    · simp only [he, Bool.false_eq_true, ↓reduceIte, Option.bind_eq_some_iff] at h
      obtain ⟨⟨ch, g1, fr1⟩, hiso, h⟩ := h
      cases ch with
      | false => simp at h
      | true =>
        bsimp at h
        obtain ⟨g2, hs2, h⟩ := h
        exact ih g2 fr1 (sortShortest_sortedOut _ g2 hs2).1 h

theorem packTail_sortedOut (g g' : Graph) (fresh fresh' : List Nat)
    (h : packTail g fresh = some (true, g', fresh')) : SortedOut g' := by
  unfold packTail at h
  simp only [Option.bind_eq_bind, Option.bind_eq_some_iff] at h
  obtain ⟨⟨b, g2, fr2⟩, ha, g3, hs, ov, hov, h⟩ := h
  cases ov with
  | false =>
    simp only [Bool.not_false, ↓reduceIte, Option.some.injEq, Prod.mk.injEq, true_and] at h
    obtain ⟨rfl, rfl⟩ := h
    exact (sortShortest_sortedOut _ g3 hs).1
  | true =>
    simp only [Bool.not_true, Bool.false_eq_true, ↓reduceIte] at h
    exact packLoop_sortedOut _ _ _ _ _ (sortShortest_sortedOut _ g3 hs).1 h

theorem packObjects_sortedOut (g g' : Graph) (fresh fresh' : List Nat) (hn : 1 < g.nodes.length)
    (h : packObjects g fresh = some (true, g', fresh')) : SortedOut g' := by
  unfold packObjects at h
  simp only [Option.bind_eq_bind, Option.bind_eq_some_iff] at h
  obtain ⟨⟨ok, g1⟩, hb, h⟩ := h
  cases ok with
  | true =>
    simp only [↓reduceIte, Option.some.injEq, Prod.mk.injEq, true_and] at h
    obtain ⟨rfl, rfl⟩ := h
    exact basicSort_sortedOut g g1 true hn hb
  | false =>
    simp only [Bool.false_eq_true, ↓reduceIte] at h
    exact packTail_sortedOut g1 g' fresh fresh' h

end FontVerif.Graph
