/-
Helper lemmas for C16: a class definition has at most as many ranges as its classes have runs of
consecutive glyphs (the bound behind `ClassDefSizeEstimator::increment_class_def_size`).
-/
import FontVerif.Lemmas.LayoutSizes
set_option linter.unusedVariables false
set_option linter.unusedSimpArgs false
namespace FontVerif.Layout

/-- the glyphs of class `k` in an item list, in list order -/
def keysOf (k : Nat) (l : List (Nat × Nat)) : List Nat := (l.filter (fun p => p.2 == k)).map (·.1)

theorem keysOf_cons (k : Nat) (p : Nat × Nat) (l : List (Nat × Nat)) :
    keysOf k (p :: l) = if p.2 = k then p.1 :: keysOf k l else keysOf k l := by
  unfold keysOf
  by_cases h : p.2 = k
  · simp [List.filter_cons, h]
  · simp [List.filter_cons, h]

/-- when every glyph is beyond `e + 1` the first one starts a run anyway -/
theorem countRangesGo_eq_countRanges (e : Nat) : ∀ (l : List Nat), (∀ x ∈ l, e + 1 < x) →
    countRangesGo e l = countRanges l := by
  intro l h
  cases l with
  | nil => rfl
  | cons x xs =>
    have hx := h x (List.mem_cons_self ..)
    have : (x == e + 1) = false := by simp; omega
    simp [countRangesGo, countRanges, this]

theorem sum_add_indicator (F : Nat → Nat) (a : Nat) : ∀ (K : List Nat), a ∈ K →
    (K.map F).sum + 1 ≤ (K.map (fun k => F k + if k = a then 1 else 0)).sum := by
  intro K
  induction K with
  | nil => intro h; cases h
  | cons x xs ih =>
    intro h
    simp only [List.map_cons, List.sum_cons]
    by_cases hx : x = a
    · have : (xs.map F).sum ≤ (xs.map (fun k => F k + if k = a then 1 else 0)).sum := by
        clear ih h
        induction xs with
        | nil => exact Nat.le_refl _
        | cons y ys ih2 => simp only [List.map_cons, List.sum_cons]; omega
      simp only [hx, ↓reduceIte]; omega
    · have h' : a ∈ xs := by
        rcases List.mem_cons.mp h with e | e
        · exact absurd e.symm hx
        · exact e
      have := ih h'
      simp only [hx, ↓reduceIte]; omega

theorem sum_congr_map {F G : Nat → Nat} : ∀ (K : List Nat), (∀ k ∈ K, F k = G k) →
    (K.map F).sum = (K.map G).sum := by
  intro K
  induction K with
  | nil => intro _; rfl
  | cons x xs ih =>
    intro h
    simp only [List.map_cons, List.sum_cons, h x (List.mem_cons_self ..),
      ih (fun k hk => h k (List.mem_cons_of_mem _ hk))]

/-- what the glyphs after the current range still add to the run counts: the current class `c`
continues from glyph `e`, every other class starts a run with its next glyph -/
def restRuns (c e : Nat) (rest : List (Nat × Nat)) (k : Nat) : Nat :=
  if k = c then countRangesGo e (keysOf k rest) else countRanges (keysOf k rest)

theorem keysOf_gt (k e : Nat) (l : List (Nat × Nat)) (h : ∀ p ∈ l, e < p.1) : ∀ x ∈ keysOf k l, e < x := by
  intro x hx
  unfold keysOf at hx
  obtain ⟨p, hp, rfl⟩ := List.mem_map.mp hx
  exact h p (List.mem_filter.mp hp).1

/-- the range loop against the per-class run counts -/
theorem classRangesGo_le (K : List Nat) : ∀ (rest : List (Nat × Nat)) (s e c : Nat),
    (e :: rest.map (·.1)).Pairwise (· < ·) → (∀ p ∈ rest, p.2 ∈ K) →
    (classRangesGo s e c rest).length ≤ 1 + (K.map (restRuns c e rest)).sum := by
  intro rest
  induction rest with
  | nil => intro s e c _ _; simp [classRangesGo]
  | cons p rest ih =>
    intro s e c hs hK
    obtain ⟨g, cl⟩ := p
    simp only [List.map_cons, List.pairwise_cons] at hs
    have hge : e < g := hs.1 g (List.mem_cons_self ..)
    have hs' : (g :: rest.map (·.1)).Pairwise (· < ·) := List.pairwise_cons.mpr hs.2
    have hK' : ∀ p ∈ rest, p.2 ∈ K := fun p hp => hK p (List.mem_cons_of_mem _ hp)
    have hgt : ∀ p ∈ rest, g < p.1 := fun p hp => hs.2.1 p.1 (List.mem_map.mpr ⟨p, hp, rfl⟩)
    simp only [classRangesGo]
    by_cases hcont : (areSequential e g && c == cl) = true
    · -- the range continues
      simp only [hcont, ↓reduceIte]
      have hc : c = cl := by
        simp only [Bool.and_eq_true, beq_iff_eq] at hcont; exact hcont.2
      have hseq : g = e + 1 := by
        simp only [Bool.and_eq_true, areSequential, beq_iff_eq] at hcont; omega
      refine Nat.le_trans (ih s g c hs' hK') ?_
      have : (K.map (restRuns c g rest)).sum = (K.map (restRuns c e ((g, cl) :: rest))).sum := by
        apply sum_congr_map
        intro k _
        unfold restRuns
        rw [keysOf_cons]
        by_cases hk : k = c
        · have : cl = k := by rw [hk, hc]
          simp only [hk, ↓reduceIte, ← hc, countRangesGo, hseq, beq_self_eq_true, Nat.zero_add]
        · have : ¬ cl = k := fun e' => hk (by rw [← e', hc])
          simp only [hk, ↓reduceIte, this]
      omega
    · -- a new range starts with (g, cl)
      simp only [hcont, Bool.false_eq_true, ↓reduceIte, List.length_cons]
      have hcl : cl ∈ K := hK (g, cl) (List.mem_cons_self ..)
      have hih := ih g g cl hs' hK'
      have hterm : ∀ k ∈ K, restRuns c e ((g, cl) :: rest) k =
          restRuns cl g rest k + if k = cl then 1 else 0 := by
        intro k _
        unfold restRuns
        rw [keysOf_cons]
        by_cases hk : k = cl
        · rw [if_pos hk.symm, if_pos hk, if_pos hk]
          by_cases hkc : k = c
          · -- same class, not sequential
            have hns : (g == e + 1) = false := by
              simp only [Bool.and_eq_true, not_and, areSequential, beq_iff_eq] at hcont
              have := fun h1 => hcont h1 (by rw [← hkc, hk])
              simp; omega
            rw [if_pos hkc]
            simp only [countRangesGo, hns, Bool.false_eq_true, ↓reduceIte]
            omega
          · rw [if_neg hkc]
            simp only [countRanges]
            omega
        · have hne : ¬ cl = k := fun e' => hk e'.symm
          rw [if_neg hne, if_neg hk, if_neg hk, Nat.add_zero]
          by_cases hkc : k = c
          · rw [if_pos hkc]
            apply countRangesGo_eq_countRanges
            intro x hx
            have := keysOf_gt k g rest hgt x hx
            omega
          · rw [if_neg hkc]
      have hsum := sum_add_indicator (restRuns cl g rest) cl K hcl
      rw [← sum_congr_map K hterm] at hsum
      omega

/-- **a class definition has at most as many ranges as its classes have runs.** -/
theorem iterClassRanges_le (K : List Nat) (items : List (Nat × Nat))
    (hs : (items.map (·.1)).Pairwise (· < ·)) (hK : ∀ p ∈ items, p.2 ∈ K) :
    (iterClassRanges items).length ≤ (K.map (fun k => countRanges (keysOf k items))).sum := by
  cases items with
  | nil => simp [iterClassRanges]
  | cons p rest =>
    obtain ⟨g, c⟩ := p
    simp only [iterClassRanges]
    have h1 := classRangesGo_le K rest g g c (by simpa using hs) (fun p hp => hK p (List.mem_cons_of_mem _ hp))
    have hterm : ∀ k ∈ K, countRanges (keysOf k ((g, c) :: rest)) =
        restRuns c g rest k + if k = c then 1 else 0 := by
      intro k _
      unfold restRuns
      rw [keysOf_cons]
      by_cases hk : k = c
      · subst hk; simp only [↓reduceIte, countRanges]; omega
      · have : ¬ c = k := fun e => hk e.symm
        simp only [this, ↓reduceIte, hk, Nat.add_zero]
    have hsum := sum_add_indicator (restRuns c g rest) c K (hK (g, c) (List.mem_cons_self ..))
    rw [← sum_congr_map K hterm] at hsum
    omega

end FontVerif.Layout
