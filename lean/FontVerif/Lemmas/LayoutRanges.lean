/-
Helper lemmas for C16: a class definition has at most as many ranges as its classes have runs of
consecutive glyphs (the bound behind `ClassDefSizeEstimator::increment_class_def_size`).
-/
import FontVerif.Lemmas.LayoutSizes
import FontVerif.Lemmas.SubsetLayoutClassDef
set_option linter.unusedVariables false
set_option linter.unusedSimpArgs false
namespace FontVerif.Layout

/-- the glyphs of class `k` in an item list, in list order -/
def keysOf (k : Nat) (l : List (Nat × Nat)) : List Nat := (l.filter (fun p => p.2 == k)).map (·.1)

theorem keysOf_cons (k : Nat) (p : Nat × Nat) (l : List (Nat × Nat)) :
    keysOf k (p :: l) = if p.2 = k then p.1 :: keysOf k l else keysOf k l := by
  unfold keysOf
  by_cases h : p.2 = k
  · simp [List.filter_cons, h]
  · simp [List.filter_cons, h]

/-- when every glyph is beyond `e + 1` the first one starts a run anyway -/
theorem countRangesGo_eq_countRanges (e : Nat) : ∀ (l : List Nat), (∀ x ∈ l, e + 1 < x) →
    countRangesGo e l = countRanges l := by
  intro l h
  cases l with
  | nil => rfl
  | cons x xs =>
    have hx := h x (List.mem_cons_self ..)
    have : (x == e + 1) = false := by simp; omega
    simp [countRangesGo, countRanges, this]

theorem sum_add_indicator (F : Nat → Nat) (a : Nat) : ∀ (K : List Nat), a ∈ K →
    (K.map F).sum + 1 ≤ (K.map (fun k => F k + if k = a then 1 else 0)).sum := by
  intro K
  induction K with
  | nil => intro h; cases h
  | cons x xs ih =>
    intro h
    simp only [List.map_cons, List.sum_cons]
    by_cases hx : x = a
    · have : (xs.map F).sum ≤ (xs.map (fun k => F k + if k = a then 1 else 0)).sum := by
        clear ih h
        induction xs with
        | nil => exact Nat.le_refl _
        | cons y ys ih2 => simp only [List.map_cons, List.sum_cons]; omega
      simp only [hx, ↓reduceIte]; omega
    · have h' : a ∈ xs := by
        rcases List.mem_cons.mp h with e | e
        · exact absurd e.symm hx
        · exact e
      have := ih h'
      simp only [hx, ↓reduceIte]; omega

theorem sum_congr_map {F G : Nat → Nat} : ∀ (K : List Nat), (∀ k ∈ K, F k = G k) →
    (K.map F).sum = (K.map G).sum := by
  intro K
  induction K with
  | nil => intro _; rfl
  | cons x xs ih =>
    intro h
    simp only [List.map_cons, List.sum_cons, h x (List.mem_cons_self ..),
      ih (fun k hk => h k (List.mem_cons_of_mem _ hk))]

/-- what the glyphs after the current range still add to the run counts: the current class `c`
continues from glyph `e`, every other class starts a run with its next glyph -/
def restRuns (c e : Nat) (rest : List (Nat × Nat)) (k : Nat) : Nat :=
  if k = c then countRangesGo e (keysOf k rest) else countRanges (keysOf k rest)

theorem keysOf_gt (k e : Nat) (l : List (Nat × Nat)) (h : ∀ p ∈ l, e < p.1) : ∀ x ∈ keysOf k l, e < x := by
  intro x hx
  unfold keysOf at hx
  obtain ⟨p, hp, rfl⟩ := List.mem_map.mp hx
  exact h p (List.mem_filter.mp hp).1

/-- the range loop against the per-class run counts -/
theorem classRangesGo_le (K : List Nat) : ∀ (rest : List (Nat × Nat)) (s e c : Nat),
    (e :: rest.map (·.1)).Pairwise (· < ·) → (∀ p ∈ rest, p.2 ∈ K) →
    (classRangesGo s e c rest).length ≤ 1 + (K.map (restRuns c e rest)).sum := by
  intro rest
  induction rest with
  | nil => intro s e c _ _; simp [classRangesGo]
  | cons p rest ih =>
    intro s e c hs hK
    obtain ⟨g, cl⟩ := p
    simp only [List.map_cons, List.pairwise_cons] at hs
    have hge : e < g := hs.1 g (List.mem_cons_self ..)
    have hs' : (g :: rest.map (·.1)).Pairwise (· < ·) := List.pairwise_cons.mpr hs.2
    have hK' : ∀ p ∈ rest, p.2 ∈ K := fun p hp => hK p (List.mem_cons_of_mem _ hp)
    have hgt : ∀ p ∈ rest, g < p.1 := fun p hp => hs.2.1 p.1 (List.mem_map.mpr ⟨p, hp, rfl⟩)
    simp only [classRangesGo]
    by_cases hcont : (areSequential e g && c == cl) = true
    · -- the range continues
      simp only [hcont, ↓reduceIte]
      have hc : c = cl := by
        simp only [Bool.and_eq_true, beq_iff_eq] at hcont; exact hcont.2
      have hseq : g = e + 1 := by
        simp only [Bool.and_eq_true, areSequential, beq_iff_eq] at hcont; omega
      refine Nat.le_trans (ih s g c hs' hK') ?_
      have : (K.map (restRuns c g rest)).sum = (K.map (restRuns c e ((g, cl) :: rest))).sum := by
        apply sum_congr_map
        intro k _
        unfold restRuns
        rw [keysOf_cons]
        by_cases hk : k = c
        · have : cl = k := by rw [hk, hc]
          simp only [hk, ↓reduceIte, ← hc, countRangesGo, hseq, beq_self_eq_true, Nat.zero_add]
        · have : ¬ cl = k := fun e' => hk (by rw [← e', hc])
          simp only [hk, ↓reduceIte, this]
      omega
    · -- a new range starts with (g, cl)
      simp only [hcont, Bool.false_eq_true, ↓reduceIte, List.length_cons]
      have hcl : cl ∈ K := hK (g, cl) (List.mem_cons_self ..)
      have hih := ih g g cl hs' hK'
      have hterm : ∀ k ∈ K, restRuns c e ((g, cl) :: rest) k =
          restRuns cl g rest k + if k = cl then 1 else 0 := by
        intro k _
        unfold restRuns
        rw [keysOf_cons]
        by_cases hk : k = cl
        · rw [if_pos hk.symm, if_pos hk, if_pos hk]
          by_cases hkc : k = c
          · -- same class, not sequential
            have hns : (g == e + 1) = false := by
              simp only [Bool.and_eq_true, not_and, areSequential, beq_iff_eq] at hcont
              have := fun h1 => hcont h1 (by rw [← hkc, hk])
              simp; omega
            rw [if_pos hkc]
            simp only [countRangesGo, hns, Bool.false_eq_true, ↓reduceIte]
            omega
          · rw [if_neg hkc]
            simp only [countRanges]
            omega
        · have hne : ¬ cl = k := fun e' => hk e'.symm
          rw [if_neg hne, if_neg hk, if_neg hk, Nat.add_zero]
          by_cases hkc : k = c
          · rw [if_pos hkc]
            apply countRangesGo_eq_countRanges
            intro x hx
            have := keysOf_gt k g rest hgt x hx
            omega
          · rw [if_neg hkc]
      have hsum := sum_add_indicator (restRuns cl g rest) cl K hcl
      rw [← sum_congr_map K hterm] at hsum
      omega

/-- **a class definition has at most as many ranges as its classes have runs.** -/
theorem iterClassRanges_le (K : List Nat) (items : List (Nat × Nat))
    (hs : (items.map (·.1)).Pairwise (· < ·)) (hK : ∀ p ∈ items, p.2 ∈ K) :
    (iterClassRanges items).length ≤ (K.map (fun k => countRanges (keysOf k items))).sum := by
  cases items with
  | nil => simp [iterClassRanges]
  | cons p rest =>
    obtain ⟨g, c⟩ := p
    simp only [iterClassRanges]
    have h1 := classRangesGo_le K rest g g c (by simpa using hs) (fun p hp => hK p (List.mem_cons_of_mem _ hp))
    have hterm : ∀ k ∈ K, countRanges (keysOf k ((g, c) :: rest)) =
        restRuns c g rest k + if k = c then 1 else 0 := by
      intro k _
      unfold restRuns
      rw [keysOf_cons]
      by_cases hk : k = c
      · subst hk; simp only [↓reduceIte, countRanges]; omega
      · have : ¬ c = k := fun e => hk e.symm
        simp only [this, ↓reduceIte, hk, Nat.add_zero]
    have hsum := sum_add_indicator (restRuns c g rest) c K (hK (g, c) (List.mem_cons_self ..))
    rw [← sum_congr_map K hterm] at hsum
    omega

theorem sorted_ext : ∀ (l1 l2 : List Nat), l1.Pairwise (· < ·) → l2.Pairwise (· < ·) →
    (∀ x, x ∈ l1 ↔ x ∈ l2) → l1 = l2 := by
  intro l1
  induction l1 with
  | nil =>
    intro l2 _ _ h
    cases l2 with
    | nil => rfl
    | cons b u => exact absurd ((h b).mpr (List.mem_cons_self ..)) (by simp)
  | cons a t ih =>
    intro l2 h1 h2 h
    cases l2 with
    | nil => exact absurd ((h a).mp (List.mem_cons_self ..)) (by simp)
    | cons b u =>
      rw [List.pairwise_cons] at h1 h2
      have hab : a = b := by
        rcases List.mem_cons.mp ((h a).mp (List.mem_cons_self ..)) with e | e
        · exact e
        · rcases List.mem_cons.mp ((h b).mpr (List.mem_cons_self ..)) with e' | e'
          · exact e'.symm
          · have := h2.1 a e; have := h1.1 b e'; omega
      subst hab
      congr 1
      apply ih u h1.2 h2.2
      intro x
      constructor
      · intro hx
        rcases List.mem_cons.mp ((h x).mp (List.mem_cons_of_mem _ hx)) with e | e
        · have := h1.1 x hx; omega
        · exact e
      · intro hx
        rcases List.mem_cons.mp ((h x).mpr (List.mem_cons_of_mem _ hx)) with e | e
        · have := h2.1 x hx; omega
        · exact e

/-- `split_off_ppf2`'s class map for the piece `s..t` -/
def pieceClassMap (cov : Coverage) (cd : ClassDef) (s t : Nat) : List (Nat × Nat) :=
  cov.glyphs.filterMap (fun g =>
    let c := cd.get g
    if s ≤ c ∧ c < t then some (g, c - s) else none)

theorem mem_pieceClassMap (cov : Coverage) (cd : ClassDef) (s t : Nat) (p : Nat × Nat) :
    p ∈ pieceClassMap cov cd s t ↔ p.1 ∈ cov.glyphs ∧ s ≤ cd.get p.1 ∧ cd.get p.1 < t ∧ p.2 = cd.get p.1 - s := by
  unfold pieceClassMap
  simp only [List.mem_filterMap]
  constructor
  · rintro ⟨g, hg, h⟩
    split at h
    · rename_i hc
      cases h
      exact ⟨hg, hc.1, hc.2, rfl⟩
    · cases h
  · rintro ⟨h1, h2, h3, h4⟩
    refine ⟨p.1, h1, ?_⟩
    simp only [h2, h3, and_self, ↓reduceIte]
    rw [← h4]

/-- the glyphs of new class `k ≠ 0` in the piece's class definition are the glyphs the estimator
keeps for the original class `s + k` -/
theorem keysOf_collectItems_piece (cov : Coverage) (cd : ClassDef) (s t k : Nat) (hk : k ≠ 0)
    (hkt : s + k < t) :
    keysOf k (collectItems (pieceClassMap cov cd s t)) = (⟨gcOf cov cd⟩ : Ppf2Est).glyphsOf (s + k) := by
  have hsorted := collectItems_sorted (pieceClassMap cov cd s t)
  apply sorted_ext
  · unfold keysOf
    rw [List.pairwise_map]
    exact (hsorted.filter _).imp (fun h => h)
  · exact sortDedup_pairwise _
  · intro x
    unfold Ppf2Est.glyphsOf
    rw [mem_sortDedup]
    have hget := itemGet_collectItems (pieceClassMap cov cd s t) x
    constructor
    · intro hx
      unfold keysOf at hx
      obtain ⟨p, hp, rfl⟩ := List.mem_map.mp hx
      obtain ⟨hp1, hp2⟩ := List.mem_filter.mp hp
      have hp2' : p.2 = k := by simpa using hp2
      have hig : itemGet p.1 (collectItems (pieceClassMap cov cd s t)) = some k :=
        (FontVerif.SubsetLayout.itemGet_some_iff hsorted p.1 k).mpr (by rw [← hp2']; exact hp1)
      rw [hig] at hget
      simp only [Option.getD_some] at hget
      -- some pair of the class map names the glyph, else the assigned class would be 0
      have hex : ∃ q ∈ pieceClassMap cov cd s t, q.1 = p.1 := by
        apply Classical.byContradiction
        intro hno
        have := assignedClass_none (ps := pieceClassMap cov cd s t) (g := p.1)
          (fun q hq e => hno ⟨q, hq, e⟩)
        omega
      obtain ⟨q, hq, hq1⟩ := hex
      obtain ⟨m1, m2, m3, m4⟩ := (mem_pieceClassMap cov cd s t q).mp hq
      have hall : ∀ r ∈ pieceClassMap cov cd s t, r.1 = p.1 → r.2 = cd.get p.1 - s := by
        intro r hr hr1
        have := ((mem_pieceClassMap cov cd s t r).mp hr).2.2.2
        rw [this, hr1]
      have := assignedClass_const hall ⟨q, hq, hq1⟩
      rw [hq1] at m1 m2 m3
      refine List.mem_map.mpr ⟨(p.1, cd.get p.1), List.mem_filter.mpr ⟨?_, ?_⟩, rfl⟩
      · exact List.mem_map.mpr ⟨p.1, m1, rfl⟩
      · simp; omega
    · intro hx
      obtain ⟨p, hp, rfl⟩ := List.mem_map.mp hx
      obtain ⟨hp1, hp2⟩ := List.mem_filter.mp hp
      unfold gcOf at hp1
      obtain ⟨g, hg, rfl⟩ := List.mem_map.mp hp1
      simp only [beq_iff_eq] at hp2
      simp only at hget ⊢
      have hmem : (g, k) ∈ pieceClassMap cov cd s t :=
        (mem_pieceClassMap cov cd s t (g, k)).mpr ⟨hg, by simp only; omega, by simp only; omega, by simp only; omega⟩
      have hall : ∀ r ∈ pieceClassMap cov cd s t, r.1 = g → r.2 = k := by
        intro r hr hr1
        have := ((mem_pieceClassMap cov cd s t r).mp hr).2.2.2
        rw [this, hr1]; omega
      have hac := assignedClass_const hall ⟨(g, k), hmem, rfl⟩
      have hget' := itemGet_collectItems (pieceClassMap cov cd s t) g
      rw [hac] at hget'
      have hig : itemGet g (collectItems (pieceClassMap cov cd s t)) = some k := by
        cases hi : itemGet g (collectItems (pieceClassMap cov cd s t)) with
        | none => rw [hi] at hget'; simp at hget'; exact absurd hget'.symm hk
        | some v => rw [hi] at hget'; simp at hget'; rw [hget']
      have := (FontVerif.SubsetLayout.itemGet_some_iff hsorted g k).mp hig
      unfold keysOf
      exact List.mem_map.mpr ⟨(g, k), List.mem_filter.mpr ⟨this, by simp⟩, rfl⟩

theorem itemGet_collectItems_some (ps : List (Nat × Nat)) (x v : Nat)
    (h : itemGet x (collectItems ps) = some v) : ∃ p ∈ ps, p.1 = x ∧ p.2 = v ∧ v ≠ 0 := by
  unfold collectItems at h
  rw [itemGet_foldl] at h
  cases hf : (ps.filter (fun p => p.2 != 0)).reverse.find? (fun p => p.1 == x) with
  | none => rw [hf] at h; simp [itemGet] at h
  | some p =>
    rw [hf] at h
    simp only [Option.some.injEq] at h
    have hm := List.mem_filter.mp (List.mem_reverse.mp (List.mem_of_find?_eq_some hf))
    have hx : p.1 = x := by simpa using List.find?_some hf
    refine ⟨p, hm.1, hx, h, ?_⟩
    rw [← h]; simpa using hm.2

theorem sum_scaled_le (f G : Nat → Nat) : ∀ (K : List Nat), (∀ k ∈ K, 6 * f k ≤ G k) →
    6 * (K.map f).sum ≤ (K.map G).sum := by
  intro K
  induction K with
  | nil => intro _; simp
  | cons x xs ih =>
    intro h
    simp only [List.map_cons, List.sum_cons]
    have := h x (List.mem_cons_self ..)
    have := ih (fun k hk => h k (List.mem_cons_of_mem _ hk))
    omega

/-- **the class-definition estimate is sound**: the class definition 1 `split_off_ppf2` builds for
the piece `s..t` has at most as many ranges as the estimator's per-class run counts add up to -/
theorem ppf2_cd1_ranges_le (cov : Coverage) (cd : ClassDef) (s t : Nat) :
    4 + 6 * (iterClassRanges (collectItems (pieceClassMap cov cd s t))).length ≤
      ppf2Cd1Estimate ⟨gcOf cov cd⟩ s t := by
  have hsorted := collectItems_sorted (pieceClassMap cov cd s t)
  have hitem : ∀ p ∈ collectItems (pieceClassMap cov cd s t), p.2 ≠ 0 ∧ p.2 < t - s := by
    intro p hp
    have hig := (FontVerif.SubsetLayout.itemGet_some_iff hsorted p.1 p.2).mpr hp
    obtain ⟨q, hq, hq1, hq2, hnz⟩ := itemGet_collectItems_some _ _ _ hig
    obtain ⟨_, m2, m3, m4⟩ := (mem_pieceClassMap cov cd s t q).mp hq
    exact ⟨hnz, by omega⟩
  have hle := iterClassRanges_le (List.range (t - s)) (collectItems (pieceClassMap cov cd s t))
    (by
      have : (collectItems (pieceClassMap cov cd s t)).Pairwise (fun a b => a.1 < b.1) := hsorted
      rw [List.pairwise_map]; exact this)
    (fun p hp => List.mem_range.mpr (hitem p hp).2)
  unfold ppf2Cd1Estimate
  rw [List.range'_eq_map_range, List.map_map]
  have hsum := sum_scaled_le (fun k => countRanges (keysOf k (collectItems (pieceClassMap cov cd s t))))
    ((⟨gcOf cov cd⟩ : Ppf2Est).incClassDef ∘ fun x => s + x) (List.range (t - s)) (by
      intro k hk
      have hkt : k < t - s := List.mem_range.mp hk
      simp only [Function.comp]
      unfold Ppf2Est.incClassDef
      by_cases hk0 : k = 0
      · subst hk0
        have : keysOf 0 (collectItems (pieceClassMap cov cd s t)) = [] := by
          unfold keysOf
          rw [List.map_eq_nil_iff, List.filter_eq_nil_iff]
          intro p hp
          have := (hitem p hp).1
          simpa using this
        rw [this]; simp [countRanges]
      · have hne : ¬ s + k = 0 := by omega
        rw [if_neg hne, keysOf_collectItems_piece cov cd s t k hk0 (by omega)]
        exact Nat.le_refl _)
  omega

end FontVerif.Layout
