/-
Helper lemmas for C16: the size loop of `split_pair_pos_format_1` with per-piece estimates.
-/
import FontVerif.Lemmas.LayoutPpf2Dev
set_option linter.unusedVariables false
set_option linter.unusedSimpArgs false
namespace FontVerif.Layout

def sliceOf (ps : List (Nat × Nat)) (s e : Nat) : List (Nat × Nat) := (ps.drop s).take (e - s)

theorem sliceOf_step (ps : List (Nat × Nat)) (s i : Nat) (hs : s ≤ i) (p : Nat × Nat)
    (hp : ps[i]? = some p) : sliceOf ps s (i + 1) = sliceOf ps s i ++ [p] := by
  unfold sliceOf
  have : i + 1 - s = (i - s) + 1 := by omega
  rw [this, List.take_succ]
  have : (ps.drop s)[i - s]? = some p := by
    rw [List.getElem?_drop, show s + (i - s) = i by omega]; exact hp
  rw [this]; rfl

def Ppf1DGood (ps : List (Nat × Nat)) (st : Ppf1DAcc) (i : Nat) : Prop :=
  st.start ≤ i ∧
  st.accumulated = 10 + (i - st.start) * 2 + (childrenSize (sliceOf ps st.start i) []).1 ∧
  st.visited = (childrenSize (sliceOf ps st.start i) []).2

def Ppf1DPieceOK (ps : List (Nat × Nat)) (p : Nat × Nat × Nat) : Prop :=
  p.1 ≤ p.2.1 ∧ p.2.2 = 10 + (p.2.1 - p.1) * 2 + (childrenSize (sliceOf ps p.1 p.2.1) []).1

theorem ppf1DStep_good (cs : Nat) (ps : List (Nat × Nat)) (st : Ppf1DAcc) (i : Nat) (p : Nat × Nat)
    (hp : ps[i]? = some p) (hg : Ppf1DGood ps st i) (hpc : ∀ q ∈ st.pieces, Ppf1DPieceOK ps q) :
    Ppf1DGood ps (ppf1DStep true cs st i p) (i + 1) ∧
    ∀ q ∈ (ppf1DStep true cs st i p).pieces, Ppf1DPieceOK ps q := by
  obtain ⟨h1, h2, h3⟩ := hg
  unfold ppf1DStep
  simp only
  split
  · have hf : sliceOf ps i (i + 1) = [p] := by
      rw [sliceOf_step ps i i (Nat.le_refl _) p hp]; simp [sliceOf]
    refine ⟨⟨Nat.le_succ _, ?_, ?_⟩, ?_⟩
    · simp only [↓reduceIte]; rw [hf]; simp; omega
    · simp only [↓reduceIte]; rw [hf]
    · intro q hq
      rcases List.mem_cons.mp hq with rfl | hq'
      · exact ⟨h1, h2⟩
      · exact hpc q hq'
  · refine ⟨⟨Nat.le_succ_of_le h1, ?_, ?_⟩, hpc⟩
    · simp only
      rw [sliceOf_step ps st.start i h1 p hp, childrenSize_append, h2, ← h3]
      simp only
      have : i + 1 - st.start = (i - st.start) + 1 := by omega
      rw [this, Nat.add_mul]
      omega
    · simp only
      rw [sliceOf_step ps st.start i h1 p hp, childrenSize_append, ← h3]

theorem ppf1DLoop_good (cs : Nat) (ps : List (Nat × Nat)) :
    ∀ (rest : List (Nat × Nat)) (st : Ppf1DAcc) (i : Nat), ps.drop i = rest →
      Ppf1DGood ps st i → (∀ q ∈ st.pieces, Ppf1DPieceOK ps q) →
      Ppf1DGood ps (ppf1DLoop true cs st i rest) (i + rest.length) ∧
      ∀ q ∈ (ppf1DLoop true cs st i rest).pieces, Ppf1DPieceOK ps q := by
  intro rest
  induction rest with
  | nil => intro st i _ hg hp; exact ⟨hg, hp⟩
  | cons p rest ih =>
    intro st i hd hg hpc
    have hp : ps[i]? = some p := by
      have : (ps.drop i)[0]? = some p := by rw [hd]; rfl
      rw [List.getElem?_drop] at this
      simpa using this
    have hd' : ps.drop (i + 1) = rest := by
      have : ps.drop (i + 1) = (ps.drop i).drop 1 := by rw [List.drop_drop]
      rw [this, hd]; rfl
    obtain ⟨g', p'⟩ := ppf1DStep_good cs ps st i p hp hg hpc
    have := ih _ (i + 1) hd' g' p'
    simp only [ppf1DLoop, List.length_cons]
    rw [show i + (rest.length + 1) = i + 1 + rest.length by omega]
    exact this

end FontVerif.Layout
