/-
Generic lemmas about the fuel-driven iterator machine `ReadIter.run` (termination from a decreasing
measure, yield bounds from a potential, trap freedom from an invariant), used by Props/C01Iter.lean.
-/
import FontVerif.Model.ReadIter
set_option linter.unusedVariables false
namespace FontVerif.ReadIter
open FontVerif

/-! ## generic facts about `run` -/

/-- more fuel never changes a finished run -/
theorem run_mono {σ α : Type} (step : σ → Out α × σ) :
    ∀ (f : Nat) (s : σ) (evs : List (Out α)), run step f s = some evs →
      ∀ k, run step (f + k) s = some evs := by
  intro f
  induction f with
  | zero => intro s evs h; simp [run] at h
  | succ f ih =>
    intro s evs h k
    have e : f + 1 + k = (f + k) + 1 := by omega
    rw [e]
    unfold run at h ⊢
    split at h
    · simpa using h
    · simpa using h
    · rename_i s' hs
      cases hr : run step f s' with
      | none => simp [hr] at h
      | some r => rw [ih s' r hr k]; simpa [hr] using h
    · rename_i a s' hs
      cases hr : run step f s' with
      | none => simp [hr] at h
      | some r => rw [ih s' r hr k]; simpa [hr] using h

/-- **termination from a decreasing measure**: if every trip that does not return `None`
decreases `μ`, then `μ s + 1` units of fuel suffice and the loop makes at most `μ s` trips before
the final one. -/
theorem run_complete {σ α : Type} (step : σ → Out α × σ) (μ : σ → Nat) (Inv : σ → Prop)
    (hInv : ∀ s, Inv s → Inv (step s).2)
    (hdec : ∀ s, Inv s → (step s).1 ≠ .done → μ (step s).2 < μ s) :
    ∀ (f : Nat) (s : σ), Inv s → μ s < f →
      ∃ evs, run step f s = some evs ∧ evs.length ≤ μ s := by
  intro f
  induction f with
  | zero => intro s _ h; omega
  | succ f ih =>
    intro s hi hf
    have hI := hInv s hi
    have hD := hdec s hi
    unfold run
    split
    · exact ⟨[], rfl, by simp⟩
    · rename_i s' hs
      rw [hs] at hD
      have := hD (by simp)
      exact ⟨[.trap], rfl, by simp; omega⟩
    · rename_i s' hs
      rw [hs] at hD hI
      have hlt : μ s' < μ s := hD (by simp)
      obtain ⟨evs, he, hl⟩ := ih s' hI (by omega)
      exact ⟨.cont :: evs, by simp [he], by simp only [List.length_cons] at *; omega⟩
    · rename_i a s' hs
      rw [hs] at hD hI
      have hlt : μ s' < μ s := hD (by simp)
      obtain ⟨evs, he, hl⟩ := ih s' hI (by omega)
      exact ⟨.yield a :: evs, by simp [he], by simp only [List.length_cons] at *; omega⟩

/-- **yield bound from a potential**: if a yielding trip decreases `ν` and a `continue` trip does
not increase it, at most `ν s` items are produced. -/
theorem yields_le {σ α : Type} (step : σ → Out α × σ) (ν : σ → Nat) (Inv : σ → Prop)
    (hInv : ∀ s, Inv s → Inv (step s).2)
    (hy : ∀ s a, Inv s → (step s).1 = .yield a → ν (step s).2 < ν s)
    (hc : ∀ s, Inv s → (step s).1 = .cont → ν (step s).2 ≤ ν s) :
    ∀ (f : Nat) (s : σ) (evs : List (Out α)), Inv s → run step f s = some evs →
      (items evs).length ≤ ν s := by
  intro f
  induction f with
  | zero => intro s evs _ h; simp [run] at h
  | succ f ih =>
    intro s evs hi h
    have hI := hInv s hi
    unfold run at h
    split at h
    · simp at h; subst h; simp [items]
    · simp at h; subst h; simp [items]
    · rename_i s' hs
      cases hr : run step f s' with
      | none => simp [hr] at h
      | some r =>
        simp [hr] at h; subst h
        rw [hs] at hI
        have h1 := ih s' r hI hr
        have h2 := hc s hi (by rw [hs])
        rw [hs] at h2
        have h2 : ν s' ≤ ν s := h2
        simp only [items]; omega
    · rename_i a s' hs
      cases hr : run step f s' with
      | none => simp [hr] at h
      | some r =>
        simp [hr] at h; subst h
        rw [hs] at hI
        have h1 := ih s' r hI hr
        have h2 := hy s a hi (by rw [hs])
        rw [hs] at h2
        have h2 : ν s' < ν s := h2
        simp only [items, List.length_cons]; omega

/-- a property of every reachable state's yields: if `P` holds of each item yielded from a state
satisfying `Inv`, it holds of all items of a run -/
theorem items_all {σ α : Type} (step : σ → Out α × σ) (Inv : σ → Prop) (P : α → Prop)
    (hInv : ∀ s, Inv s → Inv (step s).2)
    (hP : ∀ s a, Inv s → (step s).1 = .yield a → P a) :
    ∀ (f : Nat) (s : σ) (evs : List (Out α)), Inv s → run step f s = some evs →
      ∀ x ∈ items evs, P x := by
  intro f
  induction f with
  | zero => intro s evs _ h; simp [run] at h
  | succ f ih =>
    intro s evs hi h
    have hI := hInv s hi
    unfold run at h
    split at h
    · simp at h; subst h; simp [items]
    · simp at h; subst h; simp [items]
    · rename_i s' hs
      cases hr : run step f s' with
      | none => simp [hr] at h
      | some r =>
        simp [hr] at h; subst h
        rw [hs] at hI
        simpa [items] using ih s' r hI hr
    · rename_i a s' hs
      cases hr : run step f s' with
      | none => simp [hr] at h
      | some r =>
        simp [hr] at h; subst h
        rw [hs] at hI
        have h1 := ih s' r hI hr
        have h2 := hP s a hi (by rw [hs])
        intro x hx
        simp only [items, List.mem_cons] at hx
        rcases hx with rfl | hx
        · exact h2
        · exact h1 x hx

/-- no trap is ever produced if no reachable state's step traps -/
theorem not_trapped {σ α : Type} (step : σ → Out α × σ) (Inv : σ → Prop)
    (hInv : ∀ s, Inv s → Inv (step s).2)
    (hT : ∀ s, Inv s → (step s).1 ≠ .trap) :
    ∀ (f : Nat) (s : σ) (evs : List (Out α)), Inv s → run step f s = some evs →
      trapped evs = false := by
  intro f
  induction f with
  | zero => intro s evs _ h; simp [run] at h
  | succ f ih =>
    intro s evs hi h
    have hI := hInv s hi
    unfold run at h
    split at h
    · simp at h; subst h; simp [trapped]
    · rename_i s' hs
      exact absurd (by rw [hs]) (hT s hi)
    · rename_i s' hs
      cases hr : run step f s' with
      | none => simp [hr] at h
      | some r =>
        simp [hr] at h; subst h
        rw [hs] at hI
        simpa [trapped] using ih s' r hI hr
    · rename_i a s' hs
      cases hr : run step f s' with
      | none => simp [hr] at h
      | some r =>
        simp [hr] at h; subst h
        rw [hs] at hI
        simpa [trapped] using ih s' r hI hr

/-- `iter.take(k)` agrees with the first `k` items of the full run -/
theorem runTake_eq {σ α : Type} (step : σ → Out α × σ) :
    ∀ (f k : Nat) (s : σ) (evs : List (Out α)), run step f s = some evs →
      runTake step f k s = some ((items evs).take k) := by
  intro f
  induction f with
  | zero => intro k s evs h; simp [run] at h
  | succ f ih =>
    intro k s evs h
    cases k with
    | zero => simp [runTake]
    | succ k =>
      unfold run at h
      unfold runTake
      split at h
      · rename_i s' hs
        simp at h; subst h; simp [items]
      · rename_i s' hs
        simp at h; subst h; simp [items]
      · rename_i s' hs
        cases hr : run step f s' with
        | none => simp [hr] at h
        | some r =>
          simp [hr] at h; subst h
          simp only [items]
          exact ih (k + 1) s' r hr
      · rename_i a s' hs
        cases hr : run step f s' with
        | none => simp [hr] at h
        | some r =>
          simp [hr] at h; subst h
          simp only [items, List.take_succ_cons]
          rw [ih k s' r hr]; rfl

end FontVerif.ReadIter
