/-
Helper lemmas for C13 (Model/Paint.lean): nesting algebra, what a stack of
`CollectFillGlyphPainter`s lets through, and the traversal invariant.
-/
import FontVerif.Model.Paint
set_option linter.unusedVariables false
namespace FontVerif.Paint

/-! ### nesting algebra -/

/-- a stream that, from any stack of open scopes, returns to exactly that stack -/
def Neutral (l : List Event) : Prop := ∀ s, run s l = some s

theorem run_append (s : List Frame) (a b : List Event) :
    run s (a ++ b) = match run s a with
      | none => none
      | some s' => run s' b := by
  induction a generalizing s with
  | nil => simp [run]
  | cons e es ih =>
    simp only [List.cons_append, run]
    cases step s e with
    | none => rfl
    | some s' => exact ih s'

theorem Neutral.nil : Neutral [] := fun s => rfl

theorem Neutral.append {a b : List Event} (ha : Neutral a) (hb : Neutral b) : Neutral (a ++ b) := by
  intro s; rw [run_append, ha s]; exact hb s

theorem Neutral.fill (b : Brush) : Neutral [.fill b] := fun s => rfl
theorem Neutral.cached (g : Gid) : Neutral [.cached g] := fun s => rfl
theorem Neutral.fillGlyph (g : Gid) (bt : Option TWord) (b : Brush) : Neutral [.fillGlyph g bt b] := fun s => rfl

theorem Neutral.expand (g : Gid) (bt : Option TWord) (b : Brush) : Neutral (expandFillGlyph g bt b) := by
  intro s; cases bt <;> rfl

theorem Neutral.bracketT {m : List Event} (w : TWord) (h : Neutral m) : Neutral ([.pushT w] ++ m ++ [.popT]) := by
  intro s
  rw [run_append, run_append]
  show (match (match run (.transform :: s) [] with | none => none | some s' => run s' m) with
    | none => none | some s' => run s' [.popT]) = some s
  simp only [run, h (.transform :: s), step]

theorem Neutral.bracketClipGlyph {m : List Event} (g : Gid) (h : Neutral m) :
    Neutral ([.pushClipGlyph g] ++ m ++ [.popClip]) := by
  intro s
  rw [run_append, run_append]
  show (match (match run (.clip :: s) [] with | none => none | some s' => run s' m) with
    | none => none | some s' => run s' [.popClip]) = some s
  simp only [run, h (.clip :: s), step]

theorem Neutral.bracketClipBox {m : List Event} (b : ClipBoxV) (h : Neutral m) :
    Neutral ([.pushClipBox b] ++ m ++ [.popClip]) := by
  intro s
  rw [run_append, run_append]
  show (match (match run (.clip :: s) [] with | none => none | some s' => run s' m) with
    | none => none | some s' => run s' [.popClip]) = some s
  simp only [run, h (.clip :: s), step]

theorem Neutral.bracketLayer {m : List Event} (k : Nat) (h : Neutral m) :
    Neutral ([.pushLayer k] ++ m ++ [.popLayer k]) := by
  intro s
  rw [run_append, run_append]
  show (match (match run (.layer k :: s) [] with | none => none | some s' => run s' m) with
    | none => none | some s' => run s' [.popLayer k]) = some s
  simp only [run, h (.layer k :: s), step, if_true]

/-! ### what nested fill-glyph optimisers pass down -/

/-- every element is a `fill_glyph` call -/
def AllFG (l : List Event) : Prop := ∀ e ∈ l, ∃ g bt b, e = .fillGlyph g bt b

theorem AllFG.nil : AllFG [] := by intro e h; cases h

theorem AllFG.append {a b : List Event} (ha : AllFG a) (hb : AllFG b) : AllFG (a ++ b) := by
  intro e h
  rcases List.mem_append.mp h with h | h
  · exact ha e h
  · exact hb e h

theorem optPrim_out (o : Opt) (e : Event) : AllFG (optPrim o e).2 := by
  cases e <;> simp only [optPrim] <;> try exact AllFG.nil
  split
  · intro e h; simp at h; exact ⟨_, _, _, h⟩
  · exact AllFG.nil

theorem optPrims_out (o : Opt) (l : List Event) : AllFG (optPrims o l).2 := by
  induction l generalizing o with
  | nil => exact AllFG.nil
  | cons e es ih => simp only [optPrims]; exact (optPrim_out o e).append (ih _)

theorem optCalls_out (o : Opt) (l : List Event) : AllFG (optCalls o l).2 := by
  induction l generalizing o with
  | nil => exact AllFG.nil
  | cons e es ih =>
    simp only [optCalls]
    refine AllFG.append ?_ (ih _)
    cases e <;> first | exact optPrim_out o _ | exact optPrims_out o _

theorem neutral_root_of_allFG (c : Client) {l : List Event} (h : AllFG l) :
    Neutral (l.flatMap (rootRecord c)) := by
  induction l with
  | nil => exact Neutral.nil
  | cons e es ih =>
    simp only [List.flatMap_cons]
    refine Neutral.append ?_ (ih (fun x hx => h x (List.mem_cons_of_mem _ hx)))
    obtain ⟨g, bt, b, rfl⟩ := h e (List.mem_cons_self ..)
    simp only [rootRecord]
    split
    · exact Neutral.fillGlyph g bt b
    · exact Neutral.expand g bt b

theorem sendL_length (c : Client) (opts : List Opt) (evs : List Event) :
    (sendL c opts evs).1.length = opts.length := by
  induction opts generalizing evs with
  | nil => rfl
  | cons o rest ih => simp only [sendL, List.length_cons, ih]

theorem sendL_neutral_of_allFG (c : Client) (opts : List Opt) {evs : List Event} (h : AllFG evs) :
    Neutral (sendL c opts evs).2 := by
  induction opts generalizing evs with
  | nil => exact neutral_root_of_allFG c h
  | cons o rest ih => simp only [sendL]; exact ih (optCalls_out o evs)

theorem sendL_neutral_of_ne_nil (c : Client) {opts : List Opt} (hne : opts ≠ []) (evs : List Event) :
    Neutral (sendL c opts evs).2 := by
  cases opts with
  | nil => exact absurd rfl hne
  | cons o rest => simp only [sendL]; exact sendL_neutral_of_allFG c rest (optCalls_out o evs)

/-! ### state steps -/

/-- `st'` is `st` after some callbacks: same painter-stack height, `new` appended to what the client
recorded, and `new` is neutral whenever the painter was an optimiser -/
structure Step (st st' : St) (new : List Event) : Prop where
  len : st'.opts.length = st.opts.length
  evs : st'.evs = st.evs ++ new
  inner : st.opts ≠ [] → Neutral new

theorem Step.refl (st : St) : Step st st [] :=
  ⟨rfl, by simp, fun _ => Neutral.nil⟩

theorem Step.trans {a b d : St} {n1 n2 : List Event} (h1 : Step a b n1) (h2 : Step b d n2) :
    Step a d (n1 ++ n2) := by
  refine ⟨h2.len.trans h1.len, by rw [h2.evs, h1.evs, List.append_assoc], fun hne => ?_⟩
  refine (h1.inner hne).append (h2.inner ?_)
  intro hb
  have := h1.len
  rw [hb] at this
  cases ha : a.opts with
  | nil => exact hne ha
  | cons x xs => rw [ha] at this; simp at this

theorem Step.nil_iff {a b : St} {n : List Event} (h : Step a b n) : b.opts = [] ↔ a.opts = [] := by
  have := h.len
  constructor
  · intro hb; rw [hb] at this; cases ha : a.opts with
    | nil => rfl
    | cons x xs => rw [ha] at this; simp at this
  · intro ha; rw [ha] at this; cases hb : b.opts with
    | nil => rfl
    | cons x xs => rw [hb] at this; simp at this

theorem emit_step (c : Client) (e : Event) (st : St) :
    ∃ new, Step st (emit c e st) new ∧ (st.opts = [] → new = rootRecord c e) := by
  refine ⟨(sendL c st.opts [e]).2, ⟨?_, rfl, ?_⟩, ?_⟩
  · simp only [emit]; exact sendL_length c st.opts [e]
  · intro hne; exact sendL_neutral_of_ne_nil c hne [e]
  · intro h; rw [h]; simp [sendL]

theorem emit_visits (c : Client) (e : Event) (st : St) : (emit c e st).visits = st.visits := rfl

theorem pushClip_visits (c : Client) (b : Option ClipBoxV) (st : St) : (pushClip c b st).visits = st.visits := by
  cases b <;> rfl

theorem popClipIf_visits (c : Client) (b : Option ClipBoxV) (st : St) : (popClipIf c b st).visits = st.visits := by
  cases b <;> rfl

/-- the traversal invariant: a `Step`, and on the client itself (no optimiser) a successful result
comes with a neutral stream -/
def Inv (st : St) (r : Res) : Prop :=
  ∃ new, Step st r.2 new ∧ (st.opts = [] → r.1 = none → Neutral new)

theorem Inv.here (st : St) (r : Option PErr) : Inv st (r, st) :=
  ⟨[], Step.refl st, fun _ _ => Neutral.nil⟩

/-- events emitted before an error: no obligation on the client, still a `Step` -/
theorem Inv.of_step_err {st st' : St} {new : List Event} (h : Step st st' new) (e : PErr) :
    Inv st (some e, st') :=
  ⟨new, h, fun _ hn => by cases hn⟩

theorem Inv.trans_none {a b : St} {r : Res} (h1 : Inv a (none, b)) (h2 : Inv b r) : Inv a r := by
  obtain ⟨n1, s1, k1⟩ := h1
  obtain ⟨n2, s2, k2⟩ := h2
  refine ⟨n1 ++ n2, s1.trans s2, fun ha hr => ?_⟩
  exact (k1 ha rfl).append (k2 ((Step.nil_iff s1).mpr ha) hr)

theorem forLayers_inv (body : Nat → St → Res) (hb : ∀ i st, Inv st (body i st)) :
    ∀ (l : List Nat) (st : St), Inv st (forLayers body l st) := by
  intro l
  induction l with
  | nil => intro st; exact Inv.here st none
  | cons i is ih =>
    intro st
    simp only [forLayers]
    have h := hb i st
    generalize body i st = r at h
    obtain ⟨r1, st'⟩ := r
    cases r1 with
    | some e => obtain ⟨n, s, _⟩ := h; exact Inv.of_step_err s e
    | none => exact Inv.trans_none h (ih st')

theorem Inv.bump {st0 : St} {r : Res} (h : Inv (bump st0) r) : Inv st0 r := by
  obtain ⟨n, s, hk⟩ := h
  exact ⟨n, ⟨s.len, s.evs, s.inner⟩, hk⟩

/-- one level of `traverse_with_callbacks` preserves the invariant if the recursive calls do -/
theorem arm_inv (inst : Instance) (c : Client) (rec : Node → List PaintId → St → Res)
    (ih : ∀ (node : Node) (dec : List PaintId) (st : St), Inv st (rec node dec st)) :
    ∀ (node : Node) (dec : List PaintId) (st : St), Inv st (arm inst c rec node dec st) := by
    intro node dec st
    cases node with
    | colrLayers first num =>
      simp only [arm]
      apply forLayers_inv
      intro i st'
      split
      · exact Inv.here _ _
      · split
        · exact Inv.here _ _
        · split
          · exact Inv.here _ _
          · exact ih _ _ _
    | leaf brush =>
      simp only [arm]
      cases brush with
      | none => exact Inv.here _ _
      | some b =>
        obtain ⟨new, s, hroot⟩ := emit_step c (.fill b) st
        refine ⟨new, s, fun h _ => ?_⟩
        rw [hroot h]; exact Neutral.fill b
    | glyph g child =>
      simp only [arm]
      split
      · exact Inv.here _ _
      · rename_i n hres
        have h1 := ih n dec { st with opts := { success := true, bt := none, gid := g } :: st.opts }
        generalize rec n dec { st with opts := { success := true, bt := none, gid := g } :: st.opts } = r1 at h1 ⊢
        obtain ⟨n1, s1, _⟩ := h1
        have hN1 : Neutral n1 := s1.inner (by simp)
        have hlen := s1.len
        have hevs := s1.evs
        simp only [List.length_cons] at hlen
        split
        · rename_i hnil; rw [hnil] at hlen; simp at hlen
        · rename_i o rest hopts
          rw [hopts] at hlen
          simp only [List.length_cons, Nat.add_right_cancel_iff] at hlen
          have s3 : Step st { r1.2 with opts := rest } n1 := ⟨hlen, hevs, fun _ => hN1⟩
          split
          · exact ⟨n1, s3, fun _ _ => hN1⟩
          · obtain ⟨na, sa, ha⟩ := emit_step c (.pushClipGlyph g) { r1.2 with opts := rest }
            have h2 := ih n dec (emit c (.pushClipGlyph g) { r1.2 with opts := rest })
            generalize rec n dec (emit c (.pushClipGlyph g) { r1.2 with opts := rest }) = r2 at h2 ⊢
            obtain ⟨n2, s2, k2⟩ := h2
            obtain ⟨nb, sb, hb⟩ := emit_step c .popClip r2.2
            refine ⟨n1 ++ (na ++ (n2 ++ nb)), s3.trans (sa.trans (s2.trans sb)), fun h0 hr => ?_⟩
            have h3 : ({ r1.2 with opts := rest } : St).opts = [] := (Step.nil_iff s3).mpr h0
            have h4 := (Step.nil_iff sa).mpr h3
            have h5 := (Step.nil_iff s2).mpr h4
            rw [ha h3, hb h5]
            refine hN1.append ?_
            have := Neutral.bracketClipGlyph g (k2 h4 hr)
            simpa [rootRecord] using this
    | colrGlyph g =>
      simp only [arm]
      split
      · exact Inv.here _ _
      · exact Inv.here _ _
      · split
        · exact Inv.here _ _
        · rename_i pid hb dec' he
          -- askCached
          have hask : ∃ na, Step st (askCached c g st).2 na ∧ (st.opts = [] → na = [.cached g]) := by
            unfold askCached
            split
            · rename_i h0
              refine ⟨[.cached g], ⟨rfl, rfl, fun h => absurd h0 h⟩, fun _ => rfl⟩
            · rename_i o rest h0
              refine ⟨[], Step.refl st, fun h => ?_⟩
              rw [h0] at h; cases h
          obtain ⟨na, sa, ha⟩ := hask
          generalize askCached c g st = a at sa ⊢
          split
          · exact Inv.of_step_err sa _
          · refine ⟨na, sa, fun h0 _ => ?_⟩
            rw [ha h0]; exact Neutral.cached g
          · cases hclip : inst.clip g with
            | none =>
              simp only [pushClip, popClipIf]
              split
              · exact Inv.of_step_err sa _
              · rename_i n hres
                have h2 := ih n dec' a.2
                generalize rec n dec' a.2 = r at h2 ⊢
                obtain ⟨n2, s2, k2⟩ := h2
                refine ⟨na ++ n2, sa.trans s2, fun h0 hr => ?_⟩
                rw [ha h0]
                exact (Neutral.cached g).append (k2 ((Step.nil_iff sa).mpr h0) hr)
            | some bx =>
              simp only [pushClip, popClipIf]
              obtain ⟨nb, sb, hb'⟩ := emit_step c (.pushClipBox bx) a.2
              split
              · exact Inv.of_step_err (sa.trans sb) _
              · rename_i n hres
                have h2 := ih n dec' (emit c (.pushClipBox bx) a.2)
                generalize rec n dec' (emit c (.pushClipBox bx) a.2) = r at h2 ⊢
                obtain ⟨n2, s2, k2⟩ := h2
                obtain ⟨nc, sc, hc⟩ := emit_step c .popClip r.2
                refine ⟨na ++ (nb ++ (n2 ++ nc)), sa.trans (sb.trans (s2.trans sc)), fun h0 hr => ?_⟩
                have h1 := (Step.nil_iff sa).mpr h0
                have h3 := (Step.nil_iff sb).mpr h1
                have h4 := (Step.nil_iff s2).mpr h3
                rw [ha h0, hb' h1, hc h4]
                refine (Neutral.cached g).append ?_
                have := Neutral.bracketClipBox bx (k2 h3 hr)
                simpa [rootRecord] using this
    | transform tag child =>
      simp only [arm]
      obtain ⟨na, sa, ha⟩ := emit_step c (.pushT [tag]) st
      split
      · exact Inv.of_step_err sa _
      · rename_i n hres
        have h2 := ih n dec (emit c (.pushT [tag]) st)
        generalize rec n dec (emit c (.pushT [tag]) st) = r at h2 ⊢
        obtain ⟨n2, s2, k2⟩ := h2
        obtain ⟨nb, sb, hb⟩ := emit_step c .popT r.2
        refine ⟨na ++ (n2 ++ nb), sa.trans (s2.trans sb), fun h0 hr => ?_⟩
        have h1 := (Step.nil_iff sa).mpr h0
        have h3 := (Step.nil_iff s2).mpr h1
        rw [ha h0, hb h3]
        have := Neutral.bracketT [tag] (k2 h1 hr)
        simpa [rootRecord] using this
    | composite src mode backdrop =>
      simp only [arm]
      obtain ⟨na, sa, ha⟩ := emit_step c (.pushLayer SRC_OVER) st
      split
      · exact Inv.of_step_err sa _
      · rename_i nbk hres
        have h1 := ih nbk dec (emit c (.pushLayer SRC_OVER) st)
        generalize rec nbk dec (emit c (.pushLayer SRC_OVER) st) = r1 at h1 ⊢
        obtain ⟨n1, s1, k1⟩ := h1
        split
        · exact Inv.of_step_err (sa.trans s1) _
        · rename_i hr1
          obtain ⟨nb, sb, hb⟩ := emit_step c (.pushLayer mode) r1.2
          split
          · exact Inv.of_step_err (sa.trans (s1.trans sb)) _
          · rename_i ns hres2
            have h2 := ih ns dec (emit c (.pushLayer mode) r1.2)
            generalize rec ns dec (emit c (.pushLayer mode) r1.2) = r2 at h2 ⊢
            obtain ⟨n2, s2, k2⟩ := h2
            obtain ⟨nc, sc, hc⟩ := emit_step c (.popLayer mode) r2.2
            obtain ⟨nd, sd, hd⟩ := emit_step c (.popLayer SRC_OVER) (emit c (.popLayer mode) r2.2)
            refine ⟨na ++ (n1 ++ (nb ++ (n2 ++ (nc ++ nd)))),
              sa.trans (s1.trans (sb.trans (s2.trans (sc.trans sd)))), fun h0 hr => ?_⟩
            have e1 := (Step.nil_iff sa).mpr h0
            have e2 := (Step.nil_iff s1).mpr e1
            have e3 := (Step.nil_iff sb).mpr e2
            have e4 := (Step.nil_iff s2).mpr e3
            have e5 := (Step.nil_iff sc).mpr e4
            rw [ha h0, hb e2, hc e4, hd e5]
            have inner := Neutral.bracketLayer mode (k2 e3 hr)
            have outer := Neutral.bracketLayer SRC_OVER ((k1 e1 hr1).append inner)
            simpa [rootRecord] using outer

/-- main invariant of `traverse_with_callbacks` -/
theorem trav_inv (inst : Instance) (c : Client) :
    ∀ (fuel : Nat) (node : Node) (dec : List PaintId) (st : St),
      Inv st (trav inst c fuel node dec st) := by
  intro fuel
  induction fuel with
  | zero => intro node dec st; simp only [trav]; exact Inv.here st _
  | succ f ih =>
    intro node dec st
    simp only [trav]
    exact Inv.bump (arm_inv inst c _ ih node dec (bump st))

end FontVerif.Paint
