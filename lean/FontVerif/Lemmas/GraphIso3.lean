/-
Helper lemmas for C05 (Model/Graph.lean): `remove_orphans` (the depth-first walk of
`find_subgraph_hb` is closed under links), and the simulation invariant through `pack_objects`.
-/
import FontVerif.Model.Graph
import FontVerif.Lemmas.GraphIso2
set_option linter.unusedVariables false
set_option linter.unusedSimpArgs false
namespace FontVerif.Graph
open FontVerif

/-! ### sets -/

theorem Set.contains_iff (s : Set) (x : Nat) : s.contains x = true ↔ x ∈ s := by
  unfold Set.contains
  exact List.elem_iff

theorem Set.mem_insert_self (s : Set) (x : Nat) : x ∈ Set.insert s x := by
  induction s with
  | nil => simp [Set.insert]
  | cons z rest ih =>
    simp only [Set.insert]
    split
    · exact List.mem_cons_self
    · split
      · rename_i h; rw [h]; exact List.mem_cons_self
      · exact List.mem_cons_of_mem _ ih

theorem Set.mem_insert_of_mem (s : Set) (x y : Nat) (h : y ∈ s) : y ∈ Set.insert s x := by
  induction s with
  | nil => simp at h
  | cons z rest ih =>
    simp only [Set.insert]
    split
    · exact List.mem_cons_of_mem _ h
    · split
      · exact h
      · rcases List.mem_cons.mp h with h | h
        · rw [h]; exact List.mem_cons_self
        · exact List.mem_cons_of_mem _ (ih h)

/-! ### counting the keys not yet visited -/

theorem filter_length_mono {α : Type} (l : List α) (p q : α → Bool) (h : ∀ k, p k = true → q k = true) :
    (l.filter p).length ≤ (l.filter q).length := by
  induction l with
  | nil => simp
  | cons a rest ih =>
    simp only [List.filter_cons]
    by_cases hp : p a = true
    · simp only [hp, h a hp, ↓reduceIte, List.length_cons]; omega
    · simp only [hp, Bool.false_eq_true, ↓reduceIte]
      split
      · simp only [List.length_cons]; omega
      · exact ih

theorem filter_length_strict {α : Type} (l : List α) (p q : α → Bool) (h : ∀ k, p k = true → q k = true)
    (a : α) (ha : a ∈ l) (hq : q a = true) (hp : p a = false) :
    (l.filter p).length < (l.filter q).length := by
  induction l with
  | nil => simp at ha
  | cons b rest ih =>
    simp only [List.filter_cons]
    rcases List.mem_cons.mp ha with rfl | ha
    · simp only [hp, hq, Bool.false_eq_true, ↓reduceIte, List.length_cons]
      have := filter_length_mono rest p q h
      omega
    · have := ih ha
      by_cases hpb : p b = true
      · simp only [hpb, h b hpb, ↓reduceIte, List.length_cons]; omega
      · simp only [hpb, Bool.false_eq_true, ↓reduceIte]
        split
        · simp only [List.length_cons]; omega
        · exact this

/-- number of object ids not in `s` -/
def keysLeft (g : Graph) (s : Set) : Nat := (g.objects.keys.filter (fun k => !s.contains k)).length

theorem keysLeft_mono (g : Graph) (s t : Set) (h : ∀ x, x ∈ s → x ∈ t) : keysLeft g t ≤ keysLeft g s := by
  unfold keysLeft
  apply filter_length_mono
  intro k hk
  simp only [Bool.not_eq_eq_eq_not, Bool.not_true] at hk ⊢
  cases hs : s.contains k with
  | false => rfl
  | true =>
    have := (Set.contains_iff t k).mpr (h k ((Set.contains_iff s k).mp hs))
    rw [this] at hk; simp at hk

theorem Map.find?_some_mem_keys {α : Type} (m : Map α) (k : Nat) (v : α) (h : m.find? k = some v) : k ∈ m.keys := by
  have := Map.find?_mem m k v h
  unfold Map.keys
  exact List.mem_map.mpr ⟨(k, v), this, rfl⟩

theorem keysLeft_insert (g : Graph) (s : Set) (idx : Nat) (hk : idx ∈ g.objects.keys) (hs : idx ∉ s) :
    keysLeft g (s.insert idx) < keysLeft g s := by
  unfold keysLeft
  apply filter_length_strict _ _ _ ?_ idx hk
  · simp only [Bool.not_eq_eq_eq_not, Bool.not_true]
    cases h : s.contains idx with
    | false => rfl
    | true => exact absurd ((Set.contains_iff s idx).mp h) hs
  · simp only [Bool.not_eq_eq_eq_not, Bool.not_false]
    exact (Set.contains_iff _ _).mpr (Set.mem_insert_self s idx)
  · intro k hk
    simp only [Bool.not_eq_eq_eq_not, Bool.not_true] at hk ⊢
    cases hs' : s.contains k with
    | false => rfl
    | true =>
      have := (Set.contains_iff _ k).mpr (Set.mem_insert_of_mem s idx k ((Set.contains_iff s k).mp hs'))
      rw [this] at hk; simp at hk

/-! ### find_subgraph_hb is closed under links -/

def ClosedAt (g : Graph) (s : Set) (x : Nat) : Prop := ∀ l ∈ (g.obj x).links, l.target ∈ s

def DfsSpec (g : Graph) (fuel : Nat) : Prop :=
  ∀ (idx : Nat) (s : Set), keysLeft g s < fuel →
    (∀ x, x ∈ s → x ∈ findSubgraph g fuel idx s) ∧ idx ∈ findSubgraph g fuel idx s ∧
    (∀ x, x ∈ findSubgraph g fuel idx s → x ∈ s ∨ ClosedAt g (findSubgraph g fuel idx s) x)

theorem dfsFold_spec (g : Graph) (fuel : Nat) (ih : DfsSpec g fuel) (links : List Link) (t : Set)
    (hk : keysLeft g t < fuel) :
    (∀ x, x ∈ t → x ∈ links.foldl (fun s l => findSubgraph g fuel l.target s) t) ∧
    (∀ l ∈ links, l.target ∈ links.foldl (fun s l => findSubgraph g fuel l.target s) t) ∧
    (∀ x, x ∈ links.foldl (fun s l => findSubgraph g fuel l.target s) t →
      x ∈ t ∨ ClosedAt g (links.foldl (fun s l => findSubgraph g fuel l.target s) t) x) := by
  induction links generalizing t with
  | nil => exact ⟨fun x h => h, by simp, fun x h => Or.inl h⟩
  | cons l rest ihl =>
    simp only [List.foldl_cons]
    obtain ⟨a1, a2, a3⟩ := ih l.target t hk
    have hk1 : keysLeft g (findSubgraph g fuel l.target t) < fuel :=
      Nat.lt_of_le_of_lt (keysLeft_mono g _ _ a1) hk
    obtain ⟨b1, b2, b3⟩ := ihl (findSubgraph g fuel l.target t) hk1
    refine ⟨fun x hx => b1 x (a1 x hx), ?_, ?_⟩
    · intro l' hl'
      rcases List.mem_cons.mp hl' with rfl | hl'
      · exact b1 _ a2
      · exact b2 l' hl'
    · intro x hx
      rcases b3 x hx with h | h
      · rcases a3 x h with h' | h'
        · left; exact h'
        · right; intro l' hl'; exact b1 _ (h' l' hl')
      · right; exact h

theorem dfs_spec (g : Graph) (fuel : Nat) : DfsSpec g fuel := by
  induction fuel with
  | zero => intro idx s h; omega
  | succ n ih =>
    intro idx s hk
    unfold findSubgraph
    split
    · rename_i hc
      exact ⟨fun x h => h, (Set.contains_iff s idx).mp hc, fun x h => Or.inl h⟩
    · rename_i hc
      have hidx : idx ∉ s := fun hm => hc ((Set.contains_iff s idx).mpr hm)
      by_cases hlinks : (g.linksOf idx) = []
      · rw [hlinks]
        simp only [List.foldl_nil]
        refine ⟨fun x h => Set.mem_insert_of_mem s idx x h, Set.mem_insert_self s idx, ?_⟩
        intro x hx
        rcases Set.mem_insert s idx x hx with h | h
        · right
          intro l hl
          rw [h] at hl
          unfold Graph.linksOf at hlinks
          rw [hlinks] at hl
          simp at hl
        · left; exact h
      · have hkey : idx ∈ g.objects.keys := by
          unfold Graph.linksOf Graph.obj at hlinks
          cases hf : g.objects.find? idx with
          | none => rw [hf] at hlinks; exact absurd rfl hlinks
          | some o => exact Map.find?_some_mem_keys _ _ _ hf
        have hk1 : keysLeft g (s.insert idx) < n := by
          have := keysLeft_insert g s idx hkey hidx
          omega
        obtain ⟨b1, b2, b3⟩ := dfsFold_spec g n ih (g.linksOf idx) (s.insert idx) hk1
        refine ⟨fun x h => b1 x (Set.mem_insert_of_mem s idx x h), b1 _ (Set.mem_insert_self s idx), ?_⟩
        intro x hx
        rcases b3 x hx with h | h
        · rcases Set.mem_insert s idx x h with h' | h'
          · right; rw [h']; exact b2
          · left; exact h'
        · right; exact h

theorem visited_closed (g : Graph) :
    g.root ∈ findSubgraph g (depthFuel g) g.root [] ∧
    ∀ x, x ∈ findSubgraph g (depthFuel g) g.root [] → ClosedAt g (findSubgraph g (depthFuel g) g.root []) x := by
  have hk : keysLeft g [] < depthFuel g := by
    unfold keysLeft depthFuel Map.keys
    have := List.length_filter_le (fun k => !Set.contains [] k) (g.objects.map (·.1))
    simp only [List.length_map] at this
    omega
  obtain ⟨_, a2, a3⟩ := dfs_spec g (depthFuel g) g.root [] hk
  refine ⟨a2, fun x hx => ?_⟩
  rcases a3 x hx with h | h
  · simp at h
  · exact h

/-! ### remove_orphans -/

theorem Map.exists_absent {α : Type} (m : Map α) : ∃ n, ∀ k, n ≤ k → m.find? k = none := by
  induction m with
  | nil => exact ⟨0, fun k _ => rfl⟩
  | cons kv rest ih =>
    obtain ⟨k0, v0⟩ := kv
    obtain ⟨n, hn⟩ := ih
    refine ⟨max n (k0 + 1), ?_⟩
    intro k hk
    simp only [Map.find?]
    have h1 : ¬ k0 = k := by omega
    simp only [h1, ↓reduceIte]
    exact hn k (by omega)

theorem pinv_removeOrphans (g0 g : Graph) (fr : List Nat) (hp : PInv g0 g fr) : PInv g0 (removeOrphans g) fr := by
  unfold removeOrphans
  simp only []
  split
  · obtain ⟨φ, hinv, h1, h2⟩ := hp
    obtain ⟨hrootv, hclosed⟩ := visited_closed g
    generalize hv : findSubgraph g (depthFuel g) g.root [] = visited at hrootv hclosed
    obtain ⟨dead, hdead⟩ := Map.exists_absent g0.objects
    have hdead' : g0.obj dead = default := by
      unfold Graph.obj; rw [hdead dead (Nat.le_refl _)]; rfl
    have hobj : ∀ x, ({ g with nodes := g.nodes.filter (fun kv => visited.contains kv.1),
                                objects := g.objects.filter (fun kv => visited.contains kv.1),
                                parentsInvalid := true } : Graph).obj x
        = if visited.contains x then g.obj x else default := by
      intro x
      simp only [Graph.obj]
      rw [Map.find?_filter g.objects (fun k => visited.contains k) x]
      split <;> rfl
    have hnode : ∀ x, ({ g with nodes := g.nodes.filter (fun kv => visited.contains kv.1),
                                objects := g.objects.filter (fun kv => visited.contains kv.1),
                                parentsInvalid := true } : Graph).node x
        = if visited.contains x then g.node x else default := by
      intro x
      simp only [Graph.node]
      rw [Map.find?_filter g.nodes (fun k => visited.contains k) x]
      split <;> rfl
    refine ⟨fun x => if visited.contains x then φ x else dead, ⟨?_, hinv.nodup, ?_, ?_⟩, ?_, h2⟩
    · intro x
      simp only []
      rw [hobj x]
      by_cases hx : visited.contains x = true
      · simp only [hx, ↓reduceIte]
        obtain ⟨sb, sl⟩ := hinv.sim x
        refine ⟨sb, ?_⟩
        rw [← sl]
        apply map_shape_congr
        intro l hl
        have := (Set.contains_iff visited l.target).mpr (hclosed x ((Set.contains_iff visited x).mp hx) l hl)
        simp only [this, ↓reduceIte]
      · simp only [hx, Bool.false_eq_true, ↓reduceIte]
        rw [hdead']
        exact ⟨rfl, rfl⟩
    · intro n hn
      obtain ⟨u1, u2, u3⟩ := hinv.unused n hn
      refine ⟨?_, ?_, ?_⟩
      · simp only [] at u1 ⊢
        rw [Map.find?_filter g.objects (fun k => visited.contains k) n, u1]
        split <;> rfl
      · intro x l hl
        simp only [] at hl
        rw [hobj x] at hl
        split at hl
        · exact u2 x l hl
        · rw [default_obj_links] at hl; simp at hl
      · intro x p hpm
        simp only [] at hpm
        rw [hnode x] at hpm
        split at hpm
        · exact u3 x p hpm
        · rw [default_node_parents] at hpm; simp at hpm
    · intro k v hkv; simp [Map.find?] at hkv
    · simp only []
      rw [(Set.contains_iff visited g.root).mpr hrootv]
      simp only [↓reduceIte]
      exact h1
  · exact hp

/-! ### find_overflows reports parents that are objects -/

theorem ovfStep_inner_P (g : Graph) (P : Nat → Prop) (parent : Nat) (hp : P parent) (links : List Link)
    (acc : Option (List Overflow)) (r : List Overflow)
    (hacc : ∀ a, acc = some a → ∀ ov ∈ a, P ov.1)
    (h : links.foldl (ovfStep g parent) acc = some r) : ∀ ov ∈ r, P ov.1 := by
  induction links generalizing acc with
  | nil => simp only [List.foldl_nil] at h; exact hacc r h
  | cons l rest ih =>
    simp only [List.foldl_cons] at h
    apply ih _ ?_ h
    intro a ha
    cases acc with
    | none => simp [ovfStep] at ha
    | some a0 =>
      simp only [ovfStep] at ha
      split at ha
      · simp at ha
      · split at ha
        · simp only [Option.some.injEq] at ha; subst ha
          intro ov hov
          rcases List.mem_append.mp hov with h1 | h1
          · exact hacc a0 rfl ov h1
          · simp only [List.mem_singleton] at h1; rw [h1]; exact hp
        · simp only [Option.some.injEq] at ha; subst ha
          exact hacc a0 rfl

theorem ovfStep_outer_P (g : Graph) (P : Nat → Prop) (objs : List (Nat × Obj)) (hobjs : ∀ kv ∈ objs, P kv.1)
    (acc : Option (List Overflow)) (r : List Overflow)
    (hacc : ∀ a, acc = some a → ∀ ov ∈ a, P ov.1)
    (h : objs.foldl (fun acc kv => kv.2.links.foldl (ovfStep g kv.1) acc) acc = some r) : ∀ ov ∈ r, P ov.1 := by
  induction objs generalizing acc with
  | nil => simp only [List.foldl_nil] at h; exact hacc r h
  | cons kv rest ih =>
    simp only [List.foldl_cons] at h
    apply ih (fun kv' hkv' => hobjs kv' (List.mem_cons_of_mem _ hkv')) _ ?_ h
    intro a ha
    exact ovfStep_inner_P g P kv.1 (hobjs kv List.mem_cons_self) kv.2.links acc a hacc ha

theorem findOverflows_parents (g : Graph) (ovs : List Overflow) (h : findOverflows g = some ovs) :
    ∀ ov ∈ ovs, g.objects.find? ov.1 ≠ none := by
  rw [findOverflows_eq] at h
  exact ovfStep_outer_P g (fun k => g.objects.find? k ≠ none) g.objects
    (fun kv hkv => Map.mem_find?_isSome g.objects kv hkv) (some []) ovs (by simp) h

theorem pinv_keys_notFresh (g0 g : Graph) (fr : List Nat) (hp : PInv g0 g fr) (k : Nat)
    (hk : g.objects.find? k ≠ none) : k ∉ fr := by
  obtain ⟨φ, hinv, _, _⟩ := hp
  intro hm
  exact hk (hinv.unused k (by simpa using hm)).1

/-! ### pack_objects -/

theorem pinv_packLoop (g0 : Graph) (fuel : Nat) (g : Graph) (fr : List Nat) (ok : Bool) (g' : Graph) (fr' : List Nat)
    (hp : PInv g0 g fr) (h : packLoop fuel g fr = some (ok, g', fr')) : PInv g0 g' fr' := by
  induction fuel generalizing g fr with
  | zero => simp [packLoop] at h
  | succ n ih =>
    unfold packLoop at h
    simp only [Option.bind_eq_bind, Option.bind_eq_some_iff] at h
    obtain ⟨ovs, hov, h⟩ := h
    by_cases he : ovs.isEmpty
    · simp only [he, ↓reduceIte, Option.some.injEq, Prod.mk.injEq] at h
      obtain ⟨_, rfl, rfl⟩ := h
      exact hp
    · simp only [he, Bool.false_eq_true, ↓reduceIte, Option.bind_eq_some_iff] at h
      obtain ⟨⟨ch, g1, fr1⟩, hiso, h⟩ := h
      have hovs : ∀ ov ∈ ovs, ov.1 ∉ fr :=
        fun ov hovm => pinv_keys_notFresh g0 g fr hp ov.1 (findOverflows_parents g ovs hov ov hovm)
      obtain ⟨hp1, hsuf1⟩ := pinv_tryIsolating g0 g ovs fr ch g1 fr1 hp hovs hiso
      cases ch with
      | false =>
        simp only [Bool.not_false, ↓reduceIte, Option.some.injEq, Prod.mk.injEq] at h
        obtain ⟨_, rfl, rfl⟩ := h
        exact hp1
      | true =>
        bsimp at h
        obtain ⟨g2, hs, h⟩ := h
        exact ih g2 fr1 (pinv_sortShortest g0 _ g2 fr1 hs (pinv_removeOrphans g0 g1 fr1 hp1)) h

theorem pinv_packTail (g0 g : Graph) (fr : List Nat) (ok : Bool) (g' : Graph) (fr' : List Nat)
    (hp : PInv g0 g fr) (h : packTail g fr = some (ok, g', fr')) : PInv g0 g' fr' := by
  unfold packTail at h
  simp only [Option.bind_eq_bind, Option.bind_eq_some_iff] at h
  obtain ⟨⟨b, g2, fr2⟩, ha, g3, hs, ov, hov, h⟩ := h
  obtain ⟨hp2, _⟩ := pinv_assignSpaces g0 g fr b g2 fr2 hp ha
  have hp3 := pinv_sortShortest g0 _ g3 fr2 hs (pinv_removeOrphans g0 g2 fr2 hp2)
  cases ov with
  | false =>
    simp only [Bool.not_false, ↓reduceIte, Option.some.injEq, Prod.mk.injEq] at h
    obtain ⟨_, rfl, rfl⟩ := h
    exact hp3
  | true =>
    simp only [Bool.not_true, Bool.false_eq_true, ↓reduceIte] at h
    exact pinv_packLoop g0 _ g3 fr2 ok g' fr' hp3 h

theorem pinv_packObjects (g0 g : Graph) (fr : List Nat) (ok : Bool) (g' : Graph) (fr' : List Nat)
    (hp : PInv g0 g fr) (h : packObjects g fr = some (ok, g', fr')) : PInv g0 g' fr' := by
  unfold packObjects at h
  simp only [Option.bind_eq_bind, Option.bind_eq_some_iff] at h
  obtain ⟨⟨ok1, g1⟩, hb, h⟩ := h
  have hp1 := pinv_basicSort g0 g g1 fr ok1 hb hp
  cases ok1 with
  | true =>
    simp only [↓reduceIte, Option.some.injEq, Prod.mk.injEq] at h
    obtain ⟨_, rfl, rfl⟩ := h
    exact hp1
  | false =>
    simp only [Bool.false_eq_true, ↓reduceIte] at h
    exact pinv_packTail g0 g1 fr ok g' fr' hp1 h

/-- ids that may be handed out by `ObjectId::next()` while packing `g`: distinct, and not in use as
an object id, a link target, a cached parent or the root of `g` -/
def FreshFor (g : Graph) (fresh : List Nat) : Prop :=
  fresh.Nodup ∧ g.root ∉ fresh ∧ ∀ n ∈ fresh, Unused g n

theorem pinv_init (g : Graph) (fresh : List Nat) (h : FreshFor g fresh) : PInv g g fresh := by
  refine ⟨id, ⟨?_, by simpa using h.1, fun n hn => h.2.2 n (by simpa using hn), ?_⟩, rfl, h.2.1⟩
  · intro x
    exact ⟨rfl, rfl⟩
  · intro k v hkv; simp [Map.find?] at hkv

/-- `pack_objects` leaves a graph that simulates its input -/
theorem packObjects_simulates (g : Graph) (fresh : List Nat) (ok : Bool) (g' : Graph) (fresh' : List Nat)
    (hf : FreshFor g fresh) (h : packObjects g fresh = some (ok, g', fresh')) :
    ∃ φ, Simulates g' g φ ∧ φ g'.root = g.root := by
  obtain ⟨φ, hinv, h1, _⟩ := pinv_packObjects g g fresh ok g' fresh' (pinv_init g fresh hf) h
  exact ⟨φ, hinv.sim, h1⟩

theorem Map.find?_mapVal2 {α β : Type} (m : Map α) (f : α → β) (y : Nat) :
    Map.find? (m.map (fun kv => (kv.1, f kv.2))) y = (m.find? y).map f := by
  induction m with
  | nil => simp [Map.find?]
  | cons kv rest ih =>
    obtain ⟨k, v⟩ := kv
    simp only [List.map_cons, Map.find?]
    split <;> simp [ih]

/-- for a graph straight out of `from_objects` the cached parents are empty: fresh ids only have to
avoid the object ids and the link targets -/
theorem freshFor_fromObjects (objs : Map Obj) (root : Nat) (fresh : List Nat) (hnd : fresh.Nodup)
    (hroot : root ∉ fresh) (hk : ∀ kv ∈ objs, kv.1 ∉ fresh ∧ ∀ l ∈ kv.2.links, l.target ∉ fresh) :
    FreshFor (Graph.fromObjects objs root) fresh := by
  refine ⟨hnd, hroot, ?_⟩
  intro n hn
  refine ⟨?_, ?_, ?_⟩
  · cases hf : (Graph.fromObjects objs root).objects.find? n with
    | none => rfl
    | some o => exact absurd hn (hk (n, o) (Map.find?_mem objs n o hf)).1
  · intro x l hl he
    unfold Graph.obj at hl
    cases hf : (Graph.fromObjects objs root).objects.find? x with
    | none => rw [hf] at hl; simp only [Option.getD_none, default_obj_links] at hl; simp at hl
    | some o =>
      rw [hf] at hl
      exact (hk (x, o) (Map.find?_mem objs x o hf)).2 l hl (he ▸ hn)
  · intro x p hp
    rw [node_parents_eq] at hp
    unfold parentsOf Graph.fromObjects at hp
    simp only [] at hp
    rw [Map.find?_mapVal2 objs (fun o => Node.new o.size)] at hp
    cases hx : objs.find? x with
    | none => rw [hx] at hp; exact absurd hp List.not_mem_nil
    | some o => rw [hx] at hp; exact absurd hp List.not_mem_nil

end FontVerif.Graph
