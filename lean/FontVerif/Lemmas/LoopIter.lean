/-
Lemmas/LoopIter.lean — the generic termination argument for "cyclic scan" loops (Model/LoopIter.lean):

a loop whose body, whenever it does not `break`, has advanced `last` by one position cyclically in `0..n` and has
found `last ≠ segFirst` (i.e. the body ends in — or passes through, before every `continue` — the test
`if last == segFirst { break }`), with `segFirst` and `n` unchanged, exits within `n` executions of its body: the
measure is the number of cyclic advances `last` needs to arrive at `segFirst` (`dist`, between 1 and n).
-/
import FontVerif.Model.LoopIter
import FontVerif.Model.FindLastContour
namespace FontVerif.LoopIterLemmas
open FontVerif.LoopIter

/-- number of cyclic advances (at least one) that take `last` to `segFirst`: in `1..=n` -/
def dist (s : St) : Nat := if s.last < s.segFirst then s.segFirst - s.last else s.segFirst + s.n - s.last

theorem dist_pos (s : St) (hl : s.last < s.n) : 1 ≤ dist s := by
  unfold dist; split <;> omega

theorem dist_le (s : St) (hf : s.segFirst < s.n) : dist s ≤ s.n := by
  unfold dist; split <;> omega

/-- the cyclic successor of `last` in `0..n`, as the Rust writes it:
`if last < best_contour.len() - 1 { last += 1 } else { last = 0 }` -/
def next (s : St) : Nat := if s.last < s.n - 1 then s.last + 1 else 0

/-- The contract of one body execution of a cyclic scan loop over contours of `N` points, each body execution
costing at most `c` ticks: from a state with both indices in range, the body either breaks (in range, `n`
unchanged) or continues with `last` advanced cyclically, `last ≠ segFirst`, `segFirst` and `n` unchanged.
In particular it never reports `.stuck`. -/
def Advances (N c : Nat) (step : St → Out) : Prop :=
  ∀ s : St, s.n = N → s.last < s.n → s.segFirst < s.n →
    (∃ s', step s = .brk s' ∧ s'.n = s.n ∧ s'.last < s.n ∧ s.tick < s'.tick ∧ s'.tick ≤ s.tick + c) ∨
    (∃ s', step s = .cont s' ∧ s'.n = s.n ∧ s'.segFirst = s.segFirst ∧ s'.last = next s ∧
        s'.last ≠ s.segFirst ∧ s.tick < s'.tick ∧ s'.tick ≤ s.tick + c)

/-- one `continue` decreases the measure by exactly one and keeps the invariant -/
theorem dist_cont (s s' : St) (hl : s.last < s.n) (hf : s.segFirst < s.n) (hn : s'.n = s.n)
    (hsf : s'.segFirst = s.segFirst) (hnext : s'.last = next s) (hne : s'.last ≠ s.segFirst) :
    s'.last < s'.n ∧ dist s = dist s' + 1 := by
  unfold next at hnext
  unfold dist
  rw [hn, hsf]
  split at hnext <;> (constructor; omega; (split <;> split <;> omega))

/-- **Generic termination with cost.**  A cyclic scan loop exits within `dist s ≤ n` body executions — for any fuel
that is at least that — and spends at most `dist s * c` ticks. -/
theorem iter_advances (N c : Nat) (step : St → Out) (hstep : Advances N c step) :
    ∀ (fuel : Nat) (s : St), s.n = N → s.last < s.n → s.segFirst < s.n → dist s ≤ fuel →
      ∃ s', iter step fuel s = some s' ∧ s'.n = s.n ∧ s'.last < s.n ∧ s.tick < s'.tick ∧
        s'.tick ≤ s.tick + dist s * c := by
  intro fuel
  induction fuel with
  | zero =>
    intro s _ hl _ hd
    have := dist_pos s hl
    omega
  | succ f ih =>
    intro s hN hl hf hd
    have hpos := dist_pos s hl
    rcases hstep s hN hl hf with ⟨s', hs, hn, hl', ht0, ht⟩ | ⟨s', hs, hn, hsf, hnext, hne, ht0, ht⟩
    · refine ⟨s', by simp [iter, hs], hn, hl', ht0, ?_⟩
      have : c ≤ dist s * c := Nat.le_mul_of_pos_left c hpos
      omega
    · have ⟨hl', hdd⟩ := dist_cont s s' hl hf hn hsf hnext hne
      obtain ⟨s'', hit, hn'', hl'', ht0'', ht''⟩ :=
        ih s' (by omega) hl' (by omega) (by omega)
      refine ⟨s'', by simp [iter, hs, hit], by omega, by omega, by omega, ?_⟩
      rw [hdd, Nat.succ_mul]
      omega

/-- the form asked for: with fuel `n + 1` the loop never runs out of fuel (and never gets stuck) -/
theorem iter_ne_none (N c : Nat) (step : St → Out) (hstep : Advances N c step) (s : St)
    (hN : s.n = N) (hl : s.last < s.n) (hf : s.segFirst < s.n) : iter step (s.n + 1) s ≠ none := by
  have hd := dist_le s hf
  obtain ⟨s', h, _⟩ := iter_advances N c step hstep (s.n + 1) s hN hl hf (by omega)
  simp [h]

/-- the same two facts with the fuel as a separate variable, in the shape in which a generated step function uses a
nested loop (`match iter step (n + 1) st with | none => .stuck | some r => …`): the `none` arm is dead … -/
theorem iter_none_absurd (c : Nat) (step : St → Out) (hstep : ∀ N, Advances N c step) (st : St) (fuel : Nat)
    (hi : iter step fuel st = none) (hfu : fuel = st.n + 1) (hl : st.last < st.n) (hf : st.segFirst < st.n) :
    False := by
  subst hfu
  exact iter_ne_none st.n c step (hstep st.n) st rfl hl hf hi

/-- … and in the `some` arm the nested loop has kept `n`, left `last` in range and spent between 1 and `n * c`
ticks -/
theorem iter_some_result (c : Nat) (step : St → Out) (hstep : ∀ N, Advances N c step) (st r : St) (fuel : Nat)
    (hi : iter step fuel st = some r) (hfu : fuel = st.n + 1) (hl : st.last < st.n) (hf : st.segFirst < st.n) :
    r.n = st.n ∧ r.last < st.n ∧ st.tick < r.tick ∧ r.tick ≤ st.tick + st.n * c := by
  subst hfu
  have hd := dist_le st hf
  obtain ⟨s', h1, h2, h3, h4, h5⟩ := iter_advances st.n c step (hstep st.n) (st.n + 1) st rfl hl hf (by omega)
  rw [h1] at hi
  cases hi
  have : dist st * c ≤ st.n * c := Nat.mul_le_mul_right c hd
  exact ⟨h2, h3, h4, by omega⟩

/-! ### Variants for the other autohinter loops (Gen/AutohintLoops.lean) -/

theorem cnext_spec (n i : Nat) : (i + 1 < n ∧ cnext n i = i + 1) ∨ (n ≤ i + 1 ∧ cnext n i = 0) := by
  unfold cnext; split <;> omega

theorem cprev_spec (n i : Nat) : (0 < i ∧ cprev n i = i - 1) ∨ (i = 0 ∧ cprev n i = n - 1) := by
  unfold cprev; split <;> omega

theorem cnext_lt (n i : Nat) (h : 0 < n) : cnext n i < n := by
  have := cnext_spec n i; omega

theorem cprev_lt (n i : Nat) (hi : i < n) : cprev n i < n := by
  have := cprev_spec n i; omega

/-- **Generic fuelled termination by a measure**: if under an invariant every body execution breaks or continues
into a state with the invariant and a strictly smaller measure, the loop exits within `μ s + 1` body executions. -/
theorem iter_measure (step : St → Out) (Inv : St → Prop) (μ : St → Nat) (c : Nat)
    (hstep : ∀ s, Inv s →
      (∃ s', step s = .brk s' ∧ s'.n = s.n ∧ s.tick < s'.tick ∧ s'.tick ≤ s.tick + c) ∨
      (∃ s', step s = .cont s' ∧ Inv s' ∧ s'.n = s.n ∧ μ s' < μ s ∧ s.tick < s'.tick ∧ s'.tick ≤ s.tick + c)) :
    ∀ (fuel : Nat) (s : St), Inv s → μ s < fuel →
      ∃ s', iter step fuel s = some s' ∧ s'.n = s.n ∧ s.tick < s'.tick ∧ s'.tick ≤ s.tick + (μ s + 1) * c := by
  intro fuel
  induction fuel with
  | zero => intro s _ hd; omega
  | succ f ih =>
    intro s hI hd
    rcases hstep s hI with ⟨s', hs, hn, ht0, ht⟩ | ⟨s', hs, hI', hn, hμ, ht0, ht⟩
    · refine ⟨s', by simp [iter, hs], hn, ht0, ?_⟩
      have : c ≤ (μ s + 1) * c := Nat.le_mul_of_pos_left c (by omega)
      omega
    · obtain ⟨s'', hit, hn'', ht0'', ht''⟩ := ih s' hI' (by omega)
      refine ⟨s'', by simp [iter, hs, hit], by omega, by omega, ?_⟩
      have h1 : (μ s' + 1 + 1) * c ≤ (μ s + 1) * c := Nat.mul_le_mul_right c (by omega)
      rw [Nat.succ_mul] at h1
      omega

/-- forward distance, 0 when equal: in `0..n` -/
def dist0 (s : St) : Nat := if s.last ≤ s.segFirst then s.segFirst - s.last else s.segFirst + s.n - s.last

/-- backward distance (number of cyclic retreats, at least one, that take `last` to `segFirst`): in `1..=n` -/
def distB (s : St) : Nat := if s.segFirst < s.last then s.last - s.segFirst else s.last + s.n - s.segFirst

/-- Contract of a TEST-FIRST forward scan (`while last != target { …; last = next(last) }`, or
`loop { …; if last == target { break }; last = next(last) }`): the body continues only from `last ≠ segFirst`, and
then with `last` advanced cyclically. -/
def AdvancesPre (N c : Nat) (step : St → Out) : Prop :=
  ∀ s : St, s.n = N → s.last < s.n → s.segFirst < s.n →
    (∃ s', step s = .brk s' ∧ s'.n = s.n ∧ s.tick < s'.tick ∧ s'.tick ≤ s.tick + c) ∨
    (∃ s', step s = .cont s' ∧ s.last ≠ s.segFirst ∧ s'.n = s.n ∧ s'.segFirst = s.segFirst ∧
        s'.last = cnext s.n s.last ∧ s.tick < s'.tick ∧ s'.tick ≤ s.tick + c)

/-- Contract of a test-after-advance BACKWARD scan (`loop { last = prev(last); …; if last == target { break } }`). -/
def Retreats (N c : Nat) (step : St → Out) : Prop :=
  ∀ s : St, s.n = N → s.last < s.n → s.segFirst < s.n →
    (∃ s', step s = .brk s' ∧ s'.n = s.n ∧ s.tick < s'.tick ∧ s'.tick ≤ s.tick + c) ∨
    (∃ s', step s = .cont s' ∧ s'.n = s.n ∧ s'.segFirst = s.segFirst ∧ s'.last = cprev s.n s.last ∧
        s'.last ≠ s.segFirst ∧ s.tick < s'.tick ∧ s'.tick ≤ s.tick + c)

private def InvN (N : Nat) (s : St) : Prop := s.n = N ∧ s.last < s.n ∧ s.segFirst < s.n

/-- a test-first forward scan exits within `n` body executions, `n * c` ticks -/
theorem iter_advances_pre (N c : Nat) (step : St → Out) (hstep : AdvancesPre N c step) (s : St)
    (hN : s.n = N) (hl : s.last < s.n) (hf : s.segFirst < s.n) :
    ∃ s', iter step (s.n + 1) s = some s' ∧ s'.n = s.n ∧ s.tick < s'.tick ∧ s'.tick ≤ s.tick + s.n * c := by
  have key := iter_measure step (InvN N) dist0 c (by
    intro s ⟨hN, hl, hf⟩
    rcases hstep s hN hl hf with ⟨s', hs, h⟩ | ⟨s', hs, hne, hn, hsf, hnx, ht⟩
    · exact .inl ⟨s', hs, h⟩
    · have := cnext_spec s.n s.last
      refine .inr ⟨s', hs, ⟨by omega, by omega, by omega⟩, hn, ?_, ht⟩
      unfold dist0; rw [hn, hsf]; split <;> split <;> omega) (s.n + 1) s ⟨hN, hl, hf⟩
    (by unfold dist0; split <;> omega)
  obtain ⟨s', h1, h2, h3, h4⟩ := key
  have : (dist0 s + 1) * c ≤ s.n * c := Nat.mul_le_mul_right c (by unfold dist0; split <;> omega)
  exact ⟨s', h1, h2, h3, by omega⟩

/-- a backward scan exits within `n` body executions, `n * c` ticks -/
theorem iter_retreats (N c : Nat) (step : St → Out) (hstep : Retreats N c step) (s : St)
    (hN : s.n = N) (hl : s.last < s.n) (hf : s.segFirst < s.n) :
    ∃ s', iter step (s.n + 1) s = some s' ∧ s'.n = s.n ∧ s.tick < s'.tick ∧ s'.tick ≤ s.tick + s.n * c := by
  have key := iter_measure step (InvN N) (fun s => distB s - 1) c (by
    intro s ⟨hN, hl, hf⟩
    rcases hstep s hN hl hf with ⟨s', hs, h⟩ | ⟨s', hs, hn, hsf, hpv, hne, ht⟩
    · exact .inl ⟨s', hs, h⟩
    · have := cprev_spec s.n s.last
      refine .inr ⟨s', hs, ⟨by omega, by omega, by omega⟩, hn, ?_, ht⟩
      show distB s' - 1 < distB s - 1
      unfold distB; rw [hn, hsf]; split <;> split <;> omega) (s.n + 1) s ⟨hN, hl, hf⟩
    (by show distB s - 1 < s.n + 1; unfold distB; split <;> omega)
  obtain ⟨s', h1, h2, h3, h4⟩ := key
  have : (distB s - 1 + 1) * c ≤ s.n * c := Nat.mul_le_mul_right c (by unfold distB; split <;> omega)
  exact ⟨s', h1, h2, h3, by omega⟩

/-- a nested test-first scan inside a generated step function: the `none` arm is dead … -/
theorem iter_pre_none_absurd (c : Nat) (step : St → Out) (hstep : ∀ N, AdvancesPre N c step) (st : St) (fuel : Nat)
    (hi : iter step fuel st = none) (hfu : fuel = st.n + 1) (hl : st.last < st.n) (hf : st.segFirst < st.n) :
    False := by
  subst hfu
  obtain ⟨s', h, _⟩ := iter_advances_pre st.n c step (hstep st.n) st rfl hl hf
  rw [h] at hi; cases hi

/-- … and the `some` arm has kept `n` and spent between 1 and `n * c` ticks -/
theorem iter_pre_some_result (c : Nat) (step : St → Out) (hstep : ∀ N, AdvancesPre N c step) (st r : St) (fuel : Nat)
    (hi : iter step fuel st = some r) (hfu : fuel = st.n + 1) (hl : st.last < st.n) (hf : st.segFirst < st.n) :
    r.n = st.n ∧ st.tick < r.tick ∧ r.tick ≤ st.tick + st.n * c := by
  subst hfu
  obtain ⟨s', h, h2⟩ := iter_advances_pre st.n c step (hstep st.n) st rfl hl hf
  rw [h] at hi; cases hi
  exact h2

/-! ### Generic iterator -/

/-- **Termination of `iterG` by a measure**, with a transitive relation `R` between the entry state and the state at
the exit, and postconditions for the two kinds of exit. -/
theorem iterG_measure {σ : Type} (step : σ → OutG σ) (Inv : σ → Prop) (μ : σ → Nat) (R : σ → σ → Prop)
    (Qb Qe : σ → Prop) (htrans : ∀ a b c, R a b → R b c → R a c)
    (hstep : ∀ s, Inv s →
      (∃ s', step s = .brk s' ∧ R s s' ∧ Qb s') ∨ (∃ s', step s = .exit s' ∧ R s s' ∧ Qe s') ∨
      (∃ s', step s = .cont s' ∧ Inv s' ∧ R s s' ∧ μ s' < μ s)) :
    ∀ (fuel : Nat) (s : σ), Inv s → μ s < fuel →
      ∃ e s', iterG step fuel s = some (e, s') ∧ R s s' ∧ (if e then Qe s' else Qb s') := by
  intro fuel
  induction fuel with
  | zero => intro s _ hd; omega
  | succ f ih =>
    intro s hI hd
    rcases hstep s hI with ⟨s', hs, hr, hq⟩ | ⟨s', hs, hr, hq⟩ | ⟨s', hs, hI', hr, hμ⟩
    · exact ⟨false, s', by simp [iterG, hs], hr, by simpa using hq⟩
    · exact ⟨true, s', by simp [iterG, hs], hr, by simpa using hq⟩
    · obtain ⟨e, s'', hit, hr', hq⟩ := ih s' hI' (by omega)
      exact ⟨e, s'', by simp [iterG, hs, hit], htrans _ _ _ hr hr', hq⟩

/-- backward distance, 0 when equal: in `0..n` -/
def distB0 (s : St) : Nat := if s.segFirst ≤ s.last then s.last - s.segFirst else s.last + s.n - s.segFirst

/-- Contract of a TEST-FIRST backward scan (`while last != target { …; last = prev(last) }`) -/
def RetreatsPre (N c : Nat) (step : St → Out) : Prop :=
  ∀ s : St, s.n = N → s.last < s.n → s.segFirst < s.n →
    (∃ s', step s = .brk s' ∧ s'.n = s.n ∧ s.tick < s'.tick ∧ s'.tick ≤ s.tick + c) ∨
    (∃ s', step s = .cont s' ∧ s.last ≠ s.segFirst ∧ s'.n = s.n ∧ s'.segFirst = s.segFirst ∧
        s'.last = cprev s.n s.last ∧ s.tick < s'.tick ∧ s'.tick ≤ s.tick + c)

/-- a test-first backward scan exits within `n` body executions, `n * c` ticks -/
theorem iter_retreats_pre (N c : Nat) (step : St → Out) (hstep : RetreatsPre N c step) (s : St)
    (hN : s.n = N) (hl : s.last < s.n) (hf : s.segFirst < s.n) :
    ∃ s', iter step (s.n + 1) s = some s' ∧ s'.n = s.n ∧ s.tick < s'.tick ∧ s'.tick ≤ s.tick + s.n * c := by
  have key := iter_measure step (InvN N) distB0 c (by
    intro s ⟨hN, hl, hf⟩
    rcases hstep s hN hl hf with ⟨s', hs, h⟩ | ⟨s', hs, hne, hn, hsf, hpv, ht⟩
    · exact .inl ⟨s', hs, h⟩
    · have := cprev_spec s.n s.last
      refine .inr ⟨s', hs, ⟨by omega, by omega, by omega⟩, hn, ?_, ht⟩
      unfold distB0; rw [hn, hsf]; split <;> split <;> omega) (s.n + 1) s ⟨hN, hl, hf⟩
    (by unfold distB0; split <;> omega)
  obtain ⟨s', h1, h2, h3, h4⟩ := key
  have : (distB0 s + 1) * c ≤ s.n * c := Nat.mul_le_mul_right c (by unfold distB0; split <;> omega)
  exact ⟨s', h1, h2, h3, by omega⟩

/-- measure of the main loop of `build_segments`: before `passed` is set a whole turn is still to come -/
def segMainMeasure (s : StF) : Nat := (if s.flag then 0 else s.n) + dist0 s.toSt

/-- "the counter only grows": relation between the state at the entry of a counting loop and at its exit -/
def Grows (s s' : St) : Prop := s'.segFirst = s.segFirst ∧ s.last ≤ s'.last ∧ s'.n = s.n

theorem grows_trans (a b c : St) (h1 : Grows a b) (h2 : Grows b c) : Grows a c := by
  unfold Grows at *; omega

/-- every index yielded by `cycle_forward` / `cycle_backward` over a non-empty slice is inside it -/
theorem cycleIx_lt (len start ix : Nat) (h : 0 < len) : cycleIx len start ix < len := Nat.mod_lt _ h

/-- loop invariant of `find_last_contour` (Model/FindLastContour.lean) at the top of iteration `p` -/
def FlcInv (isStart : Nat → Bool) (len p : Nat) (st : FontVerif.FindLastContour.FS) : Prop :=
  st.cS ≤ st.cE ∧ st.cE ≤ p ∧ st.bE ≤ p ∧
  (p < len → isStart p = false → st.cE = p) ∧
  (st.found = true → st.cS + st.bP < st.cE) ∧
  (st.found = false → st.bS < st.bE → st.bS + st.bP < st.bE)

end FontVerif.LoopIterLemmas
