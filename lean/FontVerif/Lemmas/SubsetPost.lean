/-
Lemmas for the C17 "post part" theorems (Props/C17Post.lean): Pascal-string readers (`VarLenArray::get` vs
`VarLenArray::iter`, reading back an emitted string pool), the name pool of `subset_post_v2tail`, sequences of
`copy_assign`s at distinct positions, big-endian u16 arrays inside a table.
-/
import FontVerif.Model.SubsetPost
import FontVerif.Lemmas.Subset
import FontVerif.Lemmas.Layout
set_option linter.unusedVariables false
namespace FontVerif.SubsetPost
open FontVerif FontVerif.Subset FontVerif.SubsetMeta

/-! ## Pascal strings -/

/-- `VarLenArray::get` phrased on the remaining data instead of positions -/
def pstrGetD : Nat → Bytes → Option Bytes
  | 0, d => pstrRead d
  | _ + 1, [] => none
  | k + 1, l :: rest => pstrGetD k (rest.drop l)

theorem pstrGetD_nil (k : Nat) : pstrGetD k [] = none := by
  cases k <;> simp [pstrGetD, pstrRead]

/-- the tail of `pstrGet` after the position loop -/
def pstrFinish (data : Bytes) : Option Nat → Option Bytes
  | none => none
  | some p => if p ≤ data.length then pstrRead (data.drop p) else none

theorem pstrPos_beyond (data : Bytes) : ∀ (k pos : Nat), data.length < pos →
    pstrFinish data (pstrPos data k pos) = none := by
  intro k
  induction k with
  | zero => intro pos h; simp [pstrPos, pstrFinish]; omega
  | succ k ih =>
    intro pos h
    have : data[pos]? = none := by simp; omega
    simp [pstrPos, this, pstrFinish]

theorem pstrPos_spec (data : Bytes) : ∀ (k pos : Nat), pos ≤ data.length →
    pstrFinish data (pstrPos data k pos) = pstrGetD k (data.drop pos) := by
  intro k
  induction k with
  | zero => intro pos h; simp [pstrPos, pstrGetD, pstrFinish, h]
  | succ k ih =>
    intro pos h
    by_cases hlt : pos < data.length
    · have hd : data.drop pos = data[pos] :: data.drop (pos + 1) := by
        rw [List.drop_eq_getElem_cons hlt]
      have hg : data[pos]? = some data[pos] := by simp [hlt]
      simp only [pstrPos, hg, hd, pstrGetD, List.drop_drop]
      by_cases hfit : pos + (data[pos] + 1) ≤ data.length
      · rw [ih _ hfit]; congr 2; omega
      · rw [pstrPos_beyond data k _ (by omega)]
        have : data.drop (pos + 1 + data[pos]) = [] := by simp; omega
        rw [this, pstrGetD_nil]
    · have hp : pos = data.length := by omega
      have : data[pos]? = none := by simp; omega
      have hd : data.drop pos = [] := by simp; omega
      simp [pstrPos, this, pstrFinish, hd, pstrGetD_nil]

/-- `string_data().get(idx)` in the position-free form -/
theorem pstrGet_eq (data : Bytes) (idx : Nat) : pstrGet data idx = pstrGetD idx data := by
  have := pstrPos_spec data idx 0 (by omega)
  rw [List.drop_zero] at this
  rw [← this]
  unfold pstrGet pstrFinish
  cases pstrPos data idx 0 <;> rfl

/-- **get = iter.**  `glyph_name` indexes the string data with `VarLenArray::get`, klippa indexes the collected
`VarLenArray::iter`: both denote the same strings (errors collapse to "no name") -/
theorem pstrGetD_iter : ∀ (fuel : Nat) (data : Bytes) (k : Nat), data.length ≤ fuel →
    pstrGetD k data = ((pstrIter fuel data)[k]?).join := by
  intro fuel
  induction fuel with
  | zero =>
    intro data k h
    have : data = [] := List.eq_nil_of_length_eq_zero (by omega)
    subst this; simp [pstrGetD_nil, pstrIter]
  | succ fuel ih =>
    intro data k h
    cases data with
    | nil => simp [pstrGetD_nil, pstrIter]
    | cons l rest =>
      simp only [List.length_cons] at h
      by_cases hfit : l ≤ rest.length
      · simp only [pstrIter, hfit, if_true]
        cases k with
        | zero =>
          simp only [pstrGetD, pstrRead, hfit, if_true, List.getElem?_cons_zero, Option.join]
          split <;> simp_all
        | succ k =>
          simp only [pstrGetD, List.getElem?_cons_succ]
          exact ih _ _ (by simp; omega)
      · simp only [pstrIter, hfit, if_false]
        cases k with
        | zero => simp [pstrGetD, pstrRead, hfit]
        | succ k =>
          have : rest.drop l = [] := by simp; omega
          simp [pstrGetD, this, pstrGetD_nil]

theorem pstrGet_all (data : Bytes) (k : Nat) : pstrGet data k = ((pstrAll data)[k]?).join := by
  rw [pstrGet_eq]; exact pstrGetD_iter _ _ _ (Nat.le_refl _)

/-- every `Ok` item of the iteration is ASCII and at most as long as its length byte -/
theorem pstrIter_item : ∀ (fuel : Nat) (data : Bytes) (s : Bytes), some s ∈ pstrIter fuel data →
    isAscii s = true ∧ ∃ l ∈ data, s.length ≤ l := by
  intro fuel
  induction fuel with
  | zero => intro data s h; simp [pstrIter] at h
  | succ fuel ih =>
    intro data s h
    cases data with
    | nil => simp [pstrIter] at h
    | cons l rest =>
      by_cases hfit : l ≤ rest.length
      · simp only [pstrIter, hfit, if_true, List.mem_cons] at h
        rcases h with h | h
        · split at h
          · rename_i ha
            simp only [Option.some.injEq] at h
            subst h
            exact ⟨ha, l, by simp, by simp; omega⟩
          · cases h
        · obtain ⟨h1, l', hl', h2⟩ := ih _ _ h
          exact ⟨h1, l', List.mem_cons_of_mem _ (List.mem_of_mem_drop hl'), h2⟩
      · simp [pstrIter, hfit] at h

/-- reading back an emitted pool: string `k` of the concatenated `len, bytes` records -/
theorem pstrGetD_enc : ∀ (strs : List Bytes) (k : Nat),
    (∀ s ∈ strs, isAscii s = true ∧ s.length < 256) →
    pstrGetD k (strs.flatMap pstrEnc) = strs[k]? := by
  intro strs
  induction strs with
  | nil => intro k _; simp [pstrGetD_nil]
  | cons s rest ih =>
    intro k h
    have hs := h s (by simp)
    have hl : s.length % 256 = s.length := Nat.mod_eq_of_lt hs.2
    simp only [List.flatMap_cons, pstrEnc, hl, List.cons_append]
    cases k with
    | zero =>
      simp only [pstrGetD, pstrRead, List.length_append, Nat.le_add_right, if_true, List.take_left', List.getElem?_cons_zero]
      simp [hs.1]
    | succ k =>
      simp only [pstrGetD, List.drop_left', List.getElem?_cons_succ]
      exact ih k (fun x hx => h x (List.mem_cons_of_mem _ hx))


/-! ## positions in name lists -/

theorem indexIn_some {s : Bytes} : ∀ {l : List Bytes} {i k : Nat}, indexIn s l i = some k →
    i ≤ k ∧ l[k - i]? = some s := by
  intro l
  induction l with
  | nil => intro i k h; simp [indexIn] at h
  | cons x rest ih =>
    intro i k h
    simp only [indexIn] at h
    split at h
    · rename_i hx
      simp only [Option.some.injEq] at h
      subst h; subst hx
      simp
    · obtain ⟨h1, h2⟩ := ih h
      refine ⟨by omega, ?_⟩
      have : k - i = (k - (i + 1)) + 1 := by omega
      rw [this, List.getElem?_cons_succ]; exact h2

theorem indexIn_none {s : Bytes} : ∀ {l : List Bytes} {i : Nat}, indexIn s l i = none ↔ s ∉ l := by
  intro l
  induction l with
  | nil => intro i; simp [indexIn]
  | cons x rest ih =>
    intro i
    simp only [indexIn, List.mem_cons, not_or]
    split
    · rename_i hx; subst hx; simp
    · rename_i hx
      rw [ih]
      constructor
      · intro h; exact ⟨fun e => hx e.symm, h⟩
      · intro h; exact h.2

theorem indexIn_append_singleton (s x : Bytes) : ∀ (l : List Bytes) (i : Nat),
    indexIn s (l ++ [x]) i =
      match indexIn s l i with
      | some k => some k
      | none => if x = s then some (i + l.length) else none := by
  intro l
  induction l with
  | nil => intro i; simp [indexIn]
  | cons y rest ih =>
    intro i
    simp only [List.cons_append, indexIn]
    split
    · rfl
    · rw [ih]
      simp only [List.length_cons]
      have : i + 1 + rest.length = i + (rest.length + 1) := by omega
      rw [this]

set_option maxRecDepth 100000 in
theorem stdNames_length : stdNames.length = 258 := by rfl

theorem stdIndex_some {s : Bytes} {k : Nat} (h : stdIndex s = some k) : k < 258 ∧ stdNames[k]? = some s := by
  obtain ⟨_, h2⟩ := indexIn_some h
  simp only [Nat.sub_zero] at h2
  have : k < stdNames.length := (List.getElem?_eq_some_iff.mp h2).1
  rw [stdNames_length] at this
  exact ⟨this, h2⟩

/-! ## the name pool of the second loop -/

/-- what a stored glyphNameIndex denotes, given the emitted string list -/
def decodeIdx (strs : List Bytes) (k : Nat) : Option Bytes :=
  if k < 258 then stdNames[k]? else strs[k - 258]?

theorem decodeIdx_append {strs ext : List Bytes} {k : Nat} {n : Bytes} (h : decodeIdx strs k = some n) :
    decodeIdx (strs ++ ext) k = some n := by
  unfold decodeIdx at *
  split
  · rename_i hk; simpa [hk] using h
  · rename_i hk
    simp only [hk, if_false] at h
    have : k - 258 < strs.length := (List.getElem?_eq_some_iff.mp h).1
    rw [List.getElem?_append_left this]; exact h

structure PoolInv (p : Pool) : Prop where
  next_eq : p.next = (258 + p.strs.length) % 65536
  lookup : ∀ name, lookupB name p.visited = (indexIn name p.strs 0).map (fun i => (258 + i) % 65536)
  nodup : p.strs.Pairwise (· ≠ ·)
  nostd : ∀ s ∈ p.strs, stdIndex s = none

theorem poolInv_init : PoolInv Pool.init := by
  refine ⟨by simp [Pool.init], ?_, by simp [Pool.init], by simp [Pool.init]⟩
  intro name; simp [Pool.init, lookupB, indexIn]

theorem poolIndex_spec (p : Pool) (hinv : PoolInv p) (name : Bytes) :
    PoolInv (poolIndex p name).2 ∧
    (∃ ext, (poolIndex p name).2.strs = p.strs ++ ext) ∧
    (poolIndex p name).1 < 65536 ∧
    ((poolIndex p name).2.strs.length ≤ 65278 → decodeIdx (poolIndex p name).2.strs (poolIndex p name).1 = some name) ∧
    (∀ s ∈ (poolIndex p name).2.strs, s ∈ p.strs ∨ (s = name ∧ stdIndex name = none)) ∧
    (stdIndex name = none → name ∈ (poolIndex p name).2.strs) := by
  unfold poolIndex
  cases hstd : stdIndex name with
  | some k =>
    obtain ⟨hk, hn⟩ := stdIndex_some hstd
    refine ⟨hinv, ⟨[], by simp⟩, by simp; omega, ?_, fun s hs => Or.inl hs, by simp⟩
    intro _
    simp [decodeIdx, hk, hn]
  | none =>
    simp only
    have hl := hinv.lookup name
    cases hidx : indexIn name p.strs 0 with
    | some i =>
      rw [hidx] at hl
      simp only [Option.map_some] at hl
      rw [hl]
      simp only
      obtain ⟨_, hget⟩ := indexIn_some hidx
      simp only [Nat.sub_zero] at hget
      have hi : i < p.strs.length := (List.getElem?_eq_some_iff.mp hget).1
      refine ⟨hinv, ⟨[], by simp⟩, Nat.mod_lt _ (by omega), ?_, fun s hs => Or.inl hs,
        fun _ => List.mem_of_getElem? hget⟩
      intro hcap
      have : (258 + i) % 65536 = 258 + i := Nat.mod_eq_of_lt (by omega)
      rw [this]
      unfold decodeIdx
      rw [if_neg (by omega)]
      have e : 258 + i - 258 = i := by omega
      rw [e]; exact hget
    | none =>
      rw [hidx] at hl
      simp only [Option.map_none] at hl
      rw [hl]
      simp only
      have hnot : name ∉ p.strs := indexIn_none.mp hidx
      refine ⟨⟨?_, ?_, ?_, ?_⟩, ⟨[name], rfl⟩, ?_, ?_, ?_, ?_⟩
      · simp only [List.length_append, List.length_singleton]
        rw [hinv.next_eq]; omega
      · intro n
        simp only [lookupB]
        rw [indexIn_append_singleton]
        by_cases e : name = n
        · subst e
          simp [hidx, hinv.next_eq]
        · simp only [e, if_false]
          rw [hinv.lookup n]
          cases indexIn n p.strs 0 <;> simp
      · rw [List.pairwise_append]
        refine ⟨hinv.nodup, by simp, ?_⟩
        intro a ha b hb
        simp only [List.mem_singleton] at hb
        subst hb
        intro e; subst e; exact hnot ha
      · intro s hs
        simp only [List.mem_append, List.mem_singleton] at hs
        rcases hs with hs | hs
        · exact hinv.nostd s hs
        · subst hs; exact hstd
      · rw [hinv.next_eq]; exact Nat.mod_lt _ (by omega)
      · intro hcap
        simp only [List.length_append, List.length_singleton] at hcap
        rw [hinv.next_eq]
        have : (258 + p.strs.length) % 65536 = 258 + p.strs.length := Nat.mod_eq_of_lt (by omega)
        rw [this]
        unfold decodeIdx
        rw [if_neg (by omega)]
        have e : 258 + p.strs.length - 258 = p.strs.length := by omega
        rw [e]; simp
      · intro s hs
        simp only [List.mem_append, List.mem_singleton] at hs
        rcases hs with hs | hs
        · exact Or.inl hs
        · exact Or.inr ⟨hs, trivial⟩
      · intro _; simp

theorem runPool_spec : ∀ (jobs : List (Nat × Bytes)) (p : Pool), PoolInv p →
    PoolInv (runPool p jobs).2 ∧
    (∃ ext, (runPool p jobs).2.strs = p.strs ++ ext) ∧
    (runPool p jobs).1.map (·.1) = jobs.map (·.1) ∧
    (∀ w ∈ (runPool p jobs).1, w.2 < 65536) ∧
    ((runPool p jobs).2.strs.length ≤ 65278 →
      ∀ new name, (new, name) ∈ jobs → ∃ k, (new, k) ∈ (runPool p jobs).1 ∧
        decodeIdx (runPool p jobs).2.strs k = some name) ∧
    (∀ s ∈ (runPool p jobs).2.strs, s ∈ p.strs ∨ ∃ new, (new, s) ∈ jobs ∧ stdIndex s = none) ∧
    (∀ new name, (new, name) ∈ jobs → stdIndex name = none → name ∈ (runPool p jobs).2.strs) := by
  intro jobs
  induction jobs with
  | nil =>
    intro p hinv
    simp only [runPool]
    exact ⟨hinv, ⟨[], by simp⟩, by simp, by simp, by simp, fun s hs => Or.inl hs, by simp⟩
  | cons j rest ih =>
    intro p hinv
    obtain ⟨new0, name0⟩ := j
    simp only [runPool]
    obtain ⟨h1, ⟨e1, he1⟩, hlt1, hdec1, hsrc1, hin1⟩ := poolIndex_spec p hinv name0
    obtain ⟨h2, ⟨e2, he2⟩, hmap2, hlt2, hdec2, hsrc2, hin2⟩ := ih (poolIndex p name0).2 h1
    refine ⟨h2, ⟨e1 ++ e2, by rw [he2, he1, List.append_assoc]⟩, by simp [hmap2], ?_, ?_, ?_, ?_⟩
    · intro w hw
      simp only [List.mem_cons] at hw
      rcases hw with hw | hw
      · subst hw; exact hlt1
      · exact hlt2 w hw
    · intro hcap new name hm
      simp only [List.mem_cons, Prod.mk.injEq] at hm
      rcases hm with ⟨hn, hnm⟩ | hm
      · subst hn; subst hnm
        refine ⟨(poolIndex p name).1, by simp, ?_⟩
        rw [he2]
        apply decodeIdx_append
        apply hdec1
        have : (runPool (poolIndex p name).2 rest).2.strs.length = (poolIndex p name).2.strs.length + e2.length := by
          rw [he2]; simp
        omega
      · obtain ⟨k, hk, hd⟩ := hdec2 hcap new name hm
        exact ⟨k, List.mem_cons_of_mem _ hk, hd⟩
    · intro s hs
      rcases hsrc2 s hs with h | ⟨new, hm, hst⟩
      · rcases hsrc1 s h with h' | ⟨h', hst⟩
        · exact Or.inl h'
        · subst h'; exact Or.inr ⟨new0, by simp, hst⟩
      · exact Or.inr ⟨new, List.mem_cons_of_mem _ hm, hst⟩
    · intro new name hm hst
      simp only [List.mem_cons, Prod.mk.injEq] at hm
      rcases hm with ⟨hn, hnm⟩ | hm
      · subst hn; subst hnm
        rw [he2]
        exact List.mem_append_left _ (hin1 hst)
      · exact hin2 new name hm hst


/-! ## `copy_assign`s at distinct positions -/

theorem applyWrites_length : ∀ (ws : List (Nat × Nat)) (arr : List Nat), (applyWrites arr ws).length = arr.length := by
  intro ws
  induction ws with
  | nil => intro arr; rfl
  | cons w rest ih => intro arr; simp only [applyWrites, List.foldl_cons] at *; rw [ih]; simp

theorem applyWrites_not_mem : ∀ (ws : List (Nat × Nat)) (arr : List Nat) (p : Nat), (∀ w ∈ ws, w.1 ≠ p) →
    (applyWrites arr ws)[p]? = arr[p]? := by
  intro ws
  induction ws with
  | nil => intro arr p _; rfl
  | cons w rest ih =>
    intro arr p h
    simp only [applyWrites, List.foldl_cons] at *
    rw [ih _ _ (fun x hx => h x (List.mem_cons_of_mem _ hx))]
    have : w.1 ≠ p := h w (by simp)
    simp [List.getElem?_set, this]

theorem applyWrites_mem : ∀ (ws : List (Nat × Nat)) (arr : List Nat) (p v : Nat),
    (ws.map (·.1)).Pairwise (· ≠ ·) → (p, v) ∈ ws → p < arr.length → (applyWrites arr ws)[p]? = some v := by
  intro ws
  induction ws with
  | nil => intro arr p v _ h; simp at h
  | cons w rest ih =>
    intro arr p v hd hm hp
    simp only [List.map_cons, List.pairwise_cons] at hd
    simp only [applyWrites, List.foldl_cons]
    simp only [List.mem_cons] at hm
    rcases hm with hm | hm
    · subst hm
      have := applyWrites_not_mem rest (arr.set p v) p (by
        intro x hx e
        exact hd.1 x.1 (List.mem_map_of_mem hx) e.symm)
      simp only [applyWrites] at this
      rw [this]
      simp [hp]
    · have := ih (arr.set w.1 w.2) p v hd.2 hm (by simpa using hp)
      simpa [applyWrites] using this

/-! ## big-endian u16 arrays -/

theorem u16At_cons2 (a b : Nat) (d : Bytes) (j : Nat) : u16At (a :: b :: d) (j + 2) = u16At d j := by
  simp [u16At, List.getD_cons_succ]

theorem be16_eq (v : Nat) : be16 v = [v / 256 % 256, v % 256] := rfl

theorem u16At_flatMap_be16 : ∀ (arr : List Nat) (post : Bytes) (i : Nat), i < arr.length →
    u16At (arr.flatMap (fun v => be16 (v % 65536)) ++ post) (2 * i) = arr.getD i 0 % 65536 := by
  intro arr
  induction arr with
  | nil => intro post i h; simp at h
  | cons v rest ih =>
    intro post i h
    simp only [List.flatMap_cons, List.append_assoc]
    rw [be16_eq]
    simp only [List.cons_append, List.nil_append]
    cases i with
    | zero =>
      simp only [u16At, Nat.mul_zero, List.getD_cons_zero, List.getD_cons_succ, Nat.zero_add]
      omega
    | succ i =>
      have : 2 * (i + 1) = 2 * i + 2 := by omega
      rw [this, u16At_cons2]
      simp only [List.length_cons] at h
      rw [ih post i (by omega)]
      simp

theorem getD_append_right' (pre d : Bytes) (j : Nat) : (pre ++ d).getD (pre.length + j) 0 = d.getD j 0 := by
  simp [List.getD_eq_getElem?_getD, List.getElem?_append_right]

theorem getD_append_left' (pre d : Bytes) (j : Nat) (h : j < pre.length) : (pre ++ d).getD j 0 = pre.getD j 0 := by
  simp [List.getD_eq_getElem?_getD, List.getElem?_append_left h]

theorem u16At_append_right (pre d : Bytes) (j : Nat) : u16At (pre ++ d) (pre.length + j) = u16At d j := by
  simp only [u16At]
  rw [getD_append_right', Nat.add_assoc, getD_append_right']

theorem u16At_append_left (pre d : Bytes) (j : Nat) (h : j + 1 < pre.length) : u16At (pre ++ d) j = u16At pre j := by
  simp only [u16At]
  rw [getD_append_left' _ _ _ (by omega), getD_append_left' _ _ _ h]

theorem flatMap_be16_length (arr : List Nat) : (arr.flatMap (fun v => be16 (v % 65536))).length = 2 * arr.length := by
  induction arr with
  | nil => rfl
  | cons v rest ih =>
    rw [List.flatMap_cons, List.length_append, ih]
    simp only [be16_eq, List.length_cons, List.length_nil]; omega

/-! ## the plan's glyph map -/

structure PlanOk (n2o : List (Nat × Nat)) (nout : Nat) : Prop where
  news : (n2o.map (·.1)).Pairwise (· ≠ ·)
  olds : (n2o.map (·.2)).Pairwise (· ≠ ·)
  bound : ∀ no ∈ n2o, no.1 < nout

theorem oldToNew_iff {n2o : List (Nat × Nat)} {nout : Nat} (h : PlanOk n2o nout) (old new : Nat) :
    oldToNew n2o old = some new ↔ (new, old) ∈ n2o := by
  unfold oldToNew
  constructor
  · intro hl
    have := lookupNat_mem hl
    simp only [List.mem_map] at this
    obtain ⟨no, hno, e⟩ := this
    cases e; exact hno
  · intro hm
    apply lookupNat_of_mem
    · simpa [List.map_map, Function.comp_def] using h.olds
    · exact List.mem_map.mpr ⟨(new, old), hm, rfl⟩

theorem newToOld_unique {n2o : List (Nat × Nat)} {nout : Nat} (h : PlanOk n2o nout) {new a b : Nat}
    (ha : (new, a) ∈ n2o) (hb : (new, b) ∈ n2o) : a = b := by
  have h1 := lookupNat_of_mem h.news ha
  have h2 := lookupNat_of_mem h.news hb
  rw [h1] at h2; cases h2; rfl

/-! ## the (old gid, index) pairs and the two job lists -/

theorem indexPairs_eq (t : Bytes) (m : Nat) :
    indexPairs t m = (List.range (min (postNumGlyphs t) (m + 1))).map (fun g => (g, u16At t (34 + 2 * g))) := by
  unfold indexPairs glyphNameIndex
  apply List.ext_getElem?
  intro i
  simp only [List.getElem?_take, List.getElem?_map, List.getElem?_zipIdx]
  by_cases h : i < min (postNumGlyphs t) (m + 1)
  · have h1 : i < m + 1 := by omega
    have h2 : i < postNumGlyphs t := by omega
    simp [h1, List.getElem?_range h, List.getElem?_range h2]
  · have e : (List.range (min (postNumGlyphs t) (m + 1)))[i]? = none := List.getElem?_eq_none (by simp; omega)
    rw [e]
    by_cases h1 : i < m + 1
    · have e2 : (List.range (postNumGlyphs t))[i]? = none := List.getElem?_eq_none (by simp; omega)
      simp [h1, e2]
    · simp [h1]

theorem mem_indexPairs (t : Bytes) (m old ni : Nat) :
    (old, ni) ∈ indexPairs t m ↔ old < postNumGlyphs t ∧ old ≤ m ∧ ni = u16At t (34 + 2 * old) := by
  rw [indexPairs_eq]
  simp only [List.mem_map, List.mem_range, Prod.mk.injEq]
  constructor
  · rintro ⟨g, hg, rfl, rfl⟩
    exact ⟨by omega, by omega, rfl⟩
  · rintro ⟨h1, h2, rfl⟩
    exact ⟨old, by omega, rfl, rfl⟩

theorem indexPairs_pairwise (t : Bytes) (m : Nat) : (indexPairs t m).Pairwise (fun a b => a.1 ≠ b.1) := by
  rw [indexPairs_eq, List.pairwise_map]
  have := List.pairwise_lt_range (n := min (postNumGlyphs t) (m + 1))
  exact this.imp (fun h => by simp; omega)

theorem mem_jobs1 (nout : Nat) (gmap : Nat → Option Nat) (pairs : List (Nat × Nat)) (new v : Nat) :
    (new, v) ∈ jobs1 nout gmap pairs ↔
      ∃ old, (old, v) ∈ pairs ∧ v < 258 ∧ gmap old = some new ∧ new < nout := by
  unfold jobs1
  simp only [List.mem_filterMap]
  constructor
  · rintro ⟨⟨old, ni⟩, hm, h⟩
    simp only at h
    split at h
    · rename_i hlt
      split at h
      · cases h
      · rename_i nw hg
        split at h
        · cases h
        · simp only [Option.some.injEq, Prod.mk.injEq] at h
          obtain ⟨rfl, rfl⟩ := h
          exact ⟨old, hm, hlt, hg, by omega⟩
    · cases h
  · rintro ⟨old, hm, hlt, hg, hn⟩
    refine ⟨(old, v), hm, ?_⟩
    simp only [hlt, if_true, hg]
    have : ¬ new ≥ nout := by omega
    simp [this]

theorem mem_jobs2 (strings : List (Option Bytes)) (gmap : Nat → Option Nat) (pairs : List (Nat × Nat))
    (new : Nat) (name : Bytes) :
    (new, name) ∈ jobs2 strings gmap pairs ↔
      ∃ old ni, (old, ni) ∈ pairs ∧ ¬ ni < 258 ∧ gmap old = some new ∧ strings[ni - 258]? = some (some name) := by
  unfold jobs2
  simp only [List.mem_filterMap]
  constructor
  · rintro ⟨⟨old, ni⟩, hm, h⟩
    simp only at h
    split at h
    · cases h
    · rename_i hge
      split at h
      · cases h
      · rename_i nw hg
        split at h
        · rename_i nm hs
          simp only [Option.some.injEq, Prod.mk.injEq] at h
          obtain ⟨rfl, rfl⟩ := h
          exact ⟨old, ni, hm, hge, hg, hs⟩
        · cases h
  · rintro ⟨old, ni, hm, hge, hg, hs⟩
    refine ⟨(old, ni), hm, ?_⟩
    simp only [hge, if_false, hg, hs]


theorem gmap_inj {n2o : List (Nat × Nat)} {nout : Nat} (h : PlanOk n2o nout) {a b x : Nat}
    (ha : oldToNew n2o a = some x) (hb : oldToNew n2o b = some x) : a = b :=
  newToOld_unique h ((oldToNew_iff h a x).mp ha) ((oldToNew_iff h b x).mp hb)

/-- where a write of either loop comes from -/
theorem jobs1_fst {nout : Nat} {gmap : Nat → Option Nat} {a : Nat × Nat} {x : Nat}
    (h : ((if a.2 < 258 then
            match gmap a.1 with
            | none => none
            | some new => if new ≥ nout then none else some (new, a.2)
          else none : Option (Nat × Nat)).map (·.1)) = some x) : gmap a.1 = some x ∧ a.2 < 258 := by
  split at h
  · rename_i hlt
    split at h
    · simp at h
    · rename_i nw hg
      split at h
      · simp at h
      · simp only [Option.map_some, Option.some.injEq] at h
        subst h; exact ⟨hg, hlt⟩
  · simp at h

theorem jobs2_fst {strings : List (Option Bytes)} {gmap : Nat → Option Nat} {a : Nat × Nat} {x : Nat}
    (h : ((if a.2 < 258 then none else
            match gmap a.1 with
            | none => none
            | some new =>
              match strings[a.2 - 258]? with
              | some (some name) => some (new, name)
              | _ => none : Option (Nat × Bytes)).map (·.1)) = some x) : gmap a.1 = some x ∧ ¬ a.2 < 258 := by
  split at h
  · simp at h
  · rename_i hge
    split at h
    · simp at h
    · rename_i nw hg
      split at h
      · simp only [Option.map_some, Option.some.injEq] at h
        subst h; exact ⟨hg, hge⟩
      · simp at h

theorem positions_distinct {n2o : List (Nat × Nat)} {nout : Nat} (hplan : PlanOk n2o nout)
    (strings : List (Option Bytes)) (pairs : List (Nat × Nat)) (hp : pairs.Pairwise (fun a b => a.1 ≠ b.1))
    (hf : ∀ a b, a ∈ pairs → b ∈ pairs → a.1 = b.1 → a.2 = b.2) :
    ((jobs1 nout (oldToNew n2o) pairs).map (·.1) ++ (jobs2 strings (oldToNew n2o) pairs).map (·.1)).Pairwise (· ≠ ·) := by
  rw [List.pairwise_append]
  refine ⟨?_, ?_, ?_⟩
  · unfold jobs1
    rw [List.map_filterMap]
    refine List.Pairwise.filterMap _ ?_ hp
    intro a a' hne b hb b' hb' e
    subst e
    exact hne (gmap_inj hplan (jobs1_fst hb).1 (jobs1_fst hb').1)
  · unfold jobs2
    rw [List.map_filterMap]
    refine List.Pairwise.filterMap _ ?_ hp
    intro a a' hne b hb b' hb' e
    subst e
    exact hne (gmap_inj hplan (jobs2_fst hb).1 (jobs2_fst hb').1)
  · intro x hx y hy e
    subst e
    simp only [List.mem_map] at hx hy
    obtain ⟨⟨x1, v⟩, hm1, rfl⟩ := hx
    obtain ⟨⟨y1, nm⟩, hm2, e2⟩ := hy
    simp only at e2
    subst e2
    obtain ⟨old1, hp1, hlt, hg1, _⟩ := (mem_jobs1 _ _ _ _ _).mp hm1
    obtain ⟨old2, ni2, hp2, hge, hg2, _⟩ := (mem_jobs2 _ _ _ _ _).mp hm2
    have := gmap_inj hplan hg1 hg2
    subst this
    have := hf _ _ hp1 hp2 rfl
    simp only at this
    omega

def notdefName : Bytes := [46, 110, 111, 116, 100, 101, 102]

set_option maxRecDepth 100000 in
theorem stdNames_zero : stdNames[0]? = some notdefName := by rfl

/-- the name read-fonts gives an old glyph of a readable version 2.0 table, via the collected iterator -/
def origName? (t : Bytes) (old : Nat) : Option Bytes :=
  if old < postNumGlyphs t then
    (if u16At t (34 + 2 * old) < 258 then stdNames[u16At t (34 + 2 * old)]?
     else ((pstrAll (stringData t))[u16At t (34 + 2 * old) - 258]?).join)
  else none

theorem v2tail_arr_length (inp : PostIn) : (v2tail inp).arr.length = inp.nout := by
  unfold v2tail
  cases inp.maxOld with
  | none => simp
  | some m => simp [applyWrites_length]

/-- the entry of the rebuilt index array for a kept glyph denotes the glyph's original name (`.notdef` when the
original has none) -/
theorem v2tail_entry (inp : PostIn) (m : Nat) (hm : inp.maxOld = some m) (hplan : PlanOk inp.n2o inp.nout)
    (hmax : ∀ no ∈ inp.n2o, no.2 ≤ m) (hcap : (v2tail inp).strs.length ≤ 65278)
    (new old : Nat) (hno : (new, old) ∈ inp.n2o) :
    ∃ k, (v2tail inp).arr[new]? = some k ∧ k < 65536 ∧
      decodeIdx (v2tail inp).strs k = some ((origName? inp.t old).getD notdefName) := by
  have hnew : new < inp.nout := hplan.bound _ hno
  have hg : oldToNew inp.n2o old = some new := (oldToNew_iff hplan old new).mpr hno
  have hold : old ≤ m := hmax _ hno
  unfold v2tail at hcap ⊢
  unfold origName?
  rw [hm] at hcap ⊢
  simp only at hcap ⊢
  generalize hpairs : indexPairs inp.t m = pairs at hcap ⊢
  generalize hstrings : pstrAll (stringData inp.t) = strings at hcap ⊢
  have hpw : pairs.Pairwise (fun a b => a.1 ≠ b.1) := by rw [← hpairs]; exact indexPairs_pairwise _ _
  have hfun : ∀ a b, a ∈ pairs → b ∈ pairs → a.1 = b.1 → a.2 = b.2 := by
    intro a b ha hb e
    rw [← hpairs] at ha hb
    obtain ⟨a1, a2⟩ := a
    obtain ⟨b1, b2⟩ := b
    have h1 := (mem_indexPairs _ _ _ _).mp ha
    have h2 := (mem_indexPairs _ _ _ _).mp hb
    simp only at e
    subst e
    rw [h1.2.2, h2.2.2]
  obtain ⟨hinv, _, hmap, hlt, hdec, _, _⟩ := runPool_spec (jobs2 strings (oldToNew inp.n2o) pairs) Pool.init poolInv_init
  generalize hq : runPool Pool.init (jobs2 strings (oldToNew inp.n2o) pairs) = q at hcap hmap hlt hdec ⊢
  have hdist : ((jobs1 inp.nout (oldToNew inp.n2o) pairs ++ q.1).map (·.1)).Pairwise (· ≠ ·) := by
    rw [List.map_append, hmap]
    exact positions_distinct hplan strings pairs hpw hfun
  have hlen0 : new < (List.replicate inp.nout 0).length := by simpa using hnew
  -- every write at `new` stems from `old`
  have horigin : ∀ w ∈ jobs1 inp.nout (oldToNew inp.n2o) pairs ++ q.1, w.1 = new →
      ∃ ni, (old, ni) ∈ pairs ∧ ((ni < 258 ∧ w.2 = ni) ∨ (¬ ni < 258 ∧ ∃ name, strings[ni - 258]? = some (some name))) := by
    intro w hw e
    rcases List.mem_append.mp hw with hw | hw
    · obtain ⟨w1, w2⟩ := w
      simp only at e; subst e
      obtain ⟨old', hp', hlt', hg', _⟩ := (mem_jobs1 _ _ _ _ _).mp hw
      have := gmap_inj hplan hg' hg
      subst this
      exact ⟨w2, hp', Or.inl ⟨hlt', rfl⟩⟩
    · have : w.1 ∈ (jobs2 strings (oldToNew inp.n2o) pairs).map (·.1) := by
        rw [← hmap]; exact List.mem_map_of_mem hw
      simp only [List.mem_map] at this
      obtain ⟨⟨j1, nm⟩, hj, ej⟩ := this
      simp only at ej
      rw [e] at ej; subst ej
      obtain ⟨old', ni', hp', hge', hg', hs'⟩ := (mem_jobs2 _ _ _ _ _).mp hj
      have := gmap_inj hplan hg' hg
      subst this
      exact ⟨ni', hp', Or.inr ⟨hge', nm, hs'⟩⟩
  have hzero : (∀ w ∈ jobs1 inp.nout (oldToNew inp.n2o) pairs ++ q.1, w.1 ≠ new) →
      ∃ k, (applyWrites (List.replicate inp.nout 0) (jobs1 inp.nout (oldToNew inp.n2o) pairs ++ q.1))[new]? = some k ∧
        k < 65536 ∧ decodeIdx q.2.strs k = some notdefName := by
    intro hnone
    refine ⟨0, ?_, by omega, ?_⟩
    · rw [applyWrites_not_mem _ _ _ hnone]; simp [hnew]
    · simp [decodeIdx, stdNames_zero]
  by_cases hin : old < postNumGlyphs inp.t
  · have hpair : (old, u16At inp.t (34 + 2 * old)) ∈ pairs := by
      rw [← hpairs]; exact (mem_indexPairs _ _ _ _).mpr ⟨hin, hold, rfl⟩
    simp only [hin, if_true]
    generalize hni : u16At inp.t (34 + 2 * old) = ni at hpair ⊢
    by_cases hstd : ni < 258
    · simp only [hstd, if_true]
      have hw : (new, ni) ∈ jobs1 inp.nout (oldToNew inp.n2o) pairs ++ q.1 :=
        List.mem_append_left _ ((mem_jobs1 _ _ _ _ _).mpr ⟨old, hpair, hstd, hg, hnew⟩)
      refine ⟨ni, applyWrites_mem _ _ _ _ hdist hw hlen0, by omega, ?_⟩
      have : ni < stdNames.length := by rw [stdNames_length]; exact hstd
      simp [decodeIdx, hstd, List.getElem?_eq_getElem this]
    · simp only [hstd, if_false]
      cases hs : strings[ni - 258]? with
      | some item =>
        cases item with
        | some name =>
          have hj : (new, name) ∈ jobs2 strings (oldToNew inp.n2o) pairs :=
            (mem_jobs2 _ _ _ _ _).mpr ⟨old, ni, hpair, hstd, hg, hs⟩
          obtain ⟨k, hk, hd⟩ := hdec hcap new name hj
          refine ⟨k, applyWrites_mem _ _ _ _ hdist (List.mem_append_right _ hk) hlen0, hlt _ hk, ?_⟩
          simpa [Option.join] using hd
        | none =>
          have := hzero (by
            intro w hw e
            obtain ⟨ni', hp', h'⟩ := horigin w hw e
            have := hfun _ _ hp' hpair rfl
            simp only at this; subst this
            rcases h' with ⟨h1, _⟩ | ⟨_, nm, h2⟩
            · exact hstd h1
            · rw [hs] at h2; cases h2)
          simpa [Option.join] using this
      | none =>
        have := hzero (by
          intro w hw e
          obtain ⟨ni', hp', h'⟩ := horigin w hw e
          have := hfun _ _ hp' hpair rfl
          simp only at this; subst this
          rcases h' with ⟨h1, _⟩ | ⟨_, nm, h2⟩
          · exact hstd h1
          · rw [hs] at h2; cases h2)
        simpa [Option.join] using this
  · simp only [hin, if_false, Option.getD_none]
    apply hzero
    intro w hw e
    obtain ⟨ni', hp', _⟩ := horigin w hw e
    rw [← hpairs] at hp'
    exact hin ((mem_indexPairs _ _ _ _).mp hp').1

/-- an id of the subset that no kept glyph owns (a retain-gids hole) keeps index 0 -/
theorem v2tail_hole (inp : PostIn) (hplan : PlanOk inp.n2o inp.nout) (new : Nat) (hnew : new < inp.nout)
    (hhole : ∀ old, (new, old) ∉ inp.n2o) : (v2tail inp).arr[new]? = some 0 := by
  unfold v2tail
  cases hm : inp.maxOld with
  | none => simp [hnew]
  | some m =>
    simp only
    obtain ⟨_, _, hmap, _⟩ := runPool_spec (jobs2 (pstrAll (stringData inp.t)) (oldToNew inp.n2o) (indexPairs inp.t m))
      Pool.init poolInv_init
    rw [applyWrites_not_mem]
    · simp [hnew]
    · intro w hw e
      rcases List.mem_append.mp hw with hw | hw
      · obtain ⟨w1, w2⟩ := w
        simp only at e; subst e
        obtain ⟨old', _, _, hg', _⟩ := (mem_jobs1 _ _ _ _ _).mp hw
        exact hhole old' ((oldToNew_iff hplan _ _).mp hg')
      · have : w.1 ∈ (jobs2 (pstrAll (stringData inp.t)) (oldToNew inp.n2o) (indexPairs inp.t m)).map (·.1) := by
          rw [← hmap]; exact List.mem_map_of_mem hw
        simp only [List.mem_map] at this
        obtain ⟨⟨j1, nm⟩, hj, ej⟩ := this
        simp only at ej
        rw [e] at ej; subst ej
        obtain ⟨old', _, _, _, hg', _⟩ := (mem_jobs2 _ _ _ _ _).mp hj
        exact hhole old' ((oldToNew_iff hplan _ _).mp hg')


/-! ## the emitted table as the reader sees it -/

theorem u32At_eq (d : Bytes) : u32At d 0 = u16At d 0 * 65536 + u16At d 2 := by
  simp only [u32At, SubsetGvar.u32At, u16At, Nat.zero_add, show 2 + 1 = 3 from rfl]; omega

theorem v2bytes_layout (hdr : Bytes) (nout : Nat) (o : TailOut) (hh : hdr.length = 32) (hn : nout < 65536)
    (ha : o.arr.length = nout) :
    (∀ j, j + 1 < 32 → u16At (v2bytes hdr nout o) j = u16At hdr j) ∧
    u16At (v2bytes hdr nout o) 32 = nout ∧
    (∀ i, i < nout → u16At (v2bytes hdr nout o) (34 + 2 * i) = o.arr.getD i 0 % 65536) ∧
    (v2bytes hdr nout o).drop (34 + 2 * nout) = o.strs.flatMap pstrEnc ∧
    (v2bytes hdr nout o).length = 34 + 2 * nout + (o.strs.flatMap pstrEnc).length := by
  have hmod : nout % 65536 = nout := Nat.mod_eq_of_lt hn
  have e : v2bytes hdr nout o =
      hdr ++ ((nout / 256 % 256) :: (nout % 256) :: (o.arr.flatMap (fun v => be16 (v % 65536)) ++ o.strs.flatMap pstrEnc)) := by
    unfold v2bytes
    rw [hmod, be16_eq]
    simp [List.append_assoc]
  refine ⟨?_, ?_, ?_, ?_, ?_⟩
  · intro j hj
    rw [e, u16At_append_left _ _ _ (by omega)]
  · rw [e]
    have := u16At_append_right hdr ((nout / 256 % 256) :: (nout % 256) :: (o.arr.flatMap (fun v => be16 (v % 65536)) ++ o.strs.flatMap pstrEnc)) 0
    rw [hh] at this
    rw [this]
    simp only [u16At, List.getD_cons_zero, List.getD_cons_succ, Nat.zero_add]
    omega
  · intro i hi
    rw [e]
    have := u16At_append_right hdr ((nout / 256 % 256) :: (nout % 256) :: (o.arr.flatMap (fun v => be16 (v % 65536)) ++ o.strs.flatMap pstrEnc)) (2 * i + 2)
    rw [hh] at this
    have e2 : 34 + 2 * i = 32 + (2 * i + 2) := by omega
    rw [e2, this, u16At_cons2, u16At_flatMap_be16 _ _ _ (by omega)]
  · rw [e]
    have hl : (hdr ++ [nout / 256 % 256, nout % 256] ++ o.arr.flatMap (fun v => be16 (v % 65536))).length = 34 + 2 * nout := by
      simp only [List.length_append, flatMap_be16_length, hh, ha, List.length_cons, List.length_nil]
    have e3 : hdr ++ ((nout / 256 % 256) :: (nout % 256) :: (o.arr.flatMap (fun v => be16 (v % 65536)) ++ o.strs.flatMap pstrEnc))
        = (hdr ++ [nout / 256 % 256, nout % 256] ++ o.arr.flatMap (fun v => be16 (v % 65536))) ++ o.strs.flatMap pstrEnc := by
      simp [List.append_assoc]
    rw [e3, ← hl, List.drop_left]
  · rw [e]
    simp only [List.length_append, flatMap_be16_length, hh, ha, List.length_cons]; omega

theorem getD_take (d : Bytes) (n j : Nat) (h : j < n) : (d.take n).getD j 0 = d.getD j 0 := by
  simp [List.getD_eq_getElem?_getD, List.getElem?_take, h]

theorem u16At_take (d : Bytes) (n j : Nat) (h : j + 1 < n) : u16At (d.take n) j = u16At d j := by
  simp only [u16At]; rw [getD_take _ _ _ (by omega), getD_take _ _ _ h]

/-- on a readable version 2.0 table `glyph_name` is the lookup in the collected iterator -/
theorem glyphName_v2 (t : Bytes) (hr : postReadable t = true) (hv : u32At t 0 = 0x00020000) (gid : Nat) :
    glyphName t gid = origName? t gid := by
  unfold glyphName origName?
  simp only [hr, Bool.not_true, Bool.false_eq_true, if_false, hv]
  simp only [show ¬ (0x00020000 = 0x00010000) by decide, if_false, if_true]
  by_cases hg : gid < postNumGlyphs t
  · simp only [hg, if_true]
    by_cases hs : u16At t (34 + 2 * gid) < 258
    · simp [hs]
    · simp only [hs, if_false]; exact pstrGet_all _ _
  · simp [hg]

/-- the version bytes of a table whose bytes are bytes -/
theorem version_bytes (t : Bytes) (hb : ∀ b ∈ t, b < 256) (hv : u32At t 0 = 0x00020000) :
    u16At t 0 = 2 ∧ u16At t 2 = 0 := by
  have hget : ∀ i, t.getD i 0 < 256 := by
    intro i
    rw [List.getD_eq_getElem?_getD]
    cases h : t[i]? with
    | none => simp
    | some b => simp; exact hb b (List.mem_of_getElem? h)
  have h0 := hget 0; have h1 := hget 1; have h2 := hget 2; have h3 := hget 3
  simp only [u32At, SubsetGvar.u32At, Nat.zero_add] at hv
  simp only [u16At, Nat.zero_add, show 2 + 1 = 3 from rfl]
  omega


/-! ## `setU16` (maxp, hhea) -/

theorem setU16_length (d : Bytes) (pos v : Nat) : (setU16 d pos v).length = d.length := by simp [setU16]

theorem setU16_getElem?_ne (d : Bytes) (pos v i : Nat) (h1 : i ≠ pos) (h2 : i ≠ pos + 1) :
    (setU16 d pos v)[i]? = d[i]? := by
  simp only [setU16, List.getElem?_set]
  have a : ¬ pos + 1 = i := fun e => h2 e.symm
  have b : ¬ pos = i := fun e => h1 e.symm
  simp [a, b]

theorem u16At_setU16 (d : Bytes) (pos v : Nat) (hv : v < 65536) (hp : pos + 1 < d.length) :
    u16At (setU16 d pos v) pos = v := by
  simp only [u16At, setU16, List.getD_eq_getElem?_getD, List.getElem?_set]
  simp [hp, show pos < d.length by omega]
  omega

theorem u16At_setU16_ne (d : Bytes) (pos v q : Nat) (h : q + 1 < pos ∨ pos + 1 < q) :
    u16At (setU16 d pos v) q = u16At d q := by
  simp only [u16At, List.getD_eq_getElem?_getD]
  rw [setU16_getElem?_ne _ _ _ _ (by omega) (by omega), setU16_getElem?_ne _ _ _ _ (by omega) (by omega)]


theorem flatMap_const_length {α : Type} (l : List α) (f : α → Bytes) (k : Nat) (h : ∀ x, (f x).length = k) :
    (l.flatMap f).length = k * l.length := by
  induction l with
  | nil => simp
  | cons x rest ih => rw [List.flatMap_cons, List.length_append, ih, h, List.length_cons]; rw [Nat.mul_succ]; omega


/-! ## VORG -/

/-- `vertical_origin_y` as a plain lookup -/
def vorgLookup (recs : List (Nat × Nat)) (gid dflt : Nat) : Nat :=
  match recs.find? (fun r => r.1 == gid) with
  | some r => r.2
  | none => dflt

theorem find_key_of_getElem? : ∀ (recs : List (Nat × Nat)) (i : Nat) (r : Nat × Nat),
    (recs.map (·.1)).Pairwise (· ≠ ·) → recs[i]? = some r → recs.find? (fun x => x.1 == r.1) = some r := by
  intro recs
  induction recs with
  | nil => intro i r _ h; simp at h
  | cons x rest ih =>
    intro i r hd h
    simp only [List.map_cons, List.pairwise_cons] at hd
    cases i with
    | zero => simp only [List.getElem?_cons_zero, Option.some.injEq] at h; subst h; simp
    | succ i =>
      simp only [List.getElem?_cons_succ] at h
      have hne : x.1 ≠ r.1 := hd.1 r.1 (List.mem_map_of_mem (List.mem_of_getElem? h))
      simp only [List.find?_cons, beq_iff_eq, hne, if_false]
      have : (x.1 == r.1) = false := by simp [hne]
      simp only [this]
      exact ih i r hd.2 h

/-- read-fonts' binary search on records sorted by glyph index is the plain lookup -/
theorem vorgSearch_sorted (recs : List (Nat × Nat)) (hs : (recs.map (·.1)).Pairwise (· < ·)) (gid dflt : Nat) :
    (match Layout.binarySearchBy recs.length (fun i => Layout.natCmp (recs.getD i (0, 0)).1 gid) with
     | .ok ix => (match recs[ix]? with | some r => r.2 | none => 0)
     | .err _ => dflt) = vorgLookup recs gid dflt := by
  have hkey : ∀ i, i < recs.length → (recs.getD i (0, 0)).1 = (recs.map (·.1)).getD i 0 := by
    intro i hi
    simp [List.getD_eq_getElem?_getD, List.getElem?_eq_getElem hi]
  have hm : Layout.Mono recs.length (fun i => Layout.natCmp (recs.getD i (0, 0)).1 gid) := by
    intro i j hij hj
    simp only [hkey i (by omega), hkey j hj]
    apply Layout.rank_natCmp_mono
    exact Layout.pairwise_lt_getElem?_le hs hij (Layout.getElem?_of_lt_getD 0 (by simp; omega))
      (Layout.getElem?_of_lt_getD 0 (by simp; omega))
  have hne : (recs.map (·.1)).Pairwise (· ≠ ·) := hs.imp (fun h => by omega)
  unfold vorgLookup
  cases hr : Layout.binarySearchBy recs.length (fun i => Layout.natCmp (recs.getD i (0, 0)).1 gid) with
  | ok i =>
    obtain ⟨hi, he⟩ := Layout.bs_ok hm hr
    have he' := Layout.natCmp_eq.mp he
    have hget : recs[i]? = some (recs.getD i (0, 0)) := Layout.getElem?_of_lt_getD _ hi
    have := find_key_of_getElem? recs i _ hne hget
    rw [he'] at this
    simp only [hget, this]
  | err i =>
    have hno := Layout.bs_err_no_eq hm hr
    have : recs.find? (fun r => r.1 == gid) = none := by
      rw [List.find?_eq_none]
      intro r hr' e
      obtain ⟨k, hk⟩ := List.getElem?_of_mem hr'
      have hkl : k < recs.length := (List.getElem?_eq_some_iff.mp hk).1
      apply hno k hkl
      simp only [Layout.getD_of_getElem? hk]
      exact Layout.natCmp_eq.mpr (by simpa using e)
    simp only [this]

/-- the plan's renumbering is strictly monotone (C17 `glyph_map_monotone_bijection`) -/
def PlanMono (n2o : List (Nat × Nat)) : Prop := n2o.Pairwise (fun a b => a.1 < b.1 ∧ a.2 < b.2)

theorem planMono_ok {n2o : List (Nat × Nat)} {nout : Nat} (h : PlanMono n2o) (hb : ∀ no ∈ n2o, no.1 < nout) :
    PlanOk n2o nout := by
  refine ⟨?_, ?_, hb⟩
  · rw [List.pairwise_map]; exact h.imp (fun h => by omega)
  · rw [List.pairwise_map]; exact h.imp (fun h => by omega)

theorem pairwise_mem_cases {α : Type} {R : α → α → Prop} : ∀ {l : List α}, l.Pairwise R → ∀ a ∈ l, ∀ b ∈ l,
    a = b ∨ R a b ∨ R b a := by
  intro l
  induction l with
  | nil => intro _ a ha; simp at ha
  | cons x rest ih =>
    intro hp a ha b hb
    simp only [List.pairwise_cons] at hp
    simp only [List.mem_cons] at ha hb
    rcases ha with rfl | ha <;> rcases hb with rfl | hb
    · exact Or.inl rfl
    · exact Or.inr (Or.inl (hp.1 b hb))
    · exact Or.inr (Or.inr (hp.1 a ha))
    · exact ih hp.2 a ha b hb

theorem gmap_mono {n2o : List (Nat × Nat)} {nout : Nat} (h : PlanMono n2o) (hb : ∀ no ∈ n2o, no.1 < nout)
    {a b x y : Nat} (ha : oldToNew n2o a = some x) (hbb : oldToNew n2o b = some y) (hlt : a < b) : x < y := by
  have hok := planMono_ok h hb
  have m1 := (oldToNew_iff hok a x).mp ha
  have m2 := (oldToNew_iff hok b y).mp hbb
  rcases pairwise_mem_cases h _ m1 _ m2 with e | e | e
  · simp only [Prod.mk.injEq] at e; omega
  · exact e.1
  · simp only at e; omega

/-- the kept records stay sorted by (new) glyph index -/
theorem vorgKept_sorted {n2o : List (Nat × Nat)} {nout : Nat} (h : PlanMono n2o) (hb : ∀ no ∈ n2o, no.1 < nout)
    (hn : nout ≤ 65536) (recs : List (Nat × Nat)) (hs : (recs.map (·.1)).Pairwise (· < ·)) :
    ((vorgKept (oldToNew n2o) recs).map (·.1)).Pairwise (· < ·) := by
  have hok := planMono_ok h hb
  rw [List.pairwise_map] at hs ⊢
  unfold vorgKept
  refine List.Pairwise.filterMap _ ?_ hs
  intro a a' hlt b hb' b' hb''
  cases hg1 : oldToNew n2o a.1 with
  | none => simp [hg1] at hb'
  | some n1 =>
    cases hg2 : oldToNew n2o a'.1 with
    | none => simp [hg2] at hb''
    | some n2 =>
      simp only [hg1, Option.some.injEq] at hb'
      simp only [hg2, Option.some.injEq] at hb''
      subst hb'; subst hb''
      simp only
      have := gmap_mono h hb hg1 hg2 hlt
      have b1 := hb _ ((oldToNew_iff hok _ _).mp hg1)
      have b2 := hb _ ((oldToNew_iff hok _ _).mp hg2)
      simp only at b1 b2
      rw [Nat.mod_eq_of_lt (by omega), Nat.mod_eq_of_lt (by omega)]
      exact this

/-- the kept records answer for a new id what the source records answer for its old id (no sortedness needed) -/
theorem vorgKept_find {n2o : List (Nat × Nat)} {nout : Nat} (hok : PlanOk n2o nout) (hn : nout ≤ 65536)
    (new old : Nat) (hg : oldToNew n2o old = some new) : ∀ (recs : List (Nat × Nat)),
    (vorgKept (oldToNew n2o) recs).find? (fun r => r.1 == new) =
      (recs.find? (fun r => r.1 == old)).map (fun r => (new, r.2)) := by
  intro recs
  induction recs with
  | nil => rfl
  | cons r rest ih =>
    unfold vorgKept at ih ⊢
    rw [List.filterMap_cons]
    cases hr : oldToNew n2o r.1 with
    | none =>
      simp only
      have : (r.1 == old) = false := by
        simp only [beq_eq_false_iff_ne]; intro e; rw [e, hg] at hr; cases hr
      rw [List.find?_cons, this]
      exact ih
    | some n =>
      simp only
      have bn := hok.bound _ ((oldToNew_iff hok _ _).mp hr)
      simp only at bn
      have hmod : n % 65536 = n := Nat.mod_eq_of_lt (by omega)
      rw [List.find?_cons, List.find?_cons, hmod]
      by_cases e : r.1 = old
      · have : n = new := by rw [e, hg] at hr; cases hr; rfl
        subst this; subst e
        simp
      · have hne : n ≠ new := by
          intro e2; subst e2; exact e (gmap_inj hok hr hg)
        have h1 : (n == new) = false := by simp [hne]
        have h2 : (r.1 == old) = false := by simp [e]
        simp only [h1, h2]
        exact ih

theorem vorgLookup_kept {n2o : List (Nat × Nat)} {nout : Nat} (hok : PlanOk n2o nout) (hn : nout ≤ 65536)
    (new old dflt : Nat) (hg : oldToNew n2o old = some new) (recs : List (Nat × Nat)) :
    vorgLookup (vorgKept (oldToNew n2o) recs) new dflt = vorgLookup recs old dflt := by
  unfold vorgLookup
  rw [vorgKept_find hok hn new old hg recs]
  cases recs.find? (fun r => r.1 == old) <;> rfl


theorem u16At_lt (t : Bytes) (hb : ∀ b ∈ t, b < 256) (i : Nat) : u16At t i < 65536 := by
  have hget : ∀ i, t.getD i 0 < 256 := by
    intro i
    rw [List.getD_eq_getElem?_getD]
    cases h : t[i]? with
    | none => simp
    | some b => simp; exact hb b (List.mem_of_getElem? h)
  have h0 := hget i; have h1 := hget (i + 1)
  simp only [u16At]; omega

def enc4 (r : Nat × Nat) : Bytes := be16 r.1 ++ be16 r.2

theorem u16At_flatMap_enc4 : ∀ (recs : List (Nat × Nat)) (k : Nat), k < recs.length →
    (∀ r ∈ recs, r.1 < 65536 ∧ r.2 < 65536) →
    u16At (recs.flatMap enc4) (4 * k) = (recs.getD k (0, 0)).1 ∧
    u16At (recs.flatMap enc4) (4 * k + 2) = (recs.getD k (0, 0)).2 := by
  intro recs
  induction recs with
  | nil => intro k h; simp at h
  | cons r rest ih =>
    intro k h hv
    have hr := hv r (by simp)
    rw [List.flatMap_cons]
    simp only [enc4, be16_eq, List.cons_append, List.nil_append]
    cases k with
    | zero =>
      simp only [u16At, Nat.mul_zero, Nat.zero_add, List.getD_cons_zero, List.getD_cons_succ]
      omega
    | succ k =>
      simp only [List.length_cons] at h
      obtain ⟨i1, i2⟩ := ih k (by omega) (fun x hx => hv x (List.mem_cons_of_mem _ hx))
      simp only [List.getD_cons_succ]
      constructor
      · have e1 : 4 * (k + 1) = (4 * k + 2) + 2 := by omega
        rw [e1, u16At_cons2, u16At_cons2]; exact i1
      · have e2 : 4 * (k + 1) + 2 = ((4 * k + 2) + 2) + 2 := by omega
        rw [e2, u16At_cons2, u16At_cons2]; exact i2

theorem vorgOut_reader (hdr : Bytes) (kept : List (Nat × Nat)) (hh : hdr.length = 6) (hc : kept.length < 65536)
    (hv : ∀ r ∈ kept, r.1 < 65536 ∧ r.2 < 65536) :
    vorgReadable (hdr ++ be16 (kept.length % 65536) ++ kept.flatMap enc4) = true ∧
    vorgRecords (hdr ++ be16 (kept.length % 65536) ++ kept.flatMap enc4) = kept ∧
    u16At (hdr ++ be16 (kept.length % 65536) ++ kept.flatMap enc4) 4 = u16At hdr 4 := by
  have hmod : kept.length % 65536 = kept.length := Nat.mod_eq_of_lt hc
  have hpre : (hdr ++ be16 (kept.length % 65536)).length = 8 := by simp [hh, be16_eq]
  have hlen : (hdr ++ be16 (kept.length % 65536) ++ kept.flatMap enc4).length = 8 + 4 * kept.length := by
    rw [List.length_append, hpre, flatMap_const_length _ _ 4 (fun _ => rfl)]
  have hcnt : u16At (hdr ++ be16 (kept.length % 65536) ++ kept.flatMap enc4) 6 = kept.length := by
    rw [List.append_assoc]
    have := u16At_append_right hdr (be16 (kept.length % 65536) ++ kept.flatMap enc4) 0
    rw [hh] at this
    rw [this, hmod, be16_eq]
    simp only [u16At, List.cons_append, List.getD_cons_zero, List.getD_cons_succ, Nat.zero_add]
    omega
  refine ⟨?_, ?_, ?_⟩
  · unfold vorgReadable
    rw [hcnt, hlen]; simp
  · unfold vorgRecords
    rw [hcnt]
    apply List.ext_getElem?
    intro k
    by_cases hk : k < kept.length
    · rw [List.getElem?_map, List.getElem?_range hk]
      simp only [Option.map_some]
      have a := u16At_append_right (hdr ++ be16 (kept.length % 65536)) (kept.flatMap enc4) (4 * k)
      have b := u16At_append_right (hdr ++ be16 (kept.length % 65536)) (kept.flatMap enc4) (4 * k + 2)
      rw [hpre] at a b
      have e2 : 10 + 4 * k = 8 + (4 * k + 2) := by omega
      obtain ⟨i1, i2⟩ := u16At_flatMap_enc4 kept k hk hv
      rw [e2, a, b, i1, i2, List.getElem?_eq_getElem hk]
      simp [List.getD_eq_getElem?_getD, List.getElem?_eq_getElem hk]
    · rw [List.getElem?_eq_none (by simp; omega), List.getElem?_eq_none (by omega)]
  · rw [List.append_assoc, u16At_append_left _ _ _ (by omega)]


/-! ## the name counter cannot run over: at most 65536 − 258 distinct custom names -/

theorem nodup_subset_length {α : Type} [DecidableEq α] : ∀ (l m : List α), l.Pairwise (· ≠ ·) →
    (∀ x ∈ l, x ∈ m) → l.length ≤ m.length := by
  intro l
  induction l with
  | nil => intro m _ _; simp
  | cons x rest ih =>
    intro m hd hsub
    simp only [List.pairwise_cons] at hd
    have hx : x ∈ m := hsub x (by simp)
    have hrest : ∀ y ∈ rest, y ∈ m.erase x := by
      intro y hy
      have hne : y ≠ x := fun e => hd.1 y hy e.symm
      exact (List.mem_erase_of_ne hne).mpr (hsub y (List.mem_cons_of_mem _ hy))
    have := ih (m.erase x) hd.2 hrest
    rw [List.length_erase_of_mem hx] at this
    have hpos : 0 < m.length := List.length_pos_of_mem hx
    simp only [List.length_cons]; omega

/-- every emitted string needs its own glyphNameIndex value in 258..=65535 of the source table, so the pool has at
most 65278 strings and the `u16` counter `i` never wraps before its last use -/
theorem pool_size_bound (inp : PostIn) (hb : ∀ b ∈ inp.t, b < 256) : (v2tail inp).strs.length ≤ 65278 := by
  unfold v2tail
  cases hm : inp.maxOld with
  | none => simp
  | some m =>
    simp only
    obtain ⟨hinv, _, _, _, _, hsrc, _⟩ := runPool_spec (jobs2 (pstrAll (stringData inp.t)) (oldToNew inp.n2o) (indexPairs inp.t m))
      Pool.init poolInv_init
    generalize (runPool Pool.init (jobs2 (pstrAll (stringData inp.t)) (oldToNew inp.n2o) (indexPairs inp.t m))).2 = pf at hinv hsrc
    have hsub : ∀ x ∈ pf.strs.map some, x ∈ (pstrAll (stringData inp.t)).take 65278 := by
      intro x hx
      simp only [List.mem_map] at hx
      obtain ⟨s, hs, rfl⟩ := hx
      rcases hsrc s hs with h0 | ⟨new, hj, _⟩
      · simp [Pool.init] at h0
      · obtain ⟨old, ni, hp, hge, _, hget⟩ := (mem_jobs2 _ _ _ _ _).mp hj
        have hni := ((mem_indexPairs _ _ _ _).mp hp).2.2
        have hlt : ni < 65536 := by rw [hni]; exact u16At_lt _ hb _
        have : ((pstrAll (stringData inp.t)).take 65278)[ni - 258]? = some (some s) := by
          rw [List.getElem?_take]; simp only [show ni - 258 < 65278 by omega, if_true]; exact hget
        exact List.mem_of_getElem? this
    have hd : (pf.strs.map some).Pairwise (· ≠ ·) := by
      rw [List.pairwise_map]
      exact hinv.nodup.imp (fun h e => h (Option.some.inj e))
    have := nodup_subset_length _ _ hd hsub
    simp only [List.length_map, List.length_take] at this
    omega


/-! ## request hypotheses and the shape of successful runs (used by Props/C17Post.lean) -/

/-- What `Plan::new` guarantees about the request a `post` version 2.0 table is rebuilt for (see
`C17.glyph_map_monotone_bijection`: new ids pairwise distinct, old ids pairwise distinct, every new id below
`num_output_glyphs`; `plan.glyphset.last()` bounds every kept glyph and is `None` only for an empty glyph set),
plus: GLYPH_NAMES requested, the table says version 2.0, its bytes are bytes, fewer than 65536 output glyphs. -/
structure PostReq (inp : PostIn) : Prop where
  flag : hasFlag inp.flags F_GLYPH_NAMES = true
  ver : u32At inp.t 0 = 0x00020000
  bytes : ∀ b ∈ inp.t, b < 256
  plan : PlanOk inp.n2o inp.nout
  nout : inp.nout < 65536
  maxSome : ∀ m, inp.maxOld = some m → ∀ no ∈ inp.n2o, no.2 ≤ m
  maxNone : inp.maxOld = none → inp.n2o = []

/-- the shape of a successful version 2.0 rebuild -/
theorem subsetPost_v2_ok (inp : PostIn) (out : Bytes) (hr : PostReq inp) (h : subsetPost inp = .ok out) :
    postReadable inp.t = true ∧ out = v2bytes (inp.t.take 32) inp.nout (v2tail inp) := by
  unfold subsetPost at h
  by_cases hrd : postReadable inp.t = true
  · simp only [hrd, Bool.not_true, Bool.false_eq_true, if_false, hr.flag, hr.ver, and_self, if_true] at h
    split at h
    · cases h
    split at h
    · cases h
    split at h
    · cases h
    · simp only [Except.ok.injEq] at h
      exact ⟨hrd, h.symm⟩
  · simp [hrd] at h

/-- the source table of a successful rebuild has its 34 header bytes -/
theorem readable_v2_length (t : Bytes) (hb : ∀ b ∈ t, b < 256) (hv : u32At t 0 = 0x00020000)
    (hr : postReadable t = true) : 34 + 2 * postNumGlyphs t ≤ t.length := by
  have := (version_bytes t hb hv).1
  unfold postReadable hasV2Fields at hr
  simp only [this, beq_self_eq_true, if_true, decide_eq_true_eq] at hr
  exact hr

/-- what the reader sees in the rebuilt table -/
theorem out_reader (inp : PostIn) (out : Bytes) (hr : PostReq inp) (h : subsetPost inp = .ok out) :
    postReadable out = true ∧ u32At out 0 = 0x00020000 ∧ postNumGlyphs out = inp.nout ∧
    (∀ i, i < inp.nout → u16At out (34 + 2 * i) = (v2tail inp).arr.getD i 0 % 65536) ∧
    stringData out = (v2tail inp).strs.flatMap pstrEnc := by
  obtain ⟨hrd, hout⟩ := subsetPost_v2_ok inp out hr h
  have hlen := readable_v2_length inp.t hr.bytes hr.ver hrd
  have hh : (inp.t.take 32).length = 32 := by simp; omega
  obtain ⟨l1, l2, l3, l4, l5⟩ := v2bytes_layout (inp.t.take 32) inp.nout (v2tail inp) hh hr.nout (v2tail_arr_length inp)
  obtain ⟨v0, v2⟩ := version_bytes inp.t hr.bytes hr.ver
  have h0 : u16At out 0 = 2 := by rw [hout, l1 0 (by omega), u16At_take _ _ _ (by omega)]; exact v0
  have h2 : u16At out 2 = 0 := by rw [hout, l1 2 (by omega), u16At_take _ _ _ (by omega)]; exact v2
  have hng : postNumGlyphs out = inp.nout := by unfold postNumGlyphs; rw [hout]; exact l2
  refine ⟨?_, ?_, hng, ?_, ?_⟩
  · unfold postReadable hasV2Fields
    simp only [h0, beq_self_eq_true, if_true, decide_eq_true_eq, hng]
    rw [hout, l5]; omega
  · rw [u32At_eq, h0, h2]
  · intro i hi; rw [hout]; exact l3 i hi
  · unfold stringData; rw [hng, hout]; exact l4


theorem glyphName_other_version (t : Bytes) (gid : Nat) (h1 : u32At t 0 ≠ 0x00010000) (h2 : u32At t 0 ≠ 0x00020000) :
    glyphName t gid = none := by
  unfold glyphName
  split
  · rfl
  · simp only [h1, h2, if_false]


theorem subsetVorg_ok (n2o : List (Nat × Nat)) (srcGlyphs nout : Nat) (t out : Bytes)
    (h : subsetVorg n2o srcGlyphs nout t = .ok out) :
    vorgReadable t = true ∧
    out = t.take 6 ++ be16 ((vorgKept (oldToNew n2o) (vorgRecords t)).length % 65536) ++
      (vorgKept (oldToNew n2o) (vorgRecords t)).flatMap enc4 := by
  unfold subsetVorg at h
  by_cases hr : vorgReadable t = true
  · simp only [hr, Bool.not_true, Bool.false_eq_true, if_false] at h
    split at h
    · cases h
    · simp only [Except.ok.injEq] at h
      exact ⟨hr, h.symm⟩
  · simp [hr] at h


end FontVerif.SubsetPost
