/-
Sparse-bit-set codec, encoder: the node vector built by the `while height > 0 { create_layer }`
loop, described semantically from the member list `S`:
`Ids k p`  — some member lies below node `p` of level `k` (level 0 = the values themselves);
`Full k p` — every value below node `p` of level `k` is a member.
-/
import FontVerif.Lemmas.SbsLayer
set_option linter.unusedVariables false
namespace FontVerif.SparseBitSet

/-- node `p` of level `k` has a member below it -/
def Ids (bf : Nat) (S : List Nat) (k p : Nat) : Prop := ∃ m ∈ S, m / bf ^ k = p

/-- every value below node `p` of level `k` is a member -/
def Full (bf : Nat) (S : List Nat) (k p : Nat) : Prop := ∀ x, x / bf ^ k = p → x ∈ S

theorem div_pow_succ (bf x k : Nat) : x / bf ^ (k + 1) = x / bf ^ k / bf := by
  rw [Nat.pow_succ, Nat.div_div_eq_div_mul]

theorem ids_zero (bf : Nat) (S : List Nat) (v : Nat) : Ids bf S 0 v ↔ v ∈ S := by
  simp [Ids]

theorem full_zero (bf : Nat) (S : List Nat) (v : Nat) : Full bf S 0 v ↔ v ∈ S := by
  simp [Full]

theorem ids_succ (bf : Nat) (S : List Nat) (k p : Nat) :
    Ids bf S (k + 1) p ↔ ∃ v, Ids bf S k v ∧ v / bf = p := by
  simp only [Ids, div_pow_succ]
  constructor
  · rintro ⟨m, hm, rfl⟩; exact ⟨_, ⟨m, hm, rfl⟩, rfl⟩
  · rintro ⟨v, ⟨m, hm, rfl⟩, rfl⟩; exact ⟨m, hm, rfl⟩

theorem full_succ {bf : Nat} (hbf : 0 < bf) (S : List Nat) (k p : Nat) :
    Full bf S (k + 1) p ↔ ∀ j, j < bf → Full bf S k (p * bf + j) := by
  simp only [Full, div_pow_succ]
  constructor
  · intro h j hj x hx
    apply h
    rw [hx]; exact ((div_mod_unique hbf hj).mp rfl).1
  · intro h x hx
    have hj : x / bf ^ k % bf < bf := Nat.mod_lt _ hbf
    apply h _ hj x
    exact ((div_mod_unique hbf hj).mpr ⟨hx, rfl⟩).symm

theorem full_ids {bf : Nat} (hbf : 0 < bf) {S : List Nat} {k p : Nat} (h : Full bf S k p) :
    Ids bf S k p :=
  ⟨p * bf ^ k, h _ (Nat.mul_div_cancel _ (Nat.pow_pos hbf)), Nat.mul_div_cancel _ (Nat.pow_pos hbf)⟩

/-- above the tree height nothing is full -/
theorem not_full_above {bf : Nat} (hbf : 2 ≤ bf) {S : List Nat} {H : Nat}
    (hS : ∀ m ∈ S, m < bf ^ H) (q : Nat) : ¬ Full bf S (H + 1) q := by
  intro h
  have hpos : 0 < bf ^ (H + 1) := Nat.pow_pos (by omega)
  have hlt : bf ^ H < bf ^ (H + 1) := Nat.pow_lt_pow_right (by omega) (Nat.lt_succ_self _)
  have hx : (bf ^ H + q * bf ^ (H + 1)) / bf ^ (H + 1) = q := by
    rw [Nat.add_mul_div_right _ _ hpos, Nat.div_eq_of_lt hlt, Nat.zero_add]
  have := hS _ (h _ hx)
  have : bf ^ H ≤ bf ^ H + q * bf ^ (H + 1) := Nat.le_add_right _ _
  omega

/-! ### layers of nodes -/

/-- the nodes of tree level `k + 1` as pushed by `create_layer` (descending index order) -/
structure LayerNew (bf : Nat) (S : List Nat) (k : Nat) (N : List Node) : Prop where
  sorted : (N.map (·.parentIndex)).reverse.Pairwise (· < ·)
  mem : ∀ p, p ∈ N.map (·.parentIndex) ↔ Ids bf S (k + 1) p
  bits : ∀ n ∈ N, ∀ i, n.bits.testBit i = true ↔ (i < bf ∧ Ids bf S k (n.parentIndex * bf + i))
  filled : ∀ n ∈ N, Full bf S (k + 1) n.parentIndex → n.nodeType = NodeType.filled
  standard : ∀ n ∈ N, ¬ Full bf S (k + 1) n.parentIndex → n.nodeType = NodeType.standard

/-- the nodes of tree level `k + 1` in the finished node vector: children of a full node are
`Skip`, full nodes with a non-full parent are `Filled`, the others `Standard` -/
structure LayerFinal (bf : Nat) (S : List Nat) (k : Nat) (N : List Node) : Prop where
  sorted : (N.map (·.parentIndex)).reverse.Pairwise (· < ·)
  mem : ∀ p, p ∈ N.map (·.parentIndex) ↔ Ids bf S (k + 1) p
  bits : ∀ n ∈ N, ∀ i, n.bits.testBit i = true ↔ (i < bf ∧ Ids bf S k (n.parentIndex * bf + i))
  skip : ∀ n ∈ N, Full bf S (k + 2) (n.parentIndex / bf) → n.nodeType = NodeType.skip
  filled : ∀ n ∈ N, ¬ Full bf S (k + 2) (n.parentIndex / bf) → Full bf S (k + 1) n.parentIndex →
    n.nodeType = NodeType.filled
  standard : ∀ n ∈ N, ¬ Full bf S (k + 2) (n.parentIndex / bf) →
    ¬ Full bf S (k + 1) n.parentIndex → n.nodeType = NodeType.standard

theorem markBy_parentIndex (bf : Nat) (uf : List Nat) (c : Node) :
    (markBy bf uf c).parentIndex = c.parentIndex := by
  simp only [markBy]; split <;> rfl

theorem markBy_bits (bf : Nat) (uf : List Nat) (c : Node) : (markBy bf uf c).bits = c.bits := by
  simp only [markBy]; split <;> rfl

theorem map_markBy_ids (bf : Nat) (uf : List Nat) (N : List Node) :
    (N.map (markBy bf uf)).map (·.parentIndex) = N.map (·.parentIndex) := by
  rw [List.map_map]
  apply List.map_congr_left
  intro c _
  exact markBy_parentIndex bf uf c

theorem layerFinal_of_mark {bf : Nat} {S : List Nat} {k : Nat} {N : List Node} (uf : List Nat)
    (hN : LayerNew bf S k N) (huf : ∀ p, p ∈ uf ↔ Full bf S (k + 2) p) :
    LayerFinal bf S k (N.map (markBy bf uf)) := by
  refine ⟨by rw [map_markBy_ids]; exact hN.sorted, by rw [map_markBy_ids]; exact hN.mem,
    ?_, ?_, ?_, ?_⟩
  · intro n hn i
    obtain ⟨c, hc, rfl⟩ := List.mem_map.mp hn
    rw [markBy_bits, markBy_parentIndex]; exact hN.bits c hc i
  · intro n hn hf
    obtain ⟨c, hc, rfl⟩ := List.mem_map.mp hn
    rw [markBy_parentIndex] at hf
    simp [markBy, (huf _).mpr hf]
  · intro n hn hnf hf
    obtain ⟨c, hc, rfl⟩ := List.mem_map.mp hn
    rw [markBy_parentIndex] at hnf hf
    have : c.parentIndex / bf ∉ uf := fun h => hnf ((huf _).mp h)
    simp only [markBy, this, if_false]; exact hN.filled c hc hf
  · intro n hn hnf hf
    obtain ⟨c, hc, rfl⟩ := List.mem_map.mp hn
    rw [markBy_parentIndex] at hnf hf
    have : c.parentIndex / bf ∉ uf := fun h => hnf ((huf _).mp h)
    simp only [markBy, this, if_false]; exact hN.standard c hc hf

theorem layerFinal_of_top {bf : Nat} {S : List Nat} {k : Nat} {N : List Node}
    (hN : LayerNew bf S k N) (htop : ∀ q, ¬ Full bf S (k + 2) q) : LayerFinal bf S k N :=
  ⟨hN.sorted, hN.mem, hN.bits, fun n _ hf => absurd hf (htop _),
    fun n hn _ hf => hN.filled n hn hf, fun n hn _ hf => hN.standard n hn hf⟩

/-! ### one `create_layer` call at level `k` -/

theorem createLayer_level {bf : Nat} (hbf : 0 < bf) (S : List Nat) (k : Nat)
    (values : List Nat) (filled : Option (List Nat)) (old last : List Node)
    (hv : values.Pairwise (· < ·)) (hmem : ∀ v, v ∈ values ↔ Ids bf S k v)
    (hfil : ∀ v, v ∈ values → (isF filled v = true ↔ Full bf S k v))
    (hl : last.length = values.length ∨ (old = [] ∧ last = [])) :
    ∃ upper uf new, createLayer bf values filled (old ++ last)
        = (upper, uf, old ++ last.map (markBy bf uf) ++ new) ∧
      upper.Pairwise (· < ·) ∧ (∀ p, p ∈ upper ↔ Ids bf S (k + 1) p) ∧
      (∀ p, p ∈ uf ↔ Full bf S (k + 1) p) ∧
      new.length = upper.length ∧ LayerNew bf S k new := by
  obtain ⟨h1, h2, h3, h4, new, h5, h6⟩ := createLayer_spec hbf values filled old last hv hl
  generalize createLayer bf values filled (old ++ last) = r at *
  obtain ⟨upper, uf, nodes⟩ := r
  simp only [] at h1 h2 h3 h4 h5 h6
  have hup : ∀ p, p ∈ upper ↔ Ids bf S (k + 1) p := by
    intro p
    rw [h2 p, ids_succ]
    constructor
    · rintro ⟨v, hv, rfl⟩; exact ⟨v, (hmem v).mp hv, rfl⟩
    · rintro ⟨v, hv, rfl⟩; exact ⟨v, (hmem v).mpr hv, rfl⟩
  have huf : ∀ p, p ∈ uf ↔ Full bf S (k + 1) p := by
    intro p
    rw [h4 p, full_succ hbf]
    constructor
    · rintro ⟨_, hall⟩ j hj
      exact (hfil _ (hall j hj).1).mp (hall j hj).2
    · intro hall
      refine ⟨(hup p).mpr (full_ids hbf ((full_succ hbf S k p).mpr hall)), fun j hj => ?_⟩
      have hm : p * bf + j ∈ values := (hmem _).mpr (full_ids hbf (hall j hj))
      exact ⟨hm, (hfil _ hm).mpr (hall j hj)⟩
  refine ⟨upper, uf, new, by rw [h5], h1, hup, huf, ?_, ?_⟩
  · have := congrArg List.length h6.ids
    simpa using this
  · refine ⟨by rw [h6.ids, List.reverse_reverse]; exact h1, ?_, ?_, ?_, ?_⟩
    · intro p; rw [h6.ids, List.mem_reverse]; exact hup p
    · intro n hn i
      rw [h6.bits n hn i, hmem]
    · intro n hn hf
      rw [h6.types n hn, if_pos ((huf _).mpr hf)]
    · intro n hn hf
      rw [h6.types n hn, if_neg (fun h => hf ((huf _).mp h))]

/-! ### the `while height > 0` loop -/

/-- `h` more `create_layer` calls starting from the index list of level `k` (`k + h = H`, the
tree height, all members `< bf^H`): the node vector becomes `old ++ last' ++ layers.flatten`
where `last'` is `last` with the children of full nodes marked (if any call is made) and
`layers[i]` are the finished nodes of level `k + i + 1`. -/
theorem buildLayers_spec {bf : Nat} (hbf : 2 ≤ bf) (S : List Nat) (H : Nat)
    (hS : ∀ m ∈ S, m < bf ^ H) :
    ∀ (h k : Nat), k + h = H → ∀ (values : List Nat) (filled : Option (List Nat))
      (old last : List Node), values.Pairwise (· < ·) → (∀ v, v ∈ values ↔ Ids bf S k v) →
      (∀ v, v ∈ values → (isF filled v = true ↔ Full bf S k v)) →
      (last.length = values.length ∨ (old = [] ∧ last = [])) →
      ∃ (uf : List Nat) (layers : List (List Node)),
        buildLayers bf h values filled (old ++ last)
          = old ++ last.map (markBy bf uf) ++ layers.flatten ∧
        (h = 0 → uf = []) ∧ (0 < h → ∀ p, p ∈ uf ↔ Full bf S (k + 1) p) ∧
        layers.length = h ∧ ∀ i (hi : i < layers.length), LayerFinal bf S (k + i) layers[i]
  | 0, k, _, values, filled, old, last, _, _, _, _ => by
    refine ⟨[], [], by simp [buildLayers, markBy_nil], fun _ => rfl, by omega, rfl, ?_⟩
    intro i hi; simp at hi
  | h + 1, k, hk, values, filled, old, last, hv, hmem, hfil, hl => by
    have hbf0 : 0 < bf := by omega
    obtain ⟨upper, uf, new, hcl, hup1, hup2, huf, hlen, hnew⟩ :=
      createLayer_level hbf0 S k values filled old last hv hmem hfil hl
    have hfil' : ∀ v, v ∈ upper → (isF (some uf) v = true ↔ Full bf S (k + 1) v) := by
      intro v _
      simp only [isF, List.contains_iff_mem]
      exact huf v
    obtain ⟨uf', layers', hb, huf0, hufpos, hll, hlay⟩ :=
      buildLayers_spec hbf S H hS h (k + 1) (by omega) upper (some uf)
        (old ++ last.map (markBy bf uf)) new hup1 hup2 hfil' (Or.inl hlen)
    refine ⟨uf, new.map (markBy bf uf') :: layers', ?_, by omega, fun _ => huf, by simp [hll], ?_⟩
    · simp only [buildLayers, hcl]
      rw [hb]
      simp [List.append_assoc]
    · intro i hi
      cases i with
      | zero =>
        simp only [List.getElem_cons_zero, Nat.add_zero]
        rcases Nat.eq_zero_or_pos h with h0 | h0
        · rw [huf0 h0, markBy_nil]
          apply layerFinal_of_top hnew
          intro q
          have : k + 2 = H + 1 := by omega
          rw [this]
          exact not_full_above hbf hS q
        · exact layerFinal_of_mark uf' hnew (hufpos h0)
      | succ i =>
        simp only [List.getElem_cons_succ]
        have := hlay i (by simpa using hi)
        have e : k + (i + 1) = k + 1 + i := by omega
        rw [e]; exact this

end FontVerif.SparseBitSet
