/-
Helper lemmas for the glyph-variation-data round trip (Model/GvarData.lean): scalar and header
parsing, the tuple iterator over written headers, the packed point / delta streams inside one
tuple, and the facts about `pick_best_point_number_repr`.
-/
import FontVerif.Model.GvarData
import FontVerif.Props.C10
set_option linter.unusedVariables false
namespace FontVerif.GvarData
open FontVerif FontVerif.PackedDeltas

/-! ### scalars -/

theorem rd16_be16 (n : Nat) (h : n < 65536) (rest : List Nat) :
    ∃ a b, be16 n ++ rest = a :: b :: rest ∧ rd16 a b = n :=
  ⟨n / 256 % 256, n % 256, rfl, by simp only [rd16]; omega⟩

theorem rdI16_i16Bytes (v : Int) (h : inI16 v) (rest : List Nat) :
    ∃ a b, i16Bytes v ++ rest = a :: b :: rest ∧ rdI16 a b = v := by
  refine ⟨(v % 65536).toNat / 256 % 256, (v % 65536).toNat % 256, rfl, ?_⟩
  obtain ⟨h1, h2⟩ := h
  simp only [rdI16, wrapI16]
  have e : (((v % 65536).toNat / 256 % 256 * 256 + (v % 65536).toNat % 256 : Nat) : Int) = v % 65536 := by
    have : 0 ≤ v % 65536 := Int.emod_nonneg _ (by omega)
    have h3 : v % 65536 < 65536 := Int.emod_lt_of_pos _ (by omega)
    omega
  rw [e]
  have : v % 65536 % 65536 = v % 65536 := by omega
  rw [this]
  split <;> omega

@[simp] theorem tupleBytes_nil : tupleBytes [] = [] := rfl

theorem tupleBytes_length (t : List Int) : (tupleBytes t).length = 2 * t.length := by
  induction t with
  | nil => rfl
  | cons v vs ih => simp [tupleBytes, i16Bytes, be16] at ih ⊢; omega

theorem readTuple_tupleBytes (t : List Int) (h : ∀ v ∈ t, inI16 v) (rest : List Nat) :
    readTuple t.length (tupleBytes t ++ rest) = some (t, rest) := by
  induction t with
  | nil => simp [readTuple, tupleBytes]
  | cons v vs ih =>
    obtain ⟨a, b, e, r⟩ := rdI16_i16Bytes v (h v (by simp)) (tupleBytes vs ++ rest)
    have : tupleBytes (v :: vs) ++ rest = a :: b :: (tupleBytes vs ++ rest) := by
      rw [← e]; simp [tupleBytes]
    rw [this]
    simp only [List.length_cons, readTuple, ih (fun x hx => h x (by simp [hx])), r]

/-! ### one header -/

/-- what the reader extracts from a written header -/
structure HdrOk (ax : Nat) (h : Header) (pk : Option (List Int)) (it : Option (List Int × List Int))
    (priv : Bool) : Prop where
  size : h.dataSize < 65536
  idx : ∃ base, h.tupleIndex = base + (if it.isSome then 16384 else 0) + (if priv then 8192 else 0) ∧
          ((pk.isSome ∧ base = 32768) ∨ (pk = none ∧ base < 4096))
  peak : h.peak = pk.getD [] ∧ (∀ p, pk = some p → p.length = ax ∧ ∀ v ∈ p, inI16 v)
  inter : (h.start = (it.map (·.1)).getD [] ∧ h.end_ = (it.map (·.2)).getD []) ∧
          (∀ s e, it = some (s, e) → s.length = ax ∧ e.length = ax ∧ (∀ v ∈ s, inI16 v) ∧ (∀ v ∈ e, inI16 v))

theorem HdrOk.priv_bit {ax h pk it priv} (ok : HdrOk ax h pk it priv) :
    (h.tupleIndex / 8192 % 2 = 1) ↔ priv = true := by
  obtain ⟨_, ⟨base, hidx, hbase⟩, _, _⟩ := ok
  have hb' : base = 32768 ∨ base < 4096 := by rcases hbase with ⟨_, hb⟩ | ⟨_, hb⟩ <;> simp [hb]
  rw [hidx]
  cases priv <;> simp <;> split <;> omega

theorem HdrOk.emb_bit {ax h pk it priv} (ok : HdrOk ax h pk it priv) :
    (h.tupleIndex / 32768 % 2 = 1) ↔ pk.isSome = true := by
  obtain ⟨_, ⟨base, hidx, hbase⟩, _, _⟩ := ok
  rcases hbase with ⟨hp, hb⟩ | ⟨hp, hb⟩
  · simp only [hp, iff_true]; rw [hidx, hb]; split <;> split <;> omega
  · simp only [hp, Option.isSome_none, Bool.false_eq_true, iff_false]
    have : h.tupleIndex < 32768 := by rw [hidx]; split <;> split <;> omega
    omega

theorem HdrOk.idx_low {ax h it priv} (ok : HdrOk ax h none it priv) :
    h.tupleIndex / 32768 % 2 = 0 ∧ ∃ base, base < 4096 ∧ h.tupleIndex % 4096 = base ∧
      h.tupleIndex = base + (if it.isSome then 16384 else 0) + (if priv then 8192 else 0) := by
  obtain ⟨_, ⟨base, hidx, hbase⟩, _, _⟩ := ok
  rcases hbase with ⟨hp, _⟩ | ⟨_, hb⟩
  · simp at hp
  · refine ⟨?_, base, hb, ?_, hidx⟩ <;> (rw [hidx]; split <;> split <;> omega)

theorem readHeader_bytes (ax : Nat) (h : Header) (pk it priv) (ok : HdrOk ax h pk it priv) (rest : List Nat) :
    readHeader ax (h.bytes ++ rest) = some (h.dataSize, h.tupleIndex, pk, it, rest) := by
  obtain ⟨hs, ⟨base, hidx, hbase⟩, ⟨hpk, hpk2⟩, ⟨⟨hst, hen⟩, hit2⟩⟩ := ok
  have hti : h.tupleIndex < 65536 := by
    rcases hbase with ⟨_, hb⟩ | ⟨_, hb⟩ <;> (rw [hidx]; split <;> split <;> omega)
  obtain ⟨s0, s1, e1, r1⟩ := rd16_be16 h.dataSize hs
    (be16 h.tupleIndex ++ (tupleBytes h.peak ++ (tupleBytes h.start ++ (tupleBytes h.end_ ++ rest))))
  obtain ⟨t0, t1, e2, r2⟩ := rd16_be16 h.tupleIndex hti
    (tupleBytes h.peak ++ (tupleBytes h.start ++ (tupleBytes h.end_ ++ rest)))
  have hb : h.bytes ++ rest = s0 :: s1 :: t0 :: t1 ::
      (tupleBytes h.peak ++ (tupleBytes h.start ++ (tupleBytes h.end_ ++ rest))) := by
    simp only [Header.bytes, List.append_assoc]
    rw [e1, e2]
  rw [hb]
  simp only [readHeader, r1, r2]
  -- the flag tests
  have hemb : (h.tupleIndex / 32768 % 2 = 1) ↔ pk.isSome := by
    rcases hbase with ⟨hp, hb⟩ | ⟨hp, hb⟩
    · simp only [hp, iff_true]; rw [hidx, hb]; split <;> split <;> omega
    · simp only [hp, Option.isSome_none, Bool.false_eq_true, iff_false]
      have : h.tupleIndex < 32768 := by rw [hidx]; split <;> split <;> omega
      omega
  have hint : (h.tupleIndex / 16384 % 2 = 1) ↔ it.isSome := by
    have key : ∀ (b x y : Nat), (b = 32768 ∨ b < 4096) → (x = 16384 ∨ x = 0) → (y = 8192 ∨ y = 0) →
        ((b + x + y) / 16384 % 2 = 1 ↔ x = 16384) := by
      intro b x y hb hx hy
      rcases hb with hb | hb <;> rcases hx with hx | hx <;> rcases hy with hy | hy <;> subst_vars <;> omega
    have hb' : base = 32768 ∨ base < 4096 := by rcases hbase with ⟨_, hb⟩ | ⟨_, hb⟩ <;> simp [hb]
    rw [hidx]
    by_cases hi : it.isSome
    · simp only [hi, if_true, iff_true]
      exact (key base 16384 _ hb' (Or.inl rfl) (by split <;> simp)).mpr rfl
    · simp only [hi, Bool.false_eq_true, if_false, iff_false]
      intro hc
      have := (key base 0 _ hb' (Or.inr rfl) (by split <;> simp)).mp hc
      omega
  cases pk with
  | none =>
    have he : ¬ (h.tupleIndex / 32768 % 2 = 1) := by simpa using hemb
    simp only [he, if_false]
    have hpe : h.peak = [] := by simpa using hpk
    simp only [hpe, tupleBytes_nil, List.nil_append]
    cases it with
    | none =>
      have hi : ¬ (h.tupleIndex / 16384 % 2 = 1) := by simpa using hint
      have h1 : h.start = [] := by simpa using hst
      have h2 : h.end_ = [] := by simpa using hen
      simp [hi, h1, h2]
    | some se =>
      obtain ⟨s, e⟩ := se
      have hi : h.tupleIndex / 16384 % 2 = 1 := by simpa using hint
      have h1 : h.start = s := by simpa using hst
      have h2 : h.end_ = e := by simpa using hen
      obtain ⟨l1, l2, v1, v2⟩ := hit2 s e rfl
      simp only [hi, if_true, h1, h2]
      rw [← l1, readTuple_tupleBytes s v1]
      simp only []
      rw [l1, ← l2, readTuple_tupleBytes e v2]
  | some p =>
    have he : h.tupleIndex / 32768 % 2 = 1 := by simpa using hemb
    obtain ⟨lp, vp⟩ := hpk2 p rfl
    have hpe : h.peak = p := by simpa using hpk
    simp only [he, if_true, hpe]
    rw [← lp, readTuple_tupleBytes p vp, lp]
    simp only [Option.map_some]
    cases it with
    | none =>
      have hi : ¬ (h.tupleIndex / 16384 % 2 = 1) := by simpa using hint
      have h1 : h.start = [] := by simpa using hst
      have h2 : h.end_ = [] := by simpa using hen
      simp [hi, h1, h2]
    | some se =>
      obtain ⟨s, e⟩ := se
      have hi : h.tupleIndex / 16384 % 2 = 1 := by simpa using hint
      have h1 : h.start = s := by simpa using hst
      have h2 : h.end_ = e := by simpa using hen
      obtain ⟨l1, l2, v1, v2⟩ := hit2 s e rfl
      simp only [hi, if_true, h1, h2]
      rw [← l1, readTuple_tupleBytes s v1]
      simp only []
      rw [l1, ← l2, readTuple_tupleBytes e v2]

theorem Header.bytes_length (h : Header) (n : Nat) (hs : h.size = some n) : h.bytes.length = n := by
  unfold Header.size at hs
  simp only [] at hs
  split at hs
  · cases hs
  · injection hs with hs
    simp only [Header.bytes, List.length_append, tupleBytes_length, be16, List.length_cons, List.length_nil]
    omega

/-! ### `Option` `mapM` -/

theorem mapM_cons_opt {α β : Type} (f : α → Option β) (a : α) (l : List α) :
    (a :: l).mapM f = (match f a with
      | none => none
      | some b => (l.mapM f).map (b :: ·)) := by
  rw [List.mapM_cons]
  cases f a <;> simp [Option.map_eq_bind]

theorem mapM_some_length {α β : Type} (f : α → Option β) : ∀ (l : List α) (r : List β),
    l.mapM f = some r → r.length = l.length ∧ ∀ i (hi : i < l.length), f (l[i]) = r[i]? := by
  intro l
  induction l with
  | nil => intro r h; simp at h; subst h; simp
  | cons a l ih =>
    intro r h
    rw [mapM_cons_opt] at h
    cases hfa : f a with
    | none => simp [hfa] at h
    | some b =>
      simp only [hfa] at h
      cases hl : l.mapM f with
      | none => simp [hl] at h
      | some r' =>
        simp only [hl, Option.map_some, Option.some.injEq] at h
        subst h
        obtain ⟨h1, h2⟩ := ih r' hl
        refine ⟨by simp [h1], ?_⟩
        intro i hi
        cases i with
        | zero => simp [hfa]
        | succ j => simpa using h2 j (by simpa using hi)

/-! ### the tuple iterator over written headers -/

/-- a written tuple together with what the reader must extract from its header -/
structure Built where
  h : Header
  d : List Nat
  pk : Option (List Int)
  it : Option (List Int × List Int)
  priv : Bool

def Built.raw (b : Built) : RawTuple := ⟨b.h.tupleIndex, b.pk, b.it, b.d⟩

def Built.Ok (ax : Nat) (b : Built) : Prop := HdrOk ax b.h b.pk b.it b.priv ∧ b.d.length = b.h.dataSize

theorem readTuples_built (ax : Nat) (bs : List Built) (hok : ∀ b ∈ bs, b.Ok ax) (tailH tailD : List Nat) :
    readTuples ax bs.length (bs.flatMap (·.h.bytes) ++ tailH) (bs.flatMap (·.d) ++ tailD)
      = bs.map Built.raw := by
  induction bs with
  | nil => simp [readTuples]
  | cons b bs ih =>
    obtain ⟨ok, hd⟩ := hok b (by simp)
    simp only [List.flatMap_cons, List.append_assoc, List.length_cons, readTuples]
    rw [readHeader_bytes ax b.h b.pk b.it b.priv ok]
    simp only [List.length_append]
    have : ¬ (b.h.dataSize > b.d.length + (List.flatMap (·.d) bs ++ tailD).length) := by omega
    simp only [List.length_append] at this
    simp only [this, if_false, List.map_cons]
    rw [← hd, List.take_left, List.drop_left, ih (fun x hx => hok x (by simp [hx]))]
    rfl

theorem headers_length (bs : List Built) (sizes : List Nat)
    (h : (bs.map fun b => (b.h, b.d)).mapM (fun b => b.1.size) = some sizes) :
    (bs.flatMap (·.h.bytes)).length = sizes.sum := by
  induction bs generalizing sizes with
  | nil => simp at h; subst h; simp
  | cons b bs ih =>
    simp only [List.map_cons] at h
    rw [mapM_cons_opt] at h
    cases hs : b.h.size with
    | none => simp [hs] at h
    | some n =>
      simp only [hs] at h
      cases hl : (bs.map fun b => (b.h, b.d)).mapM (fun b => b.1.size) with
      | none => simp [hl] at h
      | some r =>
        simp only [hl, Option.map_some, Option.some.injEq] at h
        subst h
        simp only [List.flatMap_cons, List.length_append, List.sum_cons, ih r hl,
          Header.bytes_length b.h n hs]

/-- reading a serialised glyph: the tuple iterator returns one raw tuple per written tuple -/
theorem readGlyph_serialize (ax : Nat) (sharedPts : Option PPN) (bs : List Built)
    (hok : ∀ b ∈ bs, b.Ok ax) (bytes : List Nat)
    (hser : serializeGlyph sharedPts (bs.map fun b => (b.h, b.d)) = some bytes)
    (sp : List Nat) (hsp : optPpnBytes sharedPts = some sp)
    (hsplit : sharedPts.isSome → ∀ tail, splitRemainder (sp ++ tail) = tail) (rest : List Nat) :
    ∃ g, readGlyph ax (bytes ++ rest) = some g ∧
      g.sharedPts = (if sharedPts.isSome then some (sp ++ (bs.flatMap (·.d) ++ rest)) else none) ∧
      g.tuples = bs.map Built.raw := by
  unfold serializeGlyph at hser
  simp only [List.length_map] at hser
  split at hser
  · cases hser
  · rename_i hlen
    rw [hsp] at hser
    cases hsz : (bs.map fun b => (b.h, b.d)).mapM (fun b => b.1.size) with
    | none => simp [hsz] at hser
    | some sizes =>
      simp only [hsz] at hser
      split at hser
      · cases hser
      · rename_i hoff
        injection hser with hser
        have hlenH := headers_length bs sizes hsz
        have hfm1 : (bs.map fun b => (b.h, b.d)).flatMap (fun b => b.1.bytes) = bs.flatMap (·.h.bytes) := by
          simp [List.flatMap_map]
        have hfm2 : (bs.map fun b => (b.h, b.d)).flatMap (·.2) = bs.flatMap (·.d) := by
          simp [List.flatMap_map]
        rw [hfm1, hfm2] at hser
        obtain ⟨c0, c1, ec, rc⟩ := rd16_be16 (bs.length + (if sharedPts.isSome then 32768 else 0))
          (by split <;> omega)
          (be16 (sizes.sum + 4) ++ (bs.flatMap (·.h.bytes) ++ (sp ++ (bs.flatMap (·.d) ++ rest))))
        obtain ⟨o0, o1, eo, ro⟩ := rd16_be16 (sizes.sum + 4) (by omega)
          (bs.flatMap (·.h.bytes) ++ (sp ++ (bs.flatMap (·.d) ++ rest)))
        have hb : bytes ++ rest = c0 :: c1 :: o0 :: o1 ::
            (bs.flatMap (·.h.bytes) ++ (sp ++ (bs.flatMap (·.d) ++ rest))) := by
          rw [← hser]; simp only [List.append_assoc]; rw [ec, eo]
        rw [hb]
        simp only [readGlyph, rc, ro]
        have hne : ¬ (sizes.sum + 4 = 0 ∨ sizes.sum + 4 >
            (c0 :: c1 :: o0 :: o1 :: (bs.flatMap (·.h.bytes) ++ (sp ++ (bs.flatMap (·.d) ++ rest)))).length) := by
          simp only [List.length_cons, List.length_append, hlenH]; omega
        simp only [hne, if_false]
        have hdrop : (c0 :: c1 :: o0 :: o1 :: (bs.flatMap (·.h.bytes) ++ (sp ++ (bs.flatMap (·.d) ++ rest)))).drop
            (sizes.sum + 4) = sp ++ (bs.flatMap (·.d) ++ rest) := by
          simp only [List.drop_succ_cons]
          rw [← hlenH, List.drop_left]
        rw [hdrop]
        have hcnt : (bs.length + if sharedPts.isSome = true then 32768 else 0) % 4096 = bs.length := by
          split <;> omega
        by_cases hs : sharedPts.isSome = true
        · have hflag : (bs.length + if sharedPts.isSome = true then 32768 else 0) / 32768 % 2 = 1 := by
            rw [if_pos hs]; omega
          refine ⟨_, rfl, ?_, ?_⟩
          · rw [if_pos hflag]; simp only [if_pos hs]
          · simp only [if_pos hflag, hcnt]
            rw [hsplit hs]
            exact readTuples_built ax bs hok _ rest
        · have hflag : ¬ ((bs.length + if sharedPts.isSome = true then 32768 else 0) / 32768 % 2 = 1) := by
            rw [if_neg hs]; omega
          have hsp' : sp = [] := by
            cases sharedPts with
            | none => simpa [optPpnBytes] using hsp.symm
            | some p => simp at hs
          refine ⟨_, rfl, ?_, ?_⟩
          · rw [if_neg hflag]; simp only [if_neg hs]
          · simp only [if_neg hflag, hcnt]
            rw [hsp']
            simp only [List.nil_append]
            exact readTuples_built ax bs hok _ rest

/-! ### sizes are byte lengths -/

theorem ptSize_is_length (pts : List Nat) (n : Nat) (h : ptComputeSize pts = some n) :
    ∃ bs, encodePoints pts = some bs ∧ bs.length = n := by
  unfold ptComputeSize at h
  unfold encodePoints
  cases hr : ptRunsOf pts.length 0 pts with
  | none => simp [hr] at h
  | some rs =>
    simp only [hr] at h ⊢
    refine ⟨_, rfl, ?_⟩
    have key : ∀ (rs : List PtRun) (a n : Nat),
        rs.foldl (fun acc r => match acc with
          | none => none
          | some a =>
            let sz := r.pts.length * (if r.words then 2 else 1) + 1
            if a + sz > 65535 then none else some (a + sz)) (some a) = some n →
        n = a + (rs.flatMap serializePtRun).length := by
      intro rs
      induction rs with
      | nil => intro a n h; simp at h; simp [h]
      | cons r rs ih =>
        intro a n h
        simp only [List.foldl_cons] at h
        by_cases hc : a + (r.pts.length * (if r.words then 2 else 1) + 1) > 65535
        · simp only [hc, if_true] at h
          have : ∀ (l : List PtRun), l.foldl (fun acc r => match acc with
              | none => none
              | some a =>
                let sz := r.pts.length * (if r.words then 2 else 1) + 1
                if a + sz > 65535 then none else some (a + sz)) (none : Option Nat) = none := by
            intro l; induction l with
            | nil => rfl
            | cons x l ih => simpa using ih
          rw [this] at h; cases h
        · simp only [hc, if_false] at h
          have := ih _ _ h
          simp only [List.flatMap_cons, List.length_append, serializePtRun_length] at this ⊢
          omega
    have := key rs _ n h
    simp only [List.length_append, this]
    have : (ptCountBytes pts.length).length = if pts.length < 128 then 1 else 2 := by
      unfold ptCountBytes
      by_cases hl : pts.length ≤ 127
      · have : pts.length < 128 := by omega
        simp [hl, this]
      · have : ¬ pts.length < 128 := by omega
        simp [hl, this]
    omega

theorem ppnSize_is_length (p : PPN) (n : Nat) (h : ppnSize p = some n) :
    ∃ bs, ppnBytes p = some bs ∧ bs.length = n := by
  cases p with
  | none => simp [ppnSize] at h; subst h; exact ⟨[0], rfl, rfl⟩
  | some pts => exact ptSize_is_length pts n h

theorem tupleData_length (priv : Option PPN) (xs ys : List Int) (size : Nat)
    (h : tupleDataSize priv xs ys = some size) :
    size < 65536 ∧ ∃ pb, optPpnBytes priv = some pb ∧
      (pb ++ encodeDeltas xs ++ encodeDeltas ys).length = size := by
  unfold tupleDataSize at h
  cases hx : computeSize xs with
  | none => simp [hx] at h
  | some x =>
    cases hy : computeSize ys with
    | none => simp [hx, hy] at h
    | some y =>
      have lx := C10.compute_size_is_length xs x hx
      have ly := C10.compute_size_is_length ys y hy
      cases priv with
      | none =>
        simp only [hx, hy] at h
        split at h
        · cases h
        · split at h
          · cases h
          · injection h with h
            refine ⟨by omega, [], rfl, ?_⟩
            simp only [List.nil_append, List.length_append]; omega
      | some p =>
        cases hp : ppnSize p with
        | none => simp [hp] at h
        | some pn =>
          obtain ⟨pb, e, l⟩ := ppnSize_is_length p pn hp
          simp only [hp, hx, hy] at h
          split at h
          · cases h
          · split at h
            · cases h
            · injection h with h
              refine ⟨by omega, pb, e, ?_⟩
              simp only [List.length_append]; omega

/-! ### `TupleDeltaIter` on a written tuple -/

/-- point numbers paired with their x and y deltas -/
def zipPts : List Nat → List Int → List Int → List (Nat × Int × Int)
  | p :: ps, x :: xs, y :: ys => (p, x, y) :: zipPts ps xs ys
  | _, _, _ => []

/-- strictly ascending chain above `np`, all below 65536 -/
def SAsc : Nat → List Nat → Prop
  | _, [] => True
  | np, p :: ps => np < p ∧ p ≤ 65535 ∧ SAsc p ps

theorem sparseLoop_list_tail : ∀ (ps : List Nat) (fuel np : Nat) (xs ys : List Int),
    SAsc np ps → xs.length = ps.length → ys.length = ps.length → ps.length + 1 ≤ fuel →
    sparseLoop fuel (np + 1) np (.list ps) xs ys = zipPts ps xs ys := by
  intro ps
  induction ps with
  | nil =>
    intro fuel np xs ys _ _ _ hf
    obtain ⟨f, rfl⟩ : ∃ f, fuel = f + 1 := ⟨fuel - 1, by omega⟩
    simp [sparseLoop, PtIter.next, zipPts]
  | cons p ps ih =>
    intro fuel np xs ys ha hx hy hf
    obtain ⟨f, rfl⟩ : ∃ f, fuel = f + 1 := ⟨fuel - 1, by omega⟩
    obtain ⟨h1, h2, h3⟩ := ha
    cases xs with
    | nil => simp at hx
    | cons x xs =>
      cases ys with
      | nil => simp at hy
      | cons y ys =>
        have hlt : ¬ p < np + 1 := by omega
        simp only [sparseLoop, Nat.lt_add_one, gt_iff_lt, if_true, PtIter.next, hlt, if_false, zipPts]
        rw [ih f p xs ys h3 (by simpa using hx) (by simpa using hy) (by simp at hf; omega)]

theorem sparseLoop_first (f cur np : Nat) (pts : PtIter) (x : Int) (xs : List Int) (y : Int)
    (ys : List Int) (h : ¬ cur > np) :
    sparseLoop (f + 1) cur np pts (x :: xs) (y :: ys) = (np, x, y) :: sparseLoop f (np + 1) np pts xs ys := by
  simp [sparseLoop, h]

theorem sparseLoop_counter_tail : ∀ (xs ys : List Int) (fuel k : Nat), xs.length = ys.length →
    k + 1 + xs.length ≤ 65535 → xs.length + 1 ≤ fuel →
    sparseLoop fuel (k + 1) k (.counter (k + 1)) xs ys = denseZip (k + 1) xs ys := by
  intro xs
  induction xs with
  | nil =>
    intro ys fuel k hl _ hf
    obtain ⟨f, rfl⟩ : ∃ f, fuel = f + 1 := ⟨fuel - 1, by omega⟩
    have : ys = [] := List.length_eq_zero_iff.mp (by simpa using hl.symm)
    subst this
    by_cases h1 : k + 1 + 1 > 65535
    · simp [sparseLoop, PtIter.next, h1, denseZip]
    · simp [sparseLoop, PtIter.next, h1, denseZip]
  | cons x xs ih =>
    intro ys fuel k hl hk hf
    obtain ⟨f, rfl⟩ : ∃ f, fuel = f + 1 := ⟨fuel - 1, by omega⟩
    cases ys with
    | nil => simp at hl
    | cons y ys =>
      simp only [List.length_cons] at hk hf hl
      have h1 : ¬ (k + 1 + 1 > 65535) := by omega
      simp only [sparseLoop, Nat.lt_add_one, gt_iff_lt, if_true, PtIter.next, h1, if_false,
        Nat.lt_irrefl, denseZip]
      rw [ih ys f (k + 1) (by omega) (by omega) (by omega)]

theorem denseZip_mod : ∀ (xs ys : List Int) (k : Nat), k + xs.length ≤ 65536 →
    (denseZip k xs ys).map (fun (p, x, y) => (p % 65536, x, y)) = denseZip k xs ys := by
  intro xs
  induction xs with
  | nil => intro ys k _; simp [denseZip]
  | cons x xs ih =>
    intro ys k hk
    cases ys with
    | nil => simp [denseZip]
    | cons y ys =>
      simp only [List.length_cons] at hk
      simp only [denseZip, List.map_cons, ih ys (k + 1) (by omega)]
      have : k % 65536 = k := by omega
      rw [this]

theorem zipPts_mod : ∀ (ps : List Nat) (xs ys : List Int), (∀ p ∈ ps, p ≤ 65535) →
    (zipPts ps xs ys).map (fun (p, x, y) => (p % 65536, x, y)) = zipPts ps xs ys := by
  intro ps
  induction ps with
  | nil => intro xs ys _; simp [zipPts]
  | cons p ps ih =>
    intro xs ys hb
    cases xs with
    | nil => simp [zipPts]
    | cons x xs =>
      cases ys with
      | nil => simp [zipPts]
      | cons y ys =>
        simp only [zipPts, List.map_cons, ih xs ys (fun q hq => hb q (by simp [hq]))]
        have : p % 65536 = p := by have := hb p (by simp); omega
        rw [this]

theorem enc_concat_runs (xs ys : List Int) (hx : ∀ d ∈ xs, inI32 d) (hy : ∀ d ∈ ys, inI32 d) :
    ∃ runs, encodeDeltas xs ++ encodeDeltas ys = runs.flatMap serializeRun ∧
      (∀ r ∈ runs, ValidRun r) ∧ total runs = xs.length + ys.length := by
  obtain ⟨hvx, hcx⟩ := runsOf_props xs.length xs (Nat.le_refl _) hx
  obtain ⟨hvy, hcy⟩ := runsOf_props ys.length ys (Nat.le_refl _) hy
  refine ⟨runsOf xs.length xs ++ runsOf ys.length ys, by simp [encodeDeltas], ?_, ?_⟩
  · intro r hr
    rcases List.mem_append.mp hr with h | h
    · exact hvx r h
    · exact hvy r h
  · simp [total, hcx, hcy]

/-- a tuple that covers all points: count byte 0 (private or shared), deltas for every point -/
theorem tupleDeltas_all (junk : List Nat) (xs ys : List Int) (hx : ∀ d ∈ xs, inI32 d)
    (hy : ∀ d ∈ ys, inI32 d) (hlen : xs.length = ys.length) (hn : xs.length ≤ 65535) :
    tupleDeltas (0 :: junk) (encodeDeltas xs ++ encodeDeltas ys) = denseZip 0 xs ys := by
  obtain ⟨runs, er, hv, ht⟩ := enc_concat_runs xs ys hx hy
  have hcount : countAll (encodeDeltas xs ++ encodeDeltas ys).length (encodeDeltas xs ++ encodeDeltas ys)
      = 2 * xs.length := by
    rw [er, countAll_runs runs _ (Nat.le_refl _) hv, ht]; omega
  obtain ⟨rx, ry⟩ := C10.xy_roundtrip xs ys hx hy hlen []
  simp only [List.append_nil] at rx ry
  unfold tupleDeltas
  have hc : countAndCountBytes (0 :: junk) = (0, 1) := by simp [countAndCountBytes]
  have hit : ptIterOf (0 :: junk) = .counter 0 := by
    simp [ptIterOf, decodePoints, hc]
  simp only [hc, if_true, hcount, rx, ry, hit, PtIter.next]
  have h1 : ¬ (0 + 1 > 65535) := by omega
  simp only [h1, if_false]
  cases xs with
  | nil =>
    have : ys = [] := List.length_eq_zero_iff.mp (by simpa using hlen.symm)
    subst this
    have : 2 * (([] : List Int).length + ptIterLen (.counter (0 + 1))) + 4 = 3 + 1 := rfl
    rw [this]
    simp [sparseLoop, denseZip]
  | cons x xs =>
    cases ys with
    | nil => simp at hlen
    | cons y ys =>
      simp only [List.length_cons] at hlen hn
      have hf : 2 * ((x :: xs).length + ptIterLen (.counter (0 + 1))) + 4 = (2 * xs.length + 5) + 1 := by
        simp [ptIterLen]; omega
      rw [hf, sparseLoop_first _ 0 0 _ x xs y ys (by omega)]
      rw [sparseLoop_counter_tail xs ys _ 0 (by omega) (by omega) (by omega)]
      have := denseZip_mod (x :: xs) (y :: ys) 0 (by simp; omega)
      simpa [denseZip] using this

theorem sasc_bound : ∀ (ps : List Nat) (np : Nat), SAsc np ps → ∀ p ∈ ps, np < p ∧ p ≤ 65535 := by
  intro ps
  induction ps with
  | nil => intro _ _ p hp; simp at hp
  | cons q ps ih =>
    intro np ⟨h1, h2, h3⟩ p hp
    rcases List.mem_cons.mp hp with rfl | hp
    · exact ⟨h1, h2⟩
    · have := ih q h3 p hp; omega

theorem sasc_pairwise : ∀ (ps : List Nat) (np : Nat), SAsc np ps → ps.Pairwise (· ≤ ·) := by
  intro ps
  induction ps with
  | nil => intro _ _; simp
  | cons q ps ih =>
    intro np ⟨h1, h2, h3⟩
    rw [List.pairwise_cons]
    exact ⟨fun p hp => by have := sasc_bound ps q h3 p hp; omega, ih q h3⟩

/-- a tuple with explicit point numbers `p0 :: ps` (private or shared) -/
theorem tupleDeltas_sparse (p0 : Nat) (ps : List Nat) (junk : List Nat) (xs ys : List Int)
    (hp0 : p0 ≤ 65535) (hasc : SAsc p0 ps) (hcnt : (p0 :: ps).length ≤ 32767)
    (pb : List Nat) (henc : encodePoints (p0 :: ps) = some pb)
    (hx : ∀ d ∈ xs, inI32 d) (hy : ∀ d ∈ ys, inI32 d)
    (hlx : xs.length = (p0 :: ps).length) (hly : ys.length = (p0 :: ps).length) :
    tupleDeltas (pb ++ junk) (encodeDeltas xs ++ encodeDeltas ys) = zipPts (p0 :: ps) xs ys ∧
    (countAndCountBytes (pb ++ junk)).1 = (p0 :: ps).length ∧
    splitRemainder (pb ++ junk) = junk := by
  have hb : ∀ p ∈ p0 :: ps, p ≤ 65535 := by
    intro p hp
    rcases List.mem_cons.mp hp with rfl | hp
    · exact hp0
    · exact (sasc_bound ps p0 hasc p hp).2
  have hpw : (p0 :: ps).Pairwise (· ≤ ·) := by
    rw [List.pairwise_cons]
    exact ⟨fun p hp => by have := sasc_bound ps p0 hasc p hp; omega, sasc_pairwise ps p0 hasc⟩
  obtain ⟨bs, e1, e2, e3⟩ := C10.points_roundtrip (p0 :: ps) (by simp) hcnt hb hpw junk
  rw [henc] at e1
  injection e1 with e1
  subst e1
  have hcc : (countAndCountBytes (pb ++ junk)).1 = (p0 :: ps).length := by
    have henc' := henc
    simp only [encodePoints] at henc'
    split at henc'
    · cases henc'
    · injection henc' with henc'
      rw [← henc', List.append_assoc, count_header _ (by simp) hcnt]
  refine ⟨?_, hcc, e3⟩
  obtain ⟨rx, ry⟩ := C10.xy_roundtrip xs ys hx hy (by omega) []
  simp only [List.append_nil] at rx ry
  unfold tupleDeltas
  have hne : ¬ ((p0 :: ps).length = 0) := by simp
  have hn2 : (p0 :: ps).length * 2 = 2 * xs.length := by omega
  have hit : ptIterOf (pb ++ junk) = .list (p0 :: ps) := by simp [ptIterOf, e2]
  simp only [hcc, hne, if_false, hn2, rx, ry, hit, PtIter.next]
  cases xs with
  | nil => simp at hlx
  | cons x xs =>
    cases ys with
    | nil => simp at hly
    | cons y ys =>
      simp only [List.length_cons] at hlx hly
      have hf : 2 * ((x :: xs).length + ptIterLen (.list ps)) + 4 = (2 * xs.length + 2 * ps.length + 5) + 1 := by
        simp [ptIterLen]; omega
      rw [hf, sparseLoop_first _ 0 p0 _ x xs y ys (by omega)]
      rw [sparseLoop_list_tail ps _ p0 xs ys hasc (by omega) (by omega) (by omega)]
      have := zipPts_mod (p0 :: ps) (x :: xs) (y :: ys) hb
      simpa [zipPts] using this

/-! ### `pick_best_point_number_repr` and the selection of deltas -/

def indexed : Nat → List GDelta → List (Nat × GDelta)
  | _, [] => []
  | i, d :: ds => (i, d) :: indexed (i + 1) ds

/-- what reading a tuple back must give: `(point, x, y)` for every point when the tuple covers all
points, otherwise for exactly the required points — each with its own index and its own deltas -/
def listed (all : Bool) (ds : List GDelta) : List (Nat × Int × Int) :=
  ((indexed 0 ds).filter fun e => all || e.2.2.2).map fun e => (e.1, e.2.1, e.2.2.1)

theorem denseZip_indexed : ∀ (ds : List GDelta) (k : Nat),
    denseZip k (ds.map (·.1)) (ds.map (·.2.1)) = (indexed k ds).map fun e => (e.1, e.2.1, e.2.2.1) := by
  intro ds
  induction ds with
  | nil => intro k; simp [denseZip, indexed]
  | cons d ds ih => intro k; simp [denseZip, indexed, ih]

theorem listed_all (ds : List GDelta) :
    listed true ds = denseZip 0 (ds.map (·.1)) (ds.map (·.2.1)) := by
  simp [listed, denseZip_indexed]

theorem zipPts_required : ∀ (ds : List GDelta) (i : Nat), i + ds.length ≤ 65536 →
    zipPts (requiredIdx i ds) ((ds.filter (·.2.2)).map (·.1)) ((ds.filter (·.2.2)).map (·.2.1))
      = ((indexed i ds).filter fun e => e.2.2.2).map fun e => (e.1, e.2.1, e.2.2.1) := by
  intro ds
  induction ds with
  | nil => intro i _; simp [requiredIdx, zipPts, indexed]
  | cons d ds ih =>
    intro i hi
    simp only [List.length_cons] at hi
    have hmod : i % 65536 = i := by omega
    by_cases hr : d.2.2 = true
    · simp [requiredIdx, hr, zipPts, indexed, hmod, ih (i + 1) (by omega)]
    · simp [requiredIdx, hr, indexed, ih (i + 1) (by omega)]

theorem listed_required (ds : List GDelta) (h : ds.length ≤ 65536) :
    listed false ds = zipPts (requiredIdx 0 ds) ((ds.filter (·.2.2)).map (·.1)) ((ds.filter (·.2.2)).map (·.2.1)) := by
  rw [zipPts_required ds 0 (by omega)]
  simp [listed]

theorem requiredIdx_sasc : ∀ (ds : List GDelta) (i np : Nat), np < i → i + ds.length ≤ 65536 →
    SAsc np (requiredIdx i ds) := by
  intro ds
  induction ds with
  | nil => intro i np _ _; simp [requiredIdx, SAsc]
  | cons d ds ih =>
    intro i np h1 h2
    simp only [List.length_cons] at h2
    have hmod : i % 65536 = i := by omega
    by_cases hr : d.2.2 = true
    · simp only [requiredIdx, hr, if_true, hmod, SAsc]
      exact ⟨h1, by omega, ih (i + 1) i (by omega) (by omega)⟩
    · simp only [requiredIdx, hr]
      exact ih (i + 1) np (by omega) (by omega)

theorem requiredIdx_head : ∀ (ds : List GDelta) (i : Nat), i + ds.length ≤ 65536 →
    ∀ p0 ps, requiredIdx i ds = p0 :: ps → p0 ≤ 65535 ∧ SAsc p0 ps := by
  intro ds
  induction ds with
  | nil => intro i _ p0 ps h; simp [requiredIdx] at h
  | cons d ds ih =>
    intro i hi p0 ps h
    simp only [List.length_cons] at hi
    have hmod : i % 65536 = i := by omega
    by_cases hr : d.2.2 = true
    · simp only [requiredIdx, hr, if_true, hmod, List.cons.injEq] at h
      obtain ⟨rfl, rfl⟩ := h
      exact ⟨by omega, requiredIdx_sasc ds (i + 1) i (by omega) (by omega)⟩
    · simp only [requiredIdx, hr] at h
      exact ih (i + 1) (by omega) p0 ps h

theorem requiredIdx_length : ∀ (ds : List GDelta) (i : Nat),
    (requiredIdx i ds).length = (ds.filter (·.2.2)).length := by
  intro ds
  induction ds with
  | nil => intro i; rfl
  | cons d ds ih =>
    intro i
    by_cases hr : d.2.2 = true
    · simp [requiredIdx, hr, ih]
    · simp [requiredIdx, hr, ih]

theorem requiredIdx_ne_nil : ∀ (ds : List GDelta) (i : Nat), ds.any (·.2.2) = true → requiredIdx i ds ≠ [] := by
  intro ds
  induction ds with
  | nil => intro i h; simp at h
  | cons d ds ih =>
    intro i h
    by_cases hr : d.2.2 = true
    · simp [requiredIdx, hr]
    · simp only [requiredIdx, hr]
      simp only [List.any_cons, hr, Bool.false_or] at h
      simpa using ih (i + 1) h

theorem requiredIdx_mapM : ∀ (ds pre : List GDelta) (i : Nat), pre.length = i → i + ds.length ≤ 65536 →
    (requiredIdx i ds).mapM (fun p => (pre ++ ds)[p]?) = some (ds.filter (·.2.2)) := by
  intro ds
  induction ds with
  | nil => intro pre i _ _; simp [requiredIdx]
  | cons d ds ih =>
    intro pre i hp hi
    simp only [List.length_cons] at hi
    have hmod : i % 65536 = i := by omega
    have hcat : pre ++ d :: ds = (pre ++ [d]) ++ ds := by simp
    have ih' := ih (pre ++ [d]) (i + 1) (by simp [hp]) (by omega)
    by_cases hr : d.2.2 = true
    · simp only [requiredIdx, hr, if_true, hmod]
      rw [mapM_cons_opt]
      have hget : (pre ++ d :: ds)[i]? = some d := by
        rw [List.getElem?_append_right (by omega)]; simp [hp]
      simp only [hget]
      rw [hcat, ih']
      simp [hr]
    · have hr' : d.2.2 = false := by simpa using hr
      simp only [requiredIdx, hr', Bool.false_eq_true, if_false]
      rw [hcat, ih']
      simp [hr']

theorem selectDeltas_required (ds : List GDelta) (h : ds.length ≤ 65536) :
    selectDeltas (some (requiredIdx 0 ds)) ds
      = some ((ds.filter (·.2.2)).map (·.1), (ds.filter (·.2.2)).map (·.2.1)) := by
  have := requiredIdx_mapM ds [] 0 rfl (by omega)
  simp only [List.nil_append] at this
  simp [selectDeltas, this]

theorem pickBest_cases (ds : List GDelta) (b : PPN) (h : pickBest ds = some b) :
    b = none ∨ (b = some (requiredIdx 0 ds) ∧ requiredIdx 0 ds ≠ []) := by
  unfold pickBest at h
  split at h
  · left; injection h with h; exact h.symm
  · rename_i hc
    have hany : ds.any (·.2.2) = true := by
      simp only [Bool.or_eq_true, Bool.not_eq_true', not_or] at hc
      simpa using hc.2
    simp only [] at h
    split at h
    · injection h with h
      split at h
      · right; exact ⟨h.symm, requiredIdx_ne_nil ds 0 hany⟩
      · left; exact h.symm
    · cases h

/-! ### one written tuple -/

theorem buildTuple_ok (ax : Nat) (sidx : Option Nat) (sharedPts : Option PPN) (t : TupleIn)
    (priv : Bool) (hpv : decide (some t.best ≠ sharedPts) = priv)
    (hsidx : ∀ i, sidx = some i → i < 4096)
    (hpk : t.peak.length = ax ∧ ∀ v ∈ t.peak, inI16 v)
    (hit : ∀ s e, t.inter = some (s, e) →
      s.length = ax ∧ e.length = ax ∧ (∀ v ∈ s, inI16 v) ∧ ∀ v ∈ e, inI16 v)
    (h : Header) (d : List Nat) (hb : buildTuple sidx sharedPts t = some (h, d)) :
    ∃ pb xs ys, selectDeltas t.best t.deltas = some (xs, ys) ∧
      optPpnBytes (if priv then some t.best else none) = some pb ∧
      d = pb ++ encodeDeltas xs ++ encodeDeltas ys ∧
      (Built.mk h d (if sidx.isSome then none else some t.peak) t.inter priv).Ok ax ∧
      (∀ i, sidx = some i → h.tupleIndex % 4096 = i ∧ h.tupleIndex / 32768 % 2 = 0) := by
  unfold buildTuple at hb
  dsimp only at hb
  rw [hpv] at hb
  cases hsel : selectDeltas t.best t.deltas with
  | none => rw [hsel] at hb; cases hb
  | some xy =>
    obtain ⟨xs, ys⟩ := xy
    rw [hsel] at hb
    dsimp only at hb
    cases hsz : tupleDataSize (if priv = true then some t.best else none) xs ys with
    | none => rw [hsz] at hb; cases hb
    | some size =>
      obtain ⟨hlt, pb, hpb, hlen⟩ := tupleData_length _ xs ys size hsz
      rw [hsz, hpb] at hb
      simp only [Option.some.injEq, Prod.mk.injEq] at hb
      obtain ⟨hh, hd⟩ := hb
      refine ⟨pb, xs, ys, rfl, hpb, hd.symm, ⟨?_, ?_⟩, ?_⟩
      · -- HdrOk
        subst hh
        refine ⟨hlt, ⟨sidx.getD 32768, ?_, ?_⟩, ⟨?_, ?_⟩, ⟨⟨?_, ?_⟩, ?_⟩⟩
        · simp only [tupleIndexBits]
          cases sidx <;> rfl
        · cases sidx with
          | none => left; simp
          | some i => right; exact ⟨by simp, hsidx i rfl⟩
        · cases sidx <;> simp
        · intro p hp
          cases sidx with
          | none => simp at hp; subst hp; exact hpk
          | some i => simp at hp
        · cases hti : t.inter with
          | none => simp
          | some se => obtain ⟨s, e⟩ := se; simp
        · cases hti : t.inter with
          | none => simp
          | some se => obtain ⟨s, e⟩ := se; simp
        · exact hit
      · show d.length = h.dataSize
        subst hh; subst hd
        simpa using hlen
      · intro i hi
        subst hh
        have := hsidx i hi
        subst hi
        simp only [tupleIndexBits]
        constructor <;> (split <;> split <;> omega)

/-! ### what the reader sees of one written tuple -/

/-- the observable content of a `TupleVariation`: `peak()`, intermediate tuples,
`has_deltas_for_all_points()`, `deltas()` -/
def RawTuple.view (shared : List (List Int)) (sd : Option (List Nat)) (r : RawTuple) :
    List Int × Option (List Int × List Int) × Bool × List (Nat × Int × Int) :=
  (r.peakOf shared, r.inter, r.allPoints sd, r.deltas sd)

/-- the same content of the `GlyphDeltas` given to the builder -/
def TupleIn.view (t : TupleIn) : List Int × Option (List Int × List Int) × Bool × List (Nat × Int × Int) :=
  (t.peak, t.inter, t.best.isNone, listed t.best.isNone t.deltas)

theorem splitRemainder_zero (l : List Nat) : splitRemainder (0 :: l) = l := by
  simp [splitRemainder, totalLen, countAndCountBytes]

theorem stream_view (ds : List GDelta) (best : PPN) (hbest : pickBest ds = some best)
    (hlen : ds.length ≤ 32767) (hd : ∀ d ∈ ds, inI32 d.1 ∧ inI32 d.2.1)
    (sq : List Nat) (hsq : ppnBytes best = some sq) (junk : List Nat) (xs ys : List Int)
    (hsel : selectDeltas best ds = some (xs, ys)) :
    tupleDeltas (sq ++ junk) (encodeDeltas xs ++ encodeDeltas ys) = listed best.isNone ds ∧
    ((countAndCountBytes (sq ++ junk)).1 == 0) = best.isNone ∧
    splitRemainder (sq ++ junk) = junk := by
  rcases pickBest_cases ds best hbest with rfl | ⟨rfl, hne⟩
  · -- all points
    simp only [ppnBytes, Option.some.injEq] at hsq
    subst hsq
    simp only [selectDeltas, Option.some.injEq, Prod.mk.injEq] at hsel
    obtain ⟨rfl, rfl⟩ := hsel
    refine ⟨?_, by simp [countAndCountBytes], by simpa using splitRemainder_zero junk⟩
    have := tupleDeltas_all junk (ds.map (·.1)) (ds.map (·.2.1))
      (by intro v hv; obtain ⟨d, hd', rfl⟩ := List.mem_map.mp hv; exact (hd d hd').1)
      (by intro v hv; obtain ⟨d, hd', rfl⟩ := List.mem_map.mp hv; exact (hd d hd').2)
      (by simp) (by simp; omega)
    simpa [listed_all] using this
  · -- explicit points
    rw [selectDeltas_required ds (by omega)] at hsel
    simp only [Option.some.injEq, Prod.mk.injEq] at hsel
    obtain ⟨rfl, rfl⟩ := hsel
    cases hpts : requiredIdx 0 ds with
    | nil => exact absurd hpts hne
    | cons p0 ps =>
      obtain ⟨hp0, hasc⟩ := requiredIdx_head ds 0 (by omega) p0 ps hpts
      have hl : (p0 :: ps).length = (ds.filter (·.2.2)).length := by
        rw [← hpts]; exact requiredIdx_length ds 0
      have hfl : (ds.filter (·.2.2)).length ≤ ds.length := List.length_filter_le _ _
      simp only [ppnBytes, hpts] at hsq
      obtain ⟨h1, h2, h3⟩ := tupleDeltas_sparse p0 ps junk ((ds.filter (·.2.2)).map (·.1))
        ((ds.filter (·.2.2)).map (·.2.1)) hp0 hasc (by omega) sq hsq
        (by intro v hv; obtain ⟨d, hd', rfl⟩ := List.mem_map.mp hv
            exact (hd d (List.mem_of_mem_filter hd')).1)
        (by intro v hv; obtain ⟨d, hd', rfl⟩ := List.mem_map.mp hv
            exact (hd d (List.mem_of_mem_filter hd')).2)
        (by simp [hl]) (by simp [hl])
      refine ⟨?_, ?_, h3⟩
      · rw [h1, ← hpts]
        simpa using (listed_required ds (by omega)).symm
      · rw [h2]; simp

theorem built_view (ax : Nat) (shared : List (List Int)) (sidx : Option Nat)
    (sharedPts : Option PPN) (sd : Option (List Nat)) (t : TupleIn)
    (hbest : pickBest t.deltas = some t.best)
    (hlen : t.deltas.length ≤ 32767) (hd : ∀ d ∈ t.deltas, inI32 d.1 ∧ inI32 d.2.1)
    (hshared : ∀ i, sidx = some i → i < 4096 ∧ shared[i]? = some t.peak)
    (hsd : ∀ q, sharedPts = some q → ∃ sq junk, ppnBytes q = some sq ∧ sd = some (sq ++ junk))
    (hpk : t.peak.length = ax ∧ ∀ v ∈ t.peak, inI16 v)
    (hit : ∀ s e, t.inter = some (s, e) →
      s.length = ax ∧ e.length = ax ∧ (∀ v ∈ s, inI16 v) ∧ ∀ v ∈ e, inI16 v)
    (h : Header) (d : List Nat) (hb : buildTuple sidx sharedPts t = some (h, d)) :
    ∃ b : Built, b.h = h ∧ b.d = d ∧ b.Ok ax ∧ b.raw.view shared sd = t.view := by
  obtain ⟨pb, xs, ys, hsel, hpb, hdd, hok, hlow⟩ :=
    buildTuple_ok ax sidx sharedPts t (decide (some t.best ≠ sharedPts)) rfl
      (fun i hi => (hshared i hi).1) hpk hit h d hb
  refine ⟨_, rfl, rfl, hok, ?_⟩
  have hpriv := hok.1.priv_bit
  have hemb := hok.1.emb_bit
  have hpriv' : (h.tupleIndex / 8192 % 2 = 1) ↔ decide (some t.best ≠ sharedPts) = true := hpriv
  have hemb' : (h.tupleIndex / 32768 % 2 = 1) ↔ (if sidx.isSome then none else some t.peak).isSome = true := hemb
  have k1 : (RawTuple.mk h.tupleIndex (if sidx.isSome then none else some t.peak) t.inter d).peakOf shared
      = t.peak := by
    simp only [RawTuple.peakOf]
    cases sidx with
    | none =>
      have : h.tupleIndex / 32768 % 2 = 1 := by simpa using hemb'
      simp [this]
    | some i =>
      obtain ⟨h1, h2⟩ := hlow i rfl
      have : ¬ (h.tupleIndex / 32768 % 2 = 1) := by omega
      simp [this, h1, (hshared i rfl).2]
  have k2 : (RawTuple.mk h.tupleIndex (if sidx.isSome then none else some t.peak) t.inter d).allPoints sd
        = t.best.isNone ∧
      (RawTuple.mk h.tupleIndex (if sidx.isSome then none else some t.peak) t.inter d).deltas sd
        = listed t.best.isNone t.deltas := by
    by_cases hp : some t.best = sharedPts
    · -- shared point numbers
      have hpf : decide (some t.best ≠ sharedPts) = false := by simp [hp]
      rw [hpf] at hpriv' hpb
      have hbit : ¬ (h.tupleIndex / 8192 % 2 = 1) := by simpa using hpriv'
      obtain ⟨sq, junk, hsq, hsd'⟩ := hsd t.best hp.symm
      simp only [Bool.false_eq_true, if_false, optPpnBytes, Option.some.injEq] at hpb
      subst hpb
      simp only [List.nil_append] at hdd
      obtain ⟨v1, v2, _⟩ := stream_view t.deltas t.best hbest hlen hd sq hsq junk xs ys hsel
      simp only [RawTuple.allPoints, RawTuple.deltas, RawTuple.ptsAndDeltas, hbit, if_false, hsd',
        Option.getD_some, hdd, v1, v2, and_self]
    · -- private point numbers
      have hpt : decide (some t.best ≠ sharedPts) = true := by simp [hp]
      rw [hpt] at hpriv' hpb
      have hbit : h.tupleIndex / 8192 % 2 = 1 := by simpa using hpriv'
      simp only [if_true, optPpnBytes] at hpb
      obtain ⟨v1, v2, v3⟩ := stream_view t.deltas t.best hbest hlen hd pb hpb
        (encodeDeltas xs ++ encodeDeltas ys) xs ys hsel
      have hdd' : d = pb ++ (encodeDeltas xs ++ encodeDeltas ys) := by rw [hdd]; simp
      simp only [RawTuple.allPoints, RawTuple.deltas, RawTuple.ptsAndDeltas, hbit, if_true, hdd',
        v1, v2, v3, and_self]
  simp only [Built.raw, RawTuple.view, TupleIn.view, k1, k2.1, k2.2]

/-! ### a whole glyph -/

/-- the well-formedness of one `GlyphDeltas` that `GlyphDeltas::new` / `GlyphVariations::validate` /
the types guarantee -/
structure TupleOk (ax : Nat) (t : TupleIn) : Prop where
  best : pickBest t.deltas = some t.best
  len : t.deltas.length ≤ 32767
  vals : ∀ d ∈ t.deltas, inI32 d.1 ∧ inI32 d.2.1
  peak : t.peak.length = ax ∧ ∀ v ∈ t.peak, inI16 v
  inter : ∀ s e, t.inter = some (s, e) →
    s.length = ax ∧ e.length = ax ∧ (∀ v ∈ s, inI16 v) ∧ ∀ v ∈ e, inI16 v

theorem built_list (ax : Nat) (shared : List (List Int)) (lookup : List Int → Option Nat)
    (hlk : ∀ p i, lookup p = some i → i < 4096 ∧ shared[i]? = some p)
    (sharedPts : Option PPN) (sd : Option (List Nat))
    (hsd : ∀ q, sharedPts = some q → ∃ sq junk, ppnBytes q = some sq ∧ sd = some (sq ++ junk)) :
    ∀ (ts : List TupleIn) (built : List (Header × List Nat)),
      ts.mapM (fun t => buildTuple (lookup t.peak) sharedPts t) = some built →
      (∀ t ∈ ts, TupleOk ax t) →
      ∃ bs : List Built, bs.map (fun b => (b.h, b.d)) = built ∧ (∀ b ∈ bs, b.Ok ax) ∧
        bs.map (fun b => b.raw.view shared sd) = ts.map TupleIn.view := by
  intro ts
  induction ts with
  | nil => intro built h _; simp at h; subst h; exact ⟨[], rfl, by simp, rfl⟩
  | cons t ts ih =>
    intro built h hok
    rw [mapM_cons_opt] at h
    cases hb : buildTuple (lookup t.peak) sharedPts t with
    | none => simp [hb] at h
    | some hd =>
      obtain ⟨hh, d⟩ := hd
      simp only [hb] at h
      cases hr : ts.mapM (fun t => buildTuple (lookup t.peak) sharedPts t) with
      | none => simp [hr] at h
      | some built' =>
        simp only [hr, Option.map_some, Option.some.injEq] at h
        subst h
        obtain ⟨bs, e1, e2, e3⟩ := ih built' hr (fun x hx => hok x (by simp [hx]))
        have tok := hok t (by simp)
        obtain ⟨b, b1, b2, b3, b4⟩ := built_view ax shared (lookup t.peak) sharedPts sd t tok.best tok.len
          tok.vals (fun i hi => hlk t.peak i hi) hsd tok.peak tok.inter hh d hb
        refine ⟨b :: bs, by simp [b1, b2, e1], ?_, by simp [b4, e3]⟩
        intro x hx
        rcases List.mem_cons.mp hx with rfl | hx
        · exact b3
        · exact e2 x hx

/-- **write → read, one glyph, any choice of shared tuples and shared point numbers** -/
theorem writeGlyphWith_roundtrip (ax : Nat) (shared : List (List Int)) (lookup : List Int → Option Nat)
    (hlk : ∀ p i, lookup p = some i → i < 4096 ∧ shared[i]? = some p)
    (sharedPts : Option PPN)
    (hsp : ∀ q, sharedPts = some q → ∃ sq, ppnBytes q = some sq ∧ ∀ tail, splitRemainder (sq ++ tail) = tail)
    (ts : List TupleIn) (hne : ts ≠ []) (hok : ∀ t ∈ ts, TupleOk ax t)
    (bytes : List Nat) (hw : writeGlyphWith lookup sharedPts ts = some bytes) (rest : List Nat) :
    ∃ g, readGlyph ax (bytes ++ rest) = some g ∧
      g.tuples.map (RawTuple.view shared g.sharedPts) = ts.map TupleIn.view := by
  unfold writeGlyphWith at hw
  have hemp : ts.isEmpty = false := by cases ts <;> simp at hne ⊢
  simp only [hemp, Bool.false_eq_true, if_false] at hw
  cases hm : ts.mapM (fun t => buildTuple (lookup t.peak) sharedPts t) with
  | none => simp [hm] at hw
  | some built =>
    simp only [hm] at hw
    -- the shared point number bytes
    obtain ⟨sp, hspb, hsplit⟩ : ∃ sp, optPpnBytes sharedPts = some sp ∧
        (sharedPts.isSome → ∀ tail, splitRemainder (sp ++ tail) = tail) := by
      cases sharedPts with
      | none => exact ⟨[], rfl, by simp⟩
      | some q =>
        obtain ⟨sq, h1, h2⟩ := hsp q rfl
        exact ⟨sq, h1, fun _ => h2⟩
    let sd : Option (List Nat) :=
      if sharedPts.isSome then some (sp ++ (built.flatMap (·.2) ++ rest)) else none
    have hsd : ∀ q, sharedPts = some q → ∃ sq junk, ppnBytes q = some sq ∧ sd = some (sq ++ junk) := by
      intro q hq
      subst hq
      exact ⟨sp, built.flatMap (·.2) ++ rest, hspb, by simp [sd]⟩
    obtain ⟨bs, e1, e2, e3⟩ := built_list ax shared lookup hlk sharedPts sd hsd ts built hm hok
    rw [← e1] at hw
    obtain ⟨g, g1, g2, g3⟩ := readGlyph_serialize ax sharedPts bs e2 bytes hw sp hspb hsplit rest
    refine ⟨g, g1, ?_⟩
    have hfl : bs.flatMap (·.d) = built.flatMap (·.2) := by
      rw [← e1]; simp [List.flatMap_map]
    have hgs : g.sharedPts = sd := by rw [g2, hfl]
    rw [g3, hgs, List.map_map]
    exact e3

theorem sharedOk_all : ∃ sq, ppnBytes none = some sq ∧ ∀ tail, splitRemainder (sq ++ tail) = tail :=
  ⟨[0], rfl, fun tail => splitRemainder_zero tail⟩

theorem sharedOk_best (ds : List GDelta) (b : PPN) (hb : pickBest ds = some b) (hlen : ds.length ≤ 32767) :
    ∃ sq, ppnBytes b = some sq ∧ ∀ tail, splitRemainder (sq ++ tail) = tail := by
  rcases pickBest_cases ds b hb with rfl | ⟨rfl, hne⟩
  · exact sharedOk_all
  · cases hpts : requiredIdx 0 ds with
    | nil => exact absurd hpts hne
    | cons p0 ps =>
      obtain ⟨hp0, hasc⟩ := requiredIdx_head ds 0 (by omega) p0 ps hpts
      have hl : (p0 :: ps).length = (ds.filter (·.2.2)).length := by
        rw [← hpts]; exact requiredIdx_length ds 0
      have hfl : (ds.filter (·.2.2)).length ≤ ds.length := List.length_filter_le _ _
      have hbnd : ∀ p ∈ p0 :: ps, p ≤ 65535 := by
        intro p hp
        rcases List.mem_cons.mp hp with rfl | hp
        · exact hp0
        · exact (sasc_bound ps p0 hasc p hp).2
      have hpw : (p0 :: ps).Pairwise (· ≤ ·) := by
        rw [List.pairwise_cons]
        exact ⟨fun p hp => by have := sasc_bound ps p0 hasc p hp; omega, sasc_pairwise ps p0 hasc⟩
      obtain ⟨bs, e1, _, _⟩ := C10.points_roundtrip (p0 :: ps) (by simp) (by omega) hbnd hpw []
      refine ⟨bs, e1, fun tail => ?_⟩
      obtain ⟨bs', e1', _, e3'⟩ := C10.points_roundtrip (p0 :: ps) (by simp) (by omega) hbnd hpw tail
      rw [e1] at e1'; injection e1' with e1'; subst e1'
      exact e3'

/-! ### the implemented heuristics only pick among valid choices -/

theorem countPackings_keys : ∀ (ts : List TupleIn) (acc r : List (PPN × Nat × Nat)),
    countPackings ts acc = some r →
    ∀ e ∈ r, (∃ a ∈ acc, a.1 = e.1) ∨ ∃ t ∈ ts, t.best = e.1 := by
  intro ts
  induction ts with
  | nil => intro acc r h e he; simp [countPackings] at h; subst h; exact Or.inl ⟨e, he, rfl⟩
  | cons t ts ih =>
    intro acc r h e he
    simp only [countPackings] at h
    split at h
    · rcases ih _ r h e he with ⟨a, ha, hk⟩ | ⟨t', ht', hk⟩
      · obtain ⟨a0, ha0, rfl⟩ := List.mem_map.mp ha
        left
        refine ⟨a0, ha0, ?_⟩
        rw [← hk]; split <;> rfl
      · exact Or.inr ⟨t', by simp [ht'], hk⟩
    · split at h
      · cases h
      · rcases ih _ r h e he with ⟨a, ha, hk⟩ | ⟨t', ht', hk⟩
        · rcases List.mem_append.mp ha with ha | ha
          · exact Or.inl ⟨a, ha, hk⟩
          · simp only [List.mem_singleton] at ha
            subst ha
            exact Or.inr ⟨t, by simp, hk⟩
        · exact Or.inr ⟨t', by simp [ht'], hk⟩

theorem maxByFirstKey_mem {α : Type} (key : α → Nat) (l : List α) (x : α)
    (h : maxByFirstKey key l = some x) : x ∈ l := by
  cases l with
  | nil => simp [maxByFirstKey] at h
  | cons a l =>
    simp only [maxByFirstKey, Option.some.injEq] at h
    have : ∀ (l : List α) (b : α), l.foldl (fun best y => if key y ≤ key best then best else y) b ∈ b :: l := by
      intro l
      induction l with
      | nil => intro b; simp
      | cons y l ih =>
        intro b
        simp only [List.foldl_cons]
        have := ih (if key y ≤ key b then b else y)
        rcases List.mem_cons.mp this with h | h
        · rw [h]; split <;> simp
        · simp [h]
    rw [← h]; exact this l a

theorem computeSharedPoints_mem (ts : List TupleIn) (q : PPN)
    (h : computeSharedPoints ts = some (some q)) : ∃ t ∈ ts, t.best = q := by
  unfold computeSharedPoints at h
  cases hc : countPackings ts [] with
  | none => simp [hc] at h
  | some counts =>
    simp only [hc, Option.some.injEq] at h
    cases hm : maxByFirstKey (fun e : PPN × Nat × Nat => (e.2.2 - 1) * e.2.1) (counts.filter fun e => e.2.2 > 1) with
    | none => simp [hm] at h
    | some e =>
      simp only [hm, Option.map_some, Option.some.injEq] at h
      have hmem := List.mem_of_mem_filter (maxByFirstKey_mem _ _ e hm)
      rcases countPackings_keys ts [] counts hc e hmem with ⟨a, ha, _⟩ | ⟨t, ht, hk⟩
      · simp at ha
      · exact ⟨t, ht, by rw [hk, h]⟩

theorem lookupIn_spec : ∀ (shared : List (List Int)) (p : List Int) (i : Nat),
    lookupIn shared p = some i → i < shared.length ∧ shared[i]? = some p := by
  intro shared
  induction shared with
  | nil => intro p i h; simp [lookupIn] at h
  | cons s ss ih =>
    intro p i h
    simp only [lookupIn] at h
    split at h
    · injection h with h; subst h; rename_i hs; simp [hs]
    · cases hl : lookupIn ss p with
      | none => simp [hl] at h
      | some j =>
        simp only [hl, Option.map_some, Option.some.injEq] at h
        subst h
        obtain ⟨h1, h2⟩ := ih p j hl
        exact ⟨by simp; omega, by simpa using h2⟩

theorem sharedPeakTuples_length (glyphs : List (List TupleIn)) : (sharedPeakTuples glyphs).length ≤ 4095 := by
  simp only [sharedPeakTuples, List.length_map, List.length_take]
  omega

/-- `GlyphDeltas::new` output is well-formed -/
theorem glyphDeltasNew_ok (ax : Nat) (tents : List Tent) (ds : List GDelta) (t : TupleIn)
    (h : glyphDeltasNew tents ds = some t) (hax : tents.length = ax)
    (ht : ∀ x ∈ tents, inI16 x.peak ∧ inI16 x.min ∧ inI16 x.max)
    (hlen : ds.length ≤ 32767) (hd : ∀ d ∈ ds, inI16 d.1 ∧ inI16 d.2.1) :
    TupleOk ax t ∧ t.deltas = ds ∧ t.peak = tents.map (·.peak) ∧
      t.inter = (if tents.any Tent.requiresIntermediate
                 then some (tents.map (·.min), tents.map (·.max)) else none) := by
  unfold glyphDeltasNew at h
  cases hb : pickBest ds with
  | none => simp [hb] at h
  | some b =>
    simp only [hb, Option.some.injEq] at h
    subst h
    refine ⟨⟨hb, hlen, ?_, ⟨by simp [hax], ?_⟩, ?_⟩, rfl, rfl, rfl⟩
    · intro d hdm
      obtain ⟨⟨a1, a2⟩, ⟨b1, b2⟩⟩ := hd d hdm
      exact ⟨⟨by omega, by omega⟩, ⟨by omega, by omega⟩⟩
    · intro v hv
      obtain ⟨x, hx, rfl⟩ := List.mem_map.mp hv
      exact (ht x hx).1
    · intro s e hse
      simp only [] at hse
      split at hse
      · simp only [Option.some.injEq, Prod.mk.injEq] at hse
        obtain ⟨rfl, rfl⟩ := hse
        refine ⟨by simp [hax], by simp [hax], ?_, ?_⟩
        · intro v hv; obtain ⟨x, hx, rfl⟩ := List.mem_map.mp hv; exact (ht x hx).2.1
        · intro v hv; obtain ⟨x, hx, rfl⟩ := List.mem_map.mp hv; exact (ht x hx).2.2
      · cases hse

/-! ### the whole table: `Gvar::new` -/

theorem mem_insertByGid (x y : Nat × List TupleIn) : ∀ (l : List (Nat × List TupleIn)),
    y ∈ insertByGid x l ↔ y = x ∨ y ∈ l := by
  intro l
  induction l with
  | nil => simp [insertByGid]
  | cons z zs ih =>
    simp only [insertByGid]
    split
    · simp only [List.mem_cons, ih]
      constructor
      · rintro (h | h | h)
        · exact Or.inr (Or.inl h)
        · exact Or.inl h
        · exact Or.inr (Or.inr h)
      · rintro (h | h | h)
        · exact Or.inr (Or.inl h)
        · exact Or.inl h
        · exact Or.inr (Or.inr h)
    · simp only [List.mem_cons]

theorem mem_sorted (glyphs : List (Nat × List TupleIn)) (y : Nat × List TupleIn) :
    y ∈ glyphs.foldr insertByGid [] ↔ y ∈ glyphs := by
  induction glyphs with
  | nil => simp
  | cons g gs ih => simp only [List.foldr_cons, mem_insertByGid, ih, List.mem_cons]

/-- `GlyphVariations::build` + `write_into` → reader, on well-formed `GlyphDeltas` -/
theorem writeGlyph_roundtrip (ax : Nat) (shared : List (List Int)) (hshared : shared.length ≤ 4096)
    (ts : List TupleIn) (hne : ts ≠ []) (hok : ∀ t ∈ ts, TupleOk ax t)
    (bytes : List Nat) (hw : writeGlyph shared ts = some bytes) (rest : List Nat) :
    ∃ g, readGlyph ax (bytes ++ rest) = some g ∧
      g.tuples.map (RawTuple.view shared g.sharedPts) = ts.map TupleIn.view := by
  unfold writeGlyph at hw
  cases hc : computeSharedPoints ts with
  | none => simp [hc] at hw
  | some sp =>
    simp only [hc] at hw
    refine writeGlyphWith_roundtrip ax shared (lookupIn shared)
      (fun p i h => by obtain ⟨h1, h2⟩ := lookupIn_spec shared p i h; exact ⟨by omega, h2⟩)
      sp ?_ ts hne hok bytes hw rest
    intro q hq
    subst hq
    obtain ⟨t, ht, hb⟩ := computeSharedPoints_mem ts q hc
    have tok := hok t ht
    rw [← hb]
    exact sharedOk_best _ _ tok.best tok.len

theorem writeGlyph_empty (shared : List (List Int)) : writeGlyph shared [] = some [] := by
  simp [writeGlyph, computeSharedPoints, countPackings, maxByFirstKey, writeGlyphWith]

theorem writeGlyph_nonempty (shared : List (List Int)) (ts : List TupleIn) (hne : ts ≠ [])
    (bytes : List Nat) (hw : writeGlyph shared ts = some bytes) : bytes ≠ [] := by
  unfold writeGlyph at hw
  cases hc : computeSharedPoints ts with
  | none => simp [hc] at hw
  | some sp =>
    simp only [hc] at hw
    unfold writeGlyphWith at hw
    have hemp : ts.isEmpty = false := by cases ts <;> simp at hne ⊢
    simp only [hemp, Bool.false_eq_true, if_false] at hw
    cases hm : ts.mapM (fun t => buildTuple (lookupIn shared t.peak) sp t) with
    | none => simp [hm] at hw
    | some built =>
      simp only [hm] at hw
      unfold serializeGlyph at hw
      split at hw
      · cases hw
      · split at hw
        · simp only [] at hw
          split at hw
          · cases hw
          · injection hw with hw
            rw [← hw]
            simp [be16]
        · cases hw

end FontVerif.GvarData
