/-
C04 ⇄ C05, DSL lift, part 2: from the positional read-back of a value tree (`TableAt`, Lemmas/TableWriter4.lean) to a
run of `emitAt` on the table's own bytes in the output.
-/
import FontVerif.Lemmas.FieldNested
import FontVerif.Lemmas.TableWriter4
set_option linter.unusedVariables false
set_option linter.unusedSimpArgs false
namespace FontVerif.FieldNested
open FontVerif FontVerif.Field FontVerif.TableWriter FontVerif.C04

/-! ### big-endian: the two codecs agree -/

theorem beBytes_succ' (n v : Nat) : beBytes (n + 1) v = beBytes n (v / 256) ++ [v % 256] := by
  unfold beBytes
  rw [List.range_succ, List.map_append]
  congr 1
  · apply List.map_congr_left
    intro i hi
    have hi' : i < n := List.mem_range.mp hi
    rw [show n + 1 - 1 - i = (n - 1 - i) + 1 by omega, Nat.pow_succ, Nat.mul_comm, Nat.div_div_eq_div_mul]
  · simp

theorem be_eq_beBytes (n v : Nat) : be n v = beBytes n v := by
  induction n generalizing v with
  | zero => simp [be, beBytes]
  | succ n ih => rw [be, beBytes_succ', ih]

theorem beVal_eq_beValue (bs : List Nat) : beVal bs = beValue bs := rfl

theorem be_zero (w : Nat) : be w 0 = List.replicate w 0 := by
  induction w with
  | zero => rfl
  | succ n ih => rw [be, Nat.zero_div, ih, List.replicate_succ']

theorem beVal_replicate_zero (w : Nat) : beVal (List.replicate w 0) = 0 := by
  induction w with
  | zero => rfl
  | succ n ih => rw [List.replicate_succ', beVal_append_single, ih]

theorem maxValue_lt (w v : Nat) (hw : w = 2 ∨ w = 3 ∨ w = 4) (h : v ≤ Graph.maxValue w) : v < 256 ^ w := by
  rcases hw with rfl | rfl | rfl <;> simp [Graph.maxValue] at h ⊢ <;> omega

/-! ### the shape of what `emitN` produces -/

/-- byte length of a table without `adjust_offsets` blocks and padding -/
def lenN : Fields → Nat
  | .nil => 0
  | .bytes b r => b.length + lenN r
  | .null w r => w + lenN r
  | .link w _ _ r => w + lenN r
  | .adjust _ _ _ => 0
  | .pad2 _ => 0

/-- byte runs, null offsets, offsets of width 2/3/4 — nothing else -/
def Simple : Fields → Prop
  | .nil => True
  | .bytes _ r => Simple r
  | .null _ r => Simple r
  | .link w _ _ r => (w = 2 ∨ w = 3 ∨ w = 4) ∧ Simple r
  | .adjust _ _ _ => False
  | .pad2 _ => False

theorem lenOf_simple (w : Nat) (h : w = 2 ∨ w = 3 ∨ w = 4) : lenOf w = w ∧ min w 4 = w := by
  rcases h with rfl | rfl | rfl <;> simp [lenOf]

theorem emitN_simple (ext : Ext) (o : Obj) (slots : Slots) (kids : Kids) :
    ∀ (ws : List WF) (view : View) (fs : Fields) (v : View),
      emitN ext o slots kids ws view = some (fs, v) → slotOK slots ws = true → Simple fs := by
  intro ws
  induction ws with
  | nil =>
    intro view fs v h _
    simp only [emitN, Option.some.injEq, Prod.mk.injEq] at h
    rw [← h.1]; trivial
  | cons w ws ih =>
    intro view fs v h hok
    obtain ⟨hok1, hokr⟩ := slotOK_cons slots w ws hok
    simp only [emitN] at h
    split at h
    · rename_i width hs
      obtain ⟨_, hw⟩ := slotOK_slot slots w width hok1 hs
      split at h
      · split at h
        · split at h
          · rename_i fs' v' hrec
            simp only [Option.some.injEq, Prod.mk.injEq] at h
            rw [← h.1]; exact (ih _ _ _ hrec hokr : Simple fs')
          · cases h
        · split at h
          · rename_i fs' v' hrec
            simp only [Option.some.injEq, Prod.mk.injEq] at h
            rw [← h.1]; exact ⟨hw, ih _ _ _ hrec hokr⟩
          · cases h
      · exact ih _ _ _ h hokr
    · split at h
      · cases h
      · split at h
        · rename_i fs' v' hrec
          simp only [Option.some.injEq, Prod.mk.injEq] at h
          rw [← h.1]; exact (ih _ _ _ hrec hokr : Simple fs')
        · cases h

theorem flat_simple (fs : Fields) : ∀ len, Simple fs → (flat fs len).length = lenN fs := by
  induction fs with
  | nil => intro len _; rfl
  | bytes b r ih => intro len h; simp only [flat, lenN, List.length_append, ih _ h]
  | null w r ih => intro len h; simp only [flat, lenN, List.length_append, List.length_replicate, ih _ h]
  | link w ty c r ihc ihr =>
    intro len h
    simp only [flat, lenN, List.length_append, List.length_replicate, ihr _ h.2, (lenOf_simple w h.1).2]
  | adjust n b r _ _ => intro len h; cases h
  | pad2 r _ => intro len h; cases h

theorem skelLinks_range (fs : Fields) : ∀ len a, Simple fs → len + lenN fs < U32 →
    ∀ l ∈ skelLinks fs len a, len ≤ l.pos ∧ l.pos + l.width ≤ len + lenN fs := by
  induction fs with
  | nil => intro len a _ _ l hl; cases hl
  | bytes b r ih =>
    intro len a h hs l hl
    simp only [lenN] at hs
    have := ih (len + b.length) a h (by omega) l hl
    simp only [lenN]; omega
  | null w r ih =>
    intro len a h hs l hl
    simp only [lenN] at hs
    have := ih (len + w) a h (by omega) l hl
    simp only [lenN]; omega
  | link w ty c r ihc ihr =>
    intro len a h hs l hl
    simp only [lenN] at hs
    obtain ⟨e1, e2⟩ := lenOf_simple w h.1
    simp only [skelLinks, List.mem_cons, e2] at hl
    rcases hl with rfl | hl
    · simp only [lenN, e1, Nat.mod_eq_of_lt (by omega : len < U32)]; omega
    · have := ihr (len + w) _ h.2 (by omega) l hl
      simp only [lenN]; omega
  | adjust n b r _ _ => intro len a h; cases h
  | pad2 r _ => intro len a h; cases h

/-- the bytes `seg` hold the table `fs` from byte `len` on: byte runs and null offsets literally, a non-null offset as
the big-endian encoding of some number that fits its width -/
def SegAgrees (seg : Bytes) : Fields → Nat → Prop
  | .nil, _ => True
  | .bytes b rest, len => (seg.drop len).take b.length = b ∧ SegAgrees seg rest (len + b.length)
  | .null w rest, len => (seg.drop len).take w = List.replicate w 0 ∧ SegAgrees seg rest (len + w)
  | .link w _ _ rest, len => (∃ x, x < 256 ^ w ∧ (seg.drop len).take w = be w x) ∧ SegAgrees seg rest (len + w)
  | .adjust _ _ _, _ => False
  | .pad2 _, _ => False

theorem take_eq_of_getElem? (l b : List Nat) (h : ∀ i, i < b.length → l[i]? = b[i]?) : l.take b.length = b := by
  apply List.ext_getElem?
  intro i
  rw [List.getElem?_take]
  split
  · rename_i hi; exact h i hi
  · rename_i hi
    rw [List.getElem?_eq_none (by omega)]

/-- **from C05's `CopyAt` to literal segments** -/
theorem segAgrees_of_plain (out : List Nat) (hd : Nat) (fs : Fields) : ∀ len a, Simple fs → len + lenN fs < U32 →
    (∀ k, k < lenN fs → (∀ l ∈ skelLinks fs len a, ¬ (l.pos ≤ len + k ∧ len + k < l.pos + l.width)) →
      out[hd + (len + k)]? = (flat fs len)[k]?) →
    ReadsAs out hd fs len a → SegAgrees (out.drop hd) fs len := by
  induction fs with
  | nil => intro len a _ _ _ _; trivial
  | bytes b r ih =>
    intro len a hs hlen hplain hr
    simp only [lenN] at hlen hplain
    refine ⟨?_, ih (len + b.length) a hs (by omega) ?_ hr⟩
    · apply take_eq_of_getElem?
      intro i hi
      rw [List.getElem?_drop, List.getElem?_drop, hplain i (by omega) ?_]
      · simp only [flat]; rw [List.getElem?_append_left hi]
      · intro l hl
        have := skelLinks_range r (len + b.length) a hs (by omega) l hl
        omega
    · intro k hk hp
      have := hplain (b.length + k) (by omega) (fun l hl => by have := hp l hl; omega)
      rw [show hd + (len + b.length + k) = hd + (len + (b.length + k)) by omega, this]
      simp only [flat]
      rw [List.getElem?_append_right (by omega)]
      congr 1; omega
  | null w r ih =>
    intro len a hs hlen hplain hr
    simp only [lenN] at hlen hplain
    refine ⟨?_, ih (len + w) a hs (by omega) ?_ hr⟩
    · have key : ((out.drop hd).drop len).take (List.replicate w 0).length = List.replicate w 0 := by
        apply take_eq_of_getElem?
        intro i hi
        rw [List.length_replicate] at hi
        rw [List.getElem?_drop, List.getElem?_drop, hplain i (by omega) ?_]
        · simp only [flat]; rw [List.getElem?_append_left (by simpa using hi)]
        · intro l hl'
          have := skelLinks_range r (len + w) a hs (by omega) l hl'
          omega
      rw [List.length_replicate] at key
      exact key
    · intro k hk hp
      have := hplain (w + k) (by omega) (fun l hl => by have := hp l hl; omega)
      rw [show hd + (len + w + k) = hd + (len + (w + k)) by omega, this]
      simp only [flat]
      rw [List.getElem?_append_right (by simp)]
      congr 1; simp
  | link w ty c r ihc ihr =>
    intro len a hs hlen hplain hr
    simp only [lenN] at hlen hplain
    obtain ⟨e1, e2⟩ := lenOf_simple w hs.1
    obtain ⟨hfit, henc, _, _, hrest⟩ := hr
    rw [e1, Nat.mod_eq_of_lt (by omega : len < U32)] at hfit henc
    rw [e2] at hrest
    refine ⟨⟨beValue ((out.drop (hd + len)).take w), maxValue_lt w _ hs.1 hfit, ?_⟩,
      ihr (len + w) _ hs.2 (by omega) ?_ hrest⟩
    · rw [List.drop_drop, be_eq_beBytes]; exact henc
    · intro k hk hp
      have := hplain (w + k) (by omega) (fun l hl => by
        simp only [skelLinks, List.mem_cons, e1, e2] at hl
        rcases hl with rfl | hl
        · simp only [Nat.mod_eq_of_lt (by omega : len < U32)]; omega
        · have := hp l hl; omega)
      rw [show hd + (len + w + k) = hd + (len + (w + k)) by omega, this]
      simp only [flat, e2]
      rw [List.getElem?_append_right (by simp)]
      congr 1; simp
  | adjust n b r _ _ => intro len a h; cases h
  | pad2 r _ => intro len a h; cases h

theorem segAgrees_of_tableAt (out : List Nat) (hd : Nat) (fs : Fields) (hs : Simple fs) (hlen : lenN fs < U32)
    (h : TableAt out hd fs 0) : SegAgrees (out.drop hd) fs 0 ∧ hd + lenN fs ≤ out.length := by
  obtain ⟨hcopy, hr⟩ := h
  have hfl := flat_simple fs 0 hs
  refine ⟨segAgrees_of_plain out hd fs 0 0 hs (by omega) ?_ hr, ?_⟩
  · intro k hk hp
    have := hcopy.2 k (by simp only [skel]; omega) (fun l hl => by simpa using hp l hl)
    simpa [skel] using this
  · have := hcopy.1
    simp only [skel] at this
    omega

end FontVerif.FieldNested
