/-
Helper lemmas for C05 (Model/Graph.lean): the preparation walks of `sort_shortest_distance`
(`update_distances`, `assign_space_0`) stay within their fuel and keep the node ids; hence
`sort_shortest_distance` returns on every acyclic input all of whose objects are reachable.
-/
import FontVerif.Model.Graph
import FontVerif.Lemmas.GraphTopo3
set_option linter.unusedVariables false
set_option linter.unusedSimpArgs false
namespace FontVerif.Graph
open FontVerif

/-! ### node ids are never added or dropped by the sort's preparation -/

theorem Map.keys_modify {α : Type} (m : Map α) (x : Nat) (f : α → α) : (Map.modify m x f).keys = m.keys := by
  unfold Map.modify Map.keys
  rw [List.map_map]
  apply List.map_congr_left
  intro kv _
  simp only [Function.comp]
  split <;> rfl

theorem Map.keys_mapVal {α : Type} (m : Map α) (h : α → α) :
    Map.keys (m.map (fun kv => (kv.1, h kv.2))) = m.keys := by
  unfold Map.keys
  rw [List.map_map]
  rfl

theorem hasKey_iff (ns : Map Node) (c : Nat) : hasKey ns c = true ↔ c ∈ ns.keys := by
  constructor
  · exact hasKey_mem_keys ns c
  · intro h
    obtain ⟨kv, hkv, rfl⟩ := List.mem_map.mp h
    have := Map.mem_find?_isSome ns kv hkv
    unfold hasKey
    cases hf : ns.find? kv.1 with
    | none => exact absurd hf this
    | some v => rfl

theorem hasKey_of_keys (ns ns' : Map Node) (h : ns'.keys = ns.keys) (c : Nat) : hasKey ns' c = hasKey ns c := by
  have h1 := hasKey_iff ns c
  have h2 := hasKey_iff ns' c
  rw [h] at h2
  cases ha : hasKey ns c <;> cases hb : hasKey ns' c <;> simp_all

theorem updParents_inner_keys (src : Nat) (links : List Link) (ns : Map Node) :
    (links.foldl (fun ns l =>
        Map.modify ns l.target (fun n => { n with parents := n.parents ++ [(src, l.width)] })) ns).keys = ns.keys := by
  induction links generalizing ns with
  | nil => rfl
  | cons l rest ih => simp only [List.foldl_cons]; rw [ih, Map.keys_modify]

theorem updParents_outer_keys (objs : List (Nat × Obj)) (ns : Map Node) :
    (objs.foldl (fun ns kv =>
        kv.2.links.foldl (fun ns l =>
          Map.modify ns l.target (fun n => { n with parents := n.parents ++ [(kv.1, l.width)] })) ns) ns).keys = ns.keys := by
  induction objs generalizing ns with
  | nil => rfl
  | cons kv rest ih => simp only [List.foldl_cons]; rw [ih, updParents_inner_keys]

theorem updateParents_keys (g : Graph) : (updateParents g).nodes.keys = g.nodes.keys := by
  unfold updateParents
  split
  · rfl
  · simp only []
    rw [updParents_outer_keys, Map.keys_mapVal g.nodes (fun n => { n with parents := [] })]

theorem updDistFold_keys (visited : Set) (nd : Nat) (links : List Link) (acc : List (Nat × Nat) × Map Node) :
    (links.foldl (updDistVisitLink visited nd) acc).2.keys = acc.2.keys ∧
    (links.foldl (updDistVisitLink visited nd) acc).1.length ≤ acc.1.length + links.length := by
  induction links generalizing acc with
  | nil => exact ⟨rfl, by simp⟩
  | cons l rest ih =>
    simp only [List.foldl_cons, List.length_cons]
    obtain ⟨i1, i2⟩ := ih (updDistVisitLink visited nd acc l)
    have hstep : (updDistVisitLink visited nd acc l).2.keys = acc.2.keys ∧
        (updDistVisitLink visited nd acc l).1.length ≤ acc.1.length + 1 := by
      unfold updDistVisitLink
      split
      · exact ⟨rfl, by omega⟩
      · simp only []
        split
        · refine ⟨?_, ?_⟩
          · simp only []
            exact Map.keys_modify _ _ _
          · simp only []
            rw [(insertBy_perm distBefore _ acc.1).length_eq]
            simp
        · exact ⟨rfl, by omega⟩
    exact ⟨i1.trans hstep.1, by omega⟩

theorem updDistLoop_keys (g : Graph) (fuel : Nat) (queue : List (Nat × Nat)) (visited : Set) (nodes nodes' : Map Node)
    (h : updDistLoop g fuel queue visited nodes = some nodes') : nodes'.keys = nodes.keys := by
  induction fuel generalizing queue visited nodes with
  | zero => simp [updDistLoop] at h
  | succ n ih =>
    unfold updDistLoop at h
    split at h
    · simp only [Option.some.injEq] at h; subst h; rfl
    · rename_i d x rest
      split at h
      · exact ih _ _ _ h
      · simp only [] at h
        have hk := (updDistFold_keys (visited.insert x) ((nodes.find? x).getD default).distance (g.linksOf x) (rest, nodes)).1
        generalize hfold : (g.linksOf x).foldl (updDistVisitLink (visited.insert x) ((nodes.find? x).getD default).distance) (rest, nodes) = res at h hk
        obtain ⟨q, ns⟩ := res
        simp only [] at h
        rw [ih _ _ _ h]
        exact hk

theorem updateDistances_keys (g g' : Graph) (h : updateDistances g = some g') : g'.nodes.keys = g.nodes.keys := by
  unfold updateDistances at h
  simp only [] at h
  split at h
  · simp at h
  · rename_i nodes' hl
    simp only [Option.some.injEq] at h; subst h
    simp only []
    rw [updDistLoop_keys g _ _ _ _ _ hl, Map.keys_modify, Map.keys_mapVal g.nodes (fun n => { n with distance := U32_MAX })]

theorem space0Loop_keys (g : Graph) (fuel : Nat) (queue : List Nat) (nodes nodes' : Map Node)
    (h : space0Loop g fuel queue nodes = some nodes') : nodes'.keys = nodes.keys := by
  induction fuel generalizing queue nodes with
  | zero => simp [space0Loop] at h
  | succ n ih =>
    unfold space0Loop at h
    split at h
    · simp only [Option.some.injEq] at h; subst h; rfl
    · split at h
      · split at h
        · simp only [] at h
          rw [ih _ _ h, Map.keys_modify]
        · exact ih _ _ h
      · exact ih _ _ h

theorem assignSpace0_keys (g g' : Graph) (h : assignSpace0 g = some g') : g'.nodes.keys = g.nodes.keys := by
  unfold assignSpace0 at h
  split at h
  · simp at h
  · rename_i nodes' hl
    simp only [Option.some.injEq] at h; subst h
    exact space0Loop_keys g _ _ _ _ hl

/-! ### sums over filtered lists -/

theorem filter_sum_mono {α : Type} (l : List α) (p q : α → Bool) (f : α → Nat) (h : ∀ k, p k = true → q k = true) :
    ((l.filter p).map f).sum ≤ ((l.filter q).map f).sum := by
  induction l with
  | nil => simp
  | cons a rest ih =>
    simp only [List.filter_cons]
    by_cases hp : p a = true
    · simp only [hp, h a hp, ↓reduceIte, List.map_cons, List.sum_cons]; omega
    · simp only [hp, Bool.false_eq_true, ↓reduceIte]
      split
      · simp only [List.map_cons, List.sum_cons]; omega
      · exact ih

theorem filter_sum_strict {α : Type} (l : List α) (p q : α → Bool) (f : α → Nat) (h : ∀ k, p k = true → q k = true)
    (a : α) (ha : a ∈ l) (hq : q a = true) (hp : p a = false) :
    ((l.filter p).map f).sum + f a ≤ ((l.filter q).map f).sum := by
  induction l with
  | nil => simp at ha
  | cons b rest ih =>
    simp only [List.filter_cons]
    rcases List.mem_cons.mp ha with rfl | ha
    · simp only [hp, hq, Bool.false_eq_true, ↓reduceIte, List.map_cons, List.sum_cons]
      have := filter_sum_mono rest p q f h
      omega
    · have := ih ha
      by_cases hpb : p b = true
      · simp only [hpb, h b hpb, ↓reduceIte, List.map_cons, List.sum_cons]; omega
      · simp only [hpb, Bool.false_eq_true, ↓reduceIte]
        split
        · simp only [List.map_cons, List.sum_cons]; omega
        · exact this

theorem totalLinks_eq (g : Graph) : totalLinks g = (g.objects.map (fun kv => kv.2.links.length)).sum := by
  unfold totalLinks
  have key : ∀ (objs : List (Nat × Obj)) (n : Nat),
      objs.foldl (fun n kv => n + kv.2.links.length) n = n + (objs.map (fun kv => kv.2.links.length)).sum := by
    intro objs
    induction objs with
    | nil => intro n; simp
    | cons kv rest ih => intro n; simp only [List.foldl_cons, List.map_cons, List.sum_cons]; rw [ih]; omega
  rw [key]; simp

theorem totalLinks_keys (g : Graph) (hK : g.objects.keys.Nodup) :
    totalLinks g = (g.objects.keys.map (fun k => (g.obj k).links.length)).sum := by
  rw [totalLinks_eq]
  unfold Map.keys
  rw [List.map_map]
  congr 1
  apply List.map_congr_left
  intro kv hkv
  simp only [Function.comp, Graph.obj, Map.find?_of_mem_nodup g.objects hK kv hkv, Option.getD_some]

/-! ### `update_distances` stays within its fuel -/

/-- links of the objects not yet visited -/
def linksLeft (g : Graph) (visited : Set) : Nat :=
  ((g.objects.keys.filter (fun k => !visited.contains k)).map (fun k => (g.obj k).links.length)).sum

theorem linksLeft_insert (g : Graph) (visited : Set) (id : Nat) (hv : visited.contains id = false) :
    linksLeft g (visited.insert id) + (g.obj id).links.length ≤ linksLeft g visited := by
  unfold linksLeft
  have hmono : ∀ k, (!(visited.insert id).contains k) = true → (!visited.contains k) = true := by
    intro k hk
    simp only [Bool.not_eq_eq_eq_not, Bool.not_true] at hk ⊢
    cases hs : visited.contains k with
    | false => rfl
    | true =>
      have := (Set.contains_iff _ k).mpr (Set.mem_insert_of_mem visited id k ((Set.contains_iff visited k).mp hs))
      rw [this] at hk; simp at hk
  by_cases hk : id ∈ g.objects.keys
  · apply filter_sum_strict _ _ _ _ hmono id hk
    · simp [hv]
    · simp only [Bool.not_eq_eq_eq_not, Bool.not_false]
      exact (Set.contains_iff _ _).mpr (Set.mem_insert_self visited id)
  · have hl : (g.obj id).links = [] := by
      unfold Graph.obj
      cases hf : g.objects.find? id with
      | none => rfl
      | some o => exact absurd (Map.find?_some_mem_keys _ _ _ hf) hk
    rw [hl]
    simp only [List.length_nil, Nat.add_zero]
    exact filter_sum_mono _ _ _ _ hmono

theorem updDistLoop_fuel (g : Graph) (fuel : Nat) (queue : List (Nat × Nat)) (visited : Set) (nodes : Map Node)
    (h : queue.length + linksLeft g visited < fuel) : ∃ ns, updDistLoop g fuel queue visited nodes = some ns := by
  induction fuel generalizing queue visited nodes with
  | zero => omega
  | succ n ih =>
    unfold updDistLoop
    split
    · exact ⟨nodes, rfl⟩
    · rename_i d id rest
      simp only [List.length_cons] at h
      split
      · exact ih rest visited nodes (by omega)
      · rename_i hv
        simp only []
        have hlen := (updDistFold_keys (visited.insert id) ((nodes.find? id).getD default).distance (g.linksOf id) (rest, nodes)).2
        generalize hfold : (g.linksOf id).foldl (updDistVisitLink (visited.insert id) ((nodes.find? id).getD default).distance) (rest, nodes) = res at hlen
        obtain ⟨q, ns⟩ := res
        simp only []
        apply ih
        have := linksLeft_insert g visited id (by simpa using hv)
        simp only [] at hlen
        unfold Graph.linksOf at hlen
        omega

theorem linksLeft_nil_le (g : Graph) (hK : g.objects.keys.Nodup) : linksLeft g [] ≤ totalLinks g := by
  rw [totalLinks_keys g hK]
  unfold linksLeft
  have := filter_sum_mono g.objects.keys (fun k => !Set.contains [] k) (fun _ => true)
    (fun k => (g.obj k).links.length) (fun _ _ => rfl)
  have hall : List.filter (fun _ => true) g.objects.keys = g.objects.keys := List.filter_eq_self.mpr (fun _ _ => rfl)
  rw [hall] at this
  exact this

theorem updateDistances_returns (g : Graph) (hK : g.objects.keys.Nodup) : ∃ g', updateDistances g = some g' := by
  unfold updateDistances
  simp only []
  obtain ⟨ns, hns⟩ := updDistLoop_fuel g (totalLinks g + 2) [(0, g.root)] []
    (Map.modify (g.nodes.map (fun kv => (kv.1, { kv.2 with distance := U32_MAX }))) g.root (fun n => { n with distance := 0 }))
    (by have := linksLeft_nil_le g hK; simp only [List.length_cons, List.length_nil]; omega)
  rw [hns]
  exact ⟨_, rfl⟩

/-! ### `assign_space_0` stays within its fuel -/

/-- `1 + number of links` of the nodes not yet in space 0 -/
def spaceLeft (g : Graph) (nodes : Map Node) : Nat :=
  ((nodes.keys.filter (fun k => decide (((nodes.find? k).getD default).space ≠ 0))).map
    (fun k => 1 + (g.obj k).links.length)).sum

theorem space0_queue_len (links : List Link) (q : List Nat) :
    (links.foldl (fun q l => if l.width ≠ 4 then q ++ [l.target] else q) q).length ≤ q.length + links.length := by
  induction links generalizing q with
  | nil => simp
  | cons l rest ih =>
    simp only [List.foldl_cons, List.length_cons]
    by_cases hw : l.width ≠ 4
    · rw [if_pos hw]
      have := ih (q ++ [l.target])
      simp only [List.length_append, List.length_cons, List.length_nil] at this
      omega
    · rw [if_neg hw]
      have := ih q
      omega

theorem spaceLeft_modify (g : Graph) (nodes : Map Node) (next : Nat) (node : Node)
    (hf : nodes.find? next = some node) (hs : node.space ≠ 0) :
    spaceLeft g (Map.modify nodes next (fun n => { n with space := 0 })) + (1 + (g.obj next).links.length)
      ≤ spaceLeft g nodes := by
  unfold spaceLeft
  rw [Map.keys_modify]
  apply filter_sum_strict _ _ _ _ ?_ next (Map.find?_some_mem_keys nodes next node hf)
  · simp [hf, hs]
  · rw [Map.find?_modify]
    simp [hf]
  · intro k hk
    rw [Map.find?_modify] at hk
    split at hk
    · rename_i hkn
      subst hkn
      simp [hf] at hk
    · exact hk

theorem space0Loop_fuel (g : Graph) (fuel : Nat) (queue : List Nat) (nodes : Map Node)
    (h : queue.length + spaceLeft g nodes < fuel) : ∃ ns, space0Loop g fuel queue nodes = some ns := by
  induction fuel generalizing queue nodes with
  | zero => omega
  | succ n ih =>
    unfold space0Loop
    split
    · exact ⟨nodes, rfl⟩
    · rename_i next rest
      simp only [List.length_cons] at h
      split
      · rename_i node hf
        split
        · rename_i hs
          simp only []
          apply ih
          have h1 := spaceLeft_modify g nodes next node hf hs
          unfold Graph.obj at h1
          cases hfo : g.objects.find? next with
          | none =>
            rw [hfo] at h1
            simp only [Option.getD_none, default_obj_links, List.length_nil, List.foldl_nil] at h1 ⊢
            omega
          | some o =>
            rw [hfo] at h1
            simp only [Option.getD_some] at h1 ⊢
            have h2 := space0_queue_len o.links rest
            omega
        · exact ih rest nodes (by omega)
      · exact ih rest nodes (by omega)

theorem sum_map_one_add (xs : List Nat) (f : Nat → Nat) :
    (xs.map (fun k => 1 + f k)).sum = xs.length + (xs.map f).sum := by
  induction xs with
  | nil => simp
  | cons x rest ih => simp only [List.map_cons, List.sum_cons, List.length_cons, ih]; omega

theorem spaceLeft_le (g : Graph) (hK : g.objects.keys.Nodup) (hN : g.nodes.keys.Nodup) :
    spaceLeft g g.nodes ≤ g.nodes.length + totalLinks g := by
  unfold spaceLeft
  have h1 := filter_sum_mono g.nodes.keys (fun k => decide (((g.nodes.find? k).getD default).space ≠ 0)) (fun _ => true)
    (fun k => 1 + (g.obj k).links.length) (fun _ _ => rfl)
  have hall : List.filter (fun _ => true) g.nodes.keys = g.nodes.keys := List.filter_eq_self.mpr (fun _ _ => rfl)
  rw [hall, sum_map_one_add g.nodes.keys] at h1
  have h2 := (sum_map_sub (fun k => (g.obj k).links.length) g.objects.keys g.nodes.keys hN hK (by
    intro x _ hx
    unfold Graph.obj at hx
    cases hf : g.objects.find? x with
    | none => rw [hf] at hx; exact absurd rfl hx
    | some o => exact Map.find?_some_mem_keys _ _ _ hf)).1
  rw [totalLinks_keys g hK]
  have h3 : g.nodes.keys.length = g.nodes.length := by simp [Map.keys]
  omega

theorem assignSpace0_returns (g : Graph) (hK : g.objects.keys.Nodup) (hN : g.nodes.keys.Nodup) :
    ∃ g', assignSpace0 g = some g' := by
  unfold assignSpace0
  obtain ⟨ns, hns⟩ := space0Loop_fuel g (g.nodes.length + totalLinks g + 2) [g.root] g.nodes
    (by have := spaceLeft_le g hK hN; simp only [List.length_cons, List.length_nil]; omega)
  rw [hns]
  exact ⟨_, rfl⟩

/-! ### `sort_shortest_distance` returns -/

theorem keys_fromObjects (objs : Map Obj) (root : Nat) : (Graph.fromObjects objs root).nodes.keys = objs.keys := by
  unfold Graph.fromObjects Map.keys
  simp only [List.map_map]
  rfl

/-- **`sort_shortest_distance` returns on every acyclic input all of whose objects are reachable** -/
theorem sortShortest_returns (objs : Map Obj) (root : Nat) (h : GoodInput objs root) :
    ∃ g', sortShortest (Graph.fromObjects objs root) = some g' := by
  have hKu : (updateParents (Graph.fromObjects objs root)).objects.keys.Nodup := by
    rw [updateParents_objects]; exact h.keys
  obtain ⟨g2, hd2⟩ := updateDistances_returns (updateParents (Graph.fromObjects objs root)) hKu
  have ho2 := updateDistances_objects _ _ hd2
  have hk2 : g2.nodes.keys = objs.keys := by
    rw [updateDistances_keys _ _ hd2, updateParents_keys, keys_fromObjects]
  obtain ⟨g3, hs3⟩ := assignSpace0_returns g2 (by rw [ho2.1]; exact hKu) (by rw [hk2]; exact h.keys)
  have ho3 := assignSpace0_objects _ _ hs3
  have hk3 : g3.nodes.keys = (Graph.fromObjects objs root).nodes.keys := by
    rw [assignSpace0_keys _ _ hs3, hk2, keys_fromObjects]
  have hobjs : g3.objects = objs := by rw [ho3.1, ho2.1, updateParents_objects]; rfl
  have hr : g3.root = root := by rw [ho3.2, ho2.2, updateParents_root]; rfl
  obtain ⟨f1, f2, f3, f4, f5, f6⟩ := good_facts objs root h g3 hobjs hr (hasKey_of_keys _ _ hk3)
    (fun c => by rw [assignSpace0_indeg _ _ hs3, updateDistances_indeg _ _ hd2])
  obtain ⟨st, hloop, hcyc⟩ := short_returns_core g3 f1 f2 f3 f4 f5 f6
  unfold sortShortest
  simp only [Option.bind_eq_bind, hd2, hs3, hloop, Option.bind_some, hcyc, ↓reduceIte]
  exact ⟨_, rfl⟩

end FontVerif.Graph
