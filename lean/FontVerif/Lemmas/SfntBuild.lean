/-
Helper lemmas for C06, part 2: layout of `build`, reading the directory back, binary search.
-/
import FontVerif.Model.Sfnt
import FontVerif.Lemmas.Sfnt
set_option linter.unusedVariables false
set_option linter.unusedSimpArgs false
namespace FontVerif.Sfnt

/-! ## sizes -/

/-- bytes occupied by the padded tables -/
def bodyLen : Tables → Nat
  | [] => 0
  | e :: rest => round4 e.2.length + bodyLen rest

/-- size of the file `build` produces: header, 16 bytes per record, padded tables -/
def fileSize (m : Tables) : Nat := 12 + 16 * m.length + bodyLen m

theorem bodyLen_perm {a b : Tables} (h : a.Perm b) : bodyLen a = bodyLen b := by
  induction h with
  | nil => rfl
  | cons x _ ih => simp only [bodyLen, ih]
  | swap x y l => simp only [bodyLen]; omega
  | trans _ _ ih1 ih2 => omega

theorem zeroAdj_length (t : Nat) (d : Bytes) : (zeroAdj t d).length = d.length := by
  unfold zeroAdj
  split
  · rename_i h
    simp only [List.length_append, List.length_take, List.length_drop, List.length_cons,
      List.length_nil]
    omega
  · rfl

theorem withAdj_length (adj t : Nat) (d : Bytes) : (withAdj adj t d).length = d.length := by
  unfold withAdj
  split
  · rename_i h
    simp only [List.length_append, List.length_take, List.length_drop, be4_length]
    omega
  · rfl

theorem bodyLen_map_zeroAdj (es : Tables) :
    bodyLen (es.map (fun e => (e.1, zeroAdj e.1 e.2))) = bodyLen es := by
  induction es with
  | nil => rfl
  | cons e rest ih => simp only [List.map_cons, bodyLen, zeroAdj_length, ih]

theorem bodyBytes_length (adj : Nat) (es : Tables) : (bodyBytes adj es).length = bodyLen es := by
  induction es with
  | nil => rfl
  | cons e rest ih =>
    have := round4_ge e.2.length
    have hb : bodyBytes adj (e :: rest)
        = (withAdj adj e.1 e.2 ++ zeros (round4 e.2.length - e.2.length)) ++ bodyBytes adj rest := by
      simp only [bodyBytes, List.flatMap_cons]
    rw [hb]
    simp only [List.length_append, withAdj_length, zeros, List.length_replicate, bodyLen, ih]
    omega

/-! ## layout -/

/-- the records `layout` produces when nothing overflows -/
def layoutRecs : Tables → Nat → List Rec
  | [], _ => []
  | e :: rest, pos =>
    { tag := e.1, checksum := checksum e.2, offset := pos, length := e.2.length } ::
      layoutRecs rest (pos + round4 e.2.length)

theorem layout_eq (es : Tables) (pos : Nat) (h : pos + bodyLen es < 4294967296) :
    layout es pos = some (layoutRecs es pos) := by
  induction es generalizing pos with
  | nil => rfl
  | cons e rest ih =>
    obtain ⟨t, d⟩ := e
    simp only [bodyLen] at h
    have h1 := round4_ge d.length
    have h2 := round4_lt d.length
    have hl : d.length % 4294967296 = d.length := Nat.mod_eq_of_lt (by omega)
    have hp : (round4 d.length - d.length) % 4294967296 = round4 d.length - d.length :=
      Nat.mod_eq_of_lt (by omega)
    have hpos : pos + d.length + (round4 d.length - d.length) = pos + round4 d.length := by omega
    simp only [layout, hl, hp, hpos]
    rw [if_neg (by omega), if_neg (by omega), ih (pos + round4 d.length) (by omega)]
    simp only [layoutRecs]

theorem layoutRecs_length (es : Tables) (pos : Nat) : (layoutRecs es pos).length = es.length := by
  induction es generalizing pos with
  | nil => rfl
  | cons e rest ih => simp only [layoutRecs, List.length_cons, ih]

theorem layoutRecs_tags (es : Tables) (pos : Nat) :
    (layoutRecs es pos).map (·.tag) = es.map Prod.fst := by
  induction es generalizing pos with
  | nil => rfl
  | cons e rest ih => simp only [layoutRecs, List.map_cons, ih]

theorem layoutRecs_checksums (es : Tables) (pos : Nat) :
    (layoutRecs es pos).map (·.checksum) = es.map (fun e => checksum e.2) := by
  induction es generalizing pos with
  | nil => rfl
  | cons e rest ih => simp only [layoutRecs, List.map_cons, ih]

/-- Where each record points: the slice of the file at its offset is the (adjusted) table followed
by its zero padding; offsets advance in multiples of four from the start position. -/
theorem layout_slice (adj : Nat) : ∀ (es : Tables) (pos : Nat) (pre post : Bytes),
    pre.length = pos → ∀ r ∈ layoutRecs es pos, ∃ d, (r.tag, d) ∈ es ∧ r.length = d.length ∧
      r.checksum = checksum d ∧ pos ≤ r.offset ∧ (r.offset - pos) % 4 = 0 ∧
      r.offset + round4 d.length ≤ pos + bodyLen es ∧
      ((pre ++ bodyBytes adj es ++ post).drop r.offset).take (round4 d.length)
        = withAdj adj r.tag d ++ zeros (round4 d.length - d.length) := by
  intro es
  induction es with
  | nil => intro pos pre post _ r hr; simp [layoutRecs] at hr
  | cons e rest ih =>
    intro pos pre post hpre r hr
    obtain ⟨t, d⟩ := e
    have hge := round4_ge d.length
    have hchunk : (withAdj adj t d ++ zeros (round4 d.length - d.length)).length = round4 d.length := by
      simp only [List.length_append, withAdj_length, zeros, List.length_replicate]; omega
    have hbody : bodyBytes adj ((t, d) :: rest)
        = (withAdj adj t d ++ zeros (round4 d.length - d.length)) ++ bodyBytes adj rest := by
      simp only [bodyBytes, List.flatMap_cons]
    simp only [layoutRecs, List.mem_cons] at hr
    rcases hr with rfl | hr
    · refine ⟨d, by simp, rfl, rfl, Nat.le_refl _, by simp, by simp only [bodyLen]; omega, ?_⟩
      simp only []
      rw [hbody, List.append_assoc, List.append_assoc, List.drop_left' hpre, List.take_left' hchunk]
    · have := ih (pos + round4 d.length) (pre ++ (withAdj adj t d ++ zeros (round4 d.length - d.length)))
        post (by simp only [List.length_append] at hchunk ⊢; omega) r hr
      obtain ⟨d', hmem, hlen, hcs, hpos, hmod, hend, hsl⟩ := this
      refine ⟨d', by simp [hmem], hlen, hcs, by omega, ?_, by simp only [bodyLen]; omega, ?_⟩
      · have := round4_mod d.length
        omega
      · rw [hbody]
        simpa only [List.append_assoc] using hsl

/-! ## reading the directory back -/

/-- all four fields of a record fit `u32` -/
def RecWF (r : Rec) : Prop :=
  r.tag < 4294967296 ∧ r.checksum < 4294967296 ∧ r.offset < 4294967296 ∧ r.length < 4294967296

theorem rd32_be4 (v : Nat) (rest : Bytes) (h : v < 4294967296) : rd32 (be4 v ++ rest) = v := by
  simp only [be4, List.cons_append, List.nil_append, rd32, be32]; omega

theorem recBytes_length (r : Rec) : (recBytes r).length = 16 := by
  simp only [recBytes, List.length_append, be4_length]

theorem flatMap_recBytes_length (recs : List Rec) :
    (recs.flatMap recBytes).length = 16 * recs.length := by
  induction recs with
  | nil => rfl
  | cons r rest ih =>
    simp only [List.flatMap_cons, List.length_append, recBytes_length, ih, List.length_cons]; omega

theorem parseRecs_flatMap (recs : List Rec) (rest : Bytes) (h : ∀ r ∈ recs, RecWF r) :
    parseRecs recs.length (recs.flatMap recBytes ++ rest) = recs := by
  induction recs with
  | nil => rfl
  | cons r rs ih =>
    obtain ⟨h1, h2, h3, h4⟩ := h r (by simp)
    have e : (r :: rs).flatMap recBytes ++ rest
        = be4 r.tag ++ (be4 r.checksum ++ (be4 r.offset ++ (be4 r.length ++ (rs.flatMap recBytes ++ rest)))) := by
      simp only [List.flatMap_cons, recBytes, List.append_assoc]
    rw [e]
    simp only [List.length_cons, parseRecs]
    have d4 : ∀ (v : Nat) (x : Bytes), List.drop 4 (be4 v ++ x) = x := by
      intro v x; simp [be4]
    have d8 : ∀ (v w : Nat) (x : Bytes), List.drop 8 (be4 v ++ (be4 w ++ x)) = x := by
      intro v w x; simp [be4]
    have d12 : ∀ (v w u : Nat) (x : Bytes), List.drop 12 (be4 v ++ (be4 w ++ (be4 u ++ x))) = x := by
      intro v w u x; simp [be4]
    have d16 : ∀ (v w u z : Nat) (x : Bytes),
        List.drop 16 (be4 v ++ (be4 w ++ (be4 u ++ (be4 z ++ x)))) = x := by
      intro v w u z x; simp [be4]
    rw [d4, d8, d12, d16, rd32_be4 _ _ h1, rd32_be4 _ _ h2, rd32_be4 _ _ h3, rd32_be4 _ _ h4,
      ih (fun r hr => h r (by simp [hr]))]

theorem dirBytes_eq (sr es rs : Nat) (recs : List Rec) :
    dirBytes sr es rs recs = 0 :: 1 :: 0 :: 0 :: (recs.length / 256 % 256) :: (recs.length % 256) ::
      (be2 sr ++ (be2 es ++ (be2 rs ++ recs.flatMap recBytes))) := by
  simp [dirBytes, be4, be2]

theorem dirBytes_length (sr es rs : Nat) (recs : List Rec) :
    (dirBytes sr es rs recs).length = 12 + 16 * recs.length := by
  simp only [dirBytes, List.length_append, be4_length, be2_length, flatMap_recBytes_length]

/-- The directory written by `build` is read back by `FontRef::new` + `table_records()`. -/
theorem open_dir (sr es rs : Nat) (recs : List Rec) (body : Bytes) (hn : recs.length < 65536)
    (hwf : ∀ r ∈ recs, RecWF r) :
    openFont (dirBytes sr es rs recs ++ body)
        = .ok { data := dirBytes sr es rs recs ++ body, numTables := recs.length } ∧
      records { data := dirBytes sr es rs recs ++ body, numTables := recs.length } = recs := by
  have hlen := dirBytes_length sr es rs recs
  constructor
  · unfold openFont
    have h6 : ¬ (dirBytes sr es rs recs ++ body).length < 6 := by
      simp only [List.length_append, hlen]; omega
    rw [if_neg h6]
    have hn' : rd16 ((dirBytes sr es rs recs ++ body).drop 4) = recs.length := by
      rw [dirBytes_eq]; simp [rd16]; omega
    have hv : rd32 (dirBytes sr es rs recs ++ body) = 65536 := by
      rw [dirBytes_eq]; simp [rd32, be32]
    simp only [hn', hv]
    rw [if_neg (by simp only [List.length_append, hlen]; omega)]
    simp
  · unfold records
    simp only []
    have : (dirBytes sr es rs recs ++ body).drop 12 = recs.flatMap recBytes ++ body := by
      rw [dirBytes_eq]; simp [be2]
    rw [this]
    exact parseRecs_flatMap recs body hwf

/-! ## binary search -/

theorem bsLoop_lt (tags : List Nat) (tag : Nat) : ∀ fuel size base, 1 ≤ size →
    base + size ≤ tags.length → bsLoop tags tag fuel size base < tags.length := by
  intro fuel
  induction fuel with
  | zero => intro size base h1 h2; simp only [bsLoop]; omega
  | succ fuel ih =>
    intro size base h1 h2
    simp only [bsLoop]
    split
    · apply ih
      · omega
      · split <;> omega
    · omega

theorem bsLoop_spec (tags : List Nat) (hs : tags.Pairwise (· < ·)) (i : Nat) (hi : i < tags.length) :
    ∀ fuel size base, size ≤ fuel → 1 ≤ size → base ≤ i → i < base + size →
      base + size ≤ tags.length → bsLoop tags tags[i] fuel size base = i := by
  intro fuel
  induction fuel with
  | zero => intro size base h0 h1; omega
  | succ fuel ih =>
    intro size base h0 h1 h2 h3 h4
    simp only [bsLoop]
    split
    · rename_i hsz
      have hmid : base + size / 2 < tags.length := by omega
      have hget : tags.getD (base + size / 2) 0 = tags[base + size / 2] := by
        simp [List.getD, List.getElem?_eq_getElem hmid]
      rw [hget]
      rw [List.pairwise_iff_getElem] at hs
      by_cases hc : i < base + size / 2
      · have := hs i (base + size / 2) hi hmid hc
        rw [if_pos this]
        apply ih <;> omega
      · have hge : tags[base + size / 2] ≤ tags[i] := by
          by_cases he : base + size / 2 = i
          · simp [he]
          · exact Nat.le_of_lt (hs (base + size / 2) i hmid hi (by omega))
        rw [if_neg (by omega)]
        apply ih <;> omega
    · omega

theorem binarySearch_found (tags : List Nat) (hs : tags.Pairwise (· < ·)) (i : Nat)
    (hi : i < tags.length) : binarySearch tags tags[i] = some i := by
  unfold binarySearch
  rw [if_neg (by omega)]
  have := bsLoop_spec tags hs i hi tags.length tags.length 0 (Nat.le_refl _) (by omega) (by omega)
    (by omega) (by omega)
  simp only [this]
  rw [if_pos (by simp [List.getD, List.getElem?_eq_getElem hi])]

theorem binarySearch_some (tags : List Nat) (t idx : Nat) (h : binarySearch tags t = some idx) :
    ∃ hi : idx < tags.length, tags[idx] = t := by
  unfold binarySearch at h
  split at h
  · simp at h
  · rename_i hne
    simp only [] at h
    split at h
    · rename_i heq
      have hlt := bsLoop_lt tags t tags.length tags.length 0 (by omega) (by omega)
      simp only [Option.some.injEq] at h
      subst h
      refine ⟨hlt, ?_⟩
      simpa [List.getD, List.getElem?_eq_getElem hlt] using heq
    · simp at h

theorem binarySearch_absent (tags : List Nat) (t : Nat) (h : t ∉ tags) : binarySearch tags t = none := by
  cases hb : binarySearch tags t with
  | none => rfl
  | some idx =>
    obtain ⟨hi, he⟩ := binarySearch_some tags t idx hb
    exact absurd (he ▸ List.getElem_mem hi) h

/-! ## `SearchRange` -/

/-- `⌊log₂ n⌋ ≤ 15` for a `u16` count -/
theorem log2_le_15 (n : Nat) (h : n ≤ 65535) : Nat.log2 n ≤ 15 := by
  by_cases h0 : n = 0
  · subst h0; decide
  · have : Nat.log2 n < 16 := (Nat.log2_lt h0).2 (by omega)
    omega

/-- below 4096 items of 16 bytes nothing saturates: the three fields are the OpenType formula -/
theorem searchRange_ok (n : Nat) (h : n < 4096) :
    searchRange n 16 = (2 ^ Nat.log2 n * 16, Nat.log2 n, n * 16 - 2 ^ Nat.log2 n * 16) := by
  unfold searchRange
  have hl : Nat.log2 n < 12 := by
    by_cases h0 : n = 0
    · subst h0; decide
    · exact (Nat.log2_lt h0).2 (by omega)
  have hp : 2 ^ Nat.log2 n ≤ 2048 := by
    have : 2 ^ Nat.log2 n ≤ 2 ^ 11 := Nat.pow_le_pow_right (by omega) (by omega)
    omega
  simp only []
  rw [if_pos (by omega), if_pos (by omega), if_pos (by omega)]

/-- from 4096 up to the `u16` table count: `searchRange` saturates, `entrySelector` is still
`⌊log₂ n⌋`, `rangeShift` is the formula value computed from the unclamped search range, saturated -/
theorem searchRange_sat (n : Nat) (h1 : 4096 ≤ n) (h2 : n ≤ 65535) :
    searchRange n 16 = (65535, Nat.log2 n, min (n * 16 - 2 ^ Nat.log2 n * 16) 65535) := by
  unfold searchRange
  have hl := log2_le_15 n h2
  have hp : 4096 ≤ 2 ^ Nat.log2 n := by
    have h12 : 12 ≤ Nat.log2 n := (Nat.le_log2 (by omega)).2 (by omega)
    have : 2 ^ 12 ≤ 2 ^ Nat.log2 n := Nat.pow_le_pow_right (by omega) h12
    omega
  simp only []
  rw [if_neg (by omega), if_pos (by omega)]
  congr 2
  split <;> omega

/-- every field is a `u16`, whatever the count -/
theorem searchRange_u16 (n sz : Nat) :
    (searchRange n sz).1 < 65536 ∧ (searchRange n sz).2.1 < 65536 ∧ (searchRange n sz).2.2 < 65536 := by
  unfold searchRange
  simp only []
  refine ⟨?_, ?_, ?_⟩ <;> split <;> omega

/-! ## sums -/

theorem wrappingSum_eq (xs : List Nat) : wrappingSum xs = xs.sum % 4294967296 := by
  unfold wrappingSum
  suffices h : ∀ a, a < 4294967296 →
      xs.foldl (fun a c => (a + c) % 4294967296) a = (a + xs.sum) % 4294967296 by
    simpa using h 0 (by omega)
  induction xs with
  | nil => intro a ha; simp only [List.foldl_nil, List.sum_nil]; omega
  | cons x rest ih =>
    intro a ha
    simp only [List.foldl_cons, List.sum_cons]
    rw [ih _ (Nat.mod_lt _ (by omega))]
    omega

/-! ## `build`, assembled -/

/-- the tables in `ordered_tags` order with the head adjustment zeroed (state after loop 1) -/
def ents (m : Tables) : Tables := (orderedEntries m).map (fun e => (e.1, zeroAdj e.1 e.2))

def recsOf (m : Tables) : List Rec := layoutRecs (ents m) (12 + m.length * 16)

def sortedOf (m : Tables) : List Rec := (recsOf m).mergeSort (fun a b => decide (a.tag ≤ b.tag))

def dirOf (m : Tables) : Bytes :=
  dirBytes (searchRange m.length 16).1 (searchRange m.length 16).2.1 (searchRange m.length 16).2.2
    (sortedOf m)

def adjOf (m : Tables) : Nat :=
  (0xB1B0AFBA + 4294967296
    - wrappingSum ((recsOf m).map (·.checksum) ++ [checksum (dirOf m)])) % 4294967296

/-- the container's size limits: the table count fits the `u16` `numTables`, positions fit `u32` -/
def Fits (m : Tables) : Prop := m.length ≤ 65535 ∧ fileSize m < 4294967296

theorem orderedEntries_perm (m : Tables) : (orderedEntries m).Perm m := by
  unfold orderedEntries
  exact List.mergeSort_perm _ _

theorem ents_bodyLen (m : Tables) : bodyLen (ents m) = bodyLen m := by
  unfold ents
  rw [bodyLen_map_zeroAdj, bodyLen_perm (orderedEntries_perm m)]

theorem ents_length (m : Tables) : (ents m).length = m.length := by
  unfold ents
  rw [List.length_map, (orderedEntries_perm m).length_eq]

theorem build_eq (m : Tables) (h : Fits m) :
    build m = some (dirOf m ++ bodyBytes (adjOf m) (ents m)) := by
  obtain ⟨hn, hsz⟩ := h
  unfold fileSize at hsz
  have hhdr : (4 + 2 * 4 + m.length * 16) % 4294967296 = 12 + m.length * 16 := by omega
  have hlay := layout_eq (ents m) (12 + m.length * 16) (by rw [ents_bodyLen]; omega)
  simp only [ents] at hlay
  unfold build
  simp only [hhdr, hlay]
  rw [if_neg (by omega)]
  rfl

/-! ## the records of a built font -/

/-- builder invariant plus "tags are `u32`s" -/
def WFMap (m : Tables) : Prop := Sorted m ∧ ∀ e ∈ m, e.1 < 4294967296

theorem sorted_nodup_tags (m : Tables) (h : Sorted m) : (m.map Prod.fst).Nodup := by
  unfold Sorted at h
  induction m with
  | nil => simp
  | cons e rest ih =>
    rw [List.pairwise_cons] at h
    simp only [List.map_cons, List.nodup_cons, List.mem_map, not_exists, not_and]
    refine ⟨?_, ih h.2⟩
    intro x hx he
    have := h.1 x hx
    omega

theorem sorted_unique (m : Tables) (h : Sorted m) (t : Nat) (d1 d2 : Bytes)
    (h1 : (t, d1) ∈ m) (h2 : (t, d2) ∈ m) : d1 = d2 := by
  have := eq_of_nodup_map_fst (sorted_nodup_tags m h) h1 h2 rfl
  exact (Prod.mk.inj this).2

theorem mem_ents (m : Tables) (t : Nat) (d' : Bytes) :
    (t, d') ∈ ents m ↔ ∃ d, (t, d) ∈ m ∧ d' = zeroAdj t d := by
  unfold ents
  simp only [List.mem_map]
  constructor
  · rintro ⟨e, he, heq⟩
    have := Prod.mk.inj heq
    refine ⟨e.2, ?_, ?_⟩
    · rw [← this.1]; exact (orderedEntries_perm m).mem_iff.1 he
    · rw [← this.1]; exact this.2.symm
  · rintro ⟨d, hd, rfl⟩
    exact ⟨(t, d), (orderedEntries_perm m).mem_iff.2 hd, rfl⟩

theorem sortedOf_perm (m : Tables) : (sortedOf m).Perm (recsOf m) := by
  unfold sortedOf
  exact List.mergeSort_perm _ _

theorem sortedOf_length (m : Tables) : (sortedOf m).length = m.length := by
  rw [(sortedOf_perm m).length_eq]
  unfold recsOf
  rw [layoutRecs_length, ents_length]

theorem dirOf_length (m : Tables) : (dirOf m).length = 12 + m.length * 16 := by
  unfold dirOf
  rw [dirBytes_length, sortedOf_length]; omega

/-- the directory lists exactly the map's tags, in the map's (ascending) order -/
theorem sortedOf_tags (m : Tables) (h : Sorted m) : (sortedOf m).map (·.tag) = m.map Prod.fst := by
  have hp : ((sortedOf m).map (·.tag)).Perm (m.map Prod.fst) := by
    have h1 := (sortedOf_perm m).map (·.tag)
    have h2 : (recsOf m).map (·.tag) = (orderedEntries m).map Prod.fst := by
      unfold recsOf ents
      rw [layoutRecs_tags, List.map_map]; rfl
    rw [h2] at h1
    exact h1.trans ((orderedEntries_perm m).map Prod.fst)
  have hs1 : ((sortedOf m).map (·.tag)).Pairwise (· ≤ ·) := by
    unfold sortedOf
    rw [List.pairwise_map]
    have := List.pairwise_mergeSort (le := fun (a b : Rec) => decide (a.tag ≤ b.tag))
      (by intro a b c; simp only [decide_eq_true_eq]; omega)
      (by intro a b; simp only [Bool.or_eq_true, decide_eq_true_eq]; omega) (recsOf m)
    simpa only [decide_eq_true_eq] using this
  have hs2 : (m.map Prod.fst).Pairwise (· ≤ ·) := by
    unfold Sorted at h
    rw [List.pairwise_map]
    exact h.imp (fun h => Nat.le_of_lt h)
  exact hp.eq_of_pairwise (fun a b _ _ h1 h2 => Nat.le_antisymm h1 h2) hs1 hs2

/-- What a record of the built font says, and what lies at its offset. `f` is the built file. -/
theorem rec_props (m : Tables) (hf : Fits m) (r : Rec) (hr : r ∈ sortedOf m) :
    ∃ d, (r.tag, d) ∈ m ∧ r.length = d.length ∧ r.checksum = checksum (zeroAdj r.tag d) ∧
      12 + m.length * 16 ≤ r.offset ∧ r.offset % 4 = 0 ∧
      r.offset + round4 d.length ≤ (dirOf m ++ bodyBytes (adjOf m) (ents m)).length ∧
      ((dirOf m ++ bodyBytes (adjOf m) (ents m)).drop r.offset).take (round4 d.length)
        = withAdj (adjOf m) r.tag (zeroAdj r.tag d) ++ zeros (round4 d.length - d.length) := by
  have hr' : r ∈ recsOf m := (sortedOf_perm m).mem_iff.1 hr
  unfold recsOf at hr'
  obtain ⟨d', hmem, hlen, hcs, hpos, hmod, hend, hsl⟩ :=
    layout_slice (adjOf m) (ents m) (12 + m.length * 16) (dirOf m) [] (dirOf_length m) r hr'
  obtain ⟨d, hd, rfl⟩ := (mem_ents m r.tag d').1 hmem
  rw [zeroAdj_length] at hlen hend hsl
  refine ⟨d, hd, hlen, hcs, hpos, by omega, ?_, ?_⟩
  · rw [List.length_append, dirOf_length, bodyBytes_length]; exact hend
  · simpa only [List.append_nil] using hsl

theorem rec_wf (m : Tables) (hw : WFMap m) (hf : Fits m) (r : Rec) (hr : r ∈ sortedOf m) : RecWF r := by
  obtain ⟨d, hd, hlen, hcs, hpos, hmod, hend, hsl⟩ := rec_props m hf r hr
  have hsz := hf.2
  unfold fileSize at hsz
  rw [List.length_append, dirOf_length, bodyBytes_length, ents_bodyLen] at hend
  have := round4_ge d.length
  refine ⟨hw.2 _ hd, ?_, by omega, by omega⟩
  rw [hcs]; exact checksum_lt _

theorem rec_exists (m : Tables) (hw : WFMap m) (t : Nat) (d : Bytes) (h : (t, d) ∈ m) :
    ∃ i, ∃ hi : i < (sortedOf m).length, ∃ hi' : i < (m.map Prod.fst).length,
      (sortedOf m)[i].tag = t ∧ (m.map Prod.fst)[i] = t := by
  obtain ⟨i, hi, he⟩ := List.getElem_of_mem h
  have htags := sortedOf_tags m hw.1
  have hi1 : i < (sortedOf m).length := by rw [sortedOf_length]; exact hi
  have hi2 : i < (m.map Prod.fst).length := by rw [List.length_map]; exact hi
  refine ⟨i, hi1, hi2, ?_, ?_⟩
  · have : ((sortedOf m).map (·.tag))[i]'(by rw [List.length_map]; exact hi1) = (m.map Prod.fst)[i] := by
      simp only [htags]
    rw [List.getElem_map] at this
    rw [this, List.getElem_map, he]
  · rw [List.getElem_map, he]

theorem take8_splice (d x y : Bytes) (h : 8 ≤ d.length) : (d.take 8 ++ x ++ y).take 8 = d.take 8 := by
  have h8 : (d.take 8).length = 8 := by rw [List.length_take]; omega
  rw [List.append_assoc, List.take_left' h8]

theorem drop12_splice (d x y : Bytes) (h : 8 ≤ d.length) (hx : x.length = 4) :
    (d.take 8 ++ x ++ y).drop 12 = y := by
  have h12 : (d.take 8 ++ x).length = 12 := by rw [List.length_append, List.length_take, hx]; omega
  rw [List.drop_left' h12]

theorem withAdj_zeroAdj (adj t : Nat) (d : Bytes) : withAdj adj t (zeroAdj t d) = withAdj adj t d := by
  unfold withAdj
  rw [zeroAdj_length]
  split
  · rename_i h
    unfold zeroAdj
    rw [if_pos h]
    rw [take8_splice _ _ _ (by omega), drop12_splice _ _ _ (by omega) rfl]
  · unfold zeroAdj
    rename_i h
    rw [if_neg h]

theorem zeroAdj_withAdj (adj t : Nat) (d : Bytes) : zeroAdj t (withAdj adj t d) = zeroAdj t d := by
  unfold zeroAdj
  rw [withAdj_length]
  split
  · rename_i h
    unfold withAdj
    rw [if_pos h]
    rw [take8_splice _ _ _ (by omega), drop12_splice _ _ _ (by omega) rfl]
  · unfold withAdj
    rename_i h
    rw [if_neg h]

theorem zeroAdj_idem (t : Nat) (d : Bytes) : zeroAdj t (zeroAdj t d) = zeroAdj t d := by
  have := zeroAdj_withAdj 0 t d
  have e : withAdj 0 t d = zeroAdj t d := by
    unfold withAdj zeroAdj; simp [be4]
  rw [e] at this; exact this

/-! ## lookup vs membership -/

theorem lookup_mem (m : Tables) (t : Nat) (d : Bytes) (h : lookup m t = some d) : (t, d) ∈ m := by
  induction m with
  | nil => simp [lookup] at h
  | cons e rest ih =>
    obtain ⟨t', d'⟩ := e
    simp only [lookup] at h
    split at h
    · rename_i he
      simp only [Option.some.injEq] at h
      subst he; subst h; simp
    · simp [ih h]

theorem lookup_none (m : Tables) (t : Nat) (h : t ∉ m.map Prod.fst) : lookup m t = none := by
  induction m with
  | nil => rfl
  | cons e rest ih =>
    obtain ⟨t', d'⟩ := e
    simp only [List.map_cons, List.mem_cons, not_or] at h
    simp only [lookup]
    rw [if_neg (fun he => h.1 he.symm)]
    exact ih h.2

theorem mem_lookup (m : Tables) (hs : Sorted m) (t : Nat) (d : Bytes) (h : (t, d) ∈ m) :
    lookup m t = some d := by
  cases hl : lookup m t with
  | none =>
    have : t ∈ m.map Prod.fst := List.mem_map.2 ⟨(t, d), h, rfl⟩
    induction m with
    | nil => simp at h
    | cons e rest ih =>
      obtain ⟨t', d'⟩ := e
      simp only [lookup] at hl
      split at hl
      · simp at hl
      · rename_i hne
        simp only [List.mem_cons, Prod.mk.injEq] at h
        rcases h with ⟨rfl, _⟩ | h
        · exact absurd rfl hne
        · unfold Sorted at hs
          rw [List.pairwise_cons] at hs
          exact ih hs.2 h hl (List.mem_map.2 ⟨(t, d), h, rfl⟩)
  | some d' =>
    rw [sorted_unique m hs t d d' h (lookup_mem m t d' hl)]

/-! ## checksums of the assembled file -/

theorem checksum_bodyBytes (adj : Nat) (es : Tables) :
    checksum (bodyBytes adj es)
      = (es.map (fun e => checksum (withAdj adj e.1 e.2))).sum % 4294967296 := by
  induction es with
  | nil => simp [bodyBytes, checksum, checksumAux]
  | cons e rest ih =>
    have hb : bodyBytes adj (e :: rest)
        = (withAdj adj e.1 e.2 ++ zeros (round4 e.2.length - e.2.length)) ++ bodyBytes adj rest := by
      simp only [bodyBytes, List.flatMap_cons]
    have hge := round4_ge e.2.length
    have hlen : (withAdj adj e.1 e.2 ++ zeros (round4 e.2.length - e.2.length)).length % 4 = 0 := by
      simp only [List.length_append, withAdj_length, zeros, List.length_replicate]
      have := round4_mod e.2.length
      omega
    have hpad : checksum (withAdj adj e.1 e.2 ++ zeros (round4 e.2.length - e.2.length))
        = checksum (withAdj adj e.1 e.2) := by
      have := checksum_pad (withAdj adj e.1 e.2)
      rw [withAdj_length] at this
      exact this
    rw [hb, checksum_append _ _ hlen, hpad, ih]
    simp only [List.map_cons, List.sum_cons]
    omega

theorem checksum_withAdj_head (adj : Nat) (d : Bytes) (h : 12 ≤ d.length) (ha : adj < 4294967296) :
    checksum (withAdj adj TAG_head (zeroAdj TAG_head d))
      = (checksum (zeroAdj TAG_head d) + adj) % 4294967296 := by
  rw [withAdj_zeroAdj]
  unfold withAdj zeroAdj
  rw [if_pos ⟨rfl, h⟩, if_pos ⟨rfl, h⟩]
  have h8 : (d.take 8).length % 4 = 0 := by rw [List.length_take]; omega
  simp only [checksum_eq, List.append_assoc]
  rw [csSpec_append _ _ h8, csSpec_append _ _ h8,
    csSpec_append (be4 adj) _ (by rw [be4_length]), csSpec_append [0, 0, 0, 0] _ (by rfl), csSpec_be4]
  have : csSpec [0, 0, 0, 0] = 0 := by simp [csSpec, be32]
  rw [this]
  omega

theorem sum_withAdj_nohead (adj : Nat) (E : Tables)
    (h : ∀ e ∈ E, ¬ (e.1 = TAG_head ∧ 12 ≤ e.2.length)) :
    E.map (fun e => checksum (withAdj adj e.1 (zeroAdj e.1 e.2)))
      = E.map (fun e => checksum (zeroAdj e.1 e.2)) := by
  apply List.map_congr_left
  intro e he
  have := h e he
  rw [withAdj_zeroAdj]
  unfold withAdj zeroAdj
  rw [if_neg this, if_neg this]

theorem sum_withAdj_head (adj : Nat) (ha : adj < 4294967296) (E : Tables)
    (hn : (E.map Prod.fst).Nodup) (d : Bytes) (hd : (TAG_head, d) ∈ E) (hl : 12 ≤ d.length) :
    (E.map (fun e => checksum (withAdj adj e.1 (zeroAdj e.1 e.2)))).sum % 4294967296
      = ((E.map (fun e => checksum (zeroAdj e.1 e.2))).sum + adj) % 4294967296 := by
  induction E with
  | nil => simp at hd
  | cons e rest ih =>
    simp only [List.map_cons, List.nodup_cons, List.mem_map, not_exists, not_and] at hn
    simp only [List.mem_cons] at hd
    simp only [List.map_cons, List.sum_cons]
    rcases hd with rfl | hd
    · have hno : ∀ x ∈ rest, ¬ (x.1 = TAG_head ∧ 12 ≤ x.2.length) := by
        intro x hx hc
        exact hn.1 x hx hc.1
      dsimp only
      rw [sum_withAdj_nohead adj rest hno, checksum_withAdj_head adj d hl ha]
      omega
    · have hne : ¬ (e.1 = TAG_head ∧ 12 ≤ e.2.length) := by
        intro hc
        exact hn.1 (TAG_head, d) hd hc.1.symm
      have he : checksum (withAdj adj e.1 (zeroAdj e.1 e.2)) = checksum (zeroAdj e.1 e.2) := by
        rw [withAdj_zeroAdj]
        unfold withAdj zeroAdj
        rw [if_neg hne, if_neg hne]
      have := ih hn.2 hd
      rw [he]
      omega

theorem whole_checksum (m : Tables) (hs : Sorted m) (d : Bytes) (hd : (TAG_head, d) ∈ m)
    (hl : 12 ≤ d.length) :
    checksum (dirOf m ++ bodyBytes (adjOf m) (ents m)) = 0xB1B0AFBA := by
  have hA : adjOf m < 4294967296 := by unfold adjOf; exact Nat.mod_lt _ (by omega)
  have hdir : (dirOf m).length % 4 = 0 := by rw [dirOf_length]; omega
  have hnodup : ((orderedEntries m).map Prod.fst).Nodup :=
    ((orderedEntries_perm m).map Prod.fst).nodup_iff.2 (sorted_nodup_tags m hs)
  have hmem : (TAG_head, d) ∈ orderedEntries m := (orderedEntries_perm m).mem_iff.2 hd
  have key := sum_withAdj_head (adjOf m) hA (orderedEntries m) hnodup d hmem hl
  have hbody : ((ents m).map (fun e => checksum (withAdj (adjOf m) e.1 e.2)))
      = (orderedEntries m).map (fun e => checksum (withAdj (adjOf m) e.1 (zeroAdj e.1 e.2))) := by
    unfold ents; rw [List.map_map]; rfl
  have hrecs : (recsOf m).map (·.checksum)
      = (orderedEntries m).map (fun e => checksum (zeroAdj e.1 e.2)) := by
    unfold recsOf ents; rw [layoutRecs_checksums, List.map_map]; rfl
  have hadj : adjOf m = (0xB1B0AFBA + 4294967296
      - (((orderedEntries m).map (fun e => checksum (zeroAdj e.1 e.2))).sum
          + checksum (dirOf m)) % 4294967296) % 4294967296 := by
    have e : adjOf m = (0xB1B0AFBA + 4294967296
        - wrappingSum ((recsOf m).map (·.checksum) ++ [checksum (dirOf m)])) % 4294967296 := rfl
    rw [e, wrappingSum_eq, hrecs, List.sum_append]
    simp only [List.sum_cons, List.sum_nil, Nat.add_zero]
  rw [checksum_append _ _ hdir, checksum_bodyBytes, hbody]
  generalize ((orderedEntries m).map
    (fun e => checksum (withAdj (adjOf m) e.1 (zeroAdj e.1 e.2)))).sum = S1 at key ⊢
  generalize ((orderedEntries m).map (fun e => checksum (zeroAdj e.1 e.2))).sum = S0 at key hadj
  generalize checksum (dirOf m) = C at hadj ⊢
  generalize adjOf m = A at key hadj hA
  omega

/-! ## the built font, read back -/

theorem built_font (m : Tables) (hw : WFMap m) (hf : Fits m) (f : Bytes) (hb : build m = some f) :
    f = dirOf m ++ bodyBytes (adjOf m) (ents m) ∧
      openFont f = .ok { data := f, numTables := m.length } ∧
      records { data := f, numTables := m.length } = sortedOf m := by
  rw [build_eq m hf] at hb
  simp only [Option.some.injEq] at hb
  subst hb
  have hn : (sortedOf m).length < 65536 := by rw [sortedOf_length]; have := hf.1; omega
  have := open_dir (searchRange m.length 16).1 (searchRange m.length 16).2.1
    (searchRange m.length 16).2.2 (sortedOf m) (bodyBytes (adjOf m) (ents m)) hn
    (fun r hr => rec_wf m hw hf r hr)
  rw [sortedOf_length] at this
  exact ⟨rfl, this.1, this.2⟩

theorem sorted_tags_pairwise (m : Tables) (hs : Sorted m) : (m.map Prod.fst).Pairwise (· < ·) := by
  unfold Sorted at hs
  rw [List.pairwise_map]
  exact hs

theorem built_tableData (m : Tables) (hw : WFMap m) (hf : Fits m) (t : Nat) (d : Bytes)
    (h : (t, d) ∈ m) :
    tableDataIn (sortedOf m) (dirOf m ++ bodyBytes (adjOf m) (ents m)) t
      = some (withAdj (adjOf m) t d) := by
  obtain ⟨i, hi1, hi2, ht1, ht2⟩ := rec_exists m hw t d h
  have hbs : binarySearch ((sortedOf m).map (·.tag)) t = some i := by
    rw [sortedOf_tags m hw.1, ← ht2]
    exact binarySearch_found _ (sorted_tags_pairwise m hw.1) i hi2
  have hr : (sortedOf m)[i] ∈ sortedOf m := List.getElem_mem hi1
  obtain ⟨d', hd', hlen, hcs, hpos, hmod, hend, hsl⟩ := rec_props m hf _ hr
  rw [ht1] at hd' hsl
  have hdd : d' = d := sorted_unique m hw.1 t d' d hd' h
  subst hdd
  have hge := round4_ge d'.length
  unfold tableDataIn
  simp only [hbs, List.getElem?_eq_getElem hi1]
  rw [if_neg (by omega), if_pos (by omega), hlen]
  have hx : (withAdj (adjOf m) t (zeroAdj t d')).length = d'.length := by
    rw [withAdj_length, zeroAdj_length]
  have : List.take d'.length (List.drop (sortedOf m)[i].offset
      (dirOf m ++ bodyBytes (adjOf m) (ents m)))
      = List.take d'.length (List.take (round4 d'.length) (List.drop (sortedOf m)[i].offset
          (dirOf m ++ bodyBytes (adjOf m) (ents m)))) := by
    rw [List.take_take, Nat.min_eq_left hge]
  rw [this, hsl, List.take_left' hx, withAdj_zeroAdj]

theorem built_tableData_absent (m : Tables) (hw : WFMap m) (data : Bytes) (t : Nat)
    (h : t ∉ m.map Prod.fst) : tableDataIn (sortedOf m) data t = none := by
  unfold tableDataIn
  rw [sortedOf_tags m hw.1, binarySearch_absent _ _ h]

end FontVerif.Sfnt
