/-
Helper lemmas for C11: `compute_delta` on a store produced by the builder equals the weighted sum
over the builder's canonical regions of the *added* deltas.
-/
import FontVerif.Lemmas.IvsLemmas
import FontVerif.Lemmas.DeltaLemmas
namespace FontVerif.Ivs
open FontVerif FontVerif.Tent

def sumOver (h : Nat → Int) : List Nat → Int
  | [] => 0
  | r :: l => h r + sumOver h l

theorem sumOver_append (h : Nat → Int) (a b : List Nat) :
    sumOver h (a ++ b) = sumOver h a + sumOver h b := by
  induction a with
  | nil => simp [sumOver]
  | cons x a ih => simp only [List.cons_append, sumOver, ih]; omega

/-- `specSum` over mapped lists. -/
theorem specSum_map (regions : List (List (Int × Int × Int))) (coords : List Int) (g : Nat → Int)
    (f : Nat → Nat) : ∀ (l : List Nat),
    specSum regions coords (l.map g) (l.map f) =
      sumOver (fun r => g r * computeScalar (regions.getD (f r) []) coords) l := by
  intro l
  induction l with
  | nil => rfl
  | cons r l ih => simp only [List.map_cons, specSum, sumOver, ih]

theorem sumOver_congr (h h' : Nat → Int) : ∀ (l : List Nat), (∀ r ∈ l, h r = h' r) →
    sumOver h l = sumOver h' l := by
  intro l
  induction l with
  | nil => intro _; rfl
  | cons r l ih =>
    intro hh
    simp only [sumOver]
    rw [hh r (by simp), ih (fun x hx => hh x (by simp [hx]))]

/-- columns with offset (generalises `idxWith` for induction). -/
def idxWithK (b : Nat) (s : List Nat) (k : Nat) : List Nat :=
  (s.zipIdx k).filterMap (fun p => if p.1 = b then some p.2 else none)

theorem idxWith_eq (b : Nat) (s : List Nat) : idxWith b s = idxWithK b s 0 := rfl

/-- a sum over all positions splits into the sums over the three active column classes, when the
summand vanishes on inactive columns. -/
theorem sum_split (h : Nat → Int) : ∀ (s : List Nat) (k : Nat), ShapeOk s →
    (∀ i, (hi : i < s.length) → s[i] = 0 → h (k + i) = 0) →
    sumOver h (List.range' k s.length) =
      sumOver h (idxWithK 4 s k) + sumOver h (idxWithK 2 s k) + sumOver h (idxWithK 1 s k) := by
  intro s
  induction s with
  | nil => intro k _ _; simp [idxWithK, sumOver]
  | cons a s ih =>
    intro k hs hz
    have hs' : ShapeOk s := fun b hb => hs b (by simp [hb])
    have ih' := ih (k + 1) hs' (by
      intro i hi h0
      have := hz (i + 1) (by simpa using hi) (by simpa using h0)
      rw [← this]; congr 1; omega)
    simp only [List.length_cons, List.range'_succ, sumOver, ih']
    unfold idxWithK
    simp only [List.zipIdx_cons, List.filterMap_cons]
    rcases hs a (by simp) with h0 | h1 | h2 | h4
    · have hk := hz 0 (by simp) (by simpa using h0)
      simp only [Nat.add_zero] at hk
      subst h0; simp [hk]
    · subst h1; simp [sumOver]; omega
    · subst h2; simp [sumOver]; omega
    · subst h4; simp [sumOver]; omega

theorem sumOver_indices (h : Nat → Int) (s : List Nat) (hs : ShapeOk s)
    (hz : ∀ i, (hi : i < s.length) → s[i] = 0 → h i = 0) :
    sumOver h (indices s) = sumOver h (List.range s.length) := by
  unfold indices
  rw [sumOver_append, sumOver_append, idxWith_eq, idxWith_eq, idxWith_eq, List.range_eq_range']
  rw [sum_split h s 0 hs (by intro i hi h0; simpa using hz i hi h0)]

theorem row_eq_map_range (row : List Int) :
    row = (List.range row.length).map (fun r => row.getD r 0) := by
  apply List.ext_getElem?
  intro i
  rw [List.getElem?_map]
  by_cases hi : i < row.length
  · rw [List.getElem?_range hi, List.getElem?_eq_getElem hi]
    simp [List.getD_eq_getElem?_getD, List.getElem?_eq_getElem hi]
  · rw [List.getElem?_eq_none (by omega), List.getElem?_eq_none (by simp; omega)]; rfl

/-- the weighted sum over *all* canonical regions of a dense row. -/
def denseSum (canon : List (List (Int × Int × Int))) (coords : List Int) (row : List Int) : Int :=
  specSum canon coords row (List.range row.length)

theorem denseSum_eq (canon : List (List (Int × Int × Int))) (coords : List Int) (row : List Int) :
    denseSum canon coords row =
      sumOver (fun r => row.getD r 0 * computeScalar (canon.getD r []) coords) (List.range row.length) := by
  unfold denseSum
  conv => lhs; arg 3; rw [row_eq_map_range row]
  have : List.range row.length = (List.range row.length).map id := by simp
  conv => lhs; arg 4; rw [this]
  rw [specSum_map]
  rfl

theorem loopOk_of_lt (regions : List (List (Int × Int × Int))) : ∀ (ds : List Int) (ris : List Nat),
    ds.length ≤ ris.length → (∀ ri ∈ ris, ri < regions.length) → LoopOk regions ds ris := by
  intro ds
  induction ds with
  | nil => intro ris _ _; simp [LoopOk]
  | cons d ds ih =>
    intro ris hl hr
    cases ris with
    | nil => simp at hl
    | cons ri ris =>
      simp only [LoopOk]
      exact ⟨hr ri (by simp), ih ris (by simpa using hl) (fun x hx => hr x (by simp [hx]))⟩

/-- **compute_delta on a built store**: member `mi` of chunk `ei`, evaluated through the reader
with the pruned region list `used.map canon`, gives the rounded weighted sum of the member's dense
row over all canonical regions. -/
theorem pos_computeDelta (n : Nat) (canon : List (List (Int × Int × Int))) (hcl : canon.length = n)
    (encs : List Enc) (hwf : EncsWf n encs) (hn : n < 32768)
    (ei mi : Nat) (e' : Enc) (m : Member) (he : (chunked encs)[ei]? = some e')
    (hm : e'.2[mi]? = some m) (coords : List Int) (hne : coords ≠ []) :
    computeDelta ((encodeAll n encs).usedRegions.map fun r => canon.getD r [])
      (encodeAll n encs).subtables ei mi coords =
      .ok (roundAccum (denseSum canon coords (dense m.1 n))) := by
  have hmem : e' ∈ chunked encs := List.mem_of_getElem? he
  have hw := chunked_wf hwf e' hmem
  obtain ⟨s, members⟩ := e'
  simp only at hw hm
  have hmi : mi < members.length := by
    rcases Nat.lt_or_ge mi members.length with h | h
    · exact h
    · rw [List.getElem?_eq_none h] at hm; cases hm
  have hmget : members[mi] = m := by
    rw [List.getElem?_eq_getElem hmi] at hm; exact Option.some.inj hm
  let rows := members.map fun m => dense m.1 n
  have hrows : rows.length = members.length := by simp [rows]
  have hne' : rows.isEmpty = false := by
    cases hr : rows with
    | nil => rw [hr] at hrows; simp at hrows; omega
    | cons _ _ => rfl
  let st0 : Tent.SubTable :=
    ⟨rows.length, wordDeltaCount s, indices s, rows.flatMap (encodeRow s)⟩
  have hsub0 : (rawSubs n encs)[ei]? = some (some st0) := by
    unfold rawSubs
    rw [List.getElem?_map, he]
    simp only [Option.map_some, encodeSub]
    rw [hne']; rfl
  let used := usedRegions n (rawSubs n encs)
  have hsub : (encodeAll n encs).subtables[ei]? =
      some (some { st0 with regionIndexes := (indices s).map fun r => used.idxOf r }) := by
    rw [encodeAll_subtables]
    unfold remapRegions
    rw [List.getElem?_map, hsub0]; rfl
  have hused : ∀ r ∈ indices s, r ∈ used := by
    intro r hr
    refine mem_usedRegions.mpr ⟨?_, st0, List.mem_of_getElem? hsub0, hr⟩
    rcases mem_indices.mp hr with h | h | h
    all_goals
      rcases Nat.lt_or_ge r s.length with hl | hl
      · rw [← hw.1]; exact hl
      · rw [List.getElem?_eq_none hl] at h; cases h
  have hnl : nLong s < 32768 := by
    have := nLong_le s
    rw [indices_length] at this
    have := counts_le s
    rw [hw.1] at this
    omega
  have hcovs : ∀ row ∈ rows, Covers s row ∧ RowI32 row := by
    intro row hrow
    obtain ⟨m', hm', rfl⟩ := List.mem_map.mp hrow
    exact hw.2.2 m' hm'
  have hdec : decodedRow { st0 with regionIndexes := (indices s).map fun r => used.idxOf r } mi =
      rawRow s rows[mi] := by
    unfold decodedRow
    simp only [List.length_map, st0]
    exact deltaSet_encoded s rows mi (by omega) hcovs hnl
  have hrow : rows[mi] = dense m.1 n := by simp [rows, hmget]
  have hcov : Covers s (dense m.1 n) := (hw.2.2 m (hmget ▸ List.getElem_mem hmi)).1
  -- unfold the reader
  unfold computeDelta
  have hce : coords.isEmpty = false := by cases coords <;> simp_all
  rw [encodeAll_used]
  simp only [hce, Bool.false_eq_true, if_false, hsub]
  -- data length check
  have hL : ∀ r ∈ rows, (encodeRow s r).length = deltaRowLen (wordDeltaCount s) (indices s).length :=
    fun r _ => (deltaRowLen_eq hnl r).symm
  have hlen := flatMap_uniform_length (encodeRow s) _ rows hL
  have hnot : ¬ (rows.flatMap (encodeRow s)).length <
      deltaRowLen (wordDeltaCount s) ((indices s).map fun r => used.idxOf r).length * rows.length := by
    rw [List.length_map, hlen]; omega
  simp only [st0, hnot, if_false]
  have hdec' := hdec
  unfold decodedRow at hdec'
  simp only [st0] at hdec'
  rw [hdec', hrow]
  -- the loop
  let regions' := used.map fun r => canon.getD r []
  have hok : LoopOk regions' (rawRow s (dense m.1 n)) ((indices s).map fun r => used.idxOf r) := by
    apply loopOk_of_lt
    · simp [rawRow]
    · intro ri hri
      obtain ⟨r, hr, rfl⟩ := List.mem_map.mp hri
      simp only [regions', List.length_map]
      exact List.idxOf_lt_length_iff.mpr (hused r hr)
  have hloop := (deltaLoop_spec regions' coords (rawRow s (dense m.1 n))
    ((indices s).map fun r => used.idxOf r) 0).1 hok
  simp only [regions', used] at hloop
  rw [hloop]
  simp only [Int.zero_add]
  congr 2
  -- the sums agree
  unfold rawRow
  rw [specSum_map, denseSum_eq, dense_length]
  have hcong : sumOver (fun r => (dense m.1 n).getD r 0 *
      computeScalar ((used.map fun r => canon.getD r []).getD (used.idxOf r) []) coords) (indices s) =
      sumOver (fun r => (dense m.1 n).getD r 0 * computeScalar (canon.getD r []) coords) (indices s) := by
    apply sumOver_congr
    intro r hr
    have hlt := List.idxOf_lt_length_iff.mpr (hused r hr)
    congr 2
    rw [List.getD_eq_getElem?_getD, List.getElem?_map, List.getElem?_eq_getElem hlt,
      List.getElem_idxOf hlt]; rfl
  simp only [used] at hcong
  have erange : List.range n = List.range s.length := by rw [hw.1]
  rw [hcong, erange]
  apply sumOver_indices _ s hw.2.1
  intro i hi h0
  have := hcov.2 i
  rw [List.getD_eq_getElem?_getD (l := s), List.getElem?_eq_getElem hi, h0] at this
  simp only [Option.getD_some] at this
  rw [forVal_le_zero this]; simp

theorem encodeAll_delta (n : Nat) (canon : List (List (Int × Int × Int))) (hcl : canon.length = n)
    (encs : List Enc) (hwf : EncsWf n encs) (hn : n < 32768)
    (hsub : (encodeAll n encs).subtables.length ≤ 65536) (coords : List Int) (hne : coords ≠ []) :
    ∀ id o i, (id, o, i) ∈ (encodeAll n encs).remap → ∃ e ∈ encs, ∃ m ∈ e.2, m.2 = id ∧
      computeDelta ((encodeAll n encs).usedRegions.map fun r => canon.getD r [])
        (encodeAll n encs).subtables o i coords =
        .ok (roundAccum (denseSum canon coords (dense m.1 n))) := by
  rw [subtables_length] at hsub
  intro id o i h
  obtain ⟨ei, mi, e', m, hei, hmi, hid, ho, hi⟩ := pos_of_remap n encs id o i h
  have h1 : ei < (chunked encs).length := by
    rcases Nat.lt_or_ge ei (chunked encs).length with h | h
    · exact h
    · rw [List.getElem?_eq_none h] at hei; cases hei
  have h2 : mi < e'.2.length := by
    rcases Nat.lt_or_ge mi e'.2.length with h | h
    · exact h
    · rw [List.getElem?_eq_none h] at hmi; cases hmi
  have h3 := chunked_len (List.mem_of_getElem? hei)
  rw [Nat.mod_eq_of_lt (by omega : ei < 65536)] at ho
  rw [Nat.mod_eq_of_lt (by omega : mi < 65536)] at hi
  subst ho hi
  obtain ⟨e, he, _, hc⟩ := mem_chunked (List.mem_of_getElem? hei)
  exact ⟨e, he, m, chunks_subset _ _ _ hc m (List.mem_of_getElem? hmi), hid,
    pos_computeDelta n canon hcl encs hwf hn _ _ e' m hei hmi coords hne⟩

end FontVerif.Ivs
