/-
Helper lemmas for C16: `MarkToLigBuilder` (component records, coverage order) and the error result
of `MarkList::insert`.
-/
import FontVerif.Model.LayoutMarkLig
import FontVerif.Lemmas.LayoutMarkBuilder
set_option linter.unusedVariables false
set_option linter.unusedSimpArgs false
namespace FontVerif.Layout

theorem mapOpt_some {α β : Type} (f : α → Option β) : ∀ (l : List α) (rs : List β),
    mapOpt f l = some rs →
    rs.length = l.length ∧ ∀ (i : Nat) a, l[i]? = some a → ∃ b, f a = some b ∧ rs[i]? = some b := by
  intro l
  induction l with
  | nil => intro rs h; simp only [mapOpt, Option.some.injEq] at h; subst h; exact ⟨rfl, fun i a h => by simp at h⟩
  | cons x xs ih =>
    intro rs h
    simp only [mapOpt] at h
    split at h
    · rename_i b bs hb hbs
      cases h
      obtain ⟨hl, hg⟩ := ih bs hbs
      refine ⟨by simp [hl], fun i a hi => ?_⟩
      cases i with
      | zero => simp at hi; subst hi; exact ⟨b, hb, rfl⟩
      | succ i => simpa using hg i a (by simpa using hi)
    · cases h

theorem setMany_some_all {α β : Type} (step : α → Option (Nat × β)) : ∀ (as : List α) (out res : List β),
    setMany step as out = some res → ∀ a ∈ as, ∃ i v, step a = some (i, v) ∧ i < out.length := by
  intro as
  induction as with
  | nil => intro out res _ a ha; cases ha
  | cons x xs ih =>
    intro out res h a ha
    simp only [setMany] at h
    cases hs : step x with
    | none => rw [hs] at h; cases h
    | some p =>
      obtain ⟨i, v⟩ := p
      rw [hs] at h
      simp only [setAt?] at h
      by_cases hi : i < out.length
      · simp only [hi, ↓reduceIte] at h
        rcases List.mem_cons.mp ha with rfl | ha'
        · exact ⟨i, v, hs, hi⟩
        · obtain ⟨i', v', h1, h2⟩ := ih _ _ h a ha'
          exact ⟨i', v', h1, by rw [List.length_set] at h2; exact h2⟩
      · simp [hi] at h

/-- the anchor a component record holds for class id `id`: the last entry of the component's map
whose class name has that id -/
def compAnchor {A : Type} (classes : List (Nat × Nat)) (comp : List (Nat × A)) (id : Nat) : Option A :=
  comp.reverse.findSome? (fun e => if classId classes e.1 = some id then some e.2 else none)

theorem componentRecord_get {A : Type} (classes : List (Nat × Nat)) (n : Nat) (comp : List (Nat × A))
    (row : List (Option A)) (h : componentRecord classes n comp = some row) (id : Nat) :
    (match row[id]? with
     | some (some a) => some a
     | _ => none) = compAnchor classes comp id := by
  unfold componentRecord at h
  have hall := setMany_some_all _ _ _ _ h
  obtain ⟨res, hres, hlen, hj⟩ := setMany_last _ comp (List.replicate n none) hall
  rw [h] at hres
  cases hres
  rw [hj id]
  unfold compAnchor
  have hconv : ∀ (F : Nat × A → Option (Option A))
      (hF : ∀ e, F e = if classId classes e.1 = some id then some (some e.2) else none) (l : List (Nat × A)),
      l.findSome? F =
      (l.findSome? (fun e => if classId classes e.1 = some id then some e.2 else none)).map some := by
    intro F hF l
    induction l with
    | nil => rfl
    | cons x xs ih =>
      rw [List.findSome?_cons, List.findSome?_cons, hF x]
      by_cases hc : classId classes x.1 = some id
      · simp [hc]
      · simp only [hc, ↓reduceIte]; exact ih
  rw [hconv]
  rotate_left
  · intro e
    cases hc : classId classes e.1 with
    | none => simp
    | some i =>
      by_cases hi : i = id
      · subst hi; simp
      · have : ¬ some i = some id := fun e => hi (Option.some.inj e)
        simp [hi, this]
  cases hf : comp.reverse.findSome? (fun e => if classId classes e.1 = some id then some e.2 else none) with
  | none =>
    simp only [Option.map_none, List.getElem?_replicate]
    by_cases hid : id < n <;> simp [hid]
  | some v =>
    simp only [Option.map_some, List.length_replicate]
    -- the entry found was written at an index inside the record
    obtain ⟨e, he, hev⟩ := List.exists_of_findSome?_eq_some hf
    have hcid : classId classes e.1 = some id := by
      by_cases hc : classId classes e.1 = some id
      · exact hc
      · simp [hc] at hev
    obtain ⟨i, w, hs, hi⟩ := hall e (List.mem_reverse.mp he)
    simp only [hcid, Option.map_some, Option.some.injEq, Prod.mk.injEq] at hs
    rw [List.length_replicate] at hi
    have : id < n := by omega
    simp [this]

/-! ### invariants of the `MarkToLigBuilder` state -/

structure MlInv {A : Type} (b : MarkToLig A) : Prop where
  msorted : (b.marks.glyphs.map (·.1)).Pairwise (· < ·)
  mbound : ∀ x ∈ b.marks.glyphs.map (·.1), x < 65536
  lsorted : (b.ligatures.map (·.1)).Pairwise (· < ·)
  lbound : ∀ x ∈ b.ligatures.map (·.1), x < 65536

def MlOp.glyph {A : Type} : MlOp A → Nat
  | .mark g _ _ => g
  | .lig g _ _ => g
  | .direct g _ => g

theorem markList_insert_glyphs {A : Type} (ml : MarkList A) (g n : Nat) (a : A) :
    ∃ id, (ml.insert g n a).1.glyphs = bmInsert g (id, a) ml.glyphs := by
  unfold MarkList.insert
  cases classId ml.classes n with
  | some id => exact ⟨id, by simp only []; split <;> (try split) <;> rfl⟩
  | none => exact ⟨ml.classes.length, by simp only []; split <;> (try split) <;> rfl⟩

theorem markList_insert_classes {A : Type} (ml : MarkList A) (g n : Nat) (a : A) :
    (ml.insert g n a).1.classes =
      match classId ml.classes n with
      | some _ => ml.classes
      | none => ml.classes ++ [(n, ml.classes.length)] := by
  unfold MarkList.insert
  cases classId ml.classes n with
  | some id => simp only []; split <;> (try split) <;> rfl
  | none => simp only []; split <;> (try split) <;> rfl

theorem mlInv_step {A : Type} (b : MarkToLig A) (h : MlInv b) (op : MlOp A) (hg : op.glyph < 65536)
    (b' : MarkToLig A) (hb : b.apply op = some b') : MlInv b' := by
  have lig_case : ∀ (g : Nat) (v : List (List (Nat × A))), g < 65536 →
      MlInv ({ b with ligatures := bmInsert g v b.ligatures } : MarkToLig A) := by
    intro g v hgb
    refine ⟨h.msorted, h.mbound, bmInsert_sorted _ _ _ h.lsorted, ?_⟩
    intro x hx
    rcases (bmInsert_keys_mem _ _ _ x).mp hx with rfl | hx'
    · exact hgb
    · exact h.lbound x hx'
  cases op with
  | mark g n a =>
    simp only [MarkToLig.apply, MarkToLig.insertMark, Option.some.injEq] at hb
    subst hb
    obtain ⟨id, hid⟩ := markList_insert_glyphs b.marks g n a
    refine ⟨?_, ?_, h.lsorted, h.lbound⟩
    · show (((b.marks.insert g n a).1.glyphs).map (·.1)).Pairwise (· < ·)
      rw [hid]; exact bmInsert_sorted _ _ _ h.msorted
    · intro x hx
      have hx' : x ∈ ((b.marks.insert g n a).1.glyphs).map (·.1) := hx
      rw [hid] at hx'
      rcases (bmInsert_keys_mem _ _ _ x).mp hx' with rfl | hx''
      · exact hg
      · exact h.mbound x hx''
  | lig g n cs =>
    simp only [MarkToLig.apply, MarkToLig.insertLigature] at hb
    split at hb
    · cases hb
    · cases hb; exact lig_case g _ hg
  | direct g cs =>
    simp only [MarkToLig.apply, MarkToLig.addDirectly, Option.some.injEq] at hb
    subst hb
    exact lig_case g cs hg

theorem mlInv_ofOps {A : Type} : ∀ (ops : List (MlOp A)) (b : MarkToLig A), MlInv b →
    (∀ op ∈ ops, op.glyph < 65536) → ∀ b', MarkToLig.ofOps ops b = some b' → MlInv b' := by
  intro ops
  induction ops with
  | nil => intro b h _ b' hb; simp only [MarkToLig.ofOps, Option.some.injEq] at hb; subst hb; exact h
  | cons op ops ih =>
    intro b h hg b' hb
    simp only [MarkToLig.ofOps] at hb
    cases ha : b.apply op with
    | none => rw [ha] at hb; cases hb
    | some b1 =>
      rw [ha] at hb
      exact ih b1 (mlInv_step b h op (hg op (List.mem_cons_self ..)) b1 ha)
        (fun o ho => hg o (List.mem_cons_of_mem _ ho)) b' hb

theorem mlInv_empty {A : Type} : MlInv (MarkToLig.empty : MarkToLig A) :=
  ⟨List.Pairwise.nil, fun x hx => (nomatch hx), List.Pairwise.nil, fun x hx => (nomatch hx)⟩

end FontVerif.Layout
