/-
Helper lemmas for C17 (Model/SubsetCmap.lean): with the implemented cost heuristic `to_ranges` and the
array writer never fail on a list the plan can produce (no `u16` overflow, every code point of a
glyphIdArray range found), and the subtable fits 64 KiB for up to 6551 characters.
-/
import FontVerif.Lemmas.SubsetCmap4Top
set_option linter.unusedVariables false
namespace FontVerif.SubsetCmap
open FontVerif FontVerif.Cmap

/-- what the overflow checks of the loop need to know about the state -/
structure Tot (cp gid : Nat → Nat) (st : St) (i : Nat) : Prop where
  pos : 1 ≤ i
  endCp : st.endCp = cp (i - 1)
  lastGid : st.lastGid = gid (i - 1)
  len : st.runLength ≤ i
  run : st.endCp + 1 = st.runStart + st.runLength

theorem commit_total (st : St) (final : Bool) (h : st.endCp + 1 = st.runStart + st.runLength)
    (hl : st.runLength ≤ 32767) : ∃ c, commit implHeur st final = some c := by
  have hst : implHeur.splitTail st final =
      some (decide ((st.endCp - st.runStart + 1) * 2 ≥ (if final then 8 else splitCost st.first))) := by
    have : ¬ (st.endCp - st.runStart + 1) * 2 > 65535 := by omega
    simp [implHeur, this]
  unfold commit
  simp only [hst]
  cases decide ((st.endCp - st.runStart + 1) * 2 ≥ (if final then 8 else splitCost st.first)) <;>
    split <;> exact ⟨_, rfl⟩

theorem go_total (cp gid : Nat → Nat) (n : Nat) (hn : n ≤ 32767)
    (hcp : ∀ k, k < n → cp k ≤ 0xFFFF) (hgid : ∀ k, k < n → gid k < 0xFFFF)
    (hmono : ∀ i j, i < j → j < n → cp i < cp j) :
    ∀ (m i : Nat), n - i = m → i ≤ n → ∀ (st : St), Tot cp gid st i →
      ∃ rs, go implHeur st (pairsFrom cp gid i n) = some rs := by
  intro m
  induction m with
  | zero =>
    intro i hm hin st ht
    have hi : i = n := by omega
    subst hi
    rw [pairsFrom_nil, go]
    obtain ⟨c, hc⟩ := commit_total st true ht.run (by have := ht.len; omega)
    simp [hc]
  | succ m ih =>
    intro i hm hin st ht
    have hi : i < n := by omega
    have hci := hcp i hi
    have hgi := hgid i hi
    have e1 : cp i % 65536 = cp i := by omega
    have e2 : gid i % 65536 = gid i := by omega
    have hpos := ht.pos
    have hprev : cp (i - 1) < cp i := hmono (i - 1) i (by omega) hi
    have hlg := hgid (i - 1) (by omega)
    have hlen := ht.len
    rw [pairsFrom_cons cp gid i n hi, go]
    simp only [e1, e2]
    have hov : ¬ st.endCp + 1 > 65535 := by rw [ht.endCp]; omega
    simp only [hov, if_false]
    obtain ⟨c1, hc1⟩ := commit_total st true ht.run (by omega)
    obtain ⟨c2, hc2⟩ := commit_total st false ht.run (by omega)
    have tinit : Tot cp gid (initSt (cp i, gid i)) (i + 1) :=
      ⟨by omega, by simp [initSt, e1], by simp [initSt, e2], by simp [initSt], by simp [initSt]⟩
    by_cases hbrk : cp i ≠ st.endCp + 1
    · simp only [hbrk, ne_eq, not_false_eq_true, if_true, hc1]
      obtain ⟨r, hr⟩ := ih (i + 1) (by omega) (by omega) _ tinit
      simp [hr]
    · have hnext : cp i = st.endCp + 1 := by omega
      simp only [hnext, ne_eq, not_true_eq_false, if_false]
      have hgov : ¬ st.lastGid + 1 > 65535 := by rw [ht.lastGid]; omega
      simp only [hgov, if_false]
      by_cases hcont : gid i = st.lastGid + 1
      · simp only [hcont, if_true]
        have hrl : ¬ st.runLength + 1 > 65535 := by omega
        simp only [hrl, if_false]
        refine ih (i + 1) (by omega) (by omega) _ ⟨by omega, ?_, ?_, ?_, ?_⟩
        · simp [hnext]
        · simp [hcont]
        · simp; omega
        · have := ht.run; simp; omega
      · simp only [hcont, if_false]
        have hca : implHeur.commitAtRun st = some (decide (st.runLength * 2 ≥ splitCost st.first)) := by
          have : ¬ st.runLength * 2 > 65535 := by omega
          simp [implHeur, this]
        simp only [hca]
        have key : ∀ (c : List Range) (stx : St), Tot cp gid stx (i + 1) →
            ∃ rs, (match go implHeur stx (pairsFrom cp gid (i + 1) n) with
                   | none => none
                   | some r => some (c ++ r)) = some rs := by
          intro c stx hx
          obtain ⟨r, hr⟩ := ih (i + 1) (by omega) (by omega) stx hx
          exact ⟨c ++ r, by simp [hr]⟩
        by_cases hdec : st.runLength * 2 ≥ splitCost st.first
        · simp only [hdec, decide_true, if_true, hc2]
          exact key c2 _ ⟨by omega, by simp [hnext], by simp, by simp, by simp⟩
        · simp only [hdec, decide_false, Bool.false_eq_true, if_false]
          exact key [] _ ⟨by omega, by simp [hnext], by simp, by simp, by simp⟩

/-- a valid cover has at most one range per listed pair -/
theorem bodyOk_length (cp gid : Nat → Nat) : ∀ (body : List Range) (lo n : Nat),
    BodyOk cp gid lo n body → lo + body.length ≤ n := by
  intro body
  induction body with
  | nil => intro lo n h; simp only [BodyOk] at h; simp; omega
  | cons r rest ih =>
    intro lo n h
    obtain ⟨_, _, _, _, _, f⟩ := h
    have := ih _ _ f
    simp only [List.length_cons]
    omega

/-- the array writer succeeds on a valid cover, and writes at most one glyph id per listed pair -/
theorem emitRows_total (cp gid : Nat → Nat) (n : Nat) (l : Mapping)
    (hl : ∀ k, k < n → gidOf l (cp k) = some (gid k)) (hg : ∀ k, k < n → gid k ≤ 0xFFFF) (sc : Nat) :
    ∀ (body : List Range) (lo i nIds : Nat), BodyOk cp gid lo n body →
      ∃ rows g, emitRows l.reverse sc i nIds body = some (rows, g) ∧ lo + g.length ≤ n := by
  intro body
  induction body with
  | nil => intro lo i nIds h; simp only [BodyOk] at h; exact ⟨[], [], rfl, by simp; omega⟩
  | cons r rest ih =>
    intro lo i nIds hbody
    obtain ⟨s, e, d⟩ := r
    obtain ⟨b1, b2, b3, b4, b5, b6⟩ := hbody
    simp only at b1 b2 b3 b4 b5 b6
    rw [emitRows]
    by_cases hd : d ≠ 0
    · simp only [hd, ne_eq, not_false_eq_true, if_true]
      obtain ⟨rows, g, h1, h2⟩ := ih _ (i + 1) nIds b6
      exact ⟨(s, e, d, 0) :: rows, g, by simp [h1], by omega⟩
    · simp only [hd, if_false]
      obtain ⟨chunk, hch, hlen, _⟩ := glyphIdsGo_spec l cp gid n hl hg (e + 1 - s) lo s (by omega)
        (fun t ht => by rw [b4 _ (by omega) (by omega)]; omega)
      have hgf : glyphIdsFor l.reverse s e = some chunk := hch
      simp only [hgf]
      obtain ⟨rows, g, h1, h2⟩ := ih _ (i + 1) (nIds + chunk.length) b6
      exact ⟨(s, e, 0, (((sc - i) + nIds) * 2) % 65536) :: rows, chunk ++ g, by simp [h1], by simp only [List.length_append]; omega⟩

/-- `Cmap4::serialize` with the implemented heuristic succeeds on every list in the domain with at most
6551 characters whose glyph ids stay below 0xFFFF -/
theorem build4_total (l : Mapping) (hd : InDomain l) (hb : ∀ p ∈ l, p.1 ≤ 0xFFFF) (hg : ∀ p ∈ l, p.2 < 0xFFFF)
    (hne : l ≠ []) (hlen : l.length ≤ 6551) : ∃ t, build4 l = .ok t := by
  have hn : 0 < l.length := List.length_pos_iff.2 hne
  have hm := mapOk_of_bmp l hd hb
  have hcp : ∀ k, k < l.length → cpAt l.toArray k ≤ 0xFFFF := fun k hk => by have := hm.cpLt k hk; omega
  have hgid : ∀ k, k < l.length → gidAt l.toArray k < 0xFFFF := fun k hk => by
    rw [(index_view l k hk).2]; exact hg _ (List.getElem_mem hk)
  -- `to_ranges` finishes
  obtain ⟨rs, hrs⟩ : ∃ rs, toRangesWith implHeur l = some rs := by
    have h0 := go_total _ _ l.length (by omega) hcp hgid hm.mono (l.length - 1) 1 (by omega) (by omega)
      (initSt (cpAt l.toArray 0, gidAt l.toArray 0))
      ⟨by omega, by simp [initSt]; have := hcp 0 hn; omega, by simp [initSt]; have := hgid 0 hn; omega,
        by simp [initSt], by simp [initSt]⟩
    obtain ⟨rs, h⟩ := h0
    refine ⟨rs, ?_⟩
    have hl : l = pairsFrom (cpAt l.toArray) (gidAt l.toArray) 0 l.length := (pairsFrom_list l).symm
    rw [hl, pairsFrom_cons _ _ 0 _ hn]
    simpa [toRangesWith] using h
  obtain ⟨body, hbody1, hbody2⟩ := toRangesWith_spec implHeur l
    (fun p hp => ⟨hb p hp, (hd.gid p hp).2⟩) hne rs hrs
  have hlast := hm.cpLt (l.length - 1) (by omega)
  have hsent : sentinel (cpAt l.toArray (l.length - 1)) = [(0xFFFF, 0xFFFF, 1)] := by
    unfold sentinel
    have : cpAt l.toArray (l.length - 1) ≠ 0xFFFF := by omega
    simp [this]
  rw [hsent] at hbody1
  subst hbody1
  have hbl := bodyOk_length _ _ body 0 l.length hbody2
  have hgl : ∀ k, k < l.length → gidOf l (cpAt l.toArray k) = some (gidAt l.toArray k) := by
    intro k hk
    obtain ⟨e1, e2⟩ := index_view l k hk
    rw [e1, e2]
    exact gidOf_of_mem l hd.asc _ _ (List.getElem_mem hk)
  obtain ⟨rows, g, he, hgl2⟩ := emitRows_total _ _ l.length l hgl (fun k hk => (hm.gidOk k hk).2)
    (body.length + 1) body 0 0 0 hbody2
  have hrl := emitRows_lengths l.reverse _ body 0 0 rows g he
  unfold build4 build4With
  simp only [hrs]
  have hL : (body ++ [((0xFFFF : Nat), (0xFFFF : Nat), (1 : Int))]).length = body.length + 1 := by simp
  rw [hL]
  have h1 : ¬ body.length + 1 > 65535 := by omega
  simp only [h1, if_false]
  rw [emitRows_snoc_sentinel]
  simp only [he]
  have h2 : ¬ length4 (tableOfRows (rows ++ [(0xFFFF, 0xFFFF, 1, 0)]) g) > 65535 := by
    simp only [length4, tableOfRows, List.size_toArray, List.length_map, List.length_append, List.length_cons,
      List.length_nil]
    omega
  simp only [h2, if_false]
  exact ⟨_, rfl⟩

end FontVerif.SubsetCmap
