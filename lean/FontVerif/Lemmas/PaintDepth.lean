/-
C13 helper lemmas: a successful traversal has descended along every edge (so long paths and cycles
force an error); decycler facts; visit-count bound.
-/
import FontVerif.Model.Paint
import FontVerif.Lemmas.Paint
set_option linter.unusedVariables false
namespace FontVerif.Paint

/-! ### the layer loop -/

theorem forLayers_ok_all (body : Nat → St → Res) :
    ∀ (l : List Nat) (st : St), (forLayers body l st).1 = none →
      ∀ i ∈ l, ∃ sti, (body i sti).1 = none := by
  intro l
  induction l with
  | nil => intro st _ i hi; cases hi
  | cons j js ih =>
    intro st h i hi
    simp only [forLayers] at h
    generalize hb : body j st = r at h
    obtain ⟨r1, st'⟩ := r
    cases r1 with
    | some e => simp at h
    | none =>
      simp only at h
      rcases List.mem_cons.mp hi with rfl | hi'
      · exact ⟨st, by rw [hb]⟩
      · exact ih st' h i hi'

theorem askCached_unimpl (c : Client) (hc : ∀ g, c.cached g = .unimplemented) (g : Gid) (st : St) :
    (askCached c g st).1 = .unimplemented := by
  unfold askCached; split
  · exact hc g
  · rfl

/-- if one level of the traversal succeeds, the recursive call on every child succeeded
(client never short-cuts a `PaintColrGlyph`) -/
theorem arm_ok_child (inst : Instance) (c : Client) (hc : ∀ g, c.cached g = .unimplemented)
    (rec : Node → List PaintId → St → Res) (node : Node) (dec : List PaintId) (st : St)
    (h : (arm inst c rec node dec st).1 = none) (m : Node) (he : Edge inst node m) :
    ∃ dec' st', (rec m dec' st').1 = none := by
  cases he with
  | glyph hres =>
    simp only [arm, hres] at h
    split at h
    · exact ⟨_, _, h⟩
    · split at h
      · exact ⟨_, _, h⟩
      · exact ⟨_, _, h⟩
  | transform hres =>
    simp only [arm, hres] at h
    exact ⟨_, _, h⟩
  | compSrc hres =>
    simp only [arm] at h
    split at h
    · cases h
    · split at h
      · cases h
      · simp only [hres] at h
        exact ⟨_, _, h⟩
  | compBackdrop hres =>
    simp only [arm, hres] at h
    split at h
    · cases h
    · rename_i hr; exact ⟨_, _, hr⟩
  | layer h1 h2 hl hres =>
    rename_i first num i pid
    simp only [arm] at h
    have hmem : i ∈ List.range' first num := by
      rw [List.mem_range'_1]; exact ⟨h1, h2⟩
    obtain ⟨sti, hb⟩ := forLayers_ok_all _ _ _ h i hmem
    simp only [hl] at hb
    split at hb
    · cases hb
    · simp only [hres] at hb
      exact ⟨_, _, hb⟩
  | colrGlyph hb hres =>
    rename_i g pid
    simp only [arm, hb] at h
    split at h
    · cases h
    · have ha := askCached_unimpl c hc g st
      generalize askCached c g st = a at h ha
      obtain ⟨a1, a2⟩ := a
      simp only at ha
      subst ha
      simp only [hres] at h
      exact ⟨_, _, h⟩

/-- a successful traversal with `fuel` levels left means every descending path from the node has
fewer than `fuel` edges -/
theorem trav_ok_paths (inst : Instance) (c : Client) (hc : ∀ g, c.cached g = .unimplemented) :
    ∀ (fuel : Nat) (n : Node) (dec : List PaintId) (st : St),
      (trav inst c fuel n dec st).1 = none → ∀ k, Path inst n k → k < fuel := by
  intro fuel
  induction fuel with
  | zero => intro n dec st h; simp [trav] at h
  | succ f ih =>
    intro n dec st h k hp
    cases hp with
    | here => omega
    | step he hp' =>
      simp only [trav] at h
      obtain ⟨dec', st', hr⟩ := arm_ok_child inst c hc _ n dec (bump st) h _ he
      have := ih _ dec' st' hr _ hp'
      omega

/-! ### walks, cycles -/

theorem Walk.trans {inst : Instance} {a b d : Node} {i j : Nat}
    (h1 : Walk inst a b i) (h2 : Walk inst b d j) : Walk inst a d (i + j) := by
  induction h1 with
  | here n => simpa using h2
  | step e w ih =>
    have := Walk.step e (ih h2)
    rw [Nat.add_right_comm]
    exact this

theorem Walk.toPath {inst : Instance} {a b : Node} {k : Nat} (h : Walk inst a b k) : Path inst a k := by
  induction h with
  | here n => exact Path.here n
  | step e w ih => exact Path.step e ih

theorem Walk.pump {inst : Instance} {a : Node} {k : Nat} (h : Walk inst a a k) :
    ∀ j, Walk inst a a (j * k) := by
  intro j
  induction j with
  | zero => simpa using Walk.here a
  | succ j ih =>
    have := ih.trans h
    rw [show (j + 1) * k = j * k + k by rw [Nat.succ_mul]]
    exact this

/-! ### decycler -/

theorem enter_ok {p p' : List PaintId} {id : PaintId} (h : enter p id = .ok p') :
    p' = p ++ [id] ∧ p.length < MAX_TRAVERSAL_DEPTH := by
  unfold enter at h
  split at h
  · split at h
    · cases h; exact ⟨rfl, by assumption⟩
    · cases h
  · cases h

theorem enter_cycle_mem {p : List PaintId} {id : PaintId} (h : enter p id = .error .cycle) : id ∈ p := by
  unfold enter at h
  split at h
  · split at h
    · cases h
    · rename_i hlt hcond
      have hne : p.length ≠ 0 := fun h0 => hcond (Or.inl h0)
      have heq : p.getD (p.length / 2) 0 = id := by
        apply Classical.byContradiction
        intro hx; exact hcond (Or.inr hx)
      have hidx : p.length / 2 < p.length := by omega
      rw [← heq, List.getD_eq_getElem?_getD, List.getElem?_eq_getElem hidx]
      simp
  · cases h

/-! ### visit counts -/

theorem askCached_visits (c : Client) (g : Gid) (st : St) : (askCached c g st).2.visits = st.visits := by
  unfold askCached; split <;> rfl

theorem forLayers_visits (body : Nat → St → Res) (B : Nat)
    (hb : ∀ i st, (body i st).2.visits ≤ st.visits + B) :
    ∀ (l : List Nat) (st : St), (forLayers body l st).2.visits ≤ st.visits + l.length * B := by
  intro l
  induction l with
  | nil => intro st; simp [forLayers]
  | cons j js ih =>
    intro st
    simp only [forLayers]
    have h1 := hb j st
    generalize body j st = r at h1
    obtain ⟨r1, st'⟩ := r
    simp only at h1
    cases r1 with
    | some e =>
      simp only [List.length_cons]
      have : B ≤ (js.length + 1) * B := Nat.le_mul_of_pos_left B (by omega)
      omega
    | none =>
      have h2 := ih st'
      simp only [List.length_cons, Nat.succ_mul]
      omega

def NodeOK (k : Nat) (n : Node) : Prop := ∀ first num, n = .colrLayers first num → num ≤ k

theorem arm_visits (inst : Instance) (c : Client) (k B : Nat) (hk : 2 ≤ k) (hl : LayersBounded inst k)
    (rec : Node → List PaintId → St → Res)
    (hrec : ∀ n dec st, NodeOK k n → (rec n dec st).2.visits ≤ st.visits + B)
    (node : Node) (hn : NodeOK k node) (dec : List PaintId) (st : St) :
    (arm inst c rec node dec st).2.visits ≤ st.visits + k * B := by
  have hres : ∀ id n, inst.resolve id = some n → NodeOK k n := by
    intro id n h first num hn'; subst hn'; exact hl id first num h
  have hB : B ≤ k * B := Nat.le_mul_of_pos_left B (by omega)
  have h2B : 2 * B ≤ k * B := Nat.mul_le_mul_right B hk
  cases node with
  | colrLayers first num =>
    simp only [arm]
    have hnum : num ≤ k := hn first num rfl
    have hmul : num * B ≤ k * B := Nat.mul_le_mul_right B hnum
    refine Nat.le_trans (forLayers_visits _ B ?_ _ _) ?_
    · intro i st'
      split
      · simp
      · split
        · simp
        · split
          · simp
          · rename_i n hr; exact hrec _ _ _ (hres _ _ hr)
    · simp only [List.length_range']
      omega
  | leaf brush =>
    simp only [arm]
    cases brush <;> simp [emit_visits]
  | glyph g child =>
    simp only [arm]
    split
    · simp
    · rename_i n hr
      have h1 := hrec n dec { st with opts := { success := true, bt := none, gid := g } :: st.opts } (hres _ _ hr)
      generalize rec n dec { st with opts := { success := true, bt := none, gid := g } :: st.opts } = r1 at h1 ⊢
      simp only at h1
      split
      · omega
      · split
        · simp only; omega
        · rename_i o rest hopts hs
          have h2 := hrec n dec (emit c (.pushClipGlyph g) { r1.2 with opts := rest }) (hres _ _ hr)
          generalize rec n dec (emit c (.pushClipGlyph g) { r1.2 with opts := rest }) = r2 at h2 ⊢
          simp only [emit_visits] at h2 ⊢
          omega
  | colrGlyph g =>
    simp only [arm]
    split
    · simp
    · simp
    · split
      · simp
      · have ha := askCached_visits c g st
        generalize askCached c g st = a at ha ⊢
        split
        · simp only; omega
        · simp only; omega
        · split
          · simp only [pushClip_visits]; omega
          · rename_i pid _ _ dec' _ _ _ _ n hr
            have h1 := hrec n dec' (pushClip c (inst.clip g) a.2) (hres _ _ hr)
            generalize rec n dec' (pushClip c (inst.clip g) a.2) = r at h1 ⊢
            rw [pushClip_visits] at h1
            simp only [popClipIf_visits]; omega
  | transform tag child =>
    simp only [arm]
    split
    · simp only [emit_visits]; omega
    · rename_i n hr
      have h1 := hrec n dec (emit c (.pushT [tag]) st) (hres _ _ hr)
      generalize rec n dec (emit c (.pushT [tag]) st) = r at h1 ⊢
      simp only [emit_visits] at h1 ⊢
      omega
  | composite src mode backdrop =>
    simp only [arm]
    split
    · simp only [emit_visits]; omega
    · rename_i nb hr
      have h1 := hrec nb dec (emit c (.pushLayer SRC_OVER) st) (hres _ _ hr)
      generalize rec nb dec (emit c (.pushLayer SRC_OVER) st) = r1 at h1 ⊢
      simp only [emit_visits] at h1
      split
      · simp only; omega
      · split
        · simp only [emit_visits]; omega
        · rename_i ns hr2
          have h2 := hrec ns dec (emit c (.pushLayer mode) r1.2) (hres _ _ hr2)
          generalize rec ns dec (emit c (.pushLayer mode) r1.2) = r2 at h2 ⊢
          simp only [emit_visits] at h2 ⊢
          omega

theorem trav_visits (inst : Instance) (c : Client) (k : Nat) (hk : 2 ≤ k) (hl : LayersBounded inst k) :
    ∀ (fuel : Nat) (n : Node) (dec : List PaintId) (st : St), NodeOK k n →
      (trav inst c fuel n dec st).2.visits ≤ st.visits + geom k fuel := by
  intro fuel
  induction fuel with
  | zero => intro n dec st _; simp [trav, geom]
  | succ f ih =>
    intro n dec st hn
    simp only [trav, geom]
    have := arm_visits inst c k (geom k f) hk hl (trav inst c f) ih n hn dec (bump st)
    simp only [bump] at this ⊢
    omega

end FontVerif.Paint
