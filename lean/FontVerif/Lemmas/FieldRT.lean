/- C04: the induction behind the round-trip theorems of Props/C04.lean (statement by statement: what the writer put
at a position is what the reader's getter returns there; the running invariant ties every count field already
written to the length of its array). -/
import FontVerif.Lemmas.Field
set_option linter.unusedVariables false

namespace FontVerif.C04
open FontVerif.Field

/-- every count field already written holds the (scaled) length of its array -/
def Inv (pre : List WF) (o : Obj) (view : View) : Prop :=
  (∀ p ∈ pre, ∀ g arr a b, isCountFor g arr a b p = true →
    ∃ xs, o.get arr = .arr xs ∧ numAt view g = a * xs.length + b) ∧
  (∀ p ∈ pre, ∀ g, isPlainField g p = true → o.get g = .num (numAt view g))

def isRestItem : RItem → Bool
  | .array .rest _ => true
  | _ => false

theorem numAt_cons_ne (view : View) (f g : Nat) (v : Val) (h : g ≠ f) :
    numAt ((f, v) :: view) g = numAt view g := by
  have : (g == f) = false := by simpa using h
  simp [numAt, List.lookup, this]

theorem numAt_cons_self (view : View) (f n : Nat) : numAt ((f, .num n) :: view) f = n := by
  simp [numAt, List.lookup]

private theorem isCountFor_spec {g arr a b : Nat} {p : WF} (h : isCountFor g arr a b p = true) :
    p.id = g ∧ p.cond = none ∧ ∃ sz, p.item = .scalar (.count arr a b) sz := by
  unfold isCountFor at h
  simp only [Bool.and_eq_true, beq_iff_eq, Option.isNone_iff_eq_none] at h
  obtain ⟨⟨h1, h2⟩, h3⟩ := h
  refine ⟨h1, h2, ?_⟩
  split at h3
  · rename_i arr' a' b' sz hitem
    simp only [Bool.and_eq_true, beq_iff_eq] at h3
    obtain ⟨⟨e1, e2⟩, e3⟩ := h3
    subst e1 e2 e3
    exact ⟨sz, hitem⟩
  · cases h3

private theorem isPlainField_spec {g : Nat} {p : WF} (h : isPlainField g p = true) :
    p.id = g ∧ p.cond = none ∧ ∃ sz, p.item = .scalar .field sz := by
  unfold isPlainField at h
  simp only [Bool.and_eq_true, beq_iff_eq, Option.isNone_iff_eq_none] at h
  obtain ⟨⟨h1, h2⟩, h3⟩ := h
  refine ⟨h1, h2, ?_⟩
  split at h3
  · rename_i sz hitem
    exact ⟨sz, hitem⟩
  · cases h3

/-- the count the reader will use for array `id` is the (scaled) length of the written array -/
theorem count_ok (as : List Assume) (o : Obj) (pre : List WF) (view vfin : View) (id g a b : Nat)
    (xs : List (List Nat))
    (hassume : ∀ x ∈ as, x.holds o vfin)
    (hinv : Inv pre o view)
    (hxs : o.get id = .arr xs)
    (hc : countCompat as pre id g a b = true) :
    numAt view g = a * xs.length + b := by
  unfold countCompat at hc
  simp only [Bool.or_eq_true, Bool.and_eq_true, List.any_eq_true, List.contains_iff_mem] at hc
  rcases hc with (⟨p, hp, hpc⟩ | ⟨hmem, p, hp, hpf⟩) | ⟨x, hx, hsl⟩
  · obtain ⟨xs', hx1, hx2⟩ := hinv.1 p hp g id a b hpc
    rw [hxs] at hx1
    injection hx1 with hx1
    subst hx1
    exact hx2
  · have h1 := hassume _ hmem xs hxs
    have h2 := hinv.2 p hp g hpf
    rw [h1] at h2
    injection h2 with h2
    exact h2.symm
  · cases x with
    | fieldIsCount _ _ _ _ => simp [isSameLenFor] at hsl
    | lenIs _ _ => simp [isSameLenFor] at hsl
    | lenIsExpr _ _ => simp [isSameLenFor] at hsl
    | elemLen _ _ => simp [isSameLenFor] at hsl
    | elemSized _ _ => simp [isSameLenFor] at hsl
    | sameLen arr arr' =>
      simp only [isSameLenFor, Bool.and_eq_true, beq_iff_eq, List.any_eq_true] at hsl
      obtain ⟨harr, p, hp, hpc⟩ := hsl
      subst harr
      obtain ⟨xs', hx1, hx2⟩ := hinv.1 p hp g arr' a b hpc
      have h1 := hassume _ hx xs xs' hxs hx1
      rw [hx2, h1]

theorem numAt_congr (v1 v2 : View) (g : Nat) (h : List.lookup g v1 = List.lookup g v2) :
    numAt v1 g = numAt v2 g := by
  simp only [numAt, h]

theorem NExpr.eval_congr (v1 v2 : View) : ∀ (e : NExpr), (∀ g ∈ e.refs, numAt v1 g = numAt v2 g) →
    e.eval v1 = e.eval v2
  | .lit _, _ => rfl
  | .field g, h => by simpa [NExpr.eval] using h g (by simp [NExpr.refs])
  | .add a b, h => by
    simp only [NExpr.eval, NExpr.eval_congr v1 v2 a (fun g hg => h g (by simp [NExpr.refs, hg])),
      NExpr.eval_congr v1 v2 b (fun g hg => h g (by simp [NExpr.refs, hg]))]
  | .sub a b, h => by
    simp only [NExpr.eval, NExpr.eval_congr v1 v2 a (fun g hg => h g (by simp [NExpr.refs, hg])),
      NExpr.eval_congr v1 v2 b (fun g hg => h g (by simp [NExpr.refs, hg]))]
  | .mul a b, h => by
    simp only [NExpr.eval, NExpr.eval_congr v1 v2 a (fun g hg => h g (by simp [NExpr.refs, hg])),
      NExpr.eval_congr v1 v2 b (fun g hg => h g (by simp [NExpr.refs, hg]))]
  | .div a k, h => by
    simp only [NExpr.eval, NExpr.eval_congr v1 v2 a (fun g hg => h g (by simp [NExpr.refs, hg]))]
  | .divCeil a k, h => by
    simp only [NExpr.eval, NExpr.eval_congr v1 v2 a (fun g hg => h g (by simp [NExpr.refs, hg]))]
  | .popcnt k a, h => by
    simp only [NExpr.eval, NExpr.eval_congr v1 v2 a (fun g hg => h g (by simp [NExpr.refs, hg]))]
  | .app f a b c, h => by
    simp only [NExpr.eval, NExpr.eval_congr v1 v2 a (fun g hg => h g (by simp [NExpr.refs, hg])),
      NExpr.eval_congr v1 v2 b (fun g hg => h g (by simp [NExpr.refs, hg])),
      NExpr.eval_congr v1 v2 c (fun g hg => h g (by simp [NExpr.refs, hg]))]

theorem evalSegs_congr (v1 v2 : View) : ∀ (segs : Segs), (∀ g ∈ segsRefs segs, numAt v1 g = numAt v2 g) →
    evalSegs v1 segs = evalSegs v2 segs
  | [], _ => rfl
  | (n, ws) :: rest, h => by
    simp only [evalSegs, NExpr.eval_congr v1 v2 n (fun g hg => h g (by simp [segsRefs, hg])),
      evalSegs_congr v1 v2 rest (fun g hg => h g (by simp [segsRefs, hg]))]

/-- what `exprFresh` checks -/
theorem exprFresh_spec (later : List WF) (id : Nat) (refs : List Nat) (h : exprFresh later id refs = true) :
    ∀ g ∈ refs, g ≠ id ∧ ∀ p ∈ later, p.id ≠ g := by
  intro g hg
  have := List.all_eq_true.mp h g hg
  simp only [Bool.and_eq_true, bne_iff_ne, ne_eq, Bool.not_eq_true', List.any_eq_false, beq_iff_eq] at this
  exact ⟨this.1, fun p hp => this.2 p hp⟩

/-- the element count the reader computes is the number of written elements -/
theorem cnt_ok (as : List Assume) (o : Obj) (pre later : List WF) (view vfin : View) (id : Nat)
    (fixed : Option Nat) (cnt : RCount) (bs : Bytes) (elem : List Nat) (xs : List (List Nat))
    (hassume : ∀ x ∈ as, x.holds o vfin)
    (hfin : ∀ g, g ≠ id → (∀ p ∈ later, p.id ≠ g) → numAt vfin g = numAt view g)
    (hinv : Inv pre o view)
    (hxs : o.get id = .arr xs)
    (hfix : fixedOk fixed xs.length = true)
    (hc : cntCompat as pre later id fixed cnt = true) :
    evalCount view bs elem cnt = xs.length := by
  cases cnt with
  | lit n =>
    simp only [cntCompat, Bool.or_eq_true, beq_iff_eq, List.contains_iff_mem] at hc
    rcases hc with hc | hc
    · subst hc
      simp only [fixedOk, beq_iff_eq] at hfix
      simp [evalCount, hfix]
    · have := hassume _ hc xs hxs
      simp [evalCount, this]
  | affine g a bq =>
    simp only [cntCompat, Bool.and_eq_true, decide_eq_true_eq] at hc
    obtain ⟨ha, hcc⟩ := hc
    have hx2 := count_ok as o pre view vfin id g a bq xs hassume hinv hxs hcc
    simp only [evalCount, hx2]
    rw [Nat.add_sub_cancel, Nat.mul_div_cancel_left _ ha]
  | rest => simp [cntCompat] at hc
  | expr e =>
    simp only [cntCompat, Bool.and_eq_true, List.contains_iff_mem] at hc
    obtain ⟨hmem, hfresh⟩ := hc
    have h1 : xs.length = e.eval vfin := hassume _ hmem xs hxs
    have hsp := exprFresh_spec later id e.refs hfresh
    have h2 : e.eval vfin = e.eval view :=
      NExpr.eval_congr vfin view e (fun g hg => hfin g (hsp g hg).1 (hsp g hg).2)
    simp only [evalCount, h1, h2]

/-- one statement: what the writer put there is what the reader's getter returns, and the reader consumed exactly
the bytes the statement produced -/
theorem parseField_emitField (ext : Ext) (as : List Assume) (o : Obj) (pre later : List WF) (view vfin : View)
    (w : WF) (r : RF) (b rest : Bytes) (v : Val)
    (hassume : ∀ x ∈ as, x.holds o vfin)
    (hfin : ∀ g, g ≠ w.id → (∀ p ∈ later, p.id ≠ g) → numAt vfin g = numAt view g)
    (hc : w.cond = r.cond)
    (hi : itemCompat as pre later w.id w.item r.item = true)
    (hinv : Inv pre o view)
    (he : emitField ext o view w = some (b, v))
    (hrest : isRestItem r.item = true → rest = []) :
    parseField view r (b ++ rest) = some (v, rest) := by
  unfold emitField at he
  unfold parseField
  rw [← hc]
  by_cases hcond : condHolds view w.cond = true
  · rw [if_pos hcond] at he
    rw [if_pos hcond]
    cases hw : w.item with
    | scalar src sz =>
      rw [hw] at he hi
      cases hr : r.item with
      | array cnt elem => rw [hr] at hi; simp [itemCompat] at hi
      | arrayV cnt segs cmp => rw [hr] at hi; simp [itemCompat] at hi
      | arrayL cnt hw' item => rw [hr] at hi; simp [itemCompat] at hi
      | scalar sz' =>
        rw [hr] at hi
        simp only [itemCompat, beq_iff_eq] at hi
        subst hi
        simp only at he ⊢
        split at he
        · rename_i n hn
          split at he
          · rename_i hlt
            injection he with he
            injection he with he1 he2
            subst he1 he2
            have hl : ¬ (be sz n ++ rest).length < sz := by simp [be_length]
            rw [if_neg hl, take_be_append, drop_be_append, beVal_be _ _ hlt]
          · cases he
        · cases he
    | array elem fixed =>
      rw [hw] at he hi
      cases hr : r.item with
      | scalar sz' => rw [hr] at hi; simp [itemCompat] at hi
      | arrayV cnt segs cmp => rw [hr] at hi; simp [itemCompat] at hi
      | arrayL cnt hw' item => rw [hr] at hi; simp [itemCompat] at hi
      | array cnt elem' =>
        rw [hr] at hi hrest
        simp only [itemCompat, Bool.and_eq_true, beq_iff_eq] at hi
        obtain ⟨hel, hcnt⟩ := hi
        subst hel
        simp only at he ⊢
        split at he
        · rename_i xs hxs
          split at he
          · rename_i hfix
            split at he
            · rename_i bb hbb
              injection he with he
              injection he with he1 he2
              subst he1 he2
              have hcount : evalCount view (bb ++ rest) elem cnt = xs.length := by
                by_cases hcr : cnt = .rest
                · subst hcr
                  simp only [Bool.and_eq_true, decide_eq_true_eq] at hcnt
                  have hr0 : rest = [] := hrest (by simp [isRestItem])
                  subst hr0
                  have hlen := emitRecs_length elem xs bb hbb
                  simp only [evalCount, List.append_nil, hlen]
                  exact Nat.mul_div_cancel _ hcnt.2
                · have hcc : cntCompat as pre later w.id fixed cnt = true := by
                    cases cnt with
                    | rest => exact absurd rfl hcr
                    | lit _ => exact hcnt
                    | affine _ _ _ => exact hcnt
                    | expr _ => exact hcnt
                  exact cnt_ok as o pre later view vfin w.id fixed cnt _ elem xs hassume hfin hinv hxs hfix hcc
              rw [hcount, parseRecs_emitRecs elem xs bb rest hbb]
            · cases he
          · cases he
        · cases he
    | arrayV wpre tail fixed =>
      rw [hw] at he hi
      cases hr : r.item with
      | scalar sz' => rw [hr] at hi; simp [itemCompat] at hi
      | array cnt elem => rw [hr] at hi; simp [itemCompat] at hi
      | arrayL cnt hw' item => rw [hr] at hi; simp [itemCompat] at hi
      | arrayV cnt segs cmp =>
        rw [hr] at hi
        simp only [itemCompat, Bool.and_eq_true, List.contains_iff_mem, Bool.or_eq_true, Bool.not_eq_true'] at hi
        obtain ⟨⟨⟨⟨hsc, hmem⟩, hfresh⟩, hsized⟩, hcnt⟩ := hi
        simp only at he ⊢
        split at he
        · rename_i xs hxs
          split at he
          · rename_i hfix
            split at he
            · rename_i bb hbb
              injection he with he
              injection he with he1 he2
              subst he1 he2
              have hsp := exprFresh_spec later w.id (segsRefs segs) hfresh
              have hsegs : evalSegs vfin segs = evalSegs view segs :=
                evalSegs_congr vfin view segs (fun g hg => hfin g (hsp g hg).1 (hsp g hg).2)
              have hel : ∀ x ∈ xs, x.length = (evalSegs view segs).length := by
                intro x hx
                have := hassume _ hmem xs hxs x hx
                rw [hsegs] at this
                exact this
              obtain ⟨k, hk⟩ := segsCompat_sound tail view segs wpre hsc
              have hbb' : emitRecs (evalSegs view segs) xs = some bb := by
                rw [← emitRecsV_eq wpre tail (evalSegs view segs) xs ?_]
                · exact hbb
                · intro x hx
                  have hxl := hel x hx
                  refine ⟨?_, wWidths_of_eq wpre tail k x.length _ hk hxl⟩
                  rw [hxl, hk]
                  simp
              have hcount := cnt_ok as o pre later view vfin w.id fixed cnt (bb ++ rest) (evalSegs view segs) xs
                hassume hfin hinv hxs hfix hcnt
              have hn : (if (cmp && elemSize (evalSegs view segs) == 0) = true then 0
                  else evalCount view (bb ++ rest) (evalSegs view segs) cnt) = xs.length := by
                rw [hcount]
                split
                · rename_i hz
                  simp only [Bool.and_eq_true, beq_iff_eq] at hz
                  rcases hsized with hc | hc
                  · rw [hc] at hz
                    cases hz.1
                  · have h1 := hassume _ hc xs hxs
                    rw [hsegs] at h1
                    by_cases hx : xs = []
                    · simp [hx]
                    · have := h1 hx
                      omega
                · rfl
              simp only [hn, parseRecs_emitRecs _ xs bb rest hbb']
            · cases he
          · cases he
        · cases he
    | arrayL hw' item =>
      rw [hw] at he hi
      cases hr : r.item with
      | scalar sz' => rw [hr] at hi; simp [itemCompat] at hi
      | array cnt elem => rw [hr] at hi; simp [itemCompat] at hi
      | arrayV cnt segs cmp => rw [hr] at hi; simp [itemCompat] at hi
      | arrayL cnt hw'' item' =>
        rw [hr] at hi
        simp only [itemCompat, Bool.and_eq_true, beq_iff_eq] at hi
        obtain ⟨⟨h1, h2⟩, hcnt⟩ := hi
        subst h1 h2
        simp only at he ⊢
        split at he
        · rename_i xs hxs
          split at he
          · rename_i bb hbb
            injection he with he
            injection he with he1 he2
            subst he1 he2
            have hcount := cnt_ok as o pre later view vfin w.id none cnt (bb ++ rest) item xs
              hassume hfin hinv hxs (by simp [fixedOk]) hcnt
            rw [hcount, parseRecsL_emitRecsL hw' item xs bb rest hbb]
          · cases he
        · cases he
  · rw [if_neg hcond] at he
    rw [if_neg hcond]
    injection he with he
    injection he with he1 he2
    subst he1 he2
    simp

theorem inv_step (ext : Ext) (o : Obj) (pre : List WF) (view : View) (w : WF) (b : Bytes) (v : Val)
    (hfresh : pre.any (fun p => p.id == w.id) = false)
    (hinv : Inv pre o view)
    (he : emitField ext o view w = some (b, v)) :
    Inv (w :: pre) o ((w.id, v) :: view) := by
  have hne : ∀ p ∈ pre, ∀ g, p.id = g → g ≠ w.id := by
    intro p hpp g hid heq
    have : pre.any (fun p => p.id == w.id) = true := by
      simp only [List.any_eq_true, beq_iff_eq]
      exact ⟨p, hpp, by rw [hid, heq]⟩
    rw [hfresh] at this
    cases this
  constructor
  · intro p hp g arr a bq hcf
    obtain ⟨hid, hcn, sz, hit⟩ := isCountFor_spec hcf
    rcases List.mem_cons.mp hp with hpw | hpp
    · subst hpw
      unfold emitField at he
      rw [hcn, hit] at he
      simp only [condHolds, if_true, srcVal] at he
      split at he
      · rename_i n hn
        split at hn
        · rename_i xs hxs
          injection hn with hn
          split at he
          · injection he with he
            injection he with he1 he2
            subst he2 hid
            refine ⟨xs, hxs, ?_⟩
            rw [numAt_cons_self, hn]
          · cases he
        · cases hn
      · cases he
    · obtain ⟨xs, hx1, hx2⟩ := hinv.1 p hpp g arr a bq hcf
      refine ⟨xs, hx1, ?_⟩
      rw [numAt_cons_ne _ _ _ _ (hne p hpp g hid), hx2]
  · intro p hp g hpf
    obtain ⟨hid, hcn, sz, hit⟩ := isPlainField_spec hpf
    rcases List.mem_cons.mp hp with hpw | hpp
    · subst hpw
      unfold emitField at he
      rw [hcn, hit] at he
      simp only [condHolds, if_true, srcVal] at he
      split at he
      · rename_i n hn
        split at hn
        · rename_i m hm
          injection hn with hn
          split at he
          · injection he with he
            injection he with he1 he2
            subst he2 hid
            rw [numAt_cons_self, hm, hn]
          · cases he
        · cases hn
      · cases he
    · rw [numAt_cons_ne _ _ _ _ (hne p hpp g hid)]
      exact hinv.2 p hpp g hpf

/-- `emit` only adds entries for the statements it runs -/
theorem emit_lookup_other (ext : Ext) (o : Obj) : ∀ (ws : List WF) (view : View) (bytes : Bytes) (view' : View),
    emit ext o ws view = some (bytes, view') →
    ∀ g, (∀ p ∈ ws, p.id ≠ g) → List.lookup g view' = List.lookup g view
  | [], view, bytes, view', he, g, hg => by
    simp only [emit] at he
    injection he with he
    injection he with _ he2
    rw [he2]
  | w :: ws, view, bytes, view', he, g, hg => by
    simp only [emit] at he
    split at he
    · cases he
    · rename_i b v hf
      split at he
      · cases he
      · rename_i bs view'' hrec
        injection he with he
        injection he with _ he2
        subst he2
        rw [emit_lookup_other ext o ws _ bs view'' hrec g (fun p hp => hg p (List.mem_cons_of_mem _ hp))]
        have hne : g ≠ w.id := fun h => hg w (List.mem_cons_self ..) h.symm
        have : (g == w.id) = false := by simpa using hne
        simp [List.lookup, this]

theorem parse_emit_aux (ext : Ext) (as : List Assume) (o : Obj) :
    ∀ (ws : List WF) (rs : List RF) (pre : List WF)
    (view : View) (bytes : Bytes) (view' : View) (rest : Bytes),
    (∀ x ∈ as, x.holds o view') →
    compatAux as pre ws rs = true → Inv pre o view →
    emit ext o ws view = some (bytes, view') →
    (usesRest rs = true → rest = []) →
    parse rs view (bytes ++ rest) = some (view', rest)
  | [], [], pre, view, bytes, view', rest, hassume, hc, hinv, he, hr => by
    simp only [emit] at he
    injection he with he
    injection he with he1 he2
    subst he1 he2
    simp [parse]
  | [], _ :: _, pre, view, bytes, view', rest, hassume, hc, hinv, he, hr => by simp [compatAux] at hc
  | _ :: _, [], pre, view, bytes, view', rest, hassume, hc, hinv, he, hr => by simp [compatAux] at hc
  | w :: ws, r :: rs, pre, view, bytes, view', rest, hassume, hc, hinv, he, hr => by
    simp only [compatAux, Bool.and_eq_true, beq_iff_eq, Bool.not_eq_true'] at hc
    obtain ⟨⟨⟨⟨⟨hid, hcond⟩, hfresh⟩, hcok⟩, hitem⟩, htail⟩ := hc
    simp only [emit] at he
    split at he
    · cases he
    · rename_i b v hf
      split at he
      · cases he
      · rename_i bs view'' hrec
        injection he with he
        injection he with he1 he2
        subst he1 he2
        have hrest_tail : usesRest rs = true → rest = [] := by
          intro h
          apply hr
          simp only [usesRest, List.any_cons, Bool.or_eq_true]
          exact Or.inr h
        have hfin : ∀ g, g ≠ w.id → (∀ p ∈ ws, p.id ≠ g) → numAt view'' g = numAt view g := by
          intro g hg hl
          apply numAt_congr
          rw [emit_lookup_other ext o ws _ bs view'' hrec g hl]
          have : (g == w.id) = false := by simpa using hg
          simp [List.lookup, this]
        have hfield := parseField_emitField ext as o pre ws view view'' w r b (bs ++ rest) v hassume hfin hcond hitem
          hinv hf
          (by
            intro hri
            have h1 : rest = [] := by
              apply hr
              simp only [usesRest, List.any_cons, Bool.or_eq_true]
              left
              revert hri
              cases r.item with
              | scalar _ => simp [isRestItem]
              | array cnt _ => cases cnt <;> simp [isRestItem]
              | arrayV cnt _ _ => simp [isRestItem]
              | arrayL cnt _ _ => simp [isRestItem]
            subst h1
            -- a `.rest` array is compatible only as the last statement
            have hlast : ws = [] := by
              revert hitem hri
              cases hw : w.item with
              | scalar _ _ => cases r.item <;> simp [itemCompat, isRestItem]
              | arrayV _ _ _ => cases r.item <;> simp [itemCompat, isRestItem]
              | arrayL _ _ => cases r.item <;> simp [itemCompat, isRestItem]
              | array elem fixed =>
                cases r.item with
                | scalar _ => simp [isRestItem]
                | arrayV _ _ _ => simp [isRestItem]
                | arrayL _ _ _ => simp [isRestItem]
                | array cnt _ =>
                  cases cnt <;> simp [itemCompat, isRestItem]
                  intro _ h _
                  exact h
            subst hlast
            simp only [emit] at hrec
            injection hrec with hrec
            injection hrec with h1 _
            simp [← h1])
        have hinv' := inv_step ext o pre view w b v hfresh hinv hf
        have ih := parse_emit_aux ext as o ws rs (w :: pre) ((w.id, v) :: view) bs view'' rest hassume htail hinv' hrec
          hrest_tail
        rw [List.append_assoc]
        simp only [parse, hfield]
        rw [← hid]
        exact ih

/-- the core: from any initial view `args` (the reader's external arguments; `[]` for `FontRead`) -/
theorem read_write_core (ext : Ext) (as : List Assume) (ws : List WF) (rs : List RF) (o : Obj)
    (args : View) (bytes rest : Bytes) (view : View)
    (hc : compatU as ws rs = true)
    (hassume : ∀ x ∈ as, x.holds o view)
    (he : emit ext o ws args = some (bytes, view))
    (hr : usesRest rs = true → rest = []) :
    parse rs args (bytes ++ rest) = some (view, rest) := by
  apply parse_emit_aux ext as o ws rs [] args bytes view rest hassume hc _ he hr
  constructor
  · intro p hp
    cases hp
  · intro p hp
    cases hp

/-! ## the owned value -/

theorem compatAux_wfW (as : List Assume) : ∀ (ws : List WF) (rs : List RF) (pre : List WF),
    compatAux as pre ws rs = true → wfW pre ws = true
  | [], [], pre, h => by simp [wfW]
  | [], _ :: _, pre, h => by simp [compatAux] at h
  | _ :: _, [], pre, h => by simp [compatAux] at h
  | w :: ws, r :: rs, pre, h => by
    simp only [compatAux, Bool.and_eq_true] at h
    obtain ⟨⟨⟨⟨⟨hid, hcond⟩, hfresh⟩, hcok⟩, hitem⟩, htail⟩ := h
    simp only [wfW, Bool.and_eq_true]
    exact ⟨⟨hfresh, hcok⟩, compatAux_wfW as ws rs (w :: pre) htail⟩

theorem lookup_cons_ne (view : View) (f g : Nat) (v : Val) (h : g ≠ f) :
    List.lookup g ((f, v) :: view) = List.lookup g view := by
  have : (g == f) = false := by simpa using h
  simp [List.lookup, this]

/-- ids of `ws` are not in `pre` (consequence of `wfW`) -/
theorem wfW_fresh : ∀ (ws : List WF) (pre : List WF), wfW pre ws = true →
    ∀ w ∈ ws, ∀ p ∈ pre, p.id ≠ w.id
  | [], pre, h, w, hw, p, hp => by cases hw
  | w0 :: ws, pre, h, w, hw, p, hp => by
    simp only [wfW, Bool.and_eq_true, Bool.not_eq_true'] at h
    obtain ⟨⟨hfresh, hcok⟩, htail⟩ := h
    rcases List.mem_cons.mp hw with hw | hw
    · subst hw
      intro heq
      have : pre.any (fun p => p.id == w.id) = true := by
        simp only [List.any_eq_true, beq_iff_eq]
        exact ⟨p, hp, heq⟩
      rw [hfresh] at this
      cases this
    · exact wfW_fresh ws (w0 :: pre) htail w hw p (List.mem_cons_of_mem _ hp)

theorem condHolds_congr (view view' : View) (c : Option (Nat × Cond))
    (h : ∀ vf cc, c = some (vf, cc) → List.lookup vf view' = List.lookup vf view) :
    condHolds view' c = condHolds view c := by
  cases c with
  | none => rfl
  | some p =>
    obtain ⟨vf, cc⟩ := p
    have := h vf cc rfl
    simp only [condHolds, numAt, this]

/-- what `emitField` records for an owned statement -/
theorem emitField_owned (ext : Ext) (o : Obj) (view : View) (w : WF) (b : Bytes) (v : Val)
    (how : w.owned = true) (he : emitField ext o view w = some (b, v)) :
    v = if condHolds view w.cond then o.get w.id else .absent := by
  unfold emitField at he
  by_cases hcond : condHolds view w.cond = true
  · rw [if_pos hcond] at he
    rw [if_pos hcond]
    cases hw : w.item with
    | scalar src sz =>
      rw [hw] at he
      cases src with
      | field =>
        simp only [srcVal] at he
        split at he
        · rename_i n hn
          split at hn
          · rename_i m hm
            injection hn with hn
            split at he
            · injection he with he
              injection he with _ he2
              rw [← he2, hm, hn]
            · cases he
          · cases hn
        · cases he
      | const _ => simp [WF.owned, hw] at how
      | count _ _ _ => simp [WF.owned, hw] at how
      | computed _ => simp [WF.owned, hw] at how
    | array elem fixed =>
      rw [hw] at he
      simp only at he
      split at he
      · rename_i xs hxs
        split at he
        · split at he
          · injection he with he
            injection he with _ he2
            rw [← he2, hxs]
          · cases he
        · cases he
      · cases he
    | arrayV wpre tail fixed =>
      rw [hw] at he
      simp only at he
      split at he
      · rename_i xs hxs
        split at he
        · split at he
          · injection he with he
            injection he with _ he2
            rw [← he2, hxs]
          · cases he
        · cases he
      · cases he
    | arrayL hw' item =>
      rw [hw] at he
      simp only at he
      split at he
      · rename_i xs hxs
        split at he
        · injection he with he
          injection he with _ he2
          rw [← he2, hxs]
        · cases he
      · cases he
  · rw [if_neg hcond] at he
    rw [if_neg hcond]
    injection he with he
    injection he with _ he2
    exact he2.symm

theorem emit_view (ext : Ext) (o : Obj) : ∀ (ws : List WF) (pre : List WF) (view : View) (bytes : Bytes)
    (view' : View), wfW pre ws = true → emit ext o ws view = some (bytes, view') →
    (∀ f, (∀ w ∈ ws, w.id ≠ f) → List.lookup f view' = List.lookup f view) ∧
    (∀ w ∈ ws, w.owned = true →
      List.lookup w.id view' = some (if condHolds view' w.cond then o.get w.id else .absent))
  | [], pre, view, bytes, view', hwf, he => by
    simp only [emit] at he
    injection he with he
    injection he with _ he2
    subst he2
    exact ⟨fun _ _ => rfl, fun w hw => by cases hw⟩
  | w :: ws, pre, view, bytes, view', hwf, he => by
    simp only [wfW, Bool.and_eq_true, Bool.not_eq_true'] at hwf
    obtain ⟨⟨hfresh, hcok⟩, htail⟩ := hwf
    simp only [emit] at he
    split at he
    · cases he
    · rename_i b v hf
      split at he
      · cases he
      · rename_i bs view'' hrec
        injection he with he
        injection he with _ he2
        subst he2
        obtain ⟨iha, ihb⟩ := emit_view ext o ws (w :: pre) ((w.id, v) :: view) bs view'' htail hrec
        have hfr := wfW_fresh ws (w :: pre) htail
        constructor
        · intro f hf'
          rw [iha f (fun w' hw' => hf' w' (List.mem_cons_of_mem _ hw'))]
          exact lookup_cons_ne view w.id f v (fun h => hf' w (List.mem_cons_self ..) h.symm)
        · intro w' hw' how
          rcases List.mem_cons.mp hw' with hw' | hw'
          · subst hw'
            have h1 : List.lookup w'.id view'' = some v := by
              rw [iha w'.id (fun w2 hw2 => (hfr w2 hw2 w' (List.mem_cons_self ..)).symm)]
              simp [List.lookup]
            rw [h1, emitField_owned ext o view w' b v how hf]
            have hcc : condHolds view'' w'.cond = condHolds view w'.cond := by
              apply condHolds_congr view view'' w'.cond
              intro vf cc hc
              rw [hc] at hcok
              simp only [condOk, List.any_eq_true, beq_iff_eq] at hcok
              obtain ⟨p, hp, hpid⟩ := hcok
              have hne : vf ≠ w'.id := by
                intro heq
                have : pre.any (fun p => p.id == w'.id) = true := by
                  simp only [List.any_eq_true, beq_iff_eq]
                  exact ⟨p, hp, by rw [hpid, heq]⟩
                rw [hfresh] at this
                cases this
              rw [iha vf (fun w2 hw2 => by
                have := hfr w2 hw2 p (List.mem_cons_of_mem _ hp)
                rw [hpid] at this
                exact fun h => this h.symm)]
              exact lookup_cons_ne view w'.id vf v hne
            rw [hcc]
          · exact ihb w' hw' how

/-- an entry of the initial view (an external argument) that no statement overwrites is still there at the end -/
theorem emit_numAt_arg (ext : Ext) (o : Obj) (ws : List WF) (args : View) (bytes : Bytes) (view : View) (g : Nat)
    (he : emit ext o ws args = some (bytes, view)) (hg : ws.all (fun p => p.id != g) = true) :
    numAt view g = numAt args g := by
  apply numAt_congr
  apply emit_lookup_other ext o ws args bytes view he g
  intro p hp
  have := List.all_eq_true.mp hg p hp
  simpa using this

/-! ## format enums -/

theorem enumCompat_mem (hw : Nat) : ∀ (vs : List Variant) (v : Variant), enumCompat hw vs = true → v ∈ vs →
    startsWithFormat hw v = true ∧ compatU v.as v.w v.r = true
  | [], v, _, hv => by cases hv
  | v0 :: vs, v, h, hv => by
    simp only [enumCompat, Bool.and_eq_true] at h
    rcases List.mem_cons.mp hv with hv | hv
    · subst hv
      exact ⟨h.1.1.1, h.1.1.2⟩
    · exact enumCompat_mem hw vs v h.2 hv

/-- the reader's `match format` selects the variant whose constant was written -/
theorem enumCompat_find (hw : Nat) : ∀ (vs : List Variant) (v : Variant), enumCompat hw vs = true → v ∈ vs →
    vs.find? (fun v' => v'.fmt == v.fmt) = some v
  | [], v, _, hv => by cases hv
  | v0 :: vs, v, h, hv => by
    simp only [enumCompat, Bool.and_eq_true, Bool.not_eq_true', List.any_eq_false, beq_iff_eq] at h
    rcases List.mem_cons.mp hv with hv | hv
    · subst hv
      simp [List.find?]
    · have hne : (v0.fmt == v.fmt) = false := by
        have := h.1.2 v hv
        simp only [beq_eq_false_iff_ne, ne_eq]
        exact fun h' => this h'.symm
      simp only [List.find?, hne]
      exact enumCompat_find hw vs v h.2 hv

/-- a writer that starts with its format constant produces bytes that start with it -/
theorem emit_startsWithFormat (ext : Ext) (hw : Nat) (v : Variant) (o : Obj) (args : View) (bytes : Bytes)
    (view : View) (hs : startsWithFormat hw v = true) (he : emit ext o v.w args = some (bytes, view)) :
    ∃ bs, bytes = be hw v.fmt ++ bs ∧ v.fmt < 256 ^ hw := by
  unfold startsWithFormat at hs
  split at hs
  · rename_i id c sz ws hw'
    simp only [Bool.and_eq_true, beq_iff_eq] at hs
    obtain ⟨h1, h2⟩ := hs
    subst h1 h2
    rw [hw'] at he
    simp only [emit, emitField, condHolds, if_true, srcVal] at he
    split at he
    · cases he
    · rename_i b vv hf
      split at hf
      · rename_i hlt
        injection hf with hf
        injection hf with hf1 _
        subst hf1
        split at he
        · cases he
        · rename_i bs view'' _
          injection he with he
          injection he with he1 _
          exact ⟨bs, he1.symm, hlt⟩
      · cases hf
  · cases hs

end FontVerif.C04
