/-
`OtRound` (write-fonts/src/round.rs) on the exact IEEE model: `floor(x + 0.5)` equals exact
"round half up" whenever the float addition `x + 0.5` does not round; analysis of the cases where
it does.
-/
import FontVerif.Lemmas.FixedConv
set_option linter.unusedVariables false
namespace FontVerif.FixedConv
open FontVerif FontVerif.Ieee

/-- exact `floor(x + 1/2)` of `x = ±m·2^e` ("round half up"). -/
def halfUp (neg : Bool) (m : Nat) (e : Int) : Int :=
  if e ≥ 0 then (if neg then -1 else 1) * ((m : Int) * 2 ^ e.toNat)
  else (2 * ((if neg then -1 else 1) * (m : Int)) + 2 ^ (-e).toNat) / (2 * 2 ^ (-e).toNat)

/-- the exact sum `x + 1/2` as an integer multiple of `2^(min e (-1))`. -/
theorem exactSum_half (s : Bool) (m : Nat) (e : Int) :
    exactSum s m e false 1 (-1) =
      if e ≥ 0 then ((if s then -1 else 1) * ((m : Int) * 2 ^ (e + 1).toNat) + 1, -1)
      else ((if s then -1 else 1) * (m : Int) + 2 ^ (-1 - e).toNat, e) := by
  unfold exactSum
  by_cases h : e ≥ 0
  · have h1 : ¬ e ≤ -1 := by omega
    have h2 : (e - -1).toNat = (e + 1).toNat := by omega
    simp [h, h1]
  · have h1 : e ≤ -1 := by omega
    simp [h, h1]

/-- the value of a finite float's floor, as an integer. -/
def floorInt (neg : Bool) (m : Nat) (e : Int) : Int :=
  if e ≥ 0 then (if neg then -1 else 1) * ((m : Int) * 2 ^ e.toNat)
  else ((if neg then -1 else 1) * (m : Int)) / 2 ^ (-e).toNat

theorem ceil_div (m G : Int) (hG : 0 < G) : (m + G - 1) / G = -((-m) / G) := by
  have h1 := Int.mul_ediv_add_emod (-m) G
  have h2 := Int.emod_nonneg (-m) (Int.ne_of_gt hG)
  have h3 := Int.emod_lt_of_pos (-m) hG
  generalize (-m) / G = q at *
  generalize (-m) % G = r at *
  have e1 : m + G - 1 = (G - 1 - r) + G * (-q) := by
    rw [Int.mul_neg]; omega
  rw [e1, Int.add_mul_ediv_left _ _ (by omega : G ≠ 0), Int.ediv_eq_zero_of_lt (by omega) (by omega)]
  omega

/-- `floor` of the model computes the integer floor; then the cast clamps it. -/
theorem toIntSat_floor (lo hi : Int) (hlh : lo ≤ 0 ∧ 0 ≤ hi) (neg : Bool) (m : Nat) (e : Int) :
    toIntSat lo hi (floor (.fin neg m e)) = clampI lo hi (floorInt neg m e) := by
  unfold floor floorInt
  by_cases h : e ≥ 0
  · simp only [h, if_true, toIntSat, clampI]
    cases neg <;> simp
  · simp only [h, if_false]
    have hG := int_pow_pos (-e).toNat
    cases neg
    · simp only [Bool.false_eq_true, if_false, toIntSat, clampI, Int.one_mul, ge_iff_le, Int.le_refl, if_true,
        Int.toNat_zero, Int.pow_zero, Int.mul_one]
      rw [Int.natCast_ediv, Int.natCast_pow]; rfl
    · simp only [if_true, toIntSat, clampI, ge_iff_le, Int.le_refl, Int.toNat_zero, Int.pow_zero, Int.mul_one]
      have : ((((m + 2 ^ (-e).toNat - 1) / 2 ^ (-e).toNat : Nat)) : Int) = -((-1 * (m : Int)) / 2 ^ (-e).toNat) := by
        have hGn : 1 ≤ 2 ^ (-e).toNat := two_pow_pos _
        rw [Int.natCast_ediv, Int.natCast_pow]
        have : ((m + 2 ^ (-e).toNat - 1 : Nat) : Int) = (m : Int) + (2 : Int) ^ (-e).toNat - 1 := by
          rw [int_two_pow]; omega
        rw [this]
        have := ceil_div (m : Int) ((2 : Int) ^ (-e).toNat) hG
        have e2 : (-1 : Int) * (m : Int) = -(m : Int) := by omega
        rw [e2]; exact this
      rw [this]; simp

/-- "`x + 0.5` is computed without rounding": the exact sum has at most `p` significant bits
(and is in the exponent range). -/
def AddHalfExact (f : Fmt) (neg : Bool) (m : Nat) (e : Int) : Prop :=
  (exactSum neg m e false 1 (-1)).1.natAbs < 2 ^ f.p ∧ f.emin ≤ (exactSum neg m e false 1 (-1)).2 ∧
    (exactSum neg m e false 1 (-1)).2 + (bitLen (exactSum neg m e false 1 (-1)).1.natAbs : Int) ≤ f.etop

theorem sgn_natAbs' (A : Int) : (if decide (A < 0) = true then (-1 : Int) else 1) * (A.natAbs : Int) = A := by
  by_cases h : A < 0 <;> simp [h] <;> omega

/-- integer floor of the exact sum `x + 1/2` is `halfUp`. -/
theorem floorInt_sum (neg : Bool) (m : Nat) (e : Int) :
    floorInt (decide ((exactSum neg m e false 1 (-1)).1 < 0)) (exactSum neg m e false 1 (-1)).1.natAbs
      (exactSum neg m e false 1 (-1)).2 = halfUp neg m e := by
  rw [exactSum_half]
  unfold floorInt halfUp
  by_cases h : e ≥ 0
  · simp only [h, if_true]
    have h1 : ¬ ((-1 : Int) ≥ 0) := by omega
    simp only [h1, if_false, sgn_natAbs']
    have h2 : (e + 1).toNat = e.toNat + 1 := by omega
    rw [h2, Int.pow_succ]
    have : (-(-1 : Int)).toNat = 1 := by decide
    rw [this]
    rw [← Int.mul_assoc (m : Int)]
    generalize (m : Int) * 2 ^ e.toNat = X
    cases neg <;> simp <;> omega
  · simp only [h, if_false, sgn_natAbs']
    have hH := int_pow_pos (-1 - e).toNat
    have h2 : (-e).toNat = (-1 - e).toNat + 1 := by omega
    rw [h2, Int.pow_succ]
    generalize (2 : Int) ^ (-1 - e).toNat = H at *
    generalize (if neg = true then (-1 : Int) else 1) * (m : Int) = M
    have e1 : 2 * M + H * 2 = (M + H) * 2 := by omega
    have e2 : 2 * (H * 2) = (H * 2) * 2 := by omega
    rw [e1, e2, Int.mul_ediv_mul_of_pos_left _ _ (by omega : (0 : Int) < 2)]

/-- `ot_round` to an integer type, when `x + 0.5` is exact: round half up, then saturate. -/
theorem otRoundInt_of_exact (f : Fmt) (lo hi : Int) (hlh : lo ≤ 0 ∧ 0 ≤ hi) (neg : Bool) (m : Nat)
    (e : Int) (hex : AddHalfExact f neg m e) :
    otRoundInt f lo hi (.fin neg m e) = clampI lo hi (halfUp neg m e) := by
  unfold otRoundInt otRoundF half add
  simp only []
  obtain ⟨h1, h2, h3⟩ := hex
  by_cases hA : (exactSum neg m e false 1 (-1)).1 = 0
  · simp only [hA, if_true]
    have := floorInt_sum neg m e
    rw [hA] at this
    rw [← this]
    simp [floor, floorInt, toIntSat, clampI]
  · simp only [hA, if_false]
    rw [roundNE_exact f _ _ _ h1 h2 h3]
    have hn : (exactSum neg m e false 1 (-1)).1.natAbs ≠ 0 := by omega
    simp only [hn, if_false]
    rw [toIntSat_floor lo hi hlh, floorInt_sum]

/-- a simple sufficient condition for `x + 0.5` to be exact: the exact sum fits `p` bits. -/
theorem addHalfExact_of_bound (f : Fmt) (hp : (f.p : Int) ≤ f.etop) (hemin : f.emin ≤ -1)
    (neg : Bool) (m : Nat) (e : Int) (he : f.emin ≤ e)
    (hb : (if e ≥ 0 then m * 2 ^ (e + 1).toNat + 1 else m + 2 ^ (-1 - e).toNat) < 2 ^ f.p) :
    AddHalfExact f neg m e := by
  unfold AddHalfExact
  rw [exactSum_half]
  by_cases h : e ≥ 0
  · simp only [h, if_true] at hb ⊢
    have hcast : ((m * 2 ^ (e + 1).toNat : Nat) : Int) = (m : Int) * 2 ^ (e + 1).toNat := by
      rw [Int.natCast_mul, int_two_pow]
    generalize hX : (m : Int) * 2 ^ (e + 1).toNat = X at *
    generalize m * 2 ^ (e + 1).toNat = Xn at *
    have hA : ((if neg = true then (-1 : Int) else 1) * X + 1).natAbs < 2 ^ f.p := by
      cases neg <;> simp <;> omega
    have hL := bitLen_le_of_lt hA
    exact ⟨hA, by omega, by omega⟩
  · simp only [h, if_false] at hb ⊢
    have hcast : ((2 ^ (-1 - e).toNat : Nat) : Int) = (2 : Int) ^ (-1 - e).toNat := (int_two_pow _).symm
    generalize (2 : Int) ^ (-1 - e).toNat = H at *
    generalize 2 ^ (-1 - e).toNat = Hn at *
    have hA : ((if neg = true then (-1 : Int) else 1) * (m : Int) + H).natAbs < 2 ^ f.p := by
      cases neg <;> simp <;> omega
    have hL := bitLen_le_of_lt hA
    exact ⟨hA, he, by omega⟩

/-- `floor` of a float with a negative exponent, as sign and magnitude of the integer floor. -/
theorem floor_value (s : Bool) (m : Nat) (e : Int) (he : e < 0) :
    floor (.fin s m e) = .fin s (floorInt s m e).natAbs 0 ∧
      (if s then -1 else 1) * ((floorInt s m e).natAbs : Int) = floorInt s m e := by
  have hG := int_pow_pos (-e).toNat
  have hGn : 1 ≤ 2 ^ (-e).toNat := two_pow_pos _
  have hne : ¬ e ≥ 0 := by omega
  unfold floor floorInt
  simp only [hne, if_false]
  cases s
  · simp only [Bool.false_eq_true, if_false, Int.one_mul]
    have h0 : 0 ≤ (m : Int) / 2 ^ (-e).toNat := Int.ediv_nonneg (Int.natCast_nonneg m) (by omega)
    have : ((m / 2 ^ (-e).toNat : Nat) : Int) = (m : Int) / 2 ^ (-e).toNat := by
      rw [Int.natCast_ediv, int_two_pow]
    constructor
    · congr 1 <;> omega
    · omega
  · simp only [if_true]
    have e2 : (-1 : Int) * (m : Int) = -(m : Int) := by omega
    rw [e2]
    have hc := ceil_div (m : Int) ((2 : Int) ^ (-e).toNat) hG
    have h0 : 0 ≤ ((m : Int) + 2 ^ (-e).toNat - 1) / 2 ^ (-e).toNat := Int.ediv_nonneg (by omega) (by omega)
    have : (((m + 2 ^ (-e).toNat - 1) / 2 ^ (-e).toNat : Nat) : Int)
        = ((m : Int) + 2 ^ (-e).toNat - 1) / 2 ^ (-e).toNat := by
      rw [Int.natCast_ediv, int_two_pow]
      congr 1; omega
    constructor
    · congr 1 <;> omega
    · omega

/-- `ot_round` to the float type itself, when `x + 0.5` is exact: the integer `halfUp` exactly. -/
theorem otRoundF_of_exact (f : Fmt) (neg : Bool) (m : Nat) (e : Int) (hex : AddHalfExact f neg m e) :
    ∃ s n, otRoundF f (.fin neg m e) = .fin s n 0 ∧ (if s then -1 else 1) * (n : Int) = halfUp neg m e := by
  unfold otRoundF half add
  simp only []
  obtain ⟨h1, h2, h3⟩ := hex
  have hneg : (exactSum neg m e false 1 (-1)).2 < 0 := by
    rw [exactSum_half]; split <;> simp <;> omega
  by_cases hA : (exactSum neg m e false 1 (-1)).1 = 0
  · simp only [hA, if_true]
    have := floorInt_sum neg m e
    rw [hA] at this
    rw [← this]
    refine ⟨false, 0, ?_, ?_⟩
    · simp [floor]
    · simp [floorInt]
  · simp only [hA, if_false]
    rw [roundNE_exact f _ _ _ h1 h2 h3]
    have hn : (exactSum neg m e false 1 (-1)).1.natAbs ≠ 0 := by omega
    simp only [hn, if_false]
    have hv := floor_value (decide ((exactSum neg m e false 1 (-1)).1 < 0))
      (exactSum neg m e false 1 (-1)).1.natAbs _ hneg
    rw [floorInt_sum] at hv
    exact ⟨_, _, hv.1, hv.2⟩

/-- the rounded significand. -/
def rnd (a s : Nat) : Nat :=
  if 2 * (a % 2 ^ s) > 2 ^ s ∨ (2 * (a % 2 ^ s) = 2 ^ s ∧ a / 2 ^ s % 2 = 1) then a / 2 ^ s + 1 else a / 2 ^ s

/-- `roundNE` when the magnitude has more than `p` significant bits. -/
theorem roundNE_inexact (f : Fmt) (neg : Bool) (a : Nat) (e : Int) (hL : f.p < bitLen a)
    (he : f.emin ≤ e) :
    roundNE f neg a e =
      if e + ((bitLen a - f.p : Nat) : Int) + (bitLen (rnd a (bitLen a - f.p)) : Int) > f.etop then .inf neg
      else .fin neg (rnd a (bitLen a - f.p)) (e + ((bitLen a - f.p : Nat) : Int)) := by
  have ha : a ≠ 0 := by intro h; subst h; rw [bitLen_zero] at hL; omega
  unfold roundNE rnd
  simp only [ha, if_false]
  have hq : (if e + (bitLen a : Int) - (f.p : Int) < f.emin then f.emin
      else e + (bitLen a : Int) - (f.p : Int)) = e + ((bitLen a - f.p : Nat) : Int) := by
    split <;> omega
  simp only [hq]
  have h1 : ¬ (e + ((bitLen a - f.p : Nat) : Int) ≤ e) := by omega
  have h2 : (e + ((bitLen a - f.p : Nat) : Int) - e).toNat = bitLen a - f.p := by omega
  simp only [h1, if_false, h2]

/-- bounds on the truncated significand: exactly `p` bits. -/
theorem div_bounds (a p : Nat) (hp : 1 ≤ p) (hL : p < bitLen a) :
    2 ^ (p - 1) ≤ a / 2 ^ (bitLen a - p) ∧ a / 2 ^ (bitLen a - p) < 2 ^ p := by
  have ha : a ≠ 0 := by intro h; subst h; rw [bitLen_zero] at hL; omega
  have h1 := pow_bitLen_le ha
  have h2 := lt_pow_bitLen a
  generalize bitLen a = L at *
  have e1 : 2 ^ (L - 1) = 2 ^ (p - 1) * 2 ^ (L - p) := by rw [← Nat.pow_add]; congr 1; omega
  have e2 : 2 ^ L = 2 ^ p * 2 ^ (L - p) := by rw [← Nat.pow_add]; congr 1; omega
  have hpos := two_pow_pos (L - p)
  constructor
  · rw [Nat.le_div_iff_mul_le hpos]; omega
  · rw [Nat.div_lt_iff_lt_mul hpos]; omega

theorem rnd_bounds (a p : Nat) (hp : 1 ≤ p) (hL : p < bitLen a) :
    2 ^ (p - 1) ≤ rnd a (bitLen a - p) ∧ rnd a (bitLen a - p) ≤ 2 ^ p := by
  have := div_bounds a p hp hL
  unfold rnd; split <;> omega

structure FmtOk (f : Fmt) : Prop where
  hp2 : 2 ≤ f.p
  hpt : (f.p : Int) + 1 ≤ f.etop
  hemin : f.emin ≤ -1

/-- if `x + 0.5` is not exact, the exact sum has more than `p` significant bits. -/
theorem bitLen_of_not_exact (f : Fmt) (ok : FmtOk f) (neg : Bool) (m : Nat) (e : Int)
    (he : f.emin ≤ e) (hne : ¬ AddHalfExact f neg m e) :
    f.p < bitLen (exactSum neg m e false 1 (-1)).1.natAbs := by
  obtain ⟨hp2, hpt, hemin⟩ := ok
  apply Classical.byContradiction; intro hc
  apply hne
  have hlt := lt_of_bitLen_le (Nat.le_of_not_lt hc)
  have h2 : (exactSum neg m e false 1 (-1)).2 = if e ≥ 0 then -1 else e := by
    rw [exactSum_half]; split <;> rfl
  refine ⟨hlt, ?_, ?_⟩
  · rw [h2]; split <;> omega
  · rw [h2]; split <;> omega

theorem pow_le_of_lt_bitLen {a p : Nat} (h : p < bitLen a) : 2 ^ p ≤ a := by
  apply Classical.byContradiction; intro hc
  have := bitLen_le_of_lt (Nat.lt_of_not_le hc); omega

theorem two_pow_pred (p : Nat) (hp : 1 ≤ p) : 2 ^ p = 2 * 2 ^ (p - 1) := by
  have : p = (p - 1) + 1 := by omega
  rw [this, Nat.pow_succ]; simp; omega

/-- the cast of a rounded value of magnitude `≥ 2^(p-1)` with a non-negative exponent saturates. -/
theorem toIntSat_big (lo hi : Int) (P : Nat) (hhi : hi < P) (hlo : -(P : Int) ≤ lo) (hlh : lo ≤ 0 ∧ 0 ≤ hi)
    (sg : Bool) (n : Nat) (k : Int) (hk : 0 ≤ k) (hn : P ≤ n) :
    toIntSat lo hi (floor (.fin sg n k)) = if sg then lo else hi := by
  have h0 : k ≥ 0 := hk
  simp only [floor, h0, if_true, toIntSat]
  have hpw := int_pow_pos k.toNat
  have : (n : Int) * 1 ≤ (n : Int) * 2 ^ k.toNat := Int.mul_le_mul_of_nonneg_left (by omega) (by omega)
  generalize (n : Int) * 2 ^ k.toNat = T at *
  cases sg <;> simp <;> repeat' split
  all_goals omega

/-- case `e ≥ 0` (`x` is an integer of magnitude `≥ 2^(p-1)`): both sides saturate. -/
theorem otRound_case_int (f : Fmt) (ok : FmtOk f) (lo hi : Int) (hlh : lo ≤ 0 ∧ 0 ≤ hi)
    (hhi : hi < ((2 ^ (f.p - 1) : Nat) : Int)) (hlo : -((2 ^ (f.p - 1) : Nat) : Int) ≤ lo)
    (neg : Bool) (m : Nat) (e : Int) (he : f.emin ≤ e) (hge : e ≥ 0)
    (hL : f.p < bitLen (exactSum neg m e false 1 (-1)).1.natAbs) :
    otRoundInt f lo hi (.fin neg m e) = clampI lo hi (halfUp neg m e) := by
  obtain ⟨hp2, hpt, hemin⟩ := ok
  have hb := rnd_bounds _ f.p (by omega) hL
  have hbig := pow_le_of_lt_bitLen hL
  have hpp := two_pow_pred f.p (by omega)
  unfold otRoundInt otRoundF half add halfUp
  simp only [hge, if_true]
  have hA := exactSum_half neg m e
  simp only [hge, if_true] at hA
  have hY : (m : Int) * 2 ^ (e + 1).toNat = 2 * ((m : Int) * 2 ^ e.toNat) := by
    have : (e + 1).toNat = e.toNat + 1 := by omega
    rw [this, Int.pow_succ, ← Int.mul_assoc]; omega
  have hX0 : 0 ≤ (m : Int) * 2 ^ e.toNat :=
    Int.mul_nonneg (Int.natCast_nonneg m) (Int.le_of_lt (int_pow_pos _))
  rw [hY] at hA
  generalize hXd : (m : Int) * 2 ^ e.toNat = X at *
  have hne : (exactSum neg m e false 1 (-1)).1 ≠ 0 := by
    intro h0; rw [h0] at hbig; simp at hbig
  have hsgn : decide ((exactSum neg m e false 1 (-1)).1 < 0) = neg := by
    rw [hA] at hbig ⊢
    cases neg <;> simp at hbig ⊢ <;> omega
  have hA2 : (exactSum neg m e false 1 (-1)).2 = -1 := by rw [hA]
  simp only [hne, if_false, hsgn]
  rw [roundNE_inexact f neg _ _ hL (by omega), hA2]
  have hXbig : ((2 ^ (f.p - 1) : Nat) : Int) ≤ X := by
    rw [hA] at hbig
    cases neg <;> simp at hbig <;> omega
  have hrhs : clampI lo hi ((if neg = true then -1 else 1) * X) = if neg then lo else hi := by
    unfold clampI
    cases neg <;> simp <;> repeat' split
    all_goals omega
  rw [hrhs]
  split
  · simp [floor, toIntSat]
  · exact toIntSat_big lo hi _ hhi hlo hlh neg _ _ (by omega) hb.1

theorem bitLen_le_of_lt' {n p : Nat} (h : n < 2 ^ p) : bitLen n ≤ p := bitLen_le_of_lt h

/-- floor and cast of a positive value below one. -/
theorem toIntSat_small (lo hi : Int) (hlh : lo ≤ 0 ∧ 0 ≤ hi) (n : Nat) (k : Int) (hk : k < 0)
    (hn : n < 2 ^ (-k).toNat) : toIntSat lo hi (floor (.fin false n k)) = 0 := by
  have h0 : ¬ k ≥ 0 := by omega
  simp only [floor, h0, if_false, Bool.false_eq_true]
  rw [Nat.div_eq_of_lt hn]
  simp [toIntSat]; omega

/-- case `e ≤ -1`, negative `x` with `|x| < 1/2` and an inexact sum: both sides are 0. -/
theorem otRound_case_neg (f : Fmt) (ok : FmtOk f) (lo hi : Int) (hlh : lo ≤ 0 ∧ 0 ≤ hi)
    (m : Nat) (e : Int) (hm : m < 2 ^ f.p) (hm0 : m ≠ 0) (he : f.emin ≤ e) (hlt : e < 0)
    (hL : f.p < bitLen (exactSum true m e false 1 (-1)).1.natAbs) :
    otRoundInt f lo hi (.fin true m e) = clampI lo hi (halfUp true m e) := by
  obtain ⟨hp2, hpt, hemin⟩ := ok
  have hb := rnd_bounds _ f.p (by omega) hL
  have hbig := pow_le_of_lt_bitLen hL
  unfold otRoundInt otRoundF half add halfUp
  have hge : ¬ e ≥ 0 := by omega
  simp only [hge, if_false]
  have hA := exactSum_half true m e
  simp only [hge, if_false, if_true] at hA
  have hHn : ((2 ^ (-1 - e).toNat : Nat) : Int) = (2 : Int) ^ (-1 - e).toNat := (int_two_pow _).symm
  have hG : (2 : Int) ^ (-e).toNat = 2 * 2 ^ (-1 - e).toNat := by
    have : (-e).toNat = (-1 - e).toNat + 1 := by omega
    rw [this, Int.pow_succ]; omega
  have hGn : 2 ^ (-e).toNat = 2 * 2 ^ (-1 - e).toNat := by
    have : (-e).toNat = (-1 - e).toNat + 1 := by omega
    rw [this, Nat.pow_succ]; omega
  rw [hG]
  generalize hHd : (2 : Int) ^ (-1 - e).toNat = H at *
  generalize hHnd : 2 ^ (-1 - e).toNat = Hn at *
  -- the sum is positive: H > m
  rw [hA] at hbig
  have hpos : (m : Int) < H := by
    apply Classical.byContradiction; intro hc
    have : ((-1 : Int) * (m : Int) + H).natAbs < 2 ^ f.p := by omega
    omega
  have hne : (exactSum true m e false 1 (-1)).1 ≠ 0 := by rw [hA]; simp; omega
  have hsgn : decide ((exactSum true m e false 1 (-1)).1 < 0) = false := by rw [hA]; simp; omega
  have hA2 : (exactSum true m e false 1 (-1)).2 = e := by rw [hA]
  simp only [hne, if_false, hsgn]
  rw [roundNE_inexact f false _ _ hL (by omega), hA2]
  -- bit length of the sum: below H = 2^(-1-e)
  have hLle : bitLen (exactSum true m e false 1 (-1)).1.natAbs ≤ (-1 - e).toNat := by
    apply bitLen_le_of_lt; rw [hA, hHnd]; simp; omega
  have hn'L : bitLen (rnd (exactSum true m e false 1 (-1)).1.natAbs
      (bitLen (exactSum true m e false 1 (-1)).1.natAbs - f.p)) ≤ f.p + 1 := by
    apply bitLen_le_of_lt
    exact Nat.lt_of_le_of_lt hb.2 (Nat.pow_lt_pow_right (by decide) (by omega))
  generalize hLd : bitLen (exactSum true m e false 1 (-1)).1.natAbs = L at *
  generalize hn'd : rnd (exactSum true m e false 1 (-1)).1.natAbs (L - f.p) = n' at *
  have hno : ¬ (e + ((L - f.p : Nat) : Int) + (bitLen n' : Int) > f.etop) := by omega
  simp only [hno, if_false]
  rw [toIntSat_small lo hi hlh n' _ (by omega)]
  · -- right-hand side is 0
    have e1 : (2 * ((-1 : Int) * (m : Int)) + 2 * H) / (2 * (2 * H)) = 0 :=
      Int.ediv_eq_zero_of_lt (by omega) (by omega)
    simp only [if_true]
    rw [e1]; unfold clampI; repeat' split
    all_goals omega
  · -- n' ≤ 2^p < 2^(p+1) ≤ 2^(-(e+s))
    have : 2 ^ (f.p + 1) ≤ 2 ^ (-(e + ((L - f.p : Nat) : Int))).toNat :=
      Nat.pow_le_pow_right (by decide) (by omega)
    have : 2 ^ (f.p + 1) = 2 * 2 ^ f.p := by rw [Nat.pow_succ]; omega
    have := two_pow_pos f.p
    omega

theorem bitLen_eq {a k : Nat} (h1 : 2 ^ k ≤ a) (h2 : a < 2 ^ (k + 1)) : bitLen a = k + 1 := by
  have hle := bitLen_le_of_lt h2
  apply Classical.byContradiction; intro hc
  have : bitLen a ≤ k := by omega
  have := lt_of_bitLen_le this
  omega

/-- rounding up to `2^p` from a sum `m + H` with `m < H = 2^(L-1)`, `m < 2^p`, happens only for
`m = 2^p - 1`, `L = p + 1`. -/
theorem rnd_eq_pow (p m H s : Nat) (hp : 2 ≤ p) (hs : 1 ≤ s) (hH : 2 * H = 2 ^ p * 2 ^ s)
    (hm : m < 2 ^ p) (hr : rnd (m + H) s = 2 ^ p) (hn : (m + H) / 2 ^ s < 2 ^ p) :
    s = 1 ∧ m = 2 ^ p - 1 := by
  unfold rnd at hr
  have hP4 : 4 ≤ 2 ^ p := by
    have : 2 ^ 2 ≤ 2 ^ p := Nat.pow_le_pow_right (by decide) hp
    omega
  have hdm := Nat.div_add_mod (m + H) (2 ^ s)
  have hrlt := Nat.mod_lt (m + H) (two_pow_pos s)
  generalize hP : 2 ^ p = P at *
  generalize hn' : (m + H) / 2 ^ s = n at *
  generalize hr' : (m + H) % 2 ^ s = r at *
  split at hr
  · rename_i hc
    have hn1 : n = P - 1 := by omega
    have h2r : 2 ^ s ≤ 2 * r := by omega
    by_cases hs1 : s = 1
    · subst hs1
      simp at hH hdm h2r hrlt
      omega
    · exfalso
      have hS : 2 ^ s = 4 * 2 ^ (s - 2) := by
        have : s = (s - 2) + 2 := by omega
        rw [this, Nat.pow_add]; simp; omega
      have hU := two_pow_pos (s - 2)
      generalize 2 ^ (s - 2) = U at *
      rw [hS] at hH hdm h2r
      subst hn1
      have hW : P * (4 * U) = 4 * (P * U) := by rw [Nat.mul_left_comm]
      have hV : (P - 1) * U + U = P * U := by
        have : P = (P - 1) + 1 := by omega
        rw [this, Nat.add_mul]; simp
      have hV1 : (P - 1) * 1 ≤ (P - 1) * U := Nat.mul_le_mul_left _ hU
      have hX : 4 * U * (P - 1) = 4 * ((P - 1) * U) := by
        rw [Nat.mul_comm (4 * U), Nat.mul_left_comm]
      rw [hW] at hH
      rw [hX] at hdm
      generalize (P - 1) * U = V at *
      generalize P * U = W at *
      omega
  · omega

/-- case `e ≤ -1`, `0 ≤ x < 1/2` with an inexact sum (`x` tiny): the sum lies in `[1/2, 1)` and rounds
to a value below 1 — except for the largest float below one half. -/
theorem otRound_case_small (f : Fmt) (ok : FmtOk f) (lo hi : Int) (hlh : lo ≤ 0 ∧ 0 ≤ hi)
    (neg : Bool) (m : Nat) (e : Int) (hm : m < 2 ^ f.p) (he : f.emin ≤ e) (hlt : e < 0)
    (hsg : neg = false ∨ m = 0) (hmH : m < 2 ^ (-1 - e).toNat)
    (hL : f.p < bitLen (exactSum neg m e false 1 (-1)).1.natAbs)
    (hx : ¬ (m = 2 ^ f.p - 1 ∧ e = -((f.p : Int) + 1))) :
    otRoundInt f lo hi (.fin neg m e) = clampI lo hi (halfUp neg m e) := by
  obtain ⟨hp2, hpt, hemin⟩ := ok
  have hM : (if neg = true then (-1 : Int) else 1) * (m : Int) = (m : Int) := by
    rcases hsg with h | h
    · subst h; simp
    · subst h; simp
  unfold otRoundInt otRoundF half add halfUp
  have hge : ¬ e ≥ 0 := by omega
  simp only [hge, if_false]
  have hA := exactSum_half neg m e
  simp only [hge, if_false, hM] at hA
  rw [hM]
  have hHn : ((2 ^ (-1 - e).toNat : Nat) : Int) = (2 : Int) ^ (-1 - e).toNat := (int_two_pow _).symm
  have hG : (2 : Int) ^ (-e).toNat = 2 * 2 ^ (-1 - e).toNat := by
    have : (-e).toNat = (-1 - e).toNat + 1 := by omega
    rw [this, Int.pow_succ]; omega
  have hGn : 2 ^ ((-1 - e).toNat + 1) = 2 * 2 ^ (-1 - e).toNat := by
    rw [Nat.pow_succ]; omega
  rw [hG]
  have hHpos := two_pow_pos (-1 - e).toNat
  have hnat : (exactSum neg m e false 1 (-1)).1.natAbs = m + 2 ^ (-1 - e).toNat := by
    rw [hA]; simp only []; omega
  rw [hnat] at hL
  have hLeq : bitLen (m + 2 ^ (-1 - e).toNat) = (-1 - e).toNat + 1 := bitLen_eq (by omega) (by omega)
  have hne : (exactSum neg m e false 1 (-1)).1 ≠ 0 := by rw [hA]; simp only []; omega
  have hsgn : decide ((exactSum neg m e false 1 (-1)).1 < 0) = false := by rw [hA]; simp; omega
  have hA2 : (exactSum neg m e false 1 (-1)).2 = e := by rw [hA]
  simp only [hne, if_false, hsgn, hnat]
  rw [roundNE_inexact f false _ _ hL (by omega), hA2]
  have hb := rnd_bounds _ f.p (by omega) hL
  have hd := div_bounds _ f.p (by omega) hL
  rw [hLeq] at hb hd hL ⊢
  generalize hs : (-1 - e).toNat + 1 - f.p = s at *
  have h2H : 2 * 2 ^ (-1 - e).toNat = 2 ^ f.p * 2 ^ s := by
    rw [← hGn, ← Nat.pow_add]; congr 1; omega
  have hnp : rnd (m + 2 ^ (-1 - e).toNat) s ≠ 2 ^ f.p := by
    intro hc
    have := rnd_eq_pow f.p m _ s hp2 (by omega) h2H hm hc hd.2
    apply hx; constructor <;> omega
  have hes : e + (s : Int) = -(f.p : Int) := by omega
  rw [hes]
  generalize hn'd : rnd (m + 2 ^ (-1 - e).toNat) s = n' at *
  have hn'L : bitLen n' ≤ f.p := bitLen_le_of_lt (by omega)
  have hno : ¬ (-(f.p : Int) + (bitLen n' : Int) > f.etop) := by omega
  simp only [hno, if_false]
  rw [toIntSat_small lo hi hlh n' _ (by omega) (by simp; omega)]
  generalize (2 : Int) ^ (-1 - e).toNat = H at *
  generalize 2 ^ (-1 - e).toNat = Hn at *
  have e1 : (2 * (m : Int) + 2 * H) / (2 * (2 * H)) = 0 :=
    Int.ediv_eq_zero_of_lt (by omega) (by omega)
  rw [e1]; unfold clampI; repeat' split
  all_goals omega


/-- arithmetic core of the case `x ≥ 1/2` with an inexact sum: `A = m + H ∈ [P, P + H)`, `P = 2H·c`;
the sum rounded to an even multiple of 2, divided by `H`... has the same floor as `A / (2H)`. -/
theorem rnd_one_div (m H c : Nat) (hH : 2 ≤ H) (hc : 1 ≤ c) (hA1 : 2 * H * c ≤ m + H) (hA2 : m + H < 2 * H * c + H)
    (hHe : H % 2 = 0) :
    rnd (m + H) 1 / H = c ∧ (m + H) / (2 * H) = c := by
  have hQ : 2 * H * c = 2 * (H * c) := by rw [Nat.mul_assoc]
  rw [hQ] at hA1 hA2
  have hsucc : (c + 1) * H = H * c + H := by rw [Nat.add_mul, Nat.mul_comm]; simp
  have hsucc2 : (c + 1) * (2 * H) = 2 * (H * c) + 2 * H := by
    rw [Nat.add_mul, Nat.mul_comm c, Nat.mul_assoc]; simp
  have hcH : c * H = H * c := Nat.mul_comm _ _
  have hcH2 : c * (2 * H) = 2 * (H * c) := by rw [Nat.mul_comm c, Nat.mul_assoc]
  generalize hQd : H * c = Q at *
  constructor
  · apply Nat.div_eq_of_lt_le
    · rw [hcH]; unfold rnd; simp only [Nat.pow_one]; split <;> omega
    · rw [hsucc]; unfold rnd; simp only [Nat.pow_one]; split <;> omega
  · apply Nat.div_eq_of_lt_le
    · rw [hcH2]; omega
    · rw [hsucc2]; omega

/-- case `e ≤ -1`, `x ≥ 1/2` with an inexact sum: the sum has `p + 1` bits, the rounding moves it by
at most one unit of `2^e`, which never crosses an integer. -/
theorem otRound_case_big (f : Fmt) (ok : FmtOk f) (lo hi : Int) (hlh : lo ≤ 0 ∧ 0 ≤ hi)
    (m : Nat) (e : Int) (hm : m < 2 ^ f.p) (he : f.emin ≤ e) (hlt : e < 0)
    (hHm : 2 ^ (-1 - e).toNat ≤ m)
    (hL : f.p < bitLen (exactSum false m e false 1 (-1)).1.natAbs) :
    otRoundInt f lo hi (.fin false m e) = clampI lo hi (halfUp false m e) := by
  obtain ⟨hp2, hpt, hemin⟩ := ok
  unfold otRoundInt otRoundF half add
  have hge : ¬ e ≥ 0 := by omega
  have hA := exactSum_half false m e
  simp only [hge, if_false, Bool.false_eq_true, Int.one_mul] at hA
  have hHpos := two_pow_pos (-1 - e).toNat
  have hHn : ((2 ^ (-1 - e).toNat : Nat) : Int) = (2 : Int) ^ (-1 - e).toNat := (int_two_pow _).symm
  have hnat : (exactSum false m e false 1 (-1)).1.natAbs = m + 2 ^ (-1 - e).toNat := by
    rw [hA]; simp only []; omega
  rw [hnat] at hL
  have hbig := pow_le_of_lt_bitLen hL
  have hP2 : 2 ^ (f.p + 1) = 2 * 2 ^ f.p := by rw [Nat.pow_succ]; omega
  have hLeq : bitLen (m + 2 ^ (-1 - e).toNat) = f.p + 1 := bitLen_eq hbig (by omega)
  have hne : (exactSum false m e false 1 (-1)).1 ≠ 0 := by rw [hA]; simp only []; omega
  have hsgn : decide ((exactSum false m e false 1 (-1)).1 < 0) = false := by rw [hA]; simp; omega
  have hA2 : (exactSum false m e false 1 (-1)).2 = e := by rw [hA]
  simp only [hne, if_false, hsgn, hnat]
  rw [roundNE_inexact f false _ _ hL (by omega), hA2]
  have hb := rnd_bounds _ f.p (by omega) hL
  rw [hLeq] at hb ⊢
  have hs1 : f.p + 1 - f.p = 1 := by omega
  rw [hs1] at hb ⊢
  have hn'L : bitLen (rnd (m + 2 ^ (-1 - e).toNat) 1) ≤ f.p + 1 :=
    bitLen_le_of_lt (by omega)
  have hno : ¬ (e + ((1 : Nat) : Int) + (bitLen (rnd (m + 2 ^ (-1 - e).toNat) 1) : Int) > f.etop) := by omega
  simp only [hno, if_false]
  rw [toIntSat_floor lo hi hlh]
  congr 1
  -- floorInt false n' (e + 1) = halfUp false m e
  unfold floorInt halfUp
  simp only [hge, if_false, Bool.false_eq_true, Int.one_mul]
  have hk : (-1 - e).toNat < f.p := by
    have : 2 ^ (-1 - e).toNat < 2 ^ f.p := by omega
    exact (Nat.pow_lt_pow_iff_right (by decide)).mp this
  have hG : (2 : Int) ^ (-e).toNat = 2 * 2 ^ (-1 - e).toNat := by
    have : (-e).toNat = (-1 - e).toNat + 1 := by omega
    rw [this, Int.pow_succ]; omega
  rw [hG]
  have e1 : (2 * (m : Int) + 2 * 2 ^ (-1 - e).toNat) / (2 * (2 * 2 ^ (-1 - e).toNat))
      = ((m : Int) + 2 ^ (-1 - e).toNat) / (2 * 2 ^ (-1 - e).toNat) := by
    have : 2 * (m : Int) + 2 * 2 ^ (-1 - e).toNat = ((m : Int) + 2 ^ (-1 - e).toNat) * 2 := by omega
    have h2 : 2 * (2 * (2 : Int) ^ (-1 - e).toNat) = (2 * 2 ^ (-1 - e).toNat) * 2 := by omega
    rw [this, h2, Int.mul_ediv_mul_of_pos_left _ _ (by omega : (0 : Int) < 2)]
  rw [e1]
  by_cases he1 : e = -1
  · subst he1
    have hpp := two_pow_pred f.p (by omega)
    simp at hHm hbig hb ⊢
    have hm1 : m = 2 ^ f.p - 1 := by omega
    have hr : rnd (m + 1) 1 = 2 ^ (f.p - 1) := by
      unfold rnd; simp only [Nat.pow_one]; split <;> omega
    rw [hr]
    have : ((m : Int) + 1) / 2 = ((2 ^ (f.p - 1) : Nat) : Int) := by omega
    rw [this]
  · have hge1 : ¬ (e + ((1 : Nat) : Int) ≥ 0) := by omega
    simp only [hge1, if_false]
    have hexp : (-(e + ((1 : Nat) : Int))).toNat = (-1 - e).toNat := by omega
    rw [hexp, ← hHn]
    -- P = 2·H·c
    have hPc : 2 ^ f.p = 2 * 2 ^ (-1 - e).toNat * 2 ^ (f.p - (-1 - e).toNat - 1) := by
      have : f.p = 1 + (-1 - e).toNat + (f.p - (-1 - e).toNat - 1) := by omega
      rw [← Nat.pow_succ', ← Nat.pow_add]; congr 1; omega
    have hcpos := two_pow_pos (f.p - (-1 - e).toNat - 1)
    have hHe : 2 ^ (-1 - e).toNat % 2 = 0 := by
      have : (-1 - e).toNat = ((-1 - e).toNat - 1) + 1 := by omega
      rw [this, Nat.pow_succ]; omega
    have hH2 : 2 ≤ 2 ^ (-1 - e).toNat := by
      have : 2 ^ 1 ≤ 2 ^ (-1 - e).toNat := Nat.pow_le_pow_right (by decide) (by omega)
      omega
    have key := rnd_one_div m (2 ^ (-1 - e).toNat) (2 ^ (f.p - (-1 - e).toNat - 1)) hH2 hcpos
      (by omega) (by omega) hHe
    have c1 : ((rnd (m + 2 ^ (-1 - e).toNat) 1 : Nat) : Int) / ((2 ^ (-1 - e).toNat : Nat) : Int)
        = ((rnd (m + 2 ^ (-1 - e).toNat) 1 / 2 ^ (-1 - e).toNat : Nat) : Int) := (Int.natCast_ediv _ _).symm
    have c2 : ((m : Int) + ((2 ^ (-1 - e).toNat : Nat) : Int)) / (2 * ((2 ^ (-1 - e).toNat : Nat) : Int))
        = (((m + 2 ^ (-1 - e).toNat) / (2 * 2 ^ (-1 - e).toNat) : Nat) : Int) := by
      rw [Int.natCast_ediv]; simp
    rw [c1, c2, key.1, key.2]


/-- `OtRound` to an integer type whose range lies within `±2^(p-1)`: for EVERY finite float except the
largest one below one half, `floor(x + 0.5)` computed in the float type and then cast equals exact
round-half-up followed by saturation. -/
theorem otRoundInt_full (f : Fmt) (ok : FmtOk f) (lo hi : Int) (hlh : lo ≤ 0 ∧ 0 ≤ hi)
    (hhi : hi < ((2 ^ (f.p - 1) : Nat) : Int)) (hlo : -((2 ^ (f.p - 1) : Nat) : Int) ≤ lo)
    (neg : Bool) (m : Nat) (e : Int) (hm : m < 2 ^ f.p) (he : f.emin ≤ e)
    (hx : ¬ (neg = false ∧ m = 2 ^ f.p - 1 ∧ e = -((f.p : Int) + 1))) :
    otRoundInt f lo hi (.fin neg m e) = clampI lo hi (halfUp neg m e) := by
  by_cases hex : AddHalfExact f neg m e
  · exact otRoundInt_of_exact f lo hi hlh neg m e hex
  have hL := bitLen_of_not_exact f ok neg m e he hex
  by_cases hge : e ≥ 0
  · exact otRound_case_int f ok lo hi hlh hhi hlo neg m e he hge hL
  have hlt : e < 0 := by omega
  have hHpos := two_pow_pos (-1 - e).toNat
  have hp2 := ok.hp2
  have hP4 : 2 ^ 2 ≤ 2 ^ f.p := Nat.pow_le_pow_right (by decide) hp2
  cases neg
  · by_cases hHm : 2 ^ (-1 - e).toNat ≤ m
    · exact otRound_case_big f ok lo hi hlh m e hm he hlt hHm hL
    · exact otRound_case_small f ok lo hi hlh false m e hm he hlt (Or.inl rfl) (by omega) hL
        (fun h => hx ⟨rfl, h.1, h.2⟩)
  · by_cases hm0 : m = 0
    · subst hm0
      exact otRound_case_small f ok lo hi hlh true 0 e hm he hlt (Or.inr rfl) (by omega) hL
        (fun h => by have := h.1; omega)
    · exact otRound_case_neg f ok lo hi hlh m e hm hm0 he hlt hL

/-- the result of `floor` on a finite or infinite value: infinite, or a finite float with a
non-negative exponent (an integer). -/
theorem floor_shape (x : FVal) (hx : x ≠ .nan) :
    (∃ s, floor x = .inf s) ∨ ∃ s n k, floor x = .fin s n k ∧ 0 ≤ k := by
  cases x with
  | nan => exact absurd rfl hx
  | inf s => exact Or.inl ⟨s, rfl⟩
  | fin s m e =>
    right
    unfold floor
    by_cases h : e ≥ 0
    · simp only [h, if_true]; exact ⟨_, _, _, rfl, h⟩
    · simp only [h, if_false]
      cases s
      · exact ⟨_, _, _, rfl, Int.le_refl 0⟩
      · exact ⟨_, _, _, rfl, Int.le_refl 0⟩

theorem add_half_ne_nan (f : Fmt) (neg : Bool) (m : Nat) (e : Int) :
    add f (.fin neg m e) half ≠ .nan := by
  unfold half add
  simp only []
  split
  · simp
  · rcases roundNE_shape f (decide ((exactSum neg m e false 1 (-1)).1 < 0))
      (exactSum neg m e false 1 (-1)).1.natAbs (exactSum neg m e false 1 (-1)).2 with h | ⟨a, b, h⟩
    · rw [h]; simp
    · rw [h]; simp

theorem toIntSat_int (lo hi : Int) (s : Bool) (n : Nat) (k : Int) (hk : 0 ≤ k) :
    toIntSat lo hi (.fin s n k) = clampI lo hi ((if s then -1 else 1) * ((n : Int) * 2 ^ k.toNat)) := by
  have h : k ≥ 0 := hk
  simp only [toIntSat, h, if_true, clampI]
  cases s <;> simp

/-- `OtRound` to the float type itself, for every finite float (except the largest below one
half) whose rounded value is below `2^(p-1)` in magnitude: the result is exactly the integer
`floor(x + 1/2)`. -/
theorem otRoundF_full (f : Fmt) (ok : FmtOk f) (neg : Bool) (m : Nat) (e : Int)
    (hm : m < 2 ^ f.p) (he : f.emin ≤ e)
    (hx : ¬ (neg = false ∧ m = 2 ^ f.p - 1 ∧ e = -((f.p : Int) + 1)))
    (hb : (halfUp neg m e).natAbs + 1 < 2 ^ (f.p - 1)) :
    ∃ s n k, otRoundF f (.fin neg m e) = .fin s n k ∧ 0 ≤ k ∧
      (if s then -1 else 1) * ((n : Int) * 2 ^ k.toNat) = halfUp neg m e := by
  have hP := two_pow_pos (f.p - 1)
  have key := otRoundInt_full f ok (-(((2 ^ (f.p - 1) : Nat) : Int) - 1)) (((2 ^ (f.p - 1) : Nat) : Int) - 1)
    (by omega) (by omega) (by omega) neg m e hm he hx
  unfold otRoundInt at key
  rw [clampI_id _ _ _ (by omega)] at key
  have hsh := floor_shape (add f (.fin neg m e) half) (add_half_ne_nan f neg m e)
  unfold otRoundF at key ⊢
  rcases hsh with ⟨s, h⟩ | ⟨s, n, k, h, hk⟩
  · rw [h] at key; simp only [toIntSat] at key
    cases s
    · simp only [Bool.false_eq_true, if_false] at key; omega
    · simp only [if_true] at key; omega
  · rw [h] at key ⊢
    rw [toIntSat_int _ _ s n k hk] at key
    refine ⟨s, n, k, rfl, hk, ?_⟩
    generalize (if s = true then (-1 : Int) else 1) * ((n : Int) * 2 ^ k.toNat) = v at key ⊢
    unfold clampI at key
    by_cases h1 : v < -(((2 ^ (f.p - 1) : Nat) : Int) - 1)
    · simp only [h1, if_true] at key; omega
    · by_cases h2 : v > ((2 ^ (f.p - 1) : Nat) : Int) - 1
      · simp only [h1, h2, if_false, if_true] at key; omega
      · simp only [h1, h2, if_false] at key; exact key

end FontVerif.FixedConv
