/-
Sparse-bit-set codec, decoder totality: the loop fuel suffices, the remainder is a suffix,
inserted ranges are well formed and bounded.
-/
import FontVerif.Lemmas.SbsStream
set_option linter.unusedVariables false
namespace FontVerif.SparseBitSet

theorem finish_ne_outOfFuel (bf : Nat) (data : List Nat) (st : BitIn) (n : Nat)
    (acc : List (Nat × Nat)) : finish bf data st n acc ≠ .outOfFuel := by
  simp only [finish]; split <;> simp

/-- every loop iteration reads one node (`bf ≥ 2` bits) or ends: the loop never runs out of
fuel when twice the fuel exceeds the number of unread bits by two. -/
theorem decodeLoop_ne_outOfFuel {bf : Nat} (hbf : BfOk bf) (height bias maxValue : Nat)
    (data : List Nat) :
    ∀ (fuel : Nat) (st : BitIn) (queue acc : List (Nat × Nat)), StOk bf st →
      pos st ≤ 8 * data.length → 8 * data.length + 2 ≤ 2 * fuel + pos st →
      decodeLoop bf height bias maxValue data fuel st queue acc ≠ .outOfFuel
  | 0, st, queue, acc, hst, hle, hf => by omega
  | fuel + 1, st, [], acc, hst, hle, hf => by
    simp only [decodeLoop]; exact finish_ne_outOfFuel _ _ _ _ _
  | fuel + 1, st, (start, depth) :: queue, acc, hst, hle, hf => by
    simp only [decodeLoop]
    split
    · simp
    · rename_i bits st' hn
      have a := nextNode_some hbf hst hn
      have hbf2 : 2 ≤ bf := by rcases hbf with h | h | h | h <;> omega
      have hf' : 8 * data.length + 2 ≤ 2 * fuel + pos st' := by omega
      split
      · split
        · exact decodeLoop_ne_outOfFuel hbf _ _ _ _ fuel st' _ _ a.1 (by omega) hf'
        · exact decodeLoop_ne_outOfFuel hbf _ _ _ _ fuel st' _ _ a.1 (by omega) hf'
      · split
        · split
          · exact finish_ne_outOfFuel _ _ _ _ _
          · exact decodeLoop_ne_outOfFuel hbf _ _ _ _ fuel st' _ _ a.1 (by omega) hf'
        · exact decodeLoop_ne_outOfFuel hbf _ _ _ _ fuel st' _ _ a.1 (by omega) hf'

/-- more fuel does not change a finished run -/
theorem decodeLoop_fuel_succ (bf height bias maxValue : Nat) (data : List Nat) :
    ∀ (fuel : Nat) (st : BitIn) (queue acc : List (Nat × Nat)),
      decodeLoop bf height bias maxValue data fuel st queue acc ≠ .outOfFuel →
      decodeLoop bf height bias maxValue data (fuel + 1) st queue acc
        = decodeLoop bf height bias maxValue data fuel st queue acc
  | 0, st, queue, acc, h => by simp [decodeLoop] at h
  | fuel + 1, st, [], acc, h => by simp only [decodeLoop]
  | fuel + 1, st, (start, depth) :: queue, acc, h => by
    simp only [decodeLoop] at h
    rw [decodeLoop.eq_3, decodeLoop.eq_3]
    split
    · rfl
    · rename_i bits st' hn
      simp only [hn] at h
      simp only []
      split
      · rename_i hb
        simp only [hb, if_true] at h
        split
        · rename_i hc
          simp only [hc] at h
          exact decodeLoop_fuel_succ _ _ _ _ _ fuel st' _ _ (by simpa using h)
        · rename_i hc
          simp only [hc] at h
          exact decodeLoop_fuel_succ _ _ _ _ _ fuel st' _ _ (by simpa using h)
      · rename_i hb
        simp only [hb, if_false] at h
        split
        · rename_i hd
          simp only [hd, if_true] at h
          split
          · rfl
          · rename_i hr
            simp only [hr] at h
            exact decodeLoop_fuel_succ _ _ _ _ _ fuel st' _ _ (by simpa using h)
        · rename_i hd
          simp only [hd, if_false] at h
          exact decodeLoop_fuel_succ _ _ _ _ _ fuel st' _ _ (by simpa using h)

theorem decodeLoop_fuel_add (bf height bias maxValue : Nat) (data : List Nat)
    (fuel k : Nat) (st : BitIn) (queue acc : List (Nat × Nat))
    (h : decodeLoop bf height bias maxValue data fuel st queue acc ≠ .outOfFuel) :
    decodeLoop bf height bias maxValue data (fuel + k) st queue acc
      = decodeLoop bf height bias maxValue data fuel st queue acc := by
  induction k with
  | zero => rfl
  | succ k ih =>
    rw [← Nat.add_assoc, decodeLoop_fuel_succ _ _ _ _ _ _ _ _ _ (by rw [ih]; exact h), ih]

/-- two finished runs with different fuel agree -/
theorem decodeLoop_fuel_irrel (bf height bias maxValue : Nat) (data : List Nat)
    (f g : Nat) (st : BitIn) (queue acc : List (Nat × Nat))
    (hf : decodeLoop bf height bias maxValue data f st queue acc ≠ .outOfFuel)
    (hg : decodeLoop bf height bias maxValue data g st queue acc ≠ .outOfFuel) :
    decodeLoop bf height bias maxValue data f st queue acc
      = decodeLoop bf height bias maxValue data g st queue acc := by
  have a := decodeLoop_fuel_add bf height bias maxValue data f g st queue acc hf
  have b := decodeLoop_fuel_add bf height bias maxValue data g f st queue acc hg
  rw [← a, ← b, Nat.add_comm]

/-! ### inserted ranges are well formed and bounded, the remainder is a suffix -/

/-- `s ≤ e ≤ min maxValue U32_MAX` for every range -/
def InsOk (maxValue : Nat) (ins : List (Nat × Nat)) : Prop :=
  ∀ r ∈ ins, r.1 ≤ r.2 ∧ r.2 ≤ maxValue ∧ r.2 ≤ U32_MAX

theorem insOk_append {m : Nat} {a b : List (Nat × Nat)} (ha : InsOk m a) (hb : InsOk m b) :
    InsOk m (a ++ b) := by
  intro r hr
  rcases List.mem_append.mp hr with h | h
  · exact ha r h
  · exact hb r h

theorem leafValues_insOk (start bias maxValue : Nat) (is : List Nat) :
    InsOk maxValue (leafValues start bias maxValue is).1 := by
  induction is with
  | nil => intro r hr; simp [leafValues] at hr
  | cons i rest ih =>
    simp only [leafValues]
    split
    · rename_i hc
      intro r hr
      simp only [List.mem_cons] at hr
      rcases hr with rfl | hr
      · simp only []; omega
      · exact ih r hr
    · intro r hr; simp at hr

theorem finish_ok {bf : Nat} {data : List Nat} {st : BitIn} {n : Nat} {acc ins : List (Nat × Nat)}
    {rest : List Nat} (h : finish bf data st n acc = .ok ins rest) :
    ins = acc ∧ rest <:+ data := by
  simp only [finish] at h
  split at h
  · simp at h
    obtain ⟨rfl, rfl⟩ := h
    exact ⟨rfl, List.drop_suffix _ _⟩
  · simp at h

theorem decodeLoop_ok {bf : Nat} (hbf : BfOk bf) (height bias maxValue : Nat) (data : List Nat) :
    ∀ (fuel : Nat) (st : BitIn) (queue acc : List (Nat × Nat)) {ins : List (Nat × Nat)}
      {rest : List Nat}, InsOk maxValue acc →
      decodeLoop bf height bias maxValue data fuel st queue acc = .ok ins rest →
      InsOk maxValue ins ∧ rest <:+ data
  | 0, st, queue, acc, ins, rest, hacc, h => by simp [decodeLoop] at h
  | fuel + 1, st, [], acc, ins, rest, hacc, h => by
    simp only [decodeLoop] at h
    have := finish_ok h
    exact ⟨this.1 ▸ hacc, this.2⟩
  | fuel + 1, st, (start, depth) :: queue, acc, ins, rest, hacc, h => by
    simp only [decodeLoop] at h
    split at h
    · simp at h
    · rename_i bits st' hn
      split at h
      · split at h
        · rename_i hc
          refine decodeLoop_ok hbf _ _ _ _ fuel st' _ _ (insOk_append hacc ?_) h
          intro r hr
          simp only [List.mem_singleton] at hr
          subst hr
          have hpos : 0 < bf ^ (height - depth + 1) :=
            Nat.pow_pos (by rcases hbf with h | h | h | h <;> omega)
          simp only []
          omega
        · exact decodeLoop_ok hbf _ _ _ _ fuel st' _ _ hacc h
      · split at h
        · split at h
          · have := finish_ok h
            exact ⟨this.1 ▸ insOk_append hacc (leafValues_insOk _ _ _ _), this.2⟩
          · exact decodeLoop_ok hbf _ _ _ _ fuel st' _ _
              (insOk_append hacc (leafValues_insOk _ _ _ _)) h
        · exact decodeLoop_ok hbf _ _ _ _ fuel st' _ _ hacc h

end FontVerif.SparseBitSet
