/-
Helper lemmas about rounding a quotient half away from zero.
-/
import FontVerif.Model.Base
namespace FontVerif

/-- `r` is the exact quotient `p / d` (`d > 0`) rounded to nearest, ties away from zero. -/
def IsRHA (p d r : Int) : Prop :=
  (0 ≤ p → 2 * (d * r) - d ≤ 2 * p ∧ 2 * p < 2 * (d * r) + d) ∧
  (p < 0 → 2 * (d * r) - d < 2 * p ∧ 2 * p ≤ 2 * (d * r) + d)

/-- same for any non-zero divisor: the exact quotient is `p / q = (-p) / (-q)`. -/
def IsRHAq (p q r : Int) : Prop :=
  if 0 < q then IsRHA p q r else IsRHA (-p) (-q) r

instance (p d r : Int) : Decidable (IsRHA p d r) := by unfold IsRHA; infer_instance
instance (p q r : Int) : Decidable (IsRHAq p q r) := by unfold IsRHAq; infer_instance

theorem mul_lt_of_pos {d k : Int} (hd : 0 < d) (hk : 1 ≤ k) : d ≤ d * k := by
  have := Int.mul_le_mul_of_nonneg_left hk (Int.le_of_lt hd)
  simpa using this

theorem isRHA_unique {p d r r' : Int} (hd : 0 < d) (h : IsRHA p d r) (h' : IsRHA p d r') :
    r = r' := by
  -- from both bounds: -2d < 2 d (r - r') < 2d
  have key : ∀ a b : Int, IsRHA p d a → IsRHA p d b → ¬ (a ≥ b + 1) := by
    intro a b ha hb hge
    have h1 : d ≤ d * (a - b) := mul_lt_of_pos hd (by omega)
    have h2 : d * (a - b) = d * a - d * b := Int.mul_sub d a b
    unfold IsRHA at ha hb
    by_cases hp : 0 ≤ p
    · have := ha.1 hp; have := hb.1 hp; omega
    · have hp' : p < 0 := by omega
      have := ha.2 hp'; have := hb.2 hp'; omega
  have := key r r' h h'
  have := key r' r h' h
  omega

/-- the code's formula `(p + d/2) / d` for non-negative `p`. -/
theorem isRHA_formula {p d : Int} (hp : 0 ≤ p) (hd : 0 < d) : IsRHA p d ((p + d / 2) / d) := by
  have h1 := Int.mul_ediv_add_emod (p + d / 2) d
  have h2 := Int.emod_nonneg (p + d / 2) (Int.ne_of_gt hd)
  have h3 := Int.emod_lt_of_pos (p + d / 2) hd
  refine ⟨fun _ => ?_, fun h => by omega⟩
  generalize d * ((p + d / 2) / d) = X at *
  generalize (p + d / 2) % d = m at *
  omega

theorem isRHA_zero {d : Int} (hd : 0 < d) : IsRHA 0 d 0 := by
  unfold IsRHA; simp; omega

theorem isRHA_neg {p d r : Int} (hd : 0 < d) (h : IsRHA p d r) : IsRHA (-p) d (-r) := by
  by_cases h0 : p = 0
  · subst h0
    have : r = 0 := isRHA_unique hd h (isRHA_zero hd)
    subst this; simpa using isRHA_zero hd
  · unfold IsRHA at *
    have e : d * -r = -(d * r) := Int.mul_neg d r
    rw [e]
    constructor
    · intro hp
      have := h.2 (by omega); omega
    · intro hp
      have := h.1 (by omega); omega

end FontVerif
