/-
Helper lemmas for C16: well-formed range records, `CoverageFormat2::get` on them,
`RangeRecord::iter_for_glyphs` produces them, `split_range_record` / `split_coverage` on them.
-/
import FontVerif.Lemmas.Layout
set_option linter.unusedVariables false
namespace FontVerif.Layout

/-! ## well-formed range records -/

/-- range records as `iter_for_glyphs` makes them: non-empty, increasing, disjoint, and the
`start_coverage_index` of each is the number of glyphs before it (plus `c`). -/
def WFRanges : Nat → List RangeRec → Prop
  | _, [] => True
  | c, r :: rs =>
    r.start ≤ r.end_ ∧ r.startCov = c ∧ (∀ r' ∈ rs, r.end_ < r'.start) ∧
      WFRanges (c + (r.end_ - r.start + 1)) rs

theorem wf_start_le_end {c : Nat} {rs : List RangeRec} (h : WFRanges c rs) :
    ∀ r ∈ rs, r.start ≤ r.end_ := by
  induction rs generalizing c with
  | nil => intro r hr; cases hr
  | cons r0 rest ih =>
    intro r hr
    rcases List.mem_cons.mp hr with rfl | hr
    · exact h.1
    · exact ih h.2.2.2 r hr

theorem wf_pairwise {c : Nat} {rs : List RangeRec} (h : WFRanges c rs) :
    rs.Pairwise (fun a b => a.end_ < b.start) := by
  induction rs generalizing c with
  | nil => exact List.Pairwise.nil
  | cons r0 rest ih => exact List.pairwise_cons.mpr ⟨h.2.2.1, ih h.2.2.2⟩

theorem wf_cov_ge {c : Nat} {rs : List RangeRec} (h : WFRanges c rs) :
    ∀ r ∈ rs, c ≤ r.startCov := by
  induction rs generalizing c with
  | nil => intro r hr; cases hr
  | cons r0 rest ih =>
    intro r hr
    rcases List.mem_cons.mp hr with rfl | hr
    · exact Nat.le_of_eq h.2.1.symm
    · have := ih h.2.2.2 r hr; omega

/-- the coverage index of a record never exceeds its first glyph id -/
theorem wf_startCov_le {c : Nat} {rs : List RangeRec} (h : WFRanges c rs)
    (hc : ∀ r ∈ rs, c ≤ r.start) : ∀ r ∈ rs, r.startCov ≤ r.start := by
  induction rs generalizing c with
  | nil => intro r hr; cases hr
  | cons r0 rest ih =>
    intro r hr
    have h0 := hc r0 (List.mem_cons_self ..)
    rcases List.mem_cons.mp hr with rfl | hr
    · have := h.2.1; omega
    · apply ih h.2.2.2 _ r hr
      intro r' hr'
      have := h.2.2.1 r' hr'
      have := h.1
      omega

theorem rangeCmp_eq {r : RangeRec} {g : Nat} : rangeCmp r g = .eq ↔ r.start ≤ g ∧ g ≤ r.end_ := by
  unfold rangeCmp
  by_cases h1 : r.end_ < g <;> by_cases h2 : r.start > g <;> simp [h1, h2] <;> omega

/-- position of a glyph of record `r` in the expansion -/
theorem indexIn_expand_hit {c g : Nat} {rs : List RangeRec} (h : WFRanges c rs) {r : RangeRec}
    (hr : r ∈ rs) (hg : r.start ≤ g ∧ g ≤ r.end_) :
    ∃ i, indexIn g (expandRanges rs) = some i ∧ i + c = r.startCov + (g - r.start) := by
  induction rs generalizing c with
  | nil => cases hr
  | cons r0 rest ih =>
    simp only [expandRanges, indexIn_append, RangeRec.glyphs, indexIn_range']
    rcases List.mem_cons.mp hr with rfl | hr
    · have h1 := h.1
      have h2 := h.2.1
      have : r.start ≤ g ∧ g < r.start + (r.end_ + 1 - r.start) := by omega
      simp only [this, and_self, ↓reduceIte]
      exact ⟨g - r.start, rfl, by omega⟩
    · have hlt := h.2.2.1 r hr
      have : ¬ (r0.start ≤ g ∧ g < r0.start + (r0.end_ + 1 - r0.start)) := by omega
      simp only [this, ↓reduceIte]
      obtain ⟨i, hi, he⟩ := ih h.2.2.2 hr
      refine ⟨i + (r0.end_ + 1 - r0.start), ?_, ?_⟩
      · simp [hi]
      · have := h.1; omega

theorem indexIn_expand_miss {g : Nat} {rs : List RangeRec}
    (h : ∀ r ∈ rs, ¬ (r.start ≤ g ∧ g ≤ r.end_)) : indexIn g (expandRanges rs) = none := by
  induction rs with
  | nil => rfl
  | cons r0 rest ih =>
    simp only [expandRanges, indexIn_append, RangeRec.glyphs, indexIn_range']
    have h0 := h r0 (List.mem_cons_self ..)
    have : ¬ (r0.start ≤ g ∧ g < r0.start + (r0.end_ + 1 - r0.start)) := by omega
    simp only [this, ↓reduceIte]
    rw [ih (fun r hr => h r (List.mem_cons_of_mem _ hr))]
    rfl

theorem rangeCmp_mono {rs : List RangeRec} {c : Nat} (h : WFRanges c rs) (g : Nat) :
    Mono rs.length (fun i => rangeCmp (rs.getD i default) g) := by
  intro i j hij hj
  by_cases e : i = j
  · subst e; exact Nat.le_refl _
  · have hi : i < rs.length := by omega
    have hp := List.pairwise_iff_getElem.mp (wf_pairwise h) i j hi hj (by omega)
    have hsi := wf_start_le_end h rs[i] (List.getElem_mem hi)
    have hsj := wf_start_le_end h rs[j] (List.getElem_mem hj)
    have ei : rs.getD i default = rs[i] := by simp [List.getD, List.getElem?_eq_getElem hi]
    have ej : rs.getD j default = rs[j] := by simp [List.getD, List.getElem?_eq_getElem hj]
    simp only [ei, ej]
    unfold rangeCmp
    by_cases a1 : rs[i].end_ < g <;> by_cases a2 : rs[i].start > g <;>
      by_cases a3 : rs[j].end_ < g <;> by_cases a4 : rs[j].start > g <;>
      simp [a1, a2, a3, a4, rank] <;> omega

/-- `CoverageFormat2::get` on well-formed records is "position in the expansion" -/
theorem get_fmt2 {rs : List RangeRec} (h : WFRanges 0 rs) (hb : ∀ r ∈ rs, r.end_ < 65536)
    (g : Nat) : (Coverage.fmt2 rs).get g = indexIn g (expandRanges rs) := by
  unfold Coverage.get
  by_cases hg : g ≥ 65536
  · simp only [hg, ↓reduceIte]
    exact (indexIn_expand_miss (fun r hr => by have := hb r hr; omega)).symm
  · simp only [hg, ↓reduceIte]
    have hm := rangeCmp_mono h g
    cases hr : binarySearchBy rs.length (fun i => rangeCmp (rs.getD i default) g) with
    | ok i =>
      have ⟨hi, he⟩ := bs_ok hm hr
      have ei : rs.getD i default = rs[i] := by simp [List.getD, List.getElem?_eq_getElem hi]
      simp only [ei] at he ⊢
      have hin := rangeCmp_eq.mp he
      have hmem : rs[i] ∈ rs := List.getElem_mem hi
      obtain ⟨k, hk, hke⟩ := indexIn_expand_hit h hmem hin
      have hle := wf_startCov_le h (fun _ _ => Nat.zero_le _) rs[i] hmem
      have : rs[i].startCov + (g - rs[i].start) < 65536 := by omega
      simp only [this, ↓reduceIte, hk]
      congr 1; omega
    | err i =>
      have hne := bs_err_no_eq hm hr
      have : ∀ r ∈ rs, ¬ (r.start ≤ g ∧ g ≤ r.end_) := by
        intro r hr hin
        obtain ⟨k, hk, hke⟩ := List.getElem_of_mem hr
        apply hne k hk
        have ek : rs.getD k default = rs[k] := by simp [List.getD, List.getElem?_eq_getElem hk]
        simp only [ek, hke]
        exact rangeCmp_eq.mpr hin
      simp [indexIn_expand_miss this]

/-! ## `RangeRecord::iter_for_glyphs` -/

theorem rangesGo_spec (rest : List Nat) : ∀ (a b len : Nat), a ≤ b → rest.Pairwise (· < ·) →
    (∀ x ∈ rest, b < x) →
    WFRanges len (rangesGo a b len rest) ∧
    expandRanges (rangesGo a b len rest) = List.range' a (b + 1 - a) ++ rest ∧
    (∀ r ∈ rangesGo a b len rest, a ≤ r.start) ∧
    (∀ r ∈ rangesGo a b len rest, r.end_ = b ∨ r.end_ ∈ rest) := by
  induction rest with
  | nil =>
    intro a b len hab _ _
    simp [rangesGo, WFRanges, expandRanges, RangeRec.glyphs, hab]
  | cons g rest ih =>
    intro a b len hab hs hgt
    rw [List.pairwise_cons] at hs
    have hbg : b < g := hgt g (List.mem_cons_self ..)
    unfold rangesGo
    by_cases hseq : areSequential b g = true
    · have hg : g = b + 1 := by simp [areSequential] at hseq; omega
      simp only [hseq, ↓reduceIte]
      obtain ⟨w, e, s, en⟩ := ih a g len (by omega) hs.2 (fun x hx => hs.1 x hx)
      refine ⟨w, ?_, s, ?_⟩
      · rw [e, hg]
        have : b + 1 + 1 - a = (b + 1 - a) + 1 := by omega
        rw [this, List.range'_concat]
        simp; omega
      · intro r hr
        rcases en r hr with h | h
        · right; rw [h]; exact List.mem_cons_self ..
        · right; exact List.mem_cons_of_mem _ h
    · simp only [hseq, Bool.false_eq_true, ↓reduceIte]
      have hg : b + 1 < g := by simp [areSequential] at hseq; omega
      obtain ⟨w, e, s, en⟩ := ih g g (len + 1 + (b - a)) (Nat.le_refl _) hs.2 (fun x hx => hs.1 x hx)
      refine ⟨⟨hab, rfl, ?_, ?_⟩, ?_, ?_, ?_⟩
      · intro r' hr'; have := s r' hr'; show b < r'.start; omega
      · have : len + (b - a + 1) = len + 1 + (b - a) := by omega
        rw [this]; exact w
      · simp only [expandRanges, RangeRec.glyphs, e]
        have : g + 1 - g = 1 := by omega
        rw [this]; simp [List.range']
      · intro r hr
        rcases List.mem_cons.mp hr with rfl | hr
        · exact Nat.le_refl _
        · have := s r hr; omega
      · intro r hr
        rcases List.mem_cons.mp hr with rfl | hr
        · left; rfl
        · right
          rcases en r hr with h | h
          · rw [h]; exact List.mem_cons_self ..
          · exact List.mem_cons_of_mem _ h

theorem iterForGlyphs_spec {xs : List Nat} (hs : xs.Pairwise (· < ·)) :
    WFRanges 0 (iterForGlyphs xs) ∧ expandRanges (iterForGlyphs xs) = xs ∧
    (∀ r ∈ iterForGlyphs xs, r.end_ ∈ xs) := by
  cases xs with
  | nil => simp [iterForGlyphs, WFRanges, expandRanges]
  | cons g rest =>
    rw [List.pairwise_cons] at hs
    obtain ⟨w, e, _, en⟩ := rangesGo_spec rest g g 0 (Nat.le_refl _) hs.2 (fun x hx => hs.1 x hx)
    refine ⟨w, ?_, ?_⟩
    · simp only [iterForGlyphs, e]
      have : g + 1 - g = 1 := by omega
      rw [this]; simp [List.range']
    · intro r hr
      rcases en r hr with h | h
      · rw [h]; exact List.mem_cons_self ..
      · exact List.mem_cons_of_mem _ h

/-! ## `split_range_record` / `split_coverage` on well-formed records -/

/-- closed form of `split_range_record` when nothing can trap -/
theorem splitRangeRecord_wf {r : RangeRec} {s eI : Nat} (h1 : r.start ≤ r.end_)
    (h2 : r.end_ < 65536) (h3 : r.startCov ≤ r.start) (hse : s ≤ eI) :
    splitRangeRecord r s eI = some
      (if r.startCov > eI ∨ r.startCov + (r.end_ - r.start) < s then none else
        some ⟨r.start + (s - r.startCov),
              r.start + (s - r.startCov) +
                (min (r.startCov + (r.end_ - r.start)) eI - max r.startCov s),
              r.startCov - s⟩) := by
  unfold splitRangeRecord subU16 addU16
  have a1 : r.start ≤ r.end_ := h1
  have a2 : r.startCov + (r.end_ - r.start) < 65536 := by omega
  simp only [a1, a2, ↓reduceIte, Option.bind_eq_bind, Option.bind_some, Option.pure_def,
    Bool.or_eq_true, decide_eq_true_eq]
  by_cases hc : r.startCov > eI ∨ r.startCov + (r.end_ - r.start) < s
  · simp [hc]
  · simp only [hc, ↓reduceIte]
    have b1 : r.start + (s - r.startCov) < 65536 := by omega
    have b2 : max r.startCov s ≤ min (r.startCov + (r.end_ - r.start)) eI := by omega
    have b3 : r.start + (s - r.startCov) +
        (min (r.startCov + (r.end_ - r.start)) eI - max r.startCov s) < 65536 := by omega
    simp [b1, b2, b3]


theorem mem_splitRecords {s eI : Nat} {rs rs' : List RangeRec}
    (h : splitRecords s eI rs = some rs') {r' : RangeRec} :
    r' ∈ rs' ↔ ∃ r ∈ rs, splitRangeRecord r s eI = some (some r') := by
  induction rs generalizing rs' with
  | nil => simp [splitRecords] at h; subst h; simp
  | cons r0 rest ih =>
    simp only [splitRecords, Option.bind_eq_bind, Option.pure_def] at h
    cases h0 : splitRangeRecord r0 s eI with
    | none => simp [h0] at h
    | some x =>
      cases hr : splitRecords s eI rest with
      | none => simp [h0, hr] at h
      | some rest' =>
        simp only [h0, hr, Option.bind_some, Option.some.injEq] at h
        have ih' := ih hr
        cases x with
        | none =>
          simp only at h; subst h
          rw [ih']
          constructor
          · rintro ⟨r, hr1, hr2⟩; exact ⟨r, List.mem_cons_of_mem _ hr1, hr2⟩
          · rintro ⟨r, hr1, hr2⟩
            rcases List.mem_cons.mp hr1 with rfl | hr1
            · rw [h0] at hr2; cases hr2
            · exact ⟨r, hr1, hr2⟩
        | some r0' =>
          simp only at h; subst h
          rw [List.mem_cons, ih']
          constructor
          · rintro (rfl | ⟨r, hr1, hr2⟩)
            · exact ⟨r0, List.mem_cons_self .., h0⟩
            · exact ⟨r, List.mem_cons_of_mem _ hr1, hr2⟩
          · rintro ⟨r, hr1, hr2⟩
            rcases List.mem_cons.mp hr1 with rfl | hr1
            · rw [h0] at hr2; left; cases hr2; rfl
            · right; exact ⟨r, hr1, hr2⟩

/-- `split_coverage` on well-formed format 2 records never traps and yields well-formed records -/
theorem splitRecords_wf {s eI : Nat} (hse : s ≤ eI) (rs : List RangeRec) : ∀ (c : Nat),
    WFRanges c rs → (∀ r ∈ rs, r.end_ < 65536) → (∀ r ∈ rs, c ≤ r.start) →
    ∃ rs', splitRecords s eI rs = some rs' ∧ WFRanges (c - s) rs' ∧ (c > eI → rs' = []) ∧
      (∀ r' ∈ rs', ∃ r ∈ rs, r.start ≤ r'.start ∧ r'.end_ ≤ r.end_) := by
  induction rs with
  | nil => intro c _ _ _; exact ⟨[], rfl, trivial, fun _ => rfl, fun _ h => by cases h⟩
  | cons r0 rest ih =>
    intro c hwf hb hc
    obtain ⟨h1, h2, h3, h4⟩ := hwf
    have hb0 := hb r0 (List.mem_cons_self ..)
    have hc0 := hc r0 (List.mem_cons_self ..)
    obtain ⟨rest', e1, w1, n1, s1⟩ := ih (c + (r0.end_ - r0.start + 1)) h4
      (fun r hr => hb r (List.mem_cons_of_mem _ hr))
      (fun r hr => by have := h3 r hr; omega)
    have hcl := splitRangeRecord_wf (r := r0) (s := s) (eI := eI) h1 hb0 (by omega) hse
    simp only [splitRecords, Option.bind_eq_bind, Option.pure_def, hcl, e1, Option.bind_some]
    by_cases hk : r0.startCov > eI ∨ r0.startCov + (r0.end_ - r0.start) < s
    · simp only [hk, ↓reduceIte]
      refine ⟨rest', rfl, ?_, ?_, ?_⟩
      · rcases hk with hk | hk
        · rw [n1 (by omega)]; trivial
        · have : c + (r0.end_ - r0.start + 1) - s = c - s := by omega
          rw [← this]; exact w1
      · intro hgt; exact n1 (by omega)
      · intro r' hr'
        obtain ⟨r, hr, hh⟩ := s1 r' hr'
        exact ⟨r, List.mem_cons_of_mem _ hr, hh⟩
    · simp only [hk, ↓reduceIte]
      refine ⟨_, rfl, ⟨?_, ?_, ?_, ?_⟩, ?_, ?_⟩
      · show r0.start + (s - r0.startCov) ≤ r0.start + (s - r0.startCov) +
          (min (r0.startCov + (r0.end_ - r0.start)) eI - max r0.startCov s)
        omega
      · show r0.startCov - s = c - s; omega
      · intro r' hr'
        obtain ⟨r, hr, hh⟩ := s1 r' hr'
        have := h3 r hr
        show r0.start + (s - r0.startCov) +
          (min (r0.startCov + (r0.end_ - r0.start)) eI - max r0.startCov s) < r'.start
        omega
      · by_cases hcut : c + (r0.end_ - r0.start + 1) > eI
        · rw [n1 hcut]; trivial
        · have : c - s + (r0.start + (s - r0.startCov) +
              (min (r0.startCov + (r0.end_ - r0.start)) eI - max r0.startCov s) -
              (r0.start + (s - r0.startCov)) + 1) = c + (r0.end_ - r0.start + 1) - s := by omega
          show WFRanges (c - s + (r0.start + (s - r0.startCov) +
              (min (r0.startCov + (r0.end_ - r0.start)) eI - max r0.startCov s) -
              (r0.start + (s - r0.startCov)) + 1)) rest'
          rw [this]; exact w1
      · intro hgt; omega
      · intro r' hr'
        rcases List.mem_cons.mp hr' with rfl | hr'
        · refine ⟨r0, List.mem_cons_self .., ?_, ?_⟩
          · show r0.start ≤ r0.start + (s - r0.startCov); omega
          · show r0.start + (s - r0.startCov) +
              (min (r0.startCov + (r0.end_ - r0.start)) eI - max r0.startCov s) ≤ r0.end_
            omega
        · obtain ⟨r, hr, hh⟩ := s1 r' hr'
          exact ⟨r, List.mem_cons_of_mem _ hr, hh⟩

/-- **format 2 split specification**: the split table answers `index - start` exactly for the
glyphs whose index lies in `[start, end)`. -/
theorem split_fmt2_get {rs : List RangeRec} (hwf : WFRanges 0 rs) (hb : ∀ r ∈ rs, r.end_ < 65536)
    {s e : Nat} (hse : s < e) :
    ∃ rs', splitCoverage (.fmt2 rs) s e = some (.fmt2 rs') ∧ WFRanges 0 rs' ∧
      (∀ r ∈ rs', r.end_ < 65536) ∧
      ∀ g, (Coverage.fmt2 rs').get g =
        (((Coverage.fmt2 rs).get g).filter (fun i => decide (s ≤ i ∧ i < e))).map (· - s) := by
  obtain ⟨rs', e1, w1, _, s1⟩ := splitRecords_wf (s := s) (eI := e - 1) (by omega) rs 0 hwf hb
    (fun _ _ => Nat.zero_le _)
  have w1' : WFRanges 0 rs' := by simpa using w1
  have hb' : ∀ r ∈ rs', r.end_ < 65536 := by
    intro r' hr'
    obtain ⟨r, hr, hh⟩ := s1 r' hr'
    have := hb r hr; omega
  refine ⟨rs', ?_, w1', hb', ?_⟩
  · unfold splitCoverage
    have h1 : ¬ s > e := by omega
    have h2 : ¬ s = e := by omega
    simp [h1, h2, e1]
  · intro g
    rw [get_fmt2 w1' hb', get_fmt2 hwf hb]
    have hcov := wf_startCov_le hwf (fun _ _ => Nat.zero_le _)
    have hsl := wf_start_le_end hwf
    by_cases hex : ∃ r' ∈ rs', r'.start ≤ g ∧ g ≤ r'.end_
    · obtain ⟨r', hr', hin'⟩ := hex
      obtain ⟨r, hr, hsp⟩ := (mem_splitRecords e1).mp hr'
      rw [splitRangeRecord_wf (hsl r hr) (hb r hr) (hcov r hr) (by omega)] at hsp
      by_cases hk : r.startCov > e - 1 ∨ r.startCov + (r.end_ - r.start) < s
      · simp [hk] at hsp
      · simp only [hk, ↓reduceIte, Option.some.injEq] at hsp
        subst hsp
        simp only at hin'
        have h1 := hsl r hr
        have h2 := hcov r hr
        have hin : r.start ≤ g ∧ g ≤ r.end_ := by omega
        obtain ⟨i, hi, hie⟩ := indexIn_expand_hit hwf hr hin
        obtain ⟨k, hk', hke⟩ := indexIn_expand_hit w1' hr' hin'
        simp only at hke
        rw [hi, hk']
        have hd : decide (s ≤ i ∧ i < e) = true := by
          simp only [decide_eq_true_eq]; omega
        simp only [Option.filter, hd, ↓reduceIte, Option.map_some, Option.some.injEq]
        omega
    · have hmiss : indexIn g (expandRanges rs') = none :=
        indexIn_expand_miss (fun r' hr' hin' => hex ⟨r', hr', hin'⟩)
      rw [hmiss]
      cases hi : indexIn g (expandRanges rs) with
      | none => rfl
      | some i =>
        have : ∃ r ∈ rs, r.start ≤ g ∧ g ≤ r.end_ := by
          apply Classical.byContradiction
          intro hno
          rw [indexIn_expand_miss (fun r hr hin => hno ⟨r, hr, hin⟩)] at hi
          cases hi
        obtain ⟨r, hr, hin⟩ := this
        obtain ⟨i2, hi2, hie⟩ := indexIn_expand_hit hwf hr hin
        rw [hi] at hi2; cases hi2
        have h1 := hsl r hr
        have h2 := hcov r hr
        by_cases hrange : s ≤ i ∧ i < e
        · exfalso
          have hsp := splitRangeRecord_wf (s := s) (eI := e - 1) h1 (hb r hr) h2 (by omega)
          have hk : ¬ (r.startCov > e - 1 ∨ r.startCov + (r.end_ - r.start) < s) := by omega
          simp only [hk, ↓reduceIte] at hsp
          apply hex
          exact ⟨_, (mem_splitRecords e1).mpr ⟨r, hr, hsp⟩, by simp only; omega⟩
        · have hd : decide (s ≤ i ∧ i < e) = false := by simp [hrange]
          simp [Option.filter, hd]


/-- the empty range: an empty format 2 table, which covers nothing -/
theorem split_fmt2_empty (rs : List RangeRec) (s : Nat) :
    splitCoverage (.fmt2 rs) s s = some (.fmt2 []) ∧ ∀ g, (Coverage.fmt2 []).get g = none := by
  refine ⟨by simp [splitCoverage], fun g => ?_⟩
  unfold Coverage.get
  by_cases hg : g ≥ 65536 <;> simp [hg, binarySearchBy]

end FontVerif.Layout
