/-
Translation invariance of skrifa's `interpolate_deltas` loops (Model/Iup.lean `readerContourCalls`,
`applyCall`): a contour at points `first ..= last` is processed exactly like the same contour at
points `0 ..= last - first` of the lists with the first `first` entries dropped, and touches nothing
outside.  Used to compose the one-contour theorem over any list of contours.
-/
import FontVerif.Model.GvarApply
import FontVerif.Lemmas.GvarApply
set_option linter.unusedVariables false
namespace FontVerif.GvarApply
open FontVerif FontVerif.Iup

def shiftCall (d : Nat) (c : Call) : Call := ⟨c.lo + d, c.hi + d, c.r1 + d, c.r2 + d, c.shift⟩

theorem getD_drop_bool (l : List Bool) (d i : Nat) : (l.drop d).getD i false = l.getD (d + i) false := by
  rw [List.getD_eq_getElem?_getD, List.getD_eq_getElem?_getD, List.getElem?_drop]

theorem getP_drop (l : List Iup.Pt) (d i : Nat) : getP (l.drop d) i = getP l (d + i) := by
  unfold getP
  rw [List.getD_eq_getElem?_getD, List.getD_eq_getElem?_getD, List.getElem?_drop]

theorem scanFirst_shift (has : List Bool) (np last d : Nat) (hd : d ≤ last) (hnp : d ≤ np) :
    ∀ (f p : Nat), d ≤ p →
    scanFirst has np last f p = (scanFirst (has.drop d) (np - d) (last - d) f (p - d)).map (· + d) := by
  intro f
  induction f with
  | zero => intro p hp; simp [scanFirst]; omega
  | succ f ih =>
    intro p hp
    simp only [scanFirst]
    by_cases h1 : p ≤ last
    · have h1' : p - d ≤ last - d := by omega
      simp only [h1, h1', if_true]
      by_cases h2 : p ≥ np
      · have h2' : p - d ≥ np - d := by omega
        simp [h2, h2']
      · have h2' : ¬ (p - d ≥ np - d) := by omega
        simp only [h2, h2', if_false]
        have hg : (has.drop d).getD (p - d) false = has.getD p false := by
          rw [getD_drop_bool]; congr 1; omega
        rw [hg]
        by_cases h3 : has.getD p false = true
        · simp only [h3, if_true, Option.map_some, Option.some.injEq]; omega
        · simp only [h3, Bool.false_eq_true, if_false]
          rw [ih (p + 1) (by omega)]
          have : p + 1 - d = p - d + 1 := by omega
          rw [this]
    · have h1' : ¬ (p - d ≤ last - d) := by omega
      simp [h1, h1']; omega

theorem innerLoop_shift (has : List Bool) (np last d : Nat) (hd : d ≤ last) (hnp : d ≤ np) :
    ∀ (f p cur : Nat) (calls0 : List Call), d ≤ cur → cur < p →
    innerLoop has np last f p cur (calls0.map (shiftCall d)) =
      (innerLoop (has.drop d) (np - d) (last - d) f (p - d) (cur - d) calls0).map
        (fun r => (r.1.map (shiftCall d), r.2 + d)) := by
  intro f
  induction f with
  | zero => intro p cur calls0 h1 h2; simp [innerLoop]; omega
  | succ f ih =>
    intro p cur calls0 hc hp
    simp only [innerLoop]
    by_cases h1 : p ≤ last
    · have h1' : p - d ≤ last - d := by omega
      simp only [h1, h1', if_true]
      by_cases h2 : p ≥ np
      · have h2' : p - d ≥ np - d := by omega
        simp [h2, h2']
      · have h2' : ¬ (p - d ≥ np - d) := by omega
        simp only [h2, h2', if_false]
        have hg : (has.drop d).getD (p - d) false = has.getD p false := by
          rw [getD_drop_bool]; congr 1; omega
        rw [hg]
        have e1 : p + 1 - d = p - d + 1 := by omega
        by_cases h3 : has.getD p false = true
        · simp only [h3, if_true]
          have hcall : calls0.map (shiftCall d) ++ [(⟨cur + 1, p - 1, cur, p, false⟩ : Call)]
              = (calls0 ++ [(⟨cur - d + 1, p - d - 1, cur - d, p - d, false⟩ : Call)]).map (shiftCall d) := by
            simp only [List.map_append, List.map_cons, List.map_nil, shiftCall, List.append_cancel_left_eq,
              List.cons.injEq, Call.mk.injEq, and_true, true_and]
            omega
          rw [hcall, ih (p + 1) p _ (by omega) (by omega), e1]
        · simp only [h3, Bool.false_eq_true, if_false]
          rw [ih (p + 1) cur calls0 hc (by omega), e1]
    · have h1' : ¬ (p - d ≤ last - d) := by omega
      simp [h1, h1']; omega

/-- the calls for the contour `first ..= last` are the calls for the same contour moved to the
front, shifted back — plus possibly one call with an empty range -/
theorem readerContourCalls_shift (has : List Bool) (np first last : Nat) (hfl : first ≤ last)
    (hl : last < np) :
    ∃ extra : List Call, (∀ c ∈ extra, c.hi < c.lo) ∧
      readerContourCalls has np first last =
        (readerContourCalls (has.drop first) (np - first) 0 (last - first)).map
          (fun r => (r.1.map (shiftCall first) ++ extra, r.2 + first)) := by
  unfold readerContourCalls
  rw [scanFirst_shift has np last first hfl (by omega) (last + 2 - first) first (Nat.le_refl _)]
  have ef : last - first + 2 - 0 = last + 2 - first := by omega
  simp only [Nat.sub_self, ef]
  cases hs : scanFirst (has.drop first) (np - first) (last - first) (last + 2 - first) 0 with
  | none => exact ⟨[], by simp, by simp⟩
  | some fd0 =>
    simp only [Option.map_some]
    by_cases hfd : fd0 > last - first
    · have : fd0 + first > last := by omega
      simp only [hfd, this, if_true, Option.map_some, List.map_nil, List.nil_append]
      exact ⟨[], by simp, rfl⟩
    · have h' : ¬ (fd0 + first > last) := by omega
      simp only [hfd, h', if_false]
      have hil := innerLoop_shift has np last first hfl (by omega) (last + 1 - (fd0 + first)) (fd0 + first + 1)
        (fd0 + first) [] (by omega) (by omega)
      simp only [List.map_nil] at hil
      rw [hil]
      have e1 : fd0 + first + 1 - first = fd0 + 1 := by omega
      have e2 : fd0 + first - first = fd0 := by omega
      have e3 : last + 1 - (fd0 + first) = last - first + 1 - fd0 := by omega
      rw [e1, e2, e3]
      cases hi : innerLoop (has.drop first) (np - first) (last - first) (last - first + 1 - fd0) (fd0 + 1) fd0 [] with
      | none => exact ⟨[], by simp, by simp⟩
      | some r =>
        obtain ⟨calls0, cur0⟩ := r
        simp only [Option.map_some]
        by_cases hsingle : cur0 = fd0
        · have : cur0 + first = fd0 + first := by omega
          simp only [hsingle, this, if_true, Option.map_some]
          refine ⟨[], by simp, ?_⟩
          simp only [List.append_nil, List.map_append, List.map_cons, List.map_nil, shiftCall,
            Nat.zero_add, Option.some.injEq, Prod.mk.injEq, List.append_cancel_left_eq, List.cons.injEq,
            Call.mk.injEq, and_true, true_and]
          omega
        · have : ¬ (cur0 + first = fd0 + first) := by omega
          simp only [hsingle, this, if_false, Option.map_some]
          by_cases hfd0 : fd0 > 0
          · have hfdp : fd0 + first > 0 := by omega
            refine ⟨[], by simp, ?_⟩
            simp only [hfd0, hfdp, if_true, List.append_nil, List.map_append, List.map_cons, List.map_nil,
              shiftCall, Nat.zero_add, Option.some.injEq, Prod.mk.injEq, List.append_assoc,
              List.append_cancel_left_eq, List.cons_append, List.nil_append, List.cons.injEq,
              Call.mk.injEq, and_true, true_and]
            omega
          · have hz : fd0 = 0 := by omega
            subst hz
            by_cases hf0 : first > 0
            · refine ⟨[(⟨first, 0 + first - 1, cur0 + first, 0 + first, false⟩ : Call)], ?_, ?_⟩
              · intro c hc; simp only [List.mem_singleton] at hc; subst hc; simp only; omega
              · have hfdp : 0 + first > 0 := by omega
                simp only [hfd0, hfdp, if_true, if_false, List.append_nil, List.map_append, List.map_cons,
                  List.map_nil, shiftCall, Option.some.injEq, Prod.mk.injEq, List.append_assoc,
                  List.append_cancel_left_eq, List.cons_append, List.nil_append, List.cons.injEq,
                  Call.mk.injEq, and_true, true_and]
                omega
            · have hf : first = 0 := by omega
              subst hf
              refine ⟨[], by simp, ?_⟩
              simp only [hfd0, if_false, List.append_nil, List.map_append, List.map_cons, List.map_nil,
                shiftCall, Nat.add_zero, Option.some.injEq, Prod.mk.injEq, List.append_cancel_left_eq,
                List.cons.injEq, Call.mk.injEq, and_true, true_and, Nat.sub_zero]

/-! ### `applyCall` under the shift -/

theorem ext_getP (l1 l2 : List Iup.Pt) (hl : l1.length = l2.length)
    (h : ∀ k, k < l1.length → getP l1 k = getP l2 k) : l1 = l2 := by
  apply List.ext_getElem hl
  intro k h1 h2
  have := h k h1
  unfold getP at this
  rw [List.getD_eq_getElem?_getD, List.getD_eq_getElem?_getD, List.getElem?_eq_getElem h1,
    List.getElem?_eq_getElem h2] at this
  simpa using this

theorem getP_append (a b : List Iup.Pt) (k : Nat) :
    getP (a ++ b) k = if k < a.length then getP a k else getP b (k - a.length) := by
  unfold getP
  rw [List.getD_eq_getElem?_getD, List.getD_eq_getElem?_getD, List.getD_eq_getElem?_getD]
  split
  · rename_i h; rw [List.getElem?_append_left h]
  · rename_i h; rw [List.getElem?_append_right (by omega)]

theorem getP_take_lt (l : List Iup.Pt) (d k : Nat) (h : k < d) : getP (l.take d) k = getP l k := by
  unfold getP
  rw [List.getD_eq_getElem?_getD, List.getD_eq_getElem?_getD, List.getElem?_take_of_lt h]

/-- what `applyCall` leaves at index `k`, as a function of the six values it reads -/
def callWrite (p1 o1 p2 o2 pk ok : Iup.Pt) (inRange isR1 shift : Bool) : Iup.Pt :=
  if shift then
    if fxSub o1.1 (fxFromI32 p1.1) = 0 ∧ fxSub o1.2 (fxFromI32 p1.2) = 0 then ok
    else if inRange && !isR1 then
      (fxAdd ok.1 (fxSub o1.1 (fxFromI32 p1.1)), fxAdd ok.2 (fxSub o1.2 (fxFromI32 p1.2)))
    else ok
  else if inRange then
    (fxInterpAxis p1.1 o1.1 p2.1 o2.1 pk.1 ok.1, fxInterpAxis p1.2 o1.2 p2.2 o2.2 pk.2 ok.2)
  else ok

theorem applyCall_getP (pts out : List Iup.Pt) (c : Call) (k : Nat) (hk : k < out.length) :
    getP (applyCall pts out c) k =
      if c.hi < c.lo then getP out k else
      callWrite (getP pts c.r1) (getP out c.r1) (getP pts c.r2) (getP out c.r2) (getP pts k) (getP out k)
        (decide (c.lo ≤ k ∧ k ≤ c.hi)) (decide (k = c.r1)) c.shift := by
  unfold applyCall callWrite
  by_cases h : c.hi < c.lo
  · simp [h]
  · simp only [h, if_false]
    cases hs : c.shift with
    | true =>
      simp only [if_true]
      by_cases hz : fxSub (getP out c.r1).1 (fxFromI32 (getP pts c.r1).1) = 0 ∧
          fxSub (getP out c.r1).2 (fxFromI32 (getP pts c.r1).2) = 0
      · simp [hz]
      · simp only [hz, if_false]
        rw [getP_map_range _ _ k hk]
        by_cases hr : c.lo ≤ k ∧ k ≤ c.hi ∧ k ≠ c.r1
        · have : (decide (c.lo ≤ k ∧ k ≤ c.hi) && !decide (k = c.r1)) = true := by
            simp; exact ⟨⟨hr.1, hr.2.1⟩, hr.2.2⟩
          rw [if_pos hr, this]; simp
        · have : (decide (c.lo ≤ k ∧ k ≤ c.hi) && !decide (k = c.r1)) = false := by
            simp; intro a b; by_contra hne; exact hr ⟨a, b, hne⟩
          rw [if_neg hr, this]; simp
    | false =>
      simp only [Bool.false_eq_true, if_false]
      rw [getP_map_range _ _ k hk]
      by_cases hr : c.lo ≤ k ∧ k ≤ c.hi
      · simp [hr]
      · simp [hr]

@[simp] theorem shiftCall_lo (d : Nat) (c : Call) : (shiftCall d c).lo = c.lo + d := rfl
@[simp] theorem shiftCall_hi (d : Nat) (c : Call) : (shiftCall d c).hi = c.hi + d := rfl
@[simp] theorem shiftCall_r1 (d : Nat) (c : Call) : (shiftCall d c).r1 = c.r1 + d := rfl
@[simp] theorem shiftCall_r2 (d : Nat) (c : Call) : (shiftCall d c).r2 = c.r2 + d := rfl
@[simp] theorem shiftCall_shift (d : Nat) (c : Call) : (shiftCall d c).shift = c.shift := rfl

/-- a shifted call acts on the dropped lists and leaves the first `d` entries alone -/
theorem applyCall_shift (pts out : List Iup.Pt) (d : Nat) (hd : d ≤ out.length) (c : Call) :
    applyCall pts out (shiftCall d c) = out.take d ++ applyCall (pts.drop d) (out.drop d) c := by
  apply ext_getP
  · simp [applyCall_length]; omega
  · intro k hk
    rw [applyCall_length] at hk
    rw [applyCall_getP pts out _ k hk, getP_append]
    simp only [List.length_take, Nat.min_eq_left hd]
    by_cases hkd : k < d
    · simp only [hkd, if_true, getP_take_lt out d k hkd]
      by_cases h0 : (shiftCall d c).hi < (shiftCall d c).lo
      · rw [if_pos h0]
      · rw [if_neg h0]
        have h1 : decide ((shiftCall d c).lo ≤ k ∧ k ≤ (shiftCall d c).hi) = false := by
          rw [decide_eq_false_iff_not]; show ¬ (c.lo + d ≤ k ∧ k ≤ c.hi + d); omega
        unfold callWrite
        rw [h1]
        simp only [Bool.false_and, Bool.false_eq_true, if_false]
        split
        · split <;> rfl
        · rfl
    · simp only [hkd, if_false]
      rw [applyCall_getP (pts.drop d) (out.drop d) c (k - d) (by simp; omega)]
      by_cases h0 : c.hi < c.lo
      · have h0' : (shiftCall d c).hi < (shiftCall d c).lo := by show c.hi + d < c.lo + d; omega
        rw [if_pos h0', if_pos h0, getP_drop]
        congr 1; omega
      · have h0' : ¬ (shiftCall d c).hi < (shiftCall d c).lo := by show ¬ (c.hi + d < c.lo + d); omega
        rw [if_neg h0', if_neg h0]
        simp only [getP_drop]
        have a1 : d + c.r1 = (shiftCall d c).r1 := by show d + c.r1 = c.r1 + d; omega
        have a2 : d + c.r2 = (shiftCall d c).r2 := by show d + c.r2 = c.r2 + d; omega
        have a3 : d + (k - d) = k := by omega
        rw [a1, a2, a3]
        congr 1
        · exact decide_eq_decide.mpr (by show (c.lo + d ≤ k ∧ k ≤ c.hi + d) ↔ _; omega)
        · exact decide_eq_decide.mpr (by show (k = c.r1 + d) ↔ _; omega)

theorem foldl_shift (pts : List Iup.Pt) (d : Nat) : ∀ (calls0 : List Call) (out : List Iup.Pt), d ≤ out.length →
    (calls0.map (shiftCall d)).foldl (applyCall pts) out
      = out.take d ++ calls0.foldl (applyCall (pts.drop d)) (out.drop d) := by
  intro calls0
  induction calls0 with
  | nil => intro out _; simp
  | cons c cs ih =>
    intro out hd
    simp only [List.map_cons, List.foldl_cons]
    rw [applyCall_shift pts out d hd c, ih _ (by simp; omega)]
    congr 1
    · simp [List.take_append_of_le_length, hd]
    · congr 1
      rw [List.drop_append_of_le_length (by simp [hd])]
      simp [Nat.min_eq_left hd]

theorem foldl_empty_calls (pts : List Iup.Pt) : ∀ (extra : List Call) (out : List Iup.Pt),
    (∀ c ∈ extra, c.hi < c.lo) → extra.foldl (applyCall pts) out = out := by
  intro extra
  induction extra with
  | nil => intro out _; rfl
  | cons c cs ih =>
    intro out h
    have hc := h c (by simp)
    simp only [List.foldl_cons]
    have : applyCall pts out c = out := by unfold applyCall; simp [hc]
    rw [this]
    exact ih out (fun x hx => h x (by simp [hx]))

/-! ### the whole glyph, contour by contour -/

/-- `interpolate_deltas` as a loop over the contours that applies each contour's calls at once -/
def glyphLoop (pts : List Iup.Pt) (has : List Bool) (np : Nat) : List Nat → Nat → List Iup.Pt → Option (List Iup.Pt)
  | [], _, out => some out
  | e :: ends, p, out =>
    match readerContourCalls has np p e with
    | none => none
    | some (calls, p') => glyphLoop pts has np ends p' (calls.foldl (applyCall pts) out)

theorem readerCalls_glyphLoop (pts : List Iup.Pt) (has : List Bool) (np : Nat) :
    ∀ (ends : List Nat) (p : Nat) (acc : List Call) (out : List Iup.Pt),
    (readerCalls has np ends p acc).map (fun cs => cs.foldl (applyCall pts) out)
      = glyphLoop pts has np ends p (acc.foldl (applyCall pts) out) := by
  intro ends
  induction ends with
  | nil => intro p acc out; simp [readerCalls, glyphLoop]
  | cons e es ih =>
    intro p acc out
    simp only [readerCalls, glyphLoop]
    cases h : readerContourCalls has np p e with
    | none => simp
    | some r =>
      obtain ⟨calls, p'⟩ := r
      simp only []
      rw [ih p' (acc ++ calls) out, List.foldl_append]

theorem readerInterpolate_eq_glyphLoop (pts : List Iup.Pt) (has : List Bool) (ends : List Nat)
    (out : List Iup.Pt) :
    readerInterpolate pts has ends out = glyphLoop pts has pts.length ends 0 out := by
  have := readerCalls_glyphLoop pts has pts.length ends 0 [] out
  simp only [List.foldl_nil] at this
  rw [← this]
  unfold readerInterpolate
  cases readerCalls has pts.length ends 0 [] <;> rfl

theorem readerInterpolate_single (pts : List Iup.Pt) (has : List Bool) (last : Nat) (W : List Iup.Pt) :
    readerInterpolate pts has [last] W
      = (readerContourCalls has pts.length 0 last).map (fun r => r.1.foldl (applyCall pts) W) := by
  rw [readerInterpolate_eq_glyphLoop]
  simp only [glyphLoop]
  cases readerContourCalls has pts.length 0 last with
  | none => rfl
  | some r => obtain ⟨a, b⟩ := r; rfl

/-- the contour end points are ascending and inside the glyph: contours are `p ..= e`, `e+1 ..= e'`, … -/
def ContoursWF (np : Nat) : Nat → List Nat → Prop
  | _, [] => True
  | p, e :: es => p ≤ e ∧ e < np ∧ ContoursWF np (e + 1) es

def ContoursAll (P : Nat → Nat → Prop) : Nat → List Nat → Prop
  | _, [] => True
  | p, e :: es => P p e ∧ ContoursAll P (e + 1) es

/-- first point after the last contour -/
def endOf : Nat → List Nat → Nat
  | p, [] => p
  | _, e :: es => endOf (e + 1) es

theorem endOf_ge (np : Nat) : ∀ (ends : List Nat) (p : Nat), ContoursWF np p ends → p ≤ endOf p ends := by
  intro ends
  induction ends with
  | nil => intro p _; exact Nat.le_refl _
  | cons e es ih => intro p ⟨h1, h2, h3⟩; have := ih (e + 1) h3; simp only [endOf]; omega

theorem ContoursAll_mono {P Q : Nat → Nat → Prop} : ∀ (ends : List Nat) (p : Nat),
    (∀ a b, P a b → Q a b) → ContoursAll P p ends → ContoursAll Q p ends := by
  intro ends
  induction ends with
  | nil => intro p _ _; trivial
  | cons e es ih => intro p h ⟨h1, h2⟩; exact ⟨h _ _ h1, ih _ h h2⟩

theorem workOf_drop (points ex : List Iup.Pt) (hl : ex.length = points.length) (d : Nat) :
    workOf (points.drop d) (ex.drop d) = (workOf points ex).drop d := by
  apply ext_getP
  · simp [workOf]
  · intro k hk
    have hk' : k < (points.drop d).length := by simpa [workOf] using hk
    rw [getP_workOf _ _ k hk', getP_drop, getP_drop, getP_drop]
    rw [getP_workOf _ _ (d + k) (by simp at hk'; omega)]

/-- the predicate of one contour: every point is `Near` the specification's inference on the
contour's own slice of the glyph -/
def ContourNear (points ex : List Iup.Pt) (has : List Bool) (out : List Iup.Pt) (first last : Nat) : Prop :=
  ∀ k, first ≤ k → k ≤ last →
    Near (inferSpec (points.drop first) ((ex.drop first).take (last - first + 1)) (has.drop first) (k - first))
      (getP out k) (getP points k)

/-- **all contours.**  Induction over the contour list: processing the contour `p ..= e` changes only
its own points — to values `Near` the specification's inference on that contour — and later
contours never touch earlier points. -/
theorem glyphLoop_contribution (np : Nat) (points ex : List Iup.Pt) (has : List Bool)
    (hpl : points.length = np) (hhl : has.length = np) (hel : ex.length = np)
    (M E : Int) (hM : 0 ≤ M ∧ M ≤ 16383) (hE : 0 ≤ E) (hfit : 131072 * M + 4 * E + 65536 ≤ 2147483647)
    (hpts : ∀ k, (-M ≤ (getP points k).1 ∧ (getP points k).1 ≤ M) ∧ (-M ≤ (getP points k).2 ∧ (getP points k).2 ≤ M))
    (hex : ∀ k, (-E ≤ (getP ex k).1 ∧ (getP ex k).1 ≤ E) ∧ (-E ≤ (getP ex k).2 ∧ (getP ex k).2 ≤ E))
    (hex0 : ∀ k, has.getD k false = false → getP ex k = (0, 0)) :
    ∀ (ends : List Nat) (p : Nat) (out : List Iup.Pt), ContoursWF np p ends → out.length = np →
      (∀ k, p ≤ k → k < np → getP out k = getP (workOf points ex) k) →
      ∃ out', glyphLoop points has np ends p out = some out' ∧ out'.length = np ∧
        (∀ k, k < p → getP out' k = getP out k) ∧
        ContoursAll (ContourNear points ex has out') p ends ∧
        (∀ k, endOf p ends ≤ k → k < np → getP out' k = getP (workOf points ex) k) := by
  intro ends
  induction ends with
  | nil =>
    intro p out _ hl hw
    exact ⟨out, rfl, hl, fun _ _ => rfl, trivial, fun k h1 h2 => hw k h1 h2⟩
  | cons e es ih =>
    intro p out ⟨hpe, hen, hwf⟩ hl hw
    have hwl : (workOf points ex).length = np := by simp [workOf, hpl]
    -- the contour moved to the front
    let n := e - p + 1
    let T := np - p - n
    have hnT : n + T = np - p := by simp only [n, T]; omega
    obtain ⟨out0, e0, l0, hc0, ht0⟩ := contour_contribution n T (by simp only [n]; omega) (points.drop p) (ex.drop p)
      (has.drop p) (by simp [hpl]; omega) (by simp [hhl]; omega) (by simp [hel]; omega) M E hM hE hfit
      (fun k => by rw [getP_drop]; exact hpts _) (fun k => by rw [getP_drop]; exact hex _)
      (fun k hk => by rw [getP_drop]; exact hex0 _ (by rw [← getD_drop_bool]; exact hk))
    have hn1 : n - 1 = e - p := by simp only [n]; omega
    rw [hn1, readerInterpolate_single] at e0
    have hdl : (points.drop p).length = np - p := by simp [hpl]
    rw [hdl] at e0
    obtain ⟨extra, hextra, hshift⟩ := readerContourCalls_shift has np p e hpe hen
    cases hz : readerContourCalls (has.drop p) (np - p) 0 (e - p) with
    | none => rw [hz] at e0; simp at e0
    | some r =>
      obtain ⟨calls0, p0⟩ := r
      rw [hz] at e0 hshift
      simp only [Option.map_some, Option.some.injEq] at e0 hshift
      -- where the zero-based loop stops
      have hp0 : p0 = e - p + 1 := by
        have := hz
        unfold readerContourCalls at this
        simp only [Nat.sub_zero] at this
        obtain ⟨fd, es1, s1, s2, s3, s4⟩ := scanFirst_spec (has.drop p) (np - p) (e - p) (by omega) (e - p + 2) 0
          (by omega) (by omega)
        rw [es1] at this
        simp only [] at this
        split at this
        · simp only [Option.some.injEq, Prod.mk.injEq] at this; omega
        · cases hi : innerLoop (has.drop p) (np - p) (e - p) (e - p + 1 - fd) (fd + 1) fd [] with
          | none => simp [hi] at this
          | some r2 =>
            obtain ⟨c2, cur2⟩ := r2
            simp only [hi] at this
            split at this <;> (simp only [Option.some.injEq, Prod.mk.injEq] at this; omega)
      -- the working points of this contour and everything after it are still the initial ones
      have hdrop : out.drop p = workOf (points.drop p) (ex.drop p) := by
        rw [workOf_drop points ex (by omega) p]
        apply ext_getP
        · simp [hl, hwl]
        · intro k hk
          rw [getP_drop, getP_drop]
          exact hw _ (by omega) (by simp [hl] at hk; omega)
      -- one step of the loop
      have hstep : (calls0.map (shiftCall p) ++ extra).foldl (applyCall points) out = out.take p ++ out0 := by
        rw [List.foldl_append, foldl_empty_calls points extra _ hextra, foldl_shift points p calls0 out (by omega),
          hdrop, e0]
      have hout1l : (out.take p ++ out0).length = np := by
        simp only [List.length_append, List.length_take, l0, hl]; omega
      simp only [glyphLoop, hshift, hstep]
      have hp' : p0 + p = e + 1 := by omega
      rw [hp']
      obtain ⟨out', g1, g2, g3, g4, g5⟩ := ih (e + 1) (out.take p ++ out0) hwf hout1l (by
        intro k hk1 hk2
        rw [getP_append]
        have : ¬ k < (out.take p).length := by simp [hl]; omega
        rw [if_neg this]
        have hkl : (out.take p).length = p := by simp [hl]; omega
        rw [hkl, ht0 (k - p) (by simp only [n]; omega) (by omega), ← hdrop, getP_drop]
        have : p + (k - p) = k := by omega
        rw [this]
        exact hw k (by omega) hk2)
      refine ⟨out', g1, g2, ?_, ⟨?_, g4⟩, g5⟩
      · intro k hk
        rw [g3 k (by omega), getP_append]
        have : k < (out.take p).length := by simp [hl]; omega
        rw [if_pos this, getP_take_lt out p k hk]
      · intro k hk1 hk2
        rw [g3 k (by omega), getP_append]
        have hkl : (out.take p).length = p := by simp [hl]; omega
        have : ¬ k < (out.take p).length := by omega
        rw [if_neg this, hkl]
        have := hc0 (k - p) (by simp only [n]; omega)
        rw [getP_drop] at this
        have e1 : p + (k - p) = k := by omega
        rw [e1] at this
        exact this

end FontVerif.GvarApply
