/-
Lemmas for C19: the candidates `intersecting_patches` hands to the selection, traced back to the
format-2 entries they come from (`IsF2Offer`), so that the `IntersectionInfo` order of the selection
theorems becomes a statement about the sizes of the real set intersections
(Lemmas/PatchMapCount.lean).
-/
import FontVerif.Lemmas.PatchGroup
import FontVerif.Lemmas.PatchMapCount
set_option linter.unusedVariables false
namespace FontVerif.PatchGroup
open FontVerif FontVerif.PatchMap FontVerif.UriTemplate

/-- the intersection info the code records for entry `e` (at index `order`) and definition `d`:
`IntersectionInfo::from_subset(e.subset_definition.intersection(d), order)`.  Its three size fields
are the cardinalities / measure of the set intersections: `intersection_info_counts_exact`. -/
def sizeInfo (e : Entry) (d : SubsetDef) (order : Nat) : IntersectionInfo :=
  IntersectionInfo.fromSubset (e.sd.intersection d) order

/-- `u` is the uri that format-2 table `m` (read as table `tag`) offers for its entry `i` = `e` -/
def IsF2Offer (tag : TableTag) (m : MapTable) (d : SubsetDef) (u : PatchUri) (i : Nat) (e : Entry) :
    Prop :=
  ∃ t es, m = .f2 t ∧ decodeF2 tag t = .ok es ∧ es[i]? = some e ∧ i ∈ offeredIdx es d ∧
    u = offeredUri d i e

def notF1 : MapTable → Prop
  | .f1 _ => False
  | _ => True

theorem offeredUri_enc (d : SubsetDef) (i : Nat) (e : Entry) : (offeredUri d i e).enc = e.uri.enc := by
  unfold offeredUri; split <;> rfl

theorem isF2Offer_info {tag : TableTag} {m : MapTable} {d : SubsetDef} {u : PatchUri} {i : Nat}
    {e : Entry} (h : IsF2Offer tag m d u i e) (hinv : u.enc.isInvalidating = true) :
    u.info = sizeInfo e d i := by
  obtain ⟨t, es, _, _, _, _, rfl⟩ := h
  rw [offeredUri_enc] at hinv
  simp [offeredUri, hinv, sizeInfo]

theorem mem_intersectTable_f2 {tag : TableTag} {d : SubsetDef} {m : MapTable} {us : List PatchUri}
    (hm : notF1 m) (h : intersectTable tag d m = .ok us) (u : PatchUri) :
    u ∈ us ↔ ∃ i e, IsF2Offer tag m d u i e := by
  cases m with
  | none =>
    simp only [intersectTable] at h; cases h
    constructor
    · intro hu; cases hu
    · rintro ⟨_, _, t, _, hx, _⟩; cases hx
  | f1 t => exact absurd hm (by simp [notF1])
  | f2 t =>
    simp only [intersectTable, intersectF2] at h
    split at h
    · cases h
    · next es hes =>
      cases h
      simp only [offeredF2, List.mem_map]
      constructor
      · rintro ⟨i, hi, rfl⟩
        have hlt := ((mem_offeredIdx es d i).1 hi).1
        refine ⟨i, es.getD i default, t, es, rfl, hes, ?_, hi, rfl⟩
        rw [List.getD_eq_getElem?_getD, List.getElem?_eq_getElem hlt]; rfl
      · rintro ⟨i, e, t', es', ht, hes', hi, hoff, rfl⟩
        cases ht
        rw [hes] at hes'; cases hes'
        refine ⟨i, hoff, ?_⟩
        rw [List.getD_eq_getElem?_getD, hi]; rfl

theorem intersectingPatches_split {ift iftx : MapTable} {d : SubsetDef} {cands : List PatchUri}
    (h : intersectingPatches ift iftx d = .ok cands) :
    ∃ a b, intersectTable .ift d ift = .ok a ∧ intersectTable .iftx d iftx = .ok b ∧ cands = a ++ b := by
  unfold intersectingPatches at h
  split at h
  · cases h
  · next a ha =>
    split at h
    · cases h
    · next b hb => cases h; exact ⟨a, b, ha, hb, rfl⟩

end FontVerif.PatchGroup
