/-
Helper lemmas for C05 (Model/Graph.lean): after extension promotion the remaining fresh ids are
still unused and the objects are still well formed, so that the rest of `pack_objects` can be run
through the simulation argument.
-/
import FontVerif.Model.Graph
import FontVerif.Lemmas.GraphPromo2
import FontVerif.Lemmas.GraphEnd
set_option linter.unusedVariables false
set_option linter.unusedSimpArgs false
namespace FontVerif.Graph
open FontVerif

theorem actuallyPromote_inv (tg tg' : TGraph) (sel fresh fresh' : List Nat) (hh : PromoHyp tg fresh)
    (h : actuallyPromote tg sel fresh = some (tg', fresh')) :
    ∃ done tg1, PromoInv tg fresh done tg1 fresh' ∧ tg'.g.objects = tg1.g.objects ∧ tg'.g.nodes = tg1.g.nodes ∧
      tg'.types = tg1.types ∧ tg'.g.root = tg1.g.root := by
  unfold actuallyPromote at h
  split at h
  · simp at h
  · rename_i tg1 fr1 hfold
    simp only [Option.some.injEq, Prod.mk.injEq] at h
    obtain ⟨rfl, rfl⟩ := h
    obtain ⟨done, hinv, _⟩ := promoFold_inv tg fresh hh sel [] tg fresh tg1 fr1 (promoInv_init tg fresh) hfold
    exact ⟨done, tg1, hinv, rfl, rfl, rfl, rfl⟩

theorem makeExtension_links (r t : Nat) : (makeExtension r t).links = [⟨4, 4, t, 0⟩] := rfl

theorem promoInv_unused (tg0 : TGraph) (fr0 : List Nat) (hh : PromoHyp tg0 fr0) (done : List Nat) (tg : TGraph)
    (fr : List Nat) (hinv : PromoInv tg0 fr0 done tg fr) : ∀ n ∈ fr, Unused tg.g n := by
  intro n hn
  have hn0 : n ∈ fr0 := hinv.suffix.subset hn
  obtain ⟨u1, u2, u3⟩ := hh.unused n hn0
  have hnd : n ∉ done := fun hd => (hinv.doneOK n hd).present.1 u1
  refine ⟨?_, ?_, ?_⟩
  · rw [(hinv.frame n hnd (Or.inr hn)).2.2.1]; exact u1
  · intro x l hl
    by_cases hd : x ∈ done
    · intro he
      exact ((hinv.doneOK x hd).newTargets l hl).2 (he ▸ hn)
    · by_cases hc : x ∈ fr0 ∧ x ∉ fr
      · obtain ⟨_, _, r, t, ho, y, l0, hl0, hl0t⟩ := hinv.consumed x hc.1 hc.2
        rw [ho, makeExtension_links] at hl
        simp only [List.mem_singleton] at hl
        rw [hl]
        simp only []
        rw [← hl0t]
        exact u2 y l0 hl0
      · have hfr : x ∉ fr0 ∨ x ∈ fr := by
          by_cases h1 : x ∈ fr0
          · right; exact Classical.byContradiction (fun h2 => hc ⟨h1, h2⟩)
          · left; exact h1
        rw [(hinv.frame x hd hfr).1] at hl
        exact u2 x l hl
  · intro x p hp
    by_cases hd : x ∈ done
    · rw [(hinv.doneOK x hd).nodeId] at hp
      exact u3 x p hp
    · by_cases hc : x ∈ fr0 ∧ x ∉ fr
      · rw [(hinv.consumed x hc.1 hc.2).2.1] at hp
        simp [Node.new] at hp
      · have hfr : x ∉ fr0 ∨ x ∈ fr := by
          by_cases h1 : x ∈ fr0
          · right; exact Classical.byContradiction (fun h2 => hc ⟨h1, h2⟩)
          · left; exact h1
        rw [(hinv.frame x hd hfr).2.1] at hp
        exact u3 x p hp

/-- after promotion the remaining ids are still fresh for the promoted graph -/
theorem promote_freshFor (tg tg' : TGraph) (sel fresh fresh' : List Nat) (hh : PromoHyp tg fresh)
    (hroot : tg.g.root ∉ fresh) (h : actuallyPromote tg sel fresh = some (tg', fresh')) :
    FreshFor tg'.g fresh' := by
  obtain ⟨done, tg1, hinv, ho, hn, ht, hr⟩ := actuallyPromote_inv tg tg' sel fresh fresh' hh h
  refine ⟨hh.nodup.sublist hinv.suffix.sublist, ?_, ?_⟩
  · rw [hr, hinv.root]
    exact fun hm => hroot (hinv.suffix.subset hm)
  · intro n hn'
    exact unused_congr tg1.g tg'.g ho hn n (promoInv_unused tg fresh hh done tg1 fresh' hinv n hn')

theorem objWF_len (o' o : Obj) (hb : o'.bytes.length = o.bytes.length) (hf : fieldsOf o' = fieldsOf o) (h : ObjWF o) :
    ObjWF o' := by
  constructor
  · intro l' hl'
    obtain ⟨l, hl, h1, h2, _⟩ := mem_fields o' o hf l' hl'
    have := h.1 l hl
    rw [h1, h2, ← hb] at this
    exact this
  · have hp : (fieldsOf o).Pairwise (fun a b => a.1 + a.2.1 ≤ b.1 ∨ b.1 + b.2.1 ≤ a.1) := by
      unfold fieldsOf
      rw [List.pairwise_map]
      exact h.2
    rw [← hf] at hp
    unfold fieldsOf at hp
    rw [List.pairwise_map] at hp
    exact hp

theorem objWF_makeExtension (r t : Nat) : ObjWF (makeExtension r t) := by
  constructor
  · intro l hl
    rw [makeExtension_links] at hl
    simp only [List.mem_singleton] at hl
    subst hl
    simp [makeExtension]
  · rw [makeExtension_links]
    exact List.pairwise_singleton _ _

/-- the promoted graph's objects are as well formed as the input's -/
theorem promote_wf (tg tg' : TGraph) (sel fresh fresh' : List Nat) (hh : PromoHyp tg fresh)
    (hwf : ∀ id o, tg.g.objects.find? id = some o → ObjWF o)
    (h : actuallyPromote tg sel fresh = some (tg', fresh')) :
    ∀ id o, tg'.g.objects.find? id = some o → ObjWF o := by
  obtain ⟨done, tg1, hinv, ho, hn, ht, hr⟩ := actuallyPromote_inv tg tg' sel fresh fresh' hh h
  intro x o hfo
  rw [ho] at hfo
  rw [← obj_of_find hfo]
  by_cases hd : x ∈ done
  · have hp := hinv.doneOK x hd
    obtain ⟨r, _, _, _, _, r5⟩ := hp.raw
    apply objWF_len _ (tg.g.obj x) hp.blen ?_ (objWF_obj tg.g hwf x)
    have := congrArg (List.map (fun (q : Nat × Nat × Nat × Obj) => (q.1, q.2.1, q.2.2.1))) r5
    simpa [fieldsOf, List.map_map, Function.comp_def] using this
  · by_cases hc : x ∈ fresh ∧ x ∉ fresh'
    · obtain ⟨_, _, r, t, hox, _⟩ := hinv.consumed x hc.1 hc.2
      rw [hox]
      exact objWF_makeExtension r t
    · have hfr : x ∉ fresh ∨ x ∈ fresh' := by
        by_cases h1 : x ∈ fresh
        · right; exact Classical.byContradiction (fun h2 => hc ⟨h1, h2⟩)
        · left; exact h1
      rw [(hinv.frame x hd hfr).1]
      exact objWF_obj tg.g hwf x

/-! ### `basic_sort` keeps unused ids unused -/

theorem basicSort_unused (g g' : Graph) (ok : Bool) (h : basicSort g = some (ok, g')) (n : Nat) (hu : Unused g n) :
    Unused g' n := by
  unfold basicSort at h
  simp only [Option.bind_eq_bind, Option.bind_eq_some_iff] at h
  obtain ⟨g1, hk, ov, hov, h⟩ := h
  have h1 := sortKahn_unused g g1 hk n hu
  cases ov with
  | false =>
    bsimp at h
    obtain ⟨_, rfl⟩ := h
    exact h1
  | true =>
    bsimp at h
    obtain ⟨g2, hs, ov2, hov2, _, h2⟩ := h
    subst h2
    exact sortShortest_unused g1 g2 hs n h1

theorem basicSort_objects (g g' : Graph) (ok : Bool) (h : basicSort g = some (ok, g')) :
    g'.objects = g.objects ∧ g'.root = g.root := by
  unfold basicSort at h
  simp only [Option.bind_eq_bind, Option.bind_eq_some_iff] at h
  obtain ⟨g1, hk, ov, hov, h⟩ := h
  have h1 := sortKahn_objects g g1 hk
  cases ov with
  | false =>
    bsimp at h
    obtain ⟨_, rfl⟩ := h
    exact h1
  | true =>
    bsimp at h
    obtain ⟨g2, hs, ov2, hov2, _, h2⟩ := h
    subst h2
    have h2 := sortShortest_spec g1 g2 hs
    exact ⟨h2.1.trans h1.1, h2.2.1.trans h1.2⟩

end FontVerif.Graph
