/-
C04 ⇄ C05, DSL lift, part 1: a run of the nested writer (`emitN`) whose offset slots are filled with the numbers found
in a byte string is a run of the scalar writer (`emit`) on the object whose offset scalars ARE those numbers.
-/
import FontVerif.Model.FieldNested
import FontVerif.Lemmas.FieldRT
set_option linter.unusedVariables false
set_option linter.unusedSimpArgs false
namespace FontVerif.FieldNested
open FontVerif FontVerif.Field FontVerif.TableWriter FontVerif.C04

/-- two views agree on every field that is not an offset field -/
def AgreeOff (slots : Slots) (v1 v2 : View) : Prop := ∀ f, slotW slots f = none → v1.lookup f = v2.lookup f

theorem AgreeOff.refl (slots : Slots) (v : View) : AgreeOff slots v v := fun _ _ => rfl

theorem AgreeOff.cons_same (slots : Slots) (v1 v2 : View) (e : Nat × Val) (h : AgreeOff slots v1 v2) :
    AgreeOff slots (e :: v1) (e :: v2) := by
  intro f hf
  simp only [List.lookup]
  split
  · rfl
  · exact h f hf

theorem AgreeOff.cons_slot (slots : Slots) (v1 v2 : View) (id : Nat) (x y : Val) (hs : slotW slots id ≠ none)
    (h : AgreeOff slots v1 v2) : AgreeOff slots ((id, x) :: v1) ((id, y) :: v2) := by
  intro f hf
  have hne : f ≠ id := fun he => hs (he ▸ hf)
  rw [lookup_cons_ne v1 id f x hne, lookup_cons_ne v2 id f y hne]
  exact h f hf

theorem condHolds_agree (slots : Slots) (v1 v2 : View) (c : Option (Nat × Cond)) (h : AgreeOff slots v1 v2)
    (hc : ∀ vf cc, c = some (vf, cc) → slotW slots vf = none) : condHolds v1 c = condHolds v2 c :=
  condHolds_congr v2 v1 c (fun vf cc he => h vf (hc vf cc he))

/-- `emit` with the offset statements taking their value from the bytes `seg` (at the position the statement writes
to); a proof device between `emitN` and `emit` -/
def emitAt (ext : Ext) (o : Obj) (slots : Slots) (seg : Bytes) : List WF → View → Nat → Option (Bytes × View)
  | [], view, _ => some ([], view)
  | w :: ws, view, len =>
    match slotW slots w.id with
    | some width =>
      if condHolds view w.cond then
        if beVal ((seg.drop len).take width) < 256 ^ width then
          match emitAt ext o slots seg ws ((w.id, .num (beVal ((seg.drop len).take width))) :: view) (len + width) with
          | some (bs, v) => some (be width (beVal ((seg.drop len).take width)) ++ bs, v)
          | none => none
        else none
      else emitAt ext o slots seg ws ((w.id, .absent) :: view) len
    | none =>
      match emitField ext o view w with
      | none => none
      | some (b, v) =>
        match emitAt ext o slots seg ws ((w.id, v) :: view) (len + b.length) with
        | some (bs, v') => some (b ++ bs, v')
        | none => none

theorem slotOK_cons (slots : Slots) (w : WF) (ws : List WF) (h : slotOK slots (w :: ws) = true) :
    slotOK slots [w] = true ∧ slotOK slots ws = true := by
  simp only [slotOK, List.all_cons, List.all_nil, Bool.and_true, Bool.and_eq_true] at h ⊢
  exact ⟨h.1, h.2⟩

theorem slotOK_cond (slots : Slots) (w : WF) (h : slotOK slots [w] = true) :
    ∀ vf cc, w.cond = some (vf, cc) → slotW slots vf = none := by
  intro vf cc hc
  simp only [slotOK, List.all_cons, List.all_nil, Bool.and_true, Bool.and_eq_true, hc] at h
  simpa using h.1

theorem slotOK_slot (slots : Slots) (w : WF) (width : Nat) (h : slotOK slots [w] = true)
    (hs : slotW slots w.id = some width) :
    w.item = .scalar .field width ∧ (width = 2 ∨ width = 3 ∨ width = 4) := by
  simp only [slotOK, List.all_cons, List.all_nil, Bool.and_true, Bool.and_eq_true, hs] at h
  obtain ⟨_, h1, h2⟩ := h
  simp only [decide_eq_true_eq] at h1
  simp only [Bool.or_eq_true, beq_iff_eq] at h2
  exact ⟨h1, by rcases h2 with (h2 | h2) | h2 <;> simp [h2]⟩

theorem slotOK_count (slots : Slots) (w : WF) (h : slotOK slots [w] = true) (hs : slotW slots w.id = none)
    (arr a b sz : Nat) (hi : w.item = .scalar (.count arr a b) sz) : slotW slots arr = none := by
  simp only [slotOK, List.all_cons, List.all_nil, Bool.and_true, Bool.and_eq_true, hs, hi] at h
  simpa using h.2

/-- later statements do not touch the entry of another field -/
theorem emitAt_lookup (ext : Ext) (o : Obj) (slots : Slots) (seg : Bytes) :
    ∀ (ws : List WF) (view : View) (len : Nat) (bs : Bytes) (vA : View),
      emitAt ext o slots seg ws view len = some (bs, vA) →
      ∀ f, (∀ w ∈ ws, w.id ≠ f) → vA.lookup f = view.lookup f := by
  intro ws
  induction ws with
  | nil =>
    intro view len bs vA h f _
    simp only [emitAt, Option.some.injEq, Prod.mk.injEq] at h
    rw [h.2]
  | cons w ws ih =>
    intro view len bs vA h f hf
    have hne : f ≠ w.id := fun he => hf w List.mem_cons_self he.symm
    have hrest : ∀ w' ∈ ws, w'.id ≠ f := fun w' hw' => hf w' (List.mem_cons_of_mem _ hw')
    simp only [emitAt] at h
    split at h
    · split at h
      · split at h
        · split at h
          · rename_i bs' v' hrec
            simp only [Option.some.injEq, Prod.mk.injEq] at h
            rw [← h.2, ih _ _ _ _ hrec f hrest, lookup_cons_ne _ _ _ _ hne]
          · cases h
        · cases h
      · rw [ih _ _ _ _ h f hrest, lookup_cons_ne _ _ _ _ hne]
    · split at h
      · cases h
      · split at h
        · rename_i bs' v' hrec
          simp only [Option.some.injEq, Prod.mk.injEq] at h
          rw [← h.2, ih _ _ _ _ hrec f hrest, lookup_cons_ne _ _ _ _ hne]
        · cases h

/-- an ordinary statement writes the same for two objects that differ only in offset scalars -/
theorem emitField_congr (ext : Ext) (o O' : Obj) (slots : Slots) (view : View) (w : WF)
    (hok : slotOK slots [w] = true) (hs : slotW slots w.id = none)
    (hO : ∀ f, slotW slots f = none → O'.get f = o.get f) (hext : ∀ k, ext k O' = ext k o) :
    emitField ext O' view w = emitField ext o view w := by
  unfold emitField
  split
  · cases hi : w.item with
    | scalar src sz =>
      simp only []
      have : srcVal ext O' w.id src = srcVal ext o w.id src := by
        cases src with
        | field => simp only [srcVal, hO w.id hs]
        | const v => rfl
        | count arr a b => simp only [srcVal, hO arr (slotOK_count slots w hok hs arr a b sz hi)]
        | computed k => simp only [srcVal, hext k]
      rw [this]
    | array elem fixed => simp only [hO w.id hs]
    | arrayV pre tail fixed => simp only [hO w.id hs]
    | arrayL hw item => simp only [hO w.id hs]
  · rfl

/-- **`emitAt` is `emit` on the object that carries the offsets found in the bytes.**  `O'` is any object that agrees
with `o` outside the offset fields and whose offset scalars are the entries of the final view. -/
theorem emitAt_emit (ext : Ext) (o O' : Obj) (slots : Slots) (seg : Bytes)
    (hO : ∀ f, slotW slots f = none → O'.get f = o.get f) (hext : ∀ k, ext k O' = ext k o) :
    ∀ (ws pre : List WF) (view : View) (len : Nat) (bs : Bytes) (vA : View),
      emitAt ext o slots seg ws view len = some (bs, vA) → wfW pre ws = true → slotOK slots ws = true →
      (∀ w ∈ ws, slotW slots w.id ≠ none → ∀ x, vA.lookup w.id = some (.num x) → O'.get w.id = .num x) →
      emit ext O' ws view = some (bs, vA) := by
  intro ws
  induction ws with
  | nil =>
    intro pre view len bs vA h _ _ _
    simp only [emitAt, Option.some.injEq, Prod.mk.injEq] at h
    simp only [emit, h.1, h.2]
  | cons w ws ih =>
    intro pre view len bs vA h hwf hok hslot
    obtain ⟨hok1, hokr⟩ := slotOK_cons slots w ws hok
    have hwf' := hwf
    simp only [wfW, Bool.and_eq_true, Bool.not_eq_true'] at hwf'
    obtain ⟨⟨_, _⟩, hwfr⟩ := hwf'
    have hfresh : ∀ w' ∈ ws, w'.id ≠ w.id := fun w' hw' he =>
      wfW_fresh ws (w :: pre) hwfr w' hw' w List.mem_cons_self he.symm
    have hslotr : ∀ w' ∈ ws, slotW slots w'.id ≠ none → ∀ x, vA.lookup w'.id = some (.num x) → O'.get w'.id = .num x :=
      fun w' hw' => hslot w' (List.mem_cons_of_mem _ hw')
    simp only [emitAt] at h
    simp only [emit]
    split at h
    · rename_i width hs
      obtain ⟨hitem, _⟩ := slotOK_slot slots w width hok1 hs
      split at h
      · rename_i hc
        split at h
        · rename_i hlt
          split at h
          · rename_i bs' v' hrec
            simp only [Option.some.injEq, Prod.mk.injEq] at h
            obtain ⟨h1, h2⟩ := h
            subst h2
            have hlook : v'.lookup w.id = some (.num (beVal ((seg.drop len).take width))) := by
              rw [emitAt_lookup ext o slots seg ws _ _ _ _ hrec w.id hfresh]
              simp [List.lookup]
            have hget := hslot w List.mem_cons_self (by rw [hs]; simp) _ hlook
            have hef : emitField ext O' view w = some (be width (beVal ((seg.drop len).take width)),
                .num (beVal ((seg.drop len).take width))) := by
              unfold emitField
              rw [if_pos hc, hitem]
              simp only [srcVal, hget, if_pos hlt]
            rw [hef]
            simp only []
            rw [ih (w :: pre) _ _ _ _ hrec hwfr hokr hslotr, ← h1]
          · cases h
        · cases h
      · rename_i hc
        have hef : emitField ext O' view w = some ([], .absent) := by
          unfold emitField
          rw [if_neg hc]
        rw [hef]
        simp only []
        rw [ih (w :: pre) _ _ _ _ h hwfr hokr hslotr]
        simp
    · rename_i hs
      rw [emitField_congr ext o O' slots view w hok1 hs hO hext]
      split at h
      · cases h
      · rename_i b v hf
        split at h
        · rename_i bs' v' hrec
          simp only [Option.some.injEq, Prod.mk.injEq] at h
          obtain ⟨h1, h2⟩ := h
          subst h2
          rw [hf]
          simp only []
          rw [ih (w :: pre) _ _ _ _ hrec hwfr hokr hslotr, ← h1]
        · cases h

end FontVerif.FieldNested
