/-
`TupleVariation::compute_scalar` (Model/GvarApply.lean `tupleScalar`) against the exact tent
function: dropping implied intermediates does not change the scalar, and the 16.16 scalar is
within half a unit of 2⁻¹⁶ per rounding step of the exact product.
-/
import FontVerif.Model.GvarApply
import FontVerif.Lemmas.TentLemmas
import Mathlib.Tactic.Ring
import Mathlib.Tactic.Linarith
set_option linter.unusedVariables false
namespace FontVerif.GvarApply
open FontVerif

/-! ### implied intermediates -/

theorem mulDiv_neg_neg (s a b : Int) (ha : a < 0) (hb : b < 0) :
    Fixed.mulDiv s a b = Fixed.mulDiv s (-a) (-b) := by
  unfold Fixed.mulDiv iabs
  have h1 : ¬ (-a < 0) := by omega
  have h2 : ¬ (-b < 0) := by omega
  have e1 : (if -a < 0 then - -a else -a) = (if a < 0 then -a else a) := by rw [if_neg h1, if_pos ha]
  have e2 : (if -b < 0 then - -b else -b) = (if b < 0 then -b else b) := by rw [if_neg h2, if_pos hb]
  simp only [e1, e2, ha, hb, h1, h2, decide_true, decide_false]
  cases decide (s < 0) <;> rfl

theorem fsub_zero_right (x : Int) (h : -131072 ≤ x ∧ x ≤ 131068) : Tent.fsub x 0 = x := by
  unfold Tent.fsub; simp only [Int.sub_zero]; unfold wrapI32; simp only []; split <;> omega

theorem fsub_zero_left (x : Int) (h : -131072 ≤ x ∧ x ≤ 131068) : Tent.fsub 0 x = -x := by
  unfold Tent.fsub; simp only [Int.zero_sub]; unfold wrapI32; simp only []; split <;> omega

/-- one axis: no intermediate region = the region `(min(peak,0), peak, max(peak,0))` -/
theorem scalarAxis_implied (s c p : Int) (hc : -131072 ≤ c ∧ c ≤ 131068) (hp : -131072 ≤ p ∧ p ≤ 131068) :
    scalarAxis s c p none = scalarAxis s c p (some (min p 0, max p 0)) := by
  unfold scalarAxis
  by_cases h0 : p = 0
  · simp [h0]
  · by_cases h1 : p = c
    · simp [h0, h1]
    · by_cases h2 : c = 0
      · simp [h0, h1, h2]
      · simp only [h0, h1, h2, if_false]
        by_cases hpos : 0 < p
        · have e1 : min p 0 = 0 := Int.min_eq_right (by omega)
          have e2 : max p 0 = p := Int.max_eq_left (by omega)
          rw [e1, e2]
          by_cases hout : c < 0 ∨ c > p
          · have : c ≤ 0 ∨ c ≥ p := by omega
            rw [if_pos hout, if_pos this]
          · have h3 : ¬ (c ≤ 0 ∨ c ≥ p) := by omega
            have h4 : c < p := by omega
            rw [if_neg hout, if_neg h3, if_pos h4, fsub_zero_right c hc, fsub_zero_right p hp]
        · have hneg : p < 0 := by omega
          have e1 : min p 0 = p := Int.min_eq_left (by omega)
          have e2 : max p 0 = 0 := Int.max_eq_right (by omega)
          rw [e1, e2]
          by_cases hout : c < p ∨ c > 0
          · have : c ≤ p ∨ c ≥ 0 := by omega
            rw [if_pos hout, if_pos this]
          · have h3 : ¬ (c ≤ p ∨ c ≥ 0) := by omega
            have h4 : ¬ c < p := by omega
            rw [if_neg hout, if_neg h3, if_neg h4, fsub_zero_left c hc, fsub_zero_left p hp,
              mulDiv_neg_neg s c p (by omega) hneg]

theorem scalarGo_implied (peak : List Int) (hp : ∀ v ∈ peak, inI16 v) :
    ∀ (s : Int) (coords : List Int), (∀ v ∈ coords, inI16 v) →
    scalarGo false s peak [] [] coords
      = scalarGo true s peak (peak.map fun p => min p 0) (peak.map fun p => max p 0) coords := by
  induction peak with
  | nil => intro s coords _; rfl
  | cons p ps ih =>
    intro s coords hc
    have hp0 := hp p (by simp)
    have hc0 : inI16 (coords.headD 0) := by
      cases coords with
      | nil => simp [inI16]
      | cons c cs => exact hc c (by simp)
    have hct : ∀ v ∈ coords.tail, inI16 v := fun v hv => hc v (List.mem_of_mem_tail hv)
    simp only [scalarGo, Bool.false_eq_true, if_false, if_true, List.map_cons, List.headD_cons, List.tail_cons]
    have hmin : Fixed.f2dot14ToFixed (min p 0) = min (Fixed.f2dot14ToFixed p) 0 := by
      unfold Fixed.f2dot14ToFixed; rcases Int.le_total p 0 with h | h
      · rw [Int.min_eq_left h, Int.min_eq_left (by omega)]
      · rw [Int.min_eq_right h, Int.min_eq_right (by omega)]; rfl
    have hmax : Fixed.f2dot14ToFixed (max p 0) = max (Fixed.f2dot14ToFixed p) 0 := by
      unfold Fixed.f2dot14ToFixed; rcases Int.le_total p 0 with h | h
      · rw [Int.max_eq_right h, Int.max_eq_right (by omega)]; rfl
      · rw [Int.max_eq_left h, Int.max_eq_left (by omega)]
    rw [hmin, hmax, ← scalarAxis_implied s _ _
      (by unfold inI16 at hc0; unfold Fixed.f2dot14ToFixed; omega)
      (by unfold inI16 at hp0; unfold Fixed.f2dot14ToFixed; omega)]
    cases scalarAxis s (Fixed.f2dot14ToFixed (coords.headD 0)) (Fixed.f2dot14ToFixed p) none with
    | none => rfl
    | some s' => exact ih (fun v hv => hp v (by simp [hv])) s' coords.tail hct

/-! ### the exact tent -/

/-- exact tent factor of one axis as a fraction, on F2Dot14 bits; `none` = the location is outside
the region on this axis (or on its boundary): the tuple does not apply.  `inter = none` means the
implied region `(min(peak,0), max(peak,0))`. -/
def tentAxis (c p : Int) (inter : Option (Int × Int)) : Option (Int × Int) :=
  if p = 0 then some (1, 1)
  else if p = c then some (1, 1)
  else
    let st := (inter.getD (min p 0, max p 0)).1
    let en := (inter.getD (min p 0, max p 0)).2
    if c ≤ st ∨ c ≥ en then none
    else if c < p then some (c - st, p - st) else some (en - c, en - p)

/-- exact tent product `(N, D)` and the number of axes that contribute a rounding step -/
def tentGo (hasInter : Bool) : Int × Int × Nat → List Int → List Int → List Int → List Int →
    Option (Int × Int × Nat)
  | acc, [], _, _, _ => some acc
  | (N, D, k), p :: ps, starts, ends, coords =>
    let inter := if hasInter then some (starts.headD 0, ends.headD 0) else none
    match tentAxis (coords.headD 0) p inter with
    | none => none
    | some (a, b) =>
      tentGo hasInter (N * a, D * b, if p = 0 ∨ p = coords.headD 0 then k else k + 1)
        ps starts.tail ends.tail coords.tail

/-- one axis of `compute_scalar` against the exact factor: same applicability, and the new scalar
is `round(s * a / b)` -/
theorem scalarAxis_tent (s c p : Int) (inter : Option (Int × Int)) (hs : 0 ≤ s ∧ s ≤ 65536)
    (hc : inI16 c) (hp : inI16 p) (hi : ∀ st en, inter = some (st, en) → inI16 st ∧ inI16 en ∧ ¬ (st < 0 ∧ en > 0)) :
    match tentAxis c p inter with
    | none => scalarAxis s (Fixed.f2dot14ToFixed c) (Fixed.f2dot14ToFixed p)
        (inter.map fun x => (Fixed.f2dot14ToFixed x.1, Fixed.f2dot14ToFixed x.2)) = none
    | some (a, b) => ∃ s', scalarAxis s (Fixed.f2dot14ToFixed c) (Fixed.f2dot14ToFixed p)
        (inter.map fun x => (Fixed.f2dot14ToFixed x.1, Fixed.f2dot14ToFixed x.2)) = some s' ∧
        0 < a ∧ a ≤ b ∧ 0 ≤ s' ∧ s' ≤ 65536 ∧ 2 * (s' * b - s * a) ≤ b ∧ 2 * (s * a - s' * b) ≤ b ∧
        ((p = 0 ∨ p = c) → s' = s) := by
  unfold inI16 at hc hp
  unfold tentAxis scalarAxis Fixed.f2dot14ToFixed
  by_cases h0 : p = 0
  · subst h0; simp; omega
  · have h0' : ¬ (p * 4 = 0) := by omega
    by_cases h1 : p = c
    · subst h1; simp [h0, h0']; omega
    · have h1' : ¬ (p * 4 = c * 4) := by omega
      simp only [h0, h1, h0', h1', if_false]
      -- the rounding step shared by all branches
      have key : ∀ (a b : Int), 0 < a → a < b → b ≤ 65536 →
          ∃ s', Fixed.mulDiv s (a * 4) (b * 4) = s' ∧ 0 ≤ s' ∧ s' ≤ 65536 ∧
            2 * (s' * b - s * a) ≤ b ∧ 2 * (s * a - s' * b) ≤ b := by
        intro a b ha hab hb
        obtain ⟨e, q0, q1⟩ := Tent.mulDiv_tent (s := s) (n := a * 4) (d := b * 4) hs.1 hs.2 (by omega) (by omega)
          (by omega) (by omega)
        refine ⟨_, e, q0, by omega, ?_, ?_⟩
        · have h1 := Int.ediv_mul_le (s * (a * 4) + b * 4 / 2) (by omega : (b * 4) ≠ 0)
          have e2 : b * 4 / 2 = b * 2 := by omega
          rw [e2] at h1 ⊢
          nlinarith
        · have h1 := Int.lt_ediv_add_one_mul_self (s * (a * 4) + b * 4 / 2) (by omega : (0:Int) < b * 4)
          have e2 : b * 4 / 2 = b * 2 := by omega
          rw [e2] at h1 ⊢
          nlinarith
      cases inter with
      | none =>
        simp only [Option.getD_none, Option.map_none]
        by_cases hpos : 0 < p
        · have e1 : min p 0 = 0 := Int.min_eq_right (by omega)
          have e2 : max p 0 = p := Int.max_eq_left (by omega)
          have e3 : min (p * 4) 0 = 0 := Int.min_eq_right (by omega)
          have e4 : max (p * 4) 0 = p * 4 := Int.max_eq_left (by omega)
          rw [e1, e2, e3, e4]
          by_cases hout : c ≤ 0 ∨ c ≥ p
          · simp only [hout, if_true]
            by_cases hc0 : c * 4 = 0
            · rw [if_pos hc0]
            · have : c * 4 < 0 ∨ c * 4 > p * 4 := by omega
              rw [if_neg hc0, if_pos this]
          · have hc0 : ¬ (c * 4 = 0) := by omega
            have hin : ¬ (c * 4 < 0 ∨ c * 4 > p * 4) := by omega
            have hlt : c < p := by omega
            simp only [hout, if_false, hlt, if_true, hc0, hin, Int.sub_zero]
            obtain ⟨s', e, r0, r1, r2, r3⟩ := key c p (by omega) (by omega) (by omega)
            exact ⟨s', by rw [e], by omega, by omega, r0, r1, r2, r3, fun h => by rcases h with h | h <;> exact h.elim⟩
        · have hneg : p < 0 := by omega
          have e1 : min p 0 = p := Int.min_eq_left (by omega)
          have e2 : max p 0 = 0 := Int.max_eq_right (by omega)
          have e3 : min (p * 4) 0 = p * 4 := Int.min_eq_left (by omega)
          have e4 : max (p * 4) 0 = 0 := Int.max_eq_right (by omega)
          rw [e1, e2, e3, e4]
          by_cases hout : c ≤ p ∨ c ≥ 0
          · simp only [hout, if_true]
            by_cases hc0 : c * 4 = 0
            · rw [if_pos hc0]
            · have : c * 4 < p * 4 ∨ c * 4 > 0 := by omega
              rw [if_neg hc0, if_pos this]
          · have hc0 : ¬ (c * 4 = 0) := by omega
            have hin : ¬ (c * 4 < p * 4 ∨ c * 4 > 0) := by omega
            have hlt : ¬ c < p := by omega
            simp only [hout, if_false, hlt, hc0, hin, Int.zero_sub]
            rw [mulDiv_neg_neg s (c * 4) (p * 4) (by omega) (by omega)]
            obtain ⟨s', e, r0, r1, r2, r3⟩ := key (-c) (-p) (by omega) (by omega) (by omega)
            have ea : -(c * 4) = -c * 4 := by ring
            have eb : -(p * 4) = -p * 4 := by ring
            rw [ea, eb]
            exact ⟨s', by rw [e], by omega, by omega, r0, r1, r2, r3, fun h => by rcases h with h | h <;> exact h.elim⟩
      | some se =>
        obtain ⟨st, en⟩ := se
        obtain ⟨⟨hs1, hs2⟩, ⟨he1, he2⟩, hns⟩ := hi st en rfl
        simp only [Option.getD_some, Option.map_some]
        have fs : ∀ x y : Int, -32768 ≤ x → x < 32768 → -32768 ≤ y → y < 32768 →
            Tent.fsub (x * 4) (y * 4) = (x - y) * 4 := by
          intro x y _ _ _ _
          unfold Tent.fsub; rw [Tent.wrapI32_id (by unfold inI32; omega)]; ring
        by_cases hout : c ≤ st ∨ c ≥ en
        · simp only [hout, if_true]
          by_cases hc0 : c * 4 = 0
          · rw [if_pos hc0]
          · have : c * 4 ≤ st * 4 ∨ c * 4 ≥ en * 4 := by omega
            rw [if_neg hc0, if_pos this]
        · have hc0 : ¬ (c * 4 = 0) := by omega
          have hin : ¬ (c * 4 ≤ st * 4 ∨ c * 4 ≥ en * 4) := by omega
          simp only [hout, if_false, hc0, hin]
          by_cases hlt : c < p
          · have hlt4 : c * 4 < p * 4 := by omega
            simp only [hlt, hlt4, if_true]
            rw [fs c st hc.1 hc.2 hs1 hs2, fs p st hp.1 hp.2 hs1 hs2]
            obtain ⟨s', e, r0, r1, r2, r3⟩ := key (c - st) (p - st) (by omega) (by omega) (by omega)
            exact ⟨s', by rw [e], by omega, by omega, r0, r1, r2, r3, fun h => by rcases h with h | h <;> exact h.elim⟩
          · have hlt4 : ¬ c * 4 < p * 4 := by omega
            simp only [hlt, hlt4, if_false]
            rw [fs en c he1 he2 hc.1 hc.2, fs en p he1 he2 hp.1 hp.2]
            obtain ⟨s', e, r0, r1, r2, r3⟩ := key (en - c) (en - p) (by omega) (by omega) (by omega)
            exact ⟨s', by rw [e], by omega, by omega, r0, r1, r2, r3, fun h => by rcases h with h | h <;> exact h.elim⟩

/-- well-formed intermediate tuples: i16 values, no region straddling zero -/
def InterOk (starts ends : List Int) : Prop :=
  ∀ i, inI16 (starts.getD i 0) ∧ inI16 (ends.getD i 0) ∧ ¬ (starts.getD i 0 < 0 ∧ ends.getD i 0 > 0)

theorem InterOk.tail {starts ends : List Int} (h : InterOk starts ends) : InterOk starts.tail ends.tail := by
  intro i
  have := h (i + 1)
  cases starts <;> cases ends <;> simp_all [inI16]

theorem headD_eq_getD (l : List Int) : l.headD 0 = l.getD 0 0 := by cases l <;> rfl

/-- the loop of `compute_scalar` against the exact tent product -/
theorem scalarGo_tent (hasInter : Bool) : ∀ (peak starts ends coords : List Int) (s N D : Int) (k : Nat),
    (∀ v ∈ peak, inI16 v) → (∀ v ∈ coords, inI16 v) → InterOk starts ends →
    0 ≤ s ∧ s ≤ 65536 → 0 < D → 0 ≤ N →
    2 * (s * D - 65536 * N) ≤ k * D → 2 * (65536 * N - s * D) ≤ k * D →
    match tentGo hasInter (N, D, k) peak starts ends coords with
    | none => scalarGo hasInter s peak starts ends coords = none
    | some (N', D', k') => ∃ s', scalarGo hasInter s peak starts ends coords = some s' ∧
        0 ≤ s' ∧ s' ≤ 65536 ∧ 0 < D' ∧ 0 ≤ N' ∧ k' ≤ k + peak.length ∧
        2 * (s' * D' - 65536 * N') ≤ k' * D' ∧ 2 * (65536 * N' - s' * D') ≤ k' * D' := by
  intro peak
  induction peak with
  | nil =>
    intro starts ends coords s N D k _ _ _ hs hD hN h1 h2
    simp only [tentGo, scalarGo]
    exact ⟨s, rfl, hs.1, hs.2, hD, hN, by simp, h1, h2⟩
  | cons p ps ih =>
    intro starts ends coords s N D k hp hc hi hs hD hN h1 h2
    have hp0 := hp p (by simp)
    have hc0 : inI16 (coords.headD 0) := by
      cases coords with
      | nil => simp [inI16]
      | cons c cs => exact hc c (by simp)
    have hct : ∀ v ∈ coords.tail, inI16 v := fun v hv => hc v (List.mem_of_mem_tail hv)
    have hi0 := hi 0
    rw [← headD_eq_getD, ← headD_eq_getD] at hi0
    have hax := scalarAxis_tent s (coords.headD 0) p
      (if hasInter then some (starts.headD 0, ends.headD 0) else none) hs hc0 hp0
      (by intro st en h
          cases hasInter with
          | false => simp at h
          | true =>
            simp only [if_true, Option.some.injEq, Prod.mk.injEq] at h
            obtain ⟨rfl, rfl⟩ := h
            exact hi0)
    have hmap : (if hasInter then some (starts.headD 0, ends.headD 0) else none).map
          (fun x : Int × Int => (Fixed.f2dot14ToFixed x.1, Fixed.f2dot14ToFixed x.2))
        = (if hasInter then some (Fixed.f2dot14ToFixed (starts.headD 0), Fixed.f2dot14ToFixed (ends.headD 0)) else none) := by
      cases hasInter <;> rfl
    rw [hmap] at hax
    simp only [tentGo, scalarGo]
    cases hta : tentAxis (coords.headD 0) p (if hasInter then some (starts.headD 0, ends.headD 0) else none) with
    | none =>
      rw [hta] at hax
      simp only [] at hax
      simp only [hax]
    | some ab =>
      obtain ⟨a, b⟩ := ab
      rw [hta] at hax
      simp only [] at hax
      obtain ⟨s', e, a0, ab, s0, s1, r1, r2, hsame⟩ := hax
      simp only [e]
      have hb0 : 0 < b := by omega
      have hkD : (0 : Int) ≤ k * D := Int.mul_nonneg (by omega) (by omega)
      by_cases hskip : p = 0 ∨ p = coords.headD 0
      · -- no rounding on this axis: factor 1
        have hs' := hsame hskip
        have hab1 : a = 1 ∧ b = 1 := by
          unfold tentAxis at hta
          rcases hskip with h | h
          · simp [h] at hta; exact ⟨hta.1.symm, hta.2.symm⟩
          · by_cases h0 : p = 0
            · simp [h0] at hta; exact ⟨hta.1.symm, hta.2.symm⟩
            · simp [h0, h] at hta; exact ⟨hta.1.symm, hta.2.symm⟩
        obtain ⟨rfl, rfl⟩ := hab1
        subst hs'
        simp only [hskip, if_true, Int.mul_one]
        have := ih starts.tail ends.tail coords.tail s' N D k (fun v hv => hp v (by simp [hv])) hct hi.tail
          hs hD hN h1 h2
        cases htg : tentGo hasInter (N, D, k) ps starts.tail ends.tail coords.tail with
        | none => rw [htg] at this; exact this
        | some r =>
          obtain ⟨N', D', k'⟩ := r
          rw [htg] at this
          obtain ⟨s2, e2, q0, q1, q2, q3, q4, q5, q6⟩ := this
          exact ⟨s2, e2, q0, q1, q2, q3, by simp only [List.length_cons]; omega, q5, q6⟩
      · simp only [hskip, if_false]
        have hND : (0 : Int) ≤ N * a := Int.mul_nonneg hN (by omega)
        have hDb : (0 : Int) < D * b := Int.mul_pos hD hb0
        have g1 : 2 * (s' * (D * b) - 65536 * (N * a)) ≤ ((k + 1 : Nat) : Int) * (D * b) := by
          have e1 : s' * (D * b) - 65536 * (N * a) = a * (s * D - 65536 * N) + D * (s' * b - s * a) := by ring
          have t1 : a * (2 * (s * D - 65536 * N)) ≤ b * (k * D) := by
            have := Int.mul_le_mul_of_nonneg_left h1 (by omega : (0:Int) ≤ a)
            have := Int.mul_le_mul_of_nonneg_right ab hkD
            nlinarith
          have t2 : D * (2 * (s' * b - s * a)) ≤ D * b := Int.mul_le_mul_of_nonneg_left r1 (by omega)
          push_cast
          nlinarith
        have g2 : 2 * (65536 * (N * a) - s' * (D * b)) ≤ ((k + 1 : Nat) : Int) * (D * b) := by
          have t1 : a * (2 * (65536 * N - s * D)) ≤ b * (k * D) := by
            have := Int.mul_le_mul_of_nonneg_left h2 (by omega : (0:Int) ≤ a)
            have := Int.mul_le_mul_of_nonneg_right ab hkD
            nlinarith
          have t2 : D * (2 * (s * a - s' * b)) ≤ D * b := Int.mul_le_mul_of_nonneg_left r2 (by omega)
          push_cast
          nlinarith
        have := ih starts.tail ends.tail coords.tail s' (N * a) (D * b) (k + 1) (fun v hv => hp v (by simp [hv]))
          hct hi.tail ⟨s0, s1⟩ hDb hND g1 g2
        cases htg : tentGo hasInter (N * a, D * b, k + 1) ps starts.tail ends.tail coords.tail with
        | none => rw [htg] at this; exact this
        | some r =>
          obtain ⟨N', D', k'⟩ := r
          rw [htg] at this
          obtain ⟨s2, e2, q0, q1, q2, q3, q4, q5, q6⟩ := this
          exact ⟨s2, e2, q0, q1, q2, q3, by simp only [List.length_cons]; omega, q5, q6⟩

end FontVerif.GvarApply
