/-
Helper lemmas for C17 (Model/SubsetCmap.lean): `copy_default_uvs` — the ranges written cover exactly
the plan's unicodes that lie in a range of the source table.
-/
import FontVerif.Model.SubsetCmap
import FontVerif.Lemmas.Cmap14
set_option linter.unusedVariables false
namespace FontVerif.SubsetCmap
open FontVerif FontVerif.Cmap FontVerif.Layout

/-- the code points a list of default-UVS ranges (start, additional count) stands for, in order -/
def expandUvs (rs : List (Nat × Nat)) : List Nat := rs.flatMap (fun r => List.range' r.1 (r.2 + 1))

/-- `u` lies in one of the source ranges, as the writer's binary search decides it -/
def foundIn (ranges : List (Nat × Nat)) (u : Nat) : Bool := foundDefaultUvs ⟨0, some ranges, none⟩ u

theorem foundIn_iff (ranges : List (Nat × Nat)) (hp : ranges.Pairwise (fun a b => a.1 + a.2 < b.1)) (u : Nat) :
    foundIn ranges u = true ↔ ∃ r ∈ ranges, r.1 ≤ u ∧ u ≤ r.1 + r.2 := by
  unfold foundIn
  rw [foundDefaultUvs_iff ⟨0, some ranges, none⟩ u (fun rs h => by cases h; exact hp)]
  simp [InDefaults]

/-- one step of the "few unicodes" loop in terms of `foundIn` -/
theorem defaultFew_cons (ranges : List (Nat × Nat)) (start end_ u : Nat) (rest : List Nat) :
    defaultFew ranges start end_ (u :: rest) =
      if foundIn ranges u then
        (if start = INVALID then defaultFew ranges u u rest
         else if end_ + 1 ≠ u ∨ end_ - start = 255 then
           (start, (end_ - start) % 256) :: defaultFew ranges u u rest
         else defaultFew ranges start u rest)
      else defaultFew ranges start end_ rest := by
  rw [defaultFew]
  unfold foundIn foundDefaultUvs
  simp only []
  split <;> rename_i hbs <;> simp [hbs]

/-- with an open block `[start, end]`: the block, then the remaining found unicodes; every count ≤ 255 -/
theorem defaultFew_open (ranges : List (Nat × Nat)) : ∀ (us : List Nat) (start end_ : Nat),
    start ≠ INVALID → start ≤ end_ → end_ - start ≤ 255 →
    us.Pairwise (· < ·) → (∀ u ∈ us, end_ < u ∧ u < INVALID) →
    expandUvs (defaultFew ranges start end_ us) =
      List.range' start (end_ - start + 1) ++ us.filter (foundIn ranges) ∧
    ∀ r ∈ defaultFew ranges start end_ us, r.2 ≤ 255 := by
  intro us
  induction us with
  | nil =>
    intro start end_ h1 h2 h3 _ _
    have hm : (end_ - start) % 256 = end_ - start := by omega
    simp [defaultFew, h1, expandUvs, hm]
    omega
  | cons u rest ih =>
    intro start end_ h1 h2 h3 hasc hgt
    have hu := (hgt u (List.mem_cons_self ..)).1
    have hu2 := (hgt u (List.mem_cons_self ..)).2
    have hasc' := (List.pairwise_cons.1 hasc).2
    have hrest : ∀ v ∈ rest, u < v := (List.pairwise_cons.1 hasc).1
    have hm : (end_ - start) % 256 = end_ - start := by omega
    rw [defaultFew_cons]
    by_cases hf : foundIn ranges u = true
    · simp only [hf, if_true, h1, if_false, List.filter_cons]
      by_cases hsplit : end_ + 1 ≠ u ∨ end_ - start = 255
      · simp only [hsplit, if_true]
        have hne : u ≠ INVALID := by omega
        obtain ⟨e1, e2⟩ := ih u u hne (Nat.le_refl _) (by omega) hasc' (fun v hv => ⟨hrest v hv, (hgt v (List.mem_cons_of_mem _ hv)).2⟩)
        refine ⟨?_, ?_⟩
        · simp only [expandUvs, List.flatMap_cons] at e1 ⊢
          rw [e1, hm]
          simp
        · intro r hr
          rcases List.mem_cons.1 hr with rfl | hr
          · simp only; omega
          · exact e2 r hr
      · simp only [hsplit, if_false]
        have hadj : end_ + 1 = u := by omega
        have hlt : end_ - start ≠ 255 := by omega
        obtain ⟨e1, e2⟩ := ih start u h1 (by omega) (by omega) hasc' (fun v hv => ⟨hrest v hv, (hgt v (List.mem_cons_of_mem _ hv)).2⟩)
        refine ⟨?_, e2⟩
        rw [e1]
        have : u - start + 1 = (end_ - start + 1) + 1 := by omega
        rw [this, List.range'_concat]
        simp only [Nat.one_mul, List.append_assoc, List.cons_append, List.nil_append]
        congr 2
        omega
    · have hf' : foundIn ranges u = false := by cases h : foundIn ranges u <;> simp_all
      simp only [hf', Bool.false_eq_true, if_false, List.filter_cons]
      exact ih start end_ h1 h2 h3 hasc' (fun v hv => ⟨by have := hrest v hv; omega, (hgt v (List.mem_cons_of_mem _ hv)).2⟩)

/-- the "few unicodes" branch from its initial state: the ranges written stand for exactly the plan's
unicodes that lie in a source range, in order; no count exceeds 255 -/
theorem defaultFew_spec (ranges : List (Nat × Nat)) : ∀ (us : List Nat),
    us.Pairwise (· < ·) → (∀ u ∈ us, u < INVALID) →
    expandUvs (defaultFew ranges INVALID INVALID us) = us.filter (foundIn ranges) ∧
    ∀ r ∈ defaultFew ranges INVALID INVALID us, r.2 ≤ 255 := by
  intro us
  induction us with
  | nil => intro _ _; simp [defaultFew, expandUvs]
  | cons u rest ih =>
    intro hasc hlt
    have hasc' := (List.pairwise_cons.1 hasc).2
    have hrest : ∀ v ∈ rest, u < v := (List.pairwise_cons.1 hasc).1
    have hlt' : ∀ v ∈ rest, v < INVALID := fun v hv => hlt v (List.mem_cons_of_mem _ hv)
    have hu := hlt u (List.mem_cons_self ..)
    rw [defaultFew_cons]
    by_cases hf : foundIn ranges u = true
    · simp only [hf, if_true, List.filter_cons]
      obtain ⟨e1, e2⟩ := defaultFew_open ranges rest u u (by omega) (Nat.le_refl _) (by omega) hasc'
        (fun v hv => ⟨hrest v hv, hlt' v hv⟩)
      refine ⟨?_, e2⟩
      rw [e1]
      simp
    · have hf' : foundIn ranges u = false := by cases h : foundIn ranges u <;> simp_all
      simp only [hf', Bool.false_eq_true, if_false, List.filter_cons]
      exact ih hasc' hlt'

/-! ## the "many unicodes" branch -/

/-- `iter_after(cur).next()` on an ascending list: the smallest element above `cur` -/
theorem nextAfter_spec (us : List Nat) (hasc : us.Pairwise (· < ·)) (cur : Nat) :
    (nextAfter us cur = none → ∀ v ∈ us, v ≤ cur) ∧
    (∀ e, nextAfter us cur = some e → ∃ as bs, us = as ++ e :: bs ∧ cur < e ∧
      (∀ a ∈ as, a ≤ cur) ∧ (∀ b ∈ bs, e < b)) := by
  unfold nextAfter
  constructor
  · intro h v hv
    have := List.find?_eq_none.1 h v hv
    simpa using this
  · intro e h
    obtain ⟨hp, as, bs, hus, has⟩ := List.find?_eq_some_iff_append.1 h
    refine ⟨as, bs, hus, by simpa using hp, fun a ha => by have := has a ha; simpa using this, ?_⟩
    intro b hb
    rw [hus] at hasc
    have := (List.pairwise_append.1 hasc).2.1
    exact (List.pairwise_cons.1 this).1 b hb

/-- the visited entries of one source range -/
def visited (us : List Nat) (cur end_ : Nat) : List Nat := us.filter (fun u => decide (cur < u ∧ u < end_))

/-- the pending code point of the loop state -/
def pend (lastCode : Nat) : List Nat := if lastCode = INVALID then [] else [lastCode]

theorem visited_step (us : List Nat) (cur end_ e : Nat) (as bs : List Nat) (hus : us = as ++ e :: bs)
    (hce : cur < e) (hee : e < end_) (has : ∀ a ∈ as, a ≤ cur) (hbs : ∀ b ∈ bs, e < b) :
    visited us cur end_ = e :: visited us e end_ := by
  unfold visited
  subst hus
  have h1 : as.filter (fun u => decide (cur < u ∧ u < end_)) = [] :=
    List.filter_eq_nil_iff.2 (fun a ha => by have := has a ha; simp; omega)
  have h2 : as.filter (fun u => decide (e < u ∧ u < end_)) = [] :=
    List.filter_eq_nil_iff.2 (fun a ha => by have := has a ha; simp; omega)
  have h3 : bs.filter (fun u => decide (cur < u ∧ u < end_)) = bs.filter (fun u => decide (e < u ∧ u < end_)) :=
    List.filter_congr (fun b hb => by
      have hb1 := hbs b hb
      have hb2 : cur < b := by omega
      simp [hb1, hb2])
  simp only [List.filter_append, List.filter_cons, h1, h2, h3, List.nil_append]
  have : decide (cur < e ∧ e < end_) = true := by simp; omega
  have h4 : decide (e < e ∧ e < end_) = false := by simp
  simp [this, h4]

theorem defaultManyRange_spec (us : List Nat) (hasc : us.Pairwise (· < ·)) (hlt : ∀ u ∈ us, u < INVALID)
    (end_ : Nat) : ∀ (fuel cur lastCode : Nat), end_ - cur ≤ fuel → (lastCode = INVALID ∨ lastCode ≤ cur) →
    (defaultManyRange us end_ fuel cur lastCode 0).1.map (·.1) ++ pend (defaultManyRange us end_ fuel cur lastCode 0).2.1 =
      pend lastCode ++ visited us cur end_ ∧
    (∀ r ∈ (defaultManyRange us end_ fuel cur lastCode 0).1, r.2 = 0) ∧
    (defaultManyRange us end_ fuel cur lastCode 0).2.2 = 0 ∧
    ((defaultManyRange us end_ fuel cur lastCode 0).2.1 = lastCode ∨
      ((defaultManyRange us end_ fuel cur lastCode 0).2.1 < end_ ∧
       (defaultManyRange us end_ fuel cur lastCode 0).2.1 ≠ INVALID)) := by
  intro fuel
  induction fuel with
  | zero =>
    intro cur lastCode hf _
    have hv : visited us cur end_ = [] :=
      List.filter_eq_nil_iff.2 (fun a _ => by simp; omega)
    simp [defaultManyRange, hv]
  | succ fuel ih =>
    intro cur lastCode hf hlc
    obtain ⟨n1, n2⟩ := nextAfter_spec us hasc cur
    rw [defaultManyRange]
    cases hn : nextAfter us cur with
    | none =>
      have hv : visited us cur end_ = [] :=
        List.filter_eq_nil_iff.2 (fun a ha => by have := n1 hn a ha; simp; omega)
      simp [hv]
    | some e =>
      obtain ⟨as, bs, hus, hce, has, hbs⟩ := n2 e hn
      have he : e < INVALID := hlt e (by rw [hus]; simp)
      simp only []
      by_cases hge : e ≥ end_
      · have hv : visited us cur end_ = [] := by
          apply List.filter_eq_nil_iff.2
          intro a ha
          rw [hus] at ha
          simp only [List.mem_append, List.mem_cons] at ha
          rcases ha with ha | rfl | ha
          · have := has a ha; simp; omega
          · simp; omega
          · have := hbs a ha; simp; omega
        simp [hge, hv]
      · simp only [hge, if_false]
        have hvs := visited_step us cur end_ e as bs hus hce (by omega) has hbs
        by_cases hinv : lastCode = INVALID
        · simp only [hinv, if_true]
          obtain ⟨i1, i2, i3, i4⟩ := ih e e (by omega) (Or.inr (Nat.le_refl _))
          refine ⟨?_, i2, i3, ?_⟩
          · have hpe : pend e = [e] := by
              have : e ≠ INVALID := by omega
              simp [pend, this]
            rw [i1, hvs, hpe]
            simp [pend]
          · rcases i4 with h | h
            · exact Or.inr ⟨by omega, by omega⟩
            · exact Or.inr h
        · simp only [hinv, if_false]
          have hlc' : lastCode ≤ cur := by rcases hlc with h | h; exact absurd h hinv; exact h
          have hne : lastCode + 0 ≠ e := by omega
          simp only [hne, ne_eq, not_false_eq_true, if_true]
          obtain ⟨i1, i2, i3, i4⟩ := ih e e (by omega) (Or.inr (Nat.le_refl _))
          refine ⟨?_, ?_, i3, ?_⟩
          · have hpe : pend e = [e] := by
              have : e ≠ INVALID := by omega
              simp [pend, this]
            have hpl : pend lastCode = [lastCode] := by simp [pend, hinv]
            simp only [List.map_cons, List.cons_append, i1, hvs, hpl, hpe, List.nil_append]
          · intro r hr
            rcases List.mem_cons.1 hr with rfl | hr
            · rfl
            · exact i2 r hr
          · rcases i4 with h | h
            · exact Or.inr ⟨by omega, by omega⟩
            · exact Or.inr h

/-- the "many unicodes" branch over all source ranges (ascending, disjoint, no range starting at 0):
single-character ranges for exactly the visited entries, range by range -/
theorem defaultMany_spec (us : List Nat) (hasc : us.Pairwise (· < ·)) (hlt : ∀ u ∈ us, u < INVALID) :
    ∀ (ranges : List (Nat × Nat)) (lastCode : Nat) (out : List (Nat × Nat)),
    ranges.Pairwise (fun a b => a.1 + a.2 < b.1) → (∀ r ∈ ranges, 1 ≤ r.1) →
    (lastCode = INVALID ∨ ∀ r ∈ ranges, lastCode ≤ r.1 - 1) →
    defaultMany us ranges lastCode 0 = some out →
    out.map (·.1) = pend lastCode ++ ranges.flatMap (fun r => visited us (r.1 - 1) (r.1 + r.2 + 1)) ∧
    ∀ r ∈ out, r.2 = 0 := by
  intro ranges
  induction ranges with
  | nil =>
    intro lastCode out _ _ _ h
    simp only [defaultMany] at h
    cases Option.some.inj h
    by_cases hi : lastCode = INVALID <;> simp [pend, hi]
  | cons r rest ih =>
    intro lastCode out hp hpos hlc h
    obtain ⟨start, addl⟩ := r
    have hs := hpos (start, addl) (List.mem_cons_self ..)
    simp only at hs
    have hp' := List.pairwise_cons.1 hp
    rw [defaultMany] at h
    have hs0 : start ≠ 0 := by omega
    simp only [hs0, if_false] at h
    obtain ⟨m1, m2, m3, m4⟩ := defaultManyRange_spec us hasc hlt (start - 1 + addl + 2) (addl + 2) (start - 1) lastCode
      (by omega) (by
        rcases hlc with h0 | h0
        · exact Or.inl h0
        · exact Or.inr (h0 (start, addl) (List.mem_cons_self ..)))
    generalize hres : defaultManyRange us (start - 1 + addl + 2) (addl + 2) (start - 1) lastCode 0 = res at h m1 m2 m3 m4
    obtain ⟨em, lc, cnt⟩ := res
    simp only at h m1 m2 m3 m4
    subst m3
    cases hm : defaultMany us rest lc 0 with
    | none => simp [hm] at h
    | some more =>
      simp only [hm] at h
      cases Option.some.inj h
      have hlc' : lc = INVALID ∨ ∀ q ∈ rest, lc ≤ q.1 - 1 := by
        rcases m4 with h0 | ⟨h0, _⟩
        · subst h0
          rcases hlc with h1 | h1
          · exact Or.inl h1
          · exact Or.inr (fun q hq => h1 q (List.mem_cons_of_mem _ hq))
        · refine Or.inr (fun q hq => ?_)
          have := hp'.1 q hq
          simp only at this
          omega
      obtain ⟨i1, i2⟩ := ih lc more hp'.2 (fun q hq => hpos q (List.mem_cons_of_mem _ hq)) hlc' hm
      refine ⟨?_, ?_⟩
      · simp only [List.map_append, List.flatMap_cons]
        rw [i1, ← List.append_assoc, m1]
        have : start - 1 + addl + 2 = start + addl + 1 := by omega
        simp [this]
      · intro q hq
        rcases List.mem_append.1 hq with hq | hq
        · exact m2 q hq
        · exact i2 q hq

/-- counts 0: each written range is one code point -/
theorem expandUvs_singletons (out : List (Nat × Nat)) (h : ∀ r ∈ out, r.2 = 0) : expandUvs out = out.map (·.1) := by
  induction out with
  | nil => rfl
  | cons r rest ih =>
    have h0 := h r (List.mem_cons_self ..)
    simp only [expandUvs, List.flatMap_cons, List.map_cons] at ih ⊢
    rw [ih (fun q hq => h q (List.mem_cons_of_mem _ hq)), h0]
    simp [List.range']

end FontVerif.SubsetCmap
