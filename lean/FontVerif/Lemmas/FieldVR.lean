/- C04: the hand-written GPOS ValueRecord model (Model/ValueRecord.lean) seen as an element of the field DSL
(Model/Field.lean `WItem.arrayV [] 2`, reader segments `[(popcnt 8 format, [2])]`) -/
import FontVerif.Lemmas.ValueRecord
import FontVerif.Lemmas.Field

namespace FontVerif.ValueRecord
open FontVerif.Field

/-- the values of the present slots, in order -/
def slotVals (sl : List (Bool × Nat)) : List Nat := (sl.filter (·.1)).map (·.2)

/-- the flat element the field DSL uses for a value record: the raw value of every slot its format contains -/
def flat (o : Owned) : List Nat := slotVals (slots o)

theorem emitRec_slotVals (sl : List (Bool × Nat)) (h : ∀ e ∈ sl, e.2 < 65536) :
    emitRec (List.replicate (slotVals sl).length 2) (slotVals sl) = some (writeSlots sl) := by
  induction sl with
  | nil => simp [slotVals, emitRec, writeSlots]
  | cons e r ih =>
    obtain ⟨p, v⟩ := e
    have hv : v < 65536 := h (p, v) (by simp)
    have hr : ∀ e ∈ r, e.2 < 65536 := fun e he => h e (by simp [he])
    have ih' := ih hr
    cases p with
    | false =>
      simpa [slotVals, writeSlots] using ih'
    | true =>
      have hv' : v < 256 ^ 2 := by simpa using hv
      simp only [slotVals, List.filter_cons, if_true, List.map_cons, List.length_cons, List.replicate_succ, emitRec,
        if_pos hv', writeSlots] at ih' ⊢
      rw [ih']

theorem hasBit_succ (f i : Nat) : hasBit f (i + 1) = hasBit (f / 2) i := by
  simp only [hasBit, Nat.pow_succ, Nat.mul_comm (2 ^ i) 2, ← Nat.div_div_eq_div_mul]

theorem filter_hasBit_length (k : Nat) : ∀ f, ((List.range k).filter (hasBit f)).length = popcount k f := by
  induction k with
  | zero => intro f; simp [popcount]
  | succ k ih =>
    intro f
    rw [List.range_succ_eq_map, List.filter_cons, popcount]
    have hmap : (List.filter (hasBit f) (List.map Nat.succ (List.range k))).length = popcount k (f / 2) := by
      rw [List.filter_map, List.length_map]
      have : (hasBit f ∘ Nat.succ) = hasBit (f / 2) := by
        funext i
        exact hasBit_succ f i
      rw [this, ih]
    have h0 : hasBit f 0 = (f % 2 == 1) := by simp [hasBit]
    by_cases hb : f % 2 = 1
    · simp [h0, hb, hmap]; omega
    · have : f % 2 = 0 := by omega
      simp [h0, this, hmap]

theorem flat_length (o : Owned) : (flat o).length = popcount 8 (format o) := by
  have h1 : (flat o).length = (((slots o).map (·.1)).filter id).length := by
    simp only [flat, slotVals, List.length_map, List.filter_map]
    rfl
  rw [h1, slots_bits, fmtBits, List.filter_map, List.length_map]
  exact filter_hasBit_length 8 (format o)

end FontVerif.ValueRecord
